"""Per-property check specifications consumed by run.py.

unit fields: pkg (sdns package, relative to /repo), run (go test -run regex), engine
(rapid | gotest | fuzz), race, tiers{quick,thorough}{checks,shards,steps,timeout,...},
floors {stats-unit: {class: min fraction of evaluations}}.
"""

def T(checks, shards, **kw):
    d = {"checks": checks, "shards": shards}
    d.update(kw)
    return d

PROPS = {}

PROPS["C16"] = {
    "level": "exploration",
    "technique": "model-based stateful property testing (rapid t.Repeat) against map[uint64]V + backing-array invariant scan; sampled concurrent runs under -race",
    "level_text": ("Generated operation sequences on the three table layers are compared step by step with a Go map and the raw probe arrays are scanned for ghosts/duplicates/miscounts; "
                   "capacity, self-eviction, CAS/CAD identity semantics and Len==reachable after quiescence are asserted. Exploration, not proof: sequences are sampled (tens of thousands per run) and concurrent schedules are whatever the scheduler produces. Unit 'limiterstore' runs the same kind of reference-map history against the rate limiters' store (bounds 1-64 with exact oldest-entry eviction, bounds above 1000 pre-filled so that the sampled eviction path is taken): the limiter Get just created is the one the next Get finds, an insert at the bound makes exactly one other key unreachable, distinct keys never share a limiter, Len() equals the reachable entries."),
    "level_note": "Trusted: Go's builtin map as the reference, rapid's generators/shrinker. Not covered: schedule enumeration; 'never wait on a global lock' only via the parked-writer consequence.",
    "rule": ("rapid state machines (t.Repeat, ~100 ops) over UInt64Map / SegmentUInt64Map / Cache against map[uint64]V with keys aimed at "
             "one 3-slot window of the probe array, chosen segments, 0 and extremes; invariant after every op = model equality + backing-array scan "
             "(ghost, duplicate, foreign-segment keys, size accounting). evaluations = op sequences (+ concurrent runs). Non-trivial = sequence with a delete "
             "inside a cluster, a grow, a probe-chain wrap, zero-key traffic, an over-capacity insert, or both outcomes of CAS/CAD; "
             "distinct = hash(classes, first 24 ops, capacity)."),
    "assumptions": ["concurrent schedules are sampled by the Go scheduler, not enumerated",
                    "'writers never wait on a global lock' is tested only as: a writer parked on one segment does not delay writers on other segments"],
    "units": {
        "umap": {"pkg": "./internal/cache", "run": "^TestVerifC16UMap$",
                 "tiers": {"quick": T(10000, 4, steps=80, timeout=300), "thorough": T(250000, 6, steps=120, timeout=3000)},
                 "floors": {"C16.umap": {"cluster-delete": 0.08, "grow": 0.05, "wrap": 0.05, "evict": 0.2}}},
        "segment": {"pkg": "./internal/cache", "run": "^TestVerifC16Segment$",
                    "tiers": {"quick": T(6000, 3, steps=80, timeout=300), "thorough": T(150000, 4, steps=120, timeout=3000)},
                    "floors": {"C16.segment": {"over-capacity": 0.2}}},
        "cache": {"pkg": "./internal/cache", "run": "^TestVerifC16Cache$",
                  "tiers": {"quick": T(3000, 4, steps=60, timeout=300), "thorough": T(60000, 4, steps=100, timeout=3000)},
                  "floors": {"C16.cache": {"over-capacity": 0.2, "cas-both": 0.15, "cad-both": 0.15}}},
        "concurrent": {"pkg": "./internal/cache", "run": "^TestVerifC16Concurrent$", "race": True,
                       "tiers": {"quick": T(60, 3, timeout=300), "thorough": T(1500, 4, timeout=3000)}},
        "nogloballock": {"pkg": "./internal/cache", "run": "^TestVerifC16NoGlobalLock$", "engine": "gotest",
                         "tiers": {"quick": T(1, 1, timeout=300), "thorough": T(1, 1, timeout=300)}},
        "lifetimes": {"pkg": "./middleware/cache", "run": "^TestVerifC16Lifetimes$", "tiers": {"quick": T(80, 8, timeout=600), "thorough": T(1500, 12, timeout=3000)}},
        "limiterstore": {"pkg": "./middleware/ratelimit", "run": "^TestVerifC16LimiterStore$",
                         "tiers": {"quick": T(1500, 2, timeout=300), "thorough": T(60000, 4, timeout=3000)},
                         "floors": {"C16.limiterstore": {"insert-at-the-bound": 0.5, "sampled-eviction-path": 0.15}}},
    },
}

PROPS["C17"] = {
    "level": "exploration",
    "technique": "differential property testing vs netip.Prefix.Contains (boundary-aimed generators) + pipeline-level 'denied => zero downstream effects' oracle on the real default chain, both ingress branches",
    "level_text": ("Generated CIDR lists (nested, adjacent, duplicate, host bits, v4-mapped, malformed) and addresses at every range boundary +-1 are judged against an independent per-prefix scan; "
                   "the same lists drive accesslist, views and the real default chain (wire-born and decoded ingress) where a denied source must produce no reply, no upstream call and no cache entry; "
                   "random handler lists check that ClientOnly handlers never run for auto-wired internal sub-queries. Exploration: sampled inputs, no exhaustiveness claim."),
    "level_note": "Trusted: net/netip as the membership reference; the harness transports stand in for UDP/TCP/DoT/DoH/DoQ writers (real DoH/DoQ sockets are not opened for this property).",
    "rule": ("evaluations = (list, address, transport) probes. Non-trivial = address within +-1 of a prefix boundary or covered by >=2 prefixes (ipset), every accesslist/default-chain probe (classified allowed/denied/internal), "
             "views probes matched by >=1 view, autowire cases where a ClientOnly handler exists and an internal sub-query ran; distinct = hash(class, verdict, family, list shape)."),
    "assumptions": ["loopback sources are skipped in the default-chain unit because 127.0.0.255:0 is the documented internal sentinel"],
    "units": {
        "ipset": {"pkg": "./internal/ipset", "run": "^TestVerifC17IPSet$",
                  "tiers": {"quick": T(4000, 4, timeout=300), "thorough": T(150000, 8, timeout=3000)},
                  "floors": {"C17.ipset": {"boundary±1": 0.5, "overlap>=2": 0.1, "v4-mapped": 0.05}}},
        "accesslist": {"pkg": "./middleware/accesslist", "run": "^TestVerifC17AccessList$",
                       "tiers": {"quick": T(2000, 2, timeout=300), "thorough": T(60000, 4, timeout=3000)},
                       "floors": {"C17.accesslist": {"allowed=true": 0.1, "allowed=false": 0.1, "internal-bypass": 0.01}}},
        "views": {"pkg": "./middleware/views", "run": "^TestVerifC17Views$",
                  "tiers": {"quick": T(2000, 2, timeout=300), "thorough": T(60000, 4, timeout=3000)},
                  "floors": {"C17.views": {"overlapping-views": 0.05, "matched-view-without-record": 0.02}}},
        "autowire": {"pkg": "./middleware", "run": "^TestVerifC17AutoWire$",
                     "tiers": {"quick": T(3000, 1, timeout=300), "thorough": T(100000, 2, timeout=3000)}},
        "defaultchain": {"pkg": "./server", "run": "^TestVerifC17DefaultChain$",
                         "tiers": {"quick": T(150, 4, timeout=400), "thorough": T(3000, 6, timeout=3000)}},
    },
}

PROPS["C14"] = {
    "level": "exploration",
    "technique": "differential property testing vs miekg/dns (KeyTag, ToDS, RRSIG.Verify) and plain math/big RSA over an independent RFC 4034 canonicaliser; coverage-guided native fuzzing of the same oracles in the thorough tier",
    "level_text": ("Generated keys (all algorithms, RSA moduli of 1016..8192 bits with exponents 3..2^128+1, wrapped/padded/malformed base64), RRsets (15 types, case mixes, duplicates, unordered, wildcard expansions, OrigTTL != TTL) and signatures "
                   "(valid, bit-flipped, truncated, widened, swapped) are judged two-directionally against the library and against big-integer arithmetic; documented stricter classes must be rejected; nothing may panic. Exploration: sampled inputs."),
    "level_note": "Trusted: miekg/dns KeyTag/ToDS/Verify, math/big, crypto/ecdsa, crypto/ed25519 as references; the harness canonicaliser is cross-checked against the library on every case both can judge (disagreement => inconclusive, not a finding). Timing is reported only.",
    "rule": ("evaluations = generated (key, rrset, signature) or (key, digest) cases. Non-trivial (signatures) = the RFC binding preflight passed in the reference, so the verdict depended on cryptography or an encoding corner; "
             "(keytag/ds) = a DS matched, the key was wrapped/multi-chunk or the base64 was malformed; distinct = hash(mutation list, strict classes, verdict, rr type, set size)."),
    "assumptions": ["GOST/ED448 and other algorithms the library cannot sign with appear only as 'unsupported'", "super-linear-time clause is a reported canary (slowest case), not asserted"],
    "units": {
        "keytag_ds": {"pkg": "./middleware/resolver/dnssec", "run": "^TestVerifC14KeyTagDS$",
                      "tiers": {"quick": T(12000, 4, timeout=400), "thorough": T(400000, 8, timeout=3000)},
                      "floors": {"C14.keytag_ds": {"rsamd5": 0.05, "wrapped": 0.05, "multi-chunk": 0.2}}},
        "signatures": {"pkg": "./middleware/resolver/dnssec", "run": "^TestVerifC14Signatures$",
                       "tiers": {"quick": T(2500, 8, timeout=600), "thorough": T(60000, 12, timeout=3400)},
                       "floors": {"C14.signatures": {"accepted": 0.1, "wide-exponent-accepted": 0.01, "wildcard-accepted": 0.01, "strict-class": 0.1}}},
        "hostile": {"pkg": "./middleware/resolver/dnssec", "run": "^TestVerifC14Hostile$",
                    "tiers": {"quick": T(3000, 2, timeout=400), "thorough": T(60000, 4, timeout=3000)}},
        "signatures-fuzz": {"pkg": "./middleware/resolver/dnssec", "engine": "fuzz", "fuzz": "FuzzVerifC14Signatures", "run": "^FuzzVerifC14Signatures$",
                            "tiers": {"thorough": {"fuzztime": 240, "timeout": 600, "minimize": "2s"}}},
    },
}

PROPS["C15"] = {
    "level": "exploration",
    "technique": "differential property testing vs dns.Msg.Pack on an aliasing-preserving twin built from a message recipe; pristine-twin immutability witness; pool-state sequences; concurrent packs (-race); native fuzzing (thorough)",
    "level_text": ("Message recipes (70+ record templates over the library's types, OPT with every option kind, SVCB/HTTPS params, multiple/misplaced/aliased OPTs, nil/typed-nil/foreign/PrivateRR records, unpackable names, rcodes -1..4096, "
                   "0-3 questions, sizes around 4096, Compress on/off) are built three times: TryPack/PackClone output must equal the library's bytes whenever handled, decline before any output otherwise, leave the message deep-equal to a pristine twin, "
                   "expose cap==len; sequences and a 0..130-name sweep check carry-over through the pooled state; concurrent workers check that each consumer sees only its own bytes. Exploration."),
    "level_note": "Trusted: miekg/dns Pack as the reference; reflect.DeepEqual as the immutability witness. Concurrent interleavings are sampled. The response-writer/cache-entry call sites are covered only through TryPack/PackClone themselves.",
    "rule": ("evaluations = messages (or sequences / concurrent runs). Non-trivial = handled with >=2 records and compression, an OPT, or size within 64 B of 4096; or declined for a reason other than size (nil/foreign/private/fake-OPT/unpackable name/out-of-range rcode); "
             "sequences with >=2 handled messages; distinct = hash(class list, size bucket, table size)."),
    "assumptions": ["sync.Pool reuse on one locked OS thread is what makes sequence carry-over observable; it is not guaranteed by the runtime"],
    "units": {
        "pack": {"pkg": "./internal/wire", "run": "^TestVerifC15Pack$",
                 "tiers": {"quick": T(6000, 6, timeout=400), "thorough": T(250000, 10, timeout=3000)},
                 "floors": {"C15.pack": {"handled": 0.3, "declined": 0.1, "opt": 0.2, "near-4096": 0.003, "aliased-record": 0.05}}},
        "sequence": {"pkg": "./internal/wire", "run": "^TestVerifC15Sequence$",
                     "tiers": {"quick": T(1500, 4, timeout=400), "thorough": T(50000, 6, timeout=3000)},
                     "floors": {"C15.sequence": {"multi-handled": 0.3, "name-heavy-in-sequence": 0.1}}},
        "dictionary": {"pkg": "./internal/wire", "run": "^TestVerifC15Dictionary$", "engine": "gotest",
                       "tiers": {"quick": T(1, 1, timeout=300), "thorough": T(1, 1, timeout=300)}},
        "concurrent": {"pkg": "./internal/wire", "run": "^TestVerifC15Concurrent$", "race": True,
                       "tiers": {"quick": T(60, 4, timeout=400), "thorough": T(2500, 6, timeout=3000)},
                       "floors": {"C15.concurrent": {"mid-pack-failure-present": 0.1}}},
        "fuzz": {"pkg": "./internal/wire", "engine": "fuzz", "fuzz": "FuzzVerifC15Pack", "run": "^FuzzVerifC15Pack$",
                 "tiers": {"thorough": {"fuzztime": 180, "timeout": 400}}},
    },
}

PROPS["C20"] = {
    "level": "exploration",
    "technique": "property testing against an RFC 6052 bit-layout reference (embed/extract round trip, all six layouts) and a generated decision-table oracle through the dns64 handler with stub upstream and A-lookup queryer",
    "level_text": ("embedIPv4/extractIPv4/validatePrefix/parseIP6ArpaName are compared with a reference that places the 32 address bits after the prefix skipping bits 64..71; through the handler, generated configurations (1-3 prefixes incl. illegal ones, client networks, excluded zones), "
                   "client flags, upstream AAAA shapes (rcodes, EDE lists, CNAMEs, excluded AAAA, AD, SOA TTL/MINIMUM) and A shapes decide, by an independent gate table, whether synthesis may happen, which AAAA set is allowed, the TTL bound and AD=0; PTR names under the prefixes map back to in-addr.arpa. Exploration."),
    "level_note": "Trusted: the harness's own RFC 6052 reference and gate table. The cache/resolver around dns64 are stubs. Completeness (synthesis does happen when allowed) is tracked as a class floor, not asserted.",
    "rule": ("evaluations = generated cases. Non-trivial = synthesis happened, an excluded AAAA was filtered, or exactly one gate refused synthesis; embed cases with a legal prefix; every PTR case; distinct = hash(class, failed gates, prefix lengths, upstream rcode, A shape, EDE list)."),
    "assumptions": ["truncated upstream replies are not generated (the property does not constrain them)"],
    "units": {
        "embed": {"pkg": "./middleware/dns64", "run": "^TestVerifC20Embed$",
                  "tiers": {"quick": T(20000, 2, timeout=300), "thorough": T(500000, 4, timeout=3000)}},
        "decision": {"pkg": "./middleware/dns64", "run": "^TestVerifC20Decision$",
                     "tiers": {"quick": T(10000, 6, timeout=400), "thorough": T(300000, 10, timeout=3000)},
                     "floors": {"C20.decision": {"synthesised": 0.03, "filtered": 0.02, "untouched": 0.2}}},
        "ptr": {"pkg": "./middleware/dns64", "run": "^TestVerifC20PTR$",
                "tiers": {"quick": T(6000, 2, timeout=300), "thorough": T(200000, 4, timeout=3000)}},
    },
}

PROPS["C18"] = {
    "level": "exploration",
    "technique": "model-based property testing against a label-wise reference matcher; generated API histories with restarts; generated concurrent writers with failpoint-driven schedule perturbation; fault/crash injection at every persistence step (verif failpoints)",
    "level_text": ("Generated plain/wildcard/whitelist sets (label-boundary near-misses, mixed case, with/without trailing dot) and probe names are judged by a reference matcher over label slices, through Exists and through ServeDNS (null routes, empty authoritative answer, downstream untouched); "
                   "API histories with restarts, concurrent Set/Remove/SetBatch/RemoveBatch writers and a crash or write fault at each of the five persistence steps must leave the local file a complete snapshot and converge file == memory == reload. Exploration; crash points are enumerated per history by generation, not exhaustively."),
    "level_note": "Trusted: the reference matcher; rename is assumed atomic and durable; failpoints can interrupt between syscalls only (no torn writes). Entry keys are LDH/underscore names (the hosts-format file cannot represent whitespace or '#').",
    "rule": ("evaluations = probe lookups (match) or histories (persist/concurrent/crash). Non-trivial = probe matched by a rule other than 'none' or a not-prefixed near-miss; every persist history; concurrent runs with >=2 writers; "
             "crash histories where the interrupted call really changed the list; distinct = hash(rule, set sizes, op kinds, crash point)."),
    "assumptions": ["root '.' is not used as a list entry", "hostile API keys (whitespace, '#') are outside the generated domain"],
    "units": {
        "match": {"pkg": "./middleware/blocklist", "run": "^TestVerifC18Match$",
                  "tiers": {"quick": T(1200, 4, timeout=400), "thorough": T(40000, 8, timeout=3000)},
                  "floors": {"C18.match": {"plain-parent": 0.05, "wild-parent": 0.03, "whitelisted": 0.02, "plain-exact": 0.05}}},
        "persist_seq": {"pkg": "./middleware/blocklist", "run": "^TestVerifC18PersistSeq$",
                        "tiers": {"quick": T(300, 4, timeout=400), "thorough": T(8000, 8, timeout=3000)},
                        "floors": {"C18.persist_seq": {"restart": 0.2}}},
        "concurrent": {"pkg": "./middleware/blocklist", "run": "^TestVerifC18Concurrent$", "race": True,
                       "tiers": {"quick": T(150, 4, timeout=400), "thorough": T(4000, 8, timeout=3000)}},
        "crash": {"pkg": "./middleware/blocklist", "run": "^TestVerifC18Crash$",
                  "tiers": {"quick": T(300, 4, timeout=400), "thorough": T(8000, 8, timeout=3000)},
                  "floors": {"C18.crash": {"interrupted-real-mutation": 0.2}}},
    },
}

PROPS["C05"] = {
    "level": "exploration",
    "technique": "differential (twin-run) property testing: the same generated history is executed through the wire-born and the decoded ingress in two synctest bubbles with identical virtual clocks and compared step by step",
    "level_text": ("Generated configurations (cookie secret, NSID, chaos, client and per-entry rate limits, hosts file, empty zones), upstream tables (positive, CNAME chains fully/partly present, NXDOMAIN, NODATA, RRSIG-bearing with generated windows, >1232/>4096-byte answers, SERVFAIL with/without EDE, EDE-bearing answers with foreign OPT options, ECS-scoped answers, escaped/binary labels) "
                   "and histories of byte-level query packets (every flag, opcodes, classes, OPT versions/ext-rcode/options incl. hand-encoded malformed ECS, count edits, truncation, compression pointers, trailing bytes) and sleeps are run twice on the real default chain - all packets wire-born vs all decoded - under identical virtual clocks; in half of the cases three quarters of the wire-born UDP packets enter the way the batch UDP reader drives them (Server.ServeRawInline, and Server.ServeRawReplay of the same packet when the inline pass hands it off without writing), and one case in three with a per-entry limit carries a burst on one cached question whose answer does not fit the client's datagram, so a token charged twice across the two passes empties the bucket one packet early; "
                   "decoded replies (header bits, rcode, question, per-section record multisets with TTLs, OPT version/size/DO/options), drop-vs-reply, cache contents with remaining lifetimes, failure-cache state and the upstream call count must be identical after every step. Thorough tier only: unit 'parsewire-fuzz' drives Request.ParseWire with Go's coverage-guided fuzzer (seeded with EDNS / cookie / NSID / keepalive / ECS questions): whatever it accepts the library must decode, and every accessor the chain reads (ID, type, class, flags, opcode, OPT presence, size, DO, version, option presence, cookie halves, materialised question) must equal the decoded request's. Exploration."),
    "level_note": "Trusted: miekg/dns Unpack for decoding both transcripts; the harness transports stand in for the UDP/TCP engine jobs (StrictSlots + LeaseWire). Subtree-cut / RFC 8198 admission needs resolver provenance: in two thirds of the cases the stub serves a zone (sz.example.org.) whose NXDOMAIN / NODATA answers carry complete NSEC proofs and are marked through the resolver-to-cache provenance seam (middleware.MarkValidatedNegativeProofResponse) for CD=0 resolutions, exactly as the validating resolver marks them, so the wire ladder's cut rung and the decoded denial rungs are reached (class wire:cut_served). The wire-born transport job (request, chain, deadline carrier and edns writer slot it owns) is reused from packet to packet, whoever sent it, as the engines reuse their slabs. The inline pass and the replay are called back to back on one goroutine; the reader/worker hand-over of the real engine (ring, staged burst) is C10's ground.",
    "rule": ("evaluations = histories (2-14 steps, each run twice). Non-trivial = the wire run really served from the byte ladder (exact hit, alias chase or cached failure, measured from dns_cache_wire_fastpath_total deltas) or contained a byte-edited packet; distinct = hash(step shapes, config)."),
    "units": {
        "parsewire-fuzz": {"pkg": "./middleware", "engine": "fuzz", "fuzz": "FuzzVerifC05ParseWire", "run": "^FuzzVerifC05ParseWire$",
                           "tiers": {"thorough": {"fuzztime": 240, "timeout": 500, "mem_mb": 24000, "workers": 8}}},
        "twin": {"pkg": "./server", "run": "^TestVerifC05Twin$",
                 "tiers": {"quick": T(1200, 8, timeout=600), "thorough": T(40000, 12, timeout=3400)},
                 "floors": {"C05.twin": {"wire-served": 0.2, "wire:chase_served": 0.02, "wire:failure_served": 0.005, "wire:cut_served": 0.003, "edited-packet": 0.1, "has-dropped-packet": 0.1, "wire:inline_replayed": 0.2, "oversized-hit-burst-under-entry-limit": 0.05}}},
    },
}

PROPS["C04"] = {
    "level": "exploration",
    "technique": "history-based property testing under a virtual clock (testing/synctest): generated query/sleep/purge/late-prefetch histories against the real default chain; every record a client sees is traced (by a per-fetch stamp in its RDATA) to the upstream fetch it came from and judged by a reference lifetime model",
    "level_text": ("Histories of queries (decoded or wire-born, UDP/TCP, CD/DO/ECS/case variants), sleeps from 1 s to beyond 24 h, purges and scripted late-background-refresh orderings run against the real default chain with prefetch on/off and ECS caching on/off. "
                   "The upstream stamps each record with the fetch that produced it and, like a resolver, reports a generated delegation lease; a reference model (min of record TTLs floored at 5 s and capped at 24 h, RRSIG expiry, SOA minimum, ECS cap, lease overriding the floor) gives each fetch an upper-bound lifetime. "
                   "Every cached record a client sees must be inside that lifetime, show a TTL no larger than what remains, never grow between hits on the same stored data, and a refresh that completed after newer client-path data was stored must not be what later lookups return; an alias whose stored entries were all completed with a cached, record-less NXDOMAIN of its target must stop being answered from cache once the last such denial has run out. Unit 'world' repeats the lifetime oracle on the complete stack (real resolver, signed zones with generated TTLs and negative TTLs, NSEC or NSEC3): the in-memory authorities log every record they send with time and TTL, and every record of every client reply must be young enough against that log (TTL <= sent TTL - age), while a negative answer composed from cached pieces - RFC 8198 synthesis included - must not carry a TTL above its shortest piece's remaining life. Exploration."),
    "level_note": "Trusted: the reference lifetime model (an upper bound: sdns may expire earlier). Denial-proof and subtree-cut lifetimes are covered by C02's cache unit; DNS64 composition lifetimes are not exercised here.",
    "rule": ("evaluations = histories. Non-trivial = a cached record judged in the second half of its life or within 3 s of its end, an alias reply composed from cache, or a late refresh ordered after newer data; distinct = hash(classes, step shapes)."),
    "units": {
        "world": {"pkg": "./server", "run": "^TestVerifC04World$", "tiers": {"quick": T(1200, 8, timeout=900), "thorough": T(40000, 12, timeout=3400)},
                  "floors": {"C04.world": {"served-from-cache": 0.3, "composed-negative-from-cache": 0.15, "rfc8198-synthesis": 0.08, "ecs-question": 0.1}}},
        "lifetime": {"pkg": "./server", "run": "^TestVerifC04Lifetime$",
                     "tiers": {"quick": T(2500, 8, timeout=600), "thorough": T(80000, 12, timeout=3400)},
                     "floors": {"C04.lifetime": {"late-in-life": 0.15, "composed-from-cache": 0.05, "late-prefetch-judged": 0.05, "alias-over-cached-denial": 0.03}}},
    },
}

PROPS["C03"] = {
    "level": "exploration",
    "technique": "property testing with planted 64-bit key collisions (in-package export) and question-stamped upstream answers through every lookup route of the real chain; round-trip/differential test of wire vs presentation keying over all label octets",
    "level_text": ("A question is resolved and cached through the real default chain; a near-miss question differing in exactly one dimension (ASCII case, bit 0x20 of a non-letter octet, label boundary, one octet, type, class, CD, ECS source, whole name; escaped and binary labels included) is then looked up after the first entry has been planted under the near-miss's 64-bit key. "
                   "Because the upstream stamps answers with a digest of the question asked, any reply shows whose data it carries: through the decoded and wire ingress, alias chase, Store.Get, explicit-partition admission, purge, RFC 9520 failure lookups (with planted failure-key collisions) and a background refresh answering another question, the near-miss must behave as a miss, while case-only variants and in-scope audiences must hit. Two further routes end every case: a validated NXDOMAIN subtree cut is recorded for a name derived from the first question (through the store's resolver-facing admission) and the near-miss, a child of it and a look-alike whose first label holds a literal dot are asked through both ingresses in generated order - NXDOMAIN (which this stub never produces) may only come back for CD=0 questions of the cut's class at or below the denied name, label by label; and a zone failure recorded for a derived zone may answer SERVFAIL without upstream traffic only at or below that zone. "
                   "A second unit checks KeyWire==Key, KeyWireWithPrefix==KeyWithPrefix and WireNameEqualsPresentation over arbitrary label octets. Exploration."),
    "level_note": "Trusted: fnv digest stamping in the stub; netip for the audience relation. Collisions are planted through a verif-tagged export in the cache package rather than found; subtree-cut key collisions are not planted; the cut is recorded directly through Store.RecordNXDomainCut with a structurally complete proof rather than through a validating resolver.",
    "rule": ("evaluations = (stored question, looked-up question, route list) cases and key cases. Non-trivial = a collision was actually planted or the pair is the same question in another spelling; distinct = hash(dimension, both questions, routes)."),
    "units": {
        "routes": {"pkg": "./server", "run": "^TestVerifC03Routes$",
                   "tiers": {"quick": T(1200, 8, timeout=600), "thorough": T(40000, 12, timeout=3400)},
                   "floors": {"C03.routes": {"planted": 0.4, "failure-planted": 0.2, "same-question-variant": 0.15, "mismatched-refresh": 0.03, "store-set": 0.1, "cut-served": 0.3, "zone-failure-served": 0.3}}},
        "keys": {"pkg": "./internal/cache", "run": "^TestVerifC03Keys$",
                 "tiers": {"quick": T(20000, 2, timeout=300), "thorough": T(600000, 4, timeout=3000)}},
    },
}

PROPS["C13"] = {
    "level": "exploration",
    "technique": "model-based history testing under a virtual clock: generated failing/succeeding/request-locally-failing resolutions, zone failures reported as the resolver reports them, near-miss partitions and time gaps on the real default chain; a reference failure-state model (partition key, backoff envelope) judges replies, upstream traffic and retained state; concurrent-follower probe test",
    "level_text": ("Histories (3-18 steps) over a fixed name universe with near-miss partitions (other name, parent/child/sibling, escaped-dot labels, other type, CD, ECS audience, case) mix queries whose upstream outcome is scripted (answer, SERVFAIL with/without EDE, or a failure marked request-local the way the resolver marks deadline / cancellation / attempt-limit / recursion-limit), zone failures reported and cleared through the resolver's store interface, and sleeps placed around min, 2*min and max; min/max settings and the rfc9520 kill switch are generated. "
                   "A reference model decides for every query whether it is inside a backoff (exact partition, or a name at/below a failed zone, label-wise): then the reply must be a bare SERVFAIL with EDE 13 iff the client spoke EDNS and upstream must stay silent; otherwise upstream must be contacted exactly once. Recorded backoffs are read back and must start at min, at most double, never exceed max (<= 5 min), restart after a useful answer or an idle period >= max; request-local failures must leave shared state untouched; with the switch off nothing is recorded or served. "
                   "A second unit releases 2-8 concurrent clients (with identical, distinct or no ECS sources) at an expired question or zone backoff and requires a single upstream probe at a time. Exploration."),
    "level_note": "Trusted: the reference backoff model (envelope, not the exact schedule). 'Every one of whose servers failed' as the resolver's own decision is unit 'world' (resolver-world harness: zones lose all or one of two authorities to silence / REFUSED / SERVFAIL, heal at a generated step; names of half-dead, healthy and parent zones, and - once the authorities are back and 5 min + 10 s have passed - of the dead zone itself, must be answered truthfully); capacity evictions are not generated (default failure-cache size).",
    "rule": ("evaluations = histories (and concurrent probe runs). Non-trivial = a lookup during an active backoff, a second or later consecutive failure, or a request-local cause; distinct = hash(settings, step shapes)."),
    "units": {
        "world": {"pkg": "./server", "run": "^TestVerifC13World$", "tiers": {"quick": T(800, 8, timeout=900), "thorough": T(25000, 12, timeout=3400)},
                  "floors": {"C13.world": {"asked-while-dead": 0.5, "must-answer": 0.8, "dead-zone-after-backoff": 0.8, "suppressed-by-cached-failure": 0.1, "zone:half.test.": 0.5}}},
        "history": {"pkg": "./server", "run": "^TestVerifC13History$",
                    "tiers": {"quick": T(1500, 8, timeout=600), "thorough": T(50000, 12, timeout=3400)},
                    "floors": {"C13.history": {"lookup-during-backoff": 0.1, "consecutive-failure": 0.03, "request-local-cause": 0.2, "success-after-failure": 0.02, "rfc9520-off": 0.05}}},
        "probe": {"pkg": "./server", "run": "^TestVerifC13Probe$",
                  "tiers": {"quick": T(150, 4, timeout=600), "thorough": T(5000, 8, timeout=3400)}},
    },
}

PROPS["C06"] = {
    "level": "exploration",
    "technique": "property testing of reply-shape predicates computed from the client's raw packet, over generated byte-level queries x upstream answers (oversized, signed, foreign EDNS options) x transports x config, through the real default chain; plus real loopback UDP/TCP listeners for the header-screen rules",
    "level_text": ("Every reply produced by generated histories on the real default chain is judged against predicates computed from the client's own raw packet: QR, ID echo (0 on the DoQ-style entry), opcode echo, question echo unless a bare-header rejection, no OPT without a query OPT, no RRSIG/NSEC/NSEC3 without DO (RRSIG questions excepted), AD clear for CD or (no DO and no AD) clients, reply options limited to cookie-against-client-cookie / NSID-if-requested-and-configured / keepalive-if-stream-and-sent / EDE / padding-if-sent and never ECS or anything foreign, and the UDP size-or-bare-TC rule. "
                   "Queries are byte-level (all flags, opcodes, classes, OPT versions, malformed and duplicate options, count edits, truncations); upstream answers are oversized, carry additional records, signatures and foreign OPT options; ingress is wire-born, decoded, and the decoded ServeMsg entry DoH/DoQ use; cookie secret, NSID and ECS policy are toggled. "
                   "A second unit drives the real UDP and TCP listeners on loopback for the header screen: responses unanswered, NOTIMP, FORMERR, BADVERS. Exploration."),
    "level_note": "Trusted: miekg/dns for decoding. DoT, real DoH (HTTP framing) and real DoQ (quic-go streams) sockets are not opened: DoH/DoQ are represented by the decoded ServeMsg entry with their protocol-named writers, the DoQ ID rule by emulating doq.ResponseWriter's ID zeroing. 'No reply' on sockets is a 300-400 ms silence.",
    "rule": ("evaluations = (query, reply) pairs. Non-trivial = at least one shaping rule was relevant (cookie, NSID, keepalive, EDE, truncation / near the UDP limit, BADVERS, bare rejection, response packet, non-query opcode, undecodable query); distinct = hash(rules fired, config, query shape)."),
    "units": {
        "shape": {"pkg": "./server", "run": "^TestVerifC06Shape$",
                  "tiers": {"quick": T(800, 8, timeout=600), "thorough": T(30000, 12, timeout=3400)},
                  "floors": {"C06.shape": {"cookie": 0.02, "nsid": 0.01, "ede": 0.01, "truncated": 0.003, "edns-version": 0.01}}},
        "listeners": {"pkg": "./server", "run": "^TestVerifC06Listeners$",
                      "tiers": {"quick": T(25, 2, timeout=600), "thorough": T(600, 4, timeout=3400)}},
    },
}

PROPS["C19"] = {
    "share": ["C04"],
    "level": "exploration",
    "technique": "property testing against reference prefix arithmetic (net/netip) for the ECS policy, plus audience-model history testing on the real default chain: a recording upstream shows exactly which options leave sdns and stamps answers so every cached reply can be attributed to the audience it was fetched for",
    "level_text": ("Unit 'policy': generated policies (ceilings, floors, networks, invalid values), client addresses and client-sent subnet options (all families, masks 0-128 and beyond, host bits set) are run through internal/ecs; the forwarded option must equal the net/netip reference (client-stated or transport-derived source, truncated to the ceiling, host bits zeroed) or be absent, and the stored scope must equal min(authority scope, source bits, floor) with family caps. "
                   "Unit 'audience': histories of 2-10 queries and sleeps on the real default chain under a virtual clock, over generated policies (enabled/disabled, invalid CIDR lists, ceilings, floors, scoped-TTL limit, prefetch threshold), clients inside and outside the permitted networks, hand-encoded client ECS options (malformed ones included) next to cookie/NSID/padding/keepalive/local options, wire-born and decoded ingress. "
                   "The upstream stub records every option that reaches it and stamps its answer with the call index; the oracle requires (1) no client-supplied option other than ECS upstream, no ECS when forwarding is not permitted, and the reference subnet when it is, (2) no ECS in any client reply, (3) a cached answer that was fetched for a scoped audience is served only to clients whose forwarded subnet lies inside that scope, only within the scoped TTL limit, and never together with background upstream work. Unit 'geo' asks the audience question of the real iterative resolver: geo.test. is served by an authority that tailors www.geo.test./A to the client subnet it is shown (the address spells the subnet) and declares a generated scope (0, /16, /24, /32; /48-/64 for IPv6); clients from three networks, with and without a client-subnet option, ask for the name directly and through an in-zone and a cross-zone alias, in generated order with sleeps; whoever receives a tailored address must have sent a subnet - or, having sent none, have an address - inside the network it was tailored for, within the declared scope, and no reply carries a client-subnet option. Exploration."),
    "level_note": "Trusted: net/netip prefix arithmetic and the reference reading of the policy (docs in internal/ecs, config comments). The authority's scope is scripted per name; The 'no shared denial state for ECS queries' clause is decided by unit 'denial-state' (the resolver-world lifetime / provenance test): every NSEC/NSEC3 an authority sends is logged with the client question being resolved, and a synthesised denial may not rest on a record that was only ever fetched for questions carrying a client subnet option (valid, or one of the shapes the policy refuses: IPv4-mapped, over-long, host bits set, family 0).",
    "rule": ("evaluations = policy cases / histories. Non-trivial = forwarding was permitted for at least one step or a scoped entry was hit from cache; distinct = hash(policy, step shapes)."),
    "units": {
        "denial-state": {"pkg": "./server", "run": "^TestVerifC04World$", "tiers": {"quick": T(1200, 8, timeout=900), "thorough": T(40000, 12, timeout=3400)}},
        "geo": {"pkg": "./server", "run": "^TestVerifC19Geo$", "tiers": {"quick": T(400, 8, timeout=600), "thorough": T(20000, 12, timeout=3400)},
                "floors": {"C19.geo": {"tailored-answer": 0.3, "tailored-answer-from-cache": 0.05, "global-answer": 0.2}}},
        "policy": {"pkg": "./internal/ecs", "run": "^TestVerifC19Policy$",
                   "tiers": {"quick": T(30000, 2, timeout=300), "thorough": T(800000, 4, timeout=3000)}},
        "audience": {"pkg": "./server", "run": "^TestVerifC19Audience$",
                     "tiers": {"quick": T(1200, 8, timeout=600), "thorough": T(40000, 12, timeout=3400)},
                     "floors": {"C19.audience": {"forwarding-permitted": 0.15, "scoped-entry-hit": 0.02, "served-from-cache": 0.1, "policy-disabled": 0.05}}},
    },
}

PROPS["C02"] = {
    "share": ["C04"],
    "level": "exploration",
    "technique": "property testing of every denial verifier and RFC 8198 evaluator against zone ground truth: generated signed zones, arbitrary subsets/orders/pollutions of their genuine NSEC/NSEC3 chains, generated questions; accept => truth agrees; plus RFC 4034 canonical-order and interval references",
    "level_text": ("A zone model (owners with escaped/binary labels, wildcards, empty non-terminals, secure and insecure delegations with glue, DNAMEs, CNAMEs; NSEC3 salt/iterations/opt-out) renders the genuine NSEC and NSEC3 chains and answers 'what is true for (name, type)' straight from RFC 1034/4592/6672. "
                   "Each case hands a generated subset, rotation and pollution of those chains (records of sibling/ancestor zones incl. escaped-dot look-alikes, a second chain with other NSEC3 parameters, another class, a child zone's records), after the same FilterRRsToZone step Resolver.authority applies, to VerifyNameErrorNSEC, VerifyNODATANSEC, VerifyDelegationNSEC, EvaluateAggressiveNSEC(+Prepared), VerifyNameErrorForZoneWithWork, VerifyNODATAForZoneWithWork, VerifyDelegationForZoneWithWork and EvaluateAggressiveNSEC3 for a generated question aimed at owners, ENTs, names below cuts/DNAMEs, wildcard-covered and absent names. "
                   "Whenever one of them accepts, the zone must agree: NXDOMAIN only for names that do not exist and are not wildcard-matched, NODATA only where the type (and CNAME) is absent and the name is not below a cut or DNAME, 'insecure delegation' only for a delegation without DS; secure=true and every RFC 8198 synthesis is judged strictly, secure=false may lean on an opt-out span only where the signed part of the zone proves nothing to the contrary; mixed NSEC3 parameter/class sets must be refused; RFC 8198 synthesis must not cover the next-closer or wildcard name with an opt-out span. "
                   "Unit 'exhaustive' enumerates instead of sampling: all well-formed zones with up to three owners from {a, b, a.a, b.a, *.a} in every role (data, insecure / secure delegation, DNAME, CNAME), every subset of their NSEC chains, the NSEC3 chain with each single record removed, every question name over {a, b, c} to depth 2 plus selected depth-3 names, types A / DS / NS - the same judge. Unit 'order' checks CanonicalCompare, nsecCovers and NameInZone against references written from RFC 4034 §6.1. Asterisk labels are generated anywhere in an owner name (RFC 4592), so wildcards occur that exist only as empty non-terminals - a source of synthesis that matches and holds nothing - and empty non-terminals occur next to wildcards; one NSEC case in eight the question is asked in class CH against the class-IN chain, or the chain is given as a class-CH copy, and then nothing may be accepted. Unit 'wildcard' expands one of the zone's wildcard RRsets over a generated name below the wildcard's parent (the RRSIG Labels field names the wildcard), puts a generated subset of the zone's genuine NSEC or NSEC3 chain into the authority section and calls VerifyWildcardAnswerForZoneWithWork: acceptance with secure=true is right only if the zone itself answers that name from that wildcard. Exploration."),
    "level_note": "Trusted: the zone model (vfmodel) as ground truth and miekg/dns NSEC3 hashing. Records are unsigned at this level - the signature/signer binding that precedes the verifiers is C01/C14 territory, which is why in-zone forged records are not generated. Unit 'synthesis' (the resolver-world lifetime / provenance test, shared with C04 and C19) covers the cache side: on the real stack with real signatures, every negative answer composed from cache - exact entries and RFC 8198 syntheses from proofs admitted at different times - must carry the zone's true rcode, records no authority ever sent may not appear, no record may outlive its TTL and the whole answer not its shortest piece. Incomplete or tampered proofs ending in SERVFAIL rather than a denial is C01's oracle. Admission orders of the subtree-cut cache are exercised only as far as these histories reach them. NSEC3 hash collisions are not generated.",
    "rule": ("evaluations = (zone, record set, question) cases, each put to every verifier. Non-trivial = some verifier accepted, or the record set was a strict subset or polluted; distinct = hash(truth class, qtype, chain size, records given, accepted, polluted/mixed, parameters)."),
    "units": {
        "exhaustive": {"pkg": "./middleware/resolver/dnssec", "run": "^TestVerifC02Exhaustive$", "engine": "gotest", "tiers": {"quick": T(1, 1, timeout=600), "thorough": T(1, 1, timeout=1200)}},
        "synthesis": {"pkg": "./server", "run": "^TestVerifC04World$", "tiers": {"quick": T(1200, 8, timeout=900), "thorough": T(40000, 12, timeout=3400)}},
        "nsec": {"pkg": "./middleware/resolver/dnssec", "run": "^TestVerifC02NSEC$",
                 "tiers": {"quick": T(15000, 6, timeout=600), "thorough": T(600000, 10, timeout=3400)},
                 "floors": {"C02.nsec": {"truth:ent": 0.02, "truth:referral": 0.02, "truth:dname": 0.005, "polluted": 0.1, "accepted": 0.2, "partial-chain": 0.3, "foreign-class": 0.08, "truth:ent+wildcard": 0.001}}},
        "wildcard": {"pkg": "./middleware/resolver/dnssec", "run": "^TestVerifC02Wildcard$",
                     "tiers": {"quick": T(15000, 6, timeout=600), "thorough": T(600000, 10, timeout=3400)},
                     "floors": {"C02.wildcard": {"accepted-genuine-expansion": 0.02, "truth:nodata": 0.03, "truth:nxdomain": 0.05, "nsec3": 0.3}}},
        "nsec3": {"pkg": "./middleware/resolver/dnssec", "run": "^TestVerifC02NSEC3$",
                  "tiers": {"quick": T(6000, 6, timeout=600), "thorough": T(200000, 10, timeout=3400)},
                  "floors": {"C02.nsec3": {"truth:ent": 0.02, "truth:referral": 0.02, "opt-out-zone": 0.15, "mixed-parameters": 0.1, "accepted": 0.1}}},
        "order": {"pkg": "./middleware/resolver/dnssec", "run": "^TestVerifC02Order$",
                  "tiers": {"quick": T(30000, 2, timeout=300), "thorough": T(1000000, 4, timeout=3000)}},
    },
}

PROPS["C01"] = {
    "level": "exploration",
    "technique": "model-based property testing of the whole resolver stack against a generated signed namespace with ground truth: in-memory authorities behind the dial hook, a generated tamper script on one zone's responses, histories of client questions under a virtual clock; each reply is judged against what the signers published",
    "level_text": ("A generator draws a namespace (signed root, one or two TLDs, second- and third-level zones; NSEC / NSEC3 with salt, iterations and opt-out; split or single keys, ECDSA P-256 and Ed25519; unsigned zones, signed islands without DS, delegations whose DS matches no key; parent and child on one server; wildcards next to concrete siblings, empty non-terminals, CNAME and DNAME aliases across zones) and signs it with miekg/dns. "
                   "In-memory authorities serve RFC 4035/5155-conformant responses through the verif dial hook; sdns runs its complete default chain (edns, cache, resolver, ...) inside a synctest bubble. A tamper script edits every response of one zone (empty, corrupt / strip signatures, strip all DNSSEC, genuinely re-signed but expired / not yet valid, re-signed by a validly chained zone that is no ancestor) or one kind of response (flipped RDATA, dropped or foreign denial, flipped RCODE, stripped or swapped DS, injected foreign records, unsigned replacement, RFC 4035 5.3.4 wildcard replay with forged in-zone / parent-zone NSEC), optionally while blocking explicit DS questions; trust anchors may be absent; QNAME minimisation on or off. "
                   "Histories of 1-5 client questions (DO, CD, AD, EDNS, wire-born / decoded, UDP / TCP, repeats served from cache, sleeps) are judged: AD never toward CD or (no DO and no AD) clients, never unless every covered element is under an unbroken signed chain (also re-checked on a namespace that changes over time: unit 'changing-world' is C08's history test, whose oracle includes the AD rule after a zone turned insecure), never on an opt-out-dependent denial; with no anchor, below a bogus delegation, or when every response of a zone the reply depends on is tampered, a CD=0 client gets SERVFAIL (with EDE iff it spoke EDNS, never an OPT otherwise); a non-SERVFAIL reply for a secure name has exactly the published rcode, alias records and final RRset (TTL <= published) and, for denials, only published authority records. Exploration."),
    "level_note": "Trusted: internal/vfworld (zone truth, honest authority, miekg/dns signing) as the reference. A reply that stops at a validated alias is judged for what it covers (sdns answers so when the target cannot be validated; a maintainer test pins it). RFC 5155 12.2: names inside opt-out spans carry no assurance without AD. Key bits are not a function of VERIF_SEED on this toolchain (crypto/ecdsa ignores custom randomness); behaviour does not depend on them. Algorithms other than 13/15, NSEC3 iteration limits and multi-anchor roots are not generated here (C14 covers the primitives).",
    "rule": ("evaluations = histories. Non-trivial = a tampered response was consumed while resolving a CD=0 question for a name under a signed chain, or a secure reply was fully checked against published data; distinct = hash(world, tamper, question shapes)."),
    "share": ["C08"],
    "units": {"changing-world": {"pkg": "./server", "run": "^TestVerifC08Lease$", "tiers": {"quick": T(600, 6, timeout=900), "thorough": T(15000, 8, timeout=3400)}},
              "world": {"pkg": "./server", "run": "^TestVerifC01World$", "tiers": {"quick": T(1500, 8, timeout=900), "thorough": T(40000, 12, timeout=3400)},
                        "floors": {"C01.world": {"tamper-fired": 0.1, "tamper-consumed-on-secure-name": 0.05, "secure": 0.3, "denial": 0.2, "served-from-cache": 0.1, "alias-chain": 0.004, "wildcard": 0.008, "honest-world": 0.1, "no-anchor": 0.02}}}},
}

PROPS["C07"] = {
    "level": "exploration",
    "technique": "adversarial-authority property testing on the resolver-world harness: the genuine authority of one zone decorates every response with generated out-of-bailiwick material; later victim questions, the packets each authority receives and every address dialled are judged against the honest namespace",
    "level_text": ("The namespace has a signed root and TLD, the attacker's zone evil.test. with a real sub-zone, a look-alike provider zone xevil.test., and a victim zone (unsigned in most cases so that only the bailiwick rules protect it; signed in the rest; delegated with glue or gluelessly to a host in the provider zone). "
                   "Every response of the attacker's servers is decorated by one of 18 attacks drawn per case: foreign records in answer / additional, NS for the victim or the parent in authority or answer, CNAME / DNAME chains continued in-message with out-of-zone targets, upward / sideways / self / mixed-owner / CHAOS-class referrals, glue for an out-of-zone host, for a host whose name merely ends in the zone's characters, for loopback addresses, a foreign SOA on negatives, wrong-ID or wrong-question datagrams before the real one, and the right ID with somebody else's question and an error rcode instead of it. "
                   "Histories of 3-9 client questions (attacker names, victim names, CD on/off, wire-born / decoded, sleeps) always end with the targeted victim name asked with CD=0 and CD=1. Oracle: no reply's answer or authority section carries a marker address for a name outside the attacker's zone or, in the answer section, any record owned outside it that its own zone does not publish; victim questions get the victim zone's own rcode and RRset; the attacker's addresses are never asked a name outside evil.test.; no loopback or forged-only address is ever dialled. Exploration."),
    "level_note": "Trusted: internal/vfworld as the honest namespace. 'Relayed inside the answer' is read as the answer section: sdns passes an authority's additional section and a foreign SOA in the authority section of a negative answer through to the client; neither is cached under its own name or used for another question, which the later victim questions check. Local-interface glue is exercised with loopback only. DoT/DoH upstreams do not exist in sdns's iterative path.",
    "rule": ("evaluations = histories. Non-trivial = at least one decorated response was consumed and a victim question was asked afterwards; distinct = hash(attacks, victim, options, step shapes)."),
    "units": {"bailiwick": {"pkg": "./server", "run": "^TestVerifC07Bailiwick$", "tiers": {"quick": T(1200, 8, timeout=900), "thorough": T(40000, 12, timeout=3400)},
                            "floors": {"C07.bailiwick": {"attacked-responses": 0.5, "victim-question-after-attack": 0.5, "victim-glueless": 0.1, "attack:wrong-question-error": 0.04, "attack:glue-lookalike": 0.02, "attack:cname-in-message": 0.04}}}},
}

PROPS["C08"] = {
    "level": "exploration",
    "technique": "model-based history testing on the resolver-world harness with a namespace that changes at a generated moment: superseded servers keep answering as ghosts, a virtual clock drives leases; the packets ghosts receive and every reply after the last granted lease are judged against the new namespace",
    "level_text": ("ghost.test. (with a deeper zone) is delegated from a signed TLD with generated NS and DS TTLs (2 s ... 25 h), fully glued, glueless (a host in provider.test., optionally slow to resolve) or partially glued; its own records, its own NS set and its negative TTL are long-lived. Clients ask names in it (existing, wildcard, nonexistent, apex, deeper zone, an alias in the TLD pointing into it; CD on/off; wire-born / decoded; repeats: 'continued querying'), prefetch is on or off. "
                   "At a generated step the parent withdraws the delegation, re-delegates it to new servers with new keys and new data, or re-delegates it unsigned; the old servers stay reachable and answer from the old namespace. Sleeps are drawn around the lease (0.1x ... 3x). "
                   "The last moment the parent handed out the old delegation (referral or DS answer, read off the authorities' packet log) plus min(NS TTL, DS TTL when validating, 12 h) is the end of the lease. After it: no packet may reach a ghost, and every reply for data that the old namespace served from at or below the cut must be SERVFAIL or carry the new namespace's rcode and records (no old data, no signature by a superseded key), with AD only if the new namespace is secure there. Exploration."),
    "level_note": "Trusted: the packet log for 'when was the referral observed' (an upper bound: any later grant restarts the lease), internal/vfworld for both namespaces. For CD=1 resolutions sdns retains no DS, so the NS TTL alone is taken as the grant. The shallower-delegation limit is exercised only through the deeper zone moving with its parent. DS questions at the cut are answered by the parent side and are exempt.",
    "rule": ("evaluations = histories. Non-trivial = at least one reply was judged after the lease end and, before it, a reply was served inside the old lease or a ghost was asked; distinct = hash(zone, change, TTLs, options, step shapes)."),
    "units": {"lease": {"pkg": "./server", "run": "^TestVerifC08Lease$", "tiers": {"quick": T(800, 8, timeout=900), "thorough": T(25000, 12, timeout=3400)},
                        "floors": {"C08.lease": {"reply-after-lease": 0.5, "reply-within-old-lease": 0.25, "ghost-asked-within-lease": 0.1, "ttl-above-12h-ceiling": 0.05, "glueless": 0.15, "prefetch-on": 0.3, "change:withdraw": 0.1, "change:redelegate-insecure": 0.1}}}},
}

PROPS["C12"] = {
    "level": "exploration",
    "technique": "adversarial-authority property testing on the resolver-world harness with exact work accounting: a generated repertoire of pathological authorities, every upstream packet counted until the request tree is quiet, DNSSEC operations and internal sub-queries counted through verif-tagged hooks, budgets and modes generated",
    "level_text": ("The authority of evil.test. (one address, or four, with a three-address parent) answers by the shape encoded in the question name: alias chains and loops of 2-40 aliases, DNAME ping-pong, glueless NS cycles, referrals that go one label deeper each time they are asked, a parent-detection trap (empty NOERROR to minimised probes, then a shallower referral, then ever-deeper referrals), REFUSED / SERVFAIL / silent / self-referring servers, NXNS fan-out to a victim zone and to further fan-outs, TC on UDP with a closing TCP side, 80-1600-record answers, slow and garbage responses; the signed sig.test. floods its answers with bad copies of genuine signatures and its DNSKEY set with tag-colliding keys (16-bit word swaps). "
                   "Firewall mode (off / shadow / enforce), outbound / internal / signature budgets, the size parameter, QNAME minimisation and 'a second client repeats each question' are generated. For every client question the harness records the reply count, the virtual time to the reply, all packets any authority receives until 25 s after the reply (detached helpers and abandoned attempts included), signature verifications, DS digests and NSEC3 hashes (hook counters at the crypto primitives) and internal sub-queries started (failpoint at the sub-query entries, which also cuts a runaway off at 2000). "
                   "Oracle: exactly one decodable reply within the query timeout; never more than 1500 packets or 2000 sub-queries in any mode; in enforce mode packets <= max_outbound_queries, signature checks <= max_signature_checks, DS digests and NSEC3 hashes <= their budgets, an over-budget reply is SERVFAIL with the budget EDE for EDNS clients and the next client's identical question is worked on again; off and shadow never report a budget; with one address per delegation and stateless shapes a shadow run's replies equal a firewall-off run's. Exploration."),
    "level_note": "Trusted: the hook counters (they sit inside cryptoVerify, the DS digest match and the NSEC3 hash, and at the two internalExchange entries) and the packet log. max_internal_queries is not compared exactly: the counter sees sub-queries started, including ones the ledger then refuses. max_dnskey_candidates / per-RRset signature limits are covered only through the total. CPU time is not measured; the cache-internal blow-up found here shows as the sub-query cap being hit. Multi-address worlds make sdns's server choice scheduling-dependent, so only bounds are asserted there.",
    "rule": ("evaluations = histories of 1-4 pathological questions (twice when the second client is on). Non-trivial = some question cost more than 8 packets or 8 signature checks, or a budget was reported exceeded; distinct = hash(mode, budgets, size, options, shapes)."),
    "units": {"chase": {"pkg": "./middleware/cache", "run": "^TestVerifC12Chase$", "tiers": {"quick": T(3000, 4, timeout=600), "thorough": T(150000, 8, timeout=3000)},
                        "floors": {"C12.chase": {"budget-tripped-inside-the-chase": 0.2, "chase-from-cache-hit": 0.2}}},
              "budget": {"pkg": "./server", "run": "^TestVerifC12Budget$", "tiers": {"quick": T(500, 8, timeout=900), "thorough": T(15000, 12, timeout=3400)},
                         "floors": {"C12.budget": {"mode:enforce": 0.3, "mode:shadow": 0.1, "mode:off": 0.1, "budget-exceeded": 0.08, "shadow-vs-off-twin": 0.05, "multi-address-delegations": 0.2, "shape:restart": 0.1, "shape:loop": 0.05, "shape:many-sigs": 0.03, "shape:nxns-victim": 0.03}}}},
}

PROPS["C11"] = {
    "level": "exploration",
    "technique": "concurrent-client history testing on the resolver-world harness under a virtual clock (misbehaving authorities, generated arrival offsets, ingress-queue delays and attempt capacity), an at-rest invariant over every limiter and the dedup table read through verif-tagged accessors, plus a wall-clock unit that aims request expiry at the microsecond window between ingress and leader election",
    "level_text": ("Unit 'onereply': 2-12 clients are released concurrently inside the bubble at generated offsets against 1-3 zones whose authorities are healthy, silent, slow (1-12 s), truncating then stalling or resetting on TCP, sending garbage, answering another question, or failing; questions are identical and related; some clients arrive with half, all but 10 ms, exactly all, or more than all of their query timeout (3 s / 10 s) already spent in the ingress queue; the attempt capacity is 2, 4, 16 or 1000; wire-born and decoded transports; CD on/off. "
                   "Per client: exactly one reply (none only if it arrived expired), written before the serving call returns, carrying its own ID and question, no later than the budget it had left plus 250 ms; with ample capacity a client that asks a healthy name with a second or more of budget left gets that name's true answer whoever else was waiting on it. After the load plus 2x timeout + 40 s: every resolver limiter (attempts, resolutions, probes, per-zone in-flight) holds nothing, no question has a registered dedup leader, a fresh question for each healthy zone is answered within 2 s; the bubble itself fails if a goroutine is left blocked. "
                   "An 'expiry storm' opening (one case in five): 5-8 clients with 200-900 ms of their budget left ask distinct names of a slow (1 s) but answering single-server zone, then a client with its whole budget asks another name there and must be answered - other clients' expiry is no evidence against the authority. Unit 'streams' (wall clock, real TCP listener, stub upstream): 3-12 connections pipeline 1-5 complete queries (cached, uncached, slow, oversized) followed by nothing, half a length prefix, a prefix alone or a prefix with a third of a body, then stall, half-close or wait; every complete query must be answered exactly once before the server ends the connection. Unit 'expiryrace' (wall clock, no bubble): batches of 40 unique questions arrive with 0-400 us of their 1 s timeout left, so that expiry lands before, inside and after the stretch between the server's ingress check and the cache's election; when every call has returned the same at-rest invariant must hold. Exploration."),
    "level_note": "Trusted: the accessors (len of the limiter channels, sum of the per-zone buckets, number of keys in the dedup wait group). Ingress shedding, real sockets and slab accounting are not part of this harness (C10 drives the sockets). The expiryrace unit uses timing only as a stimulus; a machine too slow to land inside the window makes it vacuous (it reports the class 'both-sides-of-the-deadline'), never red.",
    "rule": ("evaluations = concurrent histories / batches. Non-trivial = identical questions were in flight together or some client was failed (onereply); a batch had requests on both sides of the deadline (expiryrace); distinct = hash(timeouts, capacity, authorities, client shapes)."),
    "units": {"onereply": {"pkg": "./server", "run": "^TestVerifC11OneReply$", "tiers": {"quick": T(500, 8, timeout=900), "thorough": T(15000, 12, timeout=3400)},
                           "floors": {"C11.onereply": {"identical-questions-in-flight": 0.5, "tight-capacity": 0.2, "servfail": 0.3, "healthy-with-budget": 0.04, "expired-on-arrival": 0.1, "post-load-probe": 0.2}}},
              "expiryrace": {"pkg": "./server", "run": "^TestVerifC11ExpiryRace$", "tiers": {"quick": T(150, 2, timeout=600), "thorough": T(4000, 4, timeout=3000)}},
              "streams": {"pkg": "./server", "run": "^TestVerifC11Streams$", "tiers": {"quick": T(3, 4, timeout=900), "thorough": T(60, 6, timeout=3400)},
                          "floors": {"C11.streams": {"partial-frame-after-burst": 0.8, "stalled-mid-frame": 0.5}}}},
    "share": ["C10"],
}

PROPS["C09"] = {
    "level": "exploration",
    "technique": "model-based history testing of AutoTA in-package under a virtual clock: a scripted root publishes generated DNSKEY sets, restarts / crashes at every persistence failpoint / failing writes / damaged stores are generated, and a reference ledger of what each refresh could authenticate judges the live trust set after every step",
    "level_text": ("Key universe: the configured anchor K0, successors K1/K2, an attacker's key K3 and K4 whose key tag collides with K0's (16-bit word swap). Histories of 3-14 steps (one in four opens with a directed scenario: two trusted anchors, one optionally goes missing, is then revoked while a fault hits that refresh) mix: refreshes against a publication that evolves by add / drop / revoke / un-revoke, signed by nobody, only the attacker, only revoked keys, or everybody, optionally with corrupted signatures; sleeps of 1 h ... 91 d around the 30 d / 90 d hold-downs; restarts with a generated anchor configuration; crashes (a panic out of the n-th gob-write failpoint, then a new Resolver on the same directory); refusals of the tombstone write, the state write or both; garbage / truncated / zero-length tombstone stores. "
                   "The ledger tracks, from the publications alone, which keys a refresh's signatures could authenticate (configured or persisted, not revoked), since when each key has been listed in every fully authenticated refresh, which self-signed revocations were seen in a refresh that got a record to disk, and when trusted keys went missing. After every completed refresh: no revoked-form key is live; no key with an accepted revocation is live; a non-configured key is live only after 30 days of listings; an unauthenticated response removes nothing and adds nothing but configured anchors; a response authenticated only by a revoked key adds nothing; if neither record of a new revocation could be written, or the store is damaged, the live set is empty; a configured or held-down key that was published by the previous refresh and has not been missing for 90 days is still live. Exploration."),
    "level_note": "Trusted: the ledger (it is deliberately more permissive than sdns wherever the disk lagged behind memory: after a crash or failed state write 'changes nothing' and 'stays trusted' are not judged until the next persisted refresh). Between a restart and the first refresh NewResolver publishes the configuration as is; the property is judged on what AutoTA publishes. Signatures are ECDSA P-256 only; the root is reached through the in-memory network.",
    "rule": ("evaluations = histories. Non-trivial = a revocation was accepted, a crash was followed by a restart, the store was damaged, or a refresh was authenticated only by a revoked key; distinct = hash(step shapes)."),
    "units": {"anchors": {"pkg": "./middleware/resolver", "run": "^TestVerifC09Anchors$", "tiers": {"quick": T(1500, 8, timeout=900), "thorough": T(50000, 12, timeout=3400)},
                          "floors": {"C09.anchors": {"revocation-accepted": 0.1, "crash-then-restart": 0.05, "store-damaged": 0.02, "revocation-only-refresh": 0.03, "unauthenticated-refresh": 0.2, "restart": 0.2, "writefail": 0.05, "fail-closed": 0.03}}}},
}

PROPS["C10"] = {
    "level": "exploration",
    "technique": "socket-level property testing with self-identifying questions and answers: the real UDP batch engine and TCP stream listeners on loopback in front of a stub whose answer is a function of the question, many concurrent client sockets with generated windows, every received datagram / frame matched against that client's own outstanding questions; repeated under the race detector; the same for the DoH handler, and for the server's own DoT and DoQ listeners with TLS / QUIC clients",
    "level_text": ("The real listeners (UDP batch engine with inline fast path, 1-4 workers, send bursts; TCP stream with reply staging) serve the default chain over a stub resolver that answers a TXT RRset spelling the question name ('big' names produce ~9.5 KB answers, 'drop' names no reply, 'panic' names a panic inside the handler, 'slow' names a short delay). "
                   "4-24 UDP client sockets keep windows of 1-16 questions in flight, 40-300 each, cycling through cached names (answered inline on the reader) and uncached names (handed to workers), so that inline hits and worker sends from different clients overlap on the same socket; 0-4 TCP clients write pipelined bursts of 3-7 cached small and oversized (beyond the 8 KiB staging buffer) and uncached questions in one write. "
                   "Cookies are on: two questions in three carry a client cookie that is a function of the question name, and a reply's COOKIE option must start with the cookie of the very question it answers (and be absent when the question carried none) - the per-query bytes that survive in pooled writers. One more TCP client steers reply sizes ('szNNNN-' names, measured on a side connection, which also caches them) so that the replies staged so far plus the next one come to the staging buffer's size exactly, or 1-3 octets either side. Oracle: every datagram a client receives decodes, carries the ID and question of one of its own outstanding questions and exactly that question's answer (or the recovery SERVFAIL), is the only reply to it, and nothing arrives for a client with nothing outstanding; on TCP reply i of a burst answers query i, whole, in query order. Every reply is also walked the way a strict parser walks it: the four section counts of its header must account for the octets that follow, to the last one; and TCP bursts carry, after the connection's buffers have carried replies, frames the engine refuses at the header (a bare header with a foreign opcode, a query announcing two questions), whose reply must be the asker's ID, an error code and nothing the counts do not describe. The same unit runs under -race (shared send state shows as a data race even when no datagram is misdirected). Exploration."),
    "level_note": "Trusted: the stub's answer function and the client-side matching. Unit 'doh' drives the DoH handler (wire POST / GET and the JSON form) over plain HTTP/1.1 keep-alive connections shared by 4-24 goroutines - the handler, its per-exchange writer and the pooled chain objects, not TLS or HTTP/2 framing; Unit 'encrypted' binds the server's own DoT listener (the TCP stream engine behind tls.Listener) and DoQ listener (quic-go, one query per stream, reply ID 0) on loopback with a certificate made for the test: 1-6 DoT clients pipeline the TCP unit's bursts (plus a slow uncached question in front of cached ones, optional half-close), 1-4 QUIC connections run 3-16 rounds of 4-30 concurrent streams over cached, uncached, slow, oversized, dropped and panicking questions; every stream must carry nothing or exactly one whole length-prefixed reply with ID 0 answering the question asked on that stream. DoH over HTTP/2 or HTTP/3 framing is not driven. Unit 'shared-lookups' is C11's resolver-world unit (shared from C11): concurrent clients ask the same names, one in three in its own 0x20 spelling, against the real resolver's singleflight and the cache's dedup - every reply must carry the ID and the question, spelled as asked, of the client it goes to, and (zones signed in half the cases, DO drawn per client) the published records shaped for that client alone: signatures for a client that set DO, none for one that did not, whoever it shared the lookup with. Unit 'shared-lookups-race' runs the same generator under the race detector, where a message handed to one request while another still copies from it is reported at the first overlap rather than when a copy happens to tear. Scheduling is whatever the kernel and the Go scheduler produce: detection of interleaving bugs is probabilistic, which is why the case count, client count and the race build are part of the unit. UDP loss on loopback is counted, not judged.",
    "rule": ("evaluations = socket sessions (one server lifetime each). Non-trivial = more than 50 UDP replies were matched, with inline hits and worker-handled misses in the same session; distinct = hash(parameters)."),
    "units": {"sockets": {"pkg": "./server", "run": "^TestVerifC10Sockets$", "tiers": {"quick": T(12, 4, timeout=900), "thorough": T(300, 6, timeout=3400)},
                          "floors": {"C10.sockets": {"inline-hits-and-worker-misses-together": 0.8, "tcp-pipelined-bursts": 0.5}}},
              "doh": {"pkg": "./server", "run": "^TestVerifC10DoH$", "tiers": {"quick": T(15, 4, timeout=900), "thorough": T(400, 6, timeout=3400)},
                      "floors": {"C10.doh": {"concurrent-http-exchanges": 0.7}}},
              "encrypted": {"pkg": "./server", "run": "^TestVerifC10Encrypted$", "tiers": {"quick": T(15, 4, timeout=900), "thorough": T(400, 6, timeout=3400)},
                            "floors": {"C10.encrypted": {"dot-pipelined-bursts": 0.8, "doq-concurrent-streams": 0.8}}},
              "shared-lookups": {"pkg": "./server", "run": "^TestVerifC11OneReply$", "tiers": {"quick": T(800, 8, timeout=900), "thorough": T(8000, 8, timeout=3400)}},
              "shared-lookups-race": {"pkg": "./server", "run": "^TestVerifC11OneReply$", "race": True, "tiers": {"quick": T(60, 4, timeout=900), "thorough": T(1500, 8, timeout=3400)}},
              "sockets-race": {"pkg": "./server", "run": "^TestVerifC10Sockets$", "race": True, "tiers": {"quick": T(4, 2, timeout=900), "thorough": T(60, 4, timeout=3400)}}},
    "share": ["C11"],
}
