#!/usr/bin/env python3
"""Driver for the sdns property checks (see DESIGN.md §2.3).

  python3 run.py --prop C16 --tier quick            run one property
  python3 run.py --prop C16 --replay <file>         re-run a saved failing case
  python3 run.py --setup                            warm the build cache / sanity

Exit 0: property held on everything explored (KNOWN-FINDING lines allowed).
Exit 1: a violation not listed in known_findings.json, with a line
        "VIOLATION property=<id> replay=<path>".
Exit 2: inconclusive (build failure, timeout, worker death, generator starved).
"""
import argparse, glob, json, os, re, shutil, subprocess, sys, time, signal
from concurrent.futures import ThreadPoolExecutor

VERIF = os.path.dirname(os.path.abspath(__file__))
REPO = os.environ.get("VERIF_REPO", "/repo")
HARNESS = os.path.join(VERIF, "harness")
WORK = os.path.join(VERIF, "work")
MODULE = "github.com/semihalev/sdns"
NCPU = os.cpu_count() or 4

sys.path.insert(0, VERIF)
from checks import PROPS  # noqa: E402


def goenv():
    env = dict(os.environ)
    env["GOFLAGS"] = "-mod=mod"
    env["GOPROXY"] = "off"
    env.pop("GOSUMDB", None)  # GOSUMDB=off breaks the cached toolchain switch
    env["GONOSUMDB"] = "*"
    env["GONOSUMCHECK"] = "1"
    env["GONOSUMDB"] = "*"
    env["GOTOOLCHAIN"] = "auto"
    env.setdefault("GOCACHE", os.path.expanduser("~/.cache/go-build"))
    return env


def log(*a):
    print("[run.py]", *a, file=sys.stderr, flush=True)


def repo_status():
    try:
        return subprocess.run(["git", "-C", REPO, "status", "--porcelain"], capture_output=True, text=True).stdout
    except Exception:
        return ""


def prepare_work(pid):
    """work/<id>/: go.mod + go.sum (repo's + rapid), overlay.json."""
    w = os.path.join(WORK, pid)
    os.makedirs(w, exist_ok=True)
    modfile = os.path.join(w, "go.mod")
    shutil.copy(os.path.join(REPO, "go.mod"), modfile)
    with open(os.path.join(REPO, "go.sum")) as f:
        sums = f.read()
    with open(os.path.join(HARNESS, "rapid.sum")) as f:
        extra = f.read()
    for line in extra.splitlines():
        if line.strip() and line not in sums:
            sums += line + "\n"
    with open(os.path.join(w, "go.sum"), "w") as f:
        f.write(sums)
    r = subprocess.run(["go", "mod", "edit", "-modfile=" + modfile, "-require=pgregory.net/rapid@v1.3.0"],
                       cwd=REPO, env=goenv(), capture_output=True, text=True)
    if r.returncode != 0:
        log("go mod edit failed:", r.stderr)
        return None
    spec = PROPS[pid]
    tags = [pid.lower()] + [t.lower() for t in spec.get("share", [])]
    replace = {}
    for root, _dirs, files in os.walk(HARNESS):
        rel = os.path.relpath(root, HARNESS)
        for fn in files:
            if not fn.endswith(".go"):
                continue
            src = os.path.join(root, fn)
            if rel.startswith("internal/vf"):
                replace[os.path.join(REPO, rel, fn)] = src
                continue
            m = re.match(r"zz_verif_([a-z0-9]+)_", fn)
            if not m:
                continue
            tag = m.group(1)
            if tag == "common" or tag in tags:
                replace[os.path.join(REPO, rel, fn)] = src
    ov = os.path.join(w, "overlay.json")
    with open(ov, "w") as f:
        json.dump({"Replace": replace}, f, indent=1)
    return w


def build(w, pkg, race=False, fuzz=None, name=None):
    out = os.path.join(w, "bin", name or (pkg.strip("./").replace("/", "_") + ("_race" if race else "") + ("_fuzz_" + fuzz if fuzz else "") + ".test"))
    os.makedirs(os.path.dirname(out), exist_ok=True)
    cmd = ["go", "test", "-c", "-vet=off", "-tags", "verif", "-overlay", os.path.join(w, "overlay.json"),
           "-modfile", os.path.join(w, "go.mod"), "-o", out]
    if race:
        cmd.append("-race")
    if fuzz:
        cmd += ["-fuzz", fuzz]
    cmd.append(pkg)
    t0 = time.time()
    r = subprocess.run(cmd, cwd=REPO, env=goenv(), capture_output=True, text=True)
    if r.returncode != 0:
        log("BUILD FAILED", " ".join(cmd))
        sys.stderr.write(r.stdout[-6000:] + r.stderr[-6000:])
        return None
    log("built %s in %.1fs" % (os.path.basename(out), time.time() - t0))
    return out


def seed_for(verif_seed, k):
    s = (verif_seed * 1000003 + k * 7919 + 17) & 0x7FFFFFFFFFFFFFFF
    return s or 1


class ShardResult:
    def __init__(self):
        self.rc = None
        self.out = ""
        self.timed_out = False
        self.rundir = ""


def run_shard(binpath, unit, tiercfg, pid, uname, k, seed, statsdir, tier, replay=None):
    res = ShardResult()
    rundir = os.path.join(WORK, pid, "run", "%s-%d" % (uname, k))
    shutil.rmtree(rundir, ignore_errors=True)
    os.makedirs(rundir)
    res.rundir = rundir
    # committed seed corpora for fuzz targets
    if unit.get("engine") == "fuzz":
        src = os.path.join(VERIF, "corpus", pid, unit["fuzz"])
        if os.path.isdir(src):
            shutil.copytree(src, os.path.join(rundir, "testdata", "fuzz", unit["fuzz"]))
    # committed replay files of earlier findings (regress/<property>/<Test>/*.fail): rapid runs what it finds under
    # testdata/rapid/<Test>/ before it generates anything. One shard does that. A file recorded against an older
    # generator may decode to a different, passing case - then it costs a millisecond and says nothing.
    if unit.get("engine", "rapid") == "rapid" and k == 0 and not replay:
        tname = unit["run"].strip("^$")
        src = os.path.join(VERIF, "regress", pid, tname)
        if os.path.isdir(src):
            shutil.copytree(src, os.path.join(rundir, "testdata", "rapid", tname))
    timeout = tiercfg.get("timeout", 900)
    args = [binpath, "-test.timeout", "%ds" % (timeout + 120)]
    if unit.get("engine") == "fuzz" and not replay:
        args += ["-test.run", "^$", "-test.fuzz", "^" + unit["fuzz"] + "$", "-test.fuzztime", "%ds" % tiercfg.get("fuzztime", 60),
                 "-test.fuzzcachedir", os.path.join(rundir, "fuzzcache"), "-test.parallel", str(tiercfg.get("workers", min(NCPU, 8)))]
        # the default 60 s minimisation per interesting input starves slow targets of executions
        args += ["-test.fuzzminimizetime", str(tiercfg.get("minimize", "5s"))]
    else:
        args += ["-test.run", unit["run"], "-test.count", "1"]
        if unit.get("engine", "rapid") == "rapid":
            args += ["-rapid.checks", str(tiercfg.get("checks", 100)), "-rapid.seed", str(seed),
                     "-rapid.shrinktime", tiercfg.get("shrinktime", "30s"), "-rapid.nofailfile=false"]
            if "steps" in tiercfg:
                args += ["-rapid.steps", str(tiercfg["steps"])]
            if replay:
                args += ["-rapid.failfile", replay]
        if unit.get("verbose"):
            args.append("-test.v")
    env = goenv()
    env["VERIF_STATS_DIR"] = statsdir
    env["VERIF_KNOWN"] = os.path.join(VERIF, "known_findings.json")
    env["VERIF_TIER"] = tier
    env["VERIF_PROP"] = pid
    env["VERIF_SHARD"] = str(k)
    env["VERIF_UNIT_SEED"] = str(seed)
    env["VERIF_WORKDIR"] = rundir
    env["VERIF_ROOT"] = VERIF
    for kk, vv in tiercfg.get("env", {}).items():
        env[kk] = str(vv)
    if "gomaxprocs" in tiercfg:
        env["GOMAXPROCS"] = str(tiercfg["gomaxprocs"])
    # Go's fuzz coordinator maps a 100 MB buffer per worker on top of the binary's own needs
    memkb = tiercfg.get("mem_mb", 24000 if unit.get("engine") == "fuzz" else 6000) * 1024
    race = unit.get("race")

    def pre():
        os.setsid()
        if not race:  # the race runtime reserves huge virtual ranges
            import resource
            try:
                resource.setrlimit(resource.RLIMIT_AS, (memkb * 1024, memkb * 1024))
            except Exception:
                pass
    try:
        p = subprocess.Popen(args, cwd=rundir, env=env, stdout=subprocess.PIPE, stderr=subprocess.STDOUT, text=True,
                             errors="replace", preexec_fn=pre)
        try:
            res.out, _ = p.communicate(timeout=timeout)
            res.rc = p.returncode
        except subprocess.TimeoutExpired:
            res.timed_out = True
            try:
                os.killpg(p.pid, signal.SIGKILL)
            except Exception:
                pass
            res.out, _ = p.communicate()
            res.rc = -9
    except Exception as e:  # noqa
        res.out = "spawn failed: %r" % (e,)
        res.rc = -1
    with open(os.path.join(rundir, "output.log"), "w") as f:
        f.write(res.out)
    return res


INCONCLUSIVE_PAT = re.compile(r"panic: test timed out|cannot allocate memory|out of memory|fatal error: runtime: out of memory|signal: killed|VERIF-INCONCLUSIVE")


def classify(res, unit):
    """-> 'ok' | 'violation' | 'inconclusive'"""
    if res.timed_out:
        return "inconclusive"
    if res.rc == 0:
        return "ok"
    if INCONCLUSIVE_PAT.search(res.out) and "VERIF-VIOLATION" not in res.out and "[rapid] failed" not in res.out:
        return "inconclusive"
    if "--- FAIL" in res.out or "[rapid] failed" in res.out or "VERIF-VIOLATION" in res.out or "panic:" in res.out or "DATA RACE" in res.out:
        return "violation"
    return "inconclusive"


def save_replay(pid, uname, unit, res, k, seed):
    d = os.path.join(os.environ.get("VERIF_REPLAY_DIR", os.path.join(VERIF, "replays")), pid, uname)
    os.makedirs(d, exist_ok=True)
    stamp = "s%d-k%d" % (seed, k)
    saved = None
    for f in glob.glob(os.path.join(res.rundir, "testdata", "rapid", "**", "*.fail"), recursive=True):
        dst = os.path.join(d, stamp + "-" + os.path.basename(f))
        shutil.copy(f, dst)
        saved = dst
    if unit.get("engine") == "fuzz":
        fd = os.path.join(res.rundir, "testdata", "fuzz", unit["fuzz"])
        seedsrc = os.path.join(VERIF, "corpus", pid, unit["fuzz"])
        for f in glob.glob(os.path.join(fd, "*")):
            if os.path.exists(os.path.join(seedsrc, os.path.basename(f))):
                continue
            dst = os.path.join(d, stamp + "-" + os.path.basename(f) + ".fuzz")
            shutil.copy(f, dst)
            saved = dst
    logdst = os.path.join(d, stamp + ".log")
    with open(logdst, "w") as f:
        f.write(res.out[-200000:])
    return saved or logdst


def merge_stats(statsdir):
    units = {}
    for f in glob.glob(os.path.join(statsdir, "*.json")):
        try:
            doc = json.load(open(f))
        except Exception:
            continue
        for name, u in doc.items():
            m = units.setdefault(name, {"evaluations": 0, "classes": {}, "distinct": set(), "samples": [], "known": {}, "excluded_known": 0, "notes": {}})
            m["evaluations"] += u.get("evaluations", 0)
            for c, n in (u.get("classes") or {}).items():
                m["classes"][c] = m["classes"].get(c, 0) + n
            m["distinct"].update(u.get("distinct") or [])
            for s in (u.get("samples") or []):
                if len(m["samples"]) < 6:
                    m["samples"].append(s)
            for c, n in (u.get("known") or {}).items():
                m["known"][c] = m["known"].get(c, 0) + n
            m["excluded_known"] += u.get("excluded_known", 0)
            m["notes"].update(u.get("notes") or {})
    return units


def write_evidence(pid, tier, seed, spec, stats, wall, violations, extra):
    units_out = {}
    total_eval = 0
    distinct = set()
    samples = []
    for name, u in sorted(stats.items()):
        total_eval += u["evaluations"]
        distinct.update(name + ":" + h for h in u["distinct"])
        for s in u["samples"][:3]:
            samples.append({"unit": name, "case": s})
        units_out[name] = {"evaluations": u["evaluations"], "distinct_nontrivial": len(u["distinct"]),
                           "classes": dict(sorted(u["classes"].items())), "known_finding_hits": u["known"],
                           "excluded_known": u["excluded_known"], "notes": u["notes"]}
    ev = {
        "property_id": pid, "tier": tier, "seed": seed, "level": spec.get("level", "exploration"),
        "coverage": {
            "evaluations": int(total_eval), "distinct_nontrivial": len(distinct),
            "rule": spec["rule"], "samples": samples, "units": units_out,
        },
        "assumptions": spec.get("assumptions", []),
        "wall_s": round(wall, 2), "violations": violations,
    }
    ev["coverage"].update(extra)
    evdir = os.environ.get("VERIF_EVIDENCE_DIR", os.path.join(VERIF, "evidence"))
    os.makedirs(evdir, exist_ok=True)
    path = os.path.join(evdir, pid + ".json")
    with open(path + ".tmp", "w") as f:
        json.dump(ev, f, indent=1, default=str)
    os.replace(path + ".tmp", path)
    return ev


def run_prop(pid, tier, verif_seed, replay=None, only_unit=None):
    spec = PROPS[pid]
    t0 = time.time()
    status0 = repo_status()
    w = prepare_work(pid)
    if not w:
        return 2
    statsdir = os.path.join(w, "stats")
    shutil.rmtree(statsdir, ignore_errors=True)
    os.makedirs(statsdir)
    shutil.rmtree(os.path.join(w, "run"), ignore_errors=True)

    units = []
    for uname, unit in spec["units"].items():
        if only_unit and uname != only_unit:
            continue
        if tier not in unit["tiers"]:
            continue
        units.append((uname, unit, unit["tiers"][tier]))
    if replay:
        # replays/<pid>/<unit>/<file>
        runit = os.path.basename(os.path.dirname(os.path.abspath(replay)))
        units = [(u, un, dict(un["tiers"].get("quick") or list(un["tiers"].values())[0])) for (u, un) in spec["units"].items() if u == runit]
        if not units:
            log("cannot map replay file to a unit:", replay)
            return 2

    # builds (deduplicated)
    bins = {}
    need = {}
    for uname, unit, _cfg in units:
        key = (unit["pkg"], bool(unit.get("race")), unit.get("fuzz") if unit.get("engine") == "fuzz" else None)
        need[key] = None
    with ThreadPoolExecutor(max_workers=4) as ex:
        futs = {key: ex.submit(build, w, key[0], key[1], key[2]) for key in need}
        for key, fu in futs.items():
            bins[key] = fu.result()
    if any(b is None for b in bins.values()):
        log("build failure -> inconclusive")
        write_evidence(pid, tier, verif_seed, spec, {}, time.time() - t0, 0, {"status": "build_failed", "evaluations": 0})
        return 2

    jobs = []
    for uname, unit, cfg in units:
        key = (unit["pkg"], bool(unit.get("race")), unit.get("fuzz") if unit.get("engine") == "fuzz" else None)
        shards = 1 if (replay or unit.get("engine") in ("fuzz", "gotest")) else cfg.get("shards", 1)
        for k in range(shards):
            jobs.append((uname, unit, cfg, k, bins[key]))

    results = []
    # fuzz units use all cores: run them after the rest, one at a time
    par_jobs = [j for j in jobs if j[1].get("engine") != "fuzz" and not j[2].get("exclusive")]
    seq_jobs = [j for j in jobs if j not in par_jobs]
    maxpar = int(os.environ.get("VERIF_PAR", str(max(2, NCPU - 2))))

    def do(j, idx):
        uname, unit, cfg, k, binp = j
        seed = seed_for(verif_seed, k + 1000 * (sum(map(ord, uname)) % 997))
        r = run_shard(binp, unit, cfg, pid, uname, k, seed, statsdir, tier, replay=replay)
        return (j, seed, r)

    with ThreadPoolExecutor(max_workers=maxpar) as ex:
        for out in ex.map(lambda a: do(a[1], a[0]), list(enumerate(par_jobs))):
            results.append(out)
    for idx, j in enumerate(seq_jobs):
        results.append(do(j, idx))

    violations = 0
    inconclusive = 0
    shown = set()
    replay_paths = []
    known_lines = set()
    fuzz_stats = {}
    for (uname, unit, cfg, k, _b), seed, r in results:
        for line in r.out.splitlines():
            if line.startswith("KNOWN-FINDING:"):
                known_lines.add(line.strip())
        if unit.get("engine") == "fuzz":
            m = re.findall(r"execs: (\d+).*?new interesting: (\d+)", r.out)
            if m:
                fuzz_stats[uname] = {"fuzz_execs": int(m[-1][0]), "fuzz_new_interesting": int(m[-1][1])}
        c = classify(r, unit)
        if c == "violation":
            violations += 1
            p = save_replay(pid, uname, unit, r, k, seed)
            replay_paths.append(p)
            if uname not in shown:
                shown.add(uname)
                lines = [l for l in r.out.splitlines() if "[rapid] draw" not in l]
                log("unit %s shard %d FAILED (seed %d):\n%s" % (uname, k, seed, "\n".join(lines[:40])))
            else:
                log("unit %s shard %d FAILED (seed %d), see %s" % (uname, k, seed, p))
        elif c == "inconclusive":
            inconclusive += 1
            tail = "\n".join(r.out.splitlines()[-25:])
            log("unit %s shard %d inconclusive (rc=%s timed_out=%s):\n%s" % (uname, k, r.rc, r.timed_out, tail))

    stats = merge_stats(statsdir)
    # generator floors
    starved = []
    for uname, unit, cfg in units:
        floors = unit.get("floors", {})
        for sname, fl in floors.items():
            for cls, frac in fl.items():
                u = stats.get(sname)
                if not u or u["evaluations"] == 0:
                    continue
                got = u["classes"].get(cls, 0) / max(1, u["evaluations"])
                if got < frac:
                    starved.append("%s/%s: %.4f < %.4f" % (sname, cls, got, frac))
    wall = time.time() - t0
    extra = {"shards": len(results), "known_findings_reported": sorted(known_lines)}
    if fuzz_stats:
        extra["fuzz"] = fuzz_stats
    if starved:
        extra["starved"] = starved
    if inconclusive:
        extra["inconclusive_shards"] = inconclusive
    if not replay:
        write_evidence(pid, tier, verif_seed, spec, stats, wall, violations, extra)
    for line in sorted(known_lines):
        print(line)
    status1 = repo_status()
    if status1 != status0:
        log("WARNING: /repo working tree status changed during the run:\n" + status1)
    if violations:
        for p in replay_paths:
            print("VIOLATION property=%s replay=%s" % (pid, p))
        sys.stdout.flush()
        return 1
    if inconclusive or starved:
        log("inconclusive: shards=%d starved=%s" % (inconclusive, starved))
        return 2
    tot = sum(u["evaluations"] for u in stats.values())
    print("OK property=%s tier=%s seed=%d evaluations=%d wall=%.1fs" % (pid, tier, verif_seed, tot, wall))
    return 0


def setup():
    """Warm the build cache: compile every quick-tier test binary once."""
    r = subprocess.run(["go", "version"], cwd=REPO, env=goenv(), capture_output=True, text=True)
    print(r.stdout.strip(), r.stderr.strip())
    if r.returncode != 0:
        return 2
    rc = 0
    for pid, spec in PROPS.items():
        w = prepare_work(pid)
        if not w:
            return 2
        keys = set()
        for uname, unit in spec["units"].items():
            if "quick" in unit["tiers"]:
                keys.add((unit["pkg"], bool(unit.get("race"))))
        for key in sorted(keys):
            if build(w, key[0], key[1]) is None:
                rc = 2
    return rc


def main():
    ap = argparse.ArgumentParser()
    ap.add_argument("--prop")
    ap.add_argument("--tier", default=os.environ.get("VERIF_TIER", "quick"))
    ap.add_argument("--replay")
    ap.add_argument("--unit")
    ap.add_argument("--setup", action="store_true")
    a = ap.parse_args()
    if a.setup:
        sys.exit(setup())
    if a.prop not in PROPS:
        log("unknown property", a.prop)
        sys.exit(2)
    try:
        seed = int(os.environ.get("VERIF_SEED", "1"))
    except ValueError:
        seed = 1
    tier = a.tier if a.tier in ("quick", "thorough") else "quick"
    # one run per property at a time: runs of the same property share work/<id> (overlay, binaries, statistics)
    import fcntl
    os.makedirs(os.path.join(VERIF, "work"), exist_ok=True)
    lock = open(os.path.join(VERIF, "work", ".lock-" + a.prop), "w")
    fcntl.flock(lock, fcntl.LOCK_EX)
    sys.exit(run_prop(a.prop, tier, seed, replay=a.replay, only_unit=a.unit))


if __name__ == "__main__":
    main()
