#!/usr/bin/env python3
"""Every genuine defect that was repaired must be reported again if it returns: for each 'fix:' commit recorded in
known_findings.json, revert it in a scratch worktree of the current HEAD and run the property's quick check.
usage: revfix.py [commit ...]      (results also stored in /verif/seeded/revert-<commit>/meta.json)"""
import json, os, subprocess, sys
WT = "/tmp/vfrevfix"
env = dict(os.environ, GOFLAGS="-mod=mod", GOPROXY="off")
kf = json.load(open("/verif/known_findings.json"))
todo = [(f["commit"], f["property"], f["id"]) for f in kf["findings"] if f.get("status") == "fixed" and f.get("commit")]
if sys.argv[1:]:
    todo = [t for t in todo if t[0] in sys.argv[1:]]
subprocess.run(["git", "-C", "/repo", "worktree", "remove", "--force", WT], capture_output=True)
subprocess.check_call(["git", "-C", "/repo", "worktree", "add", "--detach", WT, "HEAD"], stdout=subprocess.DEVNULL, stderr=subprocess.DEVNULL)
bad = 0
for commit, prop, fid in todo:
    subprocess.run(["git", "-C", WT, "reset", "-q", "--hard", "HEAD"]); subprocess.run(["git", "-C", WT, "clean", "-fdq"])  # --3way stages what it applies
    patch = subprocess.check_output(["git", "-C", "/repo", "diff", commit, commit + "^", "--", "."], text=True)
    # keep non-test files only: the existing suite must keep passing, and the repair's own regression tests (if any) are not ours to judge with
    p = subprocess.run(["git", "-C", WT, "apply", "--3way", "--exclude=*_test.go", "-"], input=patch, capture_output=True, text=True)
    rec = {"commit": commit, "property": prop, "finding": fid, "reverts_cleanly": p.returncode == 0}
    v = "REVERT-CONFLICT"
    if p.returncode == 0:
        b = subprocess.run(["go", "build", "./..."], cwd=WT, env=env, capture_output=True, text=True)
        if b.returncode != 0:
            v = "NO-BUILD"
        else:
            e = dict(os.environ, VERIF_REPO=WT, VERIF_REPLAY_DIR="/tmp/vfrevfix-replays", VERIF_EVIDENCE_DIR="/tmp/vfrevfix-evidence")
            r = subprocess.run(["python3", "/verif/run.py", "--prop", prop, "--tier", "quick"], env=e, capture_output=True, text=True)
            v = {0: "MISSED", 1: "CAUGHT"}.get(r.returncode, "INCONCLUSIVE")
    rec["verdict"] = v
    d = os.path.join("/verif/seeded", "revert-" + commit)
    os.makedirs(d, exist_ok=True)
    open(os.path.join(d, "patch.diff"), "w").write(patch)
    json.dump(rec, open(os.path.join(d, "meta.json"), "w"), indent=1)
    if v != "CAUGHT": bad += 1
    print("%-8s %-4s %-16s %s" % (commit, prop, v, fid), flush=True)
subprocess.run(["git", "-C", "/repo", "worktree", "remove", "--force", WT], capture_output=True)
print("not caught:", bad)
