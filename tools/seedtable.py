#!/usr/bin/env python3
"""Regenerate the seeded-change table in DESIGN.md (between the table header and section 9.5) from /verif/seeded/*/."""
import glob, json, os, re
rows = []
for d in sorted(glob.glob("/verif/seeded/C*-*"), key=lambda p: (os.path.basename(p).split("-")[0], int(os.path.basename(p).split("-")[1]))):
    sid = os.path.basename(d)
    try: title = open(os.path.join(d, "README.md")).readline().strip("# \n")
    except OSError: title = ""
    try:
        m = json.load(open(os.path.join(d, "meta.json")))
        r = m.get("results", m)
        rc = r.get("recheck") or {}
        first = r.get("check_verdict") or "?"
        v = rc.get("verdict") or rc.get("check_verdict") or first
        if first != "CAUGHT" and v == "CAUGHT":
            v = "CAUGHT (after the check was extended; %s as delivered)" % first
    except Exception: v = "?"
    rows.append("| %s | %s | %s |" % (sid, title.replace("|", "/")[:110], v))
p = "/verif/DESIGN.md"
s = open(p).read()
a = s.index("| id | change | quick check |")
b = s.index("### 9.5")
s = s[:a] + "| id | change | quick check |\n|---|---|---|\n" + "\n".join(rows) + "\n\n" + s[b:]
open(p, "w").write(s)
print(len(rows), "rows")
