#!/usr/bin/env python3
"""Prepare a private worktree and a prompt file for a seeding sub-agent: tools/seedprompt.py <prop> [<first-index>]
The agent sees only the property text, the titles of earlier seeded changes (to avoid repeats) and its worktree."""
import json, os, subprocess, sys, glob
pid = sys.argv[1]; first = int(sys.argv[2]) if len(sys.argv) > 2 else 3
wt = "/tmp/seed-" + pid
for l in open("/verif/properties.jsonl"):
    p = json.loads(l)
    if p["id"] == pid: break
else: sys.exit("no such property")
if os.path.isdir(wt):
    subprocess.call(["git", "-C", "/repo", "worktree", "remove", "--force", wt])
subprocess.check_call(["git", "-C", "/repo", "worktree", "add", "--detach", wt, "HEAD"], stdout=subprocess.DEVNULL)
prev = []
for d in sorted(glob.glob("/verif/seeded/%s-*" % pid)):
    try: prev.append(open(os.path.join(d, "README.md")).readline().strip("# \n"))
    except OSError: pass
files = ", ".join(p.get("anchors", {}).get("files", []))
a, b = first, first + 1
txt = f"""You are helping evaluate a verification framework for the Go project semihalev/sdns (a recursive DNS resolver). Your job: inject realistic, subtle bugs ("seeded changes") that BREAK one stated semantic property while the code still compiles and the project's existing test suite still passes.

Your private scratch git worktree of the repository is: {wt}
Work ONLY inside that directory (and /tmp for scratch files). Do NOT read or touch /verif, /repo, or any other /tmp/seed-* directory. Never use `git stash`, `pkill`, or `killall` (other agents share this repository and machine; use `git diff > file` + `git checkout -- .` + `git apply` instead). Go environment for every shell call: `export GOFLAGS=-mod=mod GOPROXY=off` (offline sandbox; do not set GOSUMDB). Always pass `-vet=off` to `go test`. The machine is busy with other work: a few timing-sensitive existing tests (e.g. TestNetworkOutageGoroutineBacklog) are flaky under load even on the clean tree - re-run a failing test alone on the clean tree before concluding your change caused it.

The property to break:
-----
{p['id']} — {p['title']}

{p['statement']}

Quantified over: {p['quantifier']['text']}

Relevant files: {files}

-----

Earlier seeded changes for this property (do NOT repeat these or close variants; pick different code sites and different mechanisms):
{chr(10).join('  - ' + t for t in prev) or '  (none)'}

Produce TWO independent seeded changes (different root causes, different code sites if possible). Requirements for each change:
1. It modifies non-test source files of the repository only (no test edits, no new dependencies), is small (a few lines), looks like a plausible mistake or "optimisation" a maintainer could make, compiles (`go build ./...`), and the EXISTING tests still pass: at minimum run `go test -vet=off -count=1` on every package you touched and packages that directly depend on it; ideally the full `go test -vet=off -count=1 ./...` (takes several minutes).
2. It genuinely violates the property as stated (not merely a performance change, not a crash on every input).
3. It should need something SPECIFIC to manifest — a particular interleaving, a multi-step sequence of operations, an unusual input/boundary value, a crash/fault at a particular point, or two cooperating sites that each look fine alone — rather than something ordinary use exposes immediately. Avoid changes that any trivial smoke test would catch.
4. Provide a demonstration: a Go test file (or small program) that FAILS with the change applied and PASSES on the unmodified code. Verify both directions yourself.

Deliverables — create these files (paths exactly):
  {wt}/OUT/{a}/patch.diff   (output of `git diff` for change {a} only, relative to HEAD, applying cleanly with `git apply` on a clean checkout)
  {wt}/OUT/{a}/demo_test.go (the demonstration test; state in a top comment which package directory it must be copied into and the `go test -run` command)
  {wt}/OUT/{a}/README.md    (first line: a one-line markdown title of the change; then what the change is, why it breaks the property, what it needs in order to manifest, what commands you ran and their results)
  and the same under {wt}/OUT/{b}/ for the second change.
Make sure each patch.diff contains ONLY its own change (reset the worktree with `git checkout -- .` between the two), and leave the worktree clean (apart from OUT/) when you finish. Finish with a short summary of both changes, naming for each the package directory of the demo and its -run regex.
"""
open("/tmp/seed-prompt-%s.txt" % pid, "w").write(txt)
print("/tmp/seed-prompt-%s.txt" % pid)
