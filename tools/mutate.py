#!/usr/bin/env python3
"""Sensitivity helper: apply a textual mutation in a scratch worktree of /repo,
run a property's check against it, revert. Usage:
  mutate.py <prop> <relfile> <old> <new> [--unit U] [--tier quick] [--count N]
Appends one line to /verif/SENSITIVITY.log."""
import subprocess, sys, os, argparse, time
SCR = "/tmp/vfmut"
ap = argparse.ArgumentParser()
ap.add_argument("prop"); ap.add_argument("file"); ap.add_argument("old"); ap.add_argument("new")
ap.add_argument("--unit"); ap.add_argument("--tier", default="quick"); ap.add_argument("--count", type=int, default=1)
ap.add_argument("--name", default="")
a = ap.parse_args()
if not os.path.isdir(SCR):
    subprocess.check_call(["git", "-C", "/repo", "worktree", "add", "--detach", SCR, "HEAD"], stdout=subprocess.DEVNULL)
subprocess.check_call(["git", "-C", SCR, "checkout", "-q", "--detach", subprocess.check_output(["git", "-C", "/repo", "rev-parse", "HEAD"], text=True).strip()])
subprocess.check_call(["git", "-C", SCR, "checkout", "--", "."])
p = os.path.join(SCR, a.file)
s = open(p).read()
if s.count(a.old) < 1:
    print("pattern not found"); sys.exit(3)
s = s.replace(a.old, a.new, a.count)
open(p, "w").write(s)
r = subprocess.run(["go", "build", "./..."], cwd=SCR, capture_output=True, text=True, env=dict(os.environ, GOFLAGS="-mod=mod", GOPROXY="off"))
if r.returncode != 0:
    print("mutant does not compile:\n", r.stderr[-2000:]); subprocess.call(["git", "-C", SCR, "checkout", "--", "."]); sys.exit(3)
env = dict(os.environ, VERIF_REPO=SCR, VERIF_REPLAY_DIR="/tmp/vfmut-replays", VERIF_EVIDENCE_DIR="/tmp/vfmut-evidence")
cmd = ["python3", "/verif/run.py", "--prop", a.prop, "--tier", a.tier]
if a.unit: cmd += ["--unit", a.unit]
t0 = time.time()
r = subprocess.run(cmd, env=env, capture_output=True, text=True)
dt = time.time() - t0
subprocess.call(["git", "-C", SCR, "checkout", "--", "."])
# the run wrote evidence for the mutant; remove it so nothing stale is committed by accident
tail = "\n".join((r.stderr + r.stdout).splitlines()[-30:])
print(tail)
verdict = {0: "MISSED", 1: "CAUGHT", 2: "INCONCLUSIVE"}.get(r.returncode, "rc%d" % r.returncode)
line = "%s %s %s [%s] %.0fs :: %s -> %s\n" % (verdict, a.prop, a.file, a.name, dt, a.old.strip()[:70].replace("\n", " "), a.new.strip()[:70].replace("\n", " "))
open("/verif/SENSITIVITY.log", "a").write(line)
print(line)
