#!/usr/bin/env python3
"""Regenerate /verif/MANIFEST.json from checks.py (claimed properties) and properties.jsonl."""
import json, os, sys, subprocess
V = os.path.dirname(os.path.dirname(os.path.abspath(__file__)))
sys.path.insert(0, V)
from checks import PROPS
ids = [json.loads(l)["id"] for l in open(os.path.join(V, "properties.jsonl"))]
hook_commits = [l.split()[0] for l in subprocess.check_output(["git", "-C", "/repo", "log", "--format=%h %s"], text=True).splitlines() if "verif hook" in l]
checks = []
for pid in ids:
    if pid not in PROPS or not PROPS[pid].get("claimed", True):
        continue
    sp = PROPS[pid]
    checks.append({
        "property_id": pid,
        "quick_cmd": "python3 run.py --prop %s --tier quick" % pid,
        "thorough_cmd": "python3 run.py --prop %s --tier thorough" % pid,
        "evidence_file": "/verif/evidence/%s.json" % pid,
        "replay_cmd_template": "python3 run.py --prop %s --replay {path}" % pid,
        "engine": "run.py",
        "level_claimed": {"category": sp.get("level", "exploration"), "text": sp["level_text"], "design_ref": "DESIGN.md §4 " + pid},
        "level_note": sp["level_note"],
        "technique": sp["technique"],
    })
na = [{"property_id": pid, "reason": PROPS.get(pid, {}).get("na_reason", "check not built yet in this session (planned, see DESIGN.md §4)")}
      for pid in ids if pid not in [c["property_id"] for c in checks]]
m = {
    "version": 1,
    "setup_cmd": "python3 run.py --setup",
    "hooks": {
        "guard": "verif (Go build tag)",
        "enable": "go test -tags verif -overlay <harness files> -modfile <copy of go.mod + rapid> (done by run.py for every check)",
        "baseline_off_cmd": "cd /repo && GOFLAGS=-mod=mod go test -json -vet=off -count=1 -timeout 25m ./...",
        "source_commits": hook_commits,
        "add_only": True,
    },
    "engines": [{"name": "run.py", "path": "/verif/run.py", "serves_properties": [c["property_id"] for c in checks],
                 "kind_free_text": "python driver: builds in-package rapid/native-fuzz harnesses from /verif/harness into /repo's packages with go test -overlay, shards by seed, merges coverage statistics into evidence"}],
    "checks": checks,
    "not_applicable": na,
    "notes": "Property-based testing and fuzzing only (pgregory.net/rapid state machines and generators, testing/synctest virtual clock, go native fuzzing in thorough tiers). See DESIGN.md.",
}
json.dump(m, open(os.path.join(V, "MANIFEST.json"), "w"), indent=1)
print("claimed:", [c["property_id"] for c in checks], "n/a:", len(na))
