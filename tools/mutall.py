#!/usr/bin/env python3
"""Apply one textual mutant (file:line old->new taken from a mutsweep survivor diff) and run EVERY property's quick check
against it: which property, if any, notices?  usage: mutall.py <survivor.diff> [props...]"""
import os, subprocess, sys
WT = "/tmp/vfmutall"
diff = sys.argv[1]
props = sys.argv[2:] or ["C%02d" % i for i in range(1, 21)]
if not os.path.isdir(WT):
    subprocess.check_call(["git", "-C", "/repo", "worktree", "add", "--detach", WT, "HEAD"], stdout=subprocess.DEVNULL)
head = subprocess.check_output(["git", "-C", "/repo", "rev-parse", "HEAD"], text=True).strip()
subprocess.check_call(["git", "-C", WT, "checkout", "-q", "--detach", head]); subprocess.check_call(["git", "-C", WT, "checkout", "--", "."])
if subprocess.call(["git", "-C", WT, "apply", diff]) != 0:
    sys.exit("diff does not apply")
env = dict(os.environ, VERIF_REPO=WT, VERIF_REPLAY_DIR="/tmp/vfmutall-replays", VERIF_EVIDENCE_DIR="/tmp/vfmutall-evidence")
caught = []
for p in props:
    r = subprocess.run(["python3", "/verif/run.py", "--prop", p, "--tier", "quick"], env=env, capture_output=True, text=True)
    if r.returncode == 1: caught.append(p)
    elif r.returncode != 0: caught.append(p + "?rc%d" % r.returncode)
subprocess.check_call(["git", "-C", WT, "checkout", "--", "."])
print(os.path.basename(os.path.dirname(diff)), os.path.basename(diff), "caught-by:", caught or "NONE", flush=True)
