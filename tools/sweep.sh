#!/bin/bash
# tools/sweep.sh <tier> <seed>... : run every property's tier at each seed, one property at a time; summary in /tmp/sweep/summary.txt
cd /verif
TIER=$1; shift
mkdir -p /tmp/sweep
for S in "$@"; do
  for P in C01 C02 C03 C04 C05 C06 C07 C08 C09 C10 C11 C12 C13 C14 C15 C16 C17 C18 C19 C20; do
    VERIF_SEED=$S python3 run.py --prop $P --tier $TIER > /tmp/sweep/$P-$TIER-$S.log 2>&1
    echo "$P $TIER seed=$S rc=$? $(tail -1 /tmp/sweep/$P-$TIER-$S.log | cut -c1-100)" >> /tmp/sweep/summary.txt
  done
done
