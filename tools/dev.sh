#!/bin/bash
# dev helper: tools/dev.sh <prop> <pkg> <run-regex> [extra test flags...]  — builds the overlay test binary and runs it verbosely
set -e
cd /verif
PROP=$1; PKG=$2; RUN=$3; shift 3
python3 - "$PROP" <<'PY'
import sys; sys.path.insert(0,'/verif')
import run
w = run.prepare_work(sys.argv[1]); print(w)
PY
W=/verif/work/$PROP
export GOFLAGS=-mod=mod GOPROXY=off GONOSUMDB='*' GONOSUMCHECK=1 GOTOOLCHAIN=auto
unset GOSUMDB
(cd ${VERIF_REPO:-/repo} && go test -c -vet=off -tags verif -overlay $W/overlay.json -modfile $W/go.mod -o $W/bin/dev.test $PKG)
mkdir -p $W/run/dev && cd $W/run/dev && rm -rf testdata
VERIF_STATS_DIR=$W/run/dev VERIF_WORKDIR=$W/run/dev VERIF_TIER=quick timeout ${DEV_TIMEOUT:-300} $W/bin/dev.test -test.run "$RUN" -test.v -test.timeout 280s "$@"
