#!/usr/bin/env python3
"""Validate a seeded change delivered by a sub-agent and record it under /verif/seeded/<id>/.
usage: seedcheck.py <id> <prop> <srcdir> <demo-pkg-dir> <demo-run-regex> [--suite] [--tier quick] [--unit U]
Steps (all in the scratch worktree /tmp/vfseed): demo passes on clean HEAD, patch applies and builds,
demo fails with the patch, (optionally) the full existing suite passes with the patch, then the
property's check is run against the patched tree."""
import argparse, json, os, shutil, subprocess, sys, time
ap = argparse.ArgumentParser()
ap.add_argument("id"); ap.add_argument("prop"); ap.add_argument("src"); ap.add_argument("pkg"); ap.add_argument("run")
ap.add_argument("--suite", action="store_true"); ap.add_argument("--tier", default="quick"); ap.add_argument("--unit")
ap.add_argument("--needs", default=""); ap.add_argument("--tags", default=""); ap.add_argument("--race", action="store_true"); ap.add_argument("--nocheck", action="store_true")
a = ap.parse_args()
WT = "/tmp/vfseed"
env = dict(os.environ, GOFLAGS="-mod=mod", GOPROXY="off")
def sh(cmd, **kw):
    return subprocess.run(cmd, capture_output=True, text=True, env=env, **kw)
if not os.path.isdir(WT):
    subprocess.check_call(["git", "-C", "/repo", "worktree", "add", "--detach", WT, "HEAD"], stdout=subprocess.DEVNULL)
head = subprocess.check_output(["git", "-C", "/repo", "rev-parse", "HEAD"], text=True).strip()
sh(["git", "-C", WT, "checkout", "-q", "--detach", head]); sh(["git", "-C", WT, "checkout", "--", "."]); sh(["git", "-C", WT, "clean", "-fdq"])
dst = os.path.join("/verif/seeded", a.id)
os.makedirs(dst, exist_ok=True)
for f in ("patch.diff", "demo_test.go", "README.md"):
    if os.path.exists(os.path.join(a.src, f)):
        shutil.copy(os.path.join(a.src, f), os.path.join(dst, f))
demo_dst = os.path.join(WT, a.pkg, "zz_seed_demo_test.go")
shutil.copy(os.path.join(dst, "demo_test.go"), demo_dst)
ran = []
def demo():
    cmd = ["go", "test", "-vet=off", "-count=1", "-run", a.run] + (["-race"] if a.race else []) + (["-tags", a.tags] if a.tags else []) + ["./" + a.pkg]
    r = sh(cmd, cwd=WT); ran.append(" ".join(cmd)); return r
r0 = demo()
res = {"demo_clean_passes": r0.returncode == 0}
ap_ = sh(["git", "-C", WT, "apply", os.path.join(dst, "patch.diff")])
res["patch_applies"] = ap_.returncode == 0
b = sh(["go", "build", "./..."], cwd=WT); res["builds"] = b.returncode == 0
r1 = demo()
res["demo_patched_fails"] = r1.returncode != 0
if a.suite:
    os.remove(demo_dst)
    t0 = time.time()
    rs = sh(["go", "test", "-vet=off", "-count=1", "-timeout", "25m", "./..."], cwd=WT)
    ran.append("go test -vet=off -count=1 ./...  (patched, %.0fs)" % (time.time() - t0))
    res["suite_passes_patched"] = rs.returncode == 0
    if rs.returncode != 0:
        # re-run failing packages once in isolation: timing-sensitive tests flake when the box is busy
        pk = [l.split()[1] for l in rs.stdout.splitlines() if l.startswith("FAIL\t")]
        if pk:
            rr = sh(["go", "test", "-vet=off", "-count=1", "-timeout", "25m"] + pk, cwd=WT)
            ran.append("re-run of failing packages in isolation: " + " ".join(pk))
            res["suite_first_failures"] = pk
            res["suite_passes_patched"] = rr.returncode == 0
            rs = rr
    if rs.returncode != 0:
        res["suite_fail_tail"] = "\n".join([l for l in rs.stdout.splitlines() if l.startswith(("FAIL", "--- FAIL"))][:10])
else:
    os.remove(demo_dst)
if not a.nocheck:
    cmd = ["python3", "/verif/run.py", "--prop", a.prop, "--tier", a.tier] + (["--unit", a.unit] if a.unit else [])
    t0 = time.time()
    rc = subprocess.run(cmd, capture_output=True, text=True, env=dict(os.environ, VERIF_REPO=WT, VERIF_REPLAY_DIR="/tmp/vfseed-replays", VERIF_EVIDENCE_DIR="/tmp/vfseed-evidence"))
    res["check_cmd"] = " ".join(cmd); res["check_rc"] = rc.returncode; res["check_wall_s"] = round(time.time() - t0)
    res["check_verdict"] = {0: "MISSED", 1: "CAUGHT", 2: "INCONCLUSIVE"}.get(rc.returncode, "rc%d" % rc.returncode)
    res["check_tail"] = "\n".join((rc.stderr + rc.stdout).splitlines()[-12:])
sh(["git", "-C", WT, "checkout", "--", "."]); sh(["git", "-C", WT, "clean", "-fdq"])
meta = {"id": a.id, "property": a.prop, "needs_to_manifest": a.needs, "demo": {"package_dir": a.pkg, "run": a.run, "race": a.race}, "commands_run": ran, "results": res,
        "repo_head": head}
json.dump(meta, open(os.path.join(dst, "meta.json"), "w"), indent=1)
print(json.dumps(res, indent=1))
