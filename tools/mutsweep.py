#!/usr/bin/env python3
"""Automated sensitivity sweep: sample simple syntactic mutants of a property's anchor files, keep those that
compile and pass the mutated package's own tests (i.e. changes the existing suite would let through), and run the
property's quick check against each.   usage: mutsweep.py <prop> [--n 20] [--seed 1] [--files f1,f2]
Results: /tmp/mutsweep/<prop>/results.jsonl, survivors as /tmp/mutsweep/<prop>/survivor-<k>.diff.
Nothing here is registered in MANIFEST.json; it is a development aid (see SENSITIVITY.log for the triaged outcome)."""
import argparse, json, os, random, re, subprocess, sys, time
ap = argparse.ArgumentParser()
ap.add_argument("prop"); ap.add_argument("--n", type=int, default=20); ap.add_argument("--seed", type=int, default=1)
ap.add_argument("--files", default=""); ap.add_argument("--pkgtimeout", type=int, default=400); ap.add_argument("--skip-pkgtest", action="store_true")
a = ap.parse_args()
WT = "/tmp/mutsweep-wt-" + a.prop
OUT = "/tmp/mutsweep/" + a.prop
os.makedirs(OUT, exist_ok=True)
env = dict(os.environ, GOFLAGS="-mod=mod", GOPROXY="off")
for l in open("/verif/properties.jsonl"):
    p = json.loads(l)
    if p["id"] == a.prop: break
files = [f for f in (a.files.split(",") if a.files else p["anchors"]["files"]) if f.endswith(".go") and not f.endswith("_test.go")]
head = subprocess.check_output(["git", "-C", "/repo", "rev-parse", "HEAD"], text=True).strip()
if not os.path.isdir(WT):
    subprocess.check_call(["git", "-C", "/repo", "worktree", "add", "--detach", WT, "HEAD"], stdout=subprocess.DEVNULL)
subprocess.check_call(["git", "-C", WT, "checkout", "-q", "--detach", head]); subprocess.check_call(["git", "-C", WT, "checkout", "--", "."])

OPS = [
    (re.compile(r" == "), " != "), (re.compile(r" != "), " == "),
    (re.compile(r" < "), " <= "), (re.compile(r" <= "), " < "), (re.compile(r" > "), " >= "), (re.compile(r" >= "), " > "),
    (re.compile(r" && "), " || "), (re.compile(r" \|\| "), " && "),
    (re.compile(r"\bif !"), "if "), (re.compile(r"&& !"), "&& "), (re.compile(r"\|\| !"), "|| "),
    (re.compile(r"\breturn true\b"), "return false"), (re.compile(r"\breturn false\b"), "return true"),
    (re.compile(r"\bcontinue$"), "break"), (re.compile(r"^(\s*)continue$"), r"\1"),
    (re.compile(r"(\W)0\b(?!\.)"), r"\g<1>1"), (re.compile(r"(\W)1\b(?!\.)"), r"\g<1>0"), (re.compile(r"(\W)2\b(?!\.)"), r"\g<1>3"),
    (re.compile(r" \+ 1\b"), " + 2"), (re.compile(r" - 1\b"), ""), (re.compile(r" \+ 1\b"), ""),
    (re.compile(r"\bmin\("), "max("), (re.compile(r"\bmax\("), "min("),
    (re.compile(r"\.Before\("), ".After("), (re.compile(r"\.After\("), ".Before("),
    (re.compile(r"strings\.EqualFold\((\w+), (\w+)\)"), r"\1 == \2"),
]
SKIP = re.compile(r"^\s*(//|zlog\.|log\.|fmt\.|import |package |\"|metric|[a-zA-Z]+\.Inc\(\))|Errorf|errors\.New|panic\(")
cands = []
for f in files:
    path = os.path.join(WT, f)
    if not os.path.exists(path): continue
    lines = open(path).read().split("\n")
    infunc = False
    for i, ln in enumerate(lines):
        if ln.startswith("func "): infunc = True
        if not infunc or SKIP.search(ln) or "//nolint" in ln: continue
        code = ln.split("//")[0]
        for k, (rx, rep) in enumerate(OPS):
            for m in rx.finditer(code):
                new = code[:m.start()] + rx.sub(rep, code[m.start():], count=1)
                if new != code:
                    cands.append((f, i, ln, new + ln[len(code):], k))
rnd = random.Random(a.seed)
rnd.shuffle(cands)
print("%d candidate mutants in %d files; sampling %d" % (len(cands), len(files), a.n), flush=True)
done = 0
res = open(os.path.join(OUT, "results.jsonl"), "a")
for (f, i, old, new, k) in cands:
    if done >= a.n: break
    path = os.path.join(WT, f)
    subprocess.check_call(["git", "-C", WT, "checkout", "--", "."])
    lines = open(path).read().split("\n")
    lines[i] = new
    open(path, "w").write("\n".join(lines))
    pkg = "./" + os.path.dirname(f)
    r = subprocess.run(["go", "build", pkg], cwd=WT, capture_output=True, text=True, env=env)
    if r.returncode != 0: continue
    r = subprocess.run(["go", "vet", pkg], cwd=WT, capture_output=True, text=True, env=env) if False else None
    rec = {"prop": a.prop, "file": f, "line": i + 1, "old": old.strip(), "new": new.strip()}
    t0 = time.time()
    if not a.skip_pkgtest:
        try:
            r = subprocess.run(["go", "test", "-vet=off", "-count=1", "-timeout", "%ds" % a.pkgtimeout, pkg], cwd=WT, capture_output=True, text=True, env=env, timeout=a.pkgtimeout + 60)
            if r.returncode != 0:
                rec["verdict"] = "KILLED-BY-SUITE"; res.write(json.dumps(rec) + "\n"); res.flush()
                print("suite kills  %s:%d  %s -> %s" % (f, i + 1, old.strip()[:60], new.strip()[:60]), flush=True)
                continue
        except subprocess.TimeoutExpired:
            rec["verdict"] = "SUITE-TIMEOUT"; res.write(json.dumps(rec) + "\n"); res.flush(); continue
    rec["suite_s"] = round(time.time() - t0)
    done += 1
    t0 = time.time()
    r = subprocess.run(["python3", "/verif/run.py", "--prop", a.prop, "--tier", "quick"], capture_output=True, text=True,
                       env=dict(os.environ, VERIF_REPO=WT, VERIF_REPLAY_DIR="/tmp/mutsweep/replays", VERIF_EVIDENCE_DIR="/tmp/mutsweep/evidence"))
    rec["check_s"] = round(time.time() - t0)
    rec["verdict"] = {0: "MISSED", 1: "CAUGHT", 2: "INCONCLUSIVE"}.get(r.returncode, "rc%d" % r.returncode)
    if rec["verdict"] != "CAUGHT":
        d = subprocess.check_output(["git", "-C", WT, "diff"], text=True)
        n = len([x for x in os.listdir(OUT) if x.startswith("survivor-")])
        open(os.path.join(OUT, "survivor-%d.diff" % n), "w").write(d)
        rec["survivor"] = n
    res.write(json.dumps(rec) + "\n"); res.flush()
    print("%-12s %s:%d  %s -> %s" % (rec["verdict"], f, i + 1, old.strip()[:60], new.strip()[:60]), flush=True)
subprocess.check_call(["git", "-C", WT, "checkout", "--", "."])
