#!/usr/bin/env python3
"""Re-verify every stored seeded change against the current /repo HEAD: the patch still applies and builds, and the
property's quick check still reports a violation. Updates seeded/<id>/meta.json (results.recheck) and prints a table.
usage: reseed.py [id ...]"""
import json, os, subprocess, sys, glob
WT = "/tmp/vfreseed"
env = dict(os.environ, GOFLAGS="-mod=mod", GOPROXY="off")
ids = sys.argv[1:] or sorted(os.path.basename(d.rstrip("/")) for d in glob.glob("/verif/seeded/C*/"))
subprocess.run(["git", "-C", "/repo", "worktree", "remove", "--force", WT], capture_output=True)
subprocess.check_call(["git", "-C", "/repo", "worktree", "add", "--detach", WT, "HEAD"], stdout=subprocess.DEVNULL, stderr=subprocess.DEVNULL)
head = subprocess.check_output(["git", "-C", "/repo", "rev-parse", "--short", "HEAD"], text=True).strip()
bad = 0
for sid in ids:
    d = os.path.join("/verif/seeded", sid)
    m = json.load(open(os.path.join(d, "meta.json")))
    prop = m["property"]
    subprocess.run(["git", "-C", WT, "checkout", "-q", "--", "."]); subprocess.run(["git", "-C", WT, "clean", "-fdq"])
    a = subprocess.run(["git", "-C", WT, "apply", os.path.join(d, "patch.diff")], capture_output=True, text=True)
    rec = {"repo_head": head, "patch_applies": a.returncode == 0}
    if a.returncode == 0:
        b = subprocess.run(["go", "build", "./..."], cwd=WT, env=env, capture_output=True, text=True)
        rec["builds"] = b.returncode == 0
        if b.returncode == 0:
            e = dict(os.environ, VERIF_REPO=WT, VERIF_REPLAY_DIR="/tmp/vfreseed-replays", VERIF_EVIDENCE_DIR="/tmp/vfreseed-evidence")
            r = subprocess.run(["python3", "/verif/run.py", "--prop", prop, "--tier", "quick"], env=e, capture_output=True, text=True)
            rec["check_rc"] = r.returncode
            rec["verdict"] = {0: "MISSED", 1: "CAUGHT"}.get(r.returncode, "INCONCLUSIVE")
    m["results"]["recheck"] = rec
    json.dump(m, open(os.path.join(d, "meta.json"), "w"), indent=1)
    v = rec.get("verdict", "PATCH-STALE" if not rec["patch_applies"] else "NO-BUILD")
    if v != "CAUGHT":
        bad += 1
    print("%-7s %-6s %s" % (sid, prop, v), flush=True)
subprocess.run(["git", "-C", "/repo", "worktree", "remove", "--force", WT], capture_output=True)
subprocess.run(["rm", "-rf", "/tmp/vfreseed-replays", "/tmp/vfreseed-evidence"])
print("not caught:", bad)
