module genkeys

go 1.23
