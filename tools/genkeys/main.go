// genkeys generates the committed RSA test primes used by the C14 harness.
// For each modulus size it finds p,q such that every listed odd exponent is
// invertible mod lcm(p-1,q-1), so one modulus serves all exponents.
package main

import (
	"crypto/rand"
	"encoding/json"
	"fmt"
	"math/big"
	"os"
)

type key struct {
	Bits int    `json:"bits"`
	P    string `json:"p"`
	Q    string `json:"q"`
}

func main() {
	exps := []*big.Int{}
	for _, s := range []string{"3", "65537", "2147483647", "2147483649", "4294967297", "8589934593", "18446744073709551615", "18446744073709551617", "340282366920938463463374607431768211457"} {
		e, _ := new(big.Int).SetString(s, 10)
		exps = append(exps, e)
	}
	one := big.NewInt(1)
	var out []key
	for _, bits := range []int{1016, 1023, 1024, 1025, 1032, 2048, 3072, 4096, 4097, 4104, 8192} {
		for {
			p, _ := rand.Prime(rand.Reader, bits/2)
			q, _ := rand.Prime(rand.Reader, bits-bits/2)
			n := new(big.Int).Mul(p, q)
			if n.BitLen() != bits || p.Cmp(q) == 0 {
				continue
			}
			pm, qm := new(big.Int).Sub(p, one), new(big.Int).Sub(q, one)
			phi := new(big.Int).Mul(pm, qm)
			ok := true
			for _, e := range exps {
				if new(big.Int).GCD(nil, nil, e, phi).Cmp(one) != 0 {
					ok = false
					break
				}
			}
			if !ok {
				continue
			}
			out = append(out, key{bits, p.Text(16), q.Text(16)})
			fmt.Fprintln(os.Stderr, "bits", bits, "ok")
			break
		}
	}
	b, _ := json.MarshalIndent(out, "", " ")
	os.Stdout.Write(b)
}
