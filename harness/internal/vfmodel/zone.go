// Package vfmodel holds the reference models the verification harnesses judge sdns
// against. Overlaid into the module by /verif/run.py; never part of the repository.
//
// zone.go: a small signed zone with ground truth ("what the signer published"): owner
// names with type sets, delegations, DNAMEs, wildcards, empty non-terminals, and the
// genuine NSEC and NSEC3 chains a signer would generate for it. Truth is computed from the
// tree alone (RFC 1034 §4.3.2, RFC 4592, RFC 6672, RFC 4035/5155, RFC 6840 §4.1).
package vfmodel

import (
	"crypto/sha1" //nolint:gosec // RFC 5155 fixes the digest
	"encoding/base32"
	"sort"
	"strings"

	"github.com/miekg/dns"
)

// Zone is one signed zone.
type Zone struct {
	Apex   string                     // canonical, e.g. "example."
	Owners map[string]map[uint16]bool // canonical owner -> RR types present (authoritative data incl. NS/DS at delegation points; glue excluded)
	Glue   map[string]bool            // occluded names below delegation points (not authoritative)
	// NSEC3 parameters
	Salt       string // hex, "" or "-" for none
	Iterations uint16
	OptOut     bool // insecure delegations are left out of the NSEC3 chain and flagged spans
}

func canon(s string) string { return strings.ToLower(dns.Fqdn(s)) }

// Labels splits a canonical presentation name into labels (escape-aware).
func Labels(name string) []string {
	if name == "." || name == "" {
		return nil
	}
	return dns.SplitDomainName(name)
}

// Join builds a name from labels.
func Join(labels []string) string {
	if len(labels) == 0 {
		return "."
	}
	return strings.Join(labels, ".") + "."
}

// IsSubdomain reports child at or below parent, label-wise.
func IsSubdomain(child, parent string) bool {
	c, p := Labels(canon(child)), Labels(canon(parent))
	if len(p) > len(c) {
		return false
	}
	for i := 1; i <= len(p); i++ {
		if c[len(c)-i] != p[len(p)-i] {
			return false
		}
	}
	return true
}

// StrictSubdomain reports child strictly below parent.
func StrictSubdomain(child, parent string) bool {
	return IsSubdomain(child, parent) && len(Labels(canon(child))) > len(Labels(canon(parent)))
}

// Ancestors returns the strict ancestors of name inside the zone, closest first, ending with the apex.
func (z *Zone) Ancestors(name string) []string {
	l := Labels(canon(name))
	al := Labels(z.Apex)
	var out []string
	for i := 1; i <= len(l)-len(al); i++ {
		out = append(out, Join(l[i:]))
	}
	return out
}

// IsDelegation reports whether owner is a delegation point (NS, not the apex).
func (z *Zone) IsDelegation(owner string) bool {
	t := z.Owners[owner]
	return owner != z.Apex && t != nil && t[dns.TypeNS]
}

// Occluded reports whether name lies strictly below a delegation point or a DNAME owner... (delegation only; DNAME
// owners redirect but names below them do not exist as data either).
func (z *Zone) cutAbove(name string) (string, bool) {
	// shallowest delegation point at or above name (excluding apex)
	anc := append([]string{canon(name)}, z.Ancestors(name)...)
	for i := len(anc) - 1; i >= 0; i-- {
		if z.IsDelegation(anc[i]) {
			return anc[i], true
		}
	}
	return "", false
}

// Exists reports whether name exists in the zone in the RFC 4592 sense: it owns data or is an
// empty non-terminal above data (occluded names do not count).
func (z *Zone) Exists(name string) bool {
	name = canon(name)
	if _, ok := z.Owners[name]; ok {
		return true
	}
	for o := range z.Owners {
		if StrictSubdomain(o, name) {
			return true
		}
	}
	return false
}

// Outcome is the ground truth for a question.
type Outcome struct {
	Kind      string // answer nodata nxdomain referral dname outofzone
	ENT       bool   // nodata because the name is an empty non-terminal
	Wildcard  bool   // synthesised from a wildcard
	Source    string // the wildcard owner when Wildcard
	Closest   string // closest encloser (for nxdomain / wildcard)
	Cut       string // delegation point for referral, DNAME owner for dname
	SecureCut bool   // referral: the delegation has a DS
	CNAME     bool   // answer is a CNAME at the name (qtype was something else)
}

// Truth computes the RFC-correct outcome for (qname, qtype) in this zone.
func (z *Zone) Truth(qname string, qtype uint16) Outcome {
	qname = canon(qname)
	if !IsSubdomain(qname, z.Apex) {
		return Outcome{Kind: "outofzone"}
	}
	// 1. delegation (the parent side answers DS at the cut itself)
	if cut, ok := z.cutAbove(qname); ok {
		if !(qtype == dns.TypeDS && qname == cut) {
			return Outcome{Kind: "referral", Cut: cut, SecureCut: z.Owners[cut][dns.TypeDS]}
		}
	}
	// 2. DNAME at a strict ancestor
	anc := z.Ancestors(qname)
	for i := len(anc) - 1; i >= 0; i-- {
		if t := z.Owners[anc[i]]; t != nil && t[dns.TypeDNAME] {
			return Outcome{Kind: "dname", Cut: anc[i]}
		}
	}
	// 3. exact match
	if t, ok := z.Owners[qname]; ok {
		if t[qtype] {
			return Outcome{Kind: "answer"}
		}
		if t[dns.TypeCNAME] && qtype != dns.TypeCNAME && qtype != dns.TypeRRSIG && qtype != dns.TypeNSEC {
			return Outcome{Kind: "answer", CNAME: true}
		}
		return Outcome{Kind: "nodata"}
	}
	// 4. empty non-terminal
	if z.Exists(qname) {
		return Outcome{Kind: "nodata", ENT: true}
	}
	// 5. closest encloser and wildcard
	ce := z.Apex
	for _, a := range anc { // closest first
		if z.Exists(a) {
			ce = a
			break
		}
	}
	wc := "*." + ce
	if ce == "." {
		wc = "*."
	}
	if t, ok := z.Owners[wc]; ok {
		if t[qtype] {
			return Outcome{Kind: "answer", Wildcard: true, Source: wc, Closest: ce}
		}
		if t[dns.TypeCNAME] && qtype != dns.TypeCNAME {
			return Outcome{Kind: "answer", Wildcard: true, Source: wc, Closest: ce, CNAME: true}
		}
		return Outcome{Kind: "nodata", Wildcard: true, Source: wc, Closest: ce}
	}
	if z.Exists(wc) {
		// the source of synthesis exists as an empty non-terminal (RFC 4592 §2.2.2, §3.3.1): it matches, and has nothing
		return Outcome{Kind: "nodata", Wildcard: true, ENT: true, Source: wc, Closest: ce}
	}
	return Outcome{Kind: "nxdomain", Closest: ce}
}

// canonicalLess is RFC 4034 §6.1 ordering written from the RFC: compare labels right to left as
// lower-cased octet strings; a name that is a proper suffix of the other sorts first.
func CanonicalLess(a, b string) bool { return CanonicalCompare(a, b) < 0 }

// CanonicalCompare is the three-way form.
func CanonicalCompare(a, b string) int {
	la, lb := labelOctets(canon(a)), labelOctets(canon(b))
	for i := 1; i <= len(la) && i <= len(lb); i++ {
		x, y := la[len(la)-i], lb[len(lb)-i]
		if c := strings.Compare(string(x), string(y)); c != 0 {
			return c
		}
	}
	switch {
	case len(la) < len(lb):
		return -1
	case len(la) > len(lb):
		return 1
	}
	return 0
}

// labelOctets decodes presentation labels into raw octets (handles \. and \DDD), lower-casing A-Z.
func labelOctets(name string) [][]byte {
	var out [][]byte
	for _, l := range Labels(name) {
		var b []byte
		for i := 0; i < len(l); i++ {
			c := l[i]
			if c == '\\' && i+1 < len(l) {
				if i+3 < len(l) && l[i+1] >= '0' && l[i+1] <= '9' && l[i+2] >= '0' && l[i+2] <= '9' && l[i+3] >= '0' && l[i+3] <= '9' {
					c = (l[i+1]-'0')*100 + (l[i+2]-'0')*10 + (l[i+3] - '0')
					i += 3
				} else {
					c = l[i+1]
					i++
				}
			}
			if c >= 'A' && c <= 'Z' {
				c += 32
			}
			b = append(b, c)
		}
		out = append(out, b)
	}
	return out
}

// ChainOwners returns the owner names that appear in the NSEC chain, in canonical order:
// every authoritative owner (apex, data, delegation points), never glue or ENTs.
func (z *Zone) ChainOwners() []string {
	var out []string
	for o := range z.Owners {
		out = append(out, o)
	}
	sort.Slice(out, func(i, j int) bool { return CanonicalLess(out[i], out[j]) })
	return out
}

func sortedTypes(t map[uint16]bool, extra ...uint16) []uint16 {
	m := map[uint16]bool{}
	for k, v := range t {
		if v {
			m[k] = true
		}
	}
	for _, e := range extra {
		m[e] = true
	}
	var out []uint16
	for k := range m {
		out = append(out, k)
	}
	sort.Slice(out, func(i, j int) bool { return out[i] < out[j] })
	return out
}

// NSECChain renders the genuine NSEC RRset chain of the zone.
func (z *Zone) NSECChain(ttl uint32) []*dns.NSEC {
	owners := z.ChainOwners()
	var out []*dns.NSEC
	for i, o := range owners {
		next := owners[(i+1)%len(owners)]
		types := z.Owners[o]
		bm := sortedTypes(types, dns.TypeRRSIG, dns.TypeNSEC)
		if z.IsDelegation(o) {
			// parent side of a zone cut: NS, DS (if any), RRSIG (only for DS/NSEC), NSEC — never the child's data
			m := map[uint16]bool{dns.TypeNS: true}
			if types[dns.TypeDS] {
				m[dns.TypeDS] = true
			}
			bm = sortedTypes(m, dns.TypeRRSIG, dns.TypeNSEC)
		}
		out = append(out, &dns.NSEC{Hdr: dns.RR_Header{Name: o, Rrtype: dns.TypeNSEC, Class: dns.ClassINET, Ttl: ttl}, NextDomain: next, TypeBitMap: bm})
	}
	return out
}

// NSEC3Hash computes the RFC 5155 hash of name under the zone's parameters (base32hex, lower case).
func (z *Zone) NSEC3Hash(name string) string {
	return NSEC3HashWith(name, z.Salt, z.Iterations)
}

// NSEC3HashWith is the RFC 5155 §5 hash written from the RFC.
func NSEC3HashWith(name, saltHex string, iterations uint16) string {
	var salt []byte
	if saltHex != "" && saltHex != "-" {
		for i := 0; i+1 < len(saltHex); i += 2 {
			var b byte
			for _, c := range []byte(saltHex[i : i+2]) {
				b <<= 4
				switch {
				case c >= '0' && c <= '9':
					b |= c - '0'
				case c >= 'a' && c <= 'f':
					b |= c - 'a' + 10
				case c >= 'A' && c <= 'F':
					b |= c - 'A' + 10
				}
			}
			salt = append(salt, b)
		}
	}
	var wire []byte
	for _, l := range labelOctets(canon(name)) {
		wire = append(wire, byte(len(l)))
		wire = append(wire, l...)
	}
	wire = append(wire, 0)
	h := sha1.Sum(append(wire, salt...)) //nolint:gosec
	for i := 0; i < int(iterations); i++ {
		h = sha1.Sum(append(h[:], salt...)) //nolint:gosec
	}
	return strings.ToLower(base32.HexEncoding.WithPadding(base32.NoPadding).EncodeToString(h[:]))
}

// NSEC3Names returns every name that gets an NSEC3 record: authoritative owners plus the empty
// non-terminals above them (RFC 5155 §7.1); with opt-out, insecure delegations (and ENTs that exist
// only because of them) are left out.
func (z *Zone) NSEC3Names() []string {
	set := map[string]bool{}
	for o := range z.Owners {
		if z.OptOut && z.IsDelegation(o) && !z.Owners[o][dns.TypeDS] {
			continue
		}
		set[o] = true
		for _, a := range z.Ancestors(o) {
			set[a] = true
		}
	}
	var out []string
	for n := range set {
		out = append(out, n)
	}
	sort.Strings(out)
	return out
}

// NSEC3Chain renders the genuine NSEC3 chain.
func (z *Zone) NSEC3Chain(ttl uint32) []*dns.NSEC3 {
	type ent struct {
		hash string
		name string
	}
	var ents []ent
	for _, n := range z.NSEC3Names() {
		ents = append(ents, ent{z.NSEC3Hash(n), n})
	}
	sort.Slice(ents, func(i, j int) bool { return ents[i].hash < ents[j].hash })
	salt := z.Salt
	if salt == "-" {
		salt = ""
	}
	var flags uint8
	if z.OptOut {
		flags = 1
	}
	var out []*dns.NSEC3
	for i, e := range ents {
		next := ents[(i+1)%len(ents)].hash
		var bm []uint16
		if t, ok := z.Owners[e.name]; ok {
			bm = sortedTypes(t, dns.TypeRRSIG)
			if z.IsDelegation(e.name) {
				m := map[uint16]bool{dns.TypeNS: true}
				if t[dns.TypeDS] {
					m[dns.TypeDS] = true
					bm = sortedTypes(m, dns.TypeRRSIG)
				} else {
					bm = sortedTypes(m)
				}
			}
			if e.name == z.Apex {
				bm = sortedTypes(t, dns.TypeRRSIG, dns.TypeNSEC3PARAM)
			}
		}
		out = append(out, &dns.NSEC3{Hdr: dns.RR_Header{Name: e.hash + "." + z.Apex, Rrtype: dns.TypeNSEC3, Class: dns.ClassINET, Ttl: ttl}, Hash: 1, Flags: flags, Iterations: z.Iterations,
			SaltLength: uint8(len(salt) / 2), Salt: salt, HashLength: 20, NextDomain: strings.ToUpper(next), TypeBitMap: bm})
	}
	return out
}

// OptOutDependent reports whether a denial for name would rest on an opt-out span: with opt-out on,
// some insecure delegation at or above the next-closer name may be hidden in the covering span.
func (z *Zone) OptOutPossible() bool { return z.OptOut }
