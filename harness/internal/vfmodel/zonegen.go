package vfmodel

import (
	"fmt"
	"strings"

	"github.com/miekg/dns"
	"pgregory.net/rapid"
)

var zoneLabels = []string{"a", "b", "c", "*", "x", "ab", "a-", "z", "0", "\\000", "b\\.c"}

// GenZone draws a small zone. maxOwners bounds the number of non-apex owner names.
func GenZone(t *rapid.T, apex string, maxOwners int, alphabet []string) *Zone {
	if alphabet == nil {
		alphabet = zoneLabels
	}
	z := &Zone{Apex: canon(apex), Owners: map[string]map[uint16]bool{}, Glue: map[string]bool{}}
	z.Owners[z.Apex] = map[uint16]bool{dns.TypeSOA: true, dns.TypeNS: true, dns.TypeDNSKEY: true}
	if rapid.Bool().Draw(t, "apexA") {
		z.Owners[z.Apex][dns.TypeA] = true
	}
	// RFC 4592 allows an asterisk label anywhere in an owner name; only a leftmost one makes a wildcard. Owners below
	// an asterisk label turn "*.<parent>" into an empty non-terminal - a source of synthesis that exists and holds nothing
	interior := rapid.IntRange(0, 2).Draw(t, "interiorasterisk") == 0
	n := rapid.IntRange(0, maxOwners).Draw(t, "nowners")
	for i := 0; i < n; i++ {
		depth := rapid.SampledFrom([]int{1, 1, 1, 2, 2, 3}).Draw(t, "depth")
		var ls []string
		for d := 0; d < depth; d++ {
			l := rapid.SampledFrom(alphabet).Draw(t, "label")
			if l == "*" && d != 0 && !interior {
				l = "a"
			}
			ls = append(ls, l)
		}
		owner := canon(strings.Join(ls, ".") + "." + z.Apex)
		if z.Apex == "." {
			owner = canon(strings.Join(ls, ".") + ".")
		}
		if _, ok := dns.IsDomainName(owner); !ok {
			continue
		}
		// nothing below an existing delegation point is authoritative
		if cut, ok := z.cutAbove(owner); ok && cut != owner {
			z.Glue[owner] = true
			continue
		}
		// and nothing exists below a DNAME owner (RFC 6672 §2.4)
		belowDname := false
		for _, a := range z.Ancestors(owner) {
			if t := z.Owners[a]; t != nil && t[dns.TypeDNAME] {
				belowDname = true
			}
		}
		if belowDname {
			continue
		}
		types := map[uint16]bool{}
		switch rapid.IntRange(0, 9).Draw(t, "kind") {
		case 0, 1, 2, 3:
			types[dns.TypeA] = true
			if rapid.Bool().Draw(t, "aaaa") {
				types[dns.TypeAAAA] = true
			}
		case 4:
			types[dns.TypeTXT], types[dns.TypeMX] = true, true
		case 5:
			types[dns.TypeCNAME] = true
		case 6:
			if ls[0] != "*" {
				types[dns.TypeDNAME] = true
			} else {
				types[dns.TypeA] = true
			}
		case 7, 8:
			if ls[0] != "*" { // delegation
				types[dns.TypeNS] = true
				if rapid.Bool().Draw(t, "ds") {
					types[dns.TypeDS] = true
				}
			} else {
				types[dns.TypeTXT] = true
			}
		default:
			types[dns.TypeAAAA] = true
		}
		// an owner that already exists keeps its role unless both are plain data
		if old, ok := z.Owners[owner]; ok {
			if old[dns.TypeNS] || old[dns.TypeCNAME] || old[dns.TypeDNAME] || types[dns.TypeNS] || types[dns.TypeCNAME] || types[dns.TypeDNAME] {
				continue
			}
			for k := range types {
				old[k] = true
			}
			continue
		}
		z.Owners[owner] = types
		// owners that ended up below a new DNAME owner cannot stay
		if types[dns.TypeDNAME] {
			for o := range z.Owners {
				if o != owner && StrictSubdomain(o, owner) {
					delete(z.Owners, o)
				}
			}
		}
		// owners that ended up below a new delegation point become glue
		if types[dns.TypeNS] {
			for o := range z.Owners {
				if o != owner && StrictSubdomain(o, owner) {
					delete(z.Owners, o)
					z.Glue[o] = true
				}
			}
		}
	}
	z.Salt = rapid.SampledFrom([]string{"", "ab", "deadbeef"}).Draw(t, "salt")
	z.Iterations = uint16(rapid.SampledFrom([]int{0, 0, 1, 5, 12}).Draw(t, "iterations"))
	z.OptOut = rapid.IntRange(0, 3).Draw(t, "optout") == 0
	return z
}

// GenQName draws a query name aimed at the interesting classes of the zone: existing owner, ENT,
// below a delegation / DNAME, wildcard-covered, absent sibling, apex.
func GenQName(t *rapid.T, z *Zone, alphabet []string) string {
	if alphabet == nil {
		alphabet = zoneLabels
	}
	owners := z.ChainOwners()
	pick := func() string { return owners[rapid.IntRange(0, len(owners)-1).Draw(t, "ownerpick")] }
	lab := func() string {
		l := rapid.SampledFrom(alphabet).Draw(t, "qlabel")
		if l == "*" {
			l = "w"
		}
		return l
	}
	switch rapid.IntRange(0, 8).Draw(t, "qclass") {
	case 0:
		return pick()
	case 1: // parent of an owner (ENT or existing)
		o := pick()
		if l := Labels(o); len(l) > len(Labels(z.Apex))+1 {
			return Join(l[1:])
		}
		return o
	case 2, 3: // child of an owner (below delegation / DNAME / plain)
		o := pick()
		if strings.HasPrefix(o, "*.") {
			o = o[2:]
		}
		n := canon(lab() + "." + o)
		if o == "." {
			n = canon(lab() + ".")
		}
		return n
	case 4: // grandchild
		o := pick()
		if strings.HasPrefix(o, "*.") {
			o = o[2:]
		}
		n := canon(lab() + "." + lab() + "." + o)
		if o == "." {
			n = canon(lab() + "." + lab() + ".")
		}
		return n
	case 5:
		return z.Apex
	default: // fresh name under the apex
		depth := rapid.IntRange(1, 3).Draw(t, "qdepth")
		var ls []string
		for d := 0; d < depth; d++ {
			ls = append(ls, lab())
		}
		if z.Apex == "." {
			return canon(strings.Join(ls, ".") + ".")
		}
		return canon(strings.Join(ls, ".") + "." + z.Apex)
	}
}

// Describe renders the zone for samples and failure messages.
func (z *Zone) Describe() string {
	var sb strings.Builder
	fmt.Fprintf(&sb, "zone %s (nsec3 salt=%q iter=%d optout=%v):", z.Apex, z.Salt, z.Iterations, z.OptOut)
	for _, o := range z.ChainOwners() {
		var ts []string
		for _, ty := range sortedTypes(z.Owners[o]) {
			ts = append(ts, dns.TypeToString[ty])
		}
		fmt.Fprintf(&sb, " %s{%s}", o, strings.Join(ts, ","))
	}
	if len(z.Glue) > 0 {
		sb.WriteString(" glue:")
		for g := range z.Glue {
			sb.WriteString(" " + g)
		}
	}
	return sb.String()
}
