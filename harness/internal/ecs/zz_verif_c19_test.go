package ecs

// C19 (arithmetic half): Policy.Build / Allows / Clamp / ClampScope versus reference
// prefix arithmetic written with net/netip.

import (
	"fmt"
	"net"
	"net/netip"
	"testing"

	"github.com/miekg/dns"
	"github.com/semihalev/sdns/internal/vfstat"
	"pgregory.net/rapid"
)

func TestVerifC19Policy(t *testing.T) {
	defer vfstat.Flush()
	vfstat.Quiet()
	const U = "C19.policy"
	rapid.Check(t, func(rt *rapid.T) {
		enabled := rapid.IntRange(0, 9).Draw(rt, "enabled") != 0
		f4 := uint8(rapid.SampledFrom([]int{0, 0, 1, 8, 16, 20, 24, 24, 25, 32, 32, 33}).Draw(rt, "f4"))
		f6 := uint8(rapid.SampledFrom([]int{0, 0, 1, 32, 48, 56, 56, 64, 128, 128, 129}).Draw(rt, "f6"))
		m4 := uint8(rapid.SampledFrom([]int{0, 0, 8, 16, 20, 24, 32, 32, 40}).Draw(rt, "m4"))
		m6 := uint8(rapid.SampledFrom([]int{0, 0, 32, 48, 56, 64, 128, 130}).Draw(rt, "m6"))
		nets := rapid.SampledFrom([][]string{nil, nil, {"203.0.113.0/24"}, {"10.0.0.0/8", "2001:db8::/32"}, {"10.0.0.0/8", "2001:db8::/32"}, {"garbage"}, {"0.0.0.0/0", "::/0"}, {"0.0.0.0/0", "::/0"}, {"10.0.0.0/33"}}).Draw(rt, "nets")
		p, err := Build(enabled, f4, f6, m4, m6, nets)
		// reference validity
		valid := true
		if enabled {
			if f4 > 32 || f6 > 128 || m4 > 32 || m6 > 128 {
				valid = false
			}
			for _, n := range nets {
				if _, e := netip.ParsePrefix(n); e != nil {
					valid = false
				}
			}
		}
		if enabled && (err == nil) != valid {
			rt.Fatalf("Build(%v,%d,%d,%d,%d,%v): err=%v, reference validity %v", enabled, f4, f6, m4, m6, nets, err, valid)
		}
		if !enabled && (p != nil || err != nil) {
			rt.Fatalf("disabled policy built as %v, %v", p, err)
		}
		if err != nil && p != nil {
			rt.Fatalf("invalid configuration returned a usable policy")
		}
		client := netip.MustParseAddr(rapid.SampledFrom([]string{"203.0.113.9", "10.1.2.3", "192.0.2.1", "2001:db8::1", "2001:db9::1", "::ffff:10.1.2.3"}).Draw(rt, "client"))
		// Allows
		wantAllow := p != nil
		if p != nil && len(nets) > 0 {
			wantAllow = false
			for _, n := range nets {
				if netip.MustParsePrefix(n).Contains(client) {
					wantAllow = true
				}
			}
		}
		if got := p.Allows(client); got != wantAllow {
			rt.Fatalf("Allows(%v) with networks %v = %v, reference %v", client, nets, got, wantAllow)
		}
		vfstat.Eval(U, 1)
		if p == nil {
			// a nil policy (disabled or invalid) forwards nothing
			if (*Policy)(nil).Clamp(&dns.EDNS0_SUBNET{Family: 1, SourceNetmask: 24, Address: net.IPv4(1, 2, 3, 4)}) != nil {
				rt.Fatalf("nil policy clamped an option")
			}
			vfstat.Class(U, "no-policy")
			return
		}
		ceil4, ceil6 := f4, f6
		if ceil4 == 0 {
			ceil4 = 24
		}
		if ceil6 == 0 {
			ceil6 = 56
		}
		// Clamp
		fam := rapid.SampledFrom([]uint16{1, 1, 2, 2, 0, 3}).Draw(rt, "fam")
		mask := uint8(rapid.SampledFrom([]int{0, 1, 7, 8, 9, 23, 24, 25, 31, 32, 33, 47, 48, 56, 57, 64, 127, 128, 129, 255}).Draw(rt, "mask"))
		addrS := rapid.SampledFrom([]string{"203.0.113.77", "255.255.255.255", "10.1.2.3", "2001:db8:abcd:12ff:ffff:ffff:ffff:ffff", "::ffff:10.1.2.3", "::1", ""}).Draw(rt, "addr")
		var ip net.IP
		if addrS != "" {
			ip = net.ParseIP(addrS)
			if rapid.Bool().Draw(rt, "to4") {
				if v4 := ip.To4(); v4 != nil {
					ip = v4
				}
			}
		}
		in := &dns.EDNS0_SUBNET{Code: dns.EDNS0SUBNET, Family: fam, SourceNetmask: mask, SourceScope: uint8(rapid.SampledFrom([]int{0, 24}).Draw(rt, "inscope")), Address: ip}
		out := p.Clamp(in)
		// reference
		var want *netip.Prefix
		if ip != nil {
			var a netip.Addr
			ok := false
			if v4 := ip.To4(); v4 != nil {
				a, ok = netip.AddrFromSlice(v4)
			} else {
				a, ok = netip.AddrFromSlice(ip)
			}
			if ok && ((fam == 1 && a.Is4()) || (fam == 2 && a.Is6() && !a.Is4In6())) {
				ceil := ceil4
				if fam == 2 {
					ceil = ceil6
				}
				bits := mask
				if bits > ceil {
					bits = ceil
				}
				if pr, e := a.Prefix(int(bits)); e == nil {
					want = &pr
				}
			}
		}
		if (out != nil) != (want != nil) {
			rt.Fatalf("Clamp(fam=%d mask=%d addr=%v) forwarded=%v, reference forwards=%v", fam, mask, ip, out != nil, want != nil)
		}
		if out != nil {
			got, _ := netip.AddrFromSlice(out.Address)
			if out.Family != fam || int(out.SourceNetmask) != want.Bits() || got.Unmap() != want.Addr().Unmap() || out.SourceScope != 0 {
				rt.Fatalf("Clamp(fam=%d mask=%d addr=%v) = fam %d %v/%d scope %d; reference %v scope 0", fam, mask, ip, out.Family, got, out.SourceNetmask, out.SourceScope, want)
			}
			vfstat.Class(U, "forwarded")
			if int(mask) > want.Bits() {
				vfstat.Class(U, "mask-above-ceiling")
			}
		}
		// ClampScope
		scope := netip.MustParsePrefix(rapid.SampledFrom([]string{"203.0.113.0/24", "203.0.113.64/26", "203.0.0.0/8", "203.0.113.77/32", "2001:db8:abcd::/48", "2001:db8:abcd:1200::/56", "2001:db8::/32"}).Draw(rt, "scope"))
		source := netip.Prefix{}
		if rapid.IntRange(0, 4).Draw(rt, "hassource") != 0 {
			sb := rapid.IntRange(0, scope.Addr().BitLen()).Draw(rt, "sourcebits")
			source, _ = scope.Addr().Prefix(sb)
		}
		got := p.ClampScope(scope, source)
		floor4, floor6 := m4, m6
		if floor4 == 0 {
			floor4 = ceil4
		}
		if floor6 == 0 {
			floor6 = ceil6
		}
		wb := scope.Bits()
		if source.IsValid() && source.Bits() < wb {
			wb = source.Bits()
		}
		fl := int(floor4)
		if scope.Addr().Is6() {
			fl = int(floor6)
		}
		if wb > fl {
			wb = fl
		}
		wantScope, _ := scope.Addr().Prefix(wb)
		if got != wantScope {
			rt.Fatalf("ClampScope(%v, source %v) with floors %d/%d = %v, reference %v", scope, source, floor4, floor6, got, wantScope)
		}
		vfstat.NonTrivial(U, fmt.Sprint(fam, mask, addrS, f4, f6, m4, m6, scope, source.Bits(), out != nil))
		vfstat.Sample(U, fmt.Sprint(out != nil), map[string]any{"ceilings": []uint8{ceil4, ceil6}, "floors": []uint8{floor4, floor6}, "client_option": fmt.Sprintf("fam=%d %v/%d", fam, ip, mask), "forwarded": fmt.Sprint(out), "scope": scope.String(), "source": source.String(), "stored_scope": got.String()})
	})
}
