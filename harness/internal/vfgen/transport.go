package vfgen

import (
	"net"

	"github.com/miekg/dns"
)

// Transport is a recording middleware.Transport for harnesses: any remote
// address type, optional protocol name and internal flag.
type Transport struct {
	Local, Remote net.Addr
	ProtoName     string
	IsInternal    bool
	Msgs          []*dns.Msg
	Raw           [][]byte
}

func (t *Transport) LocalAddr() net.Addr  { return t.Local }
func (t *Transport) RemoteAddr() net.Addr { return t.Remote }
func (t *Transport) Close() error         { return nil }
func (t *Transport) Proto() string        { return t.ProtoName }
func (t *Transport) Internal() bool       { return t.IsInternal }
func (t *Transport) WriteMsg(m *dns.Msg) error {
	t.Msgs = append(t.Msgs, m)
	return nil
}
func (t *Transport) Write(b []byte) (int, error) {
	t.Raw = append(t.Raw, append([]byte(nil), b...))
	return len(b), nil
}

// Writes is the number of replies delivered to the transport.
func (t *Transport) Writes() int { return len(t.Msgs) + len(t.Raw) }

// NewTransport builds a transport for proto ∈ {udp,tcp,dot,doh,doq} and a client IP.
func NewTransport(proto string, ip net.IP, port int) *Transport {
	t := &Transport{}
	switch proto {
	case "udp":
		t.Local = &net.UDPAddr{IP: net.IPv4(192, 0, 2, 1), Port: 53}
		t.Remote = &net.UDPAddr{IP: ip, Port: port}
	case "doq":
		t.Local = &net.UDPAddr{IP: net.IPv4(192, 0, 2, 1), Port: 853}
		t.Remote = &net.UDPAddr{IP: ip, Port: port}
		t.ProtoName = "doq"
	case "doh":
		t.Local = &net.TCPAddr{IP: net.IPv4(192, 0, 2, 1), Port: 443}
		t.Remote = &net.TCPAddr{IP: ip, Port: port}
		t.ProtoName = "doh"
	case "dot":
		t.Local = &net.TCPAddr{IP: net.IPv4(192, 0, 2, 1), Port: 853}
		t.Remote = &net.TCPAddr{IP: ip, Port: port}
		t.ProtoName = "tcp-tls"
	default:
		t.Local = &net.TCPAddr{IP: net.IPv4(192, 0, 2, 1), Port: 53}
		t.Remote = &net.TCPAddr{IP: ip, Port: port}
	}
	return t
}
