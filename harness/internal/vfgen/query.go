package vfgen

import (
	"encoding/binary"
	"encoding/hex"
	"net"
	"strings"

	"github.com/miekg/dns"
	"pgregory.net/rapid"
)

// QuerySpec is a client query as plain data; Pack renders the packet bytes.
type QuerySpec struct {
	ID                            uint16
	Name                          string
	Qtype, Qclass                 uint16
	QR, AA, TC, RD, RA, Z, AD, CD bool
	Opcode                        int
	Rcode                         int
	EDNS                          bool
	Version                       uint8
	UDPSize                       uint16
	DO                            bool
	ExtRcode                      uint8
	Options                       []OptionSpec
	// byte-level edits applied after packing
	Edits []string // "trailing", "qd0", "qd2", "an1", "ns1", "ar+1", "truncate:N", "ptrname", "dupopt", "optlen+", "optnameNonRoot", "extraA"
}

// Msg builds the decoded form (before byte edits).
func (q *QuerySpec) Msg() *dns.Msg {
	m := new(dns.Msg)
	m.Id = q.ID
	m.Response, m.Authoritative, m.Truncated, m.RecursionDesired = q.QR, q.AA, q.TC, q.RD
	m.RecursionAvailable, m.Zero, m.AuthenticatedData, m.CheckingDisabled = q.RA, q.Z, q.AD, q.CD
	m.Opcode, m.Rcode = q.Opcode, q.Rcode
	m.Question = []dns.Question{{Name: q.Name, Qtype: q.Qtype, Qclass: q.Qclass}}
	if q.EDNS {
		spec := &OptSpec{UDPSize: q.UDPSize, Options: q.Options}
		spec.TTL = uint32(q.ExtRcode)<<24 | uint32(q.Version)<<16
		if q.DO {
			spec.TTL |= 0x8000
		}
		m.Extra = append(m.Extra, spec.build())
	}
	return m
}

// Pack renders the query packet, applying the byte-level edits.
func (q *QuerySpec) Pack() []byte {
	m := q.Msg()
	for _, e := range q.Edits {
		if e == "extraA" {
			rr, _ := dns.NewRR("extra.example. 60 IN A 192.0.2.200")
			m.Extra = append([]dns.RR{rr}, m.Extra...)
		}
		if e == "dupopt" && q.EDNS {
			m.Extra = append(m.Extra, (&OptSpec{UDPSize: 512}).build())
		}
	}
	b, err := m.Pack()
	if err != nil {
		// a name the library refuses: fall back to a fixed valid question
		m.Question[0].Name = "fallback.example."
		b, err = m.Pack()
		if err != nil {
			panic("vfgen: query does not pack: " + err.Error())
		}
	}
	if len(b) < 12 {
		return b
	}
	for _, e := range q.Edits {
		switch {
		case e == "trailing":
			b = append(b, 0xde, 0xad, 0xbe, 0xef)
		case e == "qd0":
			binary.BigEndian.PutUint16(b[4:6], 0)
		case e == "qd2":
			binary.BigEndian.PutUint16(b[4:6], 2)
		case e == "an1":
			binary.BigEndian.PutUint16(b[6:8], 1)
		case e == "ns1":
			binary.BigEndian.PutUint16(b[8:10], 1)
		case e == "ar+1":
			binary.BigEndian.PutUint16(b[10:12], binary.BigEndian.Uint16(b[10:12])+1)
		case strings.HasPrefix(e, "truncate:"):
			var n int
			for _, c := range e[len("truncate:"):] {
				n = n*10 + int(c-'0')
			}
			if n < len(b) {
				b = b[:n]
			}
		case e == "ptrname":
			// replace the question name by a compression pointer to itself-ish (offset 12)
			end := 12
			for end < len(b) && b[end] != 0 {
				end += int(b[end]) + 1
			}
			if end+5 <= len(b) {
				nb := append([]byte{}, b[:12]...)
				nb = append(nb, 0xc0, 0x0c)
				nb = append(nb, b[end+1:]...)
				b = nb
			}
		case e == "optlen+" && q.EDNS:
			// corrupt the OPT rdlength (last record): claim more bytes than present
			if len(b) >= 2 {
				// find rdlength: OPT is the final RR; its fixed part is 11 octets from its start
				// ".", type(2), class(2), ttl(4), rdlen(2)
				rd := 0
				for _, o := range q.Options {
					_ = o
				}
				opt := m.IsEdns0()
				if opt != nil {
					rd = dns.Len(opt) - 11
				}
				off := len(b) - rd - 2
				if off > 12 && off+2 <= len(b) {
					binary.BigEndian.PutUint16(b[off:off+2], uint16(rd+7))
				}
			}
		case e == "optnameNonRoot" && q.EDNS:
			opt := m.IsEdns0()
			if opt != nil {
				off := len(b) - dns.Len(opt)
				if off > 12 && off < len(b) && b[off] == 0 {
					nb := append([]byte{}, b[:off]...)
					nb = append(nb, 1, 'x', 0)
					nb = append(nb, b[off+1:]...)
					b = nb
				}
			}
		}
	}
	return b
}

var queryNames = []string{"www.example.org.", "WWW.Example.ORG.", "example.org.", "alias.example.org.", "alias2.example.org.", "nx.example.org.", "deep.nx.example.org.", "nodata.example.org.", "signed.example.org.",
	"big.example.org.", "fail.example.org.", "sub.fail.example.org.", "local.test.", "1.0.0.10.in-addr.arpa.", "10.in-addr.arpa.", ".", "version.bind.", "esc\\.aped.example.org.", "bin\\000\\255.example.org.", "geo.example.org.", "ede.example.org.", "x.local.test."}

// GenQuery draws a client query. wild=false keeps it well-formed (header edits and malformed
// OPT shapes only when wild).
func GenQuery(t *rapid.T, wild bool) *QuerySpec {
	q := &QuerySpec{
		ID:     rapid.Uint16().Draw(t, "qid"),
		Name:   rapid.SampledFrom(queryNames).Draw(t, "qname"),
		Qtype:  rapid.SampledFrom([]uint16{dns.TypeA, dns.TypeA, dns.TypeA, dns.TypeAAAA, dns.TypeMX, dns.TypeTXT, dns.TypeCNAME, dns.TypeNS, dns.TypeRRSIG, dns.TypePTR, dns.TypeSOA, dns.TypeANY, dns.TypeDS, dns.TypeHTTPS}).Draw(t, "qtype"),
		Qclass: dns.ClassINET,
		RD:     rapid.IntRange(0, 9).Draw(t, "qrd") != 0,
		CD:     rapid.IntRange(0, 4).Draw(t, "qcd") == 0,
		AD:     rapid.IntRange(0, 3).Draw(t, "qad") == 0,
	}
	if rapid.IntRange(0, 2).Draw(t, "qedns") != 0 {
		q.EDNS = true
		q.UDPSize = rapid.SampledFrom([]uint16{0, 512, 513, 1232, 1232, 4096, 65535, 200}).Draw(t, "qsize")
		q.DO = rapid.Bool().Draw(t, "qdo")
		n := rapid.SampledFrom([]int{0, 0, 1, 1, 2, 3}).Draw(t, "qnopt")
		for i := 0; i < n; i++ {
			k := rapid.SampledFrom([]string{"cookie", "cookie", "nsid", "subnet", "padding", "keepalive", "local", "ede", "expire", "rawknown"}).Draw(t, "qoptkind")
			e := OptionSpec{Kind: k}
			switch k {
			case "rawknown":
				// a well-known option code over a payload of arbitrary length, written as raw bytes: lengths the option's
				// own format does not allow (1-octet keepalive, 3-octet subnet, 7-octet cookie, 1-octet EDE ...)
				e.Kind = "local"
				e.Code = rapid.SampledFrom([]uint16{dns.EDNS0TCPKEEPALIVE, dns.EDNS0TCPKEEPALIVE, dns.EDNS0SUBNET, dns.EDNS0COOKIE, dns.EDNS0EDE, dns.EDNS0EXPIRE, dns.EDNS0NSID, dns.EDNS0PADDING}).Draw(t, "qrawcode")
				e.Data = rapid.SampledFrom([]string{"", "aa", "aabb", "aabbcc", "00010203", "0001020304050607", "00010203040506", "000102030405060708090a0b0c0d0e0f101112131415161718191a1b1c1d1e1f2021222324252627"}).Draw(t, "qrawdata")
			case "cookie":
				e.Data = rapid.SampledFrom([]string{"0102030405060708", "0102030405060708a1a2a3a4a5a6a7a8", "1112131415161718b1b2b3b4b5b6b7b8b9", "01020304", ""}).Draw(t, "qcookie")
			case "subnet":
				e.Kind = "rawsubnet"
				e.Code = rapid.SampledFrom([]uint16{1, 1, 1, 2, 2, 0, 3}).Draw(t, "qfam")
				e.A = uint8(rapid.SampledFrom([]int{0, 8, 20, 24, 25, 32, 48, 56, 64, 128, 33}).Draw(t, "qmask"))
				e.B = uint8(rapid.SampledFrom([]int{0, 0, 0, 24}).Draw(t, "qscope"))
				addr := net.ParseIP(rapid.SampledFrom([]string{"203.0.113.77", "198.51.100.200", "192.0.2.0"}).Draw(t, "qaddr4")).To4()
				if e.Code == 2 {
					addr = net.ParseIP(rapid.SampledFrom([]string{"2001:db8:abcd:1234::1", "2001:db8:ffff:ffff:ffff::"}).Draw(t, "qaddr6"))
				}
				n := (int(e.A) + 7) / 8
				switch rapid.IntRange(0, 5).Draw(t, "qaddrlen") {
				case 0:
					n = len(addr) // full address: host bits present
				case 1:
					n = 0
				}
				if n > len(addr) {
					n = len(addr)
				}
				e.Data = hex.EncodeToString(addr[:n])
			case "padding":
				e.Data = strings.Repeat("00", rapid.SampledFrom([]int{0, 7, 100}).Draw(t, "qpad"))
			case "keepalive":
				e.Code = rapid.SampledFrom([]uint16{0, 600}).Draw(t, "qka")
			case "local":
				e.Code = rapid.SampledFrom([]uint16{65001, 4242}).Draw(t, "qlc")
				e.Data = "cafe"
			case "ede":
				e.Code = 3
			case "expire":
				e.A = 1
			}
			q.Options = append(q.Options, e)
		}
	}
	if wild {
		switch rapid.IntRange(0, 29).Draw(t, "qwild") {
		case 0:
			q.QR = true
		case 1:
			q.Opcode = rapid.SampledFrom([]int{1, 2, 4, 5, 6, 15}).Draw(t, "qopcode")
		case 2:
			q.Qclass = rapid.SampledFrom([]uint16{dns.ClassCHAOS, dns.ClassANY, dns.ClassNONE, 0, 65535}).Draw(t, "qclass")
		case 3:
			q.Qtype = rapid.SampledFrom([]uint16{dns.TypeAXFR, dns.TypeIXFR, dns.TypeOPT, 0, 65535, 65280, dns.TypeTKEY, dns.TypeNULL}).Draw(t, "qtypeodd")
		case 4:
			q.AA, q.TC, q.RA, q.Z = rapid.Bool().Draw(t, "qaa"), rapid.Bool().Draw(t, "qtc"), rapid.Bool().Draw(t, "qra"), rapid.Bool().Draw(t, "qz")
		case 5:
			q.Rcode = rapid.SampledFrom([]int{1, 2, 3, 15}).Draw(t, "qrcode")
		case 6:
			if q.EDNS {
				q.Version = rapid.SampledFrom([]uint8{1, 2, 255}).Draw(t, "qver")
			}
		case 7:
			if q.EDNS {
				q.ExtRcode = rapid.SampledFrom([]uint8{1, 255}).Draw(t, "qext")
			}
		case 8:
			q.Edits = append(q.Edits, rapid.SampledFrom([]string{"trailing", "qd0", "qd2", "an1", "ns1", "ar+1", "ptrname", "dupopt", "optlen+", "optnameNonRoot", "extraA"}).Draw(t, "qedit"))
		case 9:
			q.Edits = append(q.Edits, "truncate:"+rapid.SampledFrom([]string{"0", "1", "11", "12", "13", "17", "28", "33", "40"}).Draw(t, "qtrunc"))
		case 10:
			q.Name = rapid.SampledFrom([]string{strings.Repeat("a", 63) + "." + strings.Repeat("b", 63) + "." + strings.Repeat("c", 63) + "." + strings.Repeat("d", 61) + ".", "UPPER.CASE.EXAMPLE.ORG.", "wWw.eXaMpLe.oRg.", "*.example.org.", "_srv._tcp.example.org."}).Draw(t, "qnameodd")
		}
	}
	return q
}

// Describe renders the spec compactly for samples and failure messages.
func (q *QuerySpec) Describe() map[string]any {
	var opts []string
	for _, o := range q.Options {
		opts = append(opts, o.Kind+":"+o.Data+o.Addr)
	}
	return map[string]any{"name": q.Name, "qtype": dns.TypeToString[q.Qtype], "class": q.Qclass, "rd": q.RD, "cd": q.CD, "ad": q.AD, "qr": q.QR, "opcode": q.Opcode,
		"edns": q.EDNS, "size": q.UDPSize, "do": q.DO, "version": q.Version, "options": opts, "edits": q.Edits, "hex": hex.EncodeToString(q.Pack())}
}

// ClientAddrs is a small pool of client addresses used by pipeline harnesses.
var ClientAddrs = []net.IP{net.ParseIP("203.0.113.7").To4(), net.ParseIP("198.51.100.9").To4(), net.ParseIP("2001:db8:abcd::7"), net.ParseIP("192.0.2.33").To4()}
