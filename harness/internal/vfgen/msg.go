package vfgen

import (
	"fmt"
	"net"
	"strings"

	"github.com/miekg/dns"
	"pgregory.net/rapid"
)

// ---------------------------------------------------------------------------
// Message recipes: a recipe is plain data from which the same dns.Msg (same
// values, same pointer aliasing) can be built any number of times. Harnesses
// build one copy for the code under test, one for the reference and one as the
// pristine witness for immutability checks.

// RRSpec describes one record slot of a section.
type RRSpec struct {
	Kind  string // "text", "opt", "svcb", "nil", "typednil", "foreign", "fakeopt", "private", "alias"
	Text  string // for "text": presentation form accepted by dns.NewRR
	Alias int    // for "alias": index into the recipe's record table (same pointer reused)
	Opt   *OptSpec
	SVCB  *SVCBSpec
	TTL   uint32
	Owner string
}

// OptSpec describes an OPT pseudo-record.
type OptSpec struct {
	UDPSize uint16
	TTL     uint32 // ext-rcode / version / DO bits as the caller built them
	Options []OptionSpec
}

// OptionSpec is one EDNS0 option.
type OptionSpec struct {
	Kind string // nsid cookie subnet padding keepalive ede local expire llq ul dau dhu n3u esu foreign nil
	Data string // hex or text payload
	Code uint16
	A, B uint8
	Addr string
}

// SVCBSpec describes an SVCB/HTTPS record.
type SVCBSpec struct {
	HTTPS    bool
	Priority uint16
	Target   string
	Params   []string // alpn port ipv4hint ipv6hint ech mandatory nodefaultalpn dohpath local foreign nil
}

// MsgRecipe is the whole message.
type MsgRecipe struct {
	ID                                     uint16
	Response, AA, TC, RD, RA, Zero, AD, CD bool
	Opcode, Rcode                          int
	Compress                               bool
	Questions                              []dns.Question
	Table                                  []RRSpec // distinct record objects
	Answer, Ns, Extra                      []int    // indexes into Table
	Desc                                   []string
}

// foreignRR is a record type declared outside the library.
type foreignRR struct{ dns.A }

// fakeOPT wears the OPT type code without being *dns.OPT.
type fakeOPT struct{ dns.A }

type foreignOption struct{ dns.EDNS0_LOCAL }

type foreignSVCB struct{ dns.SVCBLocal }

// privateRdata is PrivateRR registrant code.
type privateRdata struct{ b []byte }

func (p *privateRdata) String() string               { return fmt.Sprintf("%x", p.b) }
func (p *privateRdata) Parse(s []string) error       { return nil }
func (p *privateRdata) Pack(buf []byte) (int, error) { return copy(buf, p.b), nil }
func (p *privateRdata) Unpack(buf []byte) (int, error) {
	p.b = append([]byte(nil), buf...)
	return len(buf), nil
}
func (p *privateRdata) Copy(dst dns.PrivateRdata) error {
	dst.(*privateRdata).b = append([]byte(nil), p.b...)
	return nil
}
func (p *privateRdata) Len() int { return len(p.b) }

// Build materialises the recipe. Calling it twice yields two independent
// messages with identical structure and aliasing.
func (r *MsgRecipe) Build() *dns.Msg {
	m := new(dns.Msg)
	m.Id, m.Response, m.Authoritative, m.Truncated = r.ID, r.Response, r.AA, r.TC
	m.RecursionDesired, m.RecursionAvailable, m.Zero = r.RD, r.RA, r.Zero
	m.AuthenticatedData, m.CheckingDisabled = r.AD, r.CD
	m.Opcode, m.Rcode, m.Compress = r.Opcode, r.Rcode, r.Compress
	m.Question = append([]dns.Question(nil), r.Questions...)
	objs := make([]dns.RR, len(r.Table))
	for i, s := range r.Table {
		objs[i] = s.build(objs)
	}
	pick := func(idx []int) []dns.RR {
		if idx == nil {
			return nil
		}
		out := make([]dns.RR, len(idx))
		for i, k := range idx {
			out[i] = objs[k]
		}
		return out
	}
	m.Answer, m.Ns, m.Extra = pick(r.Answer), pick(r.Ns), pick(r.Extra)
	return m
}

func (s RRSpec) build(objs []dns.RR) dns.RR {
	switch s.Kind {
	case "text":
		rr, err := dns.NewRR(s.Text)
		if err != nil || rr == nil {
			rr = &dns.TXT{Hdr: dns.RR_Header{Name: "bad.template.", Rrtype: dns.TypeTXT, Class: dns.ClassINET}, Txt: []string{s.Text}}
		}
		return rr
	case "rawname": // a record whose embedded name is not fully qualified: the library refuses to pack it
		return &dns.CNAME{Hdr: dns.RR_Header{Name: s.Owner, Rrtype: dns.TypeCNAME, Class: dns.ClassINET, Ttl: s.TTL}, Target: s.Text}
	case "opt":
		return s.Opt.build()
	case "svcb":
		return s.SVCB.build(s.Owner, s.TTL)
	case "nil":
		return nil
	case "typednil":
		var a *dns.A
		return a
	case "foreign":
		return &foreignRR{dns.A{Hdr: dns.RR_Header{Name: s.Owner, Rrtype: dns.TypeA, Class: dns.ClassINET, Ttl: s.TTL}, A: net.IPv4(192, 0, 2, 9).To4()}}
	case "fakeopt":
		return &fakeOPT{dns.A{Hdr: dns.RR_Header{Name: ".", Rrtype: dns.TypeOPT, Class: 1232, Ttl: s.TTL}, A: net.IPv4(192, 0, 2, 9).To4()}}
	case "a16": // an A record holding a 16-byte address that is not IPv4-mapped: the library advances four octets without writing them
		return &dns.A{Hdr: dns.RR_Header{Name: s.Owner, Rrtype: dns.TypeA, Class: dns.ClassINET, Ttl: s.TTL}, A: net.ParseIP(s.Text)}
	case "l32v6":
		return &dns.L32{Hdr: dns.RR_Header{Name: s.Owner, Rrtype: dns.TypeL32, Class: dns.ClassINET, Ttl: s.TTL}, Preference: 7, Locator32: net.ParseIP(s.Text)}
	case "strayopt": // an OPT-typed Go value whose header says another type: IsEdns0 goes by the header
		return &dns.OPT{Hdr: dns.RR_Header{Name: ".", Rrtype: dns.TypeNULL, Class: 1232, Ttl: s.TTL}}
	case "private":
		return &dns.PrivateRR{Hdr: dns.RR_Header{Name: s.Owner, Rrtype: 65280, Class: dns.ClassINET, Ttl: s.TTL}, Data: &privateRdata{b: []byte(s.Text)}}
	}
	return nil
}

func unhex(s string) []byte {
	out := make([]byte, 0, len(s)/2)
	for i := 0; i+1 < len(s); i += 2 {
		var b byte
		fmt.Sscanf(s[i:i+2], "%02x", &b)
		out = append(out, b)
	}
	return out
}

func (o *OptSpec) build() dns.RR {
	opt := &dns.OPT{Hdr: dns.RR_Header{Name: ".", Rrtype: dns.TypeOPT, Class: o.UDPSize, Ttl: o.TTL}}
	for _, e := range o.Options {
		switch e.Kind {
		case "nsid":
			opt.Option = append(opt.Option, &dns.EDNS0_NSID{Code: dns.EDNS0NSID, Nsid: e.Data})
		case "cookie":
			opt.Option = append(opt.Option, &dns.EDNS0_COOKIE{Code: dns.EDNS0COOKIE, Cookie: e.Data})
		case "subnet":
			opt.Option = append(opt.Option, &dns.EDNS0_SUBNET{Code: dns.EDNS0SUBNET, Family: uint16(e.Code), SourceNetmask: e.A, SourceScope: e.B, Address: net.ParseIP(e.Addr)})
		case "rawsubnet":
			// hand-encoded RFC 7871 option (lets the generator produce families, masks and address
			// lengths the library refuses to pack): FAMILY(2) SOURCE(1) SCOPE(1) ADDRESS(n)
			data := []byte{byte(e.Code >> 8), byte(e.Code), e.A, e.B}
			data = append(data, unhex(e.Data)...)
			opt.Option = append(opt.Option, &dns.EDNS0_LOCAL{Code: dns.EDNS0SUBNET, Data: data})
		case "padding":
			opt.Option = append(opt.Option, &dns.EDNS0_PADDING{Padding: unhex(e.Data)})
		case "keepalive":
			opt.Option = append(opt.Option, &dns.EDNS0_TCP_KEEPALIVE{Code: dns.EDNS0TCPKEEPALIVE, Timeout: e.Code})
		case "ede":
			opt.Option = append(opt.Option, &dns.EDNS0_EDE{InfoCode: e.Code, ExtraText: e.Data})
		case "local":
			opt.Option = append(opt.Option, &dns.EDNS0_LOCAL{Code: e.Code, Data: unhex(e.Data)})
		case "expire":
			opt.Option = append(opt.Option, &dns.EDNS0_EXPIRE{Code: dns.EDNS0EXPIRE, Expire: uint32(e.Code), Empty: e.A == 1})
		case "llq":
			opt.Option = append(opt.Option, &dns.EDNS0_LLQ{Code: dns.EDNS0LLQ, Version: e.Code, Opcode: uint16(e.A), Error: uint16(e.B), Id: 7, LeaseLife: 9})
		case "ul":
			opt.Option = append(opt.Option, &dns.EDNS0_UL{Code: dns.EDNS0UL, Lease: uint32(e.Code), KeyLease: uint32(e.A)})
		case "dau":
			opt.Option = append(opt.Option, &dns.EDNS0_DAU{Code: dns.EDNS0DAU, AlgCode: unhex(e.Data)})
		case "dhu":
			opt.Option = append(opt.Option, &dns.EDNS0_DHU{Code: dns.EDNS0DHU, AlgCode: unhex(e.Data)})
		case "n3u":
			opt.Option = append(opt.Option, &dns.EDNS0_N3U{Code: dns.EDNS0N3U, AlgCode: unhex(e.Data)})
		case "esu":
			opt.Option = append(opt.Option, &dns.EDNS0_ESU{Code: dns.EDNS0ESU, Uri: e.Data})
		case "foreign":
			opt.Option = append(opt.Option, &foreignOption{dns.EDNS0_LOCAL{Code: 65001, Data: []byte{1}}})
		case "nil":
			opt.Option = append(opt.Option, nil)
		}
	}
	return opt
}

func (s *SVCBSpec) build(owner string, ttl uint32) dns.RR {
	sv := dns.SVCB{Hdr: dns.RR_Header{Name: owner, Rrtype: dns.TypeSVCB, Class: dns.ClassINET, Ttl: ttl}, Priority: s.Priority, Target: s.Target}
	for _, p := range s.Params {
		switch p {
		case "alpn":
			sv.Value = append(sv.Value, &dns.SVCBAlpn{Alpn: []string{"h2", "h3"}})
		case "port":
			sv.Value = append(sv.Value, &dns.SVCBPort{Port: 8443})
		case "ipv4hint":
			sv.Value = append(sv.Value, &dns.SVCBIPv4Hint{Hint: []net.IP{net.IPv4(192, 0, 2, 1).To4(), net.IPv4(192, 0, 2, 2).To4()}})
		case "ipv6hint":
			sv.Value = append(sv.Value, &dns.SVCBIPv6Hint{Hint: []net.IP{net.ParseIP("2001:db8::1")}})
		case "ech":
			sv.Value = append(sv.Value, &dns.SVCBECHConfig{ECH: []byte{1, 2, 3, 4}})
		case "mandatory":
			sv.Value = append(sv.Value, &dns.SVCBMandatory{Code: []dns.SVCBKey{dns.SVCB_ALPN}})
		case "nodefaultalpn":
			sv.Value = append(sv.Value, &dns.SVCBNoDefaultAlpn{})
		case "dohpath":
			sv.Value = append(sv.Value, &dns.SVCBDoHPath{Template: "/dns-query{?dns}"})
		case "local":
			sv.Value = append(sv.Value, &dns.SVCBLocal{KeyCode: 65400, Data: []byte("x")})
		case "foreign":
			sv.Value = append(sv.Value, &foreignSVCB{dns.SVCBLocal{KeyCode: 65401, Data: []byte("y")}})
		case "nil":
			sv.Value = append(sv.Value, nil)
		}
	}
	if s.HTTPS {
		sv.Hdr.Rrtype = dns.TypeHTTPS
		return &dns.HTTPS{SVCB: sv}
	}
	return &sv
}

// rrTemplates: presentation forms covering the library's record types. %o is the
// owner, %n an embedded domain name, %t a TTL.
var rrTemplates = []string{
	"%o %t IN A 192.0.2.1", "%o %t IN A 198.51.100.200", "%o %t IN AAAA 2001:db8::1", "%o %t IN AAAA ::ffff:192.0.2.1",
	"%o %t IN NS %n", "%o %t IN CNAME %n", "%o %t IN DNAME %n", "%o %t IN PTR %n", "%o %t IN MX 10 %n", "%o %t IN MX 0 .",
	"%o %t IN TXT \"hello world\"", "%o %t IN TXT \"a\" \"b\" \"\"", "%o %t IN TXT \"" + strings.Repeat("x", 255) + "\"", "%o %t IN SPF \"v=spf1 -all\"",
	"%o %t IN SOA %n hostmaster.%n 2024010101 7200 3600 1209600 300", "%o %t IN SRV 0 5 5060 %n", "%o %t IN NAPTR 100 10 \"u\" \"E2U+sip\" \"!^.*$!sip:i@e.com!\" %n",
	"%o %t IN DS 12345 13 2 " + strings.Repeat("AB", 32), "%o %t IN CDS 12345 8 1 " + strings.Repeat("0f", 20), "%o %t IN DLV 1 8 1 " + strings.Repeat("0f", 20),
	"%o %t IN DNSKEY 257 3 13 mdsswUyr3DPW132mOi8V9xESWE8jTo0dxCjjnopKl+GqJxpVXckHAeF+KkxLbxILfDLUT0rAK9iUzy1L53eKGQ==", "%o %t IN CDNSKEY 256 3 15 l02Woi0iS8Aa25FQkUd9RMzZHJpBoRQwAQEX1SxZJA4=",
	"%o %t IN RRSIG A 13 2 300 20300101000000 20200101000000 12345 %n MDAwMDAwMDAwMDAwMDAwMDAwMDAwMDAwMDAwMDAwMDAwMDAwMDAwMDAwMDAwMDAwMDAwMDAwMDAwMDAwMDAwMA==",
	"%o %t IN NSEC %n A NS SOA MX TXT AAAA RRSIG NSEC DNSKEY TYPE65534", "%o %t IN NSEC3 1 1 10 AABBCCDD 2t7b4g4vsa5smi47k61mv5bv1a22bojr A RRSIG", "%o %t IN NSEC3PARAM 1 0 10 -",
	"%o %t IN CAA 0 issue \"letsencrypt.org\"", "%o %t IN TLSA 3 1 1 " + strings.Repeat("ab", 32), "%o %t IN SMIMEA 3 1 1 " + strings.Repeat("cd", 32), "%o %t IN SSHFP 4 2 " + strings.Repeat("ef", 32),
	"%o %t IN HINFO \"cpu\" \"os\"", "%o %t IN RP %n txt.%n", "%o %t IN AFSDB 1 %n", "%o %t IN LOC 52 22 23.000 N 4 53 32.000 E -2.00m 0.00m 10000m 10m", "%o %t IN KX 10 %n",
	"%o %t IN CERT PKIX 1 RSASHA256 AAAA", "%o %t IN URI 10 1 \"https://example.org/\"", "%o %t IN OPENPGPKEY AAAA", "%o %t IN CSYNC 66 3 A NS AAAA", "%o %t IN ZONEMD 2018031900 1 1 " + strings.Repeat("a0", 48),
	"%o %t IN EUI48 00-00-5e-00-53-2a", "%o %t IN EUI64 00-00-5e-ef-10-00-00-2a", "%o %t IN NID 10 0014:4fff:ff20:ee64", "%o %t IN L32 10 10.1.2.0", "%o %t IN L64 10 2001:0db8:1140:1000", "%o %t IN LP 10 %n",
	"%o %t IN MB %n", "%o %t IN MG %n", "%o %t IN MR %n", "%o %t IN MINFO %n %n", "%o %t IN X25 \"311061700956\"", "%o %t IN RT 10 %n", "%o %t IN PX 10 %n %n", "%o %t IN TALINK %n %n",
	"%o %t IN HIP 2 200100107B1A74DF365639CC39F1D578 AwEAAbdxyhNuSutc5EMzxTs9LBPCIkOFH8cIvM4p9+LrV4e19WzK00+CI6zBCQTdtWsuxKbWIy87UOoJTwkUs7lBu+Upr1gsNrut79ryra+bSRGQb1slImA8YVJyuIDsj7kwzG7jnERNqnWxZ48AWkskmdHaVDP4BcelrTI3rMXdXF5D %n",
	"%o %t IN DHCID AAIBY2/AuCccgoJbsaxcQc9TUapptP69lOjxfNuVAA2kjEA=", "%o %t IN GPOS 1 2 3", "%o %t IN AVC \"app\"", "%o %t IN NINFO \"info\"", "%o %t IN UINFO \"u\"", "%o %t IN UID 1", "%o %t IN GID 2",
	"%o %t IN IPSECKEY 10 1 2 192.0.2.38 AQNRU3mG7TVTO2BkR47usntb102uFJtugbo6BSGvgqt4AQ==", "%o %t IN AMTRELAY 10 0 2 2001:db8::15", "%o %t IN APL 1:192.168.32.0/21 !1:192.168.38.0/28", "%o %t IN TKEY %n 1 2 3 0 4 AAAA 0 \"\"",
	"%o %t CH TXT \"chaos\"", "%o %t IN TYPE65300 \\# 4 0a000001", "%o %t CLASS300 A 10.0.0.1", "%o %t IN NXT %n A", "%o %t IN RKEY 0 3 13 AAAA", "%o %t IN NIMLOC 0a", "%o %t IN EID 0b",
}

// GenName draws a presentation-form domain name (fully qualified) out of a small
// shared label pool so that messages have compressible suffixes.
func GenName(t *rapid.T, label string) string {
	base := rapid.SampledFrom([]string{".", "example.", "example.org.", "Example.ORG.", "sub.example.org.", "a.b.c.d.e.f.example.net.", "xn--nxasmq6b.test.", "esc\\.aped.example.org.", "bin\\000\\255.example.org.", "*.example.org.", "_tcp.example.org."}).Draw(t, label)
	switch rapid.IntRange(0, 5).Draw(t, label+"pre") {
	case 0:
		return base
	case 1:
		return rapid.SampledFrom([]string{"www.", "mail.", "a.", "WWW.", "ns1.", "_dmarc."}).Draw(t, label+"l") + strings.TrimPrefix(base, ".")
	case 2: // long name, up to 255 octets
		n := rapid.SampledFrom([]int{1, 2, 3}).Draw(t, label+"n")
		s := ""
		for i := 0; i < n; i++ {
			s += strings.Repeat(string(rune('a'+i)), rapid.SampledFrom([]int{1, 20, 62, 63}).Draw(t, label+"w")) + "."
		}
		full := s + strings.TrimPrefix(base, ".")
		if _, ok := dns.IsDomainName(full); !ok {
			return base
		}
		return full
	default:
		return fmt.Sprintf("h%d.", rapid.IntRange(0, 90).Draw(t, label+"h")) + strings.TrimPrefix(base, ".")
	}
}

func genText(t *rapid.T) RRSpec {
	tmpl := rapid.SampledFrom(rrTemplates).Draw(t, "tmpl")
	ttl := rapid.SampledFrom([]uint32{0, 1, 60, 300, 86400, 2147483647, 4294967295}).Draw(t, "ttl")
	s := strings.ReplaceAll(tmpl, "%o", GenName(t, "owner"))
	for strings.Contains(s, "%n") {
		s = strings.Replace(s, "%n", GenName(t, "rdname"), 1)
	}
	s = strings.ReplaceAll(s, "%t", fmt.Sprint(ttl))
	return RRSpec{Kind: "text", Text: s}
}

func genOpt(t *rapid.T) RRSpec {
	o := &OptSpec{UDPSize: rapid.SampledFrom([]uint16{0, 512, 1232, 4096, 65535}).Draw(t, "udpsize"),
		TTL: rapid.SampledFrom([]uint32{0, 0x8000, 0x01000000, 0xff008000, 0x00010000, 0xffffffff}).Draw(t, "optttl")}
	n := rapid.IntRange(0, 4).Draw(t, "nopt")
	for i := 0; i < n; i++ {
		k := rapid.SampledFrom([]string{"nsid", "cookie", "cookie", "subnet", "subnet", "padding", "keepalive", "ede", "ede", "local", "expire", "llq", "ul", "dau", "dhu", "n3u", "esu", "foreign", "nil"}).Draw(t, "optkind")
		e := OptionSpec{Kind: k}
		switch k {
		case "nsid":
			e.Data = rapid.SampledFrom([]string{"", "6e7331", "00ff"}).Draw(t, "d")
		case "cookie":
			e.Data = rapid.SampledFrom([]string{"0102030405060708", "0102030405060708a1a2a3a4a5a6a7a8", "01", ""}).Draw(t, "d")
		case "subnet":
			e.Code = rapid.SampledFrom([]uint16{1, 2, 0, 3}).Draw(t, "fam")
			e.A = uint8(rapid.SampledFrom([]int{0, 8, 24, 25, 32, 56, 128, 200}).Draw(t, "mask"))
			e.B = uint8(rapid.SampledFrom([]int{0, 24, 48}).Draw(t, "scope"))
			e.Addr = rapid.SampledFrom([]string{"192.0.2.0", "2001:db8::", "203.0.113.77", ""}).Draw(t, "addr")
		case "padding":
			e.Data = strings.Repeat("00", rapid.SampledFrom([]int{0, 1, 31, 468}).Draw(t, "padlen"))
		case "keepalive":
			e.Code = rapid.SampledFrom([]uint16{0, 100, 65535}).Draw(t, "ka")
		case "ede":
			e.Code = rapid.SampledFrom([]uint16{0, 6, 13, 22, 65535}).Draw(t, "ede")
			e.Data = rapid.SampledFrom([]string{"", "because", strings.Repeat("z", 300)}).Draw(t, "edetxt")
		case "local":
			e.Code = rapid.SampledFrom([]uint16{65001, 65534, 20, 4242}).Draw(t, "lc")
			e.Data = rapid.SampledFrom([]string{"", "aa", "aabbccdd"}).Draw(t, "ld")
		case "expire":
			e.Code = 7
			e.A = uint8(rapid.IntRange(0, 1).Draw(t, "empty"))
		case "dau", "dhu", "n3u":
			e.Data = rapid.SampledFrom([]string{"", "0d", "0d0f08"}).Draw(t, "alg")
		case "esu":
			e.Data = "sip:+123@example.org"
		}
		o.Options = append(o.Options, e)
	}
	return RRSpec{Kind: "opt", Opt: o}
}

func genSVCB(t *rapid.T) RRSpec {
	s := &SVCBSpec{HTTPS: rapid.Bool().Draw(t, "https"), Priority: uint16(rapid.IntRange(0, 2).Draw(t, "prio")), Target: GenName(t, "svctarget")}
	n := rapid.IntRange(0, 4).Draw(t, "nparam")
	// keys must be in ascending order for the library to accept them; draw an ordered subset
	order := []string{"mandatory", "alpn", "nodefaultalpn", "port", "ipv4hint", "ech", "ipv6hint", "dohpath", "local"}
	idx := 0
	for i := 0; i < n && idx < len(order); i++ {
		idx += rapid.IntRange(0, 2).Draw(t, "skip")
		if idx >= len(order) {
			break
		}
		s.Params = append(s.Params, order[idx])
		idx++
	}
	if rapid.IntRange(0, 9).Draw(t, "badparam") == 0 {
		s.Params = append(s.Params, rapid.SampledFrom([]string{"foreign", "nil", "alpn"}).Draw(t, "bp"))
	}
	return RRSpec{Kind: "svcb", SVCB: s, Owner: GenName(t, "svcowner"), TTL: 300}
}

// GenMsgRecipe draws a message recipe. hostile enables nil/foreign/private records and
// unpackable names.
func GenMsgRecipe(t *rapid.T, hostile bool) *MsgRecipe {
	r := &MsgRecipe{
		ID: rapid.Uint16().Draw(t, "id"), Response: rapid.Bool().Draw(t, "qr"), AA: rapid.Bool().Draw(t, "aa"), TC: rapid.Bool().Draw(t, "tc"),
		RD: rapid.Bool().Draw(t, "rd"), RA: rapid.Bool().Draw(t, "ra"), Zero: rapid.Bool().Draw(t, "z"), AD: rapid.Bool().Draw(t, "ad"), CD: rapid.Bool().Draw(t, "cd"),
		Opcode:   rapid.SampledFrom([]int{0, 0, 0, 0, 1, 2, 4, 5, 15, 16, 17, 31, 32, 255, -1}).Draw(t, "opcode"), // the field is an int: out-of-range values are packed unmasked by the library
		Rcode:    rapid.SampledFrom([]int{0, 0, 0, 0, 0, 2, 3, 3, 5, 15, 16, 23, 4095, 255, 256, 4096, -1}).Draw(t, "rcode"),
		Compress: rapid.Bool().Draw(t, "compress"),
	}
	nq := rapid.SampledFrom([]int{1, 1, 1, 1, 0, 2, 3}).Draw(t, "nq")
	for i := 0; i < nq; i++ {
		r.Questions = append(r.Questions, dns.Question{Name: GenName(t, "qname"), Qtype: rapid.SampledFrom([]uint16{1, 28, 15, 16, 255, 65, 43, 0, 65535}).Draw(t, "qtype"), Qclass: rapid.SampledFrom([]uint16{1, 1, 3, 255, 0}).Draw(t, "qclass")})
	}
	shape := rapid.SampledFrom([]string{"small", "small", "medium", "names", "big", "empty"}).Draw(t, "shape")
	n := 0
	switch shape {
	case "small":
		n = rapid.IntRange(1, 4).Draw(t, "n")
	case "medium":
		n = rapid.IntRange(5, 14).Draw(t, "n")
	case "names": // dictionary around the 64-entry retention bound
		n = rapid.IntRange(50, 75).Draw(t, "n")
		r.Desc = append(r.Desc, "name-heavy")
	case "big": // total size around the 4096-octet pool buffer
		n = rapid.IntRange(10, 24).Draw(t, "n")
		r.Desc = append(r.Desc, "big")
	}
	for i := 0; i < n; i++ {
		var spec RRSpec
		k := rapid.IntRange(0, 39).Draw(t, "rrkind")
		switch {
		case shape == "names":
			spec = RRSpec{Kind: "text", Text: fmt.Sprintf("h%d.n%d.example.org. 60 IN A 192.0.2.%d", rapid.IntRange(0, 3).Draw(t, "hh"), i, i%250)}
		case shape == "big" && k < 30:
			spec = RRSpec{Kind: "text", Text: fmt.Sprintf("%s 60 IN TXT \"%s\"", GenName(t, "bigowner"), strings.Repeat("q", rapid.SampledFrom([]int{100, 180, 200, 250, 255}).Draw(t, "txtlen")))}
		case k < 28:
			spec = genText(t)
		case k < 31:
			spec = genOpt(t)
		case k < 34:
			spec = genSVCB(t)
		case k < 36 && len(r.Table) > 0:
			spec = RRSpec{Kind: "alias", Alias: rapid.IntRange(0, len(r.Table)-1).Draw(t, "alias")}
		case hostile && k == 36:
			spec = RRSpec{Kind: rapid.SampledFrom([]string{"nil", "typednil", "foreign", "fakeopt", "private"}).Draw(t, "hostile"), Owner: "h.example.org.", TTL: 5, Text: "priv"}
		case k == 38:
			spec = RRSpec{Kind: rapid.SampledFrom([]string{"a16", "a16", "l32v6", "strayopt"}).Draw(t, "odd"), Owner: GenName(t, "oddowner"), TTL: rapid.SampledFrom([]uint32{60, 0x01000000, 0xffffffff}).Draw(t, "oddttl"), Text: rapid.SampledFrom([]string{"2001:db8::77", "fe80::1", "::"}).Draw(t, "oddaddr")}
		case hostile && k == 37:
			spec = RRSpec{Kind: "rawname", Owner: GenName(t, "rawowner"), Text: rapid.SampledFrom([]string{"not-fqdn", "a..b.", "toolong" + strings.Repeat("x", 70) + ".example."}).Draw(t, "rawtarget"), TTL: 60}
		default:
			spec = genText(t)
		}
		sec := rapid.IntRange(0, 2).Draw(t, "section")
		if spec.Kind == "opt" && rapid.IntRange(0, 3).Draw(t, "optmisplaced") != 0 {
			sec = 2
		}
		idx := len(r.Table)
		if spec.Kind == "alias" {
			idx = spec.Alias
			r.Desc = append(r.Desc, "aliased-record")
		} else {
			r.Table = append(r.Table, spec)
			if spec.Kind != "text" {
				r.Desc = append(r.Desc, spec.Kind)
			}
		}
		switch sec {
		case 0:
			r.Answer = append(r.Answer, idx)
		case 1:
			r.Ns = append(r.Ns, idx)
		default:
			r.Extra = append(r.Extra, idx)
		}
	}
	if shape == "big" {
		// steer the packed size to the 4096-octet pool buffer: measure, then add filler TXT records
		target := 4096 + rapid.IntRange(-70, 12).Draw(t, "around4096")
		for tries := 0; tries < 40; tries++ {
			var cur int
			func() {
				defer func() {
					if recover() != nil {
						cur = 1 << 20
					}
				}()
				probe := r.Build()
				if probe.Compress {
					if b, err := probe.Pack(); err == nil {
						cur = len(b)
					} else {
						cur = 1 << 20
					}
				} else {
					cur = probe.Len()
				}
			}()
			gap := target - cur
			if gap < 14 {
				break
			}
			// a TXT record at an owner that compresses to a 2-octet pointer when Compress is on
			owner := "example.org."
			over := 10 + 1 + 13 // fixed header + txt length octet + uncompressed owner
			if r.Compress {
				over = 10 + 1 + 2
			}
			l := gap - over
			if l > 255 {
				l = 255
			}
			if l < 0 {
				break
			}
			r.Table = append(r.Table, RRSpec{Kind: "text", Text: fmt.Sprintf("%s 60 IN TXT \"%s\"", owner, strings.Repeat("f", l))})
			r.Answer = append(r.Answer, len(r.Table)-1)
		}
	}
	if shape != "big" && rapid.IntRange(0, 2).Draw(t, "trailingopt") == 0 {
		r.Table = append(r.Table, genOpt(t))
		r.Extra = append(r.Extra, len(r.Table)-1)
		r.Desc = append(r.Desc, "opt")
	}
	return r
}
