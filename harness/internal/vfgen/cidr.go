// Package vfgen holds rapid generators shared by several verification harnesses.
// Overlaid into the sdns module by /verif/run.py.
package vfgen

import (
	"fmt"
	"net/netip"

	"pgregory.net/rapid"
)

func cidrByte() *rapid.Generator[byte] {
	return rapid.OneOf(rapid.SampledFrom([]byte{0, 1, 10, 127, 128, 192, 254, 255}), rapid.Byte())
}

func GenAddr() *rapid.Generator[netip.Addr] {
	return rapid.Custom(func(rt *rapid.T) netip.Addr {
		switch rapid.IntRange(0, 3).Draw(rt, "fam") {
		case 0:
			var b [4]byte
			for i := range b {
				b[i] = cidrByte().Draw(rt, "b")
			}
			return netip.AddrFrom4(b)
		case 1:
			var b [16]byte
			n := rapid.IntRange(0, 16).Draw(rt, "n")
			for i := 0; i < n; i++ {
				b[i] = cidrByte().Draw(rt, "b")
			}
			return netip.AddrFrom16(b)
		case 2:
			var b [16]byte
			for i := range b {
				b[i] = rapid.SampledFrom([]byte{0, 0xff, 0x80, 0x7f}).Draw(rt, "b")
			}
			return netip.AddrFrom16(b)
		default: // v4-mapped
			var b [4]byte
			for i := range b {
				b[i] = cidrByte().Draw(rt, "b")
			}
			return netip.AddrFrom16(netip.AddrFrom4(b).As16())
		}
	})
}

var BadCIDRs = []string{"", "garbage", "1.2.3.4", "1.2.3.4/33", "::/129", "fe80::1%eth0/64", "1.2.3.4/-1", "0.0.0.0/0x", " 10.0.0.0/8", "10.0.0.0/8 ", "1.2.3/8", "::ffff:1.2.3.4/200", "*", "0/0", "1"}

// GenCIDRList draws a CIDR list and returns the strings plus the prefixes the
// reference could parse.
func GenCIDRList(rt *rapid.T, maxN int) ([]string, []netip.Prefix) {
	n := rapid.IntRange(0, maxN).Draw(rt, "n")
	var cidrs []string
	var parsed []netip.Prefix
	var prev netip.Prefix
	for i := 0; i < n; i++ {
		var s string
		switch k := rapid.IntRange(0, 11).Draw(rt, "kind"); {
		case k == 0:
			s = rapid.SampledFrom(BadCIDRs).Draw(rt, "bad")
		case k == 1 && prev.IsValid(): // duplicate
			s = prev.String()
		case k == 2 && prev.IsValid() && prev.Bits() > 0: // covering parent (nesting)
			s = fmt.Sprintf("%s/%d", prev.Addr(), rapid.IntRange(0, prev.Bits()).Draw(rt, "pb"))
		case k == 3 && prev.IsValid() && prev.Bits() < prev.Addr().BitLen(): // nested child
			s = fmt.Sprintf("%s/%d", prev.Addr(), rapid.IntRange(prev.Bits(), prev.Addr().BitLen()).Draw(rt, "cb"))
		case k == 4 && prev.IsValid(): // adjacent range: the address right after prev's last
			hi := LastAddr(prev.Masked())
			if nx := hi.Next(); nx.IsValid() {
				s = fmt.Sprintf("%s/%d", nx, prev.Bits())
			} else {
				s = prev.String()
			}
		default:
			a := GenAddr().Draw(rt, "base")
			bits := rapid.IntRange(0, a.BitLen()).Draw(rt, "bits")
			if rapid.IntRange(0, 4).Draw(rt, "edge") == 0 {
				bits = rapid.SampledFrom([]int{0, 1, a.BitLen() - 1, a.BitLen(), 63, 64, 65, 31, 32, 33, 96}).Draw(rt, "ebits")
				if bits > a.BitLen() {
					bits = a.BitLen()
				}
			}
			s = fmt.Sprintf("%s/%d", a, bits)
			if a.Is4() && rapid.IntRange(0, 5).Draw(rt, "mappedform") == 0 {
				// the same IPv4 range written inside the IPv4-mapped block
				s = fmt.Sprintf("::ffff:%s/%d", a, 96+bits)
			}
		}
		cidrs = append(cidrs, s)
		if p, err := netip.ParsePrefix(s); err == nil {
			parsed = append(parsed, p)
			prev = p
		}
	}
	return cidrs, parsed
}

func LastAddr(m netip.Prefix) netip.Addr {
	b := m.Addr().AsSlice()
	for i := m.Bits(); i < len(b)*8; i++ {
		b[i/8] |= 1 << (7 - i%8)
	}
	h, _ := netip.AddrFromSlice(b)
	return h
}

func RefContains(parsed []netip.Prefix, a netip.Addr) (bool, int) {
	if !a.IsValid() {
		return false, 0
	}
	u := a.Unmap()
	n := 0
	for _, p := range parsed {
		// a prefix inside ::ffff:0:0/96 names IPv4 addresses, as a mapped source counts as the IPv4 address it carries
		if p.Addr().Is4In6() && p.Bits() >= 96 {
			p = netip.PrefixFrom(p.Addr().Unmap(), p.Bits()-96)
		}
		if p.Contains(u) {
			n++
		}
	}
	return n > 0, n
}
