//go:build verif

package waitgroup

// VerifLen reports how many keys currently have a registered generation (verification only).
func (wg *WaitGroup) VerifLen() int {
	wg.mu.RLock()
	defer wg.mu.RUnlock()
	return len(wg.groups)
}
