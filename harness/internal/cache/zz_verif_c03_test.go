package cache

// C03 (keying half): names are keyed identically whether they arrive as wire labels or as
// the library's presentation text, for every label octet 0-255 and case mix; the wire/
// presentation equality test is exact up to ASCII case.

import (
	"fmt"
	"net/netip"
	"strings"
	"testing"

	"github.com/miekg/dns"
	"github.com/semihalev/sdns/internal/vfstat"
	"pgregory.net/rapid"
)

func vfC03WireName(t *rapid.T, label string) []byte {
	n := rapid.IntRange(0, 5).Draw(t, label+".labels")
	var w []byte
	for i := 0; i < n; i++ {
		l := rapid.SampledFrom([]int{1, 1, 2, 3, 8, 63}).Draw(t, label+".len")
		if len(w)+l+2 > 250 {
			break
		}
		w = append(w, byte(l))
		for j := 0; j < l; j++ {
			w = append(w, rapid.OneOf(rapid.SampledFrom([]byte{'a', 'Z', 'z', 'A', '.', '\\', ' ', 0, 255, '[', '{', '@', '`', '"', '(', ';', '0', 0x10, 0x7f, 0x80, '\t'}), rapid.Byte()).Draw(t, label+".b"))
		}
	}
	return append(w, 0)
}

func vfC03FoldWire(w []byte) []byte {
	out := append([]byte(nil), w...)
	for i := 0; i < len(out); {
		l := int(out[i])
		if l == 0 {
			break
		}
		for j := i + 1; j <= i+l && j < len(out); j++ {
			if out[j] >= 'A' && out[j] <= 'Z' {
				out[j] += 32
			}
		}
		i += l + 1
	}
	return out
}

func TestVerifC03Keys(t *testing.T) {
	defer vfstat.Flush()
	vfstat.Quiet()
	const U = "C03.keys"
	rapid.Check(t, func(rt *rapid.T) {
		w := vfC03WireName(rt, "w")
		name, _, err := dns.UnpackDomainName(w, 0)
		if err != nil {
			rt.Skip("not a name the library accepts")
		}
		qtype := rapid.SampledFrom([]uint16{1, 28, 16, 255, 65535}).Draw(rt, "qtype")
		qclass := rapid.SampledFrom([]uint16{1, 3, 255}).Draw(rt, "qclass")
		cd := rapid.Bool().Draw(rt, "cd")
		kw, ok := KeyWire(w, qtype, qclass, cd)
		if !ok {
			rt.Fatalf("KeyWire refuses wire name %x that the library unpacks to %q", w, name)
		}
		kp := Key(dns.Question{Name: name, Qtype: qtype, Qclass: qclass}, cd)
		if kw != kp {
			rt.Fatalf("wire %x and its presentation form %q are keyed differently: %x vs %x", w, name, kw, kp)
		}
		if !WireNameEqualsPresentation(w, name) {
			rt.Fatalf("WireNameEqualsPresentation(%x, %q) = false for a name and its own presentation form", w, name)
		}
		// scoped keys agree too
		pfx := netip.MustParsePrefix(rapid.SampledFrom([]string{"203.0.113.0/24", "2001:db8::/48", "10.0.0.0/8"}).Draw(rt, "pfx"))
		kwp, ok2 := KeyWireWithPrefix(w, qtype, qclass, cd, pfx)
		if ok2 && kwp != KeyWithPrefix(dns.Question{Name: name, Qtype: qtype, Qclass: qclass}, cd, pfx) {
			rt.Fatalf("scoped wire key differs from scoped presentation key for %q", name)
		}
		// a second wire name: equality must be exactly "equal after ASCII case folding"
		w2 := append([]byte(nil), w...)
		mode := rapid.IntRange(0, 3).Draw(rt, "mode")
		if len(w2) > 2 {
			i := rapid.IntRange(1, len(w2)-2).Draw(rt, "pos")
			switch mode {
			case 0:
				w2[i] ^= 0x20
			case 1:
				w2[i] ^= byte(1 << rapid.IntRange(0, 7).Draw(rt, "bit"))
			case 2:
				w2 = vfC03WireName(rt, "w2")
			}
		}
		name2, _, err2 := dns.UnpackDomainName(w2, 0)
		if err2 != nil {
			return
		}
		same := string(vfC03FoldWire(w)) == string(vfC03FoldWire(w2))
		if got := WireNameEqualsPresentation(w2, name); got != same {
			rt.Fatalf("WireNameEqualsPresentation(%x, %q) = %v; wire forms equal up to ASCII case: %v", w2, name, got, same)
		}
		k2, ok3 := KeyWire(w2, qtype, qclass, cd)
		if ok3 && same && k2 != kw {
			rt.Fatalf("names equal up to ASCII case are keyed differently: %q vs %q", name, name2)
		}
		vfstat.Eval(U, 1)
		cls := "plain"
		if strings.Contains(name, "\\") {
			cls = "escaped-octets"
		}
		vfstat.Class(U, cls)
		if same && string(w) != string(w2) {
			vfstat.Class(U, "case-variant")
		}
		vfstat.NonTrivial(U, fmt.Sprintf("%x|%d|%v|%d", w, qtype, same, mode))
		vfstat.Sample(U, cls+fmt.Sprint(same), map[string]any{"wire": fmt.Sprintf("%x", w), "presentation": name, "other_wire": fmt.Sprintf("%x", w2), "equal_up_to_case": same})
	})
}
