package cache

// C16 — bounded concurrent tables behave as maps and stay within capacity.
// Sequential model check (rapid state machines) of UInt64Map,
// SegmentUInt64Map and Cache against map[uint64]V, plus sampled concurrent
// runs (race build). Overlaid by /verif/run.py; not part of the repository.

import (
	"fmt"
	"sort"
	"strings"
	"sync"
	"sync/atomic"
	"testing"
	"time"

	"github.com/semihalev/sdns/internal/vfstat"
	"pgregory.net/rapid"
)

// ---- key pools -------------------------------------------------------------

// vfC16Primary8 is the slot of key in an 8-slot UInt64Map. It mirrors
// primaryIndex on purpose only to *aim* the generator at clusters; the
// oracle never depends on it.
func vfC16Slot(key uint64, mask int) int {
	m := &UInt64Map[int]{mask: mask}
	return m.primaryIndex(key)
}

var (
	vfC16Once     sync.Once
	vfC16BySlot8  [8][]uint64    // keys by slot in an 8-slot table
	vfC16SegKeys  [4][3][]uint64 // cache (256 segments): 4 chosen segments × slots {6,7,0} of an 8-slot table
	vfC16Seg16    [2][3][]uint64 // 16-segment map: 2 chosen segments × slots {6,7,0}
	vfC16SegOther []uint64       // keys of other segments
	vfC16Specials = []uint64{0, 1, 2, 3, 8, 16, 1 << 32, 1<<63 + 5, ^uint64(0), ^uint64(0) - 1}
)

func vfC16Init() {
	vfC16Once.Do(func() {
		big := NewSegmentUInt64Map[int](8, 0)
		small := NewSegmentUInt64Map[int](4, 0)
		winSlot := map[int]int{6: 0, 7: 1, 0: 2}
		for k := uint64(1); k < 1<<21; k++ {
			s8 := vfC16Slot(k, 7)
			if len(vfC16BySlot8[s8]) < 64 {
				vfC16BySlot8[s8] = append(vfC16BySlot8[s8], k)
			}
			w, inWin := winSlot[s8]
			bs := int(big.getSegmentIndex(k))
			if inWin && (bs == 0 || bs == 1 || bs == 128 || bs == 255) {
				i := map[int]int{0: 0, 1: 1, 128: 2, 255: 3}[bs]
				if len(vfC16SegKeys[i][w]) < 24 {
					vfC16SegKeys[i][w] = append(vfC16SegKeys[i][w], k)
				}
			} else if len(vfC16SegOther) < 512 && k%7 == 0 {
				vfC16SegOther = append(vfC16SegOther, k)
			}
			ss := int(small.getSegmentIndex(k))
			if inWin && (ss == 0 || ss == 15) {
				i := 0
				if ss == 15 {
					i = 1
				}
				if len(vfC16Seg16[i][w]) < 24 {
					vfC16Seg16[i][w] = append(vfC16Seg16[i][w], k)
				}
			}
		}
	})
}

// cluster keys: window of slots {6,7,0} of the initial 8-slot table => collisions,
// probe chains and wrap-around at the end of the array.
func vfC16ClusterKey() *rapid.Generator[uint64] {
	return rapid.Custom(func(t *rapid.T) uint64 {
		s := rapid.SampledFrom([]int{6, 7, 0, 7, 7}).Draw(t, "slot")
		pool := vfC16BySlot8[s]
		return pool[rapid.IntRange(0, 11).Draw(t, "i")]
	})
}

func vfC16KeyGen() *rapid.Generator[uint64] {
	return rapid.OneOf(
		vfC16ClusterKey(),
		vfC16ClusterKey(),
		rapid.SampledFrom(vfC16Specials),
		rapid.Uint64Range(1, 40),
		rapid.Uint64(),
	)
}

// ---- UInt64Map -------------------------------------------------------------

// vfC16Ghosts scans the backing array for keys Get cannot find, duplicates,
// and checks size accounting.
func vfC16CheckUMap[V comparable](m *UInt64Map[V], model map[uint64]V) error {
	if m.Len() != len(model) {
		return fmt.Errorf("Len=%d model=%d", m.Len(), len(model))
	}
	seen := map[uint64]int{}
	for i := range m.data {
		k := m.data[i].Key
		if k == 0 {
			continue
		}
		seen[k]++
		if seen[k] > 1 {
			return fmt.Errorf("key %d duplicated in backing array", k)
		}
		if _, ok := model[k]; !ok {
			return fmt.Errorf("ghost key %d in backing array (not in model)", k)
		}
	}
	for k, v := range model {
		got, ok := m.Get(k)
		if !ok || got != v {
			return fmt.Errorf("key %d: Get=(%v,%v) want %v", k, got, ok, v)
		}
		if !m.Has(k) {
			return fmt.Errorf("key %d: Has=false", k)
		}
	}
	n := 0
	var err error
	m.ForEach(func(k uint64, v V) bool {
		n++
		if mv, ok := model[k]; !ok || mv != v {
			err = fmt.Errorf("ForEach yields %d=%v, model %v,%v", k, v, mv, ok)
			return false
		}
		return true
	})
	if err != nil {
		return err
	}
	if n != len(model) {
		return fmt.Errorf("ForEach visited %d, model %d", n, len(model))
	}
	return nil
}

func TestVerifC16UMap(t *testing.T) {
	vfC16Init()
	defer vfstat.Flush()
	vfstat.Quiet()
	const U = "C16.umap"
	rapid.Check(t, func(rt *rapid.T) {
		capHint := rapid.SampledFrom([]int{0, 0, 1, 8, 9, 12, 20}).Draw(rt, "cap")
		m := NewUInt64Map[int](capHint)
		model := map[uint64]int{}
		var ops []string
		nv := 0
		clusterDel, grew, wrapped, zeroOps, evicts := false, false, false, false, 0
		startLen := len(m.data)
		note := func(s string) { ops = append(ops, s) }
		clustered := func(k uint64) bool {
			if k == 0 {
				return false
			}
			// ≥3 live keys sharing the 3-slot window {6,7,0}
			n := 0
			for mk := range model {
				if mk != 0 {
					if s := vfC16Slot(mk, m.mask); s == vfC16Slot(k, m.mask) || s == (vfC16Slot(k, m.mask)+1)&m.mask || s == (vfC16Slot(k, m.mask)-1)&m.mask {
						n++
					}
				}
			}
			return n >= 3
		}
		put := func(rt *rapid.T) {
			k := vfC16KeyGen().Draw(rt, "k")
			nv++
			m.Put(k, nv)
			model[k] = nv
			note("put")
			if k == 0 {
				zeroOps = true
			}
		}
		rt.Repeat(map[string]func(*rapid.T){
			"put":  put,
			"put2": put,
			"putIfNotExists": func(rt *rapid.T) {
				k := vfC16KeyGen().Draw(rt, "k")
				nv++
				got, ins := m.PutIfNotExists(k, nv)
				old, ok := model[k]
				if ok {
					if ins || got != old {
						rt.Fatalf("PutIfNotExists(%d) on existing: got=%v inserted=%v want %v,false", k, got, ins, old)
					}
				} else {
					if !ins || got != nv {
						rt.Fatalf("PutIfNotExists(%d) on absent: got=%v inserted=%v", k, got, ins)
					}
					model[k] = nv
				}
				note("pine")
			},
			"get": func(rt *rapid.T) {
				k := vfC16KeyGen().Draw(rt, "k")
				got, ok := m.Get(k)
				want, wok := model[k]
				if ok != wok || (ok && got != want) || m.Has(k) != wok {
					rt.Fatalf("Get(%d)=(%v,%v) Has=%v want (%v,%v)", k, got, ok, m.Has(k), want, wok)
				}
			},
			"del": func(rt *rapid.T) {
				var k uint64
				if len(model) > 0 && rapid.IntRange(0, 3).Draw(rt, "live") > 0 {
					keys := vfC16SortedKeys(model)
					k = keys[rapid.IntRange(0, len(keys)-1).Draw(rt, "ki")]
				} else {
					k = vfC16KeyGen().Draw(rt, "k")
				}
				_, ok := model[k]
				if ok && clustered(k) {
					clusterDel = true
				}
				if k == 0 {
					zeroOps = true
				}
				if got := m.Del(k); got != ok {
					rt.Fatalf("Del(%d)=%v want %v", k, got, ok)
				}
				delete(model, k)
				note("del")
			},
			"evict": func(rt *rapid.T) {
				off := rapid.IntRange(0, 70).Draw(rt, "off")
				n := rapid.IntRange(0, 3).Draw(rt, "n")
				skip := vfC16KeyGen().Draw(rt, "skip")
				if len(model) > 0 && rapid.Bool().Draw(rt, "skipLive") {
					keys := vfC16SortedKeys(model)
					skip = keys[rapid.IntRange(0, len(keys)-1).Draw(rt, "si")]
				}
				_, hadSkip := model[skip]
				before := len(model)
				d := m.EvictKeysAt(off, n, skip)
				if d < 0 || d > n {
					rt.Fatalf("EvictKeysAt(%d,%d,%d) returned %d", off, n, skip, d)
				}
				gone := 0
				for k := range model {
					if !m.Has(k) {
						delete(model, k)
						gone++
					}
				}
				if gone != d {
					rt.Fatalf("EvictKeysAt reported %d, %d keys became unreachable", d, gone)
				}
				evictable := before
				if hadSkip {
					evictable--
				}
				want := n
				if evictable < n {
					want = evictable
				}
				if d != want {
					rt.Fatalf("EvictKeysAt(%d,%d,skip=%d) deleted %d of %d evictable, want %d", off, n, skip, d, evictable, want)
				}
				if hadSkip {
					if _, ok := model[skip]; !ok {
						rt.Fatalf("EvictKeysAt evicted the skip key %d", skip)
					}
				}
				if d > 0 {
					evicts++
				}
				note("evict")
			},
			"clear": func(rt *rapid.T) {
				if rapid.IntRange(0, 5).Draw(rt, "rare") != 0 {
					rt.Skip("rare")
				}
				m.Clear()
				model = map[uint64]int{}
				note("clear")
			},
			"iter": func(rt *rapid.T) {
				ks := map[uint64]bool{}
				for k := range m.Keys() {
					if ks[k] {
						rt.Fatalf("Keys yields %d twice", k)
					}
					ks[k] = true
				}
				if len(ks) != len(model) {
					rt.Fatalf("Keys yielded %d, model %d", len(ks), len(model))
				}
				nvs := 0
				for range m.Values() {
					nvs++
				}
				if nvs != len(model) {
					rt.Fatalf("Values yielded %d, model %d", nvs, len(model))
				}
				for k, v := range m.All() {
					if model[k] != v {
						rt.Fatalf("All yields %d=%d model %d", k, v, model[k])
					}
				}
			},
			"": func(rt *rapid.T) {
				if len(m.data) > startLen {
					grew = true
				}
				// probe chain wrapped around the array end?
				if m.data[m.mask].Key != 0 && m.data[0].Key != 0 && vfC16Slot(m.data[0].Key, m.mask) != 0 {
					wrapped = true
				}
				if err := vfC16CheckUMap(m, model); err != nil {
					rt.Fatalf("invariant: %v (ops %v)", err, ops)
				}
			},
		})
		vfstat.Eval(U, 1)
		var cl []string
		if clusterDel {
			cl = append(cl, "cluster-delete")
		}
		if grew {
			cl = append(cl, "grow")
		}
		if wrapped {
			cl = append(cl, "wrap")
		}
		if zeroOps {
			cl = append(cl, "zero-key")
		}
		if evicts > 0 {
			cl = append(cl, "evict")
		}
		for _, c := range cl {
			vfstat.Class(U, c)
		}
		if len(cl) > 0 {
			key := strings.Join(cl, "+") + "|" + vfC16Shape(ops)
			vfstat.NonTrivial(U, key)
			vfstat.Sample(U, strings.Join(cl, "+"), map[string]any{"table": "UInt64Map", "cap": capHint, "classes": cl, "ops": ops})
		}
	})
}

func vfC16SortedKeys[V any](m map[uint64]V) []uint64 {
	keys := make([]uint64, 0, len(m))
	for k := range m {
		keys = append(keys, k)
	}
	sort.Slice(keys, func(i, j int) bool { return keys[i] < keys[j] })
	return keys
}

// vfC16Shape canonicalises an op list (run-length limited) for distinct counting.
func vfC16Shape(ops []string) string {
	if len(ops) > 24 {
		ops = ops[:24]
	}
	return strings.Join(ops, ",")
}

// ---- SegmentUInt64Map ------------------------------------------------------

func vfC16SegKeyGen(which int) *rapid.Generator[uint64] {
	return rapid.Custom(func(t *rapid.T) uint64 {
		switch rapid.IntRange(0, 9).Draw(t, "kind") {
		case 0:
			return rapid.SampledFrom(vfC16Specials).Draw(t, "special")
		case 1:
			return vfC16SegOther[rapid.IntRange(0, 63).Draw(t, "o")]
		case 2:
			return rapid.Uint64().Draw(t, "any")
		default:
			w := rapid.IntRange(0, 2).Draw(t, "w")
			i := rapid.IntRange(0, 9).Draw(t, "i")
			if which == 16 {
				return vfC16Seg16[rapid.IntRange(0, 1).Draw(t, "s")][w][i]
			}
			return vfC16SegKeys[rapid.IntRange(0, 3).Draw(t, "s")][w][i]
		}
	})
}

// vfC16CheckSeg: Len == reachable == model, no ghosts in any segment's array,
// every key lives in the segment its hash selects.
func vfC16CheckSeg[V comparable](m *SegmentUInt64Map[V], model map[uint64]V) error {
	if int(m.Len()) != len(model) {
		return fmt.Errorf("Len=%d model=%d", m.Len(), len(model))
	}
	total := 0
	for si, seg := range m.segments {
		if seg.data.hasZeroKey {
			total++
			if int(m.getSegmentIndex(0)) != si {
				return fmt.Errorf("zero key stored in segment %d", si)
			}
			if _, ok := model[0]; !ok {
				return fmt.Errorf("ghost zero key")
			}
		}
		cnt := 0
		for i := range seg.data.data {
			k := seg.data.data[i].Key
			if k == 0 {
				continue
			}
			cnt++
			total++
			if int(m.getSegmentIndex(k)) != si {
				return fmt.Errorf("key %d stored in foreign segment %d", k, si)
			}
			if _, ok := model[k]; !ok {
				return fmt.Errorf("ghost key %d in segment %d", k, si)
			}
			if got, ok := seg.data.Get(k); !ok || got != model[k] {
				return fmt.Errorf("key %d present in array of segment %d but Get=(%v,%v) want %v", k, si, got, ok, model[k])
			}
		}
		z := 0
		if seg.data.hasZeroKey {
			z = 1
		}
		if seg.data.size != cnt+z {
			return fmt.Errorf("segment %d size=%d, array holds %d", si, seg.data.size, cnt+z)
		}
	}
	if total != len(model) {
		return fmt.Errorf("arrays hold %d entries, model %d", total, len(model))
	}
	for k, v := range model {
		got, ok := m.Get(k)
		if !ok || got != v || !m.Has(k) {
			return fmt.Errorf("key %d: Get=(%v,%v) want %v", k, got, ok, v)
		}
	}
	n := 0
	var err error
	m.ForEach(func(k uint64, v V) bool {
		n++
		if mv, ok := model[k]; !ok || mv != v {
			err = fmt.Errorf("ForEach yields %d=%v, model %v,%v", k, v, mv, ok)
			return false
		}
		return true
	})
	if err != nil {
		return err
	}
	if n != len(model) {
		return fmt.Errorf("ForEach visited %d, model %d", n, len(model))
	}
	return nil
}

func TestVerifC16Segment(t *testing.T) {
	vfC16Init()
	defer vfstat.Flush()
	vfstat.Quiet()
	const U = "C16.segment"
	rapid.Check(t, func(rt *rapid.T) {
		m := NewSegmentUInt64Map[int](4, rapid.SampledFrom([]int{0, 16, 128, 400}).Draw(rt, "initcap"))
		capacity := int64(rapid.SampledFrom([]int{1, 2, 3, 5, 8, 13, 30}).Draw(rt, "cap"))
		model := map[uint64]int{}
		var ops []string
		nv := 0
		overcap, clusterDel, zero, cleared := 0, false, false, false
		rt.Repeat(map[string]func(*rapid.T){
			"set": func(rt *rapid.T) {
				k := vfC16SegKeyGen(16).Draw(rt, "k")
				nv++
				m.Set(k, nv)
				model[k] = nv
				ops = append(ops, "set")
				zero = zero || k == 0
			},
			"setWithCap": func(rt *rapid.T) {
				k := vfC16SegKeyGen(16).Draw(rt, "k")
				nv++
				_, existed := model[k]
				before := len(model)
				m.SetWithCap(k, nv, capacity)
				model[k] = nv
				if got, ok := m.Get(k); !ok || got != nv {
					rt.Fatalf("SetWithCap(%d) evicted the key it was writing (Get=%v,%v)", k, got, ok)
				}
				ev := 0
				for mk := range model {
					if !m.Has(mk) {
						delete(model, mk)
						ev++
					}
				}
				after := before
				if !existed {
					after++
				}
				if ev > 2 {
					rt.Fatalf("SetWithCap evicted %d entries (>2)", ev)
				}
				if int64(after) <= capacity && ev != 0 {
					rt.Fatalf("SetWithCap evicted %d entries while occupancy %d <= capacity %d", ev, after, capacity)
				}
				if int64(after) > capacity {
					overcap++
					// a sequential over-capacity insert must make progress toward the bound:
					// occupancy after the insert never exceeds max(before, capacity)
					if int64(len(model)) > capacity && len(model) > before {
						rt.Fatalf("over-capacity SetWithCap grew the map: before=%d after=%d cap=%d", before, len(model), capacity)
					}
				}
				ops = append(ops, "swc")
				zero = zero || k == 0
			},
			"pine": func(rt *rapid.T) {
				k := vfC16SegKeyGen(16).Draw(rt, "k")
				nv++
				got, ins := m.PutIfNotExists(k, nv)
				if old, ok := model[k]; ok {
					if ins || got != old {
						rt.Fatalf("PutIfNotExists existing %d: %v,%v", k, got, ins)
					}
				} else {
					if !ins || got != nv {
						rt.Fatalf("PutIfNotExists absent %d: %v,%v", k, got, ins)
					}
					model[k] = nv
				}
				ops = append(ops, "pine")
			},
			"del": func(rt *rapid.T) {
				var k uint64
				if len(model) > 0 && rapid.IntRange(0, 3).Draw(rt, "live") > 0 {
					keys := vfC16SortedKeys(model)
					k = keys[rapid.IntRange(0, len(keys)-1).Draw(rt, "ki")]
				} else {
					k = vfC16SegKeyGen(16).Draw(rt, "k")
				}
				_, ok := model[k]
				if ok && len(model) >= 4 {
					clusterDel = true
				}
				if got := m.Del(k); got != ok {
					rt.Fatalf("Del(%d)=%v want %v", k, got, ok)
				}
				delete(model, k)
				ops = append(ops, "del")
			},
			"clearSegment": func(rt *rapid.T) {
				if rapid.IntRange(0, 4).Draw(rt, "rare") != 0 {
					rt.Skip("rare")
				}
				idx := rapid.SampledFrom([]int{-1, 0, 15, 16, 7}).Draw(rt, "idx")
				m.ClearSegment(idx)
				for k := range model {
					if int(m.getSegmentIndex(k)) == idx {
						delete(model, k)
					}
				}
				cleared = true
				ops = append(ops, "clearseg")
			},
			"clear": func(rt *rapid.T) {
				if rapid.IntRange(0, 7).Draw(rt, "rare") != 0 {
					rt.Skip("rare")
				}
				m.Clear()
				model = map[uint64]int{}
				cleared = true
				ops = append(ops, "clear")
			},
			"": func(rt *rapid.T) {
				if err := vfC16CheckSeg(m, model); err != nil {
					rt.Fatalf("invariant: %v (ops %v)", err, ops)
				}
			},
		})
		vfstat.Eval(U, 1)
		var cl []string
		if overcap > 0 {
			cl = append(cl, "over-capacity")
		}
		if clusterDel {
			cl = append(cl, "cluster-delete")
		}
		if zero {
			cl = append(cl, "zero-key")
		}
		if cleared {
			cl = append(cl, "clear")
		}
		for _, c := range cl {
			vfstat.Class(U, c)
		}
		if len(cl) > 0 {
			vfstat.NonTrivial(U, strings.Join(cl, "+")+"|"+vfC16Shape(ops)+fmt.Sprint(capacity))
			vfstat.Sample(U, strings.Join(cl, "+"), map[string]any{"table": "SegmentUInt64Map", "cap": capacity, "classes": cl, "ops": ops})
		}
	})
}

// ---- Cache -----------------------------------------------------------------

type vfC16Val struct {
	k   uint64
	seq int
}

func vfC16AnyModel(m map[uint64]*vfC16Val) map[uint64]any {
	out := make(map[uint64]any, len(m))
	for k, v := range m {
		out[k] = v
	}
	return out
}

func TestVerifC16Cache(t *testing.T) {
	vfC16Init()
	defer vfstat.Flush()
	vfstat.Quiet()
	const U = "C16.cache"
	rapid.Check(t, func(rt *rapid.T) {
		capacity := rapid.SampledFrom([]int{1, 2, 3, 4, 6, 9, 12, 25}).Draw(rt, "cap")
		c := New(capacity)
		model := map[uint64]*vfC16Val{}
		var ops []string
		seq := 0
		overcap, casHit, casMiss, cadHit, cadMiss := 0, 0, 0, 0, 0
		checkAll := func(rt *rapid.T) {
			if err := vfC16CheckSeg(c.data.data, vfC16AnyModel(model)); err != nil {
				rt.Fatalf("invariant: %v (cap %d, ops %v)", err, capacity, ops)
			}
			if c.Len() != len(model) {
				rt.Fatalf("Cache.Len=%d model=%d", c.Len(), len(model))
			}
		}
		liveOrGen := func(rt *rapid.T) uint64 {
			if len(model) > 0 && rapid.IntRange(0, 2).Draw(rt, "live") > 0 {
				keys := vfC16SortedKeys(model)
				return keys[rapid.IntRange(0, len(keys)-1).Draw(rt, "ki")]
			}
			return vfC16SegKeyGen(256).Draw(rt, "k")
		}
		rt.Repeat(map[string]func(*rapid.T){
			"add": func(rt *rapid.T) {
				k := vfC16SegKeyGen(256).Draw(rt, "k")
				seq++
				v := &vfC16Val{k, seq}
				_, existed := model[k]
				before := len(model)
				c.Add(k, v)
				model[k] = v
				if got, ok := c.Get(k); !ok || got != any(v) {
					rt.Fatalf("Add(%d) evicted the key it was writing", k)
				}
				ev := 0
				for mk := range model {
					if _, ok := c.Get(mk); !ok {
						delete(model, mk)
						ev++
					}
				}
				after := before
				if !existed {
					after++
				}
				if ev > 2 {
					rt.Fatalf("Add evicted %d entries (>2)", ev)
				}
				if after <= capacity && ev != 0 {
					rt.Fatalf("Add evicted %d entries while occupancy %d <= capacity %d", ev, after, capacity)
				}
				if after > capacity {
					overcap++
				}
				if c.Len() > capacity {
					rt.Fatalf("Len=%d exceeds capacity %d after a sequential Add", c.Len(), capacity)
				}
				ops = append(ops, "add")
			},
			"get": func(rt *rapid.T) {
				k := liveOrGen(rt)
				got, ok := c.Get(k)
				want, wok := model[k]
				if ok != wok || (ok && got != any(want)) {
					rt.Fatalf("Get(%d)=(%v,%v) want (%v,%v)", k, got, ok, want, wok)
				}
			},
			"remove": func(rt *rapid.T) {
				k := liveOrGen(rt)
				c.Remove(k)
				delete(model, k)
				ops = append(ops, "remove")
			},
			"cas": func(rt *rapid.T) {
				k := liveOrGen(rt)
				cur, ok := model[k]
				seq++
				nv := &vfC16Val{k, seq}
				var old any
				mode := rapid.IntRange(0, 3).Draw(rt, "mode")
				switch {
				case mode == 0 && ok:
					old = cur // identical
				case mode == 1 && ok:
					cp := *cur
					old = &cp // equal contents, different identity
				case mode == 2:
					old = nil
				default:
					old = &vfC16Val{k, -1}
				}
				want := ok && old == any(cur)
				got := c.CompareAndSwap(k, old, nv)
				if got != want {
					rt.Fatalf("CompareAndSwap(%d) = %v want %v (present=%v mode=%d)", k, got, want, ok, mode)
				}
				if got {
					model[k] = nv
					casHit++
				} else {
					casMiss++
				}
				ops = append(ops, fmt.Sprintf("cas%v", got))
			},
			"cad": func(rt *rapid.T) {
				k := liveOrGen(rt)
				cur, ok := model[k]
				var old any
				mode := rapid.IntRange(0, 2).Draw(rt, "mode")
				switch {
				case mode == 0 && ok:
					old = cur
				case mode == 1 && ok:
					cp := *cur
					old = &cp
				default:
					old = &vfC16Val{k, -1}
				}
				want := ok && old == any(cur)
				got := c.CompareAndDelete(k, old)
				if got != want {
					rt.Fatalf("CompareAndDelete(%d) = %v want %v", k, got, want)
				}
				if got {
					delete(model, k)
					cadHit++
				} else {
					cadMiss++
				}
				ops = append(ops, fmt.Sprintf("cad%v", got))
			},
			"foreach": func(rt *rapid.T) {
				n := 0
				c.ForEach(func(k uint64, v any) bool {
					n++
					if mv, ok := model[k]; !ok || any(mv) != v {
						rt.Fatalf("ForEach yields stale/ghost %d", k)
					}
					return true
				})
				if n != len(model) {
					rt.Fatalf("ForEach %d vs model %d", n, len(model))
				}
			},
			"": checkAll,
		})
		vfstat.Eval(U, 1)
		var cl []string
		if overcap > 0 {
			cl = append(cl, "over-capacity")
		}
		if casHit > 0 && casMiss > 0 {
			cl = append(cl, "cas-both")
		}
		if cadHit > 0 && cadMiss > 0 {
			cl = append(cl, "cad-both")
		}
		for _, cname := range cl {
			vfstat.Class(U, cname)
		}
		if len(cl) > 0 {
			vfstat.NonTrivial(U, strings.Join(cl, "+")+"|"+vfC16Shape(ops)+fmt.Sprint(capacity))
			vfstat.Sample(U, strings.Join(cl, "+"), map[string]any{"table": "Cache", "cap": capacity, "classes": cl, "ops": ops})
		}
	})
}

// ---- concurrent ------------------------------------------------------------

// TestVerifC16Concurrent: W writers + R readers on overlapping key windows with
// a small capacity. During the run Len <= capacity + W is sampled; every value a
// reader sees was stored under that key; after writers stop Len == reachable.
var vfC16Stuck atomic.Bool

func TestVerifC16Concurrent(t *testing.T) {
	vfC16Init()
	defer vfstat.Flush()
	vfstat.Quiet()
	const U = "C16.concurrent"
	rapid.Check(t, func(rt *rapid.T) {
		capacity := rapid.SampledFrom([]int{1, 2, 4, 8, 16, 64}).Draw(rt, "cap")
		W := rapid.IntRange(2, 8).Draw(rt, "writers")
		R := rapid.IntRange(1, 3).Draw(rt, "readers")
		nkeys := rapid.SampledFrom([]int{4, 12, 40, 200}).Draw(rt, "nkeys")
		opsPer := rapid.SampledFrom([]int{200, 1000, 3000}).Draw(rt, "ops")
		mix := rapid.IntRange(0, 2).Draw(rt, "mix") // 0 add-heavy, 1 add/remove, 2 cas-heavy
		clears := rapid.IntRange(0, 2).Draw(rt, "clears") == 0
		keys := make([]uint64, 0, nkeys)
		for i := 0; i < nkeys; i++ {
			keys = append(keys, vfC16SegKeyGen(256).Draw(rt, "k"))
		}
		scripts := make([][]uint32, W)
		for w := range scripts {
			scripts[w] = make([]uint32, opsPer)
			base := rapid.Uint32().Draw(rt, "sbase")
			x := base | 1
			for i := range scripts[w] {
				x ^= x << 13
				x ^= x >> 17
				x ^= x << 5
				scripts[w][i] = x
			}
		}
		c := New(capacity)
		var stop atomic.Bool
		var maxLen atomic.Int64
		var bad atomic.Value
		var wg, rg sync.WaitGroup
		for r := 0; r < R; r++ {
			rg.Add(1)
			go func() {
				defer rg.Done()
				for !stop.Load() {
					for _, k := range keys {
						if v, ok := c.Get(k); ok {
							if vv, isv := v.(*vfC16Val); !isv || vv.k != k {
								bad.Store(fmt.Sprintf("reader saw foreign value %v under key %d", v, k))
							}
						}
					}
					if l := int64(c.Len()); l > maxLen.Load() {
						maxLen.Store(l)
					}
					c.ForEach(func(k uint64, v any) bool {
						if vv, isv := v.(*vfC16Val); !isv || vv.k != k {
							bad.Store(fmt.Sprintf("iterator saw foreign value %v under key %d", v, k))
						}
						return true
					})
				}
			}()
		}
		for w := 0; w < W; w++ {
			wg.Add(1)
			go func(w int) {
				defer wg.Done()
				for i, x := range scripts[w] {
					k := keys[int(x>>8)%len(keys)]
					op := x & 0xff
					v := &vfC16Val{k, w<<24 | i}
					switch {
					case clears && w == 0 && op == 255 && i%7 == 0:
						c.data.Clear() // the whole table, while the other writers go on storing
					case mix == 0 && op < 230, mix == 1 && op < 128, mix == 2 && op < 90:
						c.Add(k, v)
						if l := int64(c.Len()); l > maxLen.Load() {
							maxLen.Store(l)
						}
					case mix == 2 && op < 200:
						if cur, ok := c.Get(k); ok {
							c.CompareAndSwap(k, cur, v)
						}
					case op < 245:
						if cur, ok := c.Get(k); ok && op&1 == 0 {
							c.CompareAndDelete(k, cur)
						} else {
							c.Remove(k)
						}
					default:
						if got, ok := c.Get(k); ok {
							if vv, isv := got.(*vfC16Val); !isv || vv.k != k {
								bad.Store(fmt.Sprintf("writer saw foreign value %v under key %d", got, k))
							}
						}
					}
				}
			}(w)
		}
		// a writer never holds one segment's lock while it waits for another's: if it did, two writers spilling into each
		// other's segments would wait for each other for good. The scripts take milliseconds; a minute is "for good".
		finished := make(chan struct{})
		go func() { wg.Wait(); close(finished) }()
		wait := 60 * time.Second
		if vfC16Stuck.Load() {
			wait = 2 * time.Second // the verdict is in; shrinking need not sit out a minute per attempt
		}
		select {
		case <-finished:
		case <-time.After(wait):
			stop.Store(true)
			vfC16Stuck.Store(true)
			rt.Fatalf("capacity %d, %d writers, %d keys: the writers have not finished a minute after they started (%d operations each) - they wait on one another's segment locks", capacity, W, nkeys, opsPer)
		}
		stop.Store(true)
		rg.Wait()
		if b := bad.Load(); b != nil {
			rt.Fatalf("%v", b)
		}
		if int(maxLen.Load()) > capacity+W {
			rt.Fatalf("observed Len=%d > capacity %d + writers %d", maxLen.Load(), capacity, W)
		}
		// quiescent: Len == reachable, arrays consistent
		model := map[uint64]*vfC16Val{}
		c.ForEach(func(k uint64, v any) bool { model[k] = v.(*vfC16Val); return true })
		if err := vfC16CheckSeg(c.data.data, vfC16AnyModel(model)); err != nil {
			rt.Fatalf("after quiescence: %v", err)
		}
		if c.Len() != len(model) {
			rt.Fatalf("after quiescence Len=%d reachable=%d", c.Len(), len(model))
		}
		vfstat.Eval(U, 1)
		cls := fmt.Sprintf("cap%d-w%d-keys%d-mix%d", capacity, W, nkeys, mix)
		over := nkeys > capacity
		if clears {
			vfstat.Class(U, "clear-while-writing")
		}
		if over {
			vfstat.Class(U, "over-capacity")
			vfstat.NonTrivial(U, cls+fmt.Sprint(opsPer, R))
			vfstat.Sample(U, fmt.Sprint(mix), map[string]any{"table": "Cache (concurrent)", "cap": capacity, "writers": W, "readers": R, "keys": nkeys, "ops_per_writer": opsPer, "mix": mix, "max_len_seen": maxLen.Load()})
		}
	})
}

// TestVerifC16NoGlobalLock: a writer parked on one segment's lock must not delay
// writers on other segments ("writers never wait on a global lock").
func TestVerifC16NoGlobalLock(t *testing.T) {
	vfC16Init()
	defer vfstat.Flush()
	vfstat.Quiet()
	const U = "C16.nogloballock"
	for round := 0; round < 20; round++ {
		c := New(100000)
		segs := c.data.data
		held := segs.segments[0]
		held.rwlock.Lock()
		blocked := make(chan struct{})
		go func() {
			c.Add(vfC16SegKeys[0][0][round%10], 1) // segment 0: parks on the held lock
			close(blocked)
		}()
		time.Sleep(2 * time.Millisecond)
		done := make(chan struct{})
		go func() {
			for i := 0; i < 200; i++ {
				k := vfC16SegKeys[1+i%3][i%3][i%10] // segments 1,128,255
				c.Add(k, i)
				c.Remove(k)
				c.Add(k, i)
				c.CompareAndSwap(k, i, i+1)
			}
			close(done)
		}()
		select {
		case <-done:
		case <-time.After(20 * time.Second):
			held.rwlock.Unlock()
			t.Fatalf("writers on other segments did not finish while one writer was parked on segment 0 (global lock?)")
		}
		select {
		case <-blocked:
			held.rwlock.Unlock()
			t.Fatalf("writer on the held segment completed without the lock")
		default:
		}
		held.rwlock.Unlock()
		<-blocked
		vfstat.Eval(U, 1)
		vfstat.NonTrivial(U, fmt.Sprint("round", round))
	}
	vfstat.Sample(U, "x", map[string]any{"scenario": "segment 0 write-locked with a parked writer; 200 add/remove/add/CAS rounds on segments 1,128,255 must complete"})
}
