// Package vfstat collects what a verification run actually covered:
// evaluations, class histogram, distinct non-trivial case hashes, samples,
// known-finding hits. It is overlaid into the sdns module by /verif/run.py
// and never exists in the repository itself.
package vfstat

import (
	"encoding/json"
	"fmt"
	"hash/fnv"
	"io"
	"os"
	"path/filepath"
	"sort"
	"strconv"
	"sync"

	"github.com/semihalev/zlog/v2"
)

// Quiet routes the code under test's logging to io.Discard.
func Quiet() {
	if os.Getenv("VERIF_LOG") != "" {
		return
	}
	logger := zlog.NewStructured()
	logger.SetWriter(zlog.NewTerminalWriter(io.Discard))
	zlog.SetDefault(logger)
}

type unit struct {
	Evaluations int64            `json:"evaluations"`
	Classes     map[string]int64 `json:"classes"`
	Distinct    map[uint64]struct{}
	Samples     []any            `json:"samples"`
	sampleKeys  map[string]int   // samples kept per class key
	Known       map[string]int64 `json:"known"`
	Excluded    int64            `json:"excluded_known"`
	Notes       map[string]string
}

var (
	mu    sync.Mutex
	units = map[string]*unit{}
)

func get(name string) *unit {
	u := units[name]
	if u == nil {
		u = &unit{Classes: map[string]int64{}, Distinct: map[uint64]struct{}{}, sampleKeys: map[string]int{}, Known: map[string]int64{}, Notes: map[string]string{}}
		units[name] = u
	}
	return u
}

// Eval counts n generated cases (or operations) for the named unit.
func Eval(name string, n int) {
	mu.Lock()
	get(name).Evaluations += int64(n)
	mu.Unlock()
}

// Class increments a histogram bucket.
func Class(name, class string) {
	mu.Lock()
	get(name).Classes[class]++
	mu.Unlock()
}

// ClassN adds n to a histogram bucket.
func ClassN(name, class string, n int) {
	mu.Lock()
	get(name).Classes[class] += int64(n)
	mu.Unlock()
}

// NonTrivial records the canonical key of a non-trivial case; distinct keys
// are counted by 64-bit hash.
func NonTrivial(name, key string) {
	h := fnv.New64a()
	h.Write([]byte(key))
	mu.Lock()
	get(name).Distinct[h.Sum64()] = struct{}{}
	mu.Unlock()
}

// Sample keeps up to two samples per class key and at most 8 per unit.
func Sample(name, classKey string, v any) {
	mu.Lock()
	defer mu.Unlock()
	u := get(name)
	if len(u.Samples) >= 8 || u.sampleKeys[classKey] >= 2 {
		return
	}
	u.sampleKeys[classKey]++
	u.Samples = append(u.Samples, v)
}

// Known counts a case that matched an open known finding.
func Known(name, finding string) {
	mu.Lock()
	get(name).Known[finding]++
	mu.Unlock()
}

// Excluded counts a case the generator steered away from because it would
// only re-trigger an open known finding.
func Excluded(name string) {
	mu.Lock()
	get(name).Excluded++
	mu.Unlock()
}

// Note stores a free-text fact for the evidence file.
func Note(name, k, v string) {
	mu.Lock()
	get(name).Notes[k] = v
	mu.Unlock()
}

// Flush writes the cumulative statistics of this process to
// $VERIF_STATS_DIR/<pid>.json. Safe to call many times.
func Flush() {
	dir := os.Getenv("VERIF_STATS_DIR")
	if dir == "" {
		return
	}
	mu.Lock()
	defer mu.Unlock()
	out := map[string]any{}
	for name, u := range units {
		hs := make([]string, 0, len(u.Distinct))
		for h := range u.Distinct {
			hs = append(hs, strconv.FormatUint(h, 16))
		}
		sort.Strings(hs)
		out[name] = map[string]any{
			"evaluations":    u.Evaluations,
			"classes":        u.Classes,
			"distinct":       hs,
			"samples":        u.Samples,
			"known":          u.Known,
			"excluded_known": u.Excluded,
			"notes":          u.Notes,
		}
	}
	b, err := json.Marshal(out)
	if err != nil {
		fmt.Fprintln(os.Stderr, "vfstat: marshal:", err)
		return
	}
	tmp := filepath.Join(dir, fmt.Sprintf("%d.json.tmp", os.Getpid()))
	if err := os.WriteFile(tmp, b, 0o644); err != nil {
		fmt.Fprintln(os.Stderr, "vfstat: write:", err)
		return
	}
	_ = os.Rename(tmp, filepath.Join(dir, fmt.Sprintf("%d.json", os.Getpid())))
}

// --- known findings -------------------------------------------------------

type finding struct {
	Property string `json:"property"`
	ID       string `json:"id"`
	Status   string `json:"status"`
	What     string `json:"what"`
}

var (
	kfOnce sync.Once
	kfOpen map[string]finding
)

// KnownOpen reports whether finding id is listed as open in the committed
// known-findings file ($VERIF_KNOWN). Fixed or unlisted findings suppress
// nothing.
func KnownOpen(id string) bool {
	kfOnce.Do(func() {
		kfOpen = map[string]finding{}
		p := os.Getenv("VERIF_KNOWN")
		if p == "" {
			return
		}
		b, err := os.ReadFile(p)
		if err != nil {
			return
		}
		var doc struct {
			Findings []finding `json:"findings"`
		}
		if json.Unmarshal(b, &doc) != nil {
			return
		}
		for _, f := range doc.Findings {
			if f.Status == "open" {
				kfOpen[f.ID] = f
			}
		}
	})
	_, ok := kfOpen[id]
	return ok
}

// ReportKnown prints the KNOWN-FINDING line for an open finding that was
// reproduced on this tree.
func ReportKnown(id string) {
	KnownOpen(id)
	f, ok := kfOpen[id]
	if !ok {
		return
	}
	fmt.Printf("KNOWN-FINDING: property=%s %s: %s\n", f.Property, f.ID, f.What)
}

// Seed returns VERIF_SEED (default 1).
func Seed() int64 {
	if s := os.Getenv("VERIF_SEED"); s != "" {
		if v, err := strconv.ParseInt(s, 10, 64); err == nil {
			return v
		}
	}
	return 1
}

// Thorough reports whether the thorough tier is running.
func Thorough() bool { return os.Getenv("VERIF_TIER") == "thorough" }
