// Package vfworld is the reference namespace the resolver harnesses run sdns against: a tree of
// (signed) zones with ground truth, an honest authoritative server for it, and an in-memory network
// that hands sdns net.Conn values through the verif dial hook. Overlaid by /verif/run.py.
package vfworld

import (
	"crypto"
	"crypto/ecdsa"
	"crypto/ed25519"
	"crypto/elliptic"
	"fmt"
	"hash/fnv"
	"io"
	"net"
	"sort"
	"strings"
	"sync"
	"time"

	"github.com/miekg/dns"
	"github.com/semihalev/sdns/internal/vfmodel"
)

// Epoch is the instant every synctest bubble starts at.
var Epoch = time.Date(2000, 1, 1, 0, 0, 0, 0, time.UTC)

// Key is one DNSSEC key pair.
type Key struct {
	RR   *dns.DNSKEY
	Priv crypto.Signer
}

// detRand is a deterministic byte stream so key generation is a function of the seed.
type detRand struct{ s uint64 }

func (r *detRand) Read(p []byte) (int, error) {
	for i := range p {
		r.s = r.s*6364136223846793005 + 1442695040888963407
		p[i] = byte(r.s >> 33)
	}
	return len(p), nil
}

var (
	keyMu   sync.Mutex
	keyPool = map[string]*Key{}
)

// NewKey returns the pooled key for (owner, alg, flags, n); keys are cached across cases because
// generating them dominates otherwise.
func NewKey(owner string, alg uint8, flags uint16, n int) *Key {
	id := fmt.Sprint(owner, alg, flags, n)
	keyMu.Lock()
	defer keyMu.Unlock()
	if k, ok := keyPool[id]; ok {
		return k
	}
	h := fnv.New64a()
	_, _ = io.WriteString(h, id)
	rnd := &detRand{s: h.Sum64()}
	rr := &dns.DNSKEY{Hdr: dns.RR_Header{Name: owner, Rrtype: dns.TypeDNSKEY, Class: dns.ClassINET, Ttl: 3600}, Flags: flags, Protocol: 3, Algorithm: alg}
	k := &Key{RR: rr}
	switch alg {
	case dns.ED25519:
		pub, priv, _ := ed25519.GenerateKey(rnd)
		rr.PublicKey = toBase64(pub)
		k.Priv = priv
	default: // ECDSAP256SHA256
		rr.Algorithm = dns.ECDSAP256SHA256
		priv, _ := ecdsa.GenerateKey(elliptic.P256(), rnd)
		x, y := priv.X.Bytes(), priv.Y.Bytes()
		buf := make([]byte, 64)
		copy(buf[32-len(x):32], x)
		copy(buf[64-len(y):], y)
		rr.PublicKey = toBase64(buf)
		k.Priv = priv
	}
	keyPool[id] = k
	return k
}

// SZone is one zone of the world.
type SZone struct {
	*vfmodel.Zone
	Signed    bool
	NSEC3     bool
	KSK, ZSK  *Key
	Servers   []string          // IPv4 addresses of its authorities
	NSHosts   []string          // NS target names, parallel to Servers
	Parent    *SZone            // nil for the root
	Children  map[string]*SZone // delegation owner -> child zone
	Targets   map[string]string // CNAME / DNAME owner -> target
	TTL       uint32
	TTLs      map[string]uint32 // "owner/TYPE" -> ttl
	NegTTL    uint32
	Incep     time.Time
	Expir     time.Time
	Tag       string            // folded into generated RDATA
	AOverride map[string]string // owner -> IPv4 for address records planted for other zones' NS hosts
	NoGlue    map[string]bool   // in-zone NS hosts for which the parent's referral carries no glue
	NoDS      bool              // signed, but the parent publishes no DS: an island, provably insecure
	WrongDS   bool              // the parent publishes a DS that matches no key: bogus

	mu       sync.Mutex
	sigCache map[string]*dns.RRSIG
	nsec     []*dns.NSEC
	nsec3    []*dns.NSEC3
}

// World is the whole namespace.
type World struct {
	Root  *SZone
	Zones map[string]*SZone // by apex
	Addrs map[string][]*SZone
}

// TTLOf returns the TTL of an RRset.
func (z *SZone) TTLOf(owner string, t uint16) uint32 {
	if v, ok := z.TTLs[owner+"/"+dns.TypeToString[t]]; ok {
		return v
	}
	return z.TTL
}

func hash32(s string) uint32 {
	h := fnv.New32a()
	_, _ = io.WriteString(h, s)
	return h.Sum32()
}

// RRset renders the published RRset (owner, type) of the zone; nil when absent. The RDATA is a
// function of the owner name, so "what the signer published" can be recomputed anywhere.
func (z *SZone) RRset(owner string, t uint16) []dns.RR {
	owner = strings.ToLower(owner)
	types := z.Owners[owner]
	if types == nil || !types[t] {
		return nil
	}
	hdr := dns.RR_Header{Name: owner, Rrtype: t, Class: dns.ClassINET, Ttl: z.TTLOf(owner, t)}
	h := hash32(owner + z.Tag)
	switch t {
	case dns.TypeSOA:
		return []dns.RR{&dns.SOA{Hdr: hdr, Ns: z.NSHosts[0], Mbox: "hostmaster." + strings.TrimPrefix(z.Apex, "."), Serial: 1, Refresh: 3600, Retry: 600, Expire: 86400, Minttl: z.NegTTL}}
	case dns.TypeNS:
		hosts := z.NSHosts
		if owner != z.Apex {
			c := z.Children[owner]
			if c == nil {
				return nil
			}
			hosts = c.NSHosts
		}
		var out []dns.RR
		for _, n := range hosts {
			out = append(out, &dns.NS{Hdr: hdr, Ns: n})
		}
		return out
	case dns.TypeDS:
		c := z.Children[owner]
		if c == nil || c.KSK == nil {
			return nil
		}
		ds := c.KSK.RR.ToDS(dns.SHA256)
		ds.Hdr = hdr
		if c.WrongDS {
			ds.Digest = strings.Repeat("ab", 32)
		}
		return []dns.RR{ds}
	case dns.TypeDNSKEY:
		var out []dns.RR
		for _, k := range []*Key{z.KSK, z.ZSK} {
			if k != nil {
				c := dns.Copy(k.RR).(*dns.DNSKEY)
				c.Hdr = hdr
				if len(out) == 0 || out[0].(*dns.DNSKEY).PublicKey != c.PublicKey {
					out = append(out, c)
				}
			}
		}
		return out
	case dns.TypeA:
		if ip, ok := z.AOverride[owner]; ok {
			return []dns.RR{&dns.A{Hdr: hdr, A: net.ParseIP(ip).To4()}}
		}
		for i, n := range z.NSHosts {
			if n == owner {
				return []dns.RR{&dns.A{Hdr: hdr, A: net.ParseIP(z.Servers[i]).To4()}}
			}
		}
		return []dns.RR{&dns.A{Hdr: hdr, A: net.IPv4(10, byte(h>>16), byte(h>>8), byte(h)).To4()}}
	case dns.TypeAAAA:
		ip := net.ParseIP("2001:db8::")
		ip[12], ip[13], ip[14], ip[15] = byte(h>>24), byte(h>>16), byte(h>>8), byte(h)
		return []dns.RR{&dns.AAAA{Hdr: hdr, AAAA: ip}}
	case dns.TypeTXT:
		return []dns.RR{&dns.TXT{Hdr: hdr, Txt: []string{"v=" + owner + z.Tag}}}
	case dns.TypeMX:
		return []dns.RR{&dns.MX{Hdr: hdr, Preference: 10, Mx: "t." + z.Apex}}
	case dns.TypeCNAME:
		return []dns.RR{&dns.CNAME{Hdr: hdr, Target: z.Targets[owner]}}
	case dns.TypeDNAME:
		return []dns.RR{&dns.DNAME{Hdr: hdr, Target: z.Targets[owner]}}
	}
	return nil
}

// GlueFor returns the address records of NS host names at or below cut (they live in the child).
func (z *SZone) GlueFor(cut string) []dns.RR {
	c := z.Children[cut]
	if c == nil {
		return nil
	}
	var out []dns.RR
	for i, n := range c.NSHosts {
		if vfmodel.IsSubdomain(n, cut) && !c.NoGlue[n] {
			out = append(out, &dns.A{Hdr: dns.RR_Header{Name: n, Rrtype: dns.TypeA, Class: dns.ClassINET, Ttl: z.TTLOf(cut, dns.TypeNS)}, A: net.ParseIP(c.Servers[i]).To4()})
		}
	}
	return out
}

// Sign returns the RRSIG over rrset by the right key of the zone (KSK for DNSKEY, else ZSK).
func (z *SZone) Sign(rrset []dns.RR) *dns.RRSIG {
	if !z.Signed || len(rrset) == 0 {
		return nil
	}
	h := rrset[0].Header()
	id := fmt.Sprint(h.Name, "/", h.Rrtype, "/", h.Ttl, "/", len(rrset))
	z.mu.Lock()
	defer z.mu.Unlock()
	if s, ok := z.sigCache[id]; ok {
		return dns.Copy(s).(*dns.RRSIG)
	}
	k := z.ZSK
	if h.Rrtype == dns.TypeDNSKEY {
		k = z.KSK
	}
	sig := &dns.RRSIG{Hdr: dns.RR_Header{Name: h.Name, Rrtype: dns.TypeRRSIG, Class: dns.ClassINET, Ttl: h.Ttl},
		Algorithm: k.RR.Algorithm, SignerName: z.Apex, KeyTag: k.RR.KeyTag(), Inception: uint32(z.Incep.Unix()), Expiration: uint32(z.Expir.Unix()), OrigTtl: h.Ttl}
	var cp []dns.RR
	for _, r := range rrset {
		cp = append(cp, dns.Copy(r))
	}
	if err := sig.Sign(k.Priv, cp); err != nil {
		panic("vfworld: sign " + id + ": " + err.Error())
	}
	if z.sigCache == nil {
		z.sigCache = map[string]*dns.RRSIG{}
	}
	z.sigCache[id] = sig
	return dns.Copy(sig).(*dns.RRSIG)
}

// NSECs / NSEC3s return the zone's genuine chains (cached).
func (z *SZone) NSECs() []*dns.NSEC {
	z.mu.Lock()
	defer z.mu.Unlock()
	if z.nsec == nil {
		z.nsec = z.NSECChain(z.NegTTL)
	}
	return z.nsec
}

func (z *SZone) NSEC3s() []*dns.NSEC3 {
	z.mu.Lock()
	defer z.mu.Unlock()
	if z.nsec3 == nil {
		z.nsec3 = z.NSEC3Chain(z.NegTTL)
	}
	return z.nsec3
}

// Invalidate drops the cached chains and signatures after the zone was edited.
func (z *SZone) Invalidate() {
	z.mu.Lock()
	z.nsec, z.nsec3, z.sigCache = nil, nil, nil
	z.mu.Unlock()
}

// ---- global ground truth -----------------------------------------------------------------

// Step is one alias followed on the way to the final answer.
type Step struct {
	Zone     *SZone
	Owner    string // published owner (the wildcard / DNAME owner when synthesised)
	Name     string // the name that was asked
	Type     uint16 // CNAME or DNAME
	Target   string
	Wildcard bool
	Secure   bool
	Bogus    bool
}

// GTruth is the answer a correct validating resolver gives.
type GTruth struct {
	Steps    []Step
	Zone     *SZone // zone authoritative for the final name
	Name     string // final name after aliases
	Out      vfmodel.Outcome
	Secure   bool // every zone consulted is reachable over an unbroken signed chain
	Bogus    bool // some zone on the path is signed under a DS that cannot validate it
	OptOut   bool // the final denial may rest on an opt-out span
	Loop     bool // alias chain longer than the bound / loops
	Insecure bool // some zone on the path is provably insecure
	// the final element alone
	FinalSecure bool
	FinalBogus  bool
}

// Locate walks delegations from the root to the zone authoritative for (name, qtype).
func (w *World) Locate(name string, qtype uint16) (z *SZone, out vfmodel.Outcome, secure, bogus bool) {
	z = w.Root
	secure = z.Signed
	for i := 0; i < 16; i++ {
		out = z.Truth(name, qtype)
		if out.Kind != "referral" {
			return
		}
		c := z.Children[out.Cut]
		if c == nil {
			return
		}
		switch {
		case !secure:
		case c.WrongDS || (out.SecureCut && !c.Signed):
			bogus, secure = true, false
		case !out.SecureCut:
			secure = false
		}
		z = c
	}
	return
}

// Resolve computes ground truth for a client question.
func (w *World) Resolve(qname string, qtype uint16) GTruth {
	g := GTruth{Secure: true, Name: strings.ToLower(qname)}
	seen := map[string]bool{}
	for {
		z, out, secure, bogus := w.Locate(g.Name, qtype)
		g.Zone, g.Out = z, out
		g.FinalSecure, g.FinalBogus = secure, bogus
		if bogus {
			g.Bogus = true
		}
		if !secure {
			g.Secure = false
			if !bogus {
				g.Insecure = true
			}
		}
		switch {
		case out.Kind == "answer" && out.CNAME:
			owner := g.Name
			if out.Wildcard {
				owner = out.Source
			}
			tgt := strings.ToLower(z.Targets[owner])
			g.Steps = append(g.Steps, Step{Zone: z, Owner: owner, Name: g.Name, Type: dns.TypeCNAME, Target: tgt, Wildcard: out.Wildcard, Secure: secure, Bogus: bogus})
			g.Name = tgt
		case out.Kind == "dname":
			tgt := strings.ToLower(z.Targets[out.Cut])
			pre := strings.TrimSuffix(g.Name, out.Cut)
			if out.Cut == "." {
				pre = g.Name
			}
			n := pre + tgt
			if tgt == "." {
				n = pre
			}
			g.Steps = append(g.Steps, Step{Zone: z, Owner: out.Cut, Name: g.Name, Type: dns.TypeDNAME, Target: n, Secure: secure, Bogus: bogus})
			if qtype == dns.TypeCNAME {
				// the synthesised CNAME is itself the answer, nothing is chased (RFC 6672 §3.2)
				g.Out = vfmodel.Outcome{Kind: "dname-cname"}
				return g
			}
			g.Name = n
		default:
			if z.Signed && z.NSEC3 && z.OptOut && (out.Kind == "nxdomain" || out.Kind == "nodata") {
				g.OptOut = true
			}
			return g
		}
		if _, ok := dns.IsDomainName(g.Name); !ok || len(g.Name) > 253 || seen[g.Name] || len(g.Steps) > 8 {
			g.Loop = true
			return g
		}
		seen[g.Name] = true
	}
}

// Describe renders the world for failure messages and samples.
func (w *World) Describe() string {
	var apexes []string
	for a := range w.Zones {
		apexes = append(apexes, a)
	}
	sort.Slice(apexes, func(i, j int) bool {
		return len(apexes[i]) < len(apexes[j]) || (len(apexes[i]) == len(apexes[j]) && apexes[i] < apexes[j])
	})
	var sb strings.Builder
	for _, a := range apexes {
		z := w.Zones[a]
		mode := "unsigned"
		if z.Signed {
			mode = "nsec"
			if z.NSEC3 {
				mode = "nsec3"
			}
			if z.NoDS {
				mode += ",no-DS"
			}
			if z.WrongDS {
				mode += ",wrong-DS"
			}
		}
		fmt.Fprintf(&sb, "[%s servers=%v] %s", mode, z.Servers, z.Zone.Describe())
		if len(z.Targets) > 0 {
			var ts []string
			for o, t := range z.Targets {
				ts = append(ts, o+"->"+t)
			}
			sort.Strings(ts)
			fmt.Fprintf(&sb, " targets=%v", ts)
		}
		sb.WriteString("\n")
	}
	return sb.String()
}

// SignWindow signs rrset with an explicit validity window (uncached): genuine signature, chosen dates.
func (z *SZone) SignWindow(rrset []dns.RR, incep, expir time.Time) *dns.RRSIG {
	if !z.Signed || len(rrset) == 0 {
		return nil
	}
	h := rrset[0].Header()
	k := z.ZSK
	if h.Rrtype == dns.TypeDNSKEY {
		k = z.KSK
	}
	sig := &dns.RRSIG{Hdr: dns.RR_Header{Name: h.Name, Rrtype: dns.TypeRRSIG, Class: dns.ClassINET, Ttl: h.Ttl},
		Algorithm: k.RR.Algorithm, SignerName: z.Apex, KeyTag: k.RR.KeyTag(), Inception: uint32(incep.Unix()), Expiration: uint32(expir.Unix()), OrigTtl: h.Ttl}
	var cp []dns.RR
	for _, r := range rrset {
		cp = append(cp, dns.Copy(r))
	}
	if err := sig.Sign(k.Priv, cp); err != nil {
		return nil
	}
	return sig
}

// Published reports whether rr (owner lower-cased, TTL ignored) is a record the world's zones publish:
// data RRsets, NSEC and NSEC3 chains. Wildcard expansions are not resolved here.
func (w *World) Published(rr dns.RR) bool {
	owner := strings.ToLower(rr.Header().Name)
	t := rr.Header().Rrtype
	norm := func(r dns.RR) string {
		c := dns.Copy(r)
		c.Header().Name = strings.ToLower(c.Header().Name)
		c.Header().Ttl = 0
		c.Header().Rdlength = 0
		return strings.ToLower(c.String())
	}
	want := norm(rr)
	for _, z := range w.Zones {
		if !vfmodel.IsSubdomain(owner, z.Apex) {
			continue
		}
		switch t {
		case dns.TypeNSEC:
			for _, n := range z.NSECs() {
				if norm(n) == want {
					return true
				}
			}
		case dns.TypeNSEC3:
			for _, n := range z.NSEC3s() {
				if norm(n) == want {
					return true
				}
			}
		default:
			for _, r := range z.RRset(owner, t) {
				if norm(r) == want {
					return true
				}
			}
		}
	}
	return false
}
