package vfworld

import (
	"context"
	"encoding/binary"
	"net"
	"os"
	"strings"
	"sync"
	"time"

	"github.com/miekg/dns"
)

// Packet is one query an authority received.
type Packet struct {
	At    time.Duration // since Epoch
	Addr  string
	Proto string
	Name  string
	Qtype uint16
	DO    bool
	CD    bool
	ID    uint16
	Kind  string // what the honest server made of it
	Cut   string // referral: the delegation point
	Ghost bool   // answered by a server of a superseded world
	Opts  []uint16
}

// Action is what the network does with one query.
type Action struct {
	Drop    bool
	Delay   time.Duration
	Raw     [][]byte // send these datagrams / frames instead of (before) the response
	NoReply bool     // after Raw, send nothing else
	Close   bool     // stream: close after Raw
}

// Net is the in-memory network behind verifhook.SetDialer.
type Net struct {
	W       *World
	Latency time.Duration
	// Script, when set, sees every query with the honest response and may edit it in place and/or
	// return an Action. n counts queries to this (addr, proto) from 0.
	Script func(p Packet, n int, req, resp *dns.Msg, info Info) Action
	// Ghost maps addresses to a superseded world they keep serving (servers the parent no longer delegates to).
	Ghost map[string]*World
	// Refuse makes Dial fail for these "proto/addr" keys (connection refused).
	Refuse map[string]bool

	mu       sync.Mutex
	dials    []string
	deliv    map[string]Delivery
	log      []Packet
	seen     map[string]int
	wg       sync.WaitGroup
	scriptMu sync.Mutex
	tag      string
}

// Log returns a copy of the packets received so far.
func (n *Net) Log() []Packet {
	n.mu.Lock()
	defer n.mu.Unlock()
	return append([]Packet(nil), n.log...)
}

// Swap replaces the live world; ghosts keep serving old.
func (n *Net) Swap(w *World, ghosts map[string]*World) {
	n.mu.Lock()
	n.W = w
	if n.Ghost == nil {
		n.Ghost = map[string]*World{}
	}
	for a, g := range ghosts {
		n.Ghost[a] = g
	}
	n.mu.Unlock()
}

// Delivery says when an authority last sent a record and with what TTL.
type Delivery struct {
	At    time.Duration // since Epoch
	TTL   uint32
	Count int
	Tags  map[string]bool // caller-defined labels that were current at the time (Net.Tag)
}

// Tag is attached to every delivery recorded from now on (e.g. which client question is being resolved).
func (n *Net) SetTag(tag string) {
	n.mu.Lock()
	n.tag = tag
	n.mu.Unlock()
}

// Delivered looks a record up (owner lower-cased, TTL ignored).
func (n *Net) Delivered(rr dns.RR) (Delivery, bool) {
	n.mu.Lock()
	defer n.mu.Unlock()
	d, ok := n.deliv[normRR(rr)]
	return d, ok
}

func normRR(rr dns.RR) string {
	c := dns.Copy(rr)
	c.Header().Name = strings.ToLower(c.Header().Name)
	c.Header().Ttl = 0
	c.Header().Rdlength = 0
	return strings.ToLower(c.String())
}

// Dials returns every "proto/host" sdns tried to connect to.
func (n *Net) Dials() []string {
	n.mu.Lock()
	defer n.mu.Unlock()
	return append([]string(nil), n.dials...)
}

// Count returns the number of packets received so far.
func (n *Net) Count() int {
	n.mu.Lock()
	defer n.mu.Unlock()
	return len(n.log)
}

// Wait blocks until every in-flight delivery goroutine has ended.
func (n *Net) Wait() { n.wg.Wait() }

type refusedErr struct{}

func (refusedErr) Error() string   { return "vfnet: connection refused" }
func (refusedErr) Timeout() bool   { return false }
func (refusedErr) Temporary() bool { return false }

// Dial is the hook target.
func (n *Net) Dial(ctx context.Context, proto, addr string) (net.Conn, error) {
	host, _, err := net.SplitHostPort(addr)
	if err != nil {
		host = addr
	}
	n.mu.Lock()
	n.dials = append(n.dials, proto+"/"+host)
	n.mu.Unlock()
	if n.Refuse[proto+"/"+host] || n.Refuse["*/"+host] {
		return nil, refusedErr{}
	}
	c := &memConn{n: n, host: host, proto: proto, wake: make(chan struct{})}
	if strings.HasPrefix(proto, "udp") {
		return &memPacketConn{c}, nil
	}
	n.mu.Lock()
	_, live := n.W.Addrs[host]
	_, ghost := n.Ghost[host]
	n.mu.Unlock()
	if !live && !ghost {
		// nobody listens: a TCP connect to a dead address times out; model it as refused
		return nil, refusedErr{}
	}
	return c, nil
}

type memAddr struct{ s string }

func (a memAddr) Network() string { return "vfnet" }
func (a memAddr) String() string  { return a.s }

type memConn struct {
	n     *Net
	host  string
	proto string

	mu      sync.Mutex
	pending []byte   // stream bytes
	dgrams  [][]byte // datagrams
	wbuf    []byte   // stream reassembly
	closed  bool
	eof     bool
	rdl     time.Time
	wake    chan struct{}
}

func (c *memConn) signal() {
	close(c.wake)
	c.wake = make(chan struct{})
}

func (c *memConn) deliver(b []byte) {
	c.mu.Lock()
	defer c.mu.Unlock()
	if c.closed {
		return
	}
	if strings.HasPrefix(c.proto, "udp") {
		c.dgrams = append(c.dgrams, b)
	} else {
		c.pending = append(c.pending, b...)
	}
	c.signal()
}

func (c *memConn) Read(p []byte) (int, error) {
	for {
		c.mu.Lock()
		if c.closed {
			c.mu.Unlock()
			return 0, net.ErrClosed
		}
		if len(c.dgrams) > 0 {
			d := c.dgrams[0]
			c.dgrams = c.dgrams[1:]
			c.mu.Unlock()
			return copy(p, d), nil
		}
		if len(c.pending) > 0 {
			k := copy(p, c.pending)
			c.pending = c.pending[k:]
			c.mu.Unlock()
			return k, nil
		}
		if c.eof {
			c.mu.Unlock()
			return 0, os.ErrClosed
		}
		dl, ch := c.rdl, c.wake
		c.mu.Unlock()
		if dl.IsZero() {
			<-ch
			continue
		}
		d := time.Until(dl)
		if d <= 0 {
			return 0, os.ErrDeadlineExceeded
		}
		t := time.NewTimer(d)
		select {
		case <-ch:
			t.Stop()
		case <-t.C:
			return 0, os.ErrDeadlineExceeded
		}
	}
}

func (c *memConn) Write(p []byte) (int, error) {
	c.mu.Lock()
	if c.closed {
		c.mu.Unlock()
		return 0, net.ErrClosed
	}
	var frames [][]byte
	if strings.HasPrefix(c.proto, "udp") {
		frames = append(frames, append([]byte(nil), p...))
	} else {
		c.wbuf = append(c.wbuf, p...)
		for len(c.wbuf) >= 2 {
			l := int(binary.BigEndian.Uint16(c.wbuf))
			if len(c.wbuf) < 2+l {
				break
			}
			frames = append(frames, append([]byte(nil), c.wbuf[2:2+l]...))
			c.wbuf = c.wbuf[2+l:]
		}
	}
	c.mu.Unlock()
	for _, f := range frames {
		c.n.handle(c, f)
	}
	return len(p), nil
}

func (c *memConn) Close() error {
	c.mu.Lock()
	if !c.closed {
		c.closed = true
		c.signal()
	}
	c.mu.Unlock()
	return nil
}

func (c *memConn) LocalAddr() net.Addr  { return memAddr{"192.0.2.250:40000"} }
func (c *memConn) RemoteAddr() net.Addr { return memAddr{c.host + ":53"} }
func (c *memConn) SetDeadline(t time.Time) error {
	c.mu.Lock()
	c.rdl = t
	c.signal()
	c.mu.Unlock()
	return nil
}
func (c *memConn) SetReadDeadline(t time.Time) error  { return c.SetDeadline(t) }
func (c *memConn) SetWriteDeadline(t time.Time) error { return nil }

// memPacketConn marks the datagram flavour (dnsclient switches framing on net.PacketConn).
type memPacketConn struct{ *memConn }

func (c *memPacketConn) ReadFrom(p []byte) (int, net.Addr, error) {
	n, err := c.Read(p)
	return n, c.RemoteAddr(), err
}
func (c *memPacketConn) WriteTo(p []byte, _ net.Addr) (int, error) { return c.Write(p) }

func (n *Net) handle(c *memConn, raw []byte) {
	req := new(dns.Msg)
	if err := req.Unpack(raw); err != nil || len(req.Question) == 0 {
		return
	}
	q := req.Question[0]
	p := Packet{At: time.Since(Epoch), Addr: c.host, Proto: c.proto, Name: q.Name, Qtype: q.Qtype, CD: req.CheckingDisabled, ID: req.Id}
	if opt := req.IsEdns0(); opt != nil {
		p.DO = opt.Do()
		for _, o := range opt.Option {
			p.Opts = append(p.Opts, o.Option())
		}
	}
	var resp *dns.Msg
	var info Info
	n.mu.Lock()
	cur, ghost := n.W, n.Ghost[c.host]
	n.mu.Unlock()
	if ghost != nil {
		resp, info = ghost.Serve(c.host, req)
		p.Ghost = true
	} else if _, ok := cur.Addrs[c.host]; ok {
		resp, info = cur.Serve(c.host, req)
	}
	p.Kind, p.Cut = info.Kind, info.Out.Cut
	n.mu.Lock()
	if n.seen == nil {
		n.seen = map[string]int{}
	}
	idx := n.seen[c.proto+"/"+c.host]
	n.seen[c.proto+"/"+c.host] = idx + 1
	n.log = append(n.log, p)
	n.mu.Unlock()
	if resp == nil {
		return // nobody home: silence
	}
	var act Action
	if n.Script != nil {
		n.scriptMu.Lock() // sdns asks several servers at once; scripts are written single-threaded
		act = n.Script(p, idx, req, resp, info)
		n.scriptMu.Unlock()
	}
	if act.Drop {
		return
	}
	var out [][]byte
	out = append(out, act.Raw...)
	if !act.NoReply {
		stream := !strings.HasPrefix(c.proto, "udp")
		if !stream && resp.Len() > 1232 {
			resp.Truncate(1232)
		}
		b, err := resp.Pack()
		if err != nil {
			return
		}
		out = append(out, b)
	}
	if !act.NoReply {
		n.mu.Lock()
		if n.deliv == nil {
			n.deliv = map[string]Delivery{}
		}
		now := time.Since(Epoch)
		for _, sec := range [][]dns.RR{resp.Answer, resp.Ns, resp.Extra} {
			for _, rr := range sec {
				if rr.Header().Rrtype == dns.TypeOPT {
					continue
				}
				k := normRR(rr)
				d := n.deliv[k]
				d.At, d.TTL, d.Count = now, rr.Header().Ttl, d.Count+1
				if d.Tags == nil {
					d.Tags = map[string]bool{}
				}
				d.Tags[n.tag] = true
				n.deliv[k] = d
			}
		}
		n.mu.Unlock()
	}
	delay := n.Latency + act.Delay
	n.wg.Add(1)
	go func() {
		defer n.wg.Done()
		if delay > 0 {
			time.Sleep(delay)
		}
		for _, b := range out {
			if strings.HasPrefix(c.proto, "udp") {
				c.deliver(b)
			} else {
				f := make([]byte, 2+len(b))
				binary.BigEndian.PutUint16(f, uint16(len(b)))
				copy(f[2:], b)
				c.deliver(f)
			}
		}
		if act.Close {
			c.mu.Lock()
			c.eof = true
			c.signal()
			c.mu.Unlock()
		}
	}()
}
