package vfworld

import (
	"fmt"
	"sort"
	"strings"
	"time"

	"github.com/miekg/dns"
	"github.com/semihalev/sdns/internal/vfmodel"
	"pgregory.net/rapid"
)

// ZoneSpec describes one zone for Build.
type ZoneSpec struct {
	Apex        string
	Signed      bool
	NSEC3       bool
	OptOut      bool
	Salt        string
	Iter        uint16
	NoDS        bool     // signed island: parent proves there is no DS
	WrongDS     bool     // parent publishes a DS matching no key
	Alg         uint8    // dns.ECDSAP256SHA256 (default) or dns.ED25519
	Split       bool     // separate KSK and ZSK
	Servers     int      // number of authorities (default 1)
	Shared      bool     // served by the parent's first authority as well (instead of own servers)
	Addrs       []string // explicit authority addresses (default: allocated sequentially)
	Tag         string   // folded into generated RDATA, so two versions of a zone publish different data
	KeyGen      int      // key generation: another value gives the zone other keys (and so another DS)
	ExtraNSHost string   // the last NS host is named outside the zone (no glue) while the others keep glue: a partially glued referral
	NSHost      string   // single NS host name outside the zone (glueless delegation); its A record is planted in the zone that holds it
	NoGlueFor   []string // in-zone NS hosts the parent's referral carries no glue for (the zone itself still publishes their address)
	Owners      map[string][]uint16
	Targets     map[string]string
	TTL         uint32
	NegTTL      uint32
	TTLs        map[string]uint32
	Lifetime    time.Duration // signature validity from Epoch (default 30 days)
}

// Build assembles a world from zone specs (the root must be among them).
func Build(specs []ZoneSpec) *World {
	sort.SliceStable(specs, func(i, j int) bool {
		return len(vfmodel.Labels(specs[i].Apex)) < len(vfmodel.Labels(specs[j].Apex))
	})
	w := &World{Zones: map[string]*SZone{}, Addrs: map[string][]*SZone{}}
	ipn := 10
	for _, sp := range specs {
		apex := strings.ToLower(dns.Fqdn(sp.Apex))
		z := &SZone{Zone: &vfmodel.Zone{Apex: apex, Owners: map[string]map[uint16]bool{}, Glue: map[string]bool{}, Salt: sp.Salt, Iterations: sp.Iter, OptOut: sp.OptOut},
			Signed: sp.Signed, NSEC3: sp.NSEC3, Children: map[string]*SZone{}, Targets: map[string]string{}, TTL: sp.TTL, NegTTL: sp.NegTTL, TTLs: sp.TTLs,
			NoDS: sp.NoDS, WrongDS: sp.WrongDS, Tag: sp.Tag}
		if z.TTL == 0 {
			z.TTL = 300
		}
		if z.NegTTL == 0 {
			z.NegTTL = 60
		}
		if z.TTLs == nil {
			z.TTLs = map[string]uint32{}
		}
		life := sp.Lifetime
		if life == 0 {
			life = 30 * 24 * time.Hour
		}
		z.Incep, z.Expir = Epoch.Add(-time.Hour), Epoch.Add(life)
		z.Owners[apex] = map[uint16]bool{dns.TypeSOA: true, dns.TypeNS: true}
		if sp.Signed {
			z.Owners[apex][dns.TypeDNSKEY] = true
			alg := sp.Alg
			if alg == 0 {
				alg = dns.ECDSAP256SHA256
			}
			z.KSK = NewKey(apex, alg, 257, 2*sp.KeyGen)
			z.ZSK = z.KSK
			if sp.Split {
				z.ZSK = NewKey(apex, alg, 256, 2*sp.KeyGen+1)
			}
		}
		for o, ts := range sp.Owners {
			o = strings.ToLower(dns.Fqdn(o))
			if z.Owners[o] == nil {
				z.Owners[o] = map[uint16]bool{}
			}
			for _, t := range ts {
				z.Owners[o][t] = true
			}
		}
		for o, t := range sp.Targets {
			z.Targets[strings.ToLower(dns.Fqdn(o))] = strings.ToLower(dns.Fqdn(t))
		}
		// parent
		for _, p := range w.Zones {
			if vfmodel.StrictSubdomain(apex, p.Apex) && (z.Parent == nil || len(p.Apex) > len(z.Parent.Apex)) {
				z.Parent = p
			}
		}
		// authorities
		nsrv := sp.Servers
		if nsrv == 0 {
			nsrv = 1
		}
		if sp.Shared && z.Parent != nil {
			z.Servers = []string{z.Parent.Servers[0]}
			z.NSHosts = []string{z.Parent.NSHosts[0]}
		} else {
			for i := 0; i < nsrv; i++ {
				ip := fmt.Sprintf("198.51.100.%d", ipn)
				ipn++
				if i < len(sp.Addrs) {
					ip = sp.Addrs[i]
				}
				host := fmt.Sprintf("ns%d.%s", i+1, apex)
				if apex == "." {
					host = fmt.Sprintf("ns%d.", i+1)
				}
				z.Servers = append(z.Servers, ip)
				z.NSHosts = append(z.NSHosts, host)
				if z.Owners[host] == nil {
					z.Owners[host] = map[uint16]bool{}
				}
				z.Owners[host][dns.TypeA] = true
			}
		}
		plant := func(host, ip string) {
			var best *SZone
			for _, o := range w.Zones {
				if vfmodel.IsSubdomain(host, o.Apex) && (best == nil || len(o.Apex) > len(best.Apex)) {
					best = o
				}
			}
			if best == nil {
				return
			}
			if best.Owners[host] == nil {
				best.Owners[host] = map[uint16]bool{}
			}
			best.Owners[host][dns.TypeA] = true
			if best.AOverride == nil {
				best.AOverride = map[string]string{}
			}
			best.AOverride[host] = ip
		}
		if sp.ExtraNSHost != "" && !sp.Shared && len(z.NSHosts) > 1 {
			last := len(z.NSHosts) - 1
			delete(z.Owners, z.NSHosts[last])
			z.NSHosts[last] = strings.ToLower(dns.Fqdn(sp.ExtraNSHost))
			plant(z.NSHosts[last], z.Servers[last])
		}
		if sp.NSHost != "" && !sp.Shared {
			// glueless: the zone keeps its own server, but names it through a host in another zone
			host := strings.ToLower(dns.Fqdn(sp.NSHost))
			for _, h := range z.NSHosts {
				delete(z.Owners, h)
			}
			z.Servers, z.NSHosts = z.Servers[:1], []string{host}
			for _, hz := range w.Zones {
				if vfmodel.IsSubdomain(host, hz.Apex) && (len(hz.Children) == 0 || true) {
					// deepest zone holding the host
					best := hz
					for _, o := range w.Zones {
						if vfmodel.IsSubdomain(host, o.Apex) && len(o.Apex) > len(best.Apex) {
							best = o
						}
					}
					if best.Owners[host] == nil {
						best.Owners[host] = map[uint16]bool{}
					}
					best.Owners[host][dns.TypeA] = true
					if best.AOverride == nil {
						best.AOverride = map[string]string{}
					}
					best.AOverride[host] = z.Servers[0]
					break
				}
			}
		}
		for _, ip := range z.Servers {
			w.Addrs[ip] = append(w.Addrs[ip], z)
		}
		if p := z.Parent; p != nil {
			// anything the parent held at or below the new cut is occluded
			for o := range p.Owners {
				if o != p.Apex && vfmodel.IsSubdomain(o, apex) {
					delete(p.Owners, o)
					delete(p.Targets, o)
				}
			}
			p.Owners[apex] = map[uint16]bool{dns.TypeNS: true}
			if (sp.Signed && !sp.NoDS) || sp.WrongDS {
				p.Owners[apex][dns.TypeDS] = true
			}
			p.Children[apex] = z
			for _, h := range sp.NoGlueFor {
				if z.NoGlue == nil {
					z.NoGlue = map[string]bool{}
				}
				z.NoGlue[strings.ToLower(dns.Fqdn(h))] = true
			}
			for _, h := range z.NSHosts {
				if vfmodel.IsSubdomain(h, apex) {
					p.Glue[h] = true
				}
			}
		}
		w.Zones[apex] = z
		if apex == "." {
			w.Root = z
		}
	}
	return w
}

// RootAnchor renders the trust anchor line for cfg.RootKeys.
func (w *World) RootAnchor() string { return w.Root.KSK.RR.String() }

// RootServers renders cfg.RootServers.
func (w *World) RootServers() []string {
	var out []string
	for _, s := range w.Root.Servers {
		out = append(out, s+":53")
	}
	return out
}

var genLabels = []string{"a", "b", "c", "*", "x", "ab", "z", "0"}

// GenWorld draws a small signed namespace: root, one or two TLDs, second- and third-level zones in
// every security mode, aliases across zones.
func GenWorld(t *rapid.T) *World {
	mode := func(label string) (sp ZoneSpec) {
		switch rapid.IntRange(0, 9).Draw(t, label+".mode") {
		case 0, 1: // unsigned, provably insecure
		case 2: // signed island
			sp.Signed, sp.NoDS = true, true
		default:
			sp.Signed = true
		}
		if sp.Signed {
			sp.NSEC3 = rapid.Bool().Draw(t, label+".nsec3")
			if sp.NSEC3 {
				sp.OptOut = rapid.IntRange(0, 2).Draw(t, label+".optout") == 0
				sp.Salt = rapid.SampledFrom([]string{"", "ab", "deadbeef"}).Draw(t, label+".salt")
				sp.Iter = uint16(rapid.SampledFrom([]int{0, 0, 1, 10}).Draw(t, label+".iter"))
			}
			sp.Split = rapid.Bool().Draw(t, label+".split")
			if rapid.IntRange(0, 3).Draw(t, label+".alg") == 0 {
				sp.Alg = dns.ED25519
			}
		}
		sp.Servers = rapid.SampledFrom([]int{1, 1, 2}).Draw(t, label+".servers")
		return sp
	}
	root := ZoneSpec{Apex: ".", Signed: true, Split: rapid.Bool().Draw(t, "root.split")}
	tld := mode("tld")
	tld.Apex, tld.Signed, tld.NoDS = "test.", true, false
	specs := []ZoneSpec{root, tld}
	apexes := []string{"test."}
	if rapid.Bool().Draw(t, "tld2") {
		t2 := mode("tld2")
		t2.Apex = "org."
		specs = append(specs, t2)
		apexes = append(apexes, "org.")
	}
	sld := mode("sld")
	sld.Apex = "example.test."
	specs = append(specs, sld)
	apexes = append(apexes, sld.Apex)
	if rapid.Bool().Draw(t, "third") {
		th := mode("third")
		th.Apex = "sub.example.test."
		th.Shared = rapid.IntRange(0, 2).Draw(t, "third.shared") == 0
		specs = append(specs, th)
		apexes = append(apexes, th.Apex)
	}
	// data
	for i := range specs {
		sp := &specs[i]
		sp.Owners = map[string][]uint16{}
		sp.Targets = map[string]string{}
		at := func(l string) string {
			if sp.Apex == "." {
				return l + "."
			}
			return l + "." + sp.Apex
		}
		sp.Owners[at("t")] = []uint16{dns.TypeA, dns.TypeTXT}
		if sp.Apex == "." {
			continue
		}
		// a label holding a literal dot, spelled so that the owner reads like a name inside the child zone
		// ("t\.example.test." is the label "t.example" under test., not a name in example.test.)
		for _, child := range apexes {
			if vfmodel.StrictSubdomain(child, sp.Apex) && len(vfmodel.Labels(child)) == len(vfmodel.Labels(sp.Apex))+1 &&
				rapid.IntRange(0, 2).Draw(t, sp.Apex+".escdot") == 0 {
				sp.Owners["t\\."+child] = []uint16{dns.TypeA, dns.TypeTXT}
			}
		}
		if rapid.IntRange(0, 2).Draw(t, sp.Apex+".wildpair") == 0 {
			// a wildcard next to a concrete sibling of the same types
			sp.Owners[at("*.w")] = []uint16{dns.TypeA, dns.TypeTXT}
			sp.Owners[at("h.w")] = []uint16{dns.TypeA, dns.TypeTXT, dns.TypeAAAA} // one type the wildcard lacks
		}
		n := rapid.IntRange(0, 5).Draw(t, sp.Apex+".nowners")
		for j := 0; j < n; j++ {
			l := rapid.SampledFrom(genLabels).Draw(t, "label")
			if rapid.IntRange(0, 3).Draw(t, "deep") == 0 {
				l2 := rapid.SampledFrom(genLabels).Draw(t, "label2")
				if l2 == "*" {
					l2 = "w"
				}
				l = l + "." + l2
			}
			o := at(l)
			switch rapid.IntRange(0, 9).Draw(t, "kind") {
			case 0, 1, 2, 3:
				sp.Owners[o] = append(sp.Owners[o], dns.TypeA)
			case 4:
				sp.Owners[o] = append(sp.Owners[o], dns.TypeTXT, dns.TypeMX)
			case 5, 6:
				if len(sp.Owners[o]) == 0 {
					sp.Owners[o] = []uint16{dns.TypeCNAME}
					sp.Targets[o] = genTarget(t, apexes)
				}
			case 7:
				if len(sp.Owners[o]) == 0 && !strings.HasPrefix(l, "*") {
					sp.Owners[o] = []uint16{dns.TypeDNAME}
					sp.Targets[o] = rapid.SampledFrom(apexes).Draw(t, "dnametarget")
				}
			default:
				sp.Owners[o] = append(sp.Owners[o], dns.TypeAAAA)
			}
		}
		// nothing may exist below a DNAME owner, and a CNAME owner holds nothing else
		for o, ts := range sp.Owners {
			if len(ts) == 1 && ts[0] == dns.TypeDNAME {
				for o2 := range sp.Owners {
					if vfmodel.StrictSubdomain(o2, o) {
						delete(sp.Owners, o2)
						delete(sp.Targets, o2)
					}
				}
			}
		}
		for o, ts := range sp.Owners {
			for _, ty := range ts {
				if ty == dns.TypeCNAME && len(ts) > 1 {
					sp.Owners[o] = []uint16{dns.TypeCNAME}
				}
			}
		}
	}
	return Build(specs)
}

func genTarget(t *rapid.T, apexes []string) string {
	apex := rapid.SampledFrom(apexes).Draw(t, "targetzone")
	switch rapid.IntRange(0, 4).Draw(t, "targetkind") {
	case 0:
		return "nx." + apex
	case 1:
		return rapid.SampledFrom(genLabels[:3]).Draw(t, "targetlabel") + "." + apex
	default:
		return "t." + apex
	}
}

// GenQuestion draws a client question aimed at the world's interesting names.
func GenQuestion(t *rapid.T, w *World) (string, uint16) {
	var apexes []string
	for a := range w.Zones {
		apexes = append(apexes, a)
	}
	sort.Strings(apexes)
	z := w.Zones[rapid.SampledFrom(apexes).Draw(t, "qzone")]
	name := vfmodel.GenQName(t, z.Zone, []string{"a", "b", "c", "x", "ab", "z", "0", "w", "t"})
	qtype := rapid.SampledFrom([]uint16{dns.TypeA, dns.TypeA, dns.TypeA, dns.TypeAAAA, dns.TypeTXT, dns.TypeMX, dns.TypeCNAME, dns.TypeNS, dns.TypeDS, dns.TypeDNSKEY, dns.TypeSOA}).Draw(t, "qtype")
	return name, qtype
}
