package vfworld

import (
	"encoding/base64"
	"strings"

	"github.com/miekg/dns"
	"github.com/semihalev/sdns/internal/vfmodel"
)

func toBase64(b []byte) string { return base64.StdEncoding.EncodeToString(b) }

// Info says what kind of response Serve produced, so tamper scripts and oracles can address it.
type Info struct {
	Zone *SZone
	Kind string // answer wildcard cname dname nodata nxdomain referral refused dnskey ds
	Out  vfmodel.Outcome
}

// zoneFor picks the zone this authority answers (name, qtype) from: the deepest zone it serves
// that contains the name; DS at a zone apex belongs to the parent when that is served here too.
func (w *World) zoneFor(addr, name string, qtype uint16) *SZone {
	var best *SZone
	for _, z := range w.Addrs[addr] {
		if !vfmodel.IsSubdomain(name, z.Apex) {
			continue
		}
		if qtype == dns.TypeDS && name == z.Apex && z.Parent != nil {
			served := false
			for _, p := range w.Addrs[addr] {
				if p == z.Parent {
					served = true
				}
			}
			if served {
				continue
			}
		}
		if best == nil || len(vfmodel.Labels(z.Apex)) > len(vfmodel.Labels(best.Apex)) {
			best = z
		}
	}
	return best
}

func (z *SZone) matchNSEC(name string) dns.RR {
	for _, n := range z.NSECs() {
		if n.Hdr.Name == name {
			return n
		}
	}
	return nil
}

func (z *SZone) coverNSEC(name string) dns.RR {
	ch := z.NSECs()
	for i, n := range ch {
		lo, hi := n.Hdr.Name, n.NextDomain
		if vfmodel.CanonicalCompare(name, lo) <= 0 {
			continue
		}
		if i == len(ch)-1 || vfmodel.CanonicalCompare(name, hi) < 0 {
			return n
		}
	}
	return nil
}

func (z *SZone) matchNSEC3(name string) dns.RR {
	h := z.NSEC3Hash(name)
	for _, n := range z.NSEC3s() {
		if strings.EqualFold(strings.SplitN(n.Hdr.Name, ".", 2)[0], h) {
			return n
		}
	}
	return nil
}

func (z *SZone) coverNSEC3(name string) dns.RR {
	h := z.NSEC3Hash(name)
	for _, n := range z.NSEC3s() {
		own, next := strings.ToLower(strings.SplitN(n.Hdr.Name, ".", 2)[0]), strings.ToLower(n.NextDomain)
		if (own < next && own < h && h < next) || (own >= next && (h > own || h < next)) {
			return n
		}
	}
	return nil
}

type section struct {
	rrs  []dns.RR
	seen map[string]bool
}

func (s *section) add(z *SZone, do bool, rrset ...dns.RR) {
	if len(rrset) == 0 || rrset[0] == nil {
		return
	}
	id := rrset[0].Header().Name + "/" + dns.TypeToString[rrset[0].Header().Rrtype]
	if s.seen == nil {
		s.seen = map[string]bool{}
	}
	if s.seen[id] {
		return
	}
	s.seen[id] = true
	for _, r := range rrset {
		s.rrs = append(s.rrs, dns.Copy(r))
	}
	if do && z.Signed {
		if sig := z.Sign(rrset); sig != nil {
			s.rrs = append(s.rrs, sig)
		}
	}
}

// closest returns the closest encloser of name and the next closer name.
func (z *SZone) closest(name string) (ce, nextCloser string) {
	nextCloser = name
	for _, a := range z.Ancestors(name) {
		if z.Exists(a) {
			return a, nextCloser
		}
		nextCloser = a
	}
	return z.Apex, nextCloser
}

// Serve renders the honest, RFC 4035/5155-conformant response of the authority at addr.
func (w *World) Serve(addr string, req *dns.Msg) (*dns.Msg, Info) {
	m := new(dns.Msg)
	m.SetReply(req)
	m.RecursionAvailable = false
	if len(req.Question) != 1 {
		m.Rcode = dns.RcodeFormatError
		return m, Info{Kind: "refused"}
	}
	q := req.Question[0]
	name := strings.ToLower(q.Name)
	do := false
	if opt := req.IsEdns0(); opt != nil {
		do = opt.Do()
		m.SetEdns0(1232, do)
	}
	z := w.zoneFor(addr, name, q.Qtype)
	if z == nil || q.Qclass != dns.ClassINET {
		m.Rcode = dns.RcodeRefused
		return m, Info{Kind: "refused"}
	}
	out := z.Truth(name, q.Qtype)
	info := Info{Zone: z, Out: out, Kind: out.Kind}
	var an, ns, ex section
	soa := func() { ns.add(z, do, z.RRset(z.Apex, dns.TypeSOA)...) }
	denyName := func() (ce string) { // proof that name does not exist, returns the closest encloser
		ce, nc := z.closest(name)
		if !z.Signed || !do {
			return ce
		}
		if z.NSEC3 {
			if n := z.matchNSEC3(ce); n != nil {
				ns.add(z, do, n)
			}
			if n := z.coverNSEC3(nc); n != nil {
				ns.add(z, do, n)
			}
		} else if n := z.coverNSEC(name); n != nil {
			ns.add(z, do, n)
		}
		return ce
	}
	switch out.Kind {
	case "answer":
		m.Authoritative = true
		owner, t := name, q.Qtype
		if out.Wildcard {
			owner = out.Source
			info.Kind = "wildcard"
		}
		if out.CNAME {
			t = dns.TypeCNAME
			info.Kind = "cname"
		}
		rrset := z.RRset(owner, t)
		var sig *dns.RRSIG
		if do && z.Signed {
			sig = z.Sign(rrset)
		}
		for _, r := range rrset {
			c := dns.Copy(r)
			c.Header().Name = name
			an.rrs = append(an.rrs, c)
		}
		if sig != nil {
			sig.Hdr.Name = name
			an.rrs = append(an.rrs, sig)
		}
		if out.Wildcard {
			denyName()
		}
		if q.Qtype == dns.TypeDNSKEY {
			info.Kind = "dnskey"
		}
		if q.Qtype == dns.TypeDS {
			info.Kind = "ds"
		}
	case "dname":
		m.Authoritative = true
		an.add(z, do, z.RRset(out.Cut, dns.TypeDNAME)...)
		tgt := z.Targets[out.Cut]
		pre := strings.TrimSuffix(name, out.Cut)
		syn := pre + tgt
		if tgt == "." {
			syn = pre
		}
		if _, ok := dns.IsDomainName(syn); ok && len(syn) <= 253 {
			an.rrs = append(an.rrs, &dns.CNAME{Hdr: dns.RR_Header{Name: name, Rrtype: dns.TypeCNAME, Class: dns.ClassINET, Ttl: z.TTLOf(out.Cut, dns.TypeDNAME)}, Target: syn})
		} else {
			m.Rcode = dns.RcodeYXDomain
		}
	case "nodata":
		m.Authoritative = true
		soa()
		if z.Signed && do {
			switch {
			case out.Wildcard:
				ce := denyName()
				if z.NSEC3 {
					ns.add(z, do, z.matchNSEC3("*."+ce))
				} else {
					ns.add(z, do, z.matchNSEC(out.Source))
				}
			case z.NSEC3:
				if n := z.matchNSEC3(name); n != nil {
					ns.add(z, do, n)
				} else { // opt-out: an insecure delegation or an ENT above one has no record of its own
					denyName()
				}
			case out.ENT:
				ns.add(z, do, z.coverNSEC(name))
			default:
				ns.add(z, do, z.matchNSEC(name))
			}
		}
	case "nxdomain":
		m.Authoritative = true
		m.Rcode = dns.RcodeNameError
		soa()
		ce := denyName()
		if z.Signed && do {
			wc := "*." + ce
			if ce == "." {
				wc = "*."
			}
			if z.NSEC3 {
				ns.add(z, do, z.coverNSEC3(wc))
			} else {
				ns.add(z, do, z.coverNSEC(wc))
			}
		}
	case "referral":
		cut := out.Cut
		for _, r := range z.RRset(cut, dns.TypeNS) {
			ns.rrs = append(ns.rrs, dns.Copy(r))
		}
		if out.SecureCut {
			ns.add(z, do, z.RRset(cut, dns.TypeDS)...)
		} else if z.Signed && do {
			if z.NSEC3 {
				if n := z.matchNSEC3(cut); n != nil {
					ns.add(z, do, n)
				} else {
					ce, nc := z.closest(cut)
					ns.add(z, do, z.matchNSEC3(ce))
					ns.add(z, do, z.coverNSEC3(nc))
				}
			} else {
				ns.add(z, do, z.matchNSEC(cut))
			}
		}
		ex.rrs = append(ex.rrs, z.GlueFor(cut)...)
	default:
		m.Rcode = dns.RcodeRefused
		info.Kind = "refused"
	}
	m.Answer, m.Ns = an.rrs, ns.rrs
	m.Extra = append(ex.rrs, m.Extra...)
	return m, info
}
