package wire

// C15 — the pooled packer is byte-identical to the library and side-effect free.
// Differential against dns.Msg.Pack on an aliasing-preserving twin of the message,
// immutability witness, buffer exposure, pool-state carry-over across sequences and
// concurrent packs. Overlaid by /verif/run.py.

import (
	"bytes"
	"encoding/json"
	"fmt"
	"reflect"
	"runtime"
	"strings"
	"sync"
	"testing"

	"github.com/miekg/dns"
	"github.com/semihalev/sdns/internal/vfgen"
	"github.com/semihalev/sdns/internal/vfstat"
	"pgregory.net/rapid"
)

// vfC15LibPack runs the library's Pack on its own twin; a panic is "the library
// cannot answer" (TryPack must then decline).
func vfC15LibPack(m *dns.Msg) (b []byte, err error, panicked bool) {
	defer func() {
		if r := recover(); r != nil {
			b, err, panicked = nil, fmt.Errorf("panic: %v", r), true
		}
	}()
	b, err = m.Pack()
	return b, err, false
}

func vfC15DeepEqual(a, b *dns.Msg) bool {
	return reflect.DeepEqual(a, b)
}

type vfC15Result struct {
	handled bool
	size    int
	classes []string
}

// vfC15CheckOne applies the oracle to one recipe. Returns a violation text or "".
func vfC15CheckOne(r *vfgen.MsgRecipe) (vfC15Result, string) {
	var res vfC15Result
	subject := r.Build() // handed to TryPack
	witness := r.Build() // pristine, for the immutability comparison
	refMsg := r.Build()  // the library may mutate this one (extended rcode into the OPT)
	want, wantErr, libPanic := vfC15LibPack(refMsg)

	var got []byte
	var capGot int
	called := 0
	var handled bool
	var err error
	var perr any
	func() {
		defer func() { perr = recover() }()
		handled, err = TryPack(subject, func(body []byte) error {
			called++
			got = append([]byte(nil), body...)
			capGot = cap(body)
			return nil
		})
	}()
	if perr != nil {
		return res, fmt.Sprintf("TryPack panicked: %v", perr)
	}
	res.handled = handled
	if handled {
		res.size = len(got)
		if called != 1 {
			return res, fmt.Sprintf("handled=true but consumer called %d times", called)
		}
		if err != nil {
			return res, fmt.Sprintf("handled=true with a non-consumer error: %v", err)
		}
		if libPanic || wantErr != nil {
			return res, fmt.Sprintf("TryPack handled a message the library refuses (%v)", wantErr)
		}
		if !bytes.Equal(got, want) {
			return res, fmt.Sprintf("bytes differ from the library's Pack:\n got  %x\n want %x", got, want)
		}
		if capGot != len(got) {
			return res, fmt.Sprintf("consumer slice exposes pool memory: len=%d cap=%d", len(got), capGot)
		}
	} else {
		if called != 0 {
			return res, "handled=false but the consumer was called (output produced before declining)"
		}
		if err != nil {
			return res, fmt.Sprintf("handled=false with error %v", err)
		}
	}
	if !vfC15DeepEqual(subject, witness) {
		return res, "TryPack modified the message (deep comparison with a pristine twin differs)"
	}

	// PackClone: equal to the library for everything the library packs, same error-ness otherwise.
	subject2 := r.Build()
	var clone []byte
	var cerr error
	func() {
		defer func() { perr = recover() }()
		clone, cerr = PackClone(subject2)
	}()
	if perr != nil {
		if !libPanic {
			return res, fmt.Sprintf("PackClone panicked where the library does not: %v", perr)
		}
	} else {
		if (cerr != nil) != (wantErr != nil) && !libPanic {
			return res, fmt.Sprintf("PackClone error=%v, library error=%v", cerr, wantErr)
		}
		if cerr == nil && wantErr == nil && !bytes.Equal(clone, want) {
			return res, fmt.Sprintf("PackClone bytes differ from the library:\n got  %x\n want %x", clone, want)
		}
		if cerr == nil && cap(clone) != len(clone) {
			return res, fmt.Sprintf("PackClone result not exact-size: len=%d cap=%d", len(clone), cap(clone))
		}
		if handled && !vfC15DeepEqual(subject2, witness) {
			return res, "PackClone modified a message the pooled packer handles"
		}
	}
	return res, ""
}

func vfC15Classes(r *vfgen.MsgRecipe, res vfC15Result) []string {
	var cl []string
	if res.handled {
		cl = append(cl, "handled")
		if res.size >= 4096-64 {
			cl = append(cl, "near-4096")
		}
	} else {
		cl = append(cl, "declined")
	}
	seen := map[string]bool{}
	for _, d := range r.Desc {
		if !seen[d] {
			seen[d] = true
			cl = append(cl, d)
		}
	}
	if r.Compress {
		cl = append(cl, "compress")
	}
	if r.Rcode > 15 {
		cl = append(cl, "ext-rcode")
	}
	if len(r.Questions) != 1 {
		cl = append(cl, fmt.Sprintf("q%d", len(r.Questions)))
	}
	return cl
}

func vfC15Render(r *vfgen.MsgRecipe) any {
	b, _ := json.Marshal(r)
	if len(b) > 1500 {
		b = append(b[:1500], []byte("…")...)
	}
	return string(b)
}

func TestVerifC15Pack(t *testing.T) {
	defer vfstat.Flush()
	vfstat.Quiet()
	const U = "C15.pack"
	rapid.Check(t, func(rt *rapid.T) {
		r := vfgen.GenMsgRecipe(rt, true)
		res, v := vfC15CheckOne(r)
		if v != "" {
			rt.Fatalf("%s\nrecipe: %v", v, vfC15Render(r))
		}
		vfstat.Eval(U, 1)
		cl := vfC15Classes(r, res)
		for _, c := range cl {
			vfstat.Class(U, c)
		}
		nontrivial := false
		if res.handled && (len(r.Table) >= 2 && r.Compress || seenIn(cl, "opt") || seenIn(cl, "near-4096")) {
			nontrivial = true
		}
		if !res.handled && res.size == 0 && (seenIn(cl, "nil") || seenIn(cl, "typednil") || seenIn(cl, "foreign") || seenIn(cl, "fakeopt") || seenIn(cl, "private") || seenIn(cl, "rawname") || r.Rcode > 15 || r.Rcode < 0) {
			nontrivial = true
		}
		if nontrivial {
			vfstat.NonTrivial(U, strings.Join(cl, ",")+fmt.Sprint("|", res.size/256, len(r.Table)))
			vfstat.Sample(U, strings.Join(cl, ","), map[string]any{"classes": cl, "handled": res.handled, "size": res.size, "recipe": vfC15Render(r)})
		}
	})
}

func seenIn(cl []string, s string) bool {
	for _, c := range cl {
		if c == s {
			return true
		}
	}
	return false
}

// TestVerifC15Sequence: several messages packed back to back on one goroutine reuse
// the same pooled state; every one of them must still equal the library's bytes
// (stale dictionary entries, OPT copies or record shims would show here), and a
// PackClone result must be independent of later packs.
func TestVerifC15Sequence(t *testing.T) {
	defer vfstat.Flush()
	vfstat.Quiet()
	const U = "C15.sequence"
	rapid.Check(t, func(rt *rapid.T) {
		n := rapid.IntRange(2, 6).Draw(rt, "nmsgs")
		var recipes []*vfgen.MsgRecipe
		for i := 0; i < n; i++ {
			r := vfgen.GenMsgRecipe(rt, rapid.IntRange(0, 3).Draw(rt, "hostile") == 0)
			if rapid.IntRange(0, 1).Draw(rt, "forcecompress") == 0 {
				r.Compress = true
			}
			recipes = append(recipes, r)
		}
		runtime.LockOSThread()
		defer runtime.UnlockOSThread()
		var firstClone, firstWant []byte
		handledN, nameHeavy := 0, 0
		for i, r := range recipes {
			res, v := vfC15CheckOne(r)
			if v != "" {
				rt.Fatalf("message %d of %d in sequence: %s\nrecipe: %v", i+1, n, v, vfC15Render(r))
			}
			if res.handled {
				handledN++
			}
			if seenIn(r.Desc, "name-heavy") {
				nameHeavy++
			}
			if i == 0 {
				m := r.Build()
				ref := r.Build()
				if w, err, p := vfC15LibPack(ref); err == nil && !p {
					if c, cerr := PackClone(m); cerr == nil {
						firstClone, firstWant = c, w
					}
				}
			}
		}
		if firstClone != nil && !bytes.Equal(firstClone, firstWant) {
			rt.Fatalf("a PackClone result changed after later packs")
		}
		vfstat.Eval(U, 1)
		if handledN >= 2 {
			vfstat.Class(U, "multi-handled")
			if nameHeavy > 0 {
				vfstat.Class(U, "name-heavy-in-sequence")
			}
			var shape []string
			for _, r := range recipes {
				shape = append(shape, fmt.Sprint(len(r.Table), r.Compress, r.Rcode, len(r.Desc)))
			}
			vfstat.NonTrivial(U, strings.Join(shape, ";"))
			vfstat.Sample(U, fmt.Sprint(nameHeavy > 0), map[string]any{"messages": n, "handled": handledN, "name_heavy": nameHeavy, "first": vfC15Render(recipes[0])})
		}
	})
}

// TestVerifC15Dictionary sweeps the number of distinct names through the pooled
// dictionary's retention bound (deterministic, bounded exhaustive over 0..130 names
// × follow-up message): the message after a name-heavy one must pack as the library does.
func TestVerifC15Dictionary(t *testing.T) {
	defer vfstat.Flush()
	vfstat.Quiet()
	const U = "C15.dictionary"
	runtime.LockOSThread()
	defer runtime.UnlockOSThread()
	build := func(n int, suffix string) *dns.Msg {
		m := new(dns.Msg)
		m.SetQuestion("www."+suffix, dns.TypeA)
		m.Id = 4660
		m.Response, m.Compress = true, true
		for i := 0; i < n; i++ {
			rr, _ := dns.NewRR(fmt.Sprintf("o%d.%s 60 IN A 192.0.2.%d", i, suffix, i%250))
			m.Answer = append(m.Answer, rr)
		}
		return m
	}
	for n := 0; n <= 130; n++ {
		for _, follow := range []int{0, 1, 3} {
			for rep := 0; rep < 3; rep++ {
				first := build(n, "example.org.")
				want1, _ := build(n, "example.org.").Pack()
				got1, err := PackClone(first)
				if err != nil || !bytes.Equal(got1, want1) {
					t.Fatalf("VERIF-VIOLATION %d names: PackClone differs from the library (err=%v)", n, err)
				}
				second := build(follow, "example.org.")
				want2, _ := build(follow, "example.org.").Pack()
				var got2 []byte
				handled, err := TryPack(second, func(b []byte) error { got2 = append([]byte(nil), b...); return nil })
				if err != nil {
					t.Fatalf("VERIF-VIOLATION follow-up pack error: %v", err)
				}
				if handled && !bytes.Equal(got2, want2) {
					t.Fatalf("VERIF-VIOLATION after a %d-name message the next message (%d records) packs differently from the library:\n got  %x\n want %x", n, follow, got2, want2)
				}
				vfstat.Eval(U, 1)
			}
			vfstat.NonTrivial(U, fmt.Sprint(n, follow))
		}
	}
	vfstat.Sample(U, "sweep", map[string]any{"names_swept": "0..130", "follow_up_records": []int{0, 1, 3}, "exhaustive_over_sweep": true})
}

// TestVerifC15Concurrent: goroutines pack different messages at the same time; each
// consumer keeps reading its borrowed slice while others pack, and must still see
// exactly its own bytes. Some messages fail inside the encoder (after pooled state
// was borrowed) so the release paths are exercised.
func TestVerifC15Concurrent(t *testing.T) {
	defer vfstat.Flush()
	vfstat.Quiet()
	const U = "C15.concurrent"
	rapid.Check(t, func(rt *rapid.T) {
		nm := rapid.IntRange(3, 8).Draw(rt, "nmsgs")
		type item struct {
			r    *vfgen.MsgRecipe
			want []byte
			ok   bool
		}
		var items []item
		midfail := 0
		for i := 0; i < nm; i++ {
			r := vfgen.GenMsgRecipe(rt, true)
			w, err, p := vfC15LibPack(r.Build())
			items = append(items, item{r, w, err == nil && !p})
			if seenIn(r.Desc, "rawname") {
				midfail++
			}
		}
		workers := rapid.IntRange(2, 8).Draw(rt, "workers")
		rounds := rapid.SampledFrom([]int{20, 60, 150}).Draw(rt, "rounds")
		var wg sync.WaitGroup
		var mu sync.Mutex
		var failure string
		fail := func(s string) {
			mu.Lock()
			if failure == "" {
				failure = s
			}
			mu.Unlock()
		}
		for w := 0; w < workers; w++ {
			wg.Add(1)
			go func(w int) {
				defer wg.Done()
				defer func() {
					if r := recover(); r != nil {
						fail(fmt.Sprintf("panic in concurrent pack: %v", r))
					}
				}()
				for i := 0; i < rounds; i++ {
					it := items[(w+i)%len(items)]
					m := it.r.Build()
					handled, err := TryPack(m, func(body []byte) error {
						snap := append([]byte(nil), body...)
						for y := 0; y < 1+(w+i)%4; y++ {
							runtime.Gosched()
						}
						if !bytes.Equal(body, snap) {
							return fmt.Errorf("borrowed buffer changed while the consumer was reading it")
						}
						if !it.ok || !bytes.Equal(snap, it.want) {
							return fmt.Errorf("concurrent pack produced foreign bytes (library ok=%v)", it.ok)
						}
						return nil
					})
					if err != nil {
						fail(fmt.Sprintf("worker %d round %d handled=%v: %v", w, i, handled, err))
						return
					}
					if (w+i)%3 == 0 && it.ok {
						c, cerr := PackClone(it.r.Build())
						if cerr != nil || !bytes.Equal(c, it.want) {
							fail(fmt.Sprintf("worker %d round %d PackClone differs (err=%v)", w, i, cerr))
							return
						}
					}
				}
			}(w)
		}
		wg.Wait()
		if failure != "" {
			rt.Fatalf("%s", failure)
		}
		vfstat.Eval(U, 1)
		if midfail > 0 {
			vfstat.Class(U, "mid-pack-failure-present")
		}
		vfstat.NonTrivial(U, fmt.Sprint(nm, workers, rounds, midfail))
		vfstat.Sample(U, fmt.Sprint(midfail > 0), map[string]any{"messages": nm, "workers": workers, "rounds": rounds, "mid_pack_failures": midfail})
	})
}

// FuzzVerifC15Pack: bytes -> Unpack -> both Compress values -> same oracle (thorough tier).
func FuzzVerifC15Pack(f *testing.F) {
	for _, s := range []string{"www.example.org. 60 IN A 192.0.2.1", "example.org. 60 IN MX 10 mail.example.org.", "example.org. 60 IN TXT \"x\""} {
		m := new(dns.Msg)
		m.SetQuestion("www.example.org.", dns.TypeA)
		rr, _ := dns.NewRR(s)
		m.Answer = []dns.RR{rr}
		m.SetEdns0(1232, true)
		b, _ := m.Pack()
		f.Add(b, true, 0)
		f.Add(b, false, 3841)
	}
	f.Fuzz(func(t *testing.T, wire []byte, compress bool, rcode int) {
		m := new(dns.Msg)
		if err := m.Unpack(wire); err != nil {
			return
		}
		m.Compress = compress
		if rcode != 0 {
			m.Rcode = rcode % 5000
		}
		twin := m.Copy()
		witness := m.Copy()
		if !reflect.DeepEqual(m, witness) {
			// the library's Copy does not always reproduce nil-vs-empty slices; judge side effects on a copy that is
			// DeepEqual to its own copy
			m = m.Copy()
			witness = m.Copy()
			if !reflect.DeepEqual(m, witness) {
				return
			}
		}
		want, wantErr, libPanic := vfC15LibPack(twin)
		var got []byte
		handled, err := TryPack(m, func(b []byte) error {
			got = append([]byte(nil), b...)
			if cap(b) != len(b) {
				t.Fatalf("VERIF-VIOLATION cap != len")
			}
			return nil
		})
		if handled {
			if err != nil || libPanic || wantErr != nil || !bytes.Equal(got, want) {
				t.Fatalf("VERIF-VIOLATION handled but differs from library: err=%v libErr=%v\n got  %x\n want %x", err, wantErr, got, want)
			}
		}
		if !reflect.DeepEqual(m, witness) {
			t.Fatalf("VERIF-VIOLATION TryPack modified the message")
		}
	})
}
