package ipset

// C17 (membership half): ipset.Set.Contains / ContainsIP versus the naive
// "exists a parsed prefix p with p.Contains(addr.Unmap())" scan.

import (
	"fmt"
	"net"
	"net/netip"
	"strings"
	"testing"

	"github.com/semihalev/sdns/internal/vfgen"
	"github.com/semihalev/sdns/internal/vfstat"
	"pgregory.net/rapid"
)

func TestVerifC17IPSet(t *testing.T) {
	defer vfstat.Flush()
	vfstat.Quiet()
	const U = "C17.ipset"
	rapid.Check(t, func(rt *rapid.T) {
		cidrs, parsed := vfgen.GenCIDRList(rt, 24)
		set, bad := New(cidrs)
		if len(bad) != len(cidrs)-len(parsed) {
			rt.Fatalf("list=%q: %d bad entries reported, reference rejects %d", cidrs, len(bad), len(cidrs)-len(parsed))
		}
		if set.Len() != len(parsed) {
			rt.Fatalf("list=%q: Len=%d, reference parsed %d", cidrs, set.Len(), len(parsed))
		}
		type probe struct {
			a        netip.Addr
			boundary bool
		}
		var probes []probe
		for _, p := range parsed {
			m := p.Masked()
			lo, hi := m.Addr(), vfgen.LastAddr(m)
			for _, a := range []netip.Addr{lo, lo.Prev(), lo.Next(), hi, hi.Next(), hi.Prev()} {
				if a.IsValid() {
					probes = append(probes, probe{a, true})
				}
			}
		}
		for i := 0; i < 4; i++ {
			probes = append(probes, probe{vfgen.GenAddr().Draw(rt, "probe"), false})
		}
		for _, pr := range probes {
			forms := []netip.Addr{pr.a}
			if pr.a.Is4() {
				forms = append(forms, netip.AddrFrom16(pr.a.As16()))
			}
			for _, form := range forms {
				want, nmatch := vfgen.RefContains(parsed, form)
				if got := set.Contains(form); got != want {
					rt.Fatalf("list=%q addr=%v Contains=%v want %v", cidrs, form, got, want)
				}
				ip := net.IP(form.AsSlice())
				if got := set.ContainsIP(ip); got != want {
					rt.Fatalf("list=%q ip=%v ContainsIP=%v want %v", cidrs, ip, got, want)
				}
				vfstat.Eval(U, 1)
				if pr.boundary || nmatch >= 2 {
					cls := "boundary"
					if nmatch >= 2 {
						cls = "overlap"
						vfstat.Class(U, "overlap>=2")
					}
					if pr.boundary {
						vfstat.Class(U, "boundary±1")
					}
					if form.Is4In6() {
						vfstat.Class(U, "v4-mapped")
					}
					key := fmt.Sprintf("%s|%v|%d|%v|n%d|bad%d", cls, want, form.BitLen(), form.Is4In6(), len(parsed), len(bad)) + "|" + vfC17BitsShape(parsed)
					vfstat.NonTrivial(U, key)
					vfstat.Sample(U, cls+fmt.Sprint(want), map[string]any{"list": cidrs, "addr": form.String(), "contains": want, "matching_prefixes": nmatch})
				}
			}
		}
		if set.Contains(netip.Addr{}) || set.ContainsIP(nil) || set.ContainsIP(net.IP{1, 2, 3}) {
			rt.Fatalf("invalid address reported as contained")
		}
		if len(bad) > 0 {
			vfstat.Class(U, "malformed-entry")
		}
	})
}

func vfC17BitsShape(parsed []netip.Prefix) string {
	var sb strings.Builder
	for i, p := range parsed {
		if i >= 8 {
			break
		}
		fmt.Fprintf(&sb, "%d.%d,", p.Addr().BitLen(), p.Bits())
	}
	return sb.String()
}
