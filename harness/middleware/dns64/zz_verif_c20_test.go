package dns64

// C20 — DNS64 synthesises only RFC 6052 addresses, only when allowed, never with AD.
// Reference embed/extract written from the RFC 6052 §2.2 bit layout; decision
// oracle computed from the generated client query, upstream AAAA reply and A reply.
// Overlaid by /verif/run.py.

import (
	"context"
	"errors"
	"fmt"
	"net"
	"sort"
	"strings"
	"testing"

	"github.com/miekg/dns"
	"github.com/semihalev/sdns/config"
	"github.com/semihalev/sdns/internal/vfgen"
	"github.com/semihalev/sdns/internal/vfstat"
	"github.com/semihalev/sdns/middleware"
	"pgregory.net/rapid"
)

// ---- RFC 6052 §2.2 reference: the 32 address bits follow the prefix, skipping bits 64..71 ----

func vfC20RefEmbed(prefix [16]byte, pl int, v4 [4]byte) [16]byte {
	var out [16]byte
	for bit := 0; bit < pl; bit++ {
		if prefix[bit/8]&(0x80>>(bit%8)) != 0 {
			out[bit/8] |= 0x80 >> (bit % 8)
		}
	}
	pos := pl
	for i := 0; i < 32; i++ {
		for pos >= 64 && pos <= 71 {
			pos++
		}
		if v4[i/8]&(0x80>>(i%8)) != 0 {
			out[pos/8] |= 0x80 >> (pos % 8)
		}
		pos++
	}
	out[8] = 0
	return out
}

// vfC20RefExtract is the inverse; ok=false when the address is not under the prefix, the
// reserved octet or the suffix is non-zero.
func vfC20RefExtract(prefix [16]byte, pl int, addr [16]byte) (v4 [4]byte, ok bool) {
	for bit := 0; bit < pl; bit++ {
		m := byte(0x80 >> (bit % 8))
		if prefix[bit/8]&m != addr[bit/8]&m {
			return v4, false
		}
	}
	used := map[int]bool{}
	pos := pl
	for i := 0; i < 32; i++ {
		for pos >= 64 && pos <= 71 {
			pos++
		}
		used[pos] = true
		if addr[pos/8]&(0x80>>(pos%8)) != 0 {
			v4[i/8] |= 0x80 >> (i % 8)
		}
		pos++
	}
	for bit := pl; bit < 128; bit++ {
		if used[bit] {
			continue
		}
		if addr[bit/8]&(0x80>>(bit%8)) != 0 {
			return v4, false // reserved octet or suffix not zero
		}
	}
	return v4, true
}

var vfC20Legal = []int{32, 40, 48, 56, 64, 96}

func vfC20V4() *rapid.Generator[[4]byte] {
	edges := [][4]byte{{0, 0, 0, 0}, {255, 255, 255, 255}, {9, 255, 255, 255}, {10, 0, 0, 0}, {10, 255, 255, 255}, {11, 0, 0, 0}, {127, 0, 0, 1}, {169, 254, 0, 1}, {172, 15, 255, 255}, {172, 16, 0, 0}, {172, 31, 255, 255}, {172, 32, 0, 0},
		{192, 0, 2, 1}, {192, 0, 3, 0}, {192, 88, 99, 1}, {192, 168, 0, 1}, {192, 169, 0, 0}, {198, 17, 255, 255}, {198, 18, 0, 0}, {198, 20, 0, 0}, {198, 51, 100, 7}, {203, 0, 113, 9}, {203, 0, 114, 0}, {223, 255, 255, 255}, {224, 0, 0, 0}, {240, 0, 0, 1}, {100, 64, 0, 0}, {100, 63, 255, 255}, {100, 128, 0, 0},
		{8, 8, 8, 8}, {1, 2, 3, 4}, {93, 184, 216, 34}, {128, 1, 128, 255}}
	return rapid.Custom(func(t *rapid.T) [4]byte {
		if rapid.Bool().Draw(t, "edge") {
			return rapid.SampledFrom(edges).Draw(t, "v4edge")
		}
		var b [4]byte
		for i := range b {
			b[i] = rapid.Byte().Draw(t, "v4b")
		}
		return b
	})
}

func vfC20Prefix(t *rapid.T) (ip [16]byte, pl int) {
	pl = rapid.SampledFrom([]int{32, 40, 48, 56, 64, 96, 96, 33, 0, 128, 24, 72, 95, 97}).Draw(t, "pl")
	switch rapid.IntRange(0, 5).Draw(t, "pkind") {
	case 0: // the well-known prefix
		copy(ip[:], net.ParseIP("64:ff9b::"))
		pl = 96
	case 1:
		copy(ip[:], net.ParseIP("2001:db8::"))
	default:
		for i := range ip {
			ip[i] = rapid.Byte().Draw(t, "pb")
		}
		ip[0] = 0x20 | ip[0]&0x0f
	}
	return ip, pl
}

func vfC20Masked(ip [16]byte, pl int) [16]byte {
	var out [16]byte
	for bit := 0; bit < pl && bit < 128; bit++ {
		m := byte(0x80 >> (bit % 8))
		out[bit/8] |= ip[bit/8] & m
	}
	return out
}

func TestVerifC20Embed(t *testing.T) {
	defer vfstat.Flush()
	vfstat.Quiet()
	const U = "C20.embed"
	rapid.Check(t, func(rt *rapid.T) {
		ip, pl := vfC20Prefix(rt)
		masked := vfC20Masked(ip, pl)
		ipnet := &net.IPNet{IP: append(net.IP(nil), masked[:]...), Mask: net.CIDRMask(pl, 128)}
		legal := false
		for _, l := range vfC20Legal {
			legal = legal || l == pl
		}
		wantValid := legal && !(pl == 96 && masked[8] != 0)
		if got := validatePrefix(ipnet) == nil; got != wantValid {
			rt.Fatalf("validatePrefix(%s) = %v, RFC 6052 says %v", ipnet, got, wantValid)
		}
		// IPv4 "prefixes" are never legal
		if validatePrefix(&net.IPNet{IP: net.IPv4(10, 0, 0, 0).To4(), Mask: net.CIDRMask(8, 32)}) == nil {
			rt.Fatalf("validatePrefix accepted an IPv4 prefix")
		}
		vfstat.Eval(U, 1)
		if !wantValid {
			vfstat.Class(U, "illegal-prefix")
			return
		}
		v4 := vfC20V4().Draw(rt, "v4")
		got := embedIPv4(ipnet, net.IP(v4[:]))
		want := vfC20RefEmbed(masked, pl, v4)
		if !got.Equal(net.IP(want[:])) || len(got) != 16 {
			rt.Fatalf("embedIPv4(%s, %v) = %v, RFC 6052 layout gives %v", ipnet, net.IP(v4[:]), got, net.IP(want[:]))
		}
		back, ok := extractIPv4(ipnet, got)
		if !ok || !back.Equal(net.IP(v4[:])) {
			rt.Fatalf("extractIPv4(%s, %v) = %v,%v; want %v", ipnet, got, back, ok, net.IP(v4[:]))
		}
		// perturb one bit outside the prefix: extract must agree with the reference (reserved octet / suffix)
		bit := rapid.IntRange(pl, 127).Draw(rt, "flipbit")
		var addr [16]byte
		copy(addr[:], got)
		addr[bit/8] ^= 0x80 >> (bit % 8)
		rv4, rok := vfC20RefExtract(masked, pl, addr)
		gv4, gok := extractIPv4(ipnet, net.IP(addr[:]))
		if gok != rok || (gok && !gv4.Equal(net.IP(rv4[:]))) {
			rt.Fatalf("extractIPv4(%s, %v) = %v,%v; reference %v,%v", ipnet, net.IP(addr[:]), gv4, gok, net.IP(rv4[:]), rok)
		}
		// PTR name parse round trip
		name := vfC20Arpa(addr, rapid.Bool().Draw(rt, "upper"))
		parsed, pok := parseIP6ArpaName(name)
		if !pok || !parsed.Equal(net.IP(addr[:])) {
			rt.Fatalf("parseIP6ArpaName(%s) = %v,%v want %v", name, parsed, pok, net.IP(addr[:]))
		}
		vfstat.Class(U, fmt.Sprintf("/%d", pl))
		vfstat.NonTrivial(U, fmt.Sprintf("%d|%v|%d|%v", pl, v4, bit, rok))
		vfstat.Sample(U, fmt.Sprint(pl), map[string]any{"prefix": ipnet.String(), "v4": net.IP(v4[:]).String(), "embedded": got.String(), "flipped_bit": bit, "extract_after_flip_ok": gok})
	})
}

func vfC20Arpa(addr [16]byte, upper bool) string {
	var sb strings.Builder
	const hexd = "0123456789abcdef"
	for i := 15; i >= 0; i-- {
		sb.WriteByte(hexd[addr[i]&0xf])
		sb.WriteByte('.')
		sb.WriteByte(hexd[addr[i]>>4])
		sb.WriteByte('.')
	}
	sb.WriteString("ip6.arpa.")
	s := sb.String()
	if upper {
		s = strings.ToUpper(s)
	}
	return s
}

// ---- decision oracle through the middleware ------------------------------------------------

type vfC20Queryer struct {
	resp  *dns.Msg
	err   error
	calls []dns.Question
	flags []bool // RD of each sub-query
}

func (q *vfC20Queryer) Query(ctx context.Context, req *dns.Msg) (*dns.Msg, error) {
	q.calls = append(q.calls, req.Question[0])
	q.flags = append(q.flags, req.RecursionDesired)
	if q.err != nil {
		return nil, q.err
	}
	if q.resp == nil {
		return nil, nil
	}
	r := q.resp.Copy()
	r.SetReply(req)
	r.Rcode = q.resp.Rcode
	r.Answer, r.Ns, r.Extra = q.resp.Answer, q.resp.Ns, q.resp.Extra
	r.AuthenticatedData = q.resp.AuthenticatedData
	return r, nil
}

type vfC20Up struct {
	resp        *dns.Msg
	calls       int
	markCached  bool
	markLocal   error
	written     *dns.Msg
	releaseMark func()
}

func (u *vfC20Up) Name() string { return "vfup" }
func (u *vfC20Up) ServeDNS(ctx context.Context, ch *middleware.Chain) {
	u.calls++
	_, req := ch.Materialize(ctx)
	if req == nil {
		return
	}
	r := u.resp.Copy()
	r.Id = req.Id
	r.Question = req.Question
	u.written = r
	if u.markCached {
		if meta := middleware.ResponseMetaFrom(ctx); meta != nil {
			u.releaseMark = meta.MarkCachedFailureResponse(r)
		}
	}
	if u.markLocal != nil {
		middleware.MarkRequestLocalFailureResponse(ctx, r, u.markLocal)
	}
	_ = ch.Writer.WriteMsg(r)
	if u.releaseMark != nil {
		u.releaseMark()
	}
	ch.Cancel()
}

var vfC20DNSSECEDE = map[uint16]bool{1: true, 2: true, 27: true, 5: true, 6: true, 7: true, 8: true, 9: true, 10: true, 11: true, 12: true}

type vfC20Pfx struct {
	ip        [16]byte
	pl        int
	wellKnown bool
}

func vfC20DefaultExcluded(v4 [4]byte) bool {
	for _, c := range []string{"0.0.0.0/8", "10.0.0.0/8", "100.64.0.0/10", "127.0.0.0/8", "169.254.0.0/16", "172.16.0.0/12", "192.0.0.0/24", "192.0.2.0/24", "192.88.99.0/24", "192.168.0.0/16", "198.18.0.0/15", "198.51.100.0/24", "203.0.113.0/24", "224.0.0.0/4", "240.0.0.0/4", "255.255.255.255/32"} {
		_, n, _ := net.ParseCIDR(c)
		if n.Contains(net.IP(v4[:])) {
			return true
		}
	}
	return false
}

func TestVerifC20Decision(t *testing.T) {
	defer vfstat.Flush()
	vfstat.Quiet()
	const U = "C20.decision"
	rapid.Check(t, func(rt *rapid.T) {
		// ---- configuration
		cfg := &config.Config{}
		cfg.DNS64.Enabled = true
		var pfx []vfC20Pfx
		np := rapid.IntRange(1, 3).Draw(rt, "nprefix")
		for i := 0; i < np; i++ {
			ip, pl := vfC20Prefix(rt)
			m := vfC20Masked(ip, pl)
			s := fmt.Sprintf("%s/%d", net.IP(ip[:]).String(), pl)
			cfg.DNS64.Prefixes = append(cfg.DNS64.Prefixes, s)
			legal := false
			for _, l := range vfC20Legal {
				legal = legal || l == pl
			}
			if legal && !(pl == 96 && m[8] != 0) {
				wk := pl == 96 && net.IP(m[:]).Equal(net.ParseIP("64:ff9b::"))
				pfx = append(pfx, vfC20Pfx{m, pl, wk})
			}
		}
		if len(pfx) == 0 { // documented default
			var wk [16]byte
			copy(wk[:], net.ParseIP("64:ff9b::"))
			pfx = []vfC20Pfx{{wk, 96, true}}
		}
		clientNets := rapid.SampledFrom([][]string{nil, {"2001:db8:c::/48"}, {"198.51.100.0/24", "2001:db8:c::/48"}, {"garbage"}, {"::/0"}, {"0.0.0.0/0"}, {"0.0.0.0/0", "2001:db8:c::/48"},
			{"::/0", "198.51.100.0/24"}}).Draw(rt, "clientnets")
		cfg.DNS64.ClientNetworks = clientNets
		exZones := rapid.SampledFrom([][]string{nil, nil, {"excluded.test"}, {"Example.ORG.", "x.y."}, {"."}}).Draw(rt, "exzones")
		cfg.DNS64.ExcludeZones = exZones
		d := New(cfg)
		if d == nil {
			rt.Fatalf("New returned nil for an enabled config")
		}
		// ---- client query
		qname := rapid.SampledFrom([]string{"host.test.", "www.example.org.", "WWW.Example.Org.", "notexample.org.", "a.excluded.test.", "xexcluded.test.", "alias.test."}).Draw(rt, "qname")
		qtype := rapid.SampledFrom([]uint16{dns.TypeAAAA, dns.TypeAAAA, dns.TypeAAAA, dns.TypeAAAA, dns.TypeA, dns.TypeMX}).Draw(rt, "qtype")
		qclass := rapid.SampledFrom([]uint16{dns.ClassINET, dns.ClassINET, dns.ClassINET, dns.ClassINET, dns.ClassCHAOS}).Draw(rt, "qclass")
		rd := rapid.IntRange(0, 5).Draw(rt, "rd") != 0
		cd := rapid.IntRange(0, 5).Draw(rt, "cd") == 0
		req := new(dns.Msg)
		req.SetQuestion(qname, qtype)
		req.Question[0].Qclass = qclass
		req.RecursionDesired, req.CheckingDisabled = rd, cd
		req.AuthenticatedData = rapid.Bool().Draw(rt, "qad")
		if rapid.Bool().Draw(rt, "edns") {
			req.SetEdns0(1232, rapid.Bool().Draw(rt, "do"))
		}
		clientIP := rapid.SampledFrom([]string{"198.51.100.7", "203.0.113.5", "2001:db8:c::5", "2001:db8:d::5"}).Draw(rt, "client")
		internal := rapid.IntRange(0, 9).Draw(rt, "internal") == 0
		// ---- upstream AAAA-side response
		up := new(dns.Msg)
		up.SetReply(req)
		up.RecursionAvailable = true
		up.Rcode = rapid.SampledFrom([]int{0, 0, 0, 0, 0, dns.RcodeNameError, dns.RcodeServerFailure, dns.RcodeServerFailure, dns.RcodeRefused}).Draw(rt, "uprcode")
		up.AuthenticatedData = rapid.Bool().Draw(rt, "upad")
		owner := qname
		if rapid.IntRange(0, 3).Draw(rt, "upcname") == 0 {
			cn, _ := dns.NewRR(qname + " 120 IN CNAME target.test.")
			up.Answer = append(up.Answer, cn)
			owner = "target.test."
		}
		native, excludedAAAA := 0, 0
		if up.Rcode == 0 && qtype == dns.TypeAAAA {
			switch rapid.IntRange(0, 5).Draw(rt, "aaaashape") {
			case 0:
				rr, _ := dns.NewRR(owner + " 300 IN AAAA 2001:db8:1::1")
				up.Answer = append(up.Answer, rr)
				native++
			case 1:
				rr, _ := dns.NewRR(owner + " 300 IN AAAA ::ffff:192.0.2.55")
				up.Answer = append(up.Answer, rr)
				excludedAAAA++
			case 2:
				r1, _ := dns.NewRR(owner + " 300 IN AAAA ::ffff:10.1.1.1")
				r2, _ := dns.NewRR(owner + " 300 IN AAAA 2001:db8:1::2")
				up.Answer = append(up.Answer, r1, r2)
				native++
				excludedAAAA++
			}
		}
		soaTTL, soaMin := uint32(0), uint32(0)
		hasSOA := rapid.IntRange(0, 3).Draw(rt, "soa") != 0
		if hasSOA {
			soaTTL = rapid.SampledFrom([]uint32{0, 5, 45, 300, 3600}).Draw(rt, "soattl")
			soaMin = rapid.SampledFrom([]uint32{0, 30, 300, 86400}).Draw(rt, "soamin")
			soa, _ := dns.NewRR(fmt.Sprintf("test. %d IN SOA ns.test. host.test. 1 2 3 4 %d", soaTTL, soaMin))
			up.Ns = append(up.Ns, soa)
		}
		var edes []uint16
		if up.Rcode == dns.RcodeServerFailure || rapid.IntRange(0, 7).Draw(rt, "edeany") == 0 {
			ne := rapid.IntRange(0, 3).Draw(rt, "nede")
			for i := 0; i < ne; i++ {
				edes = append(edes, rapid.SampledFrom([]uint16{6, 7, 9, 10, 13, 22, 23, 0, 1, 12, 27, 24}).Draw(rt, "ede"))
			}
		}
		if len(edes) > 0 || rapid.Bool().Draw(rt, "upopt") {
			opt := &dns.OPT{Hdr: dns.RR_Header{Name: ".", Rrtype: dns.TypeOPT, Class: 1232}}
			for _, c := range edes {
				opt.Option = append(opt.Option, &dns.EDNS0_EDE{InfoCode: c})
			}
			up.Extra = append(up.Extra, opt)
		}
		markCached := up.Rcode == dns.RcodeServerFailure && rapid.IntRange(0, 5).Draw(rt, "markcached") == 0
		var markLocal error
		if up.Rcode == dns.RcodeServerFailure && rapid.IntRange(0, 5).Draw(rt, "marklocal") == 0 {
			markLocal = rapid.SampledFrom([]error{context.DeadlineExceeded, context.Canceled, middleware.ErrResolutionAttemptLimit, middleware.ErrMaxRecursion}).Draw(rt, "localerr")
		}
		// ---- A-side response
		aq := &vfC20Queryer{}
		type arec struct {
			v4    [4]byte
			ttl   uint32
			owner string
		}
		var arecs []arec
		aShape := rapid.IntRange(0, 9).Draw(rt, "ashape")
		aresp := new(dns.Msg)
		aresp.RecursionAvailable = true
		aresp.AuthenticatedData = rapid.Bool().Draw(rt, "aad")
		aOwner := qname
		switch {
		case aShape == 0:
			aq.err = rapid.SampledFrom([]error{middleware.ErrNoResponse, errors.New("boom")}).Draw(rt, "aerr")
		case aShape == 1:
			aresp.Rcode = rapid.SampledFrom([]int{dns.RcodeNameError, dns.RcodeServerFailure}).Draw(rt, "arcode")
		case aShape == 2: // empty NOERROR
		default:
			if rapid.IntRange(0, 2).Draw(rt, "acname") == 0 {
				cn, _ := dns.NewRR(qname + " 900 IN CNAME v4host.test.")
				aresp.Answer = append(aresp.Answer, cn)
				aOwner = "v4host.test."
			}
			na := rapid.IntRange(1, 3).Draw(rt, "na")
			for i := 0; i < na; i++ {
				r := arec{vfC20V4().Draw(rt, "av4"), rapid.SampledFrom([]uint32{0, 20, 600, 7200}).Draw(rt, "attl"), aOwner}
				arecs = append(arecs, r)
				aresp.Answer = append(aresp.Answer, &dns.A{Hdr: dns.RR_Header{Name: aOwner, Rrtype: dns.TypeA, Class: dns.ClassINET, Ttl: r.ttl}, A: net.IP(r.v4[:])})
			}
		}
		aq.resp = aresp
		d.SetQueryer(aq)

		upstream := &vfC20Up{resp: up, markCached: markCached, markLocal: markLocal}
		ch := middleware.NewChain([]middleware.Handler{d, upstream})
		tr := vfgen.NewTransport("udp", net.ParseIP(clientIP), 5300)
		tr.IsInternal = internal
		ch.Reset(tr, req)
		ctx, _ := middleware.EnsureResolutionAttemptGuard(context.Background())
		ch.Next(ctx)

		if len(tr.Msgs) != 1 {
			rt.Fatalf("client received %d replies", len(tr.Msgs))
		}
		reply := tr.Msgs[0]

		// ---- reference decision
		lname := strings.ToLower(qname)
		zoneEx := false
		for _, z := range exZones {
			z = strings.ToLower(z)
			if !strings.HasSuffix(z, ".") {
				z += "."
			}
			if z == "." || lname == z || strings.HasSuffix(lname, "."+z) {
				zoneEx = true // every name lies in the root zone
			}
		}
		eligible := true
		var nets []*net.IPNet
		for _, c := range clientNets {
			if _, n, err := net.ParseCIDR(c); err == nil {
				nets = append(nets, n)
			}
		}
		if len(nets) > 0 {
			eligible = false
			for _, n := range nets {
				if n.Contains(net.ParseIP(clientIP)) {
					eligible = true
				}
			}
		}
		dnssecFail := false
		cachedEDE := false
		if up.Rcode == dns.RcodeServerFailure {
			for _, c := range edes {
				if vfC20DNSSECEDE[c] {
					dnssecFail = true
				}
				if c == 13 {
					cachedEDE = true
				}
			}
		}
		gates := map[string]bool{
			"aaaa-query": qtype == dns.TypeAAAA, "class-IN": qclass == dns.ClassINET, "RD": rd, "not-CD": !cd, "client-eligible": eligible, "not-internal": !internal,
			"zone-not-excluded": !zoneEx, "not-NXDOMAIN": up.Rcode != dns.RcodeNameError, "not-truncated": !up.Truncated, "no-dnssec-failure": !dnssecFail,
			"not-cached-failure": !(markCached || cachedEDE), "not-request-local": markLocal == nil, "no-native-AAAA": !(up.Rcode == 0 && native > 0),
		}
		var failed []string
		for g, ok := range gates {
			if !ok {
				failed = append(failed, g)
			}
		}
		sort.Strings(failed)
		mayTouch := len(failed) == 0
		// which synthesised addresses does RFC 6052 + §5.1.4 allow?
		want := map[string]uint32{} // "owner|addr" -> max ttl
		if mayTouch {
			maxTTL := uint32(1<<32 - 1)
			for _, r := range arecs {
				if r.ttl < maxTTL {
					maxTTL = r.ttl
				}
			}
			if hasSOA {
				// RFC 2308 §5: the negative TTL is the smaller of the SOA's TTL and its MINIMUM - zero included
				neg := soaTTL
				if soaMin < neg {
					neg = soaMin
				}
				if neg < maxTTL {
					maxTTL = neg
				}
			}
			for _, p := range pfx {
				for _, r := range arecs {
					if p.wellKnown && vfC20DefaultExcluded(r.v4) {
						continue
					}
					e := vfC20RefEmbed(p.ip, p.pl, r.v4)
					want[strings.ToLower(r.owner)+"|"+net.IP(e[:]).String()] = maxTTL
				}
			}
		}
		// ---- judge the reply
		var gotAAAA []*dns.AAAA
		for _, rr := range reply.Answer {
			if a, ok := rr.(*dns.AAAA); ok {
				gotAAAA = append(gotAAAA, a)
			}
		}
		upstreamAAAA := map[string]bool{}
		for _, rr := range up.Answer {
			if a, ok := rr.(*dns.AAAA); ok {
				upstreamAAAA[a.AAAA.String()] = true
			}
		}
		synthesised := 0
		wantSeen := map[string]bool{}
		for _, a := range gotAAAA {
			if upstreamAAAA[a.AAAA.String()] {
				continue // native record relayed
			}
			synthesised++
			key := strings.ToLower(a.Hdr.Name) + "|" + a.AAAA.String()
			maxTTL, ok := want[key]
			if !mayTouch {
				rt.Fatalf("synthesised %s although gate(s) %v forbid synthesis", a.String(), failed)
			}
			if !ok {
				rt.Fatalf("synthesised %s is not the RFC 6052 embedding of any eligible A record (allowed: %v)", a.String(), want)
			}
			if a.Hdr.Ttl > maxTTL {
				rt.Fatalf("synthesised %s has TTL %d > min(A TTL, AAAA negative TTL) = %d", a.String(), a.Hdr.Ttl, maxTTL)
			}
			wantSeen[key] = true
		}
		if synthesised > 0 {
			if len(wantSeen) != len(want) {
				rt.Fatalf("synthesis omitted eligible embeddings: want %v, saw %v", want, wantSeen)
			}
			if reply.AuthenticatedData {
				rt.Fatalf("synthesised reply carries AD")
			}
			if reply.Rcode != dns.RcodeSuccess {
				rt.Fatalf("synthesised reply has rcode %d", reply.Rcode)
			}
			if len(aq.calls) == 0 || aq.calls[0].Qtype != dns.TypeA || !strings.EqualFold(aq.calls[0].Name, qname) {
				rt.Fatalf("synthesis without an A lookup for the queried name: %v", aq.calls)
			}
		}
		// AAAA-filtered replies never carry AD
		stripped := false
		for s := range upstreamAAAA {
			if strings.HasPrefix(s, "192.0.2.55") || strings.HasPrefix(s, "10.1.1.1") {
				found := false
				for _, a := range gotAAAA {
					if a.AAAA.String() == s {
						found = true
					}
				}
				if !found {
					stripped = true
				}
			}
		}
		filteredAD := stripped && reply.AuthenticatedData
		if filteredAD {
			if vfstat.KnownOpen("C20-filtered-ad-fallback") && synthesised == 0 && native == 0 {
				vfstat.Known(U, "C20-filtered-ad-fallback")
			} else {
				rt.Fatalf("AAAA-filtered reply (excluded AAAA removed) still carries AD: upstream rcode=%d AD=%v answers=%v; A-lookup shape=%d err=%v records=%v; prefixes=%v; reply answers=%v", up.Rcode, up.AuthenticatedData, up.Answer, aShape, aq.err, arecs, cfg.DNS64.Prefixes, reply.Answer)
			}
		}
		// untouched cases: the upstream message passes through as it was
		if !mayTouch {
			if len(aq.calls) != 0 && !(len(failed) == 1 && failed[0] == "no-native-AAAA") {
				rt.Fatalf("A lookup issued although gate(s) %v forbid synthesis", failed)
			}
			onlyNative := len(failed) == 1 && failed[0] == "no-native-AAAA"
			if !onlyNative {
				if reply.Rcode != up.Rcode || len(reply.Answer) != len(up.Answer) || len(reply.Ns) != len(up.Ns) || reply.AuthenticatedData != up.AuthenticatedData {
					rt.Fatalf("reply was altered although gate(s) %v forbid DNS64 from touching it: got %v", failed, reply)
				}
				if reply != upstream.written {
					rt.Fatalf("reply is not the upstream message although gate(s) %v apply", failed)
				}
			}
		}
		vfstat.Eval(U, 1)
		cls := "untouched"
		switch {
		case synthesised > 0:
			cls = "synthesised"
		case stripped:
			cls = "filtered"
		case mayTouch:
			cls = "eligible-no-synthesis"
		}
		vfstat.Class(U, cls)
		if len(failed) == 1 {
			vfstat.Class(U, "single-gate:"+failed[0])
		}
		if synthesised > 0 || len(failed) == 1 || stripped {
			pls := ""
			for _, p := range pfx {
				pls += fmt.Sprint(p.pl, p.wellKnown, ",")
			}
			vfstat.NonTrivial(U, fmt.Sprint(cls, failed, pls, up.Rcode, aShape, len(arecs), hasSOA, edes))
			vfstat.Sample(U, cls+fmt.Sprint(failed), map[string]any{"prefixes": cfg.DNS64.Prefixes, "query": fmt.Sprintf("%s %d rd=%v cd=%v", qname, qtype, rd, cd), "client": clientIP, "upstream_rcode": up.Rcode, "upstream_ede": edes,
				"a_records": fmt.Sprint(arecs), "gates_failed": failed, "class": cls, "reply_answers": len(reply.Answer), "reply_ad": reply.AuthenticatedData})
		}
	})
}

// ---- PTR ---------------------------------------------------------------------------------------

func TestVerifC20PTR(t *testing.T) {
	defer vfstat.Flush()
	vfstat.Quiet()
	const U = "C20.ptr"
	rapid.Check(t, func(rt *rapid.T) {
		cfg := &config.Config{}
		cfg.DNS64.Enabled = true
		var pfx []vfC20Pfx
		np := rapid.IntRange(1, 2).Draw(rt, "nprefix")
		for i := 0; i < np; i++ {
			ip, _ := vfC20Prefix(rt)
			pl := rapid.SampledFrom(vfC20Legal).Draw(rt, "pl")
			m := vfC20Masked(ip, pl)
			if pl == 96 && m[8] != 0 {
				m[8] = 0
			}
			cfg.DNS64.Prefixes = append(cfg.DNS64.Prefixes, fmt.Sprintf("%s/%d", net.IP(m[:]).String(), pl))
			pfx = append(pfx, vfC20Pfx{m, pl, pl == 96 && net.IP(m[:]).Equal(net.ParseIP("64:ff9b::"))})
		}
		d := New(cfg)
		v4 := vfC20V4().Draw(rt, "v4")
		p := pfx[rapid.IntRange(0, len(pfx)-1).Draw(rt, "which")]
		addr := vfC20RefEmbed(p.ip, p.pl, v4)
		mut := rapid.SampledFrom([]string{"none", "none", "none", "flip-suffix", "flip-u", "short", "nonhex", "upper", "foreign"}).Draw(rt, "mut")
		name := vfC20Arpa(addr, false)
		switch mut {
		case "flip-suffix":
			b := rapid.IntRange(p.pl, 127).Draw(rt, "bit")
			addr[b/8] ^= 0x80 >> (b % 8)
			name = vfC20Arpa(addr, false)
		case "flip-u":
			addr[8] ^= 1 << rapid.IntRange(0, 7).Draw(rt, "ubit")
			name = vfC20Arpa(addr, false)
		case "short":
			name = name[4:]
		case "nonhex":
			name = "g" + name[1:]
		case "upper":
			name = vfC20Arpa(addr, true)
		case "foreign":
			addr[0] ^= 0x80
			name = vfC20Arpa(addr, false)
		}
		aq := &vfC20Queryer{resp: new(dns.Msg)}
		ptr, _ := dns.NewRR("1.2.0.192.in-addr.arpa. 60 IN PTR real.host.test.")
		aq.resp.Answer = []dns.RR{ptr}
		d.SetQueryer(aq)
		upMsg := new(dns.Msg)
		upMsg.Rcode = dns.RcodeNameError
		upstream := &vfC20Up{resp: upMsg}
		ch := middleware.NewChain([]middleware.Handler{d, upstream})
		tr := vfgen.NewTransport("udp", net.ParseIP("2001:db8::9"), 5300)
		req := new(dns.Msg)
		req.SetQuestion(name, dns.TypePTR)
		ch.Reset(tr, req)
		ch.Next(context.Background())
		if len(tr.Msgs) != 1 {
			rt.Fatalf("%d replies", len(tr.Msgs))
		}
		reply := tr.Msgs[0]
		// reference: first configured prefix under which the (parsed) address extracts, unless excluded under the WKP
		var wantTarget string
		if mut != "short" && mut != "nonhex" {
			for _, q := range pfx {
				ev4, ok := vfC20RefExtract(q.ip, q.pl, addr)
				if !ok {
					continue
				}
				if q.wellKnown && vfC20DefaultExcluded(ev4) {
					continue
				}
				wantTarget = fmt.Sprintf("%d.%d.%d.%d.in-addr.arpa.", ev4[3], ev4[2], ev4[1], ev4[0])
				break
			}
		}
		gotTarget := ""
		for _, rr := range reply.Answer {
			if c, ok := rr.(*dns.CNAME); ok {
				gotTarget = c.Target
			}
		}
		if gotTarget != wantTarget {
			rt.Fatalf("PTR %s (prefixes %v, mutation %s): CNAME target %q, reference %q", name, cfg.DNS64.Prefixes, mut, gotTarget, wantTarget)
		}
		if wantTarget == "" && (upstream.calls != 1 || reply.Rcode != dns.RcodeNameError) {
			rt.Fatalf("untranslatable PTR %s did not pass through (upstream calls %d rcode %d)", name, upstream.calls, reply.Rcode)
		}
		if reply.AuthenticatedData {
			rt.Fatalf("translated PTR reply carries AD")
		}
		vfstat.Eval(U, 1)
		vfstat.Class(U, mut)
		vfstat.NonTrivial(U, fmt.Sprint(mut, p.pl, wantTarget != "", np))
		vfstat.Sample(U, mut, map[string]any{"prefixes": cfg.DNS64.Prefixes, "ptr_name": name, "mutation": mut, "cname_target": gotTarget})
	})
}
