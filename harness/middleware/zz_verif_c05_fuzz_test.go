package middleware

// C05 (thorough tier) — coverage-guided fuzzing of the wire-born request parser against the decoded form.
// Whatever Request.ParseWire accepts, the library must decode too, and every accessor the chain reads must give
// the same value on the wire-born request as on a request built from the decoded message.

import (
	"bytes"
	"encoding/hex"
	"testing"
	"time"

	"github.com/miekg/dns"
)

func FuzzVerifC05ParseWire(f *testing.F) {
	for _, name := range []string{"www.example.org.", ".", "a\\.b.example.", "xn--caf-dma.example."} {
		for _, edns := range []int{0, 1, 2} {
			m := new(dns.Msg)
			m.SetQuestion(name, dns.TypeA)
			m.Id = 4711
			if edns > 0 {
				m.SetEdns0(1232, edns == 2)
				opt := m.IsEdns0()
				opt.Option = append(opt.Option, &dns.EDNS0_COOKIE{Code: dns.EDNS0COOKIE, Cookie: "0102030405060708a1a2a3a4a5a6a7a8"},
					&dns.EDNS0_NSID{Code: dns.EDNS0NSID}, &dns.EDNS0_TCP_KEEPALIVE{Code: dns.EDNS0TCPKEEPALIVE},
					&dns.EDNS0_SUBNET{Code: dns.EDNS0SUBNET, Family: 1, SourceNetmask: 24, Address: []byte{203, 0, 113, 0}})
			}
			if b, err := m.Pack(); err == nil {
				f.Add(b)
			}
		}
	}
	f.Fuzz(func(t *testing.T, raw []byte) {
		var wr Request
		if !wr.ParseWire(raw, time.Now(), nil) {
			return
		}
		m := new(dns.Msg)
		if err := m.Unpack(raw); err != nil {
			t.Fatalf("VERIF-VIOLATION ParseWire accepted a packet the decoder rejects (%v): %x", err, raw)
		}
		var dr Request
		dr.SetMsg(m)
		type acc struct {
			name string
			w, d any
		}
		checks := []acc{{"ID", wr.ID(), dr.ID()}, {"Qtype", wr.Qtype(), dr.Qtype()}, {"Qclass", wr.Qclass(), dr.Qclass()}, {"RD", wr.RD(), dr.RD()}, {"CD", wr.CD(), dr.CD()}, {"AD", wr.AD(), dr.AD()},
			{"Opcode", wr.Opcode(), dr.Opcode()}, {"HasOPT", wr.HasOPT(), dr.HasOPT()}, {"UDPSize", wr.UDPSize(), dr.UDPSize()}, {"DO", wr.DO(), dr.DO()}, {"EDNSVersion", wr.EDNSVersion(), dr.EDNSVersion()},
			{"HasECS", wr.HasECS(), dr.HasECS()}, {"HasTCPKeepalive", wr.HasTCPKeepalive(), dr.HasTCPKeepalive()}, {"HasNSID", wr.HasNSID(), dr.HasNSID()}}
		for _, c := range checks {
			if c.w != c.d {
				t.Fatalf("VERIF-VIOLATION %s: wire-born %v, decoded %v: %x", c.name, c.w, c.d, raw)
			}
		}
		// the cookie accessors exist on wire-born requests only; the message path reads the option from the message
		var echo []byte
		if opt := m.IsEdns0(); opt != nil {
			for _, o := range opt.Option {
				if c, ok := o.(*dns.EDNS0_COOKIE); ok {
					echo, _ = hex.DecodeString(c.Cookie)
					break
				}
			}
		}
		var client []byte
		if len(echo) >= 8 {
			client = echo[:8]
		}
		if len(wr.CookieEcho()) > 0 || len(echo) >= 8 {
			if !bytes.Equal(wr.CookieEcho(), echo) || !bytes.Equal(wr.ClientCookie(), client) {
				t.Fatalf("VERIF-VIOLATION cookie: wire-born %x/%x, the decoded message's option %x: %x", wr.ClientCookie(), wr.CookieEcho(), echo, raw)
			}
		}
		// the materialised message is the decoded message
		if mm := wr.Msg(); mm == nil || len(mm.Question) != len(m.Question) || (len(m.Question) == 1 && mm.Question[0] != m.Question[0]) {
			t.Fatalf("VERIF-VIOLATION materialised question differs: %x", raw)
		}
	})
}
