//go:build verif

package cache

// Verification-only window into the cache package (overlaid by /verif/run.py, never
// part of the repository): read-only views of what is stored, and the ability to
// place an existing entry under another question's 64-bit key, which is exactly the
// state a real xxhash64 collision produces.

import (
	"net/netip"
	"sort"
	"time"

	"github.com/miekg/dns"
)

// VerifEntry describes one stored answer-cache entry.
type VerifEntry struct {
	Positive  bool
	Key       uint64
	Name      string
	Qtype     uint16
	Qclass    uint16
	CD        bool
	Scope     string
	Stored    time.Time
	TTL       time.Duration
	CutUntil  time.Time
	Remaining time.Duration
	Prefetch  bool
}

// VerifStore returns the store behind the middleware.
func (c *Cache) VerifStore() *Store { return c.store }

// VerifEntries lists every stored entry, sorted for stable comparison.
func (s *Store) VerifEntries() []VerifEntry {
	now := time.Now()
	var out []VerifEntry
	s.ForEach(func(positive bool, key uint64, e *CacheEntry) bool {
		sc := ""
		if e.scope.IsValid() {
			sc = e.scope.String()
		}
		out = append(out, VerifEntry{Positive: positive, Key: key, Name: e.question.Name, Qtype: e.question.Qtype, Qclass: e.question.Qclass,
			CD: e.cd, Scope: sc, Stored: e.stored, TTL: e.ttl, CutUntil: e.cutUntil, Remaining: e.remaining(now), Prefetch: e.prefetch.Load()})
		return true
	})
	sort.Slice(out, func(i, j int) bool {
		a, b := out[i], out[j]
		if a.Name != b.Name {
			return a.Name < b.Name
		}
		if a.Qtype != b.Qtype {
			return a.Qtype < b.Qtype
		}
		if a.CD != b.CD {
			return !a.CD
		}
		return a.Scope < b.Scope
	})
	return out
}

// VerifPlantCollision stores the live entry of (q1, cd1, scope1) additionally under the key
// of (q2, cd2, scope2), as a 64-bit key collision between the two preimages would.
func (s *Store) VerifPlantCollision(q1 dns.Question, cd1 bool, scope1 netip.Prefix, q2 dns.Question, cd2 bool, scope2 netip.Prefix) bool {
	k1 := CacheKey{Question: q1, CD: cd1, Scope: scope1}.Hash()
	e, ok := s.positive.Get(k1)
	if !ok || e == nil {
		return false
	}
	k2 := CacheKey{Question: q2, CD: cd2, Scope: scope2}.Hash()
	s.positive.Set(k2, e)
	return true
}

// VerifFailure describes one retained RFC 9520 failure record.
type VerifFailure struct {
	Zone       bool
	Name       string
	Qtype      uint16
	Qclass     uint16
	CD         bool
	Scope      string
	Streak     uint32
	RetryAfter time.Time
}

// VerifFailures lists retained failure state (active and expired).
func (s *Store) VerifFailures() []VerifFailure {
	var out []VerifFailure
	if s.failure == nil || s.failureCacheDisabled {
		return out
	}
	s.failure.entries.ForEach(func(_ uint64, v any) bool {
		e, ok := v.(*failureEntry)
		if !ok || e == nil {
			return true
		}
		f := VerifFailure{Streak: e.streak, RetryAfter: e.retryAfter}
		if e.kind == FailureKindZone {
			f.Zone, f.Name, f.Qclass = true, e.zone.Zone, e.zone.Qclass
		} else {
			f.Name, f.Qtype, f.Qclass, f.CD = e.question.Question.Name, e.question.Question.Qtype, e.question.Question.Qclass, e.question.CD
			if e.question.Scope.IsValid() {
				f.Scope = e.question.Scope.String()
			}
		}
		out = append(out, f)
		return true
	})
	sort.Slice(out, func(i, j int) bool {
		if out[i].Name != out[j].Name {
			return out[i].Name < out[j].Name
		}
		if out[i].Qtype != out[j].Qtype {
			return out[i].Qtype < out[j].Qtype
		}
		if out[i].CD != out[j].CD {
			return !out[i].CD
		}
		return out[i].Scope < out[j].Scope
	})
	return out
}

// VerifPlantFailureCollision files the retained failure record of question k1 additionally
// under the hash of k2 (a 64-bit collision in the failure cache).
func (s *Store) VerifPlantFailureCollision(k1, k2 FailureQuestionKey) bool {
	e, _, ok := s.failure.loadQuestionWithHash(normalizeFailureQuestionKey(k1))
	if !ok {
		return false
	}
	s.failure.entries.Add(failureQuestionHash(normalizeFailureQuestionKey(k2)), e)
	return true
}

// VerifWireStats returns the byte-path outcome counters (process-wide, monotonic).
func VerifWireStats() map[string]int64 {
	return map[string]int64{
		"served": wireFastServed.Value(), "fallback": wireFastFallback.Value(), "chase_served": wireChaseServed.Value(),
		"cut_served": wireCutServed.Value(), "failure_served": wireFailureServed.Value(),
		"skip_entry": wireSkipEntry.Value(), "skip_writer": wireSkipWriter.Value(), "skip_dnssec": wireSkipDNSSEC.Value(),
		"skip_size": wireSkipSize.Value(), "skip_build": wireSkipBuild.Value(), "skip_chase": wireSkipChase.Value(),
	}
}

// VerifResetSharedLimiters drops the process-wide per-entry limiter pools so that two
// harness runs in one process start from the same limiter state.
func VerifResetSharedLimiters() {
	poolsMu.Lock()
	rateLimiterPools = make(map[int]*sharedRateLimiterPool)
	poolsMu.Unlock()
}

// VerifDedupInFlight reports how many questions have a registered leader generation right now.
func (c *Cache) VerifDedupInFlight() int { return c.wg.VerifLen() }
