package cache

// C12 at the cache's own alias chase — "the over-budget reply is a SERVFAIL ... that is not cached for other clients".
// The real cache and the real sub-pipeline queryer sit in front of a stub authority that serves an alias chain of
// generated length, one alias per answer, so that the cache has to complete the chain itself with internal sub-queries.
// Client A carries a generated internal-query budget (enforce, shadow or no ledger); optionally another client has
// warmed the first part of the chain before, so that A's chase starts from a cache hit. Client B then asks the same
// question with an ample budget. Whatever A's budget did to A, B gets the address; in enforce mode A's internal
// sub-queries stay within its budget and an over-budget tree is answered SERVFAIL; shadow and no ledger answer as B.

import (
	"context"
	"fmt"
	"strings"
	"sync"
	"testing"

	"github.com/miekg/dns"
	"github.com/semihalev/sdns/config"
	"github.com/semihalev/sdns/internal/dnsutil"
	"github.com/semihalev/sdns/internal/mock"
	"github.com/semihalev/sdns/internal/vfstat"
	"github.com/semihalev/sdns/middleware"
	"pgregory.net/rapid"
)

type vfC12Authority struct {
	mu    sync.Mutex
	hops  int
	tag   string
	asked map[string]int
}

func (a *vfC12Authority) Name() string { return "vfc12-authority" }

func (a *vfC12Authority) owner(i int) string { return fmt.Sprintf("h%d.%s.c12.example.", i, a.tag) }

func (a *vfC12Authority) ServeDNS(_ context.Context, ch *middleware.Chain) {
	req := ch.Request.Msg()
	q := req.Question[0]
	a.mu.Lock()
	a.asked[strings.ToLower(q.Name)]++
	a.mu.Unlock()
	resp := new(dns.Msg)
	resp.SetReply(req)
	resp.RecursionAvailable = true
	resp.SetEdns0(dnsutil.DefaultMsgSize, true)
	idx := -1
	fmt.Sscanf(strings.ToLower(q.Name), "h%d.", &idx)
	switch {
	case idx < 0 || !strings.EqualFold(q.Name, a.owner(idx)):
		resp.Rcode = dns.RcodeNameError
	case idx < a.hops:
		resp.Answer = []dns.RR{&dns.CNAME{Hdr: dns.RR_Header{Name: q.Name, Rrtype: dns.TypeCNAME, Class: dns.ClassINET, Ttl: 300}, Target: a.owner(idx + 1)}}
	default:
		resp.Answer = []dns.RR{&dns.A{Hdr: dns.RR_Header{Name: q.Name, Rrtype: dns.TypeA, Class: dns.ClassINET, Ttl: 300}, A: []byte{192, 0, 2, 55}}}
	}
	_ = ch.Writer.WriteMsg(resp)
	ch.Cancel()
}

func TestVerifC12Chase(t *testing.T) {
	defer vfstat.Flush()
	vfstat.Quiet()
	const U = "C12.chase"
	serial := 0
	rapid.Check(t, func(rt *rapid.T) {
		serial++
		hops := rapid.IntRange(1, 7).Draw(rt, "hops")
		budget := uint32(rapid.IntRange(0, hops+1).Draw(rt, "internalbudget"))
		mode := rapid.SampledFrom([]string{"enforce", "enforce", "enforce", "shadow", "none"}).Draw(rt, "mode")
		warm := rapid.IntRange(0, hops).Draw(rt, "warmfrom") // another client asked h<warm> before (0: the very question A asks)
		if rapid.Bool().Draw(rt, "cold") {
			warm = -1
		}
		edns := rapid.Bool().Draw(rt, "edns")
		cfg := &config.Config{CacheSize: 1024, Expire: 300}
		c := New(cfg)
		defer c.Stop()
		authority := &vfC12Authority{hops: hops, tag: fmt.Sprintf("t%d", serial), asked: map[string]int{}}
		registry := middleware.NewRegistry()
		registry.Register("cache", func(*config.Config) middleware.Handler { return c })
		registry.Register(authority.Name(), func(*config.Config) middleware.Handler { return authority })
		pipeline := registry.Build(cfg)
		c.SetQueryer(middleware.NewPipelineQueryer(pipeline.SubPipeline()))
		ask := func(ctx context.Context, name, client string, withEDNS bool) *dns.Msg {
			req := new(dns.Msg)
			req.SetQuestion(name, dns.TypeA)
			if withEDNS {
				req.SetEdns0(dnsutil.DefaultMsgSize, true)
			}
			req.RecursionDesired = true
			writer := mock.NewWriter("udp", client)
			ch := pipeline.NewChain()
			ch.Reset(writer, req)
			ch.Next(ctx)
			pipeline.PutChain(ch)
			if !writer.Written() {
				rt.Fatalf("client %s got no reply for %s", client, name)
			}
			return writer.Msg()
		}
		ample := func() (context.Context, *middleware.RecursionWorkLedger) {
			l := middleware.NewRecursionWorkLedger(middleware.RecursionWorkPolicy{Mode: middleware.RecursionWorkEnforce, MaxOutboundQueries: 64, MaxInternalQueries: 64})
			return middleware.WithRecursionWork(context.Background(), l), l
		}
		final := func(m *dns.Msg) bool {
			for _, rr := range m.Answer {
				if a, ok := rr.(*dns.A); ok && strings.EqualFold(a.Hdr.Name, authority.owner(hops)) {
					return true
				}
			}
			return false
		}
		if warm >= 0 {
			ctx, _ := ample()
			if w := ask(ctx, authority.owner(warm), "192.0.2.9:53000", true); w.Rcode != dns.RcodeSuccess {
				rt.Fatalf("warming client got %s for %s", dns.RcodeToString[w.Rcode], authority.owner(warm))
			}
		}
		question := authority.owner(0)
		ctxA := context.Background()
		var ledgerA *middleware.RecursionWorkLedger
		switch mode {
		case "enforce":
			ledgerA = middleware.NewRecursionWorkLedger(middleware.RecursionWorkPolicy{Mode: middleware.RecursionWorkEnforce, MaxOutboundQueries: 64, MaxInternalQueries: budget})
			ctxA = middleware.WithRecursionWork(ctxA, ledgerA)
		case "shadow":
			ledgerA = middleware.NewRecursionWorkLedger(middleware.RecursionWorkPolicy{Mode: middleware.RecursionWorkShadow, MaxOutboundQueries: 64, MaxInternalQueries: budget})
			ctxA = middleware.WithRecursionWork(ctxA, ledgerA)
		}
		respA := ask(ctxA, question, "192.0.2.1:53000", edns)
		desc := fmt.Sprintf("chain of %d aliases, client A mode=%s internal budget=%d edns=%v, h%d warmed by another client: %v", hops, mode, budget, edns, warm, warm >= 0)
		over := false
		if ledgerA != nil {
			snap := ledgerA.Snapshot()
			over = mode == "enforce" && ledgerA.EnforcementError() != nil
			if mode == "enforce" && snap.InternalQueries > budget {
				rt.Fatalf("%s: %d internal sub-queries were admitted", desc, snap.InternalQueries)
			}
			if mode == "shadow" && ledgerA.EnforcementError() != nil {
				rt.Fatalf("%s: shadow mode latched a rejection", desc)
			}
		}
		switch {
		case over:
			if respA.Rcode != dns.RcodeServerFailure {
				rt.Fatalf("%s: the over-budget tree was answered %s, not SERVFAIL", desc, dns.RcodeToString[respA.Rcode])
			}
			if e := dnsutil.GetEDE(respA); edns && (e == nil || e.ExtraText != middleware.RecursionWorkEDEText) {
				rt.Fatalf("%s: the over-budget SERVFAIL to an EDNS client carries no Extended DNS Error naming the budget (EDE: %+v)", desc, e)
			}
		default:
			if respA.Rcode != dns.RcodeSuccess || !final(respA) {
				rt.Fatalf("%s: client A stayed inside its budget (or has none to enforce) and was answered %s with %d answer records instead of the completed chain", desc, dns.RcodeToString[respA.Rcode], len(respA.Answer))
			}
		}
		// client B: the same question, straight afterwards, with an ample budget
		ctxB, ledgerB := ample()
		respB := ask(ctxB, question, "192.0.2.2:53000", true)
		if respB.Rcode != dns.RcodeSuccess || !final(respB) {
			ede := ""
			if e := dnsutil.GetEDE(respB); e != nil {
				ede = fmt.Sprintf(" (EDE %d %q)", e.InfoCode, e.ExtraText)
			}
			rt.Fatalf("%s: the next client, with an ample budget, was answered %s%s with %d answer records - client A's budget decided client B's answer", desc, dns.RcodeToString[respB.Rcode], ede, len(respB.Answer))
		}
		if err := ledgerB.EnforcementError(); err != nil {
			rt.Fatalf("%s: client B's ledger latched %v", desc, err)
		}
		vfstat.Eval(U, 1)
		vfstat.Class(U, "mode:"+mode)
		if over {
			vfstat.Class(U, "budget-tripped-inside-the-chase")
		}
		if warm >= 0 {
			vfstat.Class(U, "chase-from-cache-hit")
		}
		if warm == 0 {
			vfstat.Class(U, "own-question-is-a-hit")
		}
		if over || warm >= 0 {
			vfstat.NonTrivial(U, fmt.Sprint(hops, budget, mode, warm, edns))
			vfstat.Sample(U, fmt.Sprint(over, warm >= 0), map[string]any{"case": desc, "a_rcode": dns.RcodeToString[respA.Rcode], "b_rcode": dns.RcodeToString[respB.Rcode]})
		}
	})
}
