package cache

// C16 at the answer cache's two tables (PositiveCache / NegativeCache): "a key yields the value most recently stored
// under it unless it was removed or evicted", under readers whose lazy clean-up of an expired entry overlaps a writer
// that has just replaced it. Every round plants an expired entry, then releases readers and one writer on the same
// key at the same instant; when all have returned the key must hold the writer's entry - nobody removed it, nothing
// was evicted (the tables are far from full), and it has an hour to live.

import (
	"fmt"
	"sync"
	"testing"
	"time"

	"github.com/semihalev/sdns/internal/vfstat"
	"pgregory.net/rapid"
)

type vfC16Table interface {
	Get(key uint64) (*CacheEntry, bool)
	Set(key uint64, entry *CacheEntry)
	Len() int
}

func TestVerifC16Lifetimes(t *testing.T) {
	defer vfstat.Flush()
	vfstat.Quiet()
	const U = "C16.lifetimes"
	rapid.Check(t, func(rt *rapid.T) {
		kind := rapid.SampledFrom([]string{"negative", "negative", "positive"}).Draw(rt, "table")
		var tab vfC16Table
		if kind == "negative" {
			tab = NewNegativeCache(4096, time.Second, time.Hour, nil)
		} else {
			tab = NewPositiveCache(4096, time.Second, time.Hour, nil)
		}
		keys := []uint64{0, 1, 1 << 63, 0xffffffffffffffff, 256, 257}[:rapid.IntRange(1, 6).Draw(rt, "nkeys")]
		readers := rapid.IntRange(1, 6).Draw(rt, "readers")
		rounds := rapid.SampledFrom([]int{200, 600, 1500}).Draw(rt, "rounds")
		spin := rapid.SampledFrom([]int{0, 0, 20, 200}).Draw(rt, "writerspin")
		lost := 0
		for r := 0; r < rounds; r++ {
			key := keys[r%len(keys)]
			tab.Set(key, &CacheEntry{stored: time.Now().Add(-time.Hour), ttl: time.Second})
			fresh := &CacheEntry{stored: time.Now(), ttl: time.Hour}
			start := make(chan struct{})
			var wg sync.WaitGroup
			for i := 0; i < readers; i++ {
				wg.Add(1)
				go func() {
					defer wg.Done()
					<-start
					tab.Get(key)
				}()
			}
			wg.Add(1)
			go func() {
				defer wg.Done()
				<-start
				for i := 0; i < spin; i++ { // lets the readers' load get ahead of the store by a generated margin
					_ = i
				}
				tab.Set(key, fresh)
			}()
			close(start)
			wg.Wait()
			got, ok := tab.Get(key)
			if !ok || got != fresh {
				rt.Fatalf("%s table, key %#x, round %d: after %d readers and one writer returned, the entry the writer stored (an hour to live) is gone (found=%v same=%v) - nobody removed it and the table holds %d of 4096 entries", kind, key, r, readers, ok, got == fresh, tab.Len())
			}
			if tab.Len() > len(keys) {
				rt.Fatalf("%s table holds %d entries for %d keys", kind, tab.Len(), len(keys))
			}
			_ = lost
		}
		vfstat.Eval(U, 1)
		vfstat.Class(U, "table:"+kind)
		vfstat.NonTrivial(U, fmt.Sprint(kind, len(keys), readers, rounds, spin))
		vfstat.Sample(U, kind, map[string]any{"table": kind, "keys": len(keys), "readers": readers, "rounds": rounds})
	})
}
