package middleware

// C17 (sub-pipeline half): handlers that declare ClientOnly()==true never run for
// resolver-internal sub-queries dispatched through the auto-wired Queryers.

import (
	"context"
	"fmt"
	"net"
	"sync"
	"testing"

	"github.com/miekg/dns"
	"github.com/semihalev/sdns/internal/vfstat"
	"pgregory.net/rapid"
)

type vfC17Rec struct {
	mu  sync.Mutex
	ran []string // "name/internal=bool"
}

type vfC17H struct {
	name       string
	clientOnly bool
	rec        *vfC17Rec
	q, pq      Queryer
	askAt      bool // issues an internal sub-query when it sees a client query
	prefetch   bool
	terminal   bool
}

func (h *vfC17H) Name() string                 { return h.name }
func (h *vfC17H) SetQueryer(q Queryer)         { h.q = q }
func (h *vfC17H) SetPrefetchQueryer(q Queryer) { h.pq = q }
func (h *vfC17H) ServeDNS(ctx context.Context, ch *Chain) {
	h.rec.mu.Lock()
	h.rec.ran = append(h.rec.ran, fmt.Sprintf("%s/%v", h.name, ch.Writer.Internal()))
	h.rec.mu.Unlock()
	if h.askAt && !ch.Writer.Internal() {
		sub := new(dns.Msg)
		sub.SetQuestion("sub.example.", dns.TypeA)
		q := h.q
		if h.prefetch {
			q = h.pq
		}
		if q != nil {
			_, _ = q.Query(ctx, sub)
		}
	}
	if h.terminal {
		_, req := ch.Materialize(ctx)
		if req != nil {
			m := new(dns.Msg)
			m.SetReply(req)
			_ = ch.Writer.WriteMsg(m)
		}
		ch.Cancel()
		return
	}
	ch.Next(ctx)
}

type vfC17HCO struct{ vfC17H }

func (h *vfC17HCO) ClientOnly() bool { return h.clientOnly }

type vfC17T struct{ n int }

func (t *vfC17T) LocalAddr() net.Addr         { return &net.UDPAddr{IP: net.IPv4(192, 0, 2, 1), Port: 53} }
func (t *vfC17T) RemoteAddr() net.Addr        { return &net.UDPAddr{IP: net.IPv4(203, 0, 113, 9), Port: 4000} }
func (t *vfC17T) WriteMsg(*dns.Msg) error     { t.n++; return nil }
func (t *vfC17T) Write(b []byte) (int, error) { t.n++; return len(b), nil }
func (t *vfC17T) Close() error                { return nil }

func TestVerifC17AutoWire(t *testing.T) {
	defer vfstat.Flush()
	vfstat.Quiet()
	const U = "C17.autowire"
	rapid.Check(t, func(rt *rapid.T) {
		n := rapid.IntRange(2, 9).Draw(rt, "n")
		rec := &vfC17Rec{}
		var handlers []Handler
		byName := map[string]Handler{}
		var names []string
		clientOnly := map[string]bool{}
		asker := rapid.IntRange(0, n-1).Draw(rt, "asker")
		prefetch := rapid.Bool().Draw(rt, "prefetch")
		cacheAt := rapid.IntRange(-1, n-2).Draw(rt, "cacheAt")
		for i := 0; i < n; i++ {
			name := fmt.Sprintf("h%d", i)
			if i == cacheAt {
				name = "cache"
			}
			kind := rapid.IntRange(0, 2).Draw(rt, "kind") // 0: no ClientOnly method, 1: ClientOnly()=false, 2: ClientOnly()=true
			if name == "cache" && kind == 2 {
				kind = 0
			}
			base := vfC17H{name: name, rec: rec, askAt: i == asker, prefetch: prefetch, terminal: i == n-1}
			var h Handler
			if kind == 0 {
				hh := base
				h = &hh
			} else {
				hh := &vfC17HCO{base}
				hh.clientOnly = kind == 2
				h = hh
			}
			clientOnly[name] = kind == 2
			handlers = append(handlers, h)
			byName[name] = h
			names = append(names, name)
		}
		p := newPipeline(handlers, byName, names, RecursionWorkPolicy{})
		p.autoWire()
		ch := p.NewChain()
		tr := &vfC17T{}
		q := new(dns.Msg)
		q.SetQuestion("client.example.", dns.TypeA)
		ch.Reset(tr, q)
		ch.Next(context.Background())
		p.PutChain(ch)
		internalRuns := 0
		nCO := 0
		for _, c := range clientOnly {
			if c {
				nCO++
			}
		}
		clientSeen := map[string]bool{}
		for _, r := range rec.ran {
			var name string
			var internal bool
			fmt.Sscanf(r, "%s", &name)
			for i := len(r) - 1; i >= 0; i-- {
				if r[i] == '/' {
					name, internal = r[:i], r[i+1:] == "true"
					break
				}
			}
			if internal {
				internalRuns++
				if clientOnly[name] {
					rt.Fatalf("client-only handler %s ran for an internal sub-query (handlers %v clientOnly %v trace %v)", name, names, clientOnly, rec.ran)
				}
				if prefetch && name == "cache" {
					rt.Fatalf("cache handler ran inside the prefetch sub-pipeline (trace %v)", rec.ran)
				}
			} else {
				clientSeen[name] = true
			}
		}
		// client traffic still passes every handler (policy applies to clients)
		for _, nme := range names {
			if !clientSeen[nme] {
				rt.Fatalf("handler %s did not run for the client query (trace %v)", nme, rec.ran)
			}
		}
		if tr.n != 1 {
			rt.Fatalf("client got %d replies", tr.n)
		}
		vfstat.Eval(U, 1)
		if nCO > 0 && internalRuns > 0 {
			vfstat.Class(U, "internal-run-with-clientonly-present")
			vfstat.NonTrivial(U, fmt.Sprint(names, clientOnly, asker, prefetch))
			vfstat.Sample(U, fmt.Sprint(prefetch), map[string]any{"handlers": names, "client_only": clientOnly, "asker": asker, "prefetch_queryer": prefetch, "trace": rec.ran})
		}
	})
}
