package accesslist

// C17: a denied source gets no reply and nothing downstream runs; membership is
// exactly "inside at least one parsable CIDR"; internal writers are exempt.

import (
	"context"
	"fmt"
	"net"
	"net/netip"
	"testing"

	"github.com/miekg/dns"
	"github.com/semihalev/sdns/config"
	"github.com/semihalev/sdns/internal/vfgen"
	"github.com/semihalev/sdns/internal/vfstat"
	"github.com/semihalev/sdns/middleware"
	"pgregory.net/rapid"
)

type vfC17Probe struct{ calls int }

func (p *vfC17Probe) Name() string { return "vfprobe" }
func (p *vfC17Probe) ServeDNS(ctx context.Context, ch *middleware.Chain) {
	p.calls++
	_, req := ch.Materialize(ctx)
	if req == nil {
		return
	}
	m := new(dns.Msg)
	m.SetReply(req)
	_ = ch.Writer.WriteMsg(m)
	ch.Cancel()
}

func TestVerifC17AccessList(t *testing.T) {
	defer vfstat.Flush()
	vfstat.Quiet()
	const U = "C17.accesslist"
	rapid.Check(t, func(rt *rapid.T) {
		cidrs, parsed := vfgen.GenCIDRList(rt, 10)
		cfg := &config.Config{AccessList: append([]string(nil), cidrs...)}
		a := New(cfg)
		if len(cidrs) == 0 { // documented open default
			parsed = []netip.Prefix{netip.MustParsePrefix("0.0.0.0/0"), netip.MustParsePrefix("::/0")}
		}
		probe := &vfC17Probe{}
		ch := middleware.NewChain([]middleware.Handler{a, probe})
		var addrs []netip.Addr
		for _, p := range parsed {
			m := p.Masked()
			lo, hi := m.Addr(), vfgen.LastAddr(m)
			for _, x := range []netip.Addr{lo, lo.Prev(), hi, hi.Next()} {
				if x.IsValid() {
					addrs = append(addrs, x)
				}
			}
		}
		for i := 0; i < 3; i++ {
			addrs = append(addrs, vfgen.GenAddr().Draw(rt, "addr"))
		}
		for _, addr := range addrs {
			proto := rapid.SampledFrom([]string{"udp", "tcp", "dot", "doh", "doq"}).Draw(rt, "proto")
			mapped := addr.Is4() && rapid.Bool().Draw(rt, "mapped")
			ipForm := net.IP(addr.AsSlice())
			if mapped {
				ipForm = net.IP(netip.AddrFrom16(addr.As16()).AsSlice())
			}
			internal := rapid.IntRange(0, 7).Draw(rt, "internal") == 0
			tr := vfgen.NewTransport(proto, ipForm, 4242)
			tr.IsInternal = internal
			q := new(dns.Msg)
			q.SetQuestion("example.org.", dns.TypeA)
			probe.calls = 0
			ch.Reset(tr, q)
			ch.Next(context.Background())
			want, _ := vfgen.RefContains(parsed, addr)
			allowed := want || internal
			if allowed {
				if probe.calls != 1 || tr.Writes() != 1 {
					rt.Fatalf("list=%q src=%v proto=%s internal=%v: allowed by reference but downstream calls=%d writes=%d", cidrs, ipForm, proto, internal, probe.calls, tr.Writes())
				}
			} else {
				if probe.calls != 0 || tr.Writes() != 0 {
					rt.Fatalf("list=%q src=%v proto=%s: outside every CIDR but downstream calls=%d writes=%d", cidrs, ipForm, proto, probe.calls, tr.Writes())
				}
			}
			vfstat.Eval(U, 1)
			cls := fmt.Sprintf("%s/allowed=%v/internal=%v/mapped=%v", proto, want, internal, mapped)
			vfstat.Class(U, fmt.Sprintf("allowed=%v", allowed))
			if internal && !want {
				vfstat.Class(U, "internal-bypass")
			}
			vfstat.NonTrivial(U, cls+fmt.Sprint(len(parsed), len(cidrs)-len(parsed), addr.BitLen()))
			vfstat.Sample(U, cls, map[string]any{"list": cidrs, "src": ipForm.String(), "proto": proto, "internal": internal, "allowed": allowed})
		}
	})
}
