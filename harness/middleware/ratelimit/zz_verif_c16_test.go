package ratelimit

// C16 on the limiter store — it behaves as a bounded map from key to limiter: a key keeps yielding the limiter
// created for it until it is evicted or cleaned up, distinct keys (zero included) never share a limiter, occupancy
// stays within the bound, an insert never evicts the key it is writing (the limiter Get just returned is the one a
// second Get finds), and Len() is the number of reachable entries. Small bounds take the exact oldest-entry
// eviction, bounds above 1000 the sampled one.

import (
	"fmt"
	"testing"
	"time"

	"github.com/semihalev/sdns/internal/vfstat"
	"pgregory.net/rapid"
)

func TestVerifC16LimiterStore(t *testing.T) {
	defer vfstat.Flush()
	vfstat.Quiet()
	const U = "C16.limiterstore"
	rapid.Check(t, func(rt *rapid.T) {
		max := rapid.SampledFrom([]int{1, 2, 3, 8, 64, 1001, 1100}).Draw(rt, "maxsize")
		s := NewLimiterStore(max, rapid.SampledFrom([]int{0, 1, 30}).Draw(rt, "rate"))
		held := map[uint64]*limiter{} // what Get returned last for a key the reference still believes present
		owner := map[*limiter]uint64{}
		evictions, sampled := 0, false
		keyGen := rapid.OneOf(rapid.Uint64Range(0, 6), rapid.Uint64Range(0, uint64(2*max+2)), rapid.SampledFrom([]uint64{0, 1, 1 << 32, 1<<63 - 1, 1 << 63, ^uint64(0)}))
		if max > 1000 {
			// fill to the bound first so that the sampled eviction path is the one exercised
			for k := uint64(10_000); s.Len() < max; k++ {
				l := s.Get(k)
				held[k], owner[l] = l, k
			}
			sampled = true
		}
		n := rapid.IntRange(5, 120).Draw(rt, "nops")
		for i := 0; i < n; i++ {
			switch rapid.IntRange(0, 9).Draw(rt, "op") {
			case 0:
				if rapid.IntRange(0, 3).Draw(rt, "cleanall") == 0 {
					s.Cleanup(0) // removes what was last seen before now; what remains must be what was there
					for hk, hl := range held {
						s.mu.RLock()
						tl, present := s.limiters[hk]
						s.mu.RUnlock()
						if !present {
							delete(owner, hl)
							delete(held, hk)
						} else if tl.limiter != hl {
							rt.Fatalf("after Cleanup key %d holds another limiter", hk)
						}
					}
					if got := s.Len(); got != len(held) {
						rt.Fatalf("after Cleanup Len()=%d, reachable entries=%d", got, len(held))
					}
					continue
				}
				s.Cleanup(time.Hour) // nothing is that old
			default:
				k := keyGen.Draw(rt, "key")
				before := s.Len()
				l := s.Get(k)
				if l == nil {
					rt.Fatalf("Get(%d) returned nil", k)
				}
				if o, ok := owner[l]; ok && o != k {
					rt.Fatalf("Get(%d) returned the limiter that belongs to key %d: distinct keys alias", k, o)
				}
				if prev, ok := held[k]; ok && prev != l {
					// the reference believed k present; it can only have been evicted by inserts since, which the
					// reference tracks below - so this is a lost entry
					rt.Fatalf("Get(%d) returned a new limiter although the key was present and nothing was inserted since it was last seen", k)
				}
				if again := s.Get(k); again != l {
					rt.Fatalf("Get(%d) created a limiter and the next Get(%d) returned another one: the insert evicted the key it was writing (store size %d of %d)", k, k, s.Len(), max)
				}
				if _, ok := held[k]; !ok {
					// an insert: at the bound it evicts exactly one other entry
					if before >= max {
						evictions++
						// find who went: every held key except one must still yield its limiter
						gone := 0
						for hk, hl := range held {
							s.mu.RLock()
							tl, present := s.limiters[hk]
							s.mu.RUnlock()
							if !present || tl.limiter != hl {
								gone++
								delete(owner, hl)
								delete(held, hk)
							}
						}
						if gone != 1 {
							rt.Fatalf("inserting key %d into a full store (bound %d) made %d other keys unreachable, want exactly 1", k, max, gone)
						}
					}
					held[k], owner[l] = l, k
				}
				if got := s.Len(); got > max {
					rt.Fatalf("after Get(%d) the store holds %d limiters, bound %d", k, got, max)
				}
				if got := s.Len(); got != len(held) {
					rt.Fatalf("Len()=%d, reachable entries=%d", got, len(held))
				}
			}
		}
		vfstat.Eval(U, 1)
		if evictions > 0 {
			vfstat.Class(U, "insert-at-the-bound")
			vfstat.NonTrivial(U, fmt.Sprint(max, evictions, n))
			vfstat.Sample(U, fmt.Sprint(max > 1000), map[string]any{"bound": max, "operations": n, "evicting_inserts": evictions, "sampled_eviction_path": sampled})
		}
		if sampled {
			vfstat.Class(U, "sampled-eviction-path")
		}
		if _, ok := held[0]; ok {
			vfstat.Class(U, "zero-key-present")
		}
	})
}
