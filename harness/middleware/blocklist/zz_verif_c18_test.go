//go:build verif

package blocklist

// C18 — blocklist matching is exact (label-wise) and the persisted form converges
// to memory, including after crashes between the persistence steps. Overlaid by
// /verif/run.py; uses the verif-tagged failpoints in persist().

import (
	"context"
	"fmt"
	"net"
	"os"
	"path/filepath"
	"sort"
	"strings"
	"sync"
	"sync/atomic"
	"testing"
	"time"

	"github.com/miekg/dns"
	"github.com/semihalev/sdns/config"
	"github.com/semihalev/sdns/internal/verifhook"
	"github.com/semihalev/sdns/internal/vfgen"
	"github.com/semihalev/sdns/internal/vfstat"
	"github.com/semihalev/sdns/middleware"
	"pgregory.net/rapid"
)

// (two labels hold a literal dot - "a\.example" is one label - so that "whole labels" is put to the test)
var vfC18Labels = []string{"example", "notexample", "xample", "com", "co", "www", "a", "Sub", "deep", "ads", "_dmarc", "x-y", "a\\.example", "www\\.com"}

// vfC18Name draws an LDH/underscore name of 1..4 labels, mixed case, with or without the trailing dot.
func vfC18Name(t *rapid.T, label string) string {
	n := rapid.IntRange(1, 4).Draw(t, label+"n")
	parts := make([]string, n)
	pool := vfC18Labels[:len(vfC18Labels)-2] // list entries are host names; the API's own key validation is not the subject here
	if strings.HasPrefix(label, "q") {
		pool = vfC18Labels // questions arrive from the wire with whatever octets their labels hold
	}
	for i := range parts {
		parts[i] = rapid.SampledFrom(pool).Draw(t, label+"l")
	}
	s := strings.Join(parts, ".")
	if rapid.Bool().Draw(t, label+"dot") {
		s += "."
	}
	switch rapid.IntRange(0, 3).Draw(t, label+"case") {
	case 0:
		s = strings.ToUpper(s)
	case 1:
		s = strings.Title(s) //nolint:staticcheck
	}
	return s
}

func vfC18LabelsOf(name string) []string {
	name = strings.ToLower(name)
	if name == "" || name == "." {
		return nil
	}
	return dns.SplitDomainName(name) // label boundaries are unescaped dots
}

func vfC18Canon(name string) string { return strings.Join(vfC18LabelsOf(name), ".") + "." }

// vfC18Model is the reference matcher over label slices.
type vfC18Model struct {
	plain, wild, white map[string]bool // canonical names (wild without the "*." prefix)
}

func vfC18NewModel() *vfC18Model {
	return &vfC18Model{plain: map[string]bool{}, wild: map[string]bool{}, white: map[string]bool{}}
}

func (m *vfC18Model) clone() *vfC18Model {
	c := vfC18NewModel()
	for k := range m.plain {
		c.plain[k] = true
	}
	for k := range m.wild {
		c.wild[k] = true
	}
	for k := range m.white {
		c.white[k] = true
	}
	return c
}

// suffixes of q by whole labels, longest first, excluding the root.
func vfC18Suffixes(q string) []string {
	l := vfC18LabelsOf(q)
	out := make([]string, 0, len(l))
	for i := range l {
		out = append(out, strings.Join(l[i:], ".")+".")
	}
	return out
}

func (m *vfC18Model) whitelisted(name string) bool {
	for _, s := range vfC18Suffixes(name) {
		if m.white[s] {
			return true
		}
	}
	return false
}

func (m *vfC18Model) blocked(q string) (bool, string) {
	if m.whitelisted(q) {
		return false, "whitelisted"
	}
	for i, s := range vfC18Suffixes(q) {
		if m.plain[s] {
			if i == 0 {
				return true, "plain-exact"
			}
			return true, "plain-parent"
		}
		if i > 0 && m.wild[s] {
			return true, "wild-parent"
		}
	}
	return false, "none"
}

// set mirrors the documented API semantics: a key shadowed by the whitelist is refused.
func (m *vfC18Model) set(key string) bool {
	isWild := strings.HasPrefix(key, "*.")
	name := strings.TrimPrefix(key, "*.")
	c := vfC18Canon(name)
	probe := c
	if isWild {
		probe = "*." + c
	}
	if m.whitelisted(probe) {
		return false
	}
	if isWild {
		m.wild[c] = true
	} else {
		m.plain[c] = true
	}
	return true
}

func (m *vfC18Model) remove(key string) bool {
	isWild := strings.HasPrefix(key, "*.")
	c := vfC18Canon(strings.TrimPrefix(key, "*."))
	if !isWild {
		if m.plain[c] {
			delete(m.plain, c)
			return true
		}
		return false
	}
	// a "*.x" key: the implementation first looks for a plain entry spelled "*.x."
	if m.wild[c] {
		delete(m.wild, c)
		return true
	}
	return false
}

func (m *vfC18Model) lines() []string {
	var out []string
	for k := range m.plain {
		out = append(out, k)
	}
	for k := range m.wild {
		out = append(out, "*."+k)
	}
	sort.Strings(out)
	return out
}

func vfC18MemLines(b *BlockList) []string {
	b.mu.RLock()
	defer b.mu.RUnlock()
	var out []string
	for k := range b.m {
		out = append(out, k)
	}
	for k := range b.wild {
		out = append(out, "*."+k)
	}
	sort.Strings(out)
	return out
}

func vfC18FileLines(dir string) ([]string, bool) {
	data, err := os.ReadFile(filepath.Join(dir, "local"))
	if err != nil {
		return nil, false
	}
	var out []string
	for _, l := range strings.Split(string(data), "\n") {
		if l == "" || strings.HasPrefix(l, "#") {
			continue
		}
		out = append(out, l)
	}
	sort.Strings(out)
	return out, true
}

func vfC18NewBL(dir string, white, configured []string) *BlockList {
	verifhook.SetBackground(false)
	cfg := &config.Config{Directory: dir, BlockListDir: filepath.Join(dir, "bl"), Whitelist: white, Blocklist: configured, Nullroute: "0.0.0.0", Nullroutev6: "::"}
	if !vfC18FreshInstall {
		_ = os.MkdirAll(cfg.BlockListDir, 0o755)
	}
	return New(cfg)
}

// vfC18FreshInstall: the list directory does not exist yet when the instance starts (sdns creates it itself, a
// second after start, in the remote refresh - which the harness keeps switched off).
var vfC18FreshInstall bool

type vfC18Down struct{ calls int }

func (p *vfC18Down) Name() string { return "vfdown" }
func (p *vfC18Down) ServeDNS(ctx context.Context, ch *middleware.Chain) {
	p.calls++
	_, req := ch.Materialize(ctx)
	if req == nil {
		return
	}
	m := new(dns.Msg)
	m.SetReply(req)
	rr, _ := dns.NewRR("passthrough.marker. 60 IN TXT \"down\"")
	m.Extra = []dns.RR{rr}
	_ = ch.Writer.WriteMsg(m)
	ch.Cancel()
}

// ---- matching ----------------------------------------------------------------------------------

func TestVerifC18Match(t *testing.T) {
	defer vfstat.Flush()
	vfstat.Quiet()
	const U = "C18.match"
	base, _ := os.MkdirTemp(os.Getenv("VERIF_WORKDIR"), "c18m")
	defer os.RemoveAll(base)
	rapid.Check(t, func(rt *rapid.T) {
		dir, _ := os.MkdirTemp(base, "case")
		defer os.RemoveAll(dir)
		model := vfC18NewModel()
		var white, configured []string
		for i, n := 0, rapid.IntRange(0, 2).Draw(rt, "nwhite"); i < n; i++ {
			w := vfC18Name(rt, "white")
			white = append(white, w)
			model.white[vfC18Canon(w)] = true
		}
		for i, n := 0, rapid.IntRange(0, 3).Draw(rt, "nconf"); i < n; i++ {
			e := vfC18Name(rt, "conf")
			if rapid.IntRange(0, 2).Draw(rt, "confwild") == 0 {
				e = "*." + e
			}
			configured = append(configured, e)
			model.set(e)
		}
		// whitelist shadowing: block a parent (plain or wildcard) of a whitelisted name
		for _, w := range white {
			if l := vfC18LabelsOf(w); len(l) > 1 && rapid.Bool().Draw(rt, "shadow") {
				e := strings.Join(l[1:], ".")
				if rapid.Bool().Draw(rt, "shadowwild") {
					e = "*." + e
				}
				configured = append(configured, e)
				model.set(e)
			}
		}
		b := vfC18NewBL(dir, white, configured)
		for i, n := 0, rapid.IntRange(0, 6).Draw(rt, "napi"); i < n; i++ {
			e := vfC18Name(rt, "api")
			if rapid.IntRange(0, 2).Draw(rt, "apiwild") == 0 {
				e = "*." + e
			}
			if rapid.IntRange(0, 5).Draw(rt, "apirm") == 0 {
				if got, want := b.Remove(e), model.remove(e); got != want {
					rt.Fatalf("Remove(%q)=%v, reference %v", e, got, want)
				}
				continue
			}
			if got, want := b.Set(e), model.set(e); got != want {
				rt.Fatalf("Set(%q)=%v, reference %v (whitelist %v)", e, got, want, white)
			}
		}
		down := &vfC18Down{}
		ch := middleware.NewChain([]middleware.Handler{b, down})
		// probe names: near-misses of every listed entry plus random names and the root
		var probes []string
		for _, l := range model.lines() {
			n := strings.TrimPrefix(l, "*.")
			// ("x\.example.com." is a child of "com.", not of "example.com.": its first label holds a literal dot)
			probes = append(probes, n, "www."+n, "not"+n, strings.ToUpper("a.b."+n), "x\\."+n)
			if labels := vfC18LabelsOf(n); len(labels) > 1 {
				probes = append(probes, strings.Join(labels[1:], ".")+".")
			}
		}
		for w := range model.white {
			probes = append(probes, w, "www."+w, "not"+w, "x\\."+w)
		}
		probes = append(probes, ".", vfC18Name(rt, "q1"), vfC18Name(rt, "q2"))
		for _, q := range probes {
			fq := dns.Fqdn(q)
			want, why := model.blocked(fq)
			if got := b.Exists(q); got != want {
				rt.Fatalf("Exists(%q)=%v, reference %v (%s); plain=%v wild=%v white=%v", q, got, want, why, model.plain, model.wild, model.white)
			}
			qtype := rapid.SampledFrom([]uint16{dns.TypeA, dns.TypeAAAA, dns.TypeMX, dns.TypeTXT, dns.TypeHTTPS}).Draw(rt, "qtype")
			req := new(dns.Msg)
			req.SetQuestion(fq, qtype)
			tr := vfgen.NewTransport("udp", net.IPv4(203, 0, 113, 4), 4000)
			down.calls = 0
			ch.Reset(tr, req)
			ch.Next(context.Background())
			if len(tr.Msgs) != 1 {
				rt.Fatalf("%q: %d replies", fq, len(tr.Msgs))
			}
			r := tr.Msgs[0]
			if want {
				if down.calls != 0 {
					rt.Fatalf("blocked name %q reached the rest of the chain", fq)
				}
				switch qtype {
				case dns.TypeA:
					if len(r.Answer) != 1 || !r.Answer[0].(*dns.A).A.Equal(net.IPv4zero) || r.Answer[0].Header().Name != fq {
						rt.Fatalf("blocked A %q: answer %v, want the null route", fq, r.Answer)
					}
				case dns.TypeAAAA:
					if len(r.Answer) != 1 || !r.Answer[0].(*dns.AAAA).AAAA.Equal(net.IPv6zero) {
						rt.Fatalf("blocked AAAA %q: answer %v, want the v6 null route", fq, r.Answer)
					}
				default:
					if len(r.Answer) != 0 || !r.Authoritative || r.Rcode != dns.RcodeSuccess {
						rt.Fatalf("blocked %s %q: want an empty authoritative answer, got %v", dns.TypeToString[qtype], fq, r)
					}
				}
			} else {
				if down.calls != 1 || len(r.Extra) != 1 || len(r.Answer) != 0 {
					rt.Fatalf("unblocked name %q (%s) was not passed through untouched: calls=%d reply=%v", fq, why, down.calls, r)
				}
			}
			vfstat.Eval(U, 1)
			vfstat.Class(U, why)
			if why != "none" || strings.HasPrefix(strings.ToLower(q), "not") {
				vfstat.NonTrivial(U, fmt.Sprint(why, want, len(vfC18LabelsOf(fq)), len(model.plain), len(model.wild), len(model.white), qtype))
				vfstat.Sample(U, why, map[string]any{"plain": fmt.Sprint(model.plain), "wild": fmt.Sprint(model.wild), "white": fmt.Sprint(model.white), "query": q, "qtype": qtype, "blocked": want, "why": why})
			}
		}
	})
}

// ---- persistence -------------------------------------------------------------------------------

type vfC18Op struct {
	Kind string   // set remove setbatch removebatch
	Keys []string // entry keys
}

func vfC18GenKey(t *rapid.T) string {
	e := vfC18Name(t, "key")
	if rapid.IntRange(0, 2).Draw(t, "keywild") == 0 {
		e = "*." + e
	}
	return e
}

func vfC18GenOps(t *rapid.T, n int, pool []string) []vfC18Op {
	var ops []vfC18Op
	key := func() string {
		if len(pool) > 0 && rapid.IntRange(0, 2).Draw(t, "frompool") > 0 {
			return pool[rapid.IntRange(0, len(pool)-1).Draw(t, "pi")]
		}
		return vfC18GenKey(t)
	}
	for i := 0; i < n; i++ {
		k := rapid.SampledFrom([]string{"set", "set", "remove", "setbatch", "removebatch", "setodd"}).Draw(t, "opkind")
		op := vfC18Op{Kind: k}
		if k == "setodd" {
			// what an API client may send that is no host name: whatever the API does with it, the file has to follow
			op.Keys = []string{rapid.SampledFrom([]string{"0.0.0.0 ads.example.com", "ads.example.com\t", "ads.example.com #1", "a#b.example.com", "two words", "line\nbreak.example.com",
				strings.Repeat("a", 70000) + ".example.com", strings.Repeat("b.", 140) + "com", " lead.example.com"}).Draw(t, "oddkey")}
			ops = append(ops, op)
			continue
		}
		nk := 1
		if strings.HasSuffix(k, "batch") {
			nk = rapid.IntRange(1, 4).Draw(t, "nkeys")
		}
		for j := 0; j < nk; j++ {
			op.Keys = append(op.Keys, key())
		}
		ops = append(ops, op)
	}
	return ops
}

func vfC18Apply(b *BlockList, m *vfC18Model, op vfC18Op) error {
	switch op.Kind {
	case "set":
		if got, want := b.Set(op.Keys[0]), m.set(op.Keys[0]); got != want {
			return fmt.Errorf("Set(%q)=%v reference %v", op.Keys[0], got, want)
		}
	case "remove":
		if got, want := b.Remove(op.Keys[0]), m.remove(op.Keys[0]); got != want {
			return fmt.Errorf("Remove(%q)=%v reference %v", op.Keys[0], got, want)
		}
	case "setbatch":
		want := 0
		for _, k := range op.Keys {
			if m.set(k) {
				want++
			}
		}
		_ = b.SetBatch(op.Keys) // the count of "actually added" counts re-additions too; not part of the property
	case "removebatch":
		want := 0
		for _, k := range op.Keys {
			if m.remove(k) {
				want++
			}
		}
		if got := b.RemoveBatch(op.Keys); got != want {
			return fmt.Errorf("RemoveBatch(%v)=%d reference %d", op.Keys, got, want)
		}
	case "setodd":
		// no prediction of what the API makes of a key that is no host name; the reference continues from what
		// memory holds afterwards, and the persisted list is held against that
		b.Set(op.Keys[0])
		m.plain, m.wild = map[string]bool{}, map[string]bool{}
		for _, l := range vfC18MemLines(b) {
			if strings.HasPrefix(l, "*.") {
				m.wild[l[2:]] = true
			} else {
				m.plain[l] = true
			}
		}
	}
	return nil
}

// subsumed reports whether entry line e is covered by another line of the list.
func vfC18Subsumed(e string, all []string) bool {
	m := vfC18NewModel()
	for _, l := range all {
		if l == e {
			continue
		}
		if strings.HasPrefix(l, "*.") {
			m.wild[l[2:]] = true
		} else {
			m.plain[l] = true
		}
	}
	ok, _ := m.blocked(e)
	return ok
}

// vfC18Converged: after quiescence the local file lists exactly memory, and a fresh instance
// over the same directory reloads to the same list / blocks the same names.
func vfC18Converged(dir string, b *BlockList, model *vfC18Model, U string) error {
	mem := vfC18MemLines(b)
	if want := model.lines(); strings.Join(mem, ",") != strings.Join(want, ",") {
		return fmt.Errorf("memory %v differs from the reference list %v", mem, want)
	}
	file, ok := vfC18FileLines(filepath.Join(dir, "bl"))
	if !ok {
		if len(mem) == 0 {
			return nil // nothing was ever persisted
		}
		return fmt.Errorf("no local file although memory holds %v", mem)
	}
	if strings.Join(file, ",") != strings.Join(mem, ",") {
		return fmt.Errorf("persisted local file %v differs from memory %v", file, mem)
	}
	white := []string{}
	for w := range model.white {
		white = append(white, w)
	}
	fresh := vfC18NewBL(dir, white, nil)
	re := vfC18MemLines(fresh)
	if strings.Join(re, ",") != strings.Join(mem, ",") {
		// what differs?
		have := map[string]bool{}
		for _, l := range re {
			have[l] = true
		}
		onlySubsumedMissing := true
		for _, l := range re {
			found := false
			for _, x := range mem {
				if x == l {
					found = true
				}
			}
			if !found {
				return fmt.Errorf("reload invents entry %q (memory %v, reloaded %v)", l, mem, re)
			}
		}
		for _, l := range mem {
			if !have[l] && !vfC18Subsumed(l, mem) {
				onlySubsumedMissing = false
			}
		}
		if onlySubsumedMissing && vfstat.KnownOpen("C18-reload-drops-subsumed") {
			vfstat.Known(U, "C18-reload-drops-subsumed")
		} else {
			return fmt.Errorf("reloaded list %v is not the in-memory list %v", re, mem)
		}
	}
	// behavioural equality on probe names
	for _, l := range append(append([]string{}, mem...), "www.example.com.", "notexample.com.", "com.") {
		n := strings.TrimPrefix(l, "*.")
		for _, q := range []string{n, "x." + n, "not" + n} {
			if fresh.Exists(q) != b.Exists(q) {
				return fmt.Errorf("after reload %q is blocked=%v, before reload %v (memory %v, reloaded %v)", q, fresh.Exists(q), b.Exists(q), mem, re)
			}
		}
	}
	return nil
}

func TestVerifC18PersistSeq(t *testing.T) {
	defer vfstat.Flush()
	vfstat.Quiet()
	const U = "C18.persist_seq"
	base, _ := os.MkdirTemp(os.Getenv("VERIF_WORKDIR"), "c18p")
	defer os.RemoveAll(base)
	rapid.Check(t, func(rt *rapid.T) {
		dir, _ := os.MkdirTemp(base, "case")
		defer os.RemoveAll(dir)
		model := vfC18NewModel()
		var white []string
		if rapid.IntRange(0, 2).Draw(rt, "haswhite") == 0 {
			w := vfC18Name(rt, "white")
			white = append(white, w)
			model.white[vfC18Canon(w)] = true
		}
		vfC18FreshInstall = rapid.IntRange(0, 3).Draw(rt, "freshinstall") == 0
		b := vfC18NewBL(dir, white, nil)
		fresh := vfC18FreshInstall
		vfC18FreshInstall = false
		var pool []string
		for i := 0; i < 5; i++ {
			pool = append(pool, vfC18GenKey(rt))
		}
		ops := vfC18GenOps(rt, rapid.IntRange(1, 8).Draw(rt, "nops"), pool)
		restarts := 0
		for i, op := range ops {
			if err := vfC18Apply(b, model, op); err != nil {
				rt.Fatalf("op %d %v: %v", i, op, err)
			}
			if rapid.IntRange(0, 5).Draw(rt, "restart") == 0 {
				// restart over the same directory: what was persisted is what the next instance starts from
				if err := vfC18Converged(dir, b, model, U); err != nil {
					rt.Fatalf("before restart after op %d (%v): %v", i, ops[:i+1], err)
				}
				w2 := []string{}
				for w := range model.white {
					w2 = append(w2, w)
				}
				b = vfC18NewBL(dir, w2, nil)
				// the reference continues from what the new instance actually loaded
				model.plain, model.wild = map[string]bool{}, map[string]bool{}
				for _, l := range vfC18MemLines(b) {
					if strings.HasPrefix(l, "*.") {
						model.wild[l[2:]] = true
					} else {
						model.plain[l] = true
					}
				}
				restarts++
			}
		}
		if err := vfC18Converged(dir, b, model, U); err != nil {
			rt.Fatalf("after %v: %v", ops, err)
		}
		vfstat.Eval(U, 1)
		if restarts > 0 {
			vfstat.Class(U, "restart")
		}
		if fresh {
			vfstat.Class(U, "list-directory-absent-at-start")
		}
		var kinds []string
		for _, op := range ops {
			kinds = append(kinds, op.Kind)
		}
		vfstat.NonTrivial(U, fmt.Sprint(kinds, restarts, len(model.plain), len(model.wild)))
		vfstat.Sample(U, fmt.Sprint(restarts > 0), map[string]any{"ops": ops, "restarts": restarts, "final_list": model.lines()})
	})
}

// TestVerifC18Concurrent: concurrent API writers; after they all return the file equals memory.
func TestVerifC18Concurrent(t *testing.T) {
	defer vfstat.Flush()
	vfstat.Quiet()
	const U = "C18.concurrent"
	base, _ := os.MkdirTemp(os.Getenv("VERIF_WORKDIR"), "c18c")
	defer os.RemoveAll(base)
	defer verifhook.SetFailer(nil)
	rapid.Check(t, func(rt *rapid.T) {
		dir, _ := os.MkdirTemp(base, "case")
		defer os.RemoveAll(dir)
		b := vfC18NewBL(dir, nil, nil)
		W := rapid.IntRange(2, 8).Draw(rt, "writers")
		var pool []string
		for i := 0; i < 6; i++ {
			pool = append(pool, vfC18GenKey(rt))
		}
		scripts := make([][]vfC18Op, W)
		for w := range scripts {
			scripts[w] = vfC18GenOps(rt, rapid.IntRange(1, 6).Draw(rt, "nops"), pool)
		}
		// schedule perturbation inside persist (generated, so runs are comparable): a per-call delay table
		delays := make([]int, 64)
		for i := range delays {
			delays[i] = rapid.SampledFrom([]int{0, 0, 0, 1, 5, 20}).Draw(rt, "delay")
		}
		var ctr atomic.Int64
		var overlapped atomic.Int64
		var inPersist atomic.Int64
		verifhook.SetFailer(func(point string) error {
			switch point {
			case "blocklist.persist.begin":
				if inPersist.Add(1) > 1 {
					overlapped.Add(1)
				}
				d := delays[int(ctr.Add(1))%len(delays)]
				if d > 0 {
					time.Sleep(time.Duration(d) * 100 * time.Microsecond)
				}
			case "blocklist.persist.after-rename":
				inPersist.Add(-1)
			}
			return nil
		})
		// an observer stands in for "an interruption at any instant": once the list exists, there is no moment at which
		// it does not - a replace that removes the old file before the new one is in place would leave nothing behind
		localPath := filepath.Join(dir, "bl", "local")
		stopObs := make(chan struct{})
		var obsDone sync.WaitGroup
		var vanished atomic.Int64
		var looks atomic.Int64
		obsDone.Add(1)
		go func() {
			defer obsDone.Done()
			seen := false
			for {
				select {
				case <-stopObs:
					return
				default:
				}
				_, err := os.Lstat(localPath)
				looks.Add(1)
				switch {
				case err == nil:
					seen = true
				case seen && os.IsNotExist(err):
					vanished.Add(1)
				}
			}
		}()
		var wg sync.WaitGroup
		var waiting atomic.Int64
		for w := 0; w < W; w++ {
			wg.Add(1)
			go func(w int) {
				defer wg.Done()
				for _, op := range scripts[w] {
					waiting.Add(1)
					switch op.Kind {
					case "set":
						b.Set(op.Keys[0])
					case "remove":
						b.Remove(op.Keys[0])
					case "setbatch":
						b.SetBatch(op.Keys)
					case "removebatch":
						b.RemoveBatch(op.Keys)
					}
				}
			}(w)
		}
		wg.Wait()
		close(stopObs)
		obsDone.Wait()
		verifhook.SetFailer(nil)
		if n := vanished.Load(); n > 0 {
			rt.Fatalf("while the API calls ran, the persisted list %s did not exist at %d of %d looks after it had existed: an interruption there leaves no list at all (scripts %v)", localPath, n, looks.Load(), scripts)
		}
		mem := vfC18MemLines(b)
		file, ok := vfC18FileLines(filepath.Join(dir, "bl"))
		if !ok && len(mem) > 0 {
			rt.Fatalf("no local file although memory holds %v (scripts %v)", mem, scripts)
		}
		if strings.Join(file, ",") != strings.Join(mem, ",") {
			rt.Fatalf("after all API calls returned, local file %v differs from memory %v (scripts %v)", file, mem, scripts)
		}
		// leftovers
		entries, _ := os.ReadDir(filepath.Join(dir, "bl"))
		for _, e := range entries {
			if e.Name() != "local" {
				rt.Fatalf("leftover file %q in the blocklist directory after quiescence", e.Name())
			}
		}
		vfstat.Eval(U, 1)
		if W >= 2 {
			vfstat.Class(U, "writers>=2")
		}
		total := 0
		for _, s := range scripts {
			total += len(s)
		}
		vfstat.NonTrivial(U, fmt.Sprint(W, total, delays[:8], len(mem)))
		vfstat.Sample(U, fmt.Sprint(W), map[string]any{"writers": W, "scripts": scripts, "final_list": mem})
	})
}

// ---- crash points ---------------------------------------------------------------------------------

type vfC18Crash struct{ point string }

var vfC18CrashPoints = []string{"blocklist.persist.begin", "blocklist.persist.after-header", "blocklist.persist.before-sync", "blocklist.persist.before-rename", "blocklist.persist.after-rename"}

// TestVerifC18Crash: a mutation is interrupted (panic) at a persistence step; the process "dies"
// (the instance is discarded) and a new instance starts over the same directory. The local file must
// be a complete earlier or the complete new snapshot; further API calls and a second restart must
// converge to memory.
func TestVerifC18Crash(t *testing.T) {
	defer vfstat.Flush()
	vfstat.Quiet()
	const U = "C18.crash"
	base, _ := os.MkdirTemp(os.Getenv("VERIF_WORKDIR"), "c18x")
	defer os.RemoveAll(base)
	defer verifhook.SetFailer(nil)
	rapid.Check(t, func(rt *rapid.T) {
		dir, _ := os.MkdirTemp(base, "case")
		defer os.RemoveAll(dir)
		model := vfC18NewModel()
		b := vfC18NewBL(dir, nil, nil)
		var pool []string
		for i := 0; i < 5; i++ {
			pool = append(pool, vfC18GenKey(rt))
		}
		pre := vfC18GenOps(rt, rapid.IntRange(0, 5).Draw(rt, "npre"), pool)
		for _, op := range pre {
			if err := vfC18Apply(b, model, op); err != nil {
				rt.Fatalf("%v", err)
			}
		}
		before := model.lines()
		crashOp := vfC18GenOps(rt, 1, pool)[0]
		// crash: the process dies at the step; fault: the step reports an error; survived-panic: the step panics, the
		// caller (an API handler under a recovery wrapper) survives, and whatever persist left on disk stays there
		mode := rapid.SampledFrom([]string{"crash", "crash", "fault", "survived-panic"}).Draw(rt, "mode")
		point := rapid.SampledFrom(vfC18CrashPoints).Draw(rt, "point")
		after := model.clone()
		changed := false
		{
			l0 := strings.Join(after.lines(), ",")
			switch crashOp.Kind {
			case "set":
				after.set(crashOp.Keys[0])
			case "remove":
				after.remove(crashOp.Keys[0])
			case "setbatch":
				for _, k := range crashOp.Keys {
					after.set(k)
				}
			case "removebatch":
				for _, k := range crashOp.Keys {
					after.remove(k)
				}
			}
			changed = strings.Join(after.lines(), ",") != l0
		}
		fired := false
		verifhook.SetFailer(func(p string) error {
			if p != point || fired {
				return nil
			}
			fired = true
			if mode == "crash" || mode == "survived-panic" {
				panic(vfC18Crash{p})
			}
			return fmt.Errorf("injected fault at %s", p)
		})
		func() {
			defer func() {
				if r := recover(); r != nil {
					if _, ok := r.(vfC18Crash); !ok {
						panic(r)
					}
				}
			}()
			switch crashOp.Kind {
			case "set":
				b.Set(crashOp.Keys[0])
			case "remove":
				b.Remove(crashOp.Keys[0])
			case "setbatch":
				b.SetBatch(crashOp.Keys)
			case "removebatch":
				b.RemoveBatch(crashOp.Keys)
			}
		}()
		verifhook.SetFailer(nil)
		// the file is a complete snapshot: the previous list or the new one, never a partial one
		file, ok := vfC18FileLines(filepath.Join(dir, "bl"))
		fl := strings.Join(file, ",")
		if ok || len(before) > 0 {
			if fl != strings.Join(before, ",") && fl != strings.Join(after.lines(), ",") {
				rt.Fatalf("%s at %s during %v: local file %v is neither the previous list %v nor the new one %v", mode, point, crashOp, file, before, after.lines())
			}
		}
		if mode == "fault" || mode == "survived-panic" {
			// the instance lives on: memory holds the new list; a later successful mutation must bring the file back in line
			model = after
		} else {
			// restart over the same directory
			b = vfC18NewBL(dir, nil, nil)
			re := vfC18MemLines(b)
			reM := vfC18NewModel()
			for _, l := range re {
				if strings.HasPrefix(l, "*.") {
					reM.wild[l[2:]] = true
				} else {
					reM.plain[l] = true
				}
			}
			// what the restarted instance blocks must be what a complete earlier or the complete new list blocks
			oldM := vfC18NewModel()
			for _, l := range before {
				if strings.HasPrefix(l, "*.") {
					oldM.wild[l[2:]] = true
				} else {
					oldM.plain[l] = true
				}
			}
			sameAs := func(a, c *vfC18Model) bool {
				for _, l := range append(append(a.lines(), c.lines()...), "com.", "example.com.") {
					n := strings.TrimPrefix(l, "*.")
					for _, q := range []string{n, "x." + n} {
						x, _ := a.blocked(q)
						y, _ := c.blocked(q)
						if x != y {
							return false
						}
					}
				}
				return true
			}
			if !sameAs(reM, oldM) && !sameAs(reM, after) {
				rt.Fatalf("crash at %s during %v: restarted instance loaded %v, which blocks differently from both the previous list %v and the new list %v", point, crashOp, re, before, after.lines())
			}
			model = reM
		}
		post := vfC18GenOps(rt, rapid.IntRange(1, 4).Draw(rt, "npost"), pool)
		if mode == "survived-panic" && (crashOp.Kind == "set" || crashOp.Kind == "setbatch") && rapid.Bool().Draw(rt, "undo") {
			// what the interrupted mutation added is taken out again: nothing left behind by the interruption may bring it back
			post = append(post, vfC18Op{Kind: "removebatch", Keys: crashOp.Keys})
		}
		// make sure at least one op really mutates, so a persist happens after the interruption
		post = append(post, vfC18Op{Kind: "set", Keys: []string{"converge.marker.test."}})
		for _, op := range post {
			if err := vfC18Apply(b, model, op); err != nil {
				rt.Fatalf("post-crash op %v: %v", op, err)
			}
		}
		if err := vfC18Converged(dir, b, model, U); err != nil {
			rt.Fatalf("%s at %s during %v (previous list %v), then %v: %v", mode, point, crashOp, before, post, err)
		}
		vfstat.Eval(U, 1)
		vfstat.Class(U, mode+"@"+strings.TrimPrefix(point, "blocklist.persist."))
		if fired && changed {
			vfstat.Class(U, "interrupted-real-mutation")
			vfstat.NonTrivial(U, fmt.Sprint(mode, point, crashOp.Kind, len(before), len(post)))
			vfstat.Sample(U, mode+point, map[string]any{"previous_list": before, "interrupted_op": crashOp, "mode": mode, "point": point, "then": post})
		}
	})
}
