package views

// C17 (views half): the reply comes from the first view, in declaration order,
// whose networks contain the client; a matching view without a record for the
// question falls through to the rest of the chain; internal writers skip views.

import (
	"context"
	"fmt"
	"net"
	"net/netip"
	"testing"

	"github.com/miekg/dns"
	"github.com/semihalev/sdns/config"
	"github.com/semihalev/sdns/internal/vfgen"
	"github.com/semihalev/sdns/internal/vfstat"
	"github.com/semihalev/sdns/middleware"
	"pgregory.net/rapid"
)

type vfC17Down struct{ calls int }

func (p *vfC17Down) Name() string { return "vfdown" }
func (p *vfC17Down) ServeDNS(ctx context.Context, ch *middleware.Chain) {
	p.calls++
	_, req := ch.Materialize(ctx)
	if req == nil {
		return
	}
	m := new(dns.Msg)
	m.SetReply(req)
	rr, _ := dns.NewRR(req.Question[0].Name + " 60 IN A 198.51.100.99")
	m.Answer = []dns.RR{rr}
	_ = ch.Writer.WriteMsg(m)
	ch.Cancel()
}

func TestVerifC17Views(t *testing.T) {
	defer vfstat.Flush()
	vfstat.Quiet()
	const U = "C17.views"
	names := []string{"a.lan.", "b.lan.", "c.lan."}
	rapid.Check(t, func(rt *rapid.T) {
		nviews := rapid.IntRange(1, 5).Draw(rt, "nviews")
		cfg := &config.Config{}
		type mv struct {
			parsed []netip.Prefix
			has    map[string]string // qname -> watermark address
		}
		var model []mv
		for v := 0; v < nviews; v++ {
			cidrs, parsed := vfgen.GenCIDRList(rt, 4)
			vc := config.ViewConfig{Zone: fmt.Sprintf("view%d", v), Networks: cidrs}
			m := mv{parsed: parsed, has: map[string]string{}}
			for ni, n := range names {
				if rapid.IntRange(0, 2).Draw(rt, "has") > 0 {
					ip := fmt.Sprintf("10.77.%d.%d", v, ni)
					vc.Answers = append(vc.Answers, fmt.Sprintf("%s 30 IN A %s", n, ip))
					m.has[n] = ip
				}
			}
			cfg.Views = append(cfg.Views, vc)
			model = append(model, m)
		}
		vs := New(cfg)
		down := &vfC17Down{}
		ch := middleware.NewChain([]middleware.Handler{vs, down})
		var addrs []netip.Addr
		for _, m := range model {
			for _, p := range m.parsed {
				mk := p.Masked()
				lo, hi := mk.Addr(), vfgen.LastAddr(mk)
				for _, x := range []netip.Addr{lo, lo.Prev(), hi, hi.Next()} {
					if x.IsValid() {
						addrs = append(addrs, x)
					}
				}
			}
		}
		addrs = append(addrs, vfgen.GenAddr().Draw(rt, "addr"))
		if len(addrs) > 24 {
			addrs = addrs[:24]
		}
		for _, addr := range addrs {
			qname := rapid.SampledFrom(names).Draw(rt, "qname")
			internal := rapid.IntRange(0, 9).Draw(rt, "internal") == 0
			proto := rapid.SampledFrom([]string{"udp", "tcp", "doh", "doq"}).Draw(rt, "proto")
			ipForm := net.IP(addr.AsSlice())
			if addr.Is4() && rapid.Bool().Draw(rt, "mapped") {
				ipForm = net.IP(netip.AddrFrom16(addr.As16()).AsSlice())
			}
			tr := vfgen.NewTransport(proto, ipForm, 5353)
			tr.IsInternal = internal
			q := new(dns.Msg)
			q.SetQuestion(qname, dns.TypeA)
			down.calls = 0
			ch.Reset(tr, q)
			ch.Next(context.Background())
			// reference
			first, nmatch := -1, 0
			for i, m := range model {
				if ok, _ := vfgen.RefContains(m.parsed, addr); ok {
					if first < 0 {
						first = i
					}
					nmatch++
				}
			}
			wantIP := "198.51.100.99" // downstream
			if !internal && first >= 0 {
				if ip, ok := model[first].has[qname]; ok {
					wantIP = ip
				}
			}
			if tr.Writes() != 1 || len(tr.Msgs) != 1 {
				rt.Fatalf("views=%+v src=%v: %d replies", cfg.Views, ipForm, tr.Writes())
			}
			got := ""
			if len(tr.Msgs[0].Answer) == 1 {
				if a, ok := tr.Msgs[0].Answer[0].(*dns.A); ok {
					got = a.A.String()
				}
			}
			if got != wantIP {
				rt.Fatalf("views=%+v src=%v qname=%s internal=%v: answered %q, reference (first matching view=%d) wants %q", cfg.Views, ipForm, qname, internal, got, first, wantIP)
			}
			if (wantIP == "198.51.100.99") != (down.calls == 1) {
				rt.Fatalf("downstream calls=%d for expected answer %s", down.calls, wantIP)
			}
			vfstat.Eval(U, 1)
			cls := fmt.Sprintf("first=%d/matching=%d/fallthrough=%v/internal=%v", first, nmatch, wantIP == "198.51.100.99", internal)
			if nmatch >= 2 {
				vfstat.Class(U, "overlapping-views")
			}
			if first >= 0 && wantIP == "198.51.100.99" && !internal {
				vfstat.Class(U, "matched-view-without-record")
			}
			if nmatch >= 1 {
				vfstat.NonTrivial(U, cls+proto+fmt.Sprint(nviews, addr.BitLen()))
				vfstat.Sample(U, cls, map[string]any{"views": cfg.Views, "src": ipForm.String(), "qname": qname, "answer": got, "first_matching_view": first})
			}
		}
	})
}
