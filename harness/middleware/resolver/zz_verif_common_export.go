//go:build verif

package resolver

// VerifSlots reports how many of each limiter's slots are held right now (verification only).
func (h *DNSHandler) VerifSlots() map[string]int {
	r := h.resolver
	out := map[string]int{"attempts": len(r.maxConcurrent), "resolutions": len(r.resolutionSlots), "probes": len(r.probeSlots)}
	if r.v6LookupSlots != nil {
		out["v6-lookups"] = len(r.v6LookupSlots)
	}
	zone := 0
	for i := range r.zoneInflight.buckets {
		zone += int(r.zoneInflight.buckets[i].Load())
	}
	out["zone-inflight"] = zone
	return out
}
