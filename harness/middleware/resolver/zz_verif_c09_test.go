package resolver

// C09 — root trust anchors change only as RFC 5011 permits, across crashes and faults.
// A scripted root publishes generated DNSKEY sets (keys added, removed, re-added, revoked, forged or
// partially signed, tag-colliding) under a virtual clock; the resolver's AutoTA runs against it with
// restarts, crashes at every persistence step, failing writes and damaged stores. A reference ledger of
// what every refresh could have authenticated judges the live trust set after each step.

import (
	"fmt"
	"os"
	"path/filepath"
	"sort"
	"strings"
	"testing"
	"testing/synctest"
	"time"

	"github.com/miekg/dns"
	"github.com/semihalev/sdns/config"
	"github.com/semihalev/sdns/internal/verifhook"
	"github.com/semihalev/sdns/internal/vfstat"
	"github.com/semihalev/sdns/internal/vfworld"
	"pgregory.net/rapid"
)

const vfC09Day = 24 * time.Hour

type vfC09Pub struct {
	Present []int // indices into the key universe
	Revoked []int // subset of Present published with the REVOKE bit
	Signers []int // subset of Present whose signature over the RRset is included
	BadSig  bool  // the signatures are corrupted
}

type vfC09Step struct {
	Kind   string // refresh sleep restart crash writefail corrupt
	Pub    vfC09Pub
	Sleep  time.Duration
	Point  int    // crash: which persistence hook (in order of occurrence) the process dies at
	Files  string // writefail: tombstones state both
	Damage string // corrupt: garbage truncate empty
	Config []int  // restart: the operator's configured anchors
}

type vfC09Case struct{ Steps []vfC09Step }

// key universe: 0 the configured anchor, 1-2 successors, 3 an attacker's key, 4 a key whose tag collides with 0's
var vfC09Keys []*vfworld.Key

func vfC09Universe() []*vfworld.Key {
	if vfC09Keys != nil {
		return vfC09Keys
	}
	for i := 0; i < 4; i++ {
		k := vfworld.NewKey(".", dns.ECDSAP256SHA256, 257, 100+i)
		if i == 1 {
			// K1, the anchor most scenarios revoke, is one of the keys (about 1 in 500) whose key tag does not simply grow
			// by 128 when the REVOKE bit is set: the tag is a folded checksum and the bit carries
			for n := 1000; ; n++ {
				k = vfworld.NewKey(".", dns.ECDSAP256SHA256, 257, n)
				rev := dns.Copy(k.RR).(*dns.DNSKEY)
				rev.Flags |= DNSKEYFlagRevoke
				if rev.KeyTag() != k.RR.KeyTag()+DNSKEYFlagRevoke {
					break
				}
				if n > 20000 {
					panic("harness: no key with a carrying REVOKE bit found")
				}
			}
		}
		vfC09Keys = append(vfC09Keys, k)
	}
	// same tag as key 0, other material: swap two aligned 16-bit words of a copy of key 1 until the tags agree is
	// not generally possible, so collide by search over word swaps of key 0 itself (material differs, tag equal)
	k0 := vfC09Keys[0]
	col := &vfworld.Key{RR: dns.Copy(k0.RR).(*dns.DNSKEY), Priv: k0.Priv}
	raw := []byte(col.RR.PublicKey)
	// eight base64 characters are six octets, i.e. three aligned 16-bit words of the RDATA (the key starts at offset 4):
	// swapping two such groups leaves the key tag's sum unchanged and the material different
	for i := 0; i < 8; i++ {
		raw[i], raw[8+i] = raw[8+i], raw[i]
	}
	col.RR.PublicKey = string(raw)
	if col.RR.KeyTag() != k0.RR.KeyTag() || col.RR.PublicKey == k0.RR.PublicKey {
		panic("harness: the colliding key does not collide")
	}
	vfC09Keys = append(vfC09Keys, col)
	return vfC09Keys
}

func vfC09Form(k *vfworld.Key, revoked bool) *dns.DNSKEY {
	c := dns.Copy(k.RR).(*dns.DNSKEY)
	if revoked {
		c.Flags |= DNSKEYFlagRevoke
	}
	return c
}

func vfC09Material(k *dns.DNSKEY) string { return fmt.Sprintf("%d|%s", k.Algorithm, k.PublicKey) }

func vfC09Has(xs []int, x int) bool {
	for _, v := range xs {
		if v == x {
			return true
		}
	}
	return false
}

func vfC09Gen(rt *rapid.T) *vfC09Case {
	c := &vfC09Case{}
	n := rapid.IntRange(3, 14).Draw(rt, "nsteps")
	present := []int{0}
	revoked := []int{}
	if rapid.IntRange(0, 3).Draw(rt, "scenario") == 0 {
		// a directed opening the random walk seldom finds: two trusted anchors, one goes missing (or not), is then revoked
		// while a generated fault hits the persistence of exactly that refresh; whatever follows is random again
		all := vfC09Pub{Present: []int{0, 1}, Signers: []int{0, 1}}
		c.Steps = append(c.Steps, vfC09Step{Kind: "restart", Config: []int{0, 1}}, vfC09Step{Kind: "refresh", Pub: all})
		if rapid.Bool().Draw(rt, "goesmissing") {
			c.Steps = append(c.Steps, vfC09Step{Kind: "refresh", Pub: vfC09Pub{Present: []int{0}, Signers: []int{0}}},
				vfC09Step{Kind: "sleep", Sleep: time.Duration(rapid.SampledFrom([]int{1, 24, 40 * 24}).Draw(rt, "missingfor")) * time.Hour})
		}
		rev := vfC09Pub{Present: []int{0, 1}, Revoked: []int{1}, Signers: []int{0, 1}}
		if rapid.Bool().Draw(rt, "revonly") {
			rev.Signers = []int{1}
		}
		fault := vfC09Step{Kind: rapid.SampledFrom([]string{"refresh", "crash", "crash", "writefail"}).Draw(rt, "fault"), Pub: rev,
			Point: rapid.IntRange(0, 5).Draw(rt, "crashpoint"), Files: rapid.SampledFrom([]string{"tombstones", "state", "both"}).Draw(rt, "failfiles")}
		c.Steps = append(c.Steps, vfC09Step{Kind: "refresh", Pub: rev}) // sets the publication
		c.Steps[len(c.Steps)-1] = fault
		if fault.Kind != "refresh" {
			// the publication has to be in place before a crash / writefail step runs AutoTA against it
			c.Steps = append(c.Steps[:len(c.Steps)-1], vfC09Step{Kind: "setpub", Pub: rev}, fault)
		}
		c.Steps = append(c.Steps, vfC09Step{Kind: "restart", Config: [][]int{{0, 1}, {0}, {1}}[rapid.IntRange(0, 2).Draw(rt, "config2")]},
			vfC09Step{Kind: "refresh", Pub: vfC09Pub{Present: []int{0, 1}, Revoked: []int{1}, Signers: rapid.SampledFrom([][]int{{0}, {}, {0, 1}}).Draw(rt, "signers2")}})
		present, revoked = []int{0, 1}, []int{1}
	}
	if len(c.Steps) == 0 && (rapid.IntRange(0, 7).Draw(rt, "scenario2") == 0 || os.Getenv("VERIF_C09_FORCE") != "") {
		// a second directed opening: a trusted anchor is revoked in a set that also holds K4, whose key tag collides with
		// that anchor's (so do their revoked forms) - revoked or not, signing or not
		cfg := [][]int{{0, 1}, {0}}[rapid.IntRange(0, 1).Draw(rt, "cfg")]
		c.Steps = append(c.Steps, vfC09Step{Kind: "restart", Config: cfg}, vfC09Step{Kind: "refresh", Pub: vfC09Pub{Present: cfg, Signers: cfg}})
		pub := vfC09Pub{Present: append(append([]int{}, cfg...), 4), Revoked: []int{0}, Signers: append(append([]int{}, cfg...), 4)}
		if rapid.Bool().Draw(rt, "k4revoked") {
			pub.Revoked = []int{0, 4}
		}
		if rapid.Bool().Draw(rt, "k4first") {
			pub.Present = append([]int{4}, cfg...)
		}
		c.Steps = append(c.Steps, vfC09Step{Kind: "refresh", Pub: pub})
		if rapid.Bool().Draw(rt, "restartafter") {
			c.Steps = append(c.Steps, vfC09Step{Kind: "restart", Config: cfg}, vfC09Step{Kind: "refresh", Pub: pub})
		}
		present, revoked = pub.Present, pub.Revoked
	}
	for i := 0; i < n; i++ {
		k := rapid.IntRange(0, 19).Draw(rt, "kind")
		switch {
		case k < 9:
			// evolve the publication a little, then refresh
			switch rapid.IntRange(0, 7).Draw(rt, "evolve") {
			case 0, 1:
				add := rapid.SampledFrom([]int{1, 1, 2, 3, 4}).Draw(rt, "add")
				if !vfC09Has(present, add) {
					present = append(present, add)
				}
			case 2:
				if len(present) > 1 {
					drop := rapid.SampledFrom(present).Draw(rt, "drop")
					var np []int
					for _, p := range present {
						if p != drop {
							np = append(np, p)
						}
					}
					present = np
				}
			case 3:
				r := rapid.SampledFrom(present).Draw(rt, "revoke")
				if !vfC09Has(revoked, r) {
					revoked = append(revoked, r)
				}
			case 4:
				revoked = nil
			}
			var rv []int
			for _, r := range revoked {
				if vfC09Has(present, r) {
					rv = append(rv, r)
				}
			}
			pub := vfC09Pub{Present: append([]int(nil), present...), Revoked: rv, BadSig: rapid.IntRange(0, 9).Draw(rt, "badsig") == 0}
			switch rapid.IntRange(0, 5).Draw(rt, "signers") {
			case 0: // nobody
			case 1: // only the attacker / collider, if present
				for _, p := range present {
					if p >= 3 {
						pub.Signers = append(pub.Signers, p)
					}
				}
			case 2: // only revoked keys (self-signed revocation, nothing else)
				pub.Signers = append(pub.Signers, rv...)
			default: // everybody present (revoked ones sign their revoked form)
				pub.Signers = append(pub.Signers, present...)
			}
			c.Steps = append(c.Steps, vfC09Step{Kind: "refresh", Pub: pub})
		case k < 14:
			c.Steps = append(c.Steps, vfC09Step{Kind: "sleep", Sleep: time.Duration(rapid.SampledFrom([]int{1, 24, 10 * 24, 15 * 24, 29 * 24, 30*24 + 1, 31 * 24, 60 * 24, 89 * 24, 91 * 24}).Draw(rt, "sleephours")) * time.Hour})
		case k < 16:
			cfgKeys := [][]int{{0}, {0}, {0, 1}, {1}, {0, 2}}[rapid.IntRange(0, 4).Draw(rt, "config")]
			c.Steps = append(c.Steps, vfC09Step{Kind: "restart", Config: cfgKeys})
		case k < 17:
			c.Steps = append(c.Steps, vfC09Step{Kind: "crash", Point: rapid.IntRange(0, 5).Draw(rt, "crashpoint")})
		case k < 19:
			c.Steps = append(c.Steps, vfC09Step{Kind: "writefail", Files: rapid.SampledFrom([]string{"tombstones", "state", "both", "both"}).Draw(rt, "failfiles")})
		default:
			c.Steps = append(c.Steps, vfC09Step{Kind: "corrupt", Damage: rapid.SampledFrom([]string{"garbage", "truncate", "empty", "unreadable", "unreadable"}).Draw(rt, "damage")})
		}
	}
	return c
}

// vfC09Ledger is the reference: what each refresh could have authenticated, and what follows from it.
type vfC09Ledger struct {
	initial       map[string]bool      // configured anchors (by material), ever
	pendingSince  map[string]time.Time // first accepted refresh (by a non-revoked trusted key) that listed the key, reset on absence
	eligible      map[string]bool      // completed its 30-day hold-down in accepted refreshes
	durable       map[string]bool      // ... and a trust state written since then has reached the disk: the promotion survives a restart
	revokedAt     map[string]time.Time // self-signed revocation seen in a refresh whose persistence got at least one record out
	lastPresent   map[string]time.Time // last accepted refresh that listed the (un-revoked) key, or the time it became trusted
	missingFrom   map[string]time.Time // first accepted refresh since then that did not
	configured    map[string]bool      // anchors in the running process's configuration
	persisted     map[string]bool      // anchors in the last trust state known to have reached the disk
	uncertain     bool                 // a crash left the disk in a state the ledger only bounds; "changes nothing" is not judged until the next completed refresh
	storeDamaged  bool                 // the tombstone store was damaged behind sdns's back
	justRestarted bool                 // no refresh yet since the process (re)started
}

// restarted: a new process reads the trust state from disk. A hold-down the previous process completed only in memory
// (its state write failed, or it died before writing) is completed again by the next authenticated refresh - the
// pending date is on disk - but until then the key's standing is whatever configuration gives it.
func (l *vfC09Ledger) restarted() {
	l.justRestarted = true
	for m := range l.eligible {
		if !l.durable[m] {
			delete(l.eligible, m)
		}
	}
}

// trusted says whether a signature by the key can authenticate a refresh: the key is in the running process's
// configuration or in the trust state that reached the disk, and it was not revoked.
func (l *vfC09Ledger) trusted(m string) bool {
	_, revoked := l.revokedAt[m]
	return (l.configured[m] || l.persisted[m]) && !revoked
}

func vfC09Run(t *testing.T, c *vfC09Case) (violation string, trace []string, classes map[string]bool) {
	keys := vfC09Universe()
	classes = map[string]bool{}
	fail := func(f string, a ...any) {
		if violation == "" {
			violation = fmt.Sprintf(f, a...)
		}
	}
	dir, _ := os.MkdirTemp(os.Getenv("VERIF_WORKDIR"), "c09")
	defer os.RemoveAll(dir)
	w := vfworld.Build([]vfworld.ZoneSpec{{Apex: "."}})
	synctest.Test(t, func(t *testing.T) {
		time.Sleep(time.Until(vfworld.Epoch))
		verifhook.SetBackground(false)
		netw := &vfworld.Net{W: w, Latency: time.Millisecond}
		verifhook.SetDialer(netw.Dial)
		defer verifhook.SetDialer(nil)
		defer verifhook.SetFailer(nil)
		var pub vfC09Pub
		netw.Script = func(p vfworld.Packet, n int, req, resp *dns.Msg, info vfworld.Info) vfworld.Action {
			if p.Qtype != dns.TypeDNSKEY || p.Name != "." {
				return vfworld.Action{}
			}
			var set []dns.RR
			for _, i := range pub.Present {
				set = append(set, vfC09Form(keys[i], vfC09Has(pub.Revoked, i)))
			}
			resp.Rcode, resp.Authoritative, resp.Ns = dns.RcodeSuccess, true, nil
			resp.Answer = append([]dns.RR(nil), set...)
			for _, i := range pub.Signers {
				form := vfC09Form(keys[i], vfC09Has(pub.Revoked, i))
				sig := &dns.RRSIG{Hdr: dns.RR_Header{Name: ".", Rrtype: dns.TypeRRSIG, Class: dns.ClassINET, Ttl: 3600}, Algorithm: form.Algorithm, SignerName: ".", KeyTag: form.KeyTag(),
					Inception: uint32(time.Now().Add(-time.Hour).Unix()), Expiration: uint32(time.Now().Add(20 * vfC09Day).Unix()), OrigTtl: 3600}
				cp := make([]dns.RR, len(set))
				for j := range set {
					cp[j] = dns.Copy(set[j])
				}
				if i == 4 {
					continue // the collider has no private key of its own
				}
				if err := sig.Sign(keys[i].Priv, cp); err != nil {
					continue
				}
				if pub.BadSig {
					b := []byte(sig.Signature)
					b[7] ^= 1
					if b[7] < '0' {
						b[7] = 'A'
					}
					sig.Signature = string(b)
				}
				resp.Answer = append(resp.Answer, sig)
			}
			return vfworld.Action{}
		}
		mkcfg := func(cfgKeys []int) *config.Config {
			cfg := &config.Config{Directory: dir, DNSSEC: "on", RootServers: w.RootServers(), Maxdepth: 30}
			cfg.Timeout.Duration = 2 * time.Second
			for _, i := range cfgKeys {
				cfg.RootKeys = append(cfg.RootKeys, keys[i].RR.String())
			}
			return cfg
		}
		led := &vfC09Ledger{initial: map[string]bool{}, pendingSince: map[string]time.Time{}, eligible: map[string]bool{}, durable: map[string]bool{}, revokedAt: map[string]time.Time{}, lastPresent: map[string]time.Time{}, missingFrom: map[string]time.Time{}, configured: map[string]bool{}, persisted: map[string]bool{}}
		led.configured[vfC09Material(keys[0].RR)] = true
		configured := []int{0}
		led.initial[vfC09Material(keys[0].RR)] = true
		led.lastPresent[vfC09Material(keys[0].RR)] = time.Now()
		r := NewResolver(mkcfg(configured))
		live := func() map[string]*dns.DNSKEY {
			r.RLock()
			defer r.RUnlock()
			out := map[string]*dns.DNSKEY{}
			for _, rr := range r.rootKeys {
				if k, ok := rr.(*dns.DNSKEY); ok {
					out[vfC09Material(k)] = k
				}
			}
			return out
		}
		name := func(m string) string {
			for i, k := range keys {
				if vfC09Material(k.RR) == m {
					return fmt.Sprintf("K%d", i)
				}
			}
			return "?"
		}
		describe := func() string {
			var s []string
			for m, k := range live() {
				s = append(s, fmt.Sprintf("%s(flags %d)", name(m), k.Flags))
			}
			sort.Strings(s)
			return "[" + strings.Join(s, " ") + "]"
		}
		since := func() string { return time.Since(vfworld.Epoch).Round(time.Hour).String() }
		check := func(when string, prev map[string]*dns.DNSKEY) {
			lv := live()
			for m, k := range lv {
				if k.Flags&DNSKEYFlagRevoke != 0 {
					fail("%s: the live trust set holds %s in its revoked form", when, name(m))
				}
				if at, ok := led.revokedAt[m]; ok {
					fail("%s: %s is a live trust anchor although its self-signed revocation was accepted at t=%s", when, name(m), at.Sub(vfworld.Epoch).Round(time.Hour))
				}
				if !led.initial[m] && !led.eligible[m] {
					fail("%s: %s is a live trust anchor without having been listed for 30 days in refreshes signed by an already trusted key (pending since %v)", when, name(m), led.pendingSince[m])
				}
			}
			if len(lv) == 0 {
				classes["fail-closed"] = true
				return
			}
			// a trusted key that merely disappeared stays trusted for 90 days
			for m := range prev {
				// only for keys whose standing does not rest on a configuration line the operator has since removed
				stillConfigured := false
				for _, i := range configured {
					if vfC09Material(keys[i].RR) == m {
						stillConfigured = true
					}
				}
				if _, revoked := led.revokedAt[m]; revoked || !(stillConfigured || led.eligible[m]) {
					continue
				}
				mf, missing := led.missingFrom[m]
				if _, ok := lv[m]; !ok && (!missing || time.Since(mf) < 90*vfC09Day) {
					fail("%s: %s was dropped from the live trust set although it was never revoked and has not been missing for 90 days", when, name(m))
				}
			}
		}
		var hookLog []string
		var published map[string]*dns.DNSKEY // the live set after the last completed refresh
		for si, st := range c.Steps {
			switch st.Kind {
			case "sleep":
				time.Sleep(st.Sleep)
				trace = append(trace, fmt.Sprintf("t=%s slept %s", since(), st.Sleep))
				continue
			case "restart":
				configured = st.Config
				for _, i := range configured {
					m := vfC09Material(keys[i].RR)
					if !led.initial[m] {
						led.initial[m] = true // the operator vouches for it
						led.lastPresent[m] = time.Now()
					}
				}
				led.configured = map[string]bool{}
				for _, i := range configured {
					led.configured[vfC09Material(keys[i].RR)] = true
				}
				r = NewResolver(mkcfg(configured))
				led.restarted()
				trace = append(trace, fmt.Sprintf("t=%s RESTART with configured anchors %v -> live %s", since(), configured, describe()))
				classes["restart"] = true
				// "never published again, not after restarts nor by configuration that still lists it" holds from the
				// first moment: what NewResolver loads is live until the first refresh gets to run
				if !led.storeDamaged {
					for m := range live() {
						if at, ok := led.revokedAt[m]; ok {
							fail("step %d: after the restart %s is a live trust anchor again; its revocation was accepted at t=%s and configuration still lists it", si, name(m), at.Sub(vfworld.Epoch).Round(time.Hour))
						}
					}
					classes["restart-window-judged"] = true
				}
				continue
			case "setpub":
				pub = st.Pub
				continue
			case "corrupt":
				p := filepath.Join(dir, tombstoneFile)
				if _, err := os.Stat(p); err != nil {
					continue
				}
				switch st.Damage {
				case "garbage":
					_ = os.WriteFile(p, []byte("\x07not a gob stream at all"), 0o600)
				case "truncate":
					if b, err := os.ReadFile(p); err == nil && len(b) > 4 {
						_ = os.WriteFile(p, b[:len(b)/2], 0o600)
					}
				case "empty":
					_ = os.WriteFile(p, nil, 0o600)
				case "unreadable":
					// present but impossible to open (permission bits do not stop root, a self-referencing link does)
					_ = os.Remove(p)
					_ = os.Symlink(filepath.Base(p), p)
				}
				led.storeDamaged = true
				trace = append(trace, fmt.Sprintf("t=%s tombstone store damaged (%s)", since(), st.Damage))
				classes["store-damaged"] = true
				continue
			}
			// refresh-like steps: refresh / crash / writefail all run AutoTA against the current publication
			if st.Kind == "refresh" {
				pub = st.Pub
			}
			before := live()
			wasUncertain := led.uncertain
			hookLog = hookLog[:0]
			crashed := false
			verifhook.SetFailer(func(point string) error {
				if !strings.HasPrefix(point, "gobwrite.") {
					return nil
				}
				hookLog = append(hookLog, point)
				switch st.Kind {
				case "crash":
					if len(hookLog)-1 == st.Point {
						crashed = true
						panic("vfC09: process dies at " + point)
					}
				case "writefail":
					isTomb := strings.HasSuffix(point, tombstoneFile)
					if strings.HasPrefix(point, "gobwrite.begin:") && (st.Files == "both" || (st.Files == "tombstones") == isTomb) {
						return fmt.Errorf("verif: write refused")
					}
				}
				return nil
			})
			func() {
				defer func() {
					if rec := recover(); rec != nil && !crashed {
						panic(rec)
					}
				}()
				r.AutoTA()
			}()
			verifhook.SetFailer(nil)
			synctest.Wait()
			persisted := false
			for _, h := range hookLog {
				if strings.HasPrefix(h, "gobwrite.after-rename:") {
					persisted = true
				}
			}
			// ---- what could this refresh authenticate?
			authFull, authRevOnly := false, false
			if !pub.BadSig && !led.storeDamaged {
				for _, i := range pub.Signers {
					if i == 4 {
						continue
					}
					m := vfC09Material(keys[i].RR)
					if !led.trusted(m) {
						continue
					}
					if vfC09Has(pub.Revoked, i) {
						authRevOnly = true
					} else {
						authFull = true
					}
				}
			}
			now := time.Now()
			selfSignedRevocations := []string{}
			if authFull || authRevOnly {
				for _, i := range pub.Revoked {
					m := vfC09Material(keys[i].RR)
					if led.trusted(m) && vfC09Has(pub.Signers, i) && i != 4 {
						selfSignedRevocations = append(selfSignedRevocations, m)
					}
				}
			}
			if authFull {
				for i := range keys {
					m := vfC09Material(keys[i].RR)
					listed := vfC09Has(pub.Present, i) && !vfC09Has(pub.Revoked, i)
					if listed {
						if _, ok := led.pendingSince[m]; !ok {
							led.pendingSince[m] = now
						}
						if now.Sub(led.pendingSince[m]) >= 30*vfC09Day {
							led.eligible[m] = true
						}
						led.lastPresent[m] = now
						delete(led.missingFrom, m)
					} else {
						if !led.eligible[m] {
							delete(led.pendingSince, m)
						}
						if _, ok := led.missingFrom[m]; !ok {
							led.missingFrom[m] = now
						}
						if led.eligible[m] && now.Sub(led.missingFrom[m]) > 90*vfC09Day {
							// aged out: a later reappearance starts a new hold-down
							led.eligible[m] = false
							delete(led.durable, m)
							delete(led.pendingSince, m)
						}
					}
				}
			}
			line := fmt.Sprintf("t=%s %s: root publishes %v revoked=%v signed-by=%v badsig=%v -> authenticated: full=%v revocation-only=%v; persistence hooks %d (record out: %v) crashed=%v -> live %s",
				since(), st.Kind, pub.Present, pub.Revoked, pub.Signers, pub.BadSig, authFull, authRevOnly, len(hookLog), persisted, crashed, describe())
			trace = append(trace, line)
			classes[st.Kind] = true
			if crashed {
				// the process is gone; whatever reached the disk stays. Revocations count as accepted when a record got out.
				if persisted {
					for _, m := range selfSignedRevocations {
						if _, ok := led.revokedAt[m]; !ok {
							led.revokedAt[m] = now
						}
					}
				}
				for _, h := range hookLog {
					if h == "gobwrite.after-rename:"+stateFile {
						for m, ok := range led.eligible {
							if ok {
								led.durable[m] = true
							}
						}
						led.uncertain = true // a new trust state is on disk; the ledger did not see what the run would have published
						for m := range led.configured {
							led.persisted[m] = true
						}
					}
				}
				r = NewResolver(mkcfg(configured))
				led.restarted()
				classes["crash-then-restart"] = true
				if !led.storeDamaged {
					for m := range live() {
						if at, ok := led.revokedAt[m]; ok {
							fail("step %d: after the crash and restart %s is a live trust anchor again; a record of its revocation (accepted at t=%s) had reached the disk", si, name(m), at.Sub(vfworld.Epoch).Round(time.Hour))
						}
					}
				}
				continue
			}
			after := live()
			// the first refresh after a (re)start swaps what NewResolver loaded from configuration for what the
			// state files say; "changes nothing" is then relative to what the last completed refresh published
			baseline, haveBaseline := before, true
			if led.justRestarted {
				baseline, haveBaseline = published, published != nil
			}
			// I2: a response nothing authenticates changes nothing
			isConfigured := func(m string) bool {
				for _, i := range configured {
					if vfC09Material(keys[i].RR) == m {
						return true
					}
				}
				return false
			}
			if !authFull && !authRevOnly && !led.storeDamaged && haveBaseline && !led.justRestarted && !led.uncertain {
				for m := range before {
					if _, ok := after[m]; !ok {
						fail("step %d: a DNSKEY response that no trusted key authenticates removed %s from the live trust set", si, name(m))
					}
				}
				for m := range after {
					// (a configured anchor that had aged out is merged back from the configuration on every refresh,
					// whatever the response says: the operator's doing, not the response's)
					if _, ok := before[m]; !ok && !isConfigured(m) {
						fail("step %d: a DNSKEY response that no trusted key authenticates added %s to the live trust set", si, name(m))
					}
				}
				classes["unauthenticated-refresh"] = true
			}
			// I3: authenticated only by a revoked key: nothing but that revocation
			if !authFull && authRevOnly && haveBaseline && !led.uncertain {
				classes["revocation-only-refresh"] = true
				for m := range after {
					// (as in I2: a configured anchor that aged out after 90 days missing is merged back from the configuration
					// at the start of every refresh, before the response is even fetched; a revoked one never is - I4)
					if _, ok := baseline[m]; !ok && !(led.justRestarted && led.trusted(m)) && !isConfigured(m) {
						fail("step %d: a DNSKEY response authenticated only by a revoked key added %s to the live trust set", si, name(m))
					}
				}
			}
			// accepted revocations
			bothWritesFailed := st.Kind == "writefail" && st.Files == "both"
			if len(selfSignedRevocations) > 0 {
				classes["revocation-accepted"] = true
				if bothWritesFailed {
					classes["revocation-unpersistable"] = true
					if len(after) != 0 {
						// known finding: sdns files its RFC 5011 state under the key tag. A configured anchor whose tag slot
						// is already taken by another key (K4, pending, collides with K0) never enters that state, so its
						// self-signed revocation is not processed at all - there is nothing to fail closed about in sdns's
						// books, the anchor merely drops out of the live set, and no record of the revocation is attempted
						shadowed := len(selfSignedRevocations) > 0
						for _, m := range selfSignedRevocations {
							if m != vfC09Material(keys[0].RR) {
								shadowed = false
							}
						}
						k4 := false
						for _, i := range pub.Present {
							if i == 4 {
								k4 = true
							}
						}
						if shadowed && k4 && vfstat.KnownOpen("C09-revocation-shadowed-by-colliding-tag") {
							vfstat.Known("C09.anchors", "C09-revocation-shadowed-by-colliding-tag")
							vfstat.ReportKnown("C09-revocation-shadowed-by-colliding-tag")
							classes["known-finding:colliding-tag-shadows-revocation"] = true
						} else {
							fail("step %d: neither record of a new revocation could be written, yet validation keeps a trust set %s instead of failing closed", si, describe())
						}
					}
				} else {
					for _, m := range selfSignedRevocations {
						if _, ok := led.revokedAt[m]; !ok {
							led.revokedAt[m] = now
						}
					}
				}
			}
			// damaged store: fail closed
			if led.storeDamaged {
				if len(after) != 0 {
					fail("step %d: the revocation store is unreadable, yet validation keeps a trust set %s instead of failing closed", si, describe())
				}
			}
			// the swap of "what NewResolver loaded" for "what the state files say" happens in the first refresh that
			// publishes: any refresh when the process started with anchors, but only an authenticated one when it started
			// with none (an empty live set reads as fail-closed mode to sdns, which then publishes nothing before the fetch)
			if authFull || authRevOnly || len(before) > 0 {
				led.justRestarted = false
			}
			if authFull || authRevOnly {
				// the run changed the in-memory trust state; unless the state file write below went through, the next run
				// re-reads an older state and may publish less (never more) than this one did
				led.uncertain = true
			}
			for _, h := range hookLog {
				if h == "gobwrite.after-rename:"+stateFile {
					for m, ok := range led.eligible {
						if ok {
							led.durable[m] = true
						}
					}
					led.persisted = map[string]bool{}
					for m := range after {
						led.persisted[m] = true
					}
					led.uncertain = false
				}
			}
			if !bothWritesFailed && !led.storeDamaged {
				// "stays trusted" is judged against what the previous completed refresh published, not against what a
				// restart loaded from configuration (state takes precedence over configuration, in the cautious direction)
				prev := published
				if wasUncertain {
					prev = nil // the disk lagged behind what was published; a contraction to the older state is not a "drop"
				}
				check(fmt.Sprintf("step %d (%s)", si, st.Kind), prev)
				published = after
			}
		}
	})
	return
}

func TestVerifC09Anchors(t *testing.T) {
	defer vfstat.Flush()
	vfstat.Quiet()
	const U = "C09.anchors"
	// the history of the one listed finding, replayed on every run: while the finding is open it prints its
	// KNOWN-FINDING line here (and whenever the generator arrives at it again); once repaired it passes silently
	all := vfC09Pub{Present: []int{0, 1, 4}, Revoked: []int{0}, Signers: []int{0, 1, 4}}
	if v, trace, _ := vfC09Run(t, &vfC09Case{Steps: []vfC09Step{{Kind: "restart", Config: []int{1}}, {Kind: "refresh", Pub: all}, {Kind: "restart", Config: []int{0}},
		{Kind: "writefail", Files: "both", Pub: all}}}); v != "" {
		t.Fatalf("%s\n  history:\n    %s", v, strings.Join(trace, "\n    "))
	}
	rapid.Check(t, func(rt *rapid.T) {
		c := vfC09Gen(rt)
		v, trace, classes := vfC09Run(t, c)
		if v != "" {
			rt.Fatalf("%s\n  history (K0 configured anchor, K1/K2 successors, K3 attacker's key, K4 collides with K0's tag):\n    %s", v, strings.Join(trace, "\n    "))
		}
		vfstat.Eval(U, 1)
		for k := range classes {
			vfstat.Class(U, k)
		}
		if classes["revocation-accepted"] || classes["crash-then-restart"] || classes["store-damaged"] || classes["revocation-only-refresh"] {
			var shape []string
			for _, s := range c.Steps {
				shape = append(shape, fmt.Sprint(s.Kind, s.Pub, s.Sleep, s.Point, s.Files, s.Damage, s.Config))
			}
			vfstat.NonTrivial(U, fmt.Sprint(shape))
			if len(trace) > 10 {
				trace = trace[:10]
			}
			vfstat.Sample(U, fmt.Sprint(classes["revocation-accepted"], classes["crash-then-restart"], classes["store-damaged"]), map[string]any{"history": trace})
		}
	})
}
