package dnssec

// C14 — in-house DNSSEC primitives vs an independent reference (miekg/dns and
// plain math/big). Overlaid by /verif/run.py; not part of the repository.

import (
	"bytes"
	"crypto"
	"crypto/ecdsa"
	"crypto/ed25519"
	"crypto/elliptic"
	"crypto/sha1"
	"crypto/sha256"
	"crypto/sha512"
	"encoding/base64"
	"encoding/binary"
	"encoding/hex"
	"encoding/json"
	"fmt"
	"math/big"
	"os"
	"path/filepath"
	"sort"
	"strings"
	"sync"
	"testing"
	"time"

	"github.com/miekg/dns"
	"github.com/semihalev/sdns/internal/vfstat"
	"pgregory.net/rapid"
)

// ---------------------------------------------------------------------------
// key tag and DS digest

func vfC14PubKeyGen() *rapid.Generator[string] {
	return rapid.Custom(func(rt *rapid.T) string {
		n := rapid.OneOf(
			rapid.IntRange(0, 40),
			rapid.SampledFrom([]int{0, 1, 2, 3, 4, 189, 190, 191, 192, 193, 194, 383, 384, 385, 576, 577, 4090, 4091, 4092, 4093, 4094, 4096, 6000}),
			rapid.IntRange(0, 1200),
		).Draw(rt, "n")
		raw := make([]byte, n)
		fill := rapid.IntRange(0, 3).Draw(rt, "fill")
		for i := range raw {
			switch fill {
			case 0:
				raw[i] = 0xff
			case 1:
				raw[i] = byte(i)
			default:
				raw[i] = byte(i*131 + fill*17 + n)
			}
		}
		if n > 0 && n <= 64 {
			for i := range raw {
				raw[i] = rapid.Byte().Draw(rt, "b")
			}
		}
		s := base64.StdEncoding.EncodeToString(raw)
		switch rapid.IntRange(0, 9).Draw(rt, "mut") {
		case 0: // wrap with CR/LF at a fixed width
			w := rapid.OneOf(rapid.IntRange(1, 8), rapid.SampledFrom([]int{63, 64, 76, 255, 256, 257, 4, 3}), rapid.IntRange(1, 300)).Draw(rt, "w")
			nl := rapid.SampledFrom([]string{"\n", "\r\n", "\r"}).Draw(rt, "nl")
			var sb strings.Builder
			for i := 0; i < len(s); i += w {
				e := i + w
				if e > len(s) {
					e = len(s)
				}
				sb.WriteString(s[i:e])
				sb.WriteString(nl)
			}
			s = sb.String()
		case 1: // one line break at an arbitrary position
			if len(s) > 0 {
				p := rapid.IntRange(0, len(s)).Draw(rt, "p")
				s = s[:p] + rapid.SampledFrom([]string{"\n", "\r\n", "\r", "\n\n"}).Draw(rt, "nl") + s[p:]
			}
		case 2: // junk / padding mid-stream
			if len(s) > 0 {
				p := rapid.IntRange(0, len(s)).Draw(rt, "p")
				s = s[:p] + rapid.SampledFrom([]string{"=", "==", "!", " ", "A=", "\x00", "A", "AA", "AAA=", "-", "_"}).Draw(rt, "junk") + s[p:]
			}
		case 3: // truncate
			if len(s) > 0 {
				s = s[:rapid.IntRange(0, len(s)-1).Draw(rt, "cut")]
			}
		case 4: // padding inside a chunk boundary
			if len(s) > 260 {
				p := rapid.SampledFrom([]int{252, 254, 255, 256, 257, 258, 260, 511, 512}).Draw(rt, "p")
				if p < len(s) {
					b := []byte(s)
					b[p] = '='
					s = string(b)
				}
			}
		}
		return s
	})
}

func vfC14LibKeyTag(k *dns.DNSKEY) (tag uint16, ok bool) {
	defer func() {
		if recover() != nil {
			ok = false
		}
	}()
	return k.KeyTag(), true
}

func vfC14LibToDS(k *dns.DNSKEY, dt uint8) (ds *dns.DS, ok bool) {
	defer func() {
		if recover() != nil {
			ds, ok = nil, false
		}
	}()
	return k.ToDS(dt), true
}

func vfC14CheckKeyTagDS(k *dns.DNSKEY) (nontrivial string, err error) {
	var got uint16
	func() {
		defer func() {
			if r := recover(); r != nil {
				err = fmt.Errorf("KeyTag panicked: %v (alg %d pk %q)", r, k.Algorithm, k.PublicKey)
			}
		}()
		got = KeyTag(k)
	}()
	if err != nil {
		return "", err
	}
	want, answerable := vfC14LibKeyTag(k)
	if answerable && got != want {
		return "", fmt.Errorf("KeyTag=%d library=%d flags=%d proto=%d alg=%d pk(len %d)=%q", got, want, k.Flags, k.Protocol, k.Algorithm, len(k.PublicKey), vfC14Trunc(k.PublicKey))
	}
	raw, decErr := base64.StdEncoding.DecodeString(k.PublicKey)
	for _, dt := range []uint8{0, 1, 2, 3, 4, 5, 6, 200, 255} {
		ds, ok := vfC14LibToDS(k, dt)
		if !ok {
			continue
		}
		supported := dt == 1 || dt == 2 || dt == 4
		var wantDigest []byte
		if ds != nil {
			wantDigest, _ = hex.DecodeString(ds.Digest)
		}
		if ds == nil {
			// the reference produces no DS: nothing may match; try plausible digests
			for _, n := range []int{20, 32, 48, 64} {
				if dsDigestMatches(k, dt, make([]byte, n)) {
					return "", fmt.Errorf("digest type %d: library yields no DS but dsDigestMatches accepted a zero digest", dt)
				}
			}
			continue
		}
		var m bool
		func() {
			defer func() {
				if r := recover(); r != nil {
					err = fmt.Errorf("dsDigestMatches panicked: %v", r)
				}
			}()
			m = dsDigestMatches(k, dt, wantDigest)
		}()
		if err != nil {
			return "", err
		}
		if m && !supported {
			return "", fmt.Errorf("digest type %d is not one sdns documents as supported, yet it matched", dt)
		}
		// documented stricter classes: empty / undecodable / >4092-octet key material
		strict := !supported || decErr != nil || len(raw) == 0 || len(raw) > 4092
		if !m && !strict {
			return "", fmt.Errorf("digest type %d: library DS %s not matched (pk len %d decoded %d)", dt, ds.Digest, len(k.PublicKey), len(raw))
		}
		if len(wantDigest) > 0 {
			flipped := append([]byte(nil), wantDigest...)
			flipped[len(flipped)-1] ^= 0x40
			if dsDigestMatches(k, dt, flipped) {
				return "", fmt.Errorf("digest type %d: a flipped digest matched", dt)
			}
			if dsDigestMatches(k, dt, wantDigest[:len(wantDigest)-1]) || dsDigestMatches(k, dt, append(append([]byte(nil), wantDigest...), 0)) {
				return "", fmt.Errorf("digest type %d: a digest of the wrong length matched", dt)
			}
		}
		if m {
			nontrivial = "ds-match"
		}
	}
	// VerifyDS level: soundness against the library
	if ds, ok := vfC14LibToDS(k, dns.SHA256); ok && ds != nil && answerable {
		keyMap := map[uint16][]*dns.DNSKEY{want: {k}}
		_, verr := VerifyDS(keyMap, []dns.RR{ds})
		usable := k.Protocol == 3 && k.Flags&dns.ZONE != 0 && IsSupportedDNSKEYAlgorithm(k.Algorithm)
		if verr == nil && !usable {
			return "", fmt.Errorf("VerifyDS accepted a key with protocol=%d flags=%d alg=%d", k.Protocol, k.Flags, k.Algorithm)
		}
		strict := decErr != nil || len(raw) == 0 || len(raw) > 4092
		if verr != nil && usable && !strict {
			return "", fmt.Errorf("VerifyDS rejected the library's own DS for a usable key: %v", verr)
		}
		bad := *ds
		bad.Digest = strings.Repeat("0", len(ds.Digest))
		if _, verr := VerifyDS(keyMap, []dns.RR{&bad}); verr == nil {
			return "", fmt.Errorf("VerifyDS accepted an all-zero digest")
		}
	}
	if nontrivial == "" && answerable && decErr != nil {
		nontrivial = "malformed-b64"
	}
	return nontrivial, nil
}

func vfC14Trunc(s string) string {
	if len(s) > 120 {
		return s[:60] + "…" + s[len(s)-40:]
	}
	return s
}

func TestVerifC14KeyTagDS(t *testing.T) {
	defer vfstat.Flush()
	vfstat.Quiet()
	const U = "C14.keytag_ds"
	rapid.Check(t, func(rt *rapid.T) {
		k := &dns.DNSKEY{
			Hdr:       dns.RR_Header{Name: rapid.SampledFrom([]string{"Example.com.", ".", "a.b.C.d.", "xn--x.example."}).Draw(rt, "owner"), Rrtype: dns.TypeDNSKEY, Class: dns.ClassINET, Ttl: 3600},
			Flags:     rapid.OneOf(rapid.SampledFrom([]uint16{256, 257, 385, 0, 128}), rapid.Uint16()).Draw(rt, "flags"),
			Protocol:  rapid.OneOf(rapid.Just(uint8(3)), rapid.Uint8()).Draw(rt, "proto"),
			Algorithm: rapid.OneOf(rapid.SampledFrom([]uint8{1, 1, 5, 7, 8, 10, 13, 14, 15, 16}), rapid.Uint8()).Draw(rt, "alg"),
			PublicKey: vfC14PubKeyGen().Draw(rt, "pk"),
		}
		nt, err := vfC14CheckKeyTagDS(k)
		if err != nil {
			rt.Fatalf("%v", err)
		}
		vfstat.Eval(U, 1)
		cls := fmt.Sprintf("alg%d", k.Algorithm)
		if k.Algorithm == 1 {
			vfstat.Class(U, "rsamd5")
		}
		if strings.ContainsAny(k.PublicKey, "\r\n") {
			vfstat.Class(U, "wrapped")
			nt += "+wrapped"
		}
		if len(k.PublicKey) > 256 {
			vfstat.Class(U, "multi-chunk")
			nt += "+multichunk"
		}
		if nt != "" {
			vfstat.NonTrivial(U, fmt.Sprintf("%s|%s|%d|%d", nt, cls, len(k.PublicKey), k.Flags&0x181))
			vfstat.Sample(U, nt, map[string]any{"alg": k.Algorithm, "flags": k.Flags, "proto": k.Protocol, "pk_len": len(k.PublicKey), "pk": vfC14Trunc(k.PublicKey), "class": nt})
		}
	})
}

// ---------------------------------------------------------------------------
// signatures

type vfC14RSA struct {
	bits    int
	n, p, q *big.Int
	lambda  *big.Int
}

type vfC14Key struct {
	alg  uint8
	pub  string // DNSKEY public key field
	priv crypto.Signer
	rsa  *vfC14RSA
	e, d *big.Int
}

var (
	vfC14Once    sync.Once
	vfC14RSAPool []*vfC14RSA
	vfC14ECKeys  []*vfC14Key
	vfC14Exps    []*big.Int
)

func vfC14Init(tb testing.TB) {
	vfC14Once.Do(func() {
		root := os.Getenv("VERIF_ROOT")
		if root == "" {
			root = "/verif"
		}
		b, err := os.ReadFile(filepath.Join(root, "corpus", "keys", "rsa_primes.json"))
		if err != nil {
			tb.Fatalf("VERIF-INCONCLUSIVE cannot read key file: %v", err)
		}
		var ks []struct {
			Bits int
			P, Q string
		}
		if err := json.Unmarshal(b, &ks); err != nil {
			tb.Fatalf("VERIF-INCONCLUSIVE key file: %v", err)
		}
		one := big.NewInt(1)
		for _, k := range ks {
			p, _ := new(big.Int).SetString(k.P, 16)
			q, _ := new(big.Int).SetString(k.Q, 16)
			pm, qm := new(big.Int).Sub(p, one), new(big.Int).Sub(q, one)
			g := new(big.Int).GCD(nil, nil, pm, qm)
			lambda := new(big.Int).Div(new(big.Int).Mul(pm, qm), g)
			vfC14RSAPool = append(vfC14RSAPool, &vfC14RSA{bits: k.Bits, n: new(big.Int).Mul(p, q), p: p, q: q, lambda: lambda})
		}
		for _, s := range []string{"3", "65537", "2147483647", "2147483649", "4294967297", "8589934593", "18446744073709551615", "18446744073709551617", "340282366920938463463374607431768211457"} {
			e, _ := new(big.Int).SetString(s, 10)
			vfC14Exps = append(vfC14Exps, e)
		}
		for _, spec := range []struct {
			alg  uint8
			bits int
		}{{dns.ECDSAP256SHA256, 256}, {dns.ECDSAP256SHA256, 256}, {dns.ECDSAP384SHA384, 384}, {dns.ED25519, 256}, {dns.ED25519, 256}} {
			k := &dns.DNSKEY{Hdr: dns.RR_Header{Name: "k.", Rrtype: dns.TypeDNSKEY, Class: dns.ClassINET}, Flags: 256, Protocol: 3, Algorithm: spec.alg}
			priv, err := k.Generate(spec.bits)
			if err != nil {
				tb.Fatalf("VERIF-INCONCLUSIVE keygen: %v", err)
			}
			vfC14ECKeys = append(vfC14ECKeys, &vfC14Key{alg: spec.alg, pub: k.PublicKey, priv: priv.(crypto.Signer)})
		}
	})
}

func vfC14RSAPub(n, e *big.Int, leadingZeroExp, leadingZeroMod bool) string {
	eb := e.Bytes()
	if leadingZeroExp {
		eb = append([]byte{0}, eb...)
	}
	nb := n.Bytes()
	if leadingZeroMod {
		nb = append([]byte{0}, nb...)
	}
	var buf []byte
	if len(eb) < 256 {
		buf = append(buf, byte(len(eb)))
	} else {
		buf = append(buf, 0, byte(len(eb)>>8), byte(len(eb)))
	}
	buf = append(buf, eb...)
	buf = append(buf, nb...)
	return base64.StdEncoding.EncodeToString(buf)
}

func vfC14RSAHash(alg uint8) (crypto.Hash, []byte) {
	switch alg {
	case dns.RSASHA1, dns.RSASHA1NSEC3SHA1:
		return crypto.SHA1, []byte{0x30, 0x21, 0x30, 0x09, 0x06, 0x05, 0x2b, 0x0e, 0x03, 0x02, 0x1a, 0x05, 0x00, 0x04, 0x14}
	case dns.RSASHA256:
		return crypto.SHA256, []byte{0x30, 0x31, 0x30, 0x0d, 0x06, 0x09, 0x60, 0x86, 0x48, 0x01, 0x65, 0x03, 0x04, 0x02, 0x01, 0x05, 0x00, 0x04, 0x20}
	case dns.RSASHA512:
		return crypto.SHA512, []byte{0x30, 0x51, 0x30, 0x0d, 0x06, 0x09, 0x60, 0x86, 0x48, 0x01, 0x65, 0x03, 0x04, 0x02, 0x03, 0x05, 0x00, 0x04, 0x40}
	}
	return 0, nil
}

func vfC14Digest(h crypto.Hash, data []byte) []byte {
	switch h {
	case crypto.SHA1:
		s := sha1.Sum(data)
		return s[:]
	case crypto.SHA256:
		s := sha256.Sum256(data)
		return s[:]
	case crypto.SHA384:
		s := sha512.Sum384(data)
		return s[:]
	case crypto.SHA512:
		s := sha512.Sum512(data)
		return s[:]
	}
	return nil
}

// vfC14EMSA builds EM = 00 01 FF.. 00 || DigestInfo (RFC 8017 §9.2).
func vfC14EMSA(size int, prefix, hashed []byte) []byte {
	t := append(append([]byte(nil), prefix...), hashed...)
	if size < len(t)+11 {
		return nil
	}
	em := make([]byte, size)
	em[1] = 1
	for i := 2; i < size-len(t)-1; i++ {
		em[i] = 0xff
	}
	copy(em[size-len(t):], t)
	return em
}

// vfC14RSASign signs with plain big-integer arithmetic: s = EM^d mod n.
func vfC14RSASign(n, d *big.Int, alg uint8, signed []byte) []byte {
	h, prefix := vfC14RSAHash(alg)
	size := (n.BitLen() + 7) / 8
	em := vfC14EMSA(size, prefix, vfC14Digest(h, signed))
	if em == nil {
		return nil
	}
	s := new(big.Int).Exp(new(big.Int).SetBytes(em), d, n)
	out := make([]byte, size)
	s.FillBytes(out)
	return out
}

// vfC14RSAVerifyRef: s^e mod n == EM, |s| == |n|, s < n.
func vfC14RSAVerifyRef(n, e *big.Int, alg uint8, signed, sig []byte) bool {
	h, prefix := vfC14RSAHash(alg)
	if prefix == nil {
		return false
	}
	size := (n.BitLen() + 7) / 8
	if len(sig) != size {
		return false
	}
	c := new(big.Int).SetBytes(sig)
	if c.Cmp(n) >= 0 {
		return false
	}
	em := vfC14EMSA(size, prefix, vfC14Digest(h, signed))
	if em == nil {
		return false
	}
	m := new(big.Int).Exp(c, e, n)
	got := make([]byte, size)
	m.FillBytes(got)
	return bytes.Equal(got, em)
}

// ---- independent RFC 4034 §3.1.8.1 / §6 canonicaliser ------------------------

func vfC14LowerASCII(s string) string {
	b := []byte(s)
	for i, c := range b {
		if c >= 'A' && c <= 'Z' {
			b[i] = c + 32
		}
	}
	return string(b)
}

func vfC14LowerRdataNames(r dns.RR) {
	switch x := r.(type) {
	case *dns.NS:
		x.Ns = vfC14LowerASCII(x.Ns)
	case *dns.CNAME:
		x.Target = vfC14LowerASCII(x.Target)
	case *dns.SOA:
		x.Ns, x.Mbox = vfC14LowerASCII(x.Ns), vfC14LowerASCII(x.Mbox)
	case *dns.PTR:
		x.Ptr = vfC14LowerASCII(x.Ptr)
	case *dns.MX:
		x.Mx = vfC14LowerASCII(x.Mx)
	case *dns.SRV:
		x.Target = vfC14LowerASCII(x.Target)
	case *dns.DNAME:
		x.Target = vfC14LowerASCII(x.Target)
	case *dns.NAPTR:
		x.Replacement = vfC14LowerASCII(x.Replacement)
	case *dns.RP:
		x.Mbox, x.Txt = vfC14LowerASCII(x.Mbox), vfC14LowerASCII(x.Txt)
	case *dns.AFSDB:
		x.Hostname = vfC14LowerASCII(x.Hostname)
	case *dns.KX:
		x.Exchanger = vfC14LowerASCII(x.Exchanger)
	}
}

func vfC14Labels(name string) []string {
	return dns.SplitDomainName(name)
}

// vfC14SignedData builds RRSIG_RDATA | RR(1) | RR(2)… in canonical form.
func vfC14SignedData(sig *dns.RRSIG, rrset []dns.RR) ([]byte, bool) {
	var buf []byte
	buf = binary.BigEndian.AppendUint16(buf, sig.TypeCovered)
	buf = append(buf, sig.Algorithm, sig.Labels)
	buf = binary.BigEndian.AppendUint32(buf, sig.OrigTtl)
	buf = binary.BigEndian.AppendUint32(buf, sig.Expiration)
	buf = binary.BigEndian.AppendUint32(buf, sig.Inception)
	buf = binary.BigEndian.AppendUint16(buf, sig.KeyTag)
	nb := make([]byte, 256)
	off, err := dns.PackDomainName(vfC14LowerASCII(dns.Fqdn(sig.SignerName)), nb, 0, nil, false)
	if err != nil {
		return nil, false
	}
	buf = append(buf, nb[:off]...)
	type rec struct{ head, rdata []byte }
	var recs []rec
	for _, r := range rrset {
		c := dns.Copy(r)
		h := c.Header()
		h.Ttl = sig.OrigTtl
		labels := vfC14Labels(h.Name)
		if len(labels) > int(sig.Labels) {
			if sig.Labels == 0 {
				return nil, false // "*." for the root: refused by the reference library spelling
			}
			// rebuild from the original string to keep escapes: take the suffix by index
			idx := dns.Split(h.Name)
			h.Name = "*." + h.Name[idx[len(idx)-int(sig.Labels)]:]
		}
		h.Name = vfC14LowerASCII(h.Name)
		vfC14LowerRdataNames(c)
		w := make([]byte, dns.Len(c)+16)
		n, err := dns.PackRR(c, w, 0, nil, false)
		if err != nil {
			return nil, false
		}
		w = w[:n]
		// split at RDATA: owner name then 10 fixed octets
		o := 0
		for w[o] != 0 {
			o += int(w[o]) + 1
		}
		o += 1 + 10
		recs = append(recs, rec{w[:o], w[o:]})
	}
	sort.SliceStable(recs, func(i, j int) bool { return bytes.Compare(recs[i].rdata, recs[j].rdata) < 0 })
	for i, r := range recs {
		if i > 0 && bytes.Equal(r.rdata, recs[i-1].rdata) {
			continue
		}
		buf = append(buf, r.head...)
		buf = append(buf, r.rdata...)
	}
	return buf, true
}

// vfC14BindingRef: the RFC 4034 §3.1 / RFC 4035 §5.3.1 preflight, written from the RFC text.
func vfC14BindingRef(k *dns.DNSKEY, libTag uint16, sig *dns.RRSIG, rrset []dns.RR) bool {
	if len(rrset) == 0 || !dns.IsRRset(rrset) {
		return false
	}
	if k.Protocol != 3 || k.Flags&dns.ZONE == 0 {
		return false
	}
	if sig.KeyTag != libTag || sig.Algorithm != k.Algorithm || sig.Hdr.Class != k.Hdr.Class {
		return false
	}
	if vfC14LowerASCII(dns.Fqdn(sig.SignerName)) != vfC14LowerASCII(dns.Fqdn(k.Hdr.Name)) {
		return false
	}
	h0 := rrset[0].Header()
	if h0.Class != sig.Hdr.Class || h0.Rrtype != sig.TypeCovered || len(vfC14Labels(h0.Name)) < int(sig.Labels) {
		return false
	}
	if vfC14LowerASCII(h0.Name) != vfC14LowerASCII(sig.Hdr.Name) {
		return false
	}
	return true
}

func vfC14OnLabelBoundary(name, zone string) bool {
	nl, zl := vfC14Labels(vfC14LowerASCII(name)), vfC14Labels(vfC14LowerASCII(zone))
	if len(zl) > len(nl) {
		return false
	}
	for i := 1; i <= len(zl); i++ {
		if nl[len(nl)-i] != zl[len(zl)-i] {
			return false
		}
	}
	return true
}

// ---- case generation -----------------------------------------------------------

type vfC14Case struct {
	key    *dns.DNSKEY
	sig    *dns.RRSIG
	rrset  []dns.RR
	desc   []string
	wide   bool // RSA exponent beyond the library's reach
	rsaN   *big.Int
	rsaE   *big.Int
	strict []string // documented stricter classes that apply
}

func vfC14MixCase(rt *rapid.T, s string) string {
	b := []byte(s)
	mode := rapid.IntRange(0, 3).Draw(rt, "casemode")
	for i, c := range b {
		if c >= 'a' && c <= 'z' {
			switch mode {
			case 1:
				b[i] = c - 32
			case 2:
				if i%2 == 0 {
					b[i] = c - 32
				}
			}
		}
	}
	return string(b)
}

func vfC14GenRRset(rt *rapid.T, owner string) []dns.RR {
	typ := rapid.SampledFrom([]uint16{dns.TypeA, dns.TypeAAAA, dns.TypeTXT, dns.TypeTXT, dns.TypeMX, dns.TypeNS, dns.TypeCNAME, dns.TypeSRV, dns.TypeDS, dns.TypeDNSKEY, dns.TypeNSEC, dns.TypePTR, dns.TypeSOA, dns.TypeNAPTR, dns.TypeCAA}).Draw(rt, "rrtype")
	n := rapid.IntRange(1, 5).Draw(rt, "nrr")
	if typ == dns.TypeCNAME || typ == dns.TypeSOA {
		n = 1
	}
	ttl := rapid.SampledFrom([]uint32{0, 1, 300, 3600, 86400, 1 << 31}).Draw(rt, "ttl")
	var out []dns.RR
	names := []string{"Mail.Example.ORG.", "ns1.example.org.", "A.b.", ".", "x\\.y.example.", "UPPER.TEST."}
	for i := 0; i < n; i++ {
		h := dns.RR_Header{Name: owner, Rrtype: typ, Class: dns.ClassINET, Ttl: ttl}
		var rr dns.RR
		switch typ {
		case dns.TypeA:
			rr = &dns.A{Hdr: h, A: []byte{192, 0, 2, byte(rapid.IntRange(0, 3).Draw(rt, "a"))}}
		case dns.TypeAAAA:
			ip := make([]byte, 16)
			ip[0], ip[15] = 0x20, byte(rapid.IntRange(0, 3).Draw(rt, "a"))
			rr = &dns.AAAA{Hdr: h, AAAA: ip}
		case dns.TypeTXT:
			k := rapid.IntRange(1, 3).Draw(rt, "nstr")
			var txt []string
			for j := 0; j < k; j++ {
				txt = append(txt, strings.Repeat(rapid.SampledFrom([]string{"a", "b", "Z", "\\000", "é"}).Draw(rt, "ch"), rapid.IntRange(0, 4).Draw(rt, "len")))
			}
			rr = &dns.TXT{Hdr: h, Txt: txt}
		case dns.TypeMX:
			rr = &dns.MX{Hdr: h, Preference: uint16(rapid.IntRange(0, 2).Draw(rt, "pref")), Mx: rapid.SampledFrom(names).Draw(rt, "mx")}
		case dns.TypeNS:
			rr = &dns.NS{Hdr: h, Ns: rapid.SampledFrom(names).Draw(rt, "ns")}
		case dns.TypeCNAME:
			rr = &dns.CNAME{Hdr: h, Target: rapid.SampledFrom(names).Draw(rt, "t")}
		case dns.TypePTR:
			rr = &dns.PTR{Hdr: h, Ptr: rapid.SampledFrom(names).Draw(rt, "t")}
		case dns.TypeSRV:
			rr = &dns.SRV{Hdr: h, Priority: 1, Weight: uint16(rapid.IntRange(0, 2).Draw(rt, "w")), Port: 443, Target: rapid.SampledFrom(names).Draw(rt, "t")}
		case dns.TypeDS:
			rr = &dns.DS{Hdr: h, KeyTag: uint16(rapid.IntRange(0, 3).Draw(rt, "kt")), Algorithm: 13, DigestType: 2, Digest: strings.Repeat(rapid.SampledFrom([]string{"AB", "ab", "00"}).Draw(rt, "dg"), 32)}
		case dns.TypeDNSKEY:
			rr = &dns.DNSKEY{Hdr: h, Flags: 256, Protocol: 3, Algorithm: 13, PublicKey: base64.StdEncoding.EncodeToString(bytes.Repeat([]byte{byte(i + 1)}, rapid.SampledFrom([]int{3, 32, 64}).Draw(rt, "kl")))}
		case dns.TypeNSEC:
			rr = &dns.NSEC{Hdr: h, NextDomain: rapid.SampledFrom(names).Draw(rt, "next"), TypeBitMap: []uint16{dns.TypeA, dns.TypeRRSIG, dns.TypeNSEC}}
		case dns.TypeSOA:
			rr = &dns.SOA{Hdr: h, Ns: rapid.SampledFrom(names).Draw(rt, "ns"), Mbox: rapid.SampledFrom(names).Draw(rt, "mb"), Serial: 1, Refresh: 2, Retry: 3, Expire: 4, Minttl: 5}
		case dns.TypeNAPTR:
			rr = &dns.NAPTR{Hdr: h, Order: 1, Preference: uint16(i), Flags: "U", Service: "E2U+sip", Regexp: "!^.*$!sip:x@y!", Replacement: rapid.SampledFrom(names).Draw(rt, "t")}
		case dns.TypeCAA:
			rr = &dns.CAA{Hdr: h, Flag: 0, Tag: "issue", Value: rapid.SampledFrom([]string{"ca.example", "CA.example", ""}).Draw(rt, "v")}
		}
		out = append(out, rr)
	}
	// duplicates and order perturbation
	if len(out) > 1 && rapid.Bool().Draw(rt, "dup") {
		out = append(out, dns.Copy(out[rapid.IntRange(0, len(out)-1).Draw(rt, "dupi")]))
	}
	if len(out) > 1 && rapid.Bool().Draw(rt, "rev") {
		for i, j := 0, len(out)-1; i < j; i, j = i+1, j-1 {
			out[i], out[j] = out[j], out[i]
		}
	}
	return out
}

func vfC14GenCase(rt *rapid.T) *vfC14Case {
	c := &vfC14Case{}
	zone := rapid.SampledFrom([]string{"example.org.", "org.", ".", "a.b.c.example."}).Draw(rt, "zone")
	rel := rapid.SampledFrom([]string{"", "www.", "a.b.", "*.", "x.*.y.", "deep.er.name."}).Draw(rt, "rel")
	owner := rel + zone
	if zone == "." && rel != "" {
		owner = rel
	}
	wildLabels := -1
	ownerLabels := len(vfC14Labels(owner))
	zoneLabels := len(vfC14Labels(zone))
	if ownerLabels > zoneLabels && rapid.IntRange(0, 2).Draw(rt, "wild") == 0 {
		wildLabels = rapid.IntRange(zoneLabels, ownerLabels-1).Draw(rt, "wl")
	}
	rrset := vfC14GenRRset(rt, vfC14MixCase(rt, owner))
	h0 := rrset[0].Header()

	sig := &dns.RRSIG{Hdr: dns.RR_Header{Name: vfC14MixCase(rt, owner), Rrtype: dns.TypeRRSIG, Class: dns.ClassINET, Ttl: h0.Ttl},
		TypeCovered: h0.Rrtype, OrigTtl: rapid.SampledFrom([]uint32{h0.Ttl, 0, 7200, 1}).Draw(rt, "origttl"),
		Expiration: uint32(rapid.SampledFrom([]int64{2000000000, 1, 4294967295}).Draw(rt, "exp")), Inception: uint32(rapid.SampledFrom([]int64{1000000000, 0, 4294967295}).Draw(rt, "inc")),
		SignerName: vfC14MixCase(rt, zone)}
	sig.Labels = uint8(ownerLabels)
	if strings.HasPrefix(owner, "*.") {
		sig.Labels--
	}
	if wildLabels >= 0 {
		sig.Labels = uint8(wildLabels)
		c.desc = append(c.desc, "wildcard-expansion")
	}
	key := &dns.DNSKEY{Hdr: dns.RR_Header{Name: vfC14MixCase(rt, zone), Rrtype: dns.TypeDNSKEY, Class: dns.ClassINET, Ttl: 3600}, Flags: rapid.SampledFrom([]uint16{256, 257, 256 | 128}).Draw(rt, "kflags"), Protocol: 3}

	family := rapid.SampledFrom([]string{"rsa", "rsa", "rsa", "ec", "ec"}).Draw(rt, "family")
	var signer func(signed []byte) []byte
	if family == "rsa" {
		mod := vfC14RSAPool[rapid.IntRange(0, len(vfC14RSAPool)-1).Draw(rt, "mod")]
		// keep the 8192-bit modulus rare (slow)
		if mod.bits >= 8192 && rapid.IntRange(0, 9).Draw(rt, "big") != 0 {
			mod = vfC14RSAPool[2]
		}
		e := vfC14Exps[rapid.IntRange(0, len(vfC14Exps)-1).Draw(rt, "exp")]
		d := new(big.Int).ModInverse(e, mod.lambda)
		key.Algorithm = rapid.SampledFrom([]uint8{dns.RSASHA1, dns.RSASHA1NSEC3SHA1, dns.RSASHA256, dns.RSASHA512}).Draw(rt, "rsaalg")
		lzE, lzM := false, false
		switch rapid.IntRange(0, 14).Draw(rt, "keymut") {
		case 0:
			lzE = true
			c.desc = append(c.desc, "leading-zero-exponent")
			c.strict = append(c.strict, "leading-zero")
		case 1:
			lzM = true
			c.desc = append(c.desc, "leading-zero-modulus")
			c.strict = append(c.strict, "leading-zero")
		}
		key.PublicKey = vfC14RSAPub(mod.n, e, lzE, lzM)
		c.rsaN, c.rsaE = mod.n, e
		c.wide = e.BitLen() > 31
		c.desc = append(c.desc, fmt.Sprintf("rsa%d-e%dbits", mod.bits, e.BitLen()))
		if mod.bits < 1024 || mod.bits > 4096 {
			c.strict = append(c.strict, "modulus-size")
		}
		if e.BitLen() > 64 {
			c.strict = append(c.strict, "exponent-width")
		}
		alg := key.Algorithm
		signer = func(signed []byte) []byte { return vfC14RSASign(mod.n, d, alg, signed) }
	} else {
		ek := vfC14ECKeys[rapid.IntRange(0, len(vfC14ECKeys)-1).Draw(rt, "eck")]
		key.Algorithm = ek.alg
		key.PublicKey = ek.pub
		c.desc = append(c.desc, fmt.Sprintf("alg%d", ek.alg))
		signer = func(signed []byte) []byte {
			switch ek.alg {
			case dns.ED25519:
				s, err := ek.priv.Sign(nil, signed, crypto.Hash(0))
				if err != nil {
					return nil
				}
				return s
			default:
				h := crypto.SHA256
				size := 32
				if ek.alg == dns.ECDSAP384SHA384 {
					h, size = crypto.SHA384, 48
				}
				r, s, err := ecdsa.Sign(vfC14Rand{}, ek.priv.(*ecdsa.PrivateKey), vfC14Digest(h, signed))
				if err != nil {
					return nil
				}
				out := make([]byte, 2*size)
				r.FillBytes(out[:size])
				s.FillBytes(out[size:])
				return out
			}
		}
	}
	sig.Algorithm = key.Algorithm
	if tag, ok := vfC14LibKeyTag(key); ok {
		sig.KeyTag = tag
	}
	signed, ok := vfC14SignedData(sig, rrset)
	var sigBytes []byte
	if ok {
		sigBytes = signer(signed)
	}
	// short-signature class: search inception values for a valid RSA signature whose top octet is
	// zero, then present it with that octet stripped (RFC 8017 §8.2.2: length must equal the modulus).
	if ok && family == "rsa" && c.rsaN.BitLen() <= 1032 && rapid.IntRange(0, 19).Draw(rt, "shortsig") == 0 {
		for try := uint32(0); try < 900; try++ {
			sig.Inception = 1000000000 + try
			sd, _ := vfC14SignedData(sig, rrset)
			if sb := signer(sd); len(sb) > 0 && sb[0] == 0 {
				sigBytes = sb[1:]
				c.desc = append(c.desc, "rsa-short-signature")
				break
			}
		}
	}
	if sigBytes == nil {
		sigBytes = bytes.Repeat([]byte{0x5a}, 64)
		c.desc = append(c.desc, "unsignable")
	}

	// post-signing mutations (0–2)
	nm := rapid.SampledFrom([]int{0, 0, 1, 1, 1, 2}).Draw(rt, "nmut")
	for i := 0; i < nm; i++ {
		switch m := rapid.IntRange(0, 21).Draw(rt, "mut"); m {
		case 0:
			if len(sigBytes) == 0 {
				continue
			}
			p := rapid.IntRange(0, len(sigBytes)*8-1).Draw(rt, "bit")
			sigBytes = append([]byte(nil), sigBytes...)
			sigBytes[p/8] ^= 1 << (p % 8)
			c.desc = append(c.desc, "sig-bitflip")
		case 1:
			if len(sigBytes) == 0 {
				continue
			}
			sigBytes = sigBytes[:rapid.IntRange(0, len(sigBytes)-1).Draw(rt, "cut")]
			c.desc = append(c.desc, "sig-truncated")
		case 2:
			sigBytes = append([]byte{0}, sigBytes...)
			c.desc = append(c.desc, "sig-leading-zero")
		case 3:
			if family == "ec" && key.Algorithm != dns.ED25519 { // widen r and s with a leading zero each (66/98 octets)
				half := len(sigBytes) / 2
				w := append([]byte{0}, sigBytes[:half]...)
				w = append(w, 0)
				w = append(w, sigBytes[half:]...)
				sigBytes = w
				c.desc = append(c.desc, "ecdsa-wide-rs")
			}
		case 4:
			half := len(sigBytes) / 2
			sigBytes = append(append([]byte(nil), sigBytes[half:]...), sigBytes[:half]...)
			c.desc = append(c.desc, "sig-swap-halves")
		case 5: // TTL change on records: irrelevant to validity (OrigTtl is signed)
			for _, r := range rrset {
				r.Header().Ttl = 17
			}
			c.desc = append(c.desc, "rr-ttl-changed")
		case 6: // owner case change: irrelevant
			for _, r := range rrset {
				r.Header().Name = strings.ToUpper(r.Header().Name)
			}
			c.desc = append(c.desc, "owner-upper")
		case 7: // reorder: irrelevant
			if len(rrset) > 1 {
				rrset[0], rrset[len(rrset)-1] = rrset[len(rrset)-1], rrset[0]
				c.desc = append(c.desc, "reordered")
			}
		case 8: // duplicate a record: irrelevant
			rrset = append(rrset, dns.Copy(rrset[0]))
			c.desc = append(c.desc, "duplicated")
		case 9: // RDATA change
			switch x := rrset[0].(type) {
			case *dns.A:
				x.A = []byte{198, 51, 100, 1}
			case *dns.TXT:
				x.Txt = append(x.Txt, "x")
			case *dns.MX:
				x.Preference++
			default:
				rrset[0].Header().Class = dns.ClassCHAOS
			}
			c.desc = append(c.desc, "rdata-changed")
		case 10:
			sig.Labels = uint8(rapid.IntRange(0, 8).Draw(rt, "labels"))
			c.desc = append(c.desc, "labels-changed")
		case 11:
			sig.OrigTtl++
			c.desc = append(c.desc, "origttl-changed")
		case 12:
			sig.KeyTag++
			c.desc = append(c.desc, "keytag-changed")
		case 13:
			sig.TypeCovered = dns.TypeTXT + uint16(rapid.IntRange(0, 1).Draw(rt, "tc"))
			c.desc = append(c.desc, "typecovered-changed")
		case 14:
			key.Flags &^= dns.ZONE
			c.desc = append(c.desc, "key-not-zone")
		case 15:
			key.Protocol = uint8(rapid.IntRange(0, 4).Draw(rt, "proto"))
			c.desc = append(c.desc, "key-protocol")
		case 16:
			key.Algorithm = rapid.SampledFrom([]uint8{5, 7, 8, 10, 13, 14, 15, 1, 12, 16, 253}).Draw(rt, "kalg")
			sig.Algorithm = key.Algorithm
			if tag, ok := vfC14LibKeyTag(key); ok {
				sig.KeyTag = tag
			}
			c.desc = append(c.desc, "algorithm-swapped")
		case 17: // signer not on a label boundary of the owner: "evilexample.org." vs "example.org."
			sig.SignerName = "ple.org."
			key.Hdr.Name = "ple.org."
			c.desc = append(c.desc, "signer-string-suffix")
		case 18:
			sig.SignerName = rapid.SampledFrom([]string{"other.", "www." + zone, strings.ToUpper(zone), "org."}).Draw(rt, "sn")
			c.desc = append(c.desc, "signer-changed")
		case 19:
			sig.Expiration, sig.Inception = sig.Inception, sig.Expiration
			c.desc = append(c.desc, "window-swapped")
		case 20:
			sig.Hdr.Name = "other." + zone
			c.desc = append(c.desc, "sig-owner-changed")
		case 21:
			sig.Hdr.Class = dns.ClassCHAOS
			c.desc = append(c.desc, "sig-class")
		}
	}
	sig.Signature = base64.StdEncoding.EncodeToString(sigBytes)
	if rapid.IntRange(0, 30).Draw(rt, "b64junk") == 0 {
		sig.Signature += "!"
		c.desc = append(c.desc, "sig-b64-junk")
	}
	c.key, c.sig, c.rrset = key, sig, rrset

	// documented stricter classes that depend on the final inputs
	switch key.Algorithm {
	case dns.ECDSAP256SHA256, dns.ECDSAP384SHA384:
		size := 32
		if key.Algorithm == dns.ECDSAP384SHA384 {
			size = 48
		}
		if len(sigBytes) != 2*size {
			c.strict = append(c.strict, "ecdsa-width")
		}
		if pub, err := base64.StdEncoding.DecodeString(key.PublicKey); err != nil || len(pub) != 2*size {
			c.strict = append(c.strict, "ecdsa-key-width")
		}
	case dns.ED25519:
		if len(sigBytes) != 64 {
			c.strict = append(c.strict, "ed25519-width")
		}
		if pub, err := base64.StdEncoding.DecodeString(key.PublicKey); err != nil || len(pub) != 32 {
			c.strict = append(c.strict, "ed25519-key-width")
		}
	}
	if len(rrset) > 0 && !vfC14OnLabelBoundary(rrset[0].Header().Name, sig.SignerName) {
		c.strict = append(c.strict, "signer-boundary")
	}
	return c
}

type vfC14Rand struct{}

func (vfC14Rand) Read(p []byte) (int, error) {
	for i := range p {
		p[i] = byte(i*7 + 3)
	}
	return len(p), nil
}

// vfC14Reference: the verdict of plain arithmetic over the harness's own canonical
// form (used where the library cannot answer, and cross-checked against it elsewhere).
func vfC14Reference(c *vfC14Case) (accept bool, answerable bool) {
	tag, ok := vfC14LibKeyTag(c.key)
	if !ok {
		return false, false
	}
	if !vfC14BindingRef(c.key, tag, c.sig, c.rrset) {
		return false, true
	}
	signed, ok := vfC14SignedData(c.sig, c.rrset)
	if !ok {
		return false, true
	}
	sigBytes, err := base64.StdEncoding.DecodeString(c.sig.Signature)
	if err != nil {
		return false, true
	}
	switch c.key.Algorithm {
	case dns.RSASHA1, dns.RSASHA1NSEC3SHA1, dns.RSASHA256, dns.RSASHA512:
		raw, err := base64.StdEncoding.DecodeString(c.key.PublicKey)
		if err != nil || len(raw) < 3 {
			return false, true
		}
		el, off := int(raw[0]), 1
		if el == 0 {
			el, off = int(raw[1])<<8|int(raw[2]), 3
		}
		if el == 0 || len(raw) <= off+el {
			return false, true
		}
		e := new(big.Int).SetBytes(raw[off : off+el])
		n := new(big.Int).SetBytes(raw[off+el:])
		if n.Sign() == 0 || e.Sign() == 0 {
			return false, true
		}
		return vfC14RSAVerifyRef(n, e, c.key.Algorithm, signed, sigBytes), true
	case dns.ECDSAP256SHA256, dns.ECDSAP384SHA384:
		curve, h, size := elliptic.P256(), crypto.SHA256, 32
		if c.key.Algorithm == dns.ECDSAP384SHA384 {
			curve, h, size = elliptic.P384(), crypto.SHA384, 48
		}
		pub, err := base64.StdEncoding.DecodeString(c.key.PublicKey)
		if err != nil || len(pub) != 2*size || len(sigBytes) == 0 || len(sigBytes)%2 != 0 {
			return false, true
		}
		pk, err := ecdsa.ParseUncompressedPublicKey(curve, append([]byte{4}, pub...))
		if err != nil {
			return false, true
		}
		half := len(sigBytes) / 2
		return ecdsa.Verify(pk, vfC14Digest(h, signed), new(big.Int).SetBytes(sigBytes[:half]), new(big.Int).SetBytes(sigBytes[half:])), true
	case dns.ED25519:
		pub, err := base64.StdEncoding.DecodeString(c.key.PublicKey)
		if err != nil || len(pub) != 32 || len(sigBytes) != 64 {
			return false, true
		}
		return ed25519.Verify(ed25519.PublicKey(pub), signed, sigBytes), true
	}
	return false, false
}

func vfC14Lib(c *vfC14Case) (accept, answerable bool) {
	defer func() {
		if recover() != nil {
			accept, answerable = false, false
		}
	}()
	if c.wide {
		return false, false // crypto/rsa cannot load the exponent
	}
	return c.sig.Verify(c.key, c.rrset) == nil, true
}

type vfC14Outcome struct {
	sdns, lib, libOK, ref, refOK bool
	dur                          time.Duration
}

// vfC14Judge applies the oracle; returns a violation text or "".
func vfC14Judge(c *vfC14Case) (vfC14Outcome, string, string) {
	var o vfC14Outcome
	var perr any
	t0 := time.Now()
	func() {
		defer func() { perr = recover() }()
		if IsSupportedDNSKEYAlgorithm(c.key.Algorithm) {
			o.sdns = cryptoVerify(c.key, c.sig, c.rrset) == nil
		} else {
			// cryptoVerify's only caller refuses unsupported algorithms before it; judge that entry instead.
			o.sdns = verifyOneSig(map[uint16][]*dns.DNSKEY{c.sig.KeyTag: {c.key}}, c.rrset, c.sig) == nil
		}
	}()
	o.dur = time.Since(t0)
	if perr != nil {
		return o, fmt.Sprintf("cryptoVerify panicked: %v", perr), ""
	}
	o.lib, o.libOK = vfC14Lib(c)
	o.ref, o.refOK = vfC14Reference(c)
	// harness self-check: outside the documented stricter classes and where both references answer they must agree,
	// otherwise the harness's own canonicaliser/arithmetic is wrong (model bug, not a finding).
	if o.libOK && o.refOK && o.lib != o.ref && len(c.strict) == 0 {
		return o, "", fmt.Sprintf("references disagree (library=%v arithmetic=%v) on %v", o.lib, o.ref, c.desc)
	}
	if o.sdns {
		if o.libOK && !o.lib {
			return o, fmt.Sprintf("sdns ACCEPTS a signature the library rejects: %v", c.desc), ""
		}
		if o.refOK && !o.ref {
			return o, fmt.Sprintf("sdns ACCEPTS a signature that plain arithmetic over the RFC 4034 canonical form rejects: %v", c.desc), ""
		}
		if len(c.strict) > 0 {
			return o, fmt.Sprintf("sdns ACCEPTS an input in a documented stricter class %v: %v", c.strict, c.desc), ""
		}
		if !o.libOK && !o.refOK {
			return o, fmt.Sprintf("sdns ACCEPTS where no reference can vouch: %v", c.desc), ""
		}
	} else if len(c.strict) == 0 {
		if o.libOK && o.lib {
			return o, fmt.Sprintf("sdns REJECTS a signature the library accepts, outside every documented stricter class: %v", c.desc), ""
		}
		if !o.libOK && o.refOK && o.ref && IsSupportedDNSKEYAlgorithm(c.key.Algorithm) {
			return o, fmt.Sprintf("sdns REJECTS a mathematically valid signature (wide exponent %d bits), outside every documented stricter class: %v", c.rsaE.BitLen(), c.desc), ""
		}
	}
	return o, "", ""
}

func vfC14Render(c *vfC14Case, o vfC14Outcome) map[string]any {
	var rrs []string
	for _, r := range c.rrset {
		s := r.String()
		if len(s) > 100 {
			s = s[:100] + "…"
		}
		rrs = append(rrs, s)
	}
	return map[string]any{"desc": c.desc, "strict": c.strict, "alg": c.key.Algorithm, "labels": c.sig.Labels, "origttl": c.sig.OrigTtl, "signer": c.sig.SignerName,
		"rrset": rrs, "sdns_accept": o.sdns, "library_accept": o.lib, "library_answerable": o.libOK, "arithmetic_accept": o.ref}
}

func TestVerifC14Signatures(t *testing.T) {
	vfC14Init(t)
	defer vfstat.Flush()
	vfstat.Quiet()
	const U = "C14.signatures"
	var slow time.Duration
	rapid.Check(t, func(rt *rapid.T) {
		c := vfC14GenCase(rt)
		o, violation, modelbug := vfC14Judge(c)
		if modelbug != "" {
			fmt.Println("VERIF-INCONCLUSIVE harness self-check:", modelbug)
			rt.Fatalf("VERIF-INCONCLUSIVE %s", modelbug)
		}
		if violation != "" {
			b, _ := json.Marshal(vfC14Render(c, o))
			rt.Fatalf("%s\ncase: %s", violation, b)
		}
		if o.dur > slow {
			slow = o.dur
		}
		vfstat.Eval(U, 1)
		verdict := "reject"
		if o.sdns {
			verdict = "accept"
			vfstat.Class(U, "accepted")
		}
		if c.wide {
			vfstat.Class(U, "wide-exponent")
			if o.sdns {
				vfstat.Class(U, "wide-exponent-accepted")
			}
		}
		if len(c.strict) > 0 {
			vfstat.Class(U, "strict-class")
		}
		for _, d := range c.desc {
			if d == "wildcard-expansion" {
				vfstat.Class(U, "wildcard-expansion")
				if o.sdns {
					vfstat.Class(U, "wildcard-accepted")
				}
			}
		}
		// non-trivial: binding preflight passed in the reference (verdict depended on cryptography or an encoding corner)
		tag, ok := vfC14LibKeyTag(c.key)
		if ok && vfC14BindingRef(c.key, tag, c.sig, c.rrset) {
			vfstat.Class(U, "crypto-decided")
			key := fmt.Sprintf("%v|%v|%s|%d|%d", c.desc, c.strict, verdict, c.rrset[0].Header().Rrtype, len(c.rrset))
			vfstat.NonTrivial(U, key)
			vfstat.Sample(U, fmt.Sprint(c.desc, verdict), vfC14Render(c, o))
		}
	})
	vfstat.Note(U, "slowest_cryptoVerify", slow.String())
}

// TestVerifC14Hostile: attacker-sized material must be refused quickly and without panic.
func TestVerifC14Hostile(t *testing.T) {
	vfC14Init(t)
	defer vfstat.Flush()
	vfstat.Quiet()
	const U = "C14.hostile"
	rapid.Check(t, func(rt *rapid.T) {
		alg := rapid.SampledFrom([]uint8{5, 7, 8, 10, 13, 14, 15, 1, 0, 255}).Draw(rt, "alg")
		klen := rapid.SampledFrom([]int{0, 1, 2, 2, 3, 4, 5, 6, 9, 31, 32, 33, 64, 65, 96, 97, 129, 515, 1027, 4092, 4093, 8192, 16384, 65000}).Draw(rt, "klen")
		raw := make([]byte, klen)
		pat := rapid.IntRange(0, 3).Draw(rt, "pat")
		for i := range raw {
			switch pat {
			case 0:
				raw[i] = 0xff
			case 1:
				raw[i] = byte(i)
			case 2:
				raw[i] = 0
			default:
				raw[i] = byte(i * 251)
			}
		}
		if klen >= 2 && klen <= 256 && rapid.IntRange(0, 5).Draw(rt, "exponly") == 0 {
			// the exponent length octet, exactly that many exponent octets (first one non-zero), and no modulus at all
			raw[0] = byte(klen - 1)
			raw[1] |= 1
		} else if klen >= 5 && rapid.IntRange(0, 9).Draw(rt, "exponly3") == 0 {
			// the same in the three-octet length form
			raw[0], raw[1], raw[2] = 0, byte((klen-3)>>8), byte(klen-3)
			raw[3] |= 1
		} else if klen > 3 {
			switch rapid.IntRange(0, 4).Draw(rt, "hdr") {
			case 0: // huge exponent length
				raw[0] = 0
				raw[1] = byte((klen / 2) >> 8)
				raw[2] = byte(klen / 2)
			case 1:
				raw[0] = byte(min(klen-2, 255))
			case 2:
				raw[0] = 1
				raw[1] = 3
			case 3:
				raw[0] = 8
			}
		}
		slen := rapid.SampledFrom([]int{0, 1, 63, 64, 65, 96, 128, 512, 513, 1024, 8192, 65000}).Draw(rt, "slen")
		sg := bytes.Repeat([]byte{byte(rapid.IntRange(0, 255).Draw(rt, "sb"))}, slen)
		k := &dns.DNSKEY{Hdr: dns.RR_Header{Name: "example.", Rrtype: dns.TypeDNSKEY, Class: dns.ClassINET}, Flags: 257, Protocol: 3, Algorithm: alg, PublicKey: base64.StdEncoding.EncodeToString(raw)}
		rr := &dns.A{Hdr: dns.RR_Header{Name: "www.example.", Rrtype: dns.TypeA, Class: dns.ClassINET, Ttl: 60}, A: []byte{192, 0, 2, 1}}
		var tag uint16
		t0 := time.Now()
		func() {
			defer func() {
				if r := recover(); r != nil {
					rt.Fatalf("KeyTag panicked on %d-octet key alg %d: %v", klen, alg, r)
				}
			}()
			tag = KeyTag(k)
		}()
		now := uint32(time.Now().Unix())
		sig := &dns.RRSIG{Hdr: dns.RR_Header{Name: "www.example.", Rrtype: dns.TypeRRSIG, Class: dns.ClassINET, Ttl: 60}, TypeCovered: dns.TypeA, Algorithm: alg, Labels: 2, OrigTtl: 60,
			Expiration: now + 86400, Inception: now - 86400, KeyTag: tag, SignerName: "example.", Signature: base64.StdEncoding.EncodeToString(sg)}
		var err error
		func() {
			defer func() {
				if r := recover(); r != nil {
					rt.Fatalf("signature verification panicked on %d-octet key / %d-octet signature alg %d: %v", klen, slen, alg, r)
				}
			}()
			// the entry every caller uses (it gates unsupported algorithms before cryptoVerify)
			err = verifyOneSig(map[uint16][]*dns.DNSKEY{tag: {k}}, []dns.RR{rr}, sig)
			if err == nil {
				return
			}
			if IsSupportedDNSKEYAlgorithm(alg) {
				err = cryptoVerify(k, sig, []dns.RR{rr})
			}
		}()
		d := time.Since(t0)
		if err == nil {
			rt.Fatalf("signature verification accepted synthetic garbage: key %d octets alg %d sig %d octets", klen, alg, slen)
		}
		_ = dsDigestMatches(k, 2, make([]byte, 32))
		vfstat.Eval(U, 1)
		vfstat.NonTrivial(U, fmt.Sprint(alg, klen, slen, pat))
		if d > 250*time.Millisecond {
			// timing is a canary only (never a violation): report it
			vfstat.Class(U, "slow>250ms")
			vfstat.Note(U, fmt.Sprintf("slow_alg%d_k%d_s%d", alg, klen, slen), d.String())
		}
		vfstat.Sample(U, fmt.Sprint(alg), map[string]any{"alg": alg, "key_octets": klen, "sig_octets": slen, "rejected_in": d.String()})
	})
}

// FuzzVerifC14Signatures puts the same generated case and the same judge under Go's coverage-guided fuzzer
// (thorough tier): the fuzzer's bytes drive rapid's generators, so coverage feedback steers key / signature /
// RRset / mutation choices towards verifier paths random sampling reaches rarely.
func FuzzVerifC14Signatures(f *testing.F) {
	vfC14Init(f)
	vfstat.Quiet()
	// starting corpus: fixed pseudo-random byte strings, i.e. a spread of ordinary generated cases for the fuzzer to mutate
	x := uint64(0x9e3779b97f4a7c15)
	for i := 0; i < 96; i++ {
		b := make([]byte, 4096)
		for j := range b {
			x ^= x << 13
			x ^= x >> 7
			x ^= x << 17
			b[j] = byte(x >> 24)
		}
		f.Add(b)
	}
	f.Fuzz(rapid.MakeFuzz(func(rt *rapid.T) {
		c := vfC14GenCase(rt)
		o, violation, modelbug := vfC14Judge(c)
		if modelbug != "" {
			rt.Skip("harness self-check: " + modelbug)
		}
		if violation != "" {
			b, _ := json.Marshal(vfC14Render(c, o))
			rt.Fatalf("VERIF-VIOLATION %s\ncase: %s", violation, b)
		}
	}))
}
