package dnssec

// C02 (verifier half) — denial of existence is accepted only when actually proven.
// Generated signed zones (delegations, DNAMEs, wildcards, empty non-terminals, escaped
// labels, opt-out), any subset / order / pollution of their genuine NSEC or NSEC3 chains,
// any query name and type: whenever a verifier or the RFC 8198 evaluator accepts a
// negative claim, the zone's ground truth must agree.

import (
	"fmt"
	"net"
	"sort"
	"strings"
	"testing"

	"github.com/miekg/dns"
	"github.com/semihalev/sdns/internal/dnsname"
	"github.com/semihalev/sdns/internal/dnsutil"
	"github.com/semihalev/sdns/internal/vfmodel"
	"github.com/semihalev/sdns/internal/vfstat"
	"pgregory.net/rapid"
)

func vfC02Subset[T dns.RR](rt *rapid.T, all []T, label string) []dns.RR {
	var out []dns.RR
	mode := rapid.IntRange(0, 3).Draw(rt, label+".mode")
	for _, r := range all {
		keep := true
		switch mode {
		case 1:
			keep = rapid.IntRange(0, 3).Draw(rt, label+".keep") != 0
		case 2:
			keep = rapid.Bool().Draw(rt, label+".keep")
		case 3:
			keep = rapid.IntRange(0, 3).Draw(rt, label+".keep") == 0
		}
		if keep {
			out = append(out, dns.Copy(r))
		}
	}
	if len(out) > 1 && rapid.Bool().Draw(rt, label+".shuffle") {
		k := rapid.IntRange(1, len(out)-1).Draw(rt, label+".rot")
		out = append(out[k:], out[:k]...)
	}
	return out
}

type vfC02Verdict struct {
	fn      string
	accept  bool
	secure  bool
	claimed string // nxdomain nodata insecure-delegation
}

// vfC02Judge compares one accepted claim with ground truth. Returns "" when consistent.
func vfC02Judge(z *vfmodel.Zone, qname string, qtype uint16, v vfC02Verdict, nsec3 bool) string {
	if !v.accept {
		return ""
	}
	tr := z.Truth(qname, qtype)
	// Without the secure flag an NSEC3 verdict rests on an opt-out span. Such a span says only "no signed name
	// hashes in here" (RFC 5155 §6, §12.2: unsigned delegations may be inserted in it), so the verdict is insecure
	// data, not a proof, and is wrong only when it contradicts what the signed part of the zone does prove: the
	// name is a signed owner or an empty non-terminal above one, or lies below a signed delegation or a DNAME.
	optOutExcuse := false
	if nsec3 && z.OptOut && !v.secure {
		optOutExcuse = true
		for _, n := range z.NSEC3Names() {
			if n == qname || vfmodel.StrictSubdomain(n, qname) {
				optOutExcuse = false
			}
		}
		if tr.Kind == "dname" || (tr.Kind == "referral" && tr.SecureCut) {
			optOutExcuse = false
		}
	}
	switch v.claimed {
	case "nxdomain":
		if tr.Kind == "nxdomain" {
			return ""
		}
		if optOutExcuse {
			return "" // the name sits at or below an insecure delegation hidden in an opt-out span; accepted without AD
		}
		return fmt.Sprintf("%s accepted NXDOMAIN for %s, but the zone says %+v", v.fn, qname, tr)
	case "nodata":
		switch tr.Kind {
		case "nodata":
			return ""
		case "nxdomain":
			return "" // a wrong rcode for a name that does not exist denies nothing that exists
		case "referral":
			if qtype == dns.TypeDS && qname == tr.Cut {
				return ""
			}
		}
		if optOutExcuse {
			return ""
		}
		return fmt.Sprintf("%s accepted NODATA for %s/%s, but the zone says %+v", v.fn, qname, dns.TypeToString[qtype], tr)
	case "insecure-delegation":
		if z.IsDelegation(qname) && !z.Owners[qname][dns.TypeDS] {
			return ""
		}
		if nsec3 && z.OptOut && !v.secure {
			// an opt-out span proves only "no signed delegation here"
			if t, ok := z.Owners[qname]; !ok || !t[dns.TypeDS] {
				return ""
			}
		}
		return fmt.Sprintf("%s accepted 'no DS, insecure delegation' for %s, but the zone says owner types %v (delegation=%v)", v.fn, qname, z.Owners[qname], z.IsDelegation(qname))
	}
	return ""
}

func vfC02Types(m map[uint16]bool) string {
	var s []string
	for t := range m {
		s = append(s, dns.TypeToString[t])
	}
	sort.Strings(s)
	return strings.Join(s, ",")
}

func TestVerifC02NSEC(t *testing.T) {
	defer vfstat.Flush()
	vfstat.Quiet()
	const U = "C02.nsec"
	rapid.Check(t, func(rt *rapid.T) {
		apex := rapid.SampledFrom([]string{"example.", "example.", "test.", "sub.example.", "."}).Draw(rt, "apex")
		z := vfmodel.GenZone(rt, apex, 7, nil)
		chain := z.NSECChain(3600)
		set := vfC02Subset(rt, chain, "chain")
		// pollution: genuine records of a sibling / child / parent zone, replayed
		polluted := false
		if rapid.IntRange(0, 3).Draw(rt, "pollute") == 0 {
			// siblings and ancestors only: a record owned at or below the apex would have to carry the zone's own
			// signature to get this far (VerifyRRSIG runs before the denial verifiers)
			other := vfmodel.GenZone(rt, rapid.SampledFrom([]string{"evil" + apex, "evil\\." + apex, "other.", "."}).Draw(rt, "otherapex"), 4, nil)
			if other.Apex != z.Apex && !vfmodel.IsSubdomain(other.Apex, z.Apex) {
				set = append(set, vfC02Subset(rt, other.NSECChain(3600), "other")...)
				polluted = true
			}
		}
		qname := vfmodel.GenQName(rt, z, nil)
		if rapid.IntRange(0, 5).Draw(rt, "upper") == 0 {
			qname = strings.ToUpper(qname)
		}
		qtype := rapid.SampledFrom([]uint16{dns.TypeA, dns.TypeA, dns.TypeAAAA, dns.TypeTXT, dns.TypeCNAME, dns.TypeNS, dns.TypeDS, dns.TypeMX, dns.TypeSOA, dns.TypeDNAME}).Draw(rt, "qtype")
		q := dns.Question{Name: qname, Qtype: qtype, Qclass: dns.ClassINET}
		// the zone is class IN. One case in eight the question is asked in class CH, or the records given are a
		// class-CH copy of the chain: then nothing in the set speaks about the question's class
		foreignClass := ""
		switch rapid.IntRange(0, 15).Draw(rt, "classmix") {
		case 0:
			q.Qclass, foreignClass = dns.ClassCHAOS, "question in class CH, records in class IN"
		case 1:
			for i, rr := range set {
				c := dns.Copy(rr)
				c.Header().Class = dns.ClassCHAOS
				set[i] = c
			}
			foreignClass = "question in class IN, records in class CH"
		}
		msg := &dns.Msg{Question: []dns.Question{q}}
		// exactly what Resolver.authority does before calling the verifiers
		filtered := dnsutil.FilterRRsToZone(set, z.Apex)
		for _, rr := range filtered {
			if !vfmodel.IsSubdomain(rr.Header().Name, z.Apex) {
				rt.Fatalf("FilterRRsToZone(%s) kept out-of-zone owner %s", z.Apex, rr.Header().Name)
			}
		}
		lq := strings.ToLower(qname)
		tr := z.Truth(lq, qtype)
		var verdicts []vfC02Verdict
		verdicts = append(verdicts,
			vfC02Verdict{fn: "VerifyNameErrorNSEC", accept: len(filtered) > 0 && VerifyNameErrorNSEC(msg, filtered) == nil, secure: true, claimed: "nxdomain"},
			vfC02Verdict{fn: "VerifyNODATANSEC", accept: len(filtered) > 0 && VerifyNODATANSEC(msg, filtered) == nil, secure: true, claimed: "nodata"},
			vfC02Verdict{fn: "VerifyDelegationNSEC", accept: VerifyDelegationNSEC(qname, filtered) == nil, secure: true, claimed: "insecure-delegation"},
		)
		if res, err := EvaluateAggressiveNSEC(q, z.Apex, filtered); err == nil {
			claim := "nodata"
			if res.Rcode == dns.RcodeNameError {
				claim = "nxdomain"
			}
			verdicts = append(verdicts, vfC02Verdict{fn: "EvaluateAggressiveNSEC", accept: true, secure: true, claimed: claim})
			vfstat.Class(U, "synthesised:"+claim)
			// the prepared / set forms must agree with the plain one
			var prepared []PreparedNSEC
			okPrep := true
			for _, rr := range filtered {
				p, perr := PrepareAggressiveNSEC(rr.(*dns.NSEC))
				if perr != nil {
					okPrep = false
					break
				}
				prepared = append(prepared, p)
			}
			if okPrep {
				if r2, err2 := EvaluateAggressiveNSECPrepared(q, z.Apex, prepared); err2 != nil || r2.Rcode != res.Rcode {
					rt.Fatalf("EvaluateAggressiveNSECPrepared disagrees with EvaluateAggressiveNSEC: %v/%v vs rcode %d", r2.Rcode, err2, res.Rcode)
				}
			}
		}
		accepted := false
		for _, v := range verdicts {
			if v.accept {
				accepted = true
				vfstat.Class(U, "accepted:"+v.claimed)
			}
			if v.accept && foreignClass != "" && v.fn != "VerifyDelegationNSEC" {
				// (VerifyDelegationNSEC takes no question: its caller asks DS in class IN by construction)
				rt.Fatalf("%s accepted %s for %s/%s from records of another class (%s)\n  %s", v.fn, v.claimed, qname, dns.TypeToString[qtype], foreignClass, z.Describe())
			}
			// the delegation claim is about the (lower-cased) name itself
			if bad := vfC02Judge(z, lq, qtype, v, false); bad != "" {
				var recs []string
				for _, rr := range filtered {
					n := rr.(*dns.NSEC)
					recs = append(recs, fmt.Sprintf("%s->%s{%s}", n.Hdr.Name, n.NextDomain, vfC02TypesOf(n.TypeBitMap)))
				}
				rt.Fatalf("%s\n  %s\n  records given: %v", bad, z.Describe(), recs)
			}
		}
		vfstat.Eval(U, 1)
		cls := tr.Kind
		if tr.ENT {
			cls = "ent"
		}
		if tr.Wildcard {
			cls += "+wildcard"
		}
		vfstat.Class(U, "truth:"+cls)
		if polluted {
			vfstat.Class(U, "polluted")
		}
		if foreignClass != "" {
			vfstat.Class(U, "foreign-class")
		}
		if len(filtered) < len(chain) {
			vfstat.Class(U, "partial-chain")
		}
		if accepted {
			vfstat.Class(U, "accepted")
		}
		if accepted || len(filtered) != len(chain) {
			vfstat.NonTrivial(U, fmt.Sprint(cls, qtype, len(chain), len(filtered), accepted, polluted, len(vfmodel.Labels(lq))))
			vfstat.Sample(U, cls+fmt.Sprint(accepted), map[string]any{"zone": z.Describe(), "records_given": len(filtered), "chain_size": len(chain), "qname": qname, "qtype": dns.TypeToString[qtype], "truth": fmt.Sprintf("%+v", tr), "accepted": accepted})
		}
	})
}

func vfC02TypesOf(bm []uint16) string {
	var s []string
	for _, t := range bm {
		s = append(s, dns.TypeToString[t])
	}
	return strings.Join(s, ",")
}

func TestVerifC02NSEC3(t *testing.T) {
	defer vfstat.Flush()
	vfstat.Quiet()
	const U = "C02.nsec3"
	rapid.Check(t, func(rt *rapid.T) {
		apex := rapid.SampledFrom([]string{"example.", "example.", "test.", "sub.example."}).Draw(rt, "apex")
		z := vfmodel.GenZone(rt, apex, 7, []string{"a", "b", "c", "*", "x", "ab", "z"})
		chain := z.NSEC3Chain(3600)
		set := vfC02Subset(rt, chain, "chain")
		mixed := false
		switch rapid.IntRange(0, 7).Draw(rt, "pollute") {
		case 0: // same zone, other parameters: a second, incompatible chain
			o := *z
			o.Salt = "00ff"
			o.Iterations = z.Iterations + 1
			extra := vfC02Subset(rt, o.NSEC3Chain(3600), "mixparams")
			if len(extra) > 0 && len(set) > 0 {
				set = append(set, extra...)
				mixed = true
			}
		case 1: // another class
			if len(set) > 0 {
				c := dns.Copy(set[0])
				c.Header().Class = dns.ClassCHAOS
				set = append(set, c)
				mixed = true
			}
		case 2: // records of a child zone under the same apex label space
			child := vfmodel.GenZone(rt, "b."+apex, 3, []string{"a", "b", "x"})
			child.Salt, child.Iterations = z.Salt, z.Iterations
			set = append(set, vfC02Subset(rt, child.NSEC3Chain(3600), "child")...)
		}
		qname := vfmodel.GenQName(rt, z, []string{"a", "b", "c", "x", "ab", "z", "w"})
		qtype := rapid.SampledFrom([]uint16{dns.TypeA, dns.TypeA, dns.TypeAAAA, dns.TypeTXT, dns.TypeCNAME, dns.TypeNS, dns.TypeDS, dns.TypeDS, dns.TypeMX}).Draw(rt, "qtype")
		q := dns.Question{Name: qname, Qtype: qtype, Qclass: dns.ClassINET}
		msg := &dns.Msg{Question: []dns.Question{q}}
		filtered := dnsutil.FilterRRsToZone(set, z.Apex)
		tr := z.Truth(qname, qtype)
		type call struct {
			fn      string
			claimed string
			run     func() (bool, error)
		}
		calls := []call{
			{"VerifyNameErrorForZoneWithWork", "nxdomain", func() (bool, error) { return VerifyNameErrorForZoneWithWork(msg, filtered, z.Apex, nil) }},
			{"VerifyNODATAForZoneWithWork", "nodata", func() (bool, error) { return VerifyNODATAForZoneWithWork(msg, filtered, z.Apex, nil) }},
			{"VerifyDelegationForZoneWithWork", "insecure-delegation", func() (bool, error) {
				return false, VerifyDelegationForZoneWithWork(qname, z.Apex, filtered, nil)
			}},
		}
		accepted := false
		for _, c := range calls {
			secure, err := c.run()
			if err != nil {
				continue
			}
			accepted = true
			vfstat.Class(U, "accepted:"+c.claimed)
			if mixed {
				rt.Fatalf("%s accepted a record set mixing NSEC3 parameters or classes\n  %s", c.fn, z.Describe())
			}
			if c.claimed == "insecure-delegation" {
				secure = false // this verifier has no secure flag: an opt-out span is a legal basis for it
			}
			if secure && z.OptOut && c.claimed != "insecure-delegation" {
				// secure=true under opt-out is fine only when no opt-out span was needed; truth must then hold strictly
			}
			if bad := vfC02Judge(z, qname, qtype, vfC02Verdict{fn: c.fn, accept: true, secure: secure, claimed: c.claimed}, true); bad != "" {
				rt.Fatalf("%s (secure=%v)\n  %s", bad, secure, z.Describe())
			}
		}
		if res, err := EvaluateAggressiveNSEC3(q, z.Apex, filtered, nil); err == nil {
			accepted = true
			if mixed {
				rt.Fatalf("EvaluateAggressiveNSEC3 accepted a record set mixing NSEC3 parameters or classes")
			}
			claim := "nodata"
			if res.Rcode == dns.RcodeNameError {
				claim = "nxdomain"
			}
			vfstat.Class(U, "synthesised:"+claim)
			// RFC 8198 synthesis never rests on opt-out: judged as a fully secure claim
			if bad := vfC02Judge(z, qname, qtype, vfC02Verdict{fn: "EvaluateAggressiveNSEC3", accept: true, secure: true, claimed: claim}, true); bad != "" {
				rt.Fatalf("%s\n  %s", bad, z.Describe())
			}
			// no opt-out span may carry the synthesis (a flagged record may match a name, never cover one):
			// the closest encloser is the longest name the proof matches, and the names it must cover are the
			// next closer name and the wildcard at the closest encloser
			matches := func(nm string) bool {
				for _, rr := range res.Proof {
					if n3, ok := rr.(*dns.NSEC3); ok && strings.EqualFold(strings.SplitN(n3.Hdr.Name, ".", 2)[0], z.NSEC3Hash(nm)) {
						return true
					}
				}
				return false
			}
			if !matches(qname) {
				walk := append([]string{qname}, z.Ancestors(qname)...)
				for i := 1; i < len(walk); i++ {
					if !matches(walk[i]) {
						continue
					}
					for _, nm := range []string{walk[i-1], "*." + walk[i]} {
						h := z.NSEC3Hash(nm)
						for _, rr := range res.Proof {
							n3, ok := rr.(*dns.NSEC3)
							if !ok || n3.Flags&1 == 0 {
								continue
							}
							own := strings.ToLower(strings.SplitN(n3.Hdr.Name, ".", 2)[0])
							next := strings.ToLower(n3.NextDomain)
							if (own < next && own < h && h < next) || (own >= next && (h > own || h < next)) {
								rt.Fatalf("EvaluateAggressiveNSEC3 synthesised %s for %s from an opt-out span %s..%s covering %s\n  %s", claim, qname, own, next, nm, z.Describe())
							}
						}
					}
					break
				}
			}
		}
		vfstat.Eval(U, 1)
		cls := tr.Kind
		if tr.ENT {
			cls = "ent"
		}
		vfstat.Class(U, "truth:"+cls)
		if z.OptOut {
			vfstat.Class(U, "opt-out-zone")
		}
		if mixed {
			vfstat.Class(U, "mixed-parameters")
		}
		if len(filtered) < len(chain) {
			vfstat.Class(U, "partial-chain")
		}
		if accepted {
			vfstat.Class(U, "accepted")
		}
		if accepted || mixed || len(filtered) != len(chain) {
			vfstat.NonTrivial(U, fmt.Sprint(cls, qtype, len(chain), len(filtered), accepted, mixed, z.OptOut, z.Iterations))
			vfstat.Sample(U, cls+fmt.Sprint(accepted, mixed), map[string]any{"zone": z.Describe(), "records_given": len(filtered), "chain_size": len(chain), "qname": qname, "qtype": dns.TypeToString[qtype], "truth": fmt.Sprintf("%+v", tr), "accepted": accepted, "mixed": mixed})
		}
	})
}

// TestVerifC02Order: canonical ordering and interval cover against references written from RFC 4034 §6.1.
func TestVerifC02Order(t *testing.T) {
	defer vfstat.Flush()
	vfstat.Quiet()
	const U = "C02.order"
	labels := []string{"a", "b", "A", "aa", "a-", "*", "\\000", "z", "Z", "\\255", "0", "b\\.c", "c", "example", "notexample", strings.Repeat("m", 63)}
	name := func(rt *rapid.T, l string) string {
		n := rapid.IntRange(0, 4).Draw(rt, l+".n")
		var ls []string
		for i := 0; i < n; i++ {
			ls = append(ls, rapid.SampledFrom(labels).Draw(rt, l+".l"))
		}
		if len(ls) == 0 {
			return "."
		}
		return strings.Join(ls, ".") + "."
	}
	rapid.Check(t, func(rt *rapid.T) {
		a, b, c := name(rt, "a"), name(rt, "b"), name(rt, "c")
		sign := func(x int) int {
			switch {
			case x < 0:
				return -1
			case x > 0:
				return 1
			}
			return 0
		}
		if got, want := sign(dnsname.CanonicalCompare(a, b)), vfmodel.CanonicalCompare(a, b); got != want {
			rt.Fatalf("CanonicalCompare(%q, %q) = %d, RFC 4034 §6.1 reference %d", a, b, got, want)
		}
		// interval: owner a, next b, name c
		cover := nsecCovers(a, b, c)
		ab, ca, cb := vfmodel.CanonicalCompare(a, b), vfmodel.CanonicalCompare(c, a), vfmodel.CanonicalCompare(c, b)
		var want bool
		switch {
		case ab == 0:
			want = ca != 0
		case ab < 0:
			want = ca > 0 && cb < 0
		default: // last NSEC, wraps to the apex
			want = ca > 0 || cb < 0
		}
		if cover != want {
			rt.Fatalf("nsecCovers(owner=%q, next=%q, name=%q) = %v, interval definition %v", a, b, c, cover, want)
		}
		// NameInZone is a label-boundary suffix test
		if got, want := dnsutil.NameInZone(dns.CanonicalName(a), dns.CanonicalName(b)), vfmodel.IsSubdomain(a, b); got != want {
			rt.Fatalf("NameInZone(%q, %q) = %v, label-wise reference %v", a, b, got, want)
		}
		vfstat.Eval(U, 1)
		vfstat.NonTrivial(U, fmt.Sprint(a, b, c))
		if ab > 0 {
			vfstat.Class(U, "wrap-interval")
		}
		if ab == 0 {
			vfstat.Class(U, "owner==next")
		}
		vfstat.Sample(U, fmt.Sprint(ab), map[string]any{"owner": a, "next": b, "name": c, "covers": cover})
	})
}

// TestVerifC02Exhaustive enumerates, instead of sampling, a bounded corner of the same space: every zone whose
// owners are a subset (size <= 3) of {a, b, a.a, b.a, *.a} with every assignment of roles {A, delegation, secure
// delegation, DNAME, CNAME}, every subset of its NSEC (and NSEC3) chain, every question name over the labels
// {a, b, c} down to depth 2 plus the depth-3 names under existing owners, and the types A / DS / NS.
func TestVerifC02Exhaustive(t *testing.T) {
	defer vfstat.Flush()
	vfstat.Quiet()
	const U = "C02.exhaustive"
	universe := []string{"a", "b", "a.a", "b.a", "*.a"}
	roles := []string{"A", "NS", "NS+DS", "DNAME", "CNAME"}
	var qnames []string
	for _, l1 := range []string{"a", "b", "c"} {
		qnames = append(qnames, l1+".example.")
		for _, l2 := range []string{"a", "b", "c"} {
			qnames = append(qnames, l2+"."+l1+".example.")
		}
	}
	qnames = append(qnames, "example.", "c.a.a.example.", "a.b.a.example.", "c.c.a.example.")
	zonesSeen, cases, accepted := 0, 0, 0
	var build func(i int, picked []string, assign []string)
	eval := func(z *vfmodel.Zone) {
		zonesSeen++
		nsec := z.NSECChain(3600)
		nsec3 := z.NSEC3Chain(3600)
		for mask := 1; mask < 1<<len(nsec); mask++ {
			var set []dns.RR
			for i, r := range nsec {
				if mask&(1<<i) != 0 {
					set = append(set, dns.Copy(r))
				}
			}
			for _, qn := range qnames {
				for _, qt := range []uint16{dns.TypeA, dns.TypeDS, dns.TypeNS} {
					q := dns.Question{Name: qn, Qtype: qt, Qclass: dns.ClassINET}
					msg := &dns.Msg{Question: []dns.Question{q}}
					vs := []vfC02Verdict{
						{fn: "VerifyNameErrorNSEC", accept: VerifyNameErrorNSEC(msg, set) == nil, secure: true, claimed: "nxdomain"},
						{fn: "VerifyNODATANSEC", accept: VerifyNODATANSEC(msg, set) == nil, secure: true, claimed: "nodata"},
						{fn: "VerifyDelegationNSEC", accept: VerifyDelegationNSEC(qn, set) == nil, secure: true, claimed: "insecure-delegation"},
					}
					if res, err := EvaluateAggressiveNSEC(q, z.Apex, set); err == nil {
						claim := "nodata"
						if res.Rcode == dns.RcodeNameError {
							claim = "nxdomain"
						}
						vs = append(vs, vfC02Verdict{fn: "EvaluateAggressiveNSEC", accept: true, secure: true, claimed: claim})
					}
					for _, v := range vs {
						cases++
						if v.accept {
							accepted++
						}
						if bad := vfC02Judge(z, qn, qt, v, false); bad != "" {
							t.Fatalf("%s\n  %s\n  chain subset mask %b of %d records", bad, z.Describe(), mask, len(nsec))
						}
					}
				}
			}
		}
		// NSEC3: the full chain and every chain with one record removed
		for drop := -1; drop < len(nsec3); drop++ {
			var set []dns.RR
			for i, r := range nsec3 {
				if i != drop {
					set = append(set, dns.Copy(r))
				}
			}
			if len(set) == 0 {
				continue
			}
			for _, qn := range qnames {
				for _, qt := range []uint16{dns.TypeA, dns.TypeDS} {
					q := dns.Question{Name: qn, Qtype: qt, Qclass: dns.ClassINET}
					msg := &dns.Msg{Question: []dns.Question{q}}
					type call struct {
						fn, claimed string
						run         func() (bool, error)
					}
					for _, c := range []call{
						{"VerifyNameErrorForZoneWithWork", "nxdomain", func() (bool, error) { return VerifyNameErrorForZoneWithWork(msg, set, z.Apex, nil) }},
						{"VerifyNODATAForZoneWithWork", "nodata", func() (bool, error) { return VerifyNODATAForZoneWithWork(msg, set, z.Apex, nil) }},
						{"VerifyDelegationForZoneWithWork", "insecure-delegation", func() (bool, error) { return false, VerifyDelegationForZoneWithWork(qn, z.Apex, set, nil) }},
					} {
						cases++
						secure, err := c.run()
						if err != nil {
							continue
						}
						accepted++
						if bad := vfC02Judge(z, qn, qt, vfC02Verdict{fn: c.fn, accept: true, secure: secure && c.claimed != "insecure-delegation", claimed: c.claimed}, true); bad != "" {
							t.Fatalf("%s (secure=%v)\n  %s\n  NSEC3 chain without record %d", bad, secure, z.Describe(), drop)
						}
					}
				}
			}
		}
	}
	build = func(i int, picked []string, assign []string) {
		if i == len(universe) {
			z := &vfmodel.Zone{Apex: "example.", Owners: map[string]map[uint16]bool{"example.": {dns.TypeSOA: true, dns.TypeNS: true, dns.TypeDNSKEY: true}}, Glue: map[string]bool{}}
			for k, o := range picked {
				owner := o + ".example."
				types := map[uint16]bool{}
				switch assign[k] {
				case "A":
					types[dns.TypeA] = true
				case "NS":
					types[dns.TypeNS] = true
				case "NS+DS":
					types[dns.TypeNS], types[dns.TypeDS] = true, true
				case "DNAME":
					types[dns.TypeDNAME] = true
				case "CNAME":
					types[dns.TypeCNAME] = true
				}
				z.Owners[owner] = types
			}
			// well-formed zones only: nothing authoritative below a cut or a DNAME, no wildcard delegations / DNAMEs
			for o, ts := range z.Owners {
				if strings.HasPrefix(o, "*.") && (ts[dns.TypeNS] || ts[dns.TypeDNAME]) {
					return
				}
				for o2, ts2 := range z.Owners {
					if o2 != o && o2 != z.Apex && vfmodel.StrictSubdomain(o, o2) && (ts2[dns.TypeNS] || ts2[dns.TypeDNAME]) {
						return
					}
				}
			}
			eval(z)
			return
		}
		build(i+1, picked, assign)
		if len(picked) < 3 {
			for _, r := range roles {
				build(i+1, append(append([]string(nil), picked...), universe[i]), append(append([]string(nil), assign...), r))
			}
		}
	}
	build(0, nil, nil)
	vfstat.Eval(U, cases)
	vfstat.ClassN(U, "accepted-verdicts", accepted)
	vfstat.ClassN(U, "zones", zonesSeen)
	vfstat.NonTrivial(U, fmt.Sprint("zones", zonesSeen))
	vfstat.NonTrivial(U, fmt.Sprint("accepted", accepted))
	vfstat.Sample(U, "summary", map[string]any{"zones_enumerated": zonesSeen, "verifier_calls": cases, "accepted": accepted})
}

// TestVerifC02Wildcard: a wildcard-expanded positive answer is accepted only for a name the wildcard really is the
// closest match of. A zone is generated (asterisk labels anywhere, so that empty non-terminals occur at and around
// wildcards), one of its wildcard RRsets is "expanded" over a generated name below the wildcard's parent - the RRSIG
// Labels field says which wildcard - and handed to VerifyWildcardAnswerForZoneWithWork with a generated subset of the
// zone's genuine NSEC or NSEC3 chain in the authority section, which is all a replaying attacker has. Acceptance with
// secure=true is right only if the zone itself would answer that name from that very wildcard.
func TestVerifC02Wildcard(t *testing.T) {
	defer vfstat.Flush()
	vfstat.Quiet()
	const U = "C02.wildcard"
	rapid.Check(t, func(rt *rapid.T) {
		apex := rapid.SampledFrom([]string{"example.", "example.", "test.", "sub.example."}).Draw(rt, "apex")
		alphabet := []string{"a", "b", "c", "*", "*", "x", "ab"}
		z := vfmodel.GenZone(rt, apex, 7, alphabet)
		var wilds []string
		for _, o := range z.ChainOwners() {
			if strings.HasPrefix(o, "*.") && !z.Owners[o][dns.TypeCNAME] {
				wilds = append(wilds, o)
			}
		}
		if len(wilds) == 0 {
			// no wildcard in this zone: plant one at the apex so that the case still says something
			z.Owners["*."+z.Apex] = map[uint16]bool{dns.TypeA: true}
			wilds = append(wilds, "*."+z.Apex)
		}
		sort.Strings(wilds)
		wc := rapid.SampledFrom(wilds).Draw(rt, "wildcard")
		ce := wc[2:]
		var types []uint16
		for ty := range z.Owners[wc] {
			types = append(types, ty)
		}
		sort.Slice(types, func(i, j int) bool { return types[i] < types[j] })
		qtype := rapid.SampledFrom(types).Draw(rt, "type")
		lab := func(l string) string {
			v := rapid.SampledFrom([]string{"a", "b", "c", "x", "ab", "w", "*"}).Draw(rt, l)
			return v
		}
		qname := lab("l1") + "." + ce
		if rapid.IntRange(0, 2).Draw(rt, "deep") == 0 {
			qname = lab("l2") + "." + qname
		}
		if qname == wc {
			qname = "w." + ce
		}
		useNSEC3 := rapid.Bool().Draw(rt, "nsec3")
		resp := new(dns.Msg)
		resp.SetQuestion(qname, qtype)
		resp.Response = true
		hdr := dns.RR_Header{Name: qname, Rrtype: qtype, Class: dns.ClassINET, Ttl: 300}
		switch qtype {
		case dns.TypeA:
			resp.Answer = append(resp.Answer, &dns.A{Hdr: hdr, A: net.IPv4(192, 0, 2, 1).To4()})
		case dns.TypeAAAA:
			resp.Answer = append(resp.Answer, &dns.AAAA{Hdr: hdr, AAAA: net.ParseIP("2001:db8::1")})
		case dns.TypeTXT:
			resp.Answer = append(resp.Answer, &dns.TXT{Hdr: hdr, Txt: []string{"w"}})
		case dns.TypeMX:
			resp.Answer = append(resp.Answer, &dns.MX{Hdr: hdr, Preference: 1, Mx: "mx." + z.Apex})
		default:
			rt.Skip("type without a builder")
		}
		resp.Answer = append(resp.Answer, &dns.RRSIG{Hdr: dns.RR_Header{Name: qname, Rrtype: dns.TypeRRSIG, Class: dns.ClassINET, Ttl: 300}, TypeCovered: qtype, Algorithm: 13,
			Labels: uint8(dns.CountLabel(ce)), OrigTtl: 300, Expiration: 2000000000, Inception: 1000000000, KeyTag: 1, SignerName: z.Apex, Signature: "AAAA"})
		if useNSEC3 {
			resp.Ns = vfC02Subset(rt, z.NSEC3Chain(3600), "chain3")
		} else {
			resp.Ns = vfC02Subset(rt, z.NSECChain(3600), "chain")
		}
		secure, err := VerifyWildcardAnswerForZoneWithWork(resp, z.Apex, nil)
		tr := z.Truth(qname, qtype)
		right := tr.Kind == "answer" && tr.Wildcard && tr.Source == wc
		vfstat.Eval(U, 1)
		vfstat.Class(U, "truth:"+tr.Kind)
		if useNSEC3 {
			vfstat.Class(U, "nsec3")
		}
		if err == nil {
			vfstat.Class(U, "accepted")
			if right {
				vfstat.Class(U, "accepted-genuine-expansion")
			}
			if !secure {
				vfstat.Class(U, "accepted-insecure-opt-out")
			}
		} else if right {
			vfstat.Class(U, "rejected-genuine-expansion-with-partial-proof")
		}
		if err == nil && (secure || !(useNSEC3 && z.OptOut)) && !right {
			var recs []string
			for _, rr := range resp.Ns {
				if n, ok := rr.(*dns.NSEC); ok {
					recs = append(recs, fmt.Sprintf("%s->%s{%s}", n.Hdr.Name, n.NextDomain, vfC02TypesOf(n.TypeBitMap)))
				} else {
					recs = append(recs, rr.Header().Name)
				}
			}
			rt.Fatalf("VerifyWildcardAnswerForZoneWithWork accepted (secure=%v) the RRset of %s expanded over %s/%s, but the zone says %+v\n  %s\n  authority records given: %v", secure, wc, qname, dns.TypeToString[qtype], tr, z.Describe(), recs)
		}
		if err == nil || right {
			vfstat.NonTrivial(U, fmt.Sprint(z.Describe(), wc, qname, qtype, useNSEC3, len(resp.Ns)))
			vfstat.Sample(U, fmt.Sprint(err == nil, right), map[string]any{"zone": z.Describe(), "wildcard": wc, "qname": qname, "truth": fmt.Sprintf("%+v", tr), "accepted": err == nil, "secure": secure, "authority_records": len(resp.Ns)})
		}
	})
}
