package server

// C13 on the resolver-world harness — "a zone every one of whose servers failed" is the resolver's own verdict
// here, not a scripted report. Zones lose some or all of their authorities (silence, REFUSED, SERVFAIL) for a
// while; clients ask names in dead, half-dead and healthy zones. A cached failure may suppress only what failed
// and only for a bounded time: a zone with one working server, a sibling zone, the parent and, after the
// authorities are back and the longest backoff has passed, the once-dead zone itself must be answered truthfully.

import (
	"fmt"
	"net"
	"os"
	"strings"
	"testing"
	"testing/synctest"
	"time"

	"github.com/miekg/dns"
	"github.com/semihalev/sdns/internal/vfgen"
	"github.com/semihalev/sdns/internal/vfstat"
	"github.com/semihalev/sdns/middleware"
	"github.com/semihalev/sdns/middleware/cache"
	"github.com/semihalev/sdns/internal/vfworld"
	"pgregory.net/rapid"
)

type vfC13WStep struct {
	Name  string
	Sleep time.Duration
	Heal  bool
	CD    bool
	EDNS  bool
	Wire  bool
}

type vfC13WCase struct {
	Fault map[string]string // server address -> silent / refused / servfail
	Slow  map[string]time.Duration
	Steps []vfC13WStep
	W     *vfworld.World
	QMin  int
	NoVal bool // dnssec = "off": the resolver walks with CD set on its own behalf, whatever the client sent
}

func vfC13WGen(rt *rapid.T) *vfC13WCase {
	c := &vfC13WCase{Fault: map[string]string{}, Slow: map[string]time.Duration{}, QMin: rapid.SampledFrom([]int{0, 0, 5}).Draw(rt, "qmin")}
	c.NoVal = rapid.IntRange(0, 3).Draw(rt, "novalidation") == 0
	c.W = vfworld.Build([]vfworld.ZoneSpec{
		{Apex: ".", Signed: true}, {Apex: "test.", Signed: true},
		{Apex: "dead.test.", Servers: 2, Owners: map[string][]uint16{"a.dead.test.": {dns.TypeA}, "b.dead.test.": {dns.TypeA}}},
		{Apex: "half.test.", Servers: 2, Owners: map[string][]uint16{"a.half.test.": {dns.TypeA}, "b.half.test.": {dns.TypeA}}},
		{Apex: "fine.test.", Servers: 2, Owners: map[string][]uint16{"a.fine.test.": {dns.TypeA}, "b.fine.test.": {dns.TypeA}}},
		{Apex: "many.test.", Servers: 5, Owners: map[string][]uint16{"a.many.test.": {dns.TypeA}, "b.many.test.": {dns.TypeA}}},
	})
	kind := func(l string) string {
		return rapid.SampledFrom([]string{"silent", "silent", "refused", "servfail"}).Draw(rt, l)
	}
	for _, ip := range c.W.Zones["dead.test."].Servers {
		c.Fault[ip] = kind("deadfault")
	}
	c.Fault[c.W.Zones["half.test."].Servers[rapid.IntRange(0, 1).Draw(rt, "halfwhich")]] = kind("halffault")
	// five servers, all but one or two failing (mostly with a failure rcode, which arrives at once), the healthy ones slow
	many := c.W.Zones["many.test."].Servers
	healthy := rapid.IntRange(0, len(many)-1).Draw(rt, "manyhealthy")
	healthy2 := rapid.SampledFrom([]int{-1, -1, 0, 1, 2, 3, 4}).Draw(rt, "manyhealthy2")
	for i, ip := range many {
		if i == healthy || i == healthy2 {
			c.Slow[ip] = time.Duration(rapid.SampledFrom([]int{0, 40, 150, 400}).Draw(rt, "manydelay")) * time.Millisecond
			continue
		}
		c.Fault[ip] = rapid.SampledFrom([]string{"refused", "servfail", "servfail", "silent"}).Draw(rt, "manyfault")
	}
	names := []string{"a.dead.test.", "b.dead.test.", "nx.dead.test.", "a.half.test.", "b.half.test.", "nx.half.test.", "a.fine.test.", "nx.fine.test.", "t.test.", "dead.test.", "a.many.test.", "b.many.test.", "nx.many.test.", "a.many.test."}
	n := rapid.IntRange(4, 14).Draw(rt, "nsteps")
	healAt := rapid.IntRange(2, n).Draw(rt, "healat")
	for i := 0; i < n; i++ {
		if i == healAt {
			c.Steps = append(c.Steps, vfC13WStep{Heal: true})
		}
		if rapid.IntRange(0, 3).Draw(rt, "sleep") == 0 {
			c.Steps = append(c.Steps, vfC13WStep{Sleep: time.Duration(rapid.SampledFrom([]int{1, 4, 6, 11, 30, 70, 310}).Draw(rt, "sleepsec")) * time.Second})
			continue
		}
		c.Steps = append(c.Steps, vfC13WStep{Name: rapid.SampledFrom(names).Draw(rt, "name"), CD: rapid.IntRange(0, 5).Draw(rt, "cd") == 0, EDNS: rapid.Bool().Draw(rt, "edns"), Wire: rapid.Bool().Draw(rt, "wire")})
	}
	// after the authorities are back and the longest backoff (5 min) has passed, the dead zone must answer again
	c.Steps = append(c.Steps, vfC13WStep{Heal: true}, vfC13WStep{Sleep: 6 * time.Minute},
		vfC13WStep{Name: "a.dead.test.", EDNS: true}, vfC13WStep{Name: "nx.dead.test.", EDNS: true}, vfC13WStep{Name: "b.half.test."})
	return c
}

func vfC13WRun(t *testing.T, dir string, c *vfC13WCase) (violation string, trace []string, stats map[string]int) {
	stats = map[string]int{}
	fail := func(f string, a ...any) {
		if violation == "" {
			violation = fmt.Sprintf(f, a...)
		}
	}
	synctest.Test(t, func(t *testing.T) {
		time.Sleep(time.Until(vfworld.Epoch))
		cfg := vfResolverConfig(dir, c.W)
		cfg.QnameMinLevel = c.QMin
		if c.NoVal {
			cfg.DNSSEC = "off"
		}
		rw := vfStartResolver(cfg, c.W)
		defer rw.Close()
		store, _ := middleware.Get("cache").(*cache.Cache)
		asked := map[string]map[bool]bool{} // client question name -> CD values it was asked with
		healed := false
		var healedAt time.Duration
		rw.Net.Script = func(p vfworld.Packet, n int, req, resp *dns.Msg, info vfworld.Info) vfworld.Action {
			if healed {
				return vfworld.Action{}
			}
			if d, ok := c.Slow[p.Addr]; ok && d > 0 {
				return vfworld.Action{Delay: d}
			}
			switch c.Fault[p.Addr] {
			case "silent":
				return vfworld.Action{Drop: true}
			case "refused":
				resp.Rcode, resp.Answer, resp.Ns, resp.Authoritative = dns.RcodeRefused, nil, nil, false
			case "servfail":
				resp.Rcode, resp.Answer, resp.Ns, resp.Authoritative = dns.RcodeServerFailure, nil, nil, false
			}
			return vfworld.Action{}
		}
		since := func() time.Duration { return time.Since(vfworld.Epoch) }
		zoneOf := func(name string) string {
			for _, z := range []string{"dead.test.", "half.test.", "fine.test.", "many.test."} {
				if strings.HasSuffix(strings.ToLower(name), z) {
					return z
				}
			}
			return "test."
		}
		for i, st := range c.Steps {
			switch {
			case st.Heal:
				if !healed {
					healed, healedAt = true, since()
					trace = append(trace, fmt.Sprintf("t=%s all authorities answer again", since()))
				}
				continue
			case st.Name == "":
				time.Sleep(st.Sleep)
				trace = append(trace, fmt.Sprintf("t=%s slept %s", since(), st.Sleep))
				continue
			}
			q := &vfgen.QuerySpec{ID: uint16(800 + i), Name: st.Name, Qtype: dns.TypeA, Qclass: dns.ClassINET, RD: true, CD: st.CD, EDNS: st.EDNS, UDPSize: 1232}
			n0 := rw.Net.Count()
			t0 := time.Now()
			rep := rw.Ask(q, "udp", net.IPv4(203, 0, 113, 5), st.Wire)
			took := time.Since(t0)
			synctest.Wait()
			up := rw.Net.Count() - n0
			if rep.Msg == nil {
				fail("step %d: %s got no reply", i, st.Name)
				continue
			}
			// a question failure is filed under the question that failed - its CD value included: no entry may name a
			// client's question with a CD value no client ever asked it with
			lname := strings.ToLower(st.Name)
			if asked[lname] == nil {
				asked[lname] = map[bool]bool{}
			}
			asked[lname][st.CD] = true
			if store != nil {
				for _, f := range store.VerifStore().VerifFailures() {
					if f.Zone || f.Qtype != dns.TypeA {
						continue
					}
					if cds, ok := asked[strings.ToLower(f.Name)]; ok && !cds[f.CD] {
						fail("step %d: after %s (cd=%v) the failure cache holds a question failure for %s with CD=%v, a CD value this question was never asked with (validation off: %v)", i, st.Name, st.CD, f.Name, f.CD, c.NoVal)
					}
					stats["question-failure-entries-judged"]++
				}
			}
			m := rep.Msg
			z := zoneOf(st.Name)
			trace = append(trace, fmt.Sprintf("t=%s %s cd=%v -> %s an=%d in %s, %d upstream packets", since()-took, st.Name, st.CD, dns.RcodeToString[m.Rcode], len(m.Answer), took, up))
			g := c.W.Resolve(st.Name, dns.TypeA)
			want := dns.RcodeSuccess
			if g.Out.Kind == "nxdomain" {
				want = dns.RcodeNameError
			}
			reachable := healed || z != "dead.test."
			if st.Name == "dead.test." && !healed {
				reachable = false
			}
			stats["zone:"+z]++
			switch {
			case !reachable:
				stats["asked-while-dead"]++
				if m.Rcode != dns.RcodeServerFailure {
					fail("step %d: %s answered %s although every authority of its zone is failing", i, st.Name, dns.RcodeToString[m.Rcode])
				}
				if up == 0 {
					stats["suppressed-by-cached-failure"]++
				}
			case healed && z == "dead.test." && since()-took-healedAt < 5*time.Minute+10*time.Second:
				// inside the longest backoff after the authorities came back: SERVFAIL from the cached failure is allowed
				stats["asked-inside-backoff-after-heal"]++
				if m.Rcode != dns.RcodeServerFailure && m.Rcode != want {
					fail("step %d: %s answered %s; the zone says %s", i, st.Name, dns.RcodeToString[m.Rcode], dns.RcodeToString[want])
				}
			default:
				// everything else must be answered truthfully: the failure of one zone (or of one of two servers) is
				// nobody else's failure, and no backoff outlives its 5-minute ceiling
				stats["must-answer"]++
				if z == "dead.test." {
					stats["dead-zone-after-backoff"]++
				}
				if m.Rcode != want {
					fail("step %d: at t=%s %s (zone %s) answered %s; its zone is reachable and says %s - a cached failure is suppressing more than what failed, or for longer than its bound", i, since()-took, st.Name, z, dns.RcodeToString[m.Rcode], dns.RcodeToString[want])
				}
				if want == dns.RcodeSuccess && g.Out.Kind == "answer" && len(m.Answer) == 0 {
					fail("step %d: %s answered without data", i, st.Name)
				}
			}
		}
	})
	return
}

func TestVerifC13World(t *testing.T) {
	defer vfstat.Flush()
	vfstat.Quiet()
	const U = "C13.world"
	dir, _ := os.MkdirTemp(os.Getenv("VERIF_WORKDIR"), "c13w")
	defer os.RemoveAll(dir)
	rapid.Check(t, func(rt *rapid.T) {
		c := vfC13WGen(rt)
		v, trace, stats := vfC13WRun(t, dir, c)
		if v != "" {
			rt.Fatalf("%s\n  faults=%v qmin=%d validation-off=%v\n  history:\n    %s", v, c.Fault, c.QMin, c.NoVal, strings.Join(trace, "\n    "))
		}
		vfstat.Eval(U, 1)
		for k, n := range stats {
			if n > 0 {
				vfstat.Class(U, k)
			}
		}
		if stats["asked-while-dead"] > 0 && stats["must-answer"] > 0 {
			var shape []string
			for _, s := range c.Steps {
				shape = append(shape, fmt.Sprint(s.Name, s.Sleep, s.Heal, s.CD))
			}
			vfstat.NonTrivial(U, fmt.Sprint(c.Fault, c.QMin, shape))
			if len(trace) > 10 {
				trace = trace[:10]
			}
			vfstat.Sample(U, fmt.Sprint(stats["suppressed-by-cached-failure"] > 0), map[string]any{"faults": fmt.Sprint(c.Fault), "history": trace})
		}
	})
}
