package server

// Resolver-world harness: the complete default chain (edns, cache, resolver, ...) over an in-memory
// signed namespace (internal/vfworld) reached through the verif dial hook, inside a synctest bubble.

import (
	"net"
	"strings"
	"testing"
	"testing/synctest"
	"time"

	"github.com/miekg/dns"
	"github.com/semihalev/sdns/config"
	"github.com/semihalev/sdns/internal/verifhook"
	"github.com/semihalev/sdns/internal/vfgen"
	"github.com/semihalev/sdns/internal/vfworld"
	"github.com/semihalev/sdns/middleware"
	"github.com/semihalev/sdns/middleware/cache"
	"github.com/semihalev/sdns/middleware/defaults"
)

// vfRW is one running sdns over one world.
type vfRW struct {
	S    *Server
	Net  *vfworld.Net
	W    *vfworld.World
	Cfg  *config.Config
	done func()
}

func vfResolverConfig(dir string, w *vfworld.World) *config.Config {
	cfg := vfBaseConfig(dir)
	cfg.RootServers = w.RootServers()
	cfg.RootKeys = []string{w.RootAnchor()}
	cfg.DNSSEC = "on"
	cfg.Timeout.Duration = 2 * time.Second
	cfg.QueryTimeout.Duration = 10 * time.Second
	cfg.Maxdepth = 30
	return cfg
}

// vfStartResolver must be called inside a synctest bubble.
func vfStartResolver(cfg *config.Config, w *vfworld.World) *vfRW {
	return vfStartResolverIn(cfg, w, true)
}

// vfStartResolverIn starts sdns over w; bubble says whether the caller runs inside a synctest bubble
// (outside one the in-memory network runs on the wall clock).
func vfStartResolverIn(cfg *config.Config, w *vfworld.World, bubble bool) *vfRW {
	vfBuildMu.Lock()
	verifhook.SetBackground(false)
	cache.VerifResetSharedLimiters()
	n := &vfworld.Net{W: w, Latency: time.Millisecond}
	verifhook.SetDialer(n.Dial)
	middleware.Reset()
	defaults.Register()
	middleware.Setup(cfg)
	s := New(cfg)
	return &vfRW{S: s, Net: n, W: w, Cfg: cfg, done: func() {
		for _, h := range middleware.Handlers() {
			if st, ok := h.(interface{ Stop() }); ok {
				st.Stop()
			}
		}
		if bubble {
			synctest.Wait()
		}
		n.Wait()
		verifhook.SetDialer(nil)
		middleware.Reset()
		vfBuildMu.Unlock()
	}}
}

func (r *vfRW) Close() { r.done() }

// Ask puts one client query through ServeRaw and waits for the bubble to go idle.
func (r *vfRW) Ask(q *vfgen.QuerySpec, proto string, client net.IP, wire bool) vfReply {
	raw := q.Pack()
	w := &vfWorld{s: r.S}
	rep := w.Ask(raw, proto, client, 4000, wire)
	return rep
}

func TestVerifResolverSmoke(t *testing.T) {
	w := vfworld.Build([]vfworld.ZoneSpec{
		{Apex: ".", Signed: true},
		{Apex: "test.", Signed: true, NSEC3: true},
		{Apex: "example.test.", Signed: true, Owners: map[string][]uint16{"www.example.test.": {dns.TypeA}, "*.w.example.test.": {dns.TypeTXT}, "c.example.test.": {dns.TypeCNAME}}, Targets: map[string]string{"c.example.test.": "www.example.test."}},
		{Apex: "plain.test.", Owners: map[string][]uint16{"www.plain.test.": {dns.TypeA}}},
	})
	dir := t.TempDir()
	synctest.Test(t, func(t *testing.T) {
		time.Sleep(time.Until(vfworld.Epoch))
		rw := vfStartResolver(vfResolverConfig(dir, w), w)
		defer rw.Close()
		for _, c := range []struct {
			n string
			t uint16
		}{{"www.example.test.", dns.TypeA}, {"nx.example.test.", dns.TypeA}, {"www.example.test.", dns.TypeTXT}, {"q.w.example.test.", dns.TypeTXT}, {"c.example.test.", dns.TypeA}, {"www.plain.test.", dns.TypeA}, {"w.example.test.", dns.TypeA}} {
			q := &vfgen.QuerySpec{ID: 7, Name: c.n, Qtype: c.t, Qclass: dns.ClassINET, RD: true, EDNS: true, DO: true, UDPSize: 1232}
			before := rw.Net.Count()
			rep := rw.Ask(q, "udp", net.IPv4(203, 0, 113, 9), false)
			synctest.Wait()
			tr := w.Resolve(c.n, c.t)
			if rep.Msg == nil {
				t.Fatalf("%s: no reply (%v)", c.n, rep.Err)
			}
			t.Logf("%s %s -> rcode=%s ad=%v answers=%d ns=%d upstream=%d | truth %s secure=%v", c.n, dns.TypeToString[c.t], dns.RcodeToString[rep.Msg.Rcode], rep.Msg.AuthenticatedData, len(rep.Msg.Answer), len(rep.Msg.Ns), rw.Net.Count()-before, tr.Out.Kind, tr.Secure)
			for _, p := range rw.Net.Log()[before:] {
				t.Logf("    %s %s %s/%s -> %s", p.At, p.Addr, p.Name, dns.TypeToString[p.Qtype], p.Kind)
			}
		}
	})
}

// vfNormRR renders a record for comparison: owner lower-cased, TTL ignored.
func vfNormRR(rr dns.RR) string {
	c := dns.Copy(rr)
	c.Header().Name = strings.ToLower(c.Header().Name)
	c.Header().Ttl = 0
	c.Header().Rdlength = 0
	return strings.ToLower(c.String())
}

// vfExpectedAnswer lists the records ground truth allows in the answer section, and the subset that
// must be present (the final RRset).
func vfExpectedAnswer(g vfworld.GTruth, qtype uint16) (allowed map[string]uint32, required []string) {
	allowed = map[string]uint32{}
	for _, s := range g.Steps {
		switch s.Type {
		case dns.TypeCNAME:
			for _, r := range s.Zone.RRset(s.Owner, dns.TypeCNAME) {
				c := dns.Copy(r)
				c.Header().Name = s.Name
				allowed[vfNormRR(c)] = r.Header().Ttl
			}
		case dns.TypeDNAME:
			for _, r := range s.Zone.RRset(s.Owner, dns.TypeDNAME) {
				allowed[vfNormRR(r)] = r.Header().Ttl
				allowed[vfNormRR(&dns.CNAME{Hdr: dns.RR_Header{Name: s.Name, Rrtype: dns.TypeCNAME, Class: dns.ClassINET}, Target: s.Target})] = r.Header().Ttl
			}
		}
	}
	if g.Out.Kind == "answer" && !g.Out.CNAME && !g.Loop {
		owner := g.Name
		if g.Out.Wildcard {
			owner = g.Out.Source
		}
		for _, r := range g.Zone.RRset(owner, qtype) {
			c := dns.Copy(r)
			c.Header().Name = g.Name
			k := vfNormRR(c)
			allowed[k] = r.Header().Ttl
			required = append(required, k)
		}
	}
	return
}
