package server

// C17 end to end: through the real default chain, a source outside the access
// list gets no reply and causes no upstream call and no cache entry, on the
// wire-born and the decoded ingress, over UDP- and TCP-shaped transports.

import (
	"fmt"
	"net"
	"net/netip"
	"testing"
	"time"

	"github.com/miekg/dns"
	"github.com/semihalev/sdns/internal/vfgen"
	"github.com/semihalev/sdns/internal/vfstat"
	"pgregory.net/rapid"
)

func TestVerifC17DefaultChain(t *testing.T) {
	defer vfstat.Flush()
	vfstat.Quiet()
	const U = "C17.defaultchain"
	dir := t.TempDir()
	seq := 0
	rapid.Check(t, func(rt *rapid.T) {
		cidrs, parsed := vfgen.GenCIDRList(rt, 8)
		if len(cidrs) == 0 {
			cidrs = []string{"192.0.2.0/24"}
			parsed = []netip.Prefix{netip.MustParsePrefix("192.0.2.0/24")}
		}
		cfg := vfBaseConfig(dir)
		cfg.AccessList = append([]string(nil), cidrs...)
		stub := &vfStub{}
		s, done := vfBuildServer(cfg, stub)
		defer done()
		var addrs []netip.Addr
		for _, p := range parsed {
			m := p.Masked()
			lo, hi := m.Addr(), vfgen.LastAddr(m)
			for _, x := range []netip.Addr{lo.Prev(), lo, hi, hi.Next()} {
				if x.IsValid() {
					addrs = append(addrs, x)
				}
			}
		}
		addrs = append(addrs, vfgen.GenAddr().Draw(rt, "addr"))
		if len(addrs) > 12 {
			addrs = addrs[:12]
		}
		// the internal sentinel is the address 127.0.0.255 *and* port 0 together; either half alone is a client like any other
		type src struct {
			addr netip.Addr
			port int
		}
		var srcs []src
		for _, a := range addrs {
			srcs = append(srcs, src{a, 4242})
		}
		srcs = append(srcs, src{netip.MustParseAddr("127.0.0.255"), 4242}, src{vfgen.GenAddr().Draw(rt, "addr0"), 0})
		// ... and both halves together, on a transport that is no internal writer: a datagram can claim any source
		srcs = append(srcs, src{netip.MustParseAddr("127.0.0.255"), 0})
		for _, sc := range srcs {
			addr := sc.addr
			if (addr.IsLoopback() || addr.Unmap().IsLoopback()) && addr != netip.MustParseAddr("127.0.0.255") {
				continue // keep clear of the other loopback specials
			}
			proto := rapid.SampledFrom([]string{"udp", "tcp"}).Draw(rt, "proto")
			wire := rapid.Bool().Draw(rt, "wire")
			ip := net.IP(addr.AsSlice())
			if addr.Is4() && rapid.Bool().Draw(rt, "mapped") {
				ip = net.IP(netip.AddrFrom16(addr.As16()).AsSlice())
			}
			seq++
			q := new(dns.Msg)
			q.SetQuestion(fmt.Sprintf("n%d.c17.example.", seq), dns.TypeA)
			if rapid.Bool().Draw(rt, "edns") {
				q.SetEdns0(1232, false)
			}
			raw, _ := q.Pack()
			// one packet in eight is one the server turns away on its own account - no question, or two - before any
			// middleware sees it: "no reply" for a denied source covers those replies too
			malformed := rapid.IntRange(0, 7).Draw(rt, "malformed") == 0
			if malformed {
				raw = append([]byte(nil), raw...)
				raw[5] = byte(rapid.SampledFrom([]int{0, 2}).Draw(rt, "qdcount"))
				if raw[5] == 0 {
					raw = raw[:12]
				}
			}
			local, remote := vfAddrs(proto, ip, sc.port)
			before := stub.Calls()
			var wrote [][]byte
			if wire {
				job := &vfJob{local: local, remote: remote}
				s.ServeRaw(job, raw, time.Now())
				wrote = job.wrote
			} else {
				job := &vfPlain{local: local, remote: remote}
				s.ServeRaw(job, raw, time.Now())
				wrote = job.wrote
			}
			allowed, nmatch := vfgen.RefContains(parsed, addr)
			calls := stub.Calls() - before
			if malformed {
				if calls != 0 {
					rt.Fatalf("list=%q src=%v: a packet without exactly one question reached the upstream (%d calls)", cidrs, ip, calls)
				}
				if !allowed && len(wrote) != 0 && !(addr == netip.MustParseAddr("127.0.0.255") && sc.port == 0) {
					if vfstat.KnownOpen("C17-format-error-reply-before-access-list") {
						// known finding: the question-count check of the server's shared entry (and the engines' header-level
						// NOTIMP / FORMERR) answer before the access list has run
						vfstat.Known(U, "C17-format-error-reply-before-access-list")
						vfstat.ReportKnown("C17-format-error-reply-before-access-list")
					} else {
						rt.Fatalf("list=%q src=%v %s wire=%v: denied, and yet its malformed packet (QDCOUNT %d) was answered (%d replies)", cidrs, ip, proto, wire, raw[5], len(wrote))
					}
				}
				vfstat.Eval(U, 1)
				vfstat.Class(U, "malformed-packet")
				continue
			}
			if allowed {
				if len(wrote) != 1 || calls != 1 {
					rt.Fatalf("list=%q src=%v %s wire=%v: allowed, but replies=%d upstream calls=%d", cidrs, ip, proto, wire, len(wrote), calls)
				}
			} else {
				if (len(wrote) != 0 || calls != 0) && addr == netip.MustParseAddr("127.0.0.255") && sc.port == 0 && vfstat.KnownOpen("C17-sentinel-source-on-a-real-transport") {
					// known finding: "resolver-internal" is decided from the source address alone (127.0.0.255, port 0),
					// whatever transport the packet arrived on
					vfstat.Known(U, "C17-sentinel-source-on-a-real-transport")
					vfstat.ReportKnown("C17-sentinel-source-on-a-real-transport")
					vfstat.Eval(U, 1)
					continue
				}
				if len(wrote) != 0 || calls != 0 {
					rt.Fatalf("list=%q src=%v port=%d %s wire=%v: denied, but replies=%d upstream calls=%d", cidrs, ip, sc.port, proto, wire, len(wrote), calls)
				}
				// no cache entry was created by the denied query: an allowed client asking the
				// same question must still reach upstream.
				if len(parsed) > 0 {
					okAddr := parsed[0].Masked().Addr()
					if ok, _ := vfgen.RefContains(parsed, okAddr); ok && !okAddr.Unmap().IsLoopback() {
						l2, r2 := vfAddrs("udp", net.IP(okAddr.AsSlice()), 999)
						j2 := &vfJob{local: l2, remote: r2}
						s.ServeRaw(j2, raw, time.Now())
						if len(j2.wrote) != 1 || stub.Calls()-before != 1 {
							rt.Fatalf("list=%q: after denied src=%v, allowed follow-up got replies=%d upstream calls=%d (denied query left cache state?)", cidrs, ip, len(j2.wrote), stub.Calls()-before)
						}
					}
				}
			}
			vfstat.Eval(U, 1)
			cls := fmt.Sprintf("%s/wire=%v/allowed=%v", proto, wire, allowed)
			vfstat.Class(U, cls)
			if sc.port == 0 || addr == netip.MustParseAddr("127.0.0.255") {
				vfstat.Class(U, fmt.Sprintf("half-sentinel-source/allowed=%v", allowed))
			}
			vfstat.NonTrivial(U, cls+fmt.Sprint(nmatch, len(parsed), addr.BitLen(), len(cidrs)-len(parsed)))
			vfstat.Sample(U, cls, map[string]any{"access_list": cidrs, "src": ip.String(), "proto": proto, "wire_ingress": wire, "allowed": allowed, "replies": len(wrote), "upstream_calls": calls})
		}
	})
}
