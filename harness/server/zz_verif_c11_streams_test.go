package server

// C11 on real stream connections — exactly one reply per admitted query whatever the client does next.
// TCP clients pipeline a burst of complete queries (cached and uncached, answered at once or after a short
// delay) and then misbehave: they stall, or send half a length prefix, or a length prefix with part of a body,
// and then stall, half-close or simply wait. Every complete query was admitted and has to be answered exactly
// once before the connection ends; a connection that ends with replies missing is the violation (lateness alone,
// on this wall-clock unit, is only reported when the connection is still open long after the query timeout).

import (
	"encoding/binary"
	"fmt"
	"io"
	"net"
	"os"
	"strings"
	"sync"
	"sync/atomic"
	"testing"
	"time"

	"github.com/miekg/dns"
	"github.com/semihalev/sdns/internal/vfstat"
	"pgregory.net/rapid"
)

type vfC11Conn struct {
	NQ    int    // complete queries in the burst
	Tail  string // none, half-prefix, prefix-only, prefix-part-body
	End   string // stall, fin, wait
	Split bool   // burst written in two writes
	Kinds []string
}

func vfC11StreamsRun(t *testing.T, dir string, conns []vfC11Conn) (violation string, stats map[string]int64) {
	var viol atomic.Pointer[string]
	report := func(f string, a ...any) {
		s := fmt.Sprintf(f, a...)
		viol.CompareAndSwap(nil, &s)
	}
	cfg := vfBaseConfig(dir)
	cfg.RateLimit, cfg.ClientRateLimit = 0, 0
	stub := &vfC10Stub{}
	k, err := vfStartSock(cfg, stub)
	if err != nil {
		t.Fatalf("VERIF-INCONCLUSIVE listeners: %v", err)
	}
	defer k.Stop()
	// warm two cached names
	if wc, err := net.DialTimeout("tcp", k.tcpAddr, 2*time.Second); err == nil {
		for r := 0; r < 2; r++ {
			_, _ = wc.Write(vfC10Frame(vfC10Pack(uint16(r+1), fmt.Sprintf("hit-s%d.c11.test.", r))))
			_ = wc.SetReadDeadline(time.Now().Add(time.Second))
			var l [2]byte
			if _, err := io.ReadFull(wc, l[:]); err == nil {
				_, _ = io.ReadFull(wc, make([]byte, binary.BigEndian.Uint16(l[:])))
			}
		}
		wc.Close()
	}
	var answered, endedEarly, stillOpen, tails atomic.Int64
	var wg sync.WaitGroup
	for j, cs := range conns {
		wg.Add(1)
		go func(j int, cs vfC11Conn) {
			defer wg.Done()
			who := fmt.Sprintf("connection %d (%d queries, tail %s, then %s)", j, cs.NQ, cs.Tail, cs.End)
			c, err := net.DialTimeout("tcp", k.tcpAddr, 2*time.Second)
			if err != nil {
				return
			}
			defer c.Close()
			want := map[uint16]string{}
			var burst []byte
			for q := 0; q < cs.NQ; q++ {
				name := fmt.Sprintf("%s-j%d-q%d.c11.test.", cs.Kinds[q], j, q)
				if cs.Kinds[q] == "hit" {
					name = fmt.Sprintf("hit-s%d.c11.test.", (j+q)%2)
				}
				id := uint16(2000 + q)
				want[id] = name
				burst = append(burst, vfC10Frame(vfC10Pack(id, name))...)
			}
			next := vfC10Frame(vfC10Pack(2999, fmt.Sprintf("never-j%d.c11.test.", j)))
			switch cs.Tail {
			case "half-prefix":
				burst = append(burst, next[:1]...)
			case "prefix-only":
				burst = append(burst, next[:2]...)
			case "prefix-part-body":
				burst = append(burst, next[:2+len(next)/3]...)
			}
			if cs.Tail != "none" {
				tails.Add(1)
			}
			if cs.Split && len(burst) > 8 {
				_, _ = c.Write(burst[:len(burst)/2])
				time.Sleep(5 * time.Millisecond)
				_, err = c.Write(burst[len(burst)/2:])
			} else {
				_, err = c.Write(burst)
			}
			if err != nil {
				return
			}
			sentAt := time.Now()
			if cs.End == "fin" {
				if tc, ok := c.(*net.TCPConn); ok {
					_ = tc.CloseWrite()
				}
			}
			// read whatever comes until the server ends the connection, or well past the query timeout
			limit := time.Now().Add(cfg.QueryTimeout.Duration + 4*time.Second)
			got := map[uint16]int{}
			for len(got) < len(want) || cs.End != "wait" {
				_ = c.SetReadDeadline(limit)
				var l [2]byte
				if _, err := io.ReadFull(c, l[:]); err != nil {
					if ne, ok := err.(net.Error); ok && ne.Timeout() {
						stillOpen.Add(1)
						if len(got) < len(want) {
							report("%s: %d of %d admitted queries still unanswered %s after they were sent, the connection still open", who, len(want)-len(got), len(want), cfg.QueryTimeout.Duration+4*time.Second)
						}
						return
					}
					break // the server ended the connection
				}
				body := make([]byte, binary.BigEndian.Uint16(l[:]))
				if _, err := io.ReadFull(c, body); err != nil {
					report("%s: the connection ended inside a reply frame (%v)", who, err)
					return
				}
				id, bad := vfC10Check(who, body, want)
				if bad != "" {
					report("%s", bad)
					return
				}
				if body[3]&0x0f == dns.RcodeServerFailure && !strings.HasPrefix(want[id], "panic") {
					report("%s: query id %d (%s) was answered SERVFAIL %s after the burst was sent; its authority answers every question within 2 s and the query timeout is %s - it was charged for the time the queries ahead of it took", who, id, want[id], time.Since(sentAt).Round(10*time.Millisecond), cfg.QueryTimeout.Duration)
					return
				}
				got[id]++
				if got[id] > 1 {
					report("%s: query id %d (%s) was answered %d times", who, id, want[id], got[id])
					return
				}
				answered.Add(1)
				if len(got) == len(want) && cs.End == "wait" {
					break
				}
			}
			if len(got) < len(want) {
				endedEarly.Add(1)
				report("%s: the server ended the connection after answering %d of its %d complete, admitted queries", who, len(got), len(want))
			}
		}(j, cs)
	}
	wg.Wait()
	stats = map[string]int64{"answered": answered.Load(), "connections-with-partial-tail": tails.Load(), "still-open-at-limit": stillOpen.Load()}
	if v := viol.Load(); v != nil {
		violation = *v
	}
	return
}

func TestVerifC11Streams(t *testing.T) {
	defer vfstat.Flush()
	vfstat.Quiet()
	const U = "C11.streams"
	dir, _ := os.MkdirTemp(os.Getenv("VERIF_WORKDIR"), "c11s")
	defer os.RemoveAll(dir)
	rapid.Check(t, func(rt *rapid.T) {
		n := rapid.IntRange(3, 12).Draw(rt, "conns")
		var conns []vfC11Conn
		for i := 0; i < n; i++ {
			cs := vfC11Conn{NQ: rapid.IntRange(1, 5).Draw(rt, "nq"), Tail: rapid.SampledFrom([]string{"none", "half-prefix", "prefix-only", "prefix-part-body", "prefix-part-body"}).Draw(rt, "tail"),
				End: rapid.SampledFrom([]string{"stall", "stall", "fin", "wait"}).Draw(rt, "end"), Split: rapid.Bool().Draw(rt, "split")}
			for q := 0; q < cs.NQ; q++ {
				cs.Kinds = append(cs.Kinds, rapid.SampledFrom([]string{"hit", "hit", "miss", "slow", "big"}).Draw(rt, "kind"))
			}
			conns = append(conns, cs)
		}
		held := rapid.IntRange(0, 2).Draw(rt, "heldburst") > 0
		if held {
			// a pipelined burst of questions that each take a large part of - but well less than - one query timeout:
			// every one of them has its own budget, counted from when the server took it off the stream
			conns = append(conns, vfC11Conn{NQ: 4, Tail: "none", End: "wait", Kinds: []string{"hold", "hold", "hold", rapid.SampledFrom([]string{"hit", "miss"}).Draw(rt, "heldlast")}})
		}
		v, stats := vfC11StreamsRun(t, dir, conns)
		if v != "" {
			rt.Fatalf("%s\n  connections: %+v", v, conns)
		}
		vfstat.Eval(U, 1)
		if stats["connections-with-partial-tail"] > 0 {
			vfstat.Class(U, "partial-frame-after-burst")
		}
		stall := false
		for _, cs := range conns {
			if cs.End == "stall" && cs.Tail != "none" && cs.Tail != "half-prefix" {
				stall = true
			}
		}
		if stall {
			vfstat.Class(U, "stalled-mid-frame")
		}
		if held {
			vfstat.Class(U, "slow-questions-pipelined")
		}
		if stats["answered"] > 0 && stats["connections-with-partial-tail"] > 0 {
			vfstat.NonTrivial(U, fmt.Sprintf("%+v", conns))
			vfstat.Sample(U, fmt.Sprint(stall), map[string]any{"connections": fmt.Sprintf("%+v", conns), "stats": stats})
		}
	})
}
