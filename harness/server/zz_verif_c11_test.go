package server

// C11 — exactly one reply per admitted query, in time, whatever upstreams do.
// Concurrent clients (identical and related questions, generated start offsets, some arriving with
// most or all of their query timeout already spent in the ingress queue) run against authorities that
// are silent, slow, truncating, resetting, garbage-talking or answering another question, with a
// generated attempt-slot capacity. Every client must get exactly one reply in time; clients with
// budget left asking a healthy name must get its answer; afterwards the server must be at rest.

import (
	"fmt"
	"net"
	"os"
	"strings"
	"sync"
	"testing"
	"testing/synctest"
	"time"

	"github.com/miekg/dns"
	"github.com/semihalev/sdns/internal/vfgen"
	"github.com/semihalev/sdns/internal/vfstat"
	"github.com/semihalev/sdns/internal/vfworld"
	"github.com/semihalev/sdns/middleware"
	"github.com/semihalev/sdns/middleware/cache"
	"github.com/semihalev/sdns/middleware/resolver"
	"pgregory.net/rapid"
)

var vfC11Behaviours = []string{"ok", "ok", "silent", "slow1", "slow3", "slow9", "slow12", "tc-stall", "tc-reset", "garbage", "wrong-question", "servfail", "refused"}

type vfC11Client struct {
	Name    string
	Offset  time.Duration // when the client's packet is handed to the server
	Queued  time.Duration // how long it had already waited in the ingress queue (deadline is anchored at arrival)
	CD      bool
	Wire    bool
	EDNS    bool
	DO      bool
	Healthy bool // the name's authority behaves
}

type vfC11Case struct {
	Timeout  time.Duration
	Capacity int
	Behave   map[string]string // zone label -> behaviour
	Clients  []vfC11Client
	W        *vfworld.World
}

func vfC11Gen(rt *rapid.T) *vfC11Case {
	c := &vfC11Case{Timeout: time.Duration(rapid.SampledFrom([]int{3, 10}).Draw(rt, "timeout")) * time.Second,
		Capacity: rapid.SampledFrom([]int{2, 4, 16, 1000}).Draw(rt, "capacity"), Behave: map[string]string{}}
	specs := []vfworld.ZoneSpec{{Apex: ".", Signed: true}, {Apex: "test.", Signed: true}}
	nz := rapid.IntRange(1, 3).Draw(rt, "nzones")
	var names []string
	healthy := map[string]bool{}
	for i := 0; i < nz; i++ {
		label := fmt.Sprintf("z%d", i)
		b := rapid.SampledFrom(vfC11Behaviours).Draw(rt, "behaviour")
		c.Behave[label] = b
		apex := label + ".test."
		specs = append(specs, vfworld.ZoneSpec{Apex: apex, Signed: rapid.Bool().Draw(rt, "signed"), Servers: rapid.SampledFrom([]int{1, 2}).Draw(rt, "servers"), Owners: map[string][]uint16{"a." + apex: {dns.TypeA}, "b." + apex: {dns.TypeA}}})
		names = append(names, "a."+apex, "a."+apex, "b."+apex, "nx."+apex)
		for _, n := range []string{"a." + apex, "b." + apex, "nx." + apex} {
			healthy[n] = b == "ok"
		}
	}
	storm := rapid.IntRange(0, 4).Draw(rt, "expirystorm") == 0
	if storm {
		// many clients whose own budget runs out while a slow but answering authority is still working on them, then a
		// client with its whole budget: other clients' expiry is no evidence against that authority
		c.Timeout, c.Capacity = 10*time.Second, 1000
		c.Behave["zs"] = "slow1"
		owners := map[string][]uint16{}
		for _, l := range []string{"a", "b", "c", "d", "e", "f", "g", "h", "i"} {
			owners[l+".zs.test."] = []uint16{dns.TypeA}
		}
		specs = append(specs, vfworld.ZoneSpec{Apex: "zs.test.", Servers: 1, Owners: owners})
	}
	c.W = vfworld.Build(specs)
	if storm && rapid.Bool().Draw(rt, "stormsamename") {
		// the same question from many clients at once, each with a little more of its budget left than the one before
		// and none with enough for the slow authority - and one client with its whole budget among them: leader after
		// leader of the shared work expires, and every time the survivor has to be carried on, not failed along
		n := rapid.IntRange(6, 10).Draw(rt, "stormclients")
		step := rapid.SampledFrom([]int{50, 80}).Draw(rt, "stormstep")
		for i := 0; i < n; i++ {
			c.Clients = append(c.Clients, vfC11Client{Name: "i.zs.test.", Queued: c.Timeout - time.Duration((i+1)*step)*time.Millisecond, Wire: rapid.Bool().Draw(rt, "wire"), EDNS: true})
		}
		c.Clients = append(c.Clients, vfC11Client{Name: "i.zs.test.", EDNS: true, Healthy: true, Wire: rapid.Bool().Draw(rt, "wire")})
	} else if storm {
		n := rapid.IntRange(5, 8).Draw(rt, "stormclients")
		for i := 0; i < n; i++ {
			c.Clients = append(c.Clients, vfC11Client{Name: string(rune('a'+i)) + ".zs.test.", Offset: time.Duration(i*rapid.SampledFrom([]int{0, 5, 40}).Draw(rt, "stormgap")) * time.Millisecond,
				Queued: c.Timeout - time.Duration(rapid.SampledFrom([]int{200, 400, 900}).Draw(rt, "stormleft"))*time.Millisecond, Wire: rapid.Bool().Draw(rt, "wire"), EDNS: true})
		}
		c.Clients = append(c.Clients, vfC11Client{Name: "i.zs.test.", Offset: time.Duration(rapid.SampledFrom([]int{1500, 2500, 4000}).Draw(rt, "stormafter")) * time.Millisecond, EDNS: true, Healthy: true, Wire: rapid.Bool().Draw(rt, "wire")})
	}
	k := rapid.IntRange(2, 12).Draw(rt, "nclients")
	for i := 0; i < k; i++ {
		cl := vfC11Client{Name: rapid.SampledFrom(names).Draw(rt, "name"), Offset: time.Duration(rapid.SampledFrom([]int{0, 0, 0, 1, 20, 500, 2500}).Draw(rt, "offset")) * time.Millisecond,
			CD: rapid.IntRange(0, 5).Draw(rt, "cd") == 0, Wire: rapid.Bool().Draw(rt, "wire"), EDNS: rapid.Bool().Draw(rt, "edns")}
		switch rapid.IntRange(0, 6).Draw(rt, "queued") {
		case 6:
			cl.Queued = c.Timeout // the deadline is this very instant
		case 0:
			cl.Queued = c.Timeout - 10*time.Millisecond
		case 1:
			cl.Queued = c.Timeout + 100*time.Millisecond
		case 2:
			cl.Queued = c.Timeout / 2
		}
		cl.Healthy = healthy[cl.Name]
		cl.DO = cl.EDNS && rapid.Bool().Draw(rt, "do")
		if rapid.IntRange(0, 2).Draw(rt, "spelling") == 0 {
			// the same question in another client's own 0x20 spelling: the lookup is shared, the reply is not
			b := []byte(cl.Name)
			for j := range b {
				if b[j] >= 'a' && b[j] <= 'z' && (j+i)%2 == 0 {
					b[j] -= 32
				}
			}
			cl.Name = string(b)
		}
		c.Clients = append(c.Clients, cl)
	}
	return c
}

type vfC11Done struct {
	I         int
	Called    time.Duration
	Returned  time.Duration
	Handled   bool
	AtReturn  int
	job       *vfPlain
	wjob      *vfJob
	FirstByte []byte
}

func vfC11Run(t *testing.T, dir string, c *vfC11Case) (violation string, trace []string, stats map[string]int) {
	stats = map[string]int{}
	fail := func(f string, a ...any) {
		if violation == "" {
			violation = fmt.Sprintf(f, a...)
		}
	}
	synctest.Test(t, func(t *testing.T) {
		time.Sleep(time.Until(vfworld.Epoch))
		cfg := vfResolverConfig(dir, c.W)
		cfg.QueryTimeout.Duration = c.Timeout
		cfg.MaxConcurrentQueries = c.Capacity
		rw := vfStartResolver(cfg, c.W)
		defer rw.Close()
		rw.Net.Script = func(p vfworld.Packet, n int, req, resp *dns.Msg, info vfworld.Info) vfworld.Action {
			if info.Zone == nil || info.Zone.Parent == nil || info.Zone.Parent.Apex != "test." {
				return vfworld.Action{}
			}
			stream := !strings.HasPrefix(p.Proto, "udp")
			switch c.Behave[strings.TrimSuffix(info.Zone.Apex, ".test.")] {
			case "silent":
				return vfworld.Action{Drop: true}
			case "slow1":
				return vfworld.Action{Delay: time.Second}
			case "slow3":
				return vfworld.Action{Delay: 3 * time.Second}
			case "slow9":
				return vfworld.Action{Delay: 9 * time.Second}
			case "slow12":
				return vfworld.Action{Delay: 12 * time.Second}
			case "tc-stall":
				if stream {
					return vfworld.Action{Drop: true}
				}
				resp.Truncated, resp.Answer = true, nil
			case "tc-reset":
				if stream {
					return vfworld.Action{NoReply: true, Close: true}
				}
				resp.Truncated, resp.Answer = true, nil
			case "garbage":
				return vfworld.Action{Raw: [][]byte{{1, 2, 3}, []byte(strings.Repeat("x", 700))}, NoReply: true}
			case "wrong-question":
				resp.Question = []dns.Question{{Name: "other.test.", Qtype: dns.TypeA, Qclass: dns.ClassINET}}
			case "servfail":
				resp.Rcode, resp.Answer, resp.Ns = dns.RcodeServerFailure, nil, nil
			case "refused":
				resp.Rcode, resp.Answer, resp.Ns = dns.RcodeRefused, nil, nil
			}
			return vfworld.Action{}
		}
		since := func() time.Duration { return time.Since(vfworld.Epoch) }
		results := make(chan vfC11Done, len(c.Clients))
		var mu sync.Mutex
		for i, cl := range c.Clients {
			go func(i int, cl vfC11Client) {
				time.Sleep(cl.Offset)
				q := &vfgen.QuerySpec{ID: uint16(1000 + i), Name: cl.Name, Qtype: dns.TypeA, Qclass: dns.ClassINET, RD: true, CD: cl.CD, EDNS: cl.EDNS, DO: cl.DO, UDPSize: 1232}
				raw := q.Pack()
				local, remote := vfAddrs("udp", net.IPv4(203, 0, 113, byte(10+i)), 4000+i)
				d := vfC11Done{I: i, Called: since()}
				arrival := time.Now().Add(-cl.Queued)
				if cl.Wire {
					d.wjob = &vfJob{local: local, remote: remote}
					d.Handled = rw.S.ServeRaw(d.wjob, raw, arrival)
					mu.Lock()
					d.AtReturn = len(d.wjob.wrote)
					mu.Unlock()
				} else {
					d.job = &vfPlain{local: local, remote: remote}
					d.Handled = rw.S.ServeRaw(d.job, raw, arrival)
					mu.Lock()
					d.AtReturn = len(d.job.wrote)
					mu.Unlock()
				}
				d.Returned = since()
				results <- d
			}(i, cl)
		}
		var done []vfC11Done
		for range c.Clients {
			done = append(done, <-results)
		}
		// load has stopped. Whatever failed for a healthy name failed for reasons of this server's own (a client's budget,
		// a refused slot): none of that may have become a cached failure that now answers for the name
		for label, b := range c.Behave {
			if b != "ok" {
				continue
			}
			for _, n := range []string{"a." + label + ".test.", "b." + label + ".test."} {
				q := &vfgen.QuerySpec{ID: 7600, Name: n, Qtype: dns.TypeA, Qclass: dns.ClassINET, RD: true, EDNS: true, UDPSize: 1232}
				n0 := rw.Net.Count()
				rep := rw.Ask(q, "udp", net.IPv4(203, 0, 113, 98), false)
				if rep.Msg == nil || rep.Msg.Rcode != dns.RcodeServerFailure || rw.Net.Count() != n0 {
					continue
				}
				if opt := rep.Msg.IsEdns0(); opt != nil {
					for _, o := range opt.Option {
						if e, ok := o.(*dns.EDNS0_EDE); ok && e.InfoCode == dns.ExtendedErrorCodeCachedError {
							fail("right after the load, %s (its authority answers every question) is answered SERVFAIL from a cached failure (%q) without any upstream traffic: a refusal or expiry local to another client became shared state", n, e.ExtraText)
						}
					}
				}
				stats["post-load-cached-failure-probe"]++
			}
		}
		// let everything run out
		time.Sleep(2*c.Timeout + 40*time.Second)
		synctest.Wait()
		for _, d := range done {
			cl := c.Clients[d.I]
			var wrote [][]byte
			if d.wjob != nil {
				wrote = d.wjob.wrote
			} else {
				wrote = d.job.wrote
			}
			line := fmt.Sprintf("client %d %s cd=%v wire=%v offset=%s queued=%s: called t=%s returned t=%s (%s) replies=%d", d.I, cl.Name, cl.CD, cl.Wire, cl.Offset, cl.Queued, d.Called, d.Returned, d.Returned-d.Called, len(wrote))
			var m *dns.Msg
			if len(wrote) > 0 {
				m = new(dns.Msg)
				if err := m.Unpack(wrote[0]); err != nil {
					fail("client %d: reply does not decode: %v", d.I, err)
					m = nil
				} else {
					line += fmt.Sprintf(" rcode=%s an=%d", dns.RcodeToString[m.Rcode], len(m.Answer))
				}
			}
			trace = append(trace, line)
			budget := c.Timeout - cl.Queued
			switch {
			case len(wrote) > 1:
				fail("client %d got %d replies", d.I, len(wrote))
			case len(wrote) == 1 && d.AtReturn == 0:
				fail("client %d: the reply was written after the serving call had returned", d.I)
			case len(wrote) == 0 && budget > 0:
				fail("client %d (%s) was admitted with %s of its query timeout left and never got a reply", d.I, cl.Name, budget)
			case len(wrote) == 0:
				stats["expired-on-arrival-dropped"]++
			}
			limit := budget
			if limit < 0 {
				limit = 0
			}
			if took := d.Returned - d.Called; took > limit+250*time.Millisecond {
				fail("client %d (%s): served in %s; it had %s of its %s query timeout left on arrival", d.I, cl.Name, took, budget, c.Timeout)
			}
			if budget <= 0 {
				stats["expired-on-arrival"]++
			} else if budget < time.Second {
				stats["nearly-expired-on-arrival"]++
			}
			if m == nil {
				continue
			}
			if m.Id != uint16(1000+d.I) || len(m.Question) != 1 || !strings.EqualFold(m.Question[0].Name, cl.Name) {
				fail("client %d: reply carries id %d question %v", d.I, m.Id, m.Question)
			}
			if len(m.Question) == 1 && m.Question[0].Name != cl.Name && strings.EqualFold(m.Question[0].Name, cl.Name) {
				fail("client %d asked %q and its reply carries the question %q - another request's spelling of the name (shared lookup)", d.I, cl.Name, m.Question[0].Name)
			}
			// a healthy name with real budget left must be answered, whoever else was waiting on it
			// (with a tight attempt capacity any client may itself be the one refused, which the property allows)
			if cl.Healthy && budget >= time.Second && c.Capacity >= 1000 {
				stats["healthy-with-budget"]++
				g := c.W.Resolve(cl.Name, dns.TypeA)
				want := dns.RcodeSuccess
				if g.Out.Kind == "nxdomain" {
					want = dns.RcodeNameError
				}
				if m.Rcode != want {
					fail("client %d asked the healthy name %s with %s of budget left and got %s; other clients' expiry or refusal must not fail it", d.I, cl.Name, budget, dns.RcodeToString[m.Rcode])
				}
				// ... and with its own reply: the published records, shaped for this client and nobody else (signatures
				// for a client that set DO, none for one that did not - however the clients it shared the lookup with asked)
				if m.Rcode == dns.RcodeSuccess && want == dns.RcodeSuccess && !m.Truncated {
					_, required := vfExpectedAnswer(g, dns.TypeA)
					have := map[string]bool{}
					sigs := 0
					for _, rr := range m.Answer {
						if rr.Header().Rrtype == dns.TypeRRSIG {
							sigs++
							continue
						}
						c2 := dns.Copy(rr)
						c2.Header().Name = strings.ToLower(c2.Header().Name)
						have[vfNormRR(c2)] = true
					}
					for _, k := range required {
						if !have[k] {
							fail("client %d asked the healthy name %s (do=%v) and its NOERROR reply lacks the published %s (answer section: %d records) - shaped by another client's reply path?", d.I, cl.Name, cl.DO, k, len(m.Answer))
						}
					}
					if g.Zone != nil && g.Zone.Signed {
						stats["signed-answer-shaped"]++
						if cl.DO && sigs == 0 {
							fail("client %d asked %s with DO set and its reply carries the records without their signatures (another client of the shared lookup asked without DO)", d.I, cl.Name)
						}
						if !cl.DO && sigs > 0 {
							fail("client %d asked %s without DO and its reply carries %d signature record(s)", d.I, cl.Name, sigs)
						}
					}
				}
			}
			if m.Rcode == dns.RcodeServerFailure {
				stats["servfail"]++
			}
		}
		// quiescence: nothing held, nobody registered, and the server still works
		if h, ok := middleware.Get("resolver").(*resolver.DNSHandler); ok {
			for k, v := range h.VerifSlots() {
				if v != 0 {
					fail("at rest, %d %s slot(s) are still held", v, k)
				}
			}
		}
		if ch, ok := middleware.Get("cache").(*cache.Cache); ok {
			if n := ch.VerifDedupInFlight(); n != 0 {
				fail("at rest, %d question(s) still have a registered resolution leader", n)
			}
		}
		for label, b := range c.Behave {
			if b != "ok" {
				continue
			}
			q := &vfgen.QuerySpec{ID: 7777, Name: "b." + label + ".test.", Qtype: dns.TypeA, Qclass: dns.ClassINET, RD: true, UDPSize: 1232}
			t0 := time.Now()
			rep := rw.Ask(q, "udp", net.IPv4(203, 0, 113, 99), false)
			if rep.Msg == nil || rep.Msg.Rcode != dns.RcodeSuccess || len(rep.Msg.Answer) == 0 || time.Since(t0) > 2*time.Second {
				fail("after the load, a fresh question for the healthy name b.%s.test. was not answered promptly (%v in %s)", label, rep.Msg != nil, time.Since(t0))
			}
			stats["post-load-probe"]++
		}
	})
	return
}

func TestVerifC11OneReply(t *testing.T) {
	defer vfstat.Flush()
	vfstat.Quiet()
	const U = "C11.onereply"
	dir, _ := os.MkdirTemp(os.Getenv("VERIF_WORKDIR"), "c11")
	defer os.RemoveAll(dir)
	rapid.Check(t, func(rt *rapid.T) {
		c := vfC11Gen(rt)
		v, trace, stats := vfC11Run(t, dir, c)
		if v != "" {
			rt.Fatalf("%s\n  query timeout %s, attempt capacity %d, authorities %v\n  %s", v, c.Timeout, c.Capacity, c.Behave, strings.Join(trace, "\n  "))
		}
		vfstat.Eval(U, 1)
		for k, n := range stats {
			if n > 0 {
				vfstat.Class(U, k)
			}
		}
		same := map[string]int{}
		for _, cl := range c.Clients {
			same[fmt.Sprint(cl.Name, cl.CD)]++
		}
		shared := false
		for _, n := range same {
			if n > 1 {
				shared = true
			}
		}
		if shared {
			vfstat.Class(U, "identical-questions-in-flight")
		}
		if c.Capacity <= 4 {
			vfstat.Class(U, "tight-capacity")
		}
		for _, b := range c.Behave {
			vfstat.Class(U, "upstream:"+b)
		}
		if shared || stats["servfail"] > 0 {
			var shape []string
			for _, cl := range c.Clients {
				shape = append(shape, fmt.Sprint(cl.Name, cl.Offset, cl.Queued, cl.CD, cl.Wire))
			}
			vfstat.NonTrivial(U, fmt.Sprint(c.Timeout, c.Capacity, c.Behave, shape))
			if len(trace) > 8 {
				trace = trace[:8]
			}
			vfstat.Sample(U, fmt.Sprint(shared, stats["servfail"] > 0), map[string]any{"timeout": c.Timeout.String(), "capacity": c.Capacity, "authorities": fmt.Sprint(c.Behave), "clients": trace})
		}
	})
}

// TestVerifC11ExpiryRace aims wall-clock expiry at the few microseconds between the server's ingress deadline check
// and the cache's leader election: requests arrive with all but a generated sliver of their query timeout already
// spent. The stimulus is timing; the oracle is not - whatever the interleaving, once every call has returned no
// question may still have a registered leader, no slot may be held, and a fresh client must be served.
func TestVerifC11ExpiryRace(t *testing.T) {
	defer vfstat.Flush()
	vfstat.Quiet()
	const U = "C11.expiryrace"
	dir, _ := os.MkdirTemp(os.Getenv("VERIF_WORKDIR"), "c11r")
	defer os.RemoveAll(dir)
	w := vfworld.Build([]vfworld.ZoneSpec{{Apex: ".", Signed: true}, {Apex: "test.", Signed: true}, {Apex: "z0.test.", Owners: map[string][]uint16{"a.z0.test.": {dns.TypeA}}}})
	cfg := vfResolverConfig(dir, w)
	cfg.QueryTimeout.Duration = time.Second
	rw := vfStartResolverIn(cfg, w, false)
	defer rw.Close()
	rw.Net.Latency = 0
	ch, _ := middleware.Get("cache").(*cache.Cache)
	h, _ := middleware.Get("resolver").(*resolver.DNSHandler)
	serial := 0
	rapid.Check(t, func(rt *rapid.T) {
		slivers := rapid.SliceOfN(rapid.IntRange(0, 400), 40, 40).Draw(rt, "slivers-us")
		served, dropped := 0, 0
		for _, us := range slivers {
			serial++
			name := fmt.Sprintf("u%d.z0.test.", serial)
			q := &vfgen.QuerySpec{ID: uint16(serial), Name: name, Qtype: dns.TypeA, Qclass: dns.ClassINET, RD: true, UDPSize: 1232}
			local, remote := vfAddrs("udp", net.IPv4(203, 0, 113, 7), 4000)
			job := &vfPlain{local: local, remote: remote}
			if serial%2 == 0 {
				wj := &vfJob{local: local, remote: remote}
				rw.S.ServeRaw(wj, q.Pack(), time.Now().Add(-cfg.QueryTimeout.Duration+time.Duration(us)*time.Microsecond))
				if len(wj.wrote) > 1 {
					rt.Fatalf("%d replies to one question", len(wj.wrote))
				}
				served += len(wj.wrote)
				dropped += 1 - len(wj.wrote)
				continue
			}
			rw.S.ServeRaw(job, q.Pack(), time.Now().Add(-cfg.QueryTimeout.Duration+time.Duration(us)*time.Microsecond))
			if len(job.wrote) > 1 {
				rt.Fatalf("%d replies to one question", len(job.wrote))
			}
			served += len(job.wrote)
			dropped += 1 - len(job.wrote)
		}
		// a leak is permanent, so waiting cannot hide one; it only keeps a busy machine from raising a false alarm
		// "At rest" is reached when one reading finds nothing held. A leak is permanent, so polling for that reading
		// cannot hide one; detached helpers (probes, address lookups) may still start and finish afterwards, which is
		// why a second reading is never taken.
		busy := func() string {
			if n := ch.VerifDedupInFlight(); n != 0 {
				return fmt.Sprintf("%d question(s) still have a registered resolution leader", n)
			}
			for k, v := range h.VerifSlots() {
				if v != 0 {
					return fmt.Sprintf("%d %s slot(s) are held", v, k)
				}
			}
			return ""
		}
		held := busy()
		for i := 0; i < 1600 && held != ""; i++ { // abandoned upstream attempts run into their 2 s network timeout
			time.Sleep(5 * time.Millisecond)
			held = busy()
		}
		if held != "" {
			rt.Fatalf("8 s after every call returned, %s (requests arrived with 0-400us of their query timeout left)", held)
		}
		vfstat.Eval(U, 1)
		if served > 0 && dropped > 0 {
			vfstat.Class(U, "both-sides-of-the-deadline")
			vfstat.NonTrivial(U, fmt.Sprint(slivers))
			vfstat.Sample(U, "mixed", map[string]any{"requests": len(slivers), "answered": served, "expired_without_reply": dropped})
		}
	})
}
