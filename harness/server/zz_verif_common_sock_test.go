package server

// Real loopback listeners for the socket-level units (C06 header screen, C10, C11).

import (
	"context"
	"encoding/binary"
	"fmt"
	"io"
	"net"
	"time"

	"github.com/semihalev/sdns/config"
	"github.com/semihalev/sdns/middleware"
)

type vfSock struct {
	s       *Server
	udpAddr string
	tcpAddr string
	cancel  context.CancelFunc
	done    func()
	udp     *udpListener
	tcp     *tcpListener
}

// vfStartSock builds the default chain with tail as upstream and serves it on loopback UDP+TCP.
func vfStartSock(cfg *config.Config, tail middleware.Handler) (*vfSock, error) {
	cfg.Bind = "127.0.0.1:0"
	s, done := vfBuildServerWith(cfg, tail)
	ctx, cancel := context.WithCancel(context.Background())
	k := &vfSock{s: s, cancel: cancel, done: done}
	var ok bool
	if k.udp, ok = s.listeners[0].(*udpListener); !ok {
		cancel()
		done()
		return nil, fmt.Errorf("listener 0 is %T", s.listeners[0])
	}
	if k.tcp, ok = s.listeners[1].(*tcpListener); !ok {
		cancel()
		done()
		return nil, fmt.Errorf("listener 1 is %T", s.listeners[1])
	}
	if err := k.udp.Bind(ctx); err != nil {
		cancel()
		done()
		return nil, err
	}
	if err := k.tcp.Bind(ctx); err != nil {
		cancel()
		done()
		return nil, err
	}
	go func() { _ = k.udp.Serve(ctx) }()
	go func() { _ = k.tcp.Serve(ctx) }()
	k.udp.mu.Lock()
	k.udpAddr = k.udp.pcs[0].LocalAddr().String()
	k.udp.mu.Unlock()
	k.tcp.mu.Lock()
	k.tcpAddr = k.tcp.ln.Addr().String()
	k.tcp.mu.Unlock()
	return k, nil
}

func (k *vfSock) Stop() {
	sctx, scancel := context.WithTimeout(context.Background(), 2*time.Second)
	_ = k.udp.Shutdown(sctx)
	_ = k.tcp.Shutdown(sctx)
	scancel()
	k.cancel()
	k.done()
}

// vfUDPExchange sends every packet from its own socket and collects what comes back on each
// within wait after the last send. Index-aligned result: replies[i] are the datagrams socket i got.
func vfUDPExchange(addr string, packets [][]byte, wait time.Duration) ([][][]byte, error) {
	conns := make([]*net.UDPConn, len(packets))
	raddr, err := net.ResolveUDPAddr("udp", addr)
	if err != nil {
		return nil, err
	}
	for i := range packets {
		c, err := net.DialUDP("udp", nil, raddr)
		if err != nil {
			return nil, err
		}
		conns[i] = c
		defer c.Close()
	}
	for i, p := range packets {
		if len(p) == 0 {
			continue
		}
		if _, err := conns[i].Write(p); err != nil {
			return nil, err
		}
	}
	out := make([][][]byte, len(packets))
	deadline := time.Now().Add(wait)
	buf := make([]byte, 65536)
	for i, c := range conns {
		for {
			_ = c.SetReadDeadline(deadline)
			n, err := c.Read(buf)
			if err != nil {
				break
			}
			out[i] = append(out[i], append([]byte(nil), buf[:n]...))
			// after the first reply only linger briefly for a (forbidden) second one
			if d := time.Now().Add(30 * time.Millisecond); d.Before(deadline) {
				_ = c.SetReadDeadline(d)
				n, err := c.Read(buf)
				if err == nil {
					out[i] = append(out[i], append([]byte(nil), buf[:n]...))
				}
			}
			break
		}
	}
	return out, nil
}

// vfTCPExchange sends the packets pipelined on one connection and reads frames until wait passes idle.
func vfTCPExchange(addr string, packets [][]byte, wait time.Duration) ([][]byte, error) {
	c, err := net.DialTimeout("tcp", addr, 2*time.Second)
	if err != nil {
		return nil, err
	}
	defer c.Close()
	for _, p := range packets {
		frame := make([]byte, 2+len(p))
		binary.BigEndian.PutUint16(frame, uint16(len(p)))
		copy(frame[2:], p)
		if _, err := c.Write(frame); err != nil {
			return nil, err
		}
	}
	var out [][]byte
	for {
		_ = c.SetReadDeadline(time.Now().Add(wait))
		var l [2]byte
		if _, err := io.ReadFull(c, l[:]); err != nil {
			break
		}
		body := make([]byte, binary.BigEndian.Uint16(l[:]))
		if _, err := io.ReadFull(c, body); err != nil {
			return out, fmt.Errorf("short frame: %w", err)
		}
		out = append(out, body)
		if len(out) >= len(packets) {
			// linger briefly for a forbidden extra frame
			_ = c.SetReadDeadline(time.Now().Add(40 * time.Millisecond))
			if _, err := io.ReadFull(c, l[:]); err == nil {
				body := make([]byte, binary.BigEndian.Uint16(l[:]))
				_, _ = io.ReadFull(c, body)
				out = append(out, body)
			}
			break
		}
	}
	return out, nil
}
