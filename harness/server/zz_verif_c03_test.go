package server

// C03 — a cached response only answers the exact question and audience it was stored for.
// The upstream stub stamps every answer with a digest of the question it was asked
// (name folded to lower case, type, class, CD, ECS source), so any reply tells which
// question's data it carries. Entries are then planted under another question's 64-bit key
// (what a hash collision produces) and the near-miss question is looked up through every
// route: decoded ingress, wire ingress, alias chase, resolver-internal Store.Get, the RFC 9520
// failure lookups, and purge.

import (
	"context"
	"fmt"
	"hash/fnv"
	"net"
	"net/netip"
	"os"
	"strings"
	"sync"
	"testing"
	"testing/synctest"
	"time"

	"github.com/miekg/dns"
	"github.com/semihalev/sdns/config"
	"github.com/semihalev/sdns/internal/vfgen"
	"github.com/semihalev/sdns/internal/vfstat"
	"github.com/semihalev/sdns/middleware"
	"github.com/semihalev/sdns/middleware/cache"
	"pgregory.net/rapid"
)

type vfC03Up struct {
	mu    sync.Mutex
	calls []string
	fail  map[string]bool // lower(name)/type -> answer SERVFAIL
	// swap: the next internal (background refresh) call for this question is answered with a
	// response for another question, question section included — a confused or hostile upstream
	swap    map[string]*vfC03Q
	swapped int
}

func (u *vfC03Up) Name() string { return "vfupstream" }

// vfC03Identity is the digest the stub stamps into its answers.
func vfC03Identity(name string, qtype, qclass uint16, cd bool, ecs string) [3]byte {
	h := fnv.New32a()
	fmt.Fprintf(h, "%s/%d/%d/%v/%s", vfFoldASCII(name), qtype, qclass, cd, ecs)
	s := h.Sum32()
	return [3]byte{byte(s >> 16), byte(s >> 8), byte(s)}
}

func vfFoldASCII(s string) string {
	b := []byte(s)
	for i, c := range b {
		if c >= 'A' && c <= 'Z' {
			b[i] = c + 32
		}
	}
	return string(b)
}

func vfC03ECSOf(req *dns.Msg) string {
	if opt := req.IsEdns0(); opt != nil {
		for _, o := range opt.Option {
			if s, ok := o.(*dns.EDNS0_SUBNET); ok {
				return fmt.Sprintf("%s/%d", s.Address, s.SourceNetmask)
			}
		}
	}
	return ""
}

func (u *vfC03Up) ServeDNS(ctx context.Context, ch *middleware.Chain) {
	ctx, req := ch.Materialize(ctx)
	if req == nil || len(req.Question) == 0 {
		ch.Cancel()
		return
	}
	q := req.Question[0]
	ecs := vfC03ECSOf(req)
	u.mu.Lock()
	u.calls = append(u.calls, fmt.Sprintf("%s/%d/%d/cd=%v/%s", q.Name, q.Qtype, q.Qclass, req.CheckingDisabled, ecs))
	failing := u.fail[fmt.Sprintf("%s/%d/%d/%v", vfFoldASCII(q.Name), q.Qtype, q.Qclass, req.CheckingDisabled)]
	var swapTo *vfC03Q
	if ch.Writer.Internal() {
		k := fmt.Sprintf("%s/%d/%d/%v", vfFoldASCII(q.Name), q.Qtype, q.Qclass, req.CheckingDisabled)
		if sw := u.swap[k]; sw != nil {
			swapTo = sw
			delete(u.swap, k)
			u.swapped++
		}
	}
	u.mu.Unlock()
	if swapTo != nil {
		q = dns.Question{Name: swapTo.Name, Qtype: swapTo.Qtype, Qclass: swapTo.Qclass}
	}
	resp := new(dns.Msg)
	resp.SetReply(req)
	resp.RecursionAvailable = true
	if swapTo != nil {
		resp.Question = []dns.Question{q}
	}
	id := vfC03Identity(q.Name, q.Qtype, q.Qclass, req.CheckingDisabled, ecs)
	switch {
	case failing:
		resp.Rcode = dns.RcodeServerFailure
	case strings.HasPrefix(strings.ToLower(q.Name), "alias-to-") && (q.Qtype == dns.TypeA || q.Qtype == dns.TypeCNAME):
		// CNAME only: the target has to come from the cache or a sub-query
		target := q.Name[len("alias-to-"):]
		resp.Answer = []dns.RR{&dns.CNAME{Hdr: dns.RR_Header{Name: q.Name, Rrtype: dns.TypeCNAME, Class: dns.ClassINET, Ttl: 300}, Target: target}}
	case q.Qtype == dns.TypeA:
		resp.Answer = []dns.RR{&dns.A{Hdr: dns.RR_Header{Name: q.Name, Rrtype: dns.TypeA, Class: q.Qclass, Ttl: 300}, A: net.IPv4(10, id[0], id[1], id[2]).To4()}}
	case q.Qtype == dns.TypeAAAA:
		ip := net.ParseIP("2001:db8::")
		ip[13], ip[14], ip[15] = id[0], id[1], id[2]
		resp.Answer = []dns.RR{&dns.AAAA{Hdr: dns.RR_Header{Name: q.Name, Rrtype: dns.TypeAAAA, Class: q.Qclass, Ttl: 300}, AAAA: ip}}
	case q.Qtype == dns.TypeTXT:
		resp.Answer = []dns.RR{&dns.TXT{Hdr: dns.RR_Header{Name: q.Name, Rrtype: dns.TypeTXT, Class: q.Qclass, Ttl: 300}, Txt: []string{fmt.Sprintf("id=%02x%02x%02x", id[0], id[1], id[2])}}}
	default:
		resp.Ns = []dns.RR{&dns.SOA{Hdr: dns.RR_Header{Name: "id.", Rrtype: dns.TypeSOA, Class: dns.ClassINET, Ttl: 300}, Ns: "ns.id.", Mbox: "h.id.", Serial: uint32(id[0])<<16 | uint32(id[1])<<8 | uint32(id[2]), Refresh: 1, Retry: 1, Expire: 1, Minttl: 300}}
	}
	if opt := req.IsEdns0(); opt != nil && ecs != "" {
		// geo-scoped authority: echo the source as scope
		for _, ro := range opt.Option {
			if s, ok := ro.(*dns.EDNS0_SUBNET); ok {
				o := &dns.OPT{Hdr: dns.RR_Header{Name: ".", Rrtype: dns.TypeOPT}}
				o.SetUDPSize(1232)
				o.Option = append(o.Option, &dns.EDNS0_SUBNET{Code: dns.EDNS0SUBNET, Family: s.Family, SourceNetmask: s.SourceNetmask, SourceScope: s.SourceNetmask, Address: s.Address})
				resp.Extra = append(resp.Extra, o)
			}
		}
	}
	_ = ch.Writer.WriteMsg(resp)
	ch.Cancel()
}

func (u *vfC03Up) N() int {
	u.mu.Lock()
	defer u.mu.Unlock()
	return len(u.calls)
}

// vfC03IdentityOf extracts the stamped digest from a reply (from the records that belong to
// the final owner of an alias chain), or ok=false when the reply carries none.
func vfC03IdentityOf(m *dns.Msg) (id [3]byte, ok bool) {
	for _, rr := range append(append([]dns.RR{}, m.Answer...), m.Ns...) {
		switch v := rr.(type) {
		case *dns.A:
			if ip := v.A.To4(); ip != nil && ip[0] == 10 {
				return [3]byte{ip[1], ip[2], ip[3]}, true
			}
		case *dns.AAAA:
			return [3]byte{v.AAAA[13], v.AAAA[14], v.AAAA[15]}, true
		case *dns.TXT:
			if len(v.Txt) == 1 && strings.HasPrefix(v.Txt[0], "id=") {
				var a, b, c byte
				fmt.Sscanf(v.Txt[0], "id=%02x%02x%02x", &a, &b, &c)
				return [3]byte{a, b, c}, true
			}
		case *dns.SOA:
			if v.Hdr.Name == "id." {
				return [3]byte{byte(v.Serial >> 16), byte(v.Serial >> 8), byte(v.Serial)}, true
			}
		}
	}
	return id, false
}

// vfC03Q is one question plus audience.
type vfC03Q struct {
	Name   string
	Qtype  uint16
	Qclass uint16
	CD     bool
	ECS    string // client-sent subnet (address/bits) or ""
}

func (q vfC03Q) String() string {
	return fmt.Sprintf("%q/%s/%d/cd=%v/ecs=%s", q.Name, dns.TypeToString[q.Qtype], q.Qclass, q.CD, q.ECS)
}

func (q vfC03Q) msg(id uint16) *dns.Msg {
	m := new(dns.Msg)
	m.SetQuestion(q.Name, q.Qtype)
	m.Question[0].Qclass = q.Qclass
	m.Id = id
	m.CheckingDisabled = q.CD
	if q.ECS != "" {
		p := netip.MustParsePrefix(q.ECS)
		fam := uint16(1)
		if p.Addr().Is6() {
			fam = 2
		}
		m.SetEdns0(1232, false)
		m.IsEdns0().Option = append(m.IsEdns0().Option, &dns.EDNS0_SUBNET{Code: dns.EDNS0SUBNET, Family: fam, SourceNetmask: uint8(p.Bits()), Address: net.IP(p.Addr().AsSlice())})
	}
	return m
}

// forwarded ECS as the policy of this harness clamps it (v4 /24, v6 /56)
func (q vfC03Q) upstreamECS() string {
	if q.ECS == "" {
		return ""
	}
	p := netip.MustParsePrefix(q.ECS)
	max := 24
	if p.Addr().Is6() {
		max = 56
	}
	bits := p.Bits()
	if bits > max {
		bits = max
	}
	m, _ := p.Addr().Prefix(bits)
	return fmt.Sprintf("%s/%d", net.IP(m.Addr().AsSlice()), bits)
}

func (q vfC03Q) identity() [3]byte {
	return vfC03Identity(q.Name, q.Qtype, q.Qclass, q.CD, q.upstreamECS())
}

func (q vfC03Q) scope() netip.Prefix {
	if q.ECS == "" {
		return netip.Prefix{}
	}
	p := netip.MustParsePrefix(q.upstreamECS())
	return p.Masked()
}

// sameQuestion: the property's equivalence — name equal up to ASCII case, everything else identical.
func vfC03Same(a, b vfC03Q) bool {
	return vfFoldASCII(a.Name) == vfFoldASCII(b.Name) && a.Qtype == b.Qtype && a.Qclass == b.Qclass && a.CD == b.CD && a.upstreamECS() == b.upstreamECS()
}

var vfC03Labels = []string{"www", "ks", "task", "a", "ab", "b", "c", "bc", "x[y", "x{y", "p\\\\q", "p|q", "n^", "n~", "at@", "at`", "d0", "d\\016", "sp\\032", "sp\\000", "u_v", "u\\255v", "UP", "up", "\\.dot", "dot"}

func vfC03Name(t *rapid.T, label string) string {
	n := rapid.IntRange(1, 3).Draw(t, label+".n")
	parts := make([]string, n)
	for i := range parts {
		parts[i] = rapid.SampledFrom(vfC03Labels).Draw(t, label+".l")
	}
	return vfC03Normal(strings.Join(parts, ".") + ".example.")
}

// vfC03Normal spells a name the way the library presents it after a wire round trip.
func vfC03Normal(name string) string {
	buf := make([]byte, 300)
	off, err := dns.PackDomainName(name, buf, 0, nil, false)
	if err != nil {
		return "fallback.example."
	}
	out, _, err := dns.UnpackDomainName(buf[:off], 0)
	if err != nil {
		return "fallback.example."
	}
	return out
}

// vfC03NearMiss derives a question differing from q in exactly one dimension.
func vfC03NearMiss(t *rapid.T, q vfC03Q) (vfC03Q, string) {
	o := q
	dim := rapid.SampledFrom([]string{"case", "bit20", "boundary", "octet", "qtype", "qclass", "cd", "scope", "name", "unicode-fold"}).Draw(t, "dim")
	switch dim {
	case "case":
		o.Name = strings.ToUpper(q.Name)
		if o.Name == q.Name {
			o.Name = strings.ToLower(q.Name)
		}
	case "bit20": // flip bit 0x20 of one plain (non-escaped) octet: case change for letters, a different name otherwise
		b := []byte(q.Name)
		var idx []int
		for i, c := range b {
			if c != '.' && c != '\\' && (i == 0 || b[i-1] != '\\') && !(c >= '0' && c <= '9') {
				idx = append(idx, i)
			}
		}
		if len(idx) > 0 {
			i := idx[rapid.IntRange(0, len(idx)-1).Draw(t, "bitpos")]
			c := b[i] ^ 0x20
			if c > 0x20 && c < 0x7f && c != '.' && c != '\\' && c != '"' && c != '(' && c != ')' && c != ';' && c != '@' && c != '$' {
				b[i] = c
				o.Name = vfC03Normal(string(b))
			}
		}
	case "boundary": // move a label boundary: "a.bc." vs "ab.c."
		o.Name = strings.Replace(q.Name, "a.bc.", "ab.c.", 1)
		if o.Name == q.Name {
			o.Name = strings.Replace(q.Name, "ab.c.", "a.bc.", 1)
		}
		if o.Name == q.Name {
			o.Name = "a.bc." + q.Name
			q2 := q
			q2.Name = "ab.c." + q.Name
			return vfC03NearMiss2(o, q2)
		}
	case "octet":
		o.Name = vfC03Normal("z" + q.Name[1:])
		if o.Name == q.Name {
			o.Name = vfC03Normal("y" + q.Name[1:])
		}
	case "unicode-fold": // U+212A KELVIN SIGN folds to k, U+017F LONG S to s - under Unicode folding, not in the DNS
		r := strings.NewReplacer("k", "\u212a", "K", "\u212a", "s", "\u017f", "S", "\u017f")
		o.Name = vfC03Normal(r.Replace(q.Name))
		if o.Name == q.Name {
			o.Name = vfC03Normal("\u212a" + q.Name)
		}
	case "qtype":
		o.Qtype = rapid.SampledFrom([]uint16{dns.TypeA, dns.TypeAAAA, dns.TypeTXT, dns.TypeMX}).Draw(t, "otype")
	case "qclass":
		if q.Qclass == dns.ClassINET {
			o.Qclass = dns.ClassCHAOS
		} else {
			o.Qclass = dns.ClassINET
		}
	case "cd":
		o.CD = !q.CD
	case "scope":
		o.ECS = rapid.SampledFrom([]string{"", "203.0.113.0/24", "203.0.113.128/25", "203.0.112.0/23", "198.51.100.0/24", "2001:db8:1::/48", "2001:db8:1:100::/56"}).Draw(t, "oscope")
	case "name":
		o.Name = vfC03Name(t, "other")
	}
	return o, dim
}

func vfC03NearMiss2(o, q vfC03Q) (vfC03Q, string) { return o, "boundary" }

type vfC03Case struct {
	Q1, Q2 vfC03Q
	Dim    string
	Routes []string
	Client int
}

func vfC03Run(t *testing.T, dir string, c *vfC03Case) (violation string, notes []string) {
	synctest.Test(t, func(t *testing.T) {
		cfg := vfBaseConfig(dir)
		cfg.ECS = config.ECSConfig{Enabled: true, ForwardV4Max: 24, ForwardV6Max: 56, MinScopeV4: 24, MinScopeV6: 56, ClientNetworks: []string{"0.0.0.0/0", "::/0"}}
		cfg.Chaos = false
		cfg.Prefetch = 50
		up := &vfC03Up{fail: map[string]bool{}, swap: map[string]*vfC03Q{}}
		s, done := vfBuildServerWith(cfg, up)
		defer done()
		w := &vfWorld{s: s, cfg: cfg}
		var cc *cache.Cache
		if h := middleware.Get("cache"); h != nil {
			cc = h.(*cache.Cache)
		}
		st := cc.VerifStore()
		ip := vfgen.ClientAddrs[c.Client]
		ask := func(q vfC03Q, wire bool, id uint16) (*dns.Msg, int) {
			raw, err := q.msg(id).Pack()
			if err != nil {
				return nil, -1
			}
			before := up.N()
			r := w.Ask(raw, "udp", ip, 4000, wire)
			return r.Msg, up.N() - before
		}
		fail := func(f string, a ...any) {
			if violation == "" {
				violation = fmt.Sprintf(f, a...)
			}
		}
		// 1. Q1 is resolved and cached the ordinary way.
		m1, n1 := ask(c.Q1, false, 1)
		if n1 < 0 {
			notes = append(notes, "unpackable-name")
			return
		}
		if m1 == nil || n1 == 0 {
			notes = append(notes, "q1-not-served")
			return
		}
		if id, ok := vfC03IdentityOf(m1); ok && id != c.Q1.identity() {
			fail("harness: first answer for %v does not carry its own stamp", c.Q1)
			return
		}
		same := vfC03Same(c.Q1, c.Q2)
		// 2. the state a 64-bit key collision between Q1 and Q2 produces
		planted := false
		if !same && c.Dim != "unicode-fold" { // (that dimension is about the purge sweep, which a shared key would short-cut)
			planted = st.VerifPlantCollision(dns.Question{Name: c.Q1.Name, Qtype: c.Q1.Qtype, Qclass: c.Q1.Qclass}, c.Q1.CD, c.Q1.scope(),
				dns.Question{Name: c.Q2.Name, Qtype: c.Q2.Qtype, Qclass: c.Q2.Qclass}, c.Q2.CD, c.Q2.scope())
			if !planted && c.Q1.scope().IsValid() {
				// the authority answered with a scope: the entry lives under the clamped scope key
				planted = st.VerifPlantCollision(dns.Question{Name: c.Q1.Name, Qtype: c.Q1.Qtype, Qclass: c.Q1.Qclass}, c.Q1.CD, netip.Prefix{},
					dns.Question{Name: c.Q2.Name, Qtype: c.Q2.Qtype, Qclass: c.Q2.Qclass}, c.Q2.CD, c.Q2.scope())
			}
			if planted {
				notes = append(notes, "planted")
			}
		}
		want2 := c.Q2.identity()
		judge := func(route string, m *dns.Msg, calls int) {
			if m == nil {
				return
			}
			id, ok := vfC03IdentityOf(m)
			if same {
				// the same question: a hit with Q1's data and no upstream work
				if ok && id != c.Q1.identity() {
					fail("route %s: %v is the same question as %v but the reply carries another question's data", route, c.Q2, c.Q1)
				}
				if calls != 0 && c.Q2.ECS == "" && !c.Q2.CD && !strings.HasPrefix(route, "purge") {
					fail("route %s: %v equals the cached %v up to ASCII case, yet it went upstream %d time(s)", route, c.Q2, c.Q1, calls)
				}
				return
			}
			if ok && id != want2 && c.Dim == "scope" && id == c.Q1.identity() {
				if c.Q1.ECS == "" {
					return // an answer the authority did not scope is shared: it may serve every audience
				}
				if s1, p2 := c.Q1.scope(), c.Q2.scope(); p2.IsValid() && p2.Bits() >= s1.Bits() && s1.Contains(p2.Addr()) {
					return // the client's forwarded prefix lies inside the scope the answer was stored for
				}
			}
			if ok && id != want2 {
				who := "another question"
				if id == c.Q1.identity() {
					who = fmt.Sprintf("%v (planted=%v)", c.Q1, planted)
				}
				fail("route %s: reply to %v carries the data of %s (differing dimension: %s)", route, c.Q2, who, c.Dim)
			}
		}
		for _, route := range c.Routes {
			switch route {
			case "decoded":
				m, n := ask(c.Q2, false, 2)
				judge(route, m, n)
			case "wire":
				m, n := ask(c.Q2, true, 3)
				judge(route, m, n)
			case "store-get":
				req := c.Q2.msg(4)
				if m, ok := st.Get(req); ok && m != nil {
					judge(route, m, 0)
				}
			case "chase":
				if c.Q2.Qtype != dns.TypeA || c.Q2.ECS != "" {
					continue
				}
				a := c.Q2
				a.Name = "alias-to-" + c.Q2.Name
				if _, ok := dns.IsDomainName(a.Name); !ok {
					continue
				}
				for _, wire := range []bool{false, true} { // second pass: alias entry cached, composition from cache
					if wire && !same && c.Dim != "unicode-fold" {
						// the first pass resolved the target and stored it under its key; put the colliding foreign entry back
						// there, so that the byte-composed chase meets it at the hop
						if st.VerifPlantCollision(dns.Question{Name: c.Q1.Name, Qtype: c.Q1.Qtype, Qclass: c.Q1.Qclass}, c.Q1.CD, c.Q1.scope(),
							dns.Question{Name: c.Q2.Name, Qtype: c.Q2.Qtype, Qclass: c.Q2.Qclass}, c.Q2.CD, c.Q2.scope()) {
							notes = append(notes, "planted-at-chase-hop")
						}
					}
					m, n := ask(a, wire, 5)
					if m == nil {
						continue
					}
					if id, ok := vfC03IdentityOf(m); ok {
						if !same && id != want2 {
							fail("route chase (wire=%v): alias to %v was completed with another question's data (planted=%v, dimension %s)", wire, c.Q2, planted, c.Dim)
						}
						if same && id != c.Q1.identity() {
							fail("route chase: alias to %v completed with foreign data", c.Q2)
						}
					}
					_ = n
				}
			case "store-set":
				// resolver-internal admission names the CD partition explicitly; the response's own CD bit may differ
				r := c.Q1
				r.Name = "s-" + c.Q1.Name
				if _, ok := dns.IsDomainName(r.Name); !ok || r.ECS != "" {
					continue
				}
				resp := r.msg(11)
				resp.Response = true
				resp.CheckingDisabled = !r.CD // the message carries the other bit
				idr := r.identity()
				resp.Answer = []dns.RR{&dns.TXT{Hdr: dns.RR_Header{Name: r.Name, Rrtype: dns.TypeTXT, Class: r.Qclass, Ttl: 300}, Txt: []string{fmt.Sprintf("id=%02x%02x%02x", idr[0], idr[1], idr[2])}}}
				if r.Qtype != dns.TypeTXT {
					resp.Answer = []dns.RR{&dns.A{Hdr: dns.RR_Header{Name: r.Name, Rrtype: dns.TypeA, Class: r.Qclass, Ttl: 300}, A: net.IPv4(10, idr[0], idr[1], idr[2]).To4()}}
					resp.Question[0].Qtype = dns.TypeA
					r.Qtype = dns.TypeA
				}
				st.SetFromResponse(resp, r.CD, time.Time{})
				if m, ok := st.Get(r.msg(12)); !ok || m == nil {
					fail("route store-set: an answer admitted for the CD=%v partition is not found by a CD=%v lookup", r.CD, r.CD)
				}
				other := r
				other.CD = !r.CD
				if m, ok := st.Get(other.msg(13)); ok && m != nil {
					fail("route store-set: an answer admitted for the CD=%v partition answers a CD=%v lookup", r.CD, other.CD)
				}
				notes = append(notes, "store-set")
			case "refresh":
				// Q1's entry ages into the prefetch window; its background refresh comes back answering Q2
				// (question section included). Whatever is stored must never be served as Q1's answer.
				if same || c.Q1.ECS != "" || c.Q2.ECS != "" || c.Q1.CD != c.Q2.CD {
					continue
				}
				time.Sleep(160 * time.Second)
				up.mu.Lock()
				q2 := c.Q2
				up.swap[fmt.Sprintf("%s/%d/%d/%v", vfFoldASCII(c.Q1.Name), c.Q1.Qtype, c.Q1.Qclass, c.Q1.CD)] = &q2
				up.mu.Unlock()
				ask(c.Q1, false, 9) // hit; schedules the refresh
				synctest.Wait()
				up.mu.Lock()
				did := up.swapped > 0
				up.mu.Unlock()
				if did {
					notes = append(notes, "mismatched-refresh")
				}
				for _, wire := range []bool{false, true} {
					m, _ := ask(c.Q1, wire, 10)
					if m == nil {
						continue
					}
					if id, ok := vfC03IdentityOf(m); ok && id != c.Q1.identity() {
						fail("route refresh (wire=%v): after a background refresh that answered %v, %v is served another question's data", wire, c.Q2, c.Q1)
					}
				}
			case "refresh-ecs":
				// Q1's shared entry ages into the prefetch window and is hit by a client that sends a subnet (and nothing
				// else in its OPT): the background refresh is a question of the shared audience - what it brings back is
				// filed under the shared key, so it must not be an answer tailored to that one client's network
				if c.Q1.ECS != "" || c.Q1.CD {
					continue
				}
				time.Sleep(160 * time.Second)
				q1e := c.Q1
				q1e.ECS = "203.0.113.0/24"
				if m, _ := ask(q1e, c.Client == 1, 9); m == nil {
					continue
				}
				synctest.Wait()
				notes = append(notes, "refresh-triggered-by-ecs-client")
				for _, wire := range []bool{false, true} {
					m, _ := ask(c.Q1, wire, 10)
					if m == nil {
						continue
					}
					if id, ok := vfC03IdentityOf(m); ok && id != c.Q1.identity() {
						fail("route refresh-ecs (wire=%v): after a background refresh triggered by a client that sent %s, %v (no subnet) is served an answer the authority gave for another audience", wire, q1e.ECS, c.Q1)
					}
				}
			case "purge":
				// purging Q2 must leave Q1's own entry answering Q1 (unless they are the same question / same name+type)
				cc.Purge(dns.Question{Name: c.Q2.Name, Qtype: c.Q2.Qtype, Qclass: c.Q2.Qclass})
				m, n := ask(c.Q2, false, 6)
				judge("purge+decoded", m, n)
				if same && n == 0 && c.Q2.ECS == "" {
					fail("purge of %v left an entry that still answers it", c.Q2)
				}
				if c.Dim == "unicode-fold" {
					// the purge API takes a presentation string: the same name spelled with U+212A / U+017F as it would arrive
					// there (UTF-8), which names other octets than k / s
					raw := strings.NewReplacer("k", "\u212a", "K", "\u212a", "s", "\u017f", "S", "\u017f").Replace(c.Q1.Name)
					if raw != c.Q1.Name {
						cc.Purge(dns.Question{Name: raw, Qtype: c.Q1.Qtype, Qclass: c.Q1.Qclass})
						notes = append(notes, "unicode-spelled-purge")
					}
				}
				if !same && !planted && vfFoldASCII(c.Q1.Name) != vfFoldASCII(c.Q2.Name) {
					// another name was purged: Q1's own entry is still there
					if m1, n1 := ask(c.Q1, false, 16); m1 != nil && n1 != 0 {
						fail("purging %v removed the entry of the different question %v (it went upstream again)", c.Q2, c.Q1)
					}
				}
			}
		}
		// 3. failure cache: a cached failure for Q1 must not answer Q2
		if !same && c.Q1.ECS == "" && c.Q2.ECS == "" {
			f1 := c.Q1
			f1.Name = "f-" + c.Q1.Name
			f2 := c.Q2
			f2.Name = "f-" + c.Q2.Name
			if _, ok := dns.IsDomainName(f1.Name); ok {
				up.mu.Lock()
				up.fail[fmt.Sprintf("%s/%d/%d/%v", vfFoldASCII(f1.Name), f1.Qtype, f1.Qclass, f1.CD)] = true
				up.mu.Unlock()
				if m, _ := ask(f1, false, 7); m != nil && m.Rcode == dns.RcodeServerFailure {
					k1 := cache.FailureQuestionKey{Question: dns.Question{Name: f1.Name, Qtype: f1.Qtype, Qclass: f1.Qclass}, CD: f1.CD}
					k2 := cache.FailureQuestionKey{Question: dns.Question{Name: f2.Name, Qtype: f2.Qtype, Qclass: f2.Qclass}, CD: f2.CD}
					if st.VerifPlantFailureCollision(k1, k2) {
						notes = append(notes, "failure-planted")
					}
					for _, wire := range []bool{false, true} {
						m, n := ask(f2, wire, 8)
						if m != nil && m.Rcode == dns.RcodeServerFailure && n == 0 {
							fail("failure route (wire=%v): %v was answered SERVFAIL from the cached failure of %v without upstream traffic (dimension %s)", wire, f2, f1, c.Dim)
						}
					}
				}
			}
		}
		// 4. subtree cut (RFC 8020): a validated NXDOMAIN for c-<Q1> may answer only names at or below it, label by
		// label, in its class, for CD=0 clients. The stub never answers NXDOMAIN, so any NXDOMAIN stems from the cut.
		below := func(name, anc string) bool {
			n, a := dns.SplitDomainName(vfFoldASCII(name)), dns.SplitDomainName(vfFoldASCII(anc))
			if len(a) > len(n) {
				return false
			}
			for i := 1; i <= len(a); i++ {
				if n[len(n)-i] != a[len(a)-i] {
					return false
				}
			}
			return true
		}
		cutName := "c-" + c.Q1.Name
		if _, ok := dns.IsDomainName(cutName); ok && violation == "" {
			sig := func(owner string, covered uint16) *dns.RRSIG {
				return &dns.RRSIG{Hdr: dns.RR_Header{Name: owner, Rrtype: dns.TypeRRSIG, Class: c.Q1.Qclass, Ttl: 300}, TypeCovered: covered, Algorithm: dns.ECDSAP256SHA256, Labels: uint8(dns.CountLabel(owner)), OrigTtl: 300,
					Expiration: uint32(time.Now().Add(24 * time.Hour).Unix()), Inception: uint32(time.Now().Add(-time.Hour).Unix()), KeyTag: 4242, SignerName: "example.", Signature: "Tm90QVJlYWxTaWduYXR1cmVCdXRWYWxpZEJhc2U2NA=="}
			}
			proof := new(dns.Msg)
			proof.SetQuestion(cutName, dns.TypeA)
			proof.Question[0].Qclass = c.Q1.Qclass
			proof.Response, proof.Rcode = true, dns.RcodeNameError
			proof.Ns = []dns.RR{
				&dns.SOA{Hdr: dns.RR_Header{Name: "example.", Rrtype: dns.TypeSOA, Class: c.Q1.Qclass, Ttl: 300}, Ns: "ns.example.", Mbox: "h.example.", Serial: 1, Refresh: 3600, Retry: 600, Expire: 86400, Minttl: 300},
				sig("example.", dns.TypeSOA),
				&dns.NSEC{Hdr: dns.RR_Header{Name: "example.", Rrtype: dns.TypeNSEC, Class: c.Q1.Qclass, Ttl: 300}, NextDomain: "~.example.", TypeBitMap: []uint16{dns.TypeNS, dns.TypeSOA, dns.TypeRRSIG, dns.TypeNSEC}},
				sig("example.", dns.TypeNSEC),
			}
			if st.RecordNXDomainCut(proof, cutName, "example.", time.Time{}) {
				notes = append(notes, "cut-recorded")
				for _, pre := range []string{"", "x.", "x\\."} {
					l2 := c.Q2
					l2.Name = pre + "c-" + c.Q2.Name
					if _, ok := dns.IsDomainName(l2.Name); !ok {
						continue
					}
					allowed := !l2.CD && l2.Qclass == c.Q1.Qclass && below(l2.Name, cutName)
					// whichever ingress goes first meets no exact entry for this name yet
					for _, wire := range []bool{c.Client == 0, c.Client != 0} {
						m, n := ask(l2, wire, 14)
						if m == nil {
							continue
						}
						if m.Rcode == dns.RcodeNameError {
							notes = append(notes, "cut-served")
							if !allowed {
								fail("cut route (wire=%v): %v was answered NXDOMAIN from the validated cut recorded for %s class %d CD=0 (upstream calls %d) - the cut covers only names at or below it, in its class, for CD=0 clients (differing dimension: %s, prefix %q)", wire, l2, cutName, c.Q1.Qclass, n, c.Dim, pre)
							}
						}
					}
				}
			}
		}
		// 5. zone failure: a failed zone zf-<Q1> suppresses only names at or below it, label by label
		z1 := "zf-" + c.Q1.Name
		if _, ok := dns.IsDomainName(z1); ok && violation == "" && c.Q1.Qclass == dns.ClassINET {
			st.RecordZoneFailure(dns.Question{Name: "probe." + z1, Qtype: dns.TypeA, Qclass: dns.ClassINET}, z1)
			for _, pre := range []string{"", "x.", "x\\."} {
				l2 := c.Q2
				l2.Name, l2.ECS = pre+"zf-"+c.Q2.Name, ""
				if _, ok := dns.IsDomainName(l2.Name); !ok {
					continue
				}
				for _, wire := range []bool{false, true} {
					m, n := ask(l2, wire, 15)
					if m != nil && m.Rcode == dns.RcodeServerFailure && n == 0 {
						notes = append(notes, "zone-failure-served")
						if !below(l2.Name, z1) {
							fail("zone-failure route (wire=%v): %v was answered SERVFAIL without upstream traffic from the failure of zone %s, which it is not at or below (differing dimension: %s, prefix %q)", wire, l2, z1, c.Dim, pre)
						}
					}
				}
			}
		}
	})
	return violation, notes
}

func TestVerifC03Routes(t *testing.T) {
	defer vfstat.Flush()
	vfstat.Quiet()
	const U = "C03.routes"
	dir, _ := os.MkdirTemp(os.Getenv("VERIF_WORKDIR"), "c03")
	defer os.RemoveAll(dir)
	rapid.Check(t, func(rt *rapid.T) {
		q1 := vfC03Q{Name: vfC03Name(rt, "q1"), Qtype: rapid.SampledFrom([]uint16{dns.TypeA, dns.TypeA, dns.TypeAAAA, dns.TypeTXT, dns.TypeMX}).Draw(rt, "qtype"), Qclass: dns.ClassINET,
			CD: rapid.IntRange(0, 3).Draw(rt, "cd") == 0, ECS: rapid.SampledFrom([]string{"", "", "", "203.0.113.0/24", "2001:db8:1:100::/56"}).Draw(rt, "ecs")}
		q2, dim := vfC03NearMiss(rt, q1)
		routes := []string{"decoded", "wire", "store-get", "chase", "purge"}
		defer func() {}()
		// generated route order, purge last when present
		k := rapid.IntRange(0, 3).Draw(rt, "rot")
		routes = append(append([]string{}, routes[k:4]...), routes[:k]...)
		if rapid.IntRange(0, 3).Draw(rt, "storeset") == 0 {
			routes = append(routes, "store-set")
		}
		if rapid.Bool().Draw(rt, "purge") {
			routes = append(routes, "purge")
		} else if rapid.Bool().Draw(rt, "refresh") {
			routes = []string{rapid.SampledFrom([]string{"refresh", "refresh", "refresh-ecs"}).Draw(rt, "refreshkind")}
		}
		c := &vfC03Case{Q1: q1, Q2: q2, Dim: dim, Routes: routes, Client: rapid.IntRange(0, 1).Draw(rt, "client")}
		v, notes := vfC03Run(t, dir, c)
		if v != "" {
			rt.Fatalf("%s\ncase: Q1=%v Q2=%v routes=%v", v, c.Q1, c.Q2, c.Routes)
		}
		vfstat.Eval(U, 1)
		vfstat.Class(U, "dim:"+dim)
		planted := false
		for _, n := range notes {
			vfstat.Class(U, n)
			if n == "planted" {
				planted = true
			}
		}
		if vfC03Same(q1, q2) {
			vfstat.Class(U, "same-question-variant")
		}
		if planted || vfC03Same(q1, q2) {
			vfstat.NonTrivial(U, fmt.Sprint(dim, q1, q2, routes))
			vfstat.Sample(U, dim, map[string]any{"stored_for": q1.String(), "looked_up": q2.String(), "differing_dimension": dim, "collision_planted": planted, "routes": routes})
		}
	})
}

var _ = time.Second
