package server

// C10 on the encrypted front ends: DNS-over-TLS (the TCP stream engine behind a tls.Listener) and DNS-over-QUIC
// (one query per stream, reply ID 0). The listeners are the server's own, bound on loopback with a certificate
// made for the test; the stub behind the default chain answers from the question alone. DoT clients pipeline the
// same bursts as the plain TCP clients of the sockets unit; DoQ clients open rounds of concurrent streams on
// shared connections. Whatever arrives on a connection or stream must be the one whole answer to the question
// asked there.

import (
	"context"
	"crypto/ecdsa"
	"crypto/elliptic"
	"crypto/rand"
	"crypto/tls"
	"crypto/x509"
	"crypto/x509/pkix"
	"encoding/binary"
	"encoding/pem"
	"fmt"
	"io"
	"math/big"
	"net"
	"os"
	"path/filepath"
	"strings"
	"sync"
	"sync/atomic"
	"testing"
	"time"

	"github.com/miekg/dns"
	"github.com/quic-go/quic-go"
	"github.com/semihalev/sdns/internal/vfstat"
	"pgregory.net/rapid"
)

func vfC10Cert(dir string) (certFile, keyFile string, err error) {
	certFile, keyFile = filepath.Join(dir, "vf-cert.pem"), filepath.Join(dir, "vf-key.pem")
	if _, e := os.Stat(certFile); e == nil {
		return certFile, keyFile, nil
	}
	priv, err := ecdsa.GenerateKey(elliptic.P256(), rand.Reader)
	if err != nil {
		return "", "", err
	}
	tpl := &x509.Certificate{SerialNumber: big.NewInt(1), Subject: pkix.Name{CommonName: "verif.test"}, NotBefore: time.Now().Add(-time.Hour), NotAfter: time.Now().Add(240 * time.Hour),
		KeyUsage: x509.KeyUsageDigitalSignature, ExtKeyUsage: []x509.ExtKeyUsage{x509.ExtKeyUsageServerAuth}, IPAddresses: []net.IP{net.IPv4(127, 0, 0, 1)}, DNSNames: []string{"localhost"}}
	der, err := x509.CreateCertificate(rand.Reader, tpl, tpl, &priv.PublicKey, priv)
	if err != nil {
		return "", "", err
	}
	kb, err := x509.MarshalECPrivateKey(priv)
	if err != nil {
		return "", "", err
	}
	if err = os.WriteFile(certFile, pem.EncodeToMemory(&pem.Block{Type: "CERTIFICATE", Bytes: der}), 0o600); err != nil {
		return "", "", err
	}
	err = os.WriteFile(keyFile, pem.EncodeToMemory(&pem.Block{Type: "EC PRIVATE KEY", Bytes: kb}), 0o600)
	return certFile, keyFile, err
}

type vfC10EncParams struct {
	DoTConns   int
	Bursts     int
	DoQConns   int
	Streams    int // concurrent streams per round on one QUIC connection
	Rounds     int
	HitRing    int
	HalfClosed bool // DoT clients half-close after their last burst
}

func vfC10Frame(raw []byte) []byte {
	f := make([]byte, 2+len(raw))
	binary.BigEndian.PutUint16(f, uint16(len(raw)))
	copy(f[2:], raw)
	return f
}

func vfC10Pack(id uint16, name string) []byte {
	m := new(dns.Msg)
	m.SetQuestion(name, dns.TypeTXT)
	m.Id = id
	m.SetEdns0(4096, false)
	if ck := vfC10Cookie(name); ck != "" {
		m.IsEdns0().Option = append(m.IsEdns0().Option, &dns.EDNS0_COOKIE{Code: dns.EDNS0COOKIE, Cookie: ck})
	}
	b, _ := m.Pack()
	return b
}

func vfC10EncRun(t *testing.T, dir string, p vfC10EncParams) (violation string, stats map[string]int64) {
	var viol atomic.Pointer[string]
	report := func(f string, a ...any) {
		s := fmt.Sprintf(f, a...)
		viol.CompareAndSwap(nil, &s)
	}
	cert, key, err := vfC10Cert(dir)
	if err != nil {
		t.Fatalf("VERIF-INCONCLUSIVE certificate: %v", err)
	}
	cfg := vfBaseConfig(dir)
	cfg.RateLimit, cfg.ClientRateLimit = 0, 0
	cfg.BindTLS, cfg.BindDOQ = "127.0.0.1:0", "127.0.0.1:0"
	cfg.CookieSecret = "6c6f6f6b61686172646c6f6f6b6168617264"
	cfg.TLSCertificate, cfg.TLSPrivateKey = cert, key
	stub := &vfC10Stub{}
	s, done := vfBuildServerWith(cfg, stub)
	defer done()
	defer s.Stop()
	ctx, cancel := context.WithCancel(context.Background())
	defer cancel()
	var tl *tlsListener
	var ql *doqListener
	for _, l := range s.listeners {
		switch v := l.(type) {
		case *tlsListener:
			tl = v
		case *doqListener:
			ql = v
		}
	}
	if tl == nil || ql == nil {
		t.Fatalf("VERIF-INCONCLUSIVE listeners missing: tls=%v doq=%v", tl != nil, ql != nil)
	}
	if err := tl.Bind(ctx); err != nil {
		t.Fatalf("VERIF-INCONCLUSIVE bind tls: %v", err)
	}
	if err := ql.Bind(ctx); err != nil {
		t.Fatalf("VERIF-INCONCLUSIVE bind doq: %v", err)
	}
	var served sync.WaitGroup
	served.Add(2)
	go func() { defer served.Done(); _ = tl.Serve(ctx) }()
	go func() { defer served.Done(); _ = ql.Serve(ctx) }()
	defer func() {
		sctx, scancel := context.WithTimeout(context.Background(), 2*time.Second)
		_ = tl.Shutdown(sctx)
		_ = ql.Shutdown(sctx)
		scancel()
		served.Wait()
	}()
	tl.mu.Lock()
	tlsAddr := tl.ln.Addr().String()
	tl.mu.Unlock()
	ql.mu.Lock()
	doqAddr := ql.pc.LocalAddr().String()
	ql.mu.Unlock()
	for i := 0; i < 200 && !(tl.Serving() && ql.Serving()); i++ {
		time.Sleep(time.Millisecond)
	}
	clientTLS := &tls.Config{InsecureSkipVerify: true}
	dialTLS := func() (net.Conn, error) {
		d := &net.Dialer{Timeout: 2 * time.Second}
		return tls.DialWithDialer(d, "tcp", tlsAddr, clientTLS)
	}
	readFrame := func(c net.Conn, wait time.Duration) ([]byte, error) {
		_ = c.SetReadDeadline(time.Now().Add(wait))
		var l [2]byte
		if _, err := io.ReadFull(c, l[:]); err != nil {
			return nil, err
		}
		body := make([]byte, binary.BigEndian.Uint16(l[:]))
		_, err := io.ReadFull(c, body)
		return body, err
	}
	// warm the cache through DoT: small and oversized answers for the bursts, and each QUIC connection's ring
	if wc, err := dialTLS(); err == nil {
		var names []string
		for r := 0; r < 8; r++ {
			names = append(names, fmt.Sprintf("tw-s%d.dot.test.", r))
		}
		names = append(names, "big-tw0.dot.test.", "big-tw1.dot.test.")
		for qc := 0; qc < p.DoQConns; qc++ {
			for r := 0; r < p.HitRing; r++ {
				names = append(names, fmt.Sprintf("hit-q%d-%d.doq.test.", qc, r))
			}
		}
		for i, n := range names {
			if _, err := wc.Write(vfC10Frame(vfC10Pack(uint16(i+1), n))); err != nil {
				break
			}
			if _, err := readFrame(wc, time.Second); err != nil {
				break
			}
		}
		wc.Close()
	} else {
		t.Fatalf("VERIF-INCONCLUSIVE DoT dial: %v", err)
	}
	warm := stub.calls.Load()
	var frames, streamsOK, streamsEmpty, hitStreams, slowStreams atomic.Int64
	var wg sync.WaitGroup
	for j := 0; j < p.DoTConns; j++ {
		wg.Add(1)
		go func(j int) {
			defer wg.Done()
			who := fmt.Sprintf("DoT client %d", j)
			c, err := dialTLS()
			if err != nil {
				return
			}
			defer c.Close()
			for b := 0; b < p.Bursts && viol.Load() == nil; b++ {
				nq := 3 + (b+j)%5
				bigAt := (b*7 + j) % nq
				var names []string
				var burst []byte
				for q := 0; q < nq; q++ {
					name := fmt.Sprintf("tw-s%d.dot.test.", (q+b+j)%8)
					if q == bigAt {
						name = fmt.Sprintf("big-tw%d.dot.test.", (b+j)%2)
					}
					if b%3 == 2 && q == nq-1 {
						name = fmt.Sprintf("t%d-b%d-q%d.dot.test.", j, b, q)
					}
					if b%4 == 3 && q == bigAt {
						name = fmt.Sprintf("big-t%d-b%d.dot.test.", j, b)
					}
					if b%5 == 4 && q == 0 {
						name = fmt.Sprintf("slow-t%d-b%d.dot.test.", j, b) // a slow uncached one in front of cached ones
					}
					names = append(names, name)
					burst = append(burst, vfC10Frame(vfC10Pack(uint16(1000+q), name))...)
				}
				if _, err := c.Write(burst); err != nil {
					return
				}
				if p.HalfClosed && b == p.Bursts-1 {
					if tc, ok := c.(*tls.Conn); ok {
						_ = tc.CloseWrite()
					}
				}
				for q := 0; q < nq; q++ {
					body, err := readFrame(c, 2*time.Second)
					if err != nil {
						if ne, ok := err.(net.Error); ok && ne.Timeout() {
							slowStreams.Add(1) // lateness is not misdelivery
							return
						}
						report("%s: burst %d: the stream ended before reply %d of %d had arrived whole (%v)", who, b, q, nq, err)
						return
					}
					if _, bad := vfC10Check(who, body, map[uint16]string{uint16(1000 + q): names[q]}); bad != "" {
						report("%s: burst %d, position %d of %d (replies must come whole, one per query, in query order): %s", who, b, q, nq, bad)
						return
					}
					frames.Add(1)
				}
			}
			// nothing may follow the last reply
			_ = c.SetReadDeadline(time.Now().Add(30 * time.Millisecond))
			var one [1]byte
			if n, _ := c.Read(one[:]); n > 0 {
				report("%s: bytes arrived after every query of the connection had been answered", who)
			}
		}(j)
	}
	for qc := 0; qc < p.DoQConns; qc++ {
		wg.Add(1)
		go func(qc int) {
			defer wg.Done()
			who := fmt.Sprintf("DoQ connection %d", qc)
			dctx, dcancel := context.WithTimeout(ctx, 3*time.Second)
			conn, err := quic.DialAddr(dctx, doqAddr, &tls.Config{InsecureSkipVerify: true, NextProtos: []string{"doq"}}, nil)
			dcancel()
			if err != nil {
				return
			}
			defer func() { _ = conn.CloseWithError(0, "") }()
			kinds := []string{"hit", "miss", "hit", "slow", "big", "hit", "miss", "drop", "hit", "miss", "hit", "panic", "hit", "miss"}
			for r := 0; r < p.Rounds && viol.Load() == nil; r++ {
				var rg sync.WaitGroup
				for k := 0; k < p.Streams; k++ {
					kind := kinds[(r*p.Streams+k+qc)%len(kinds)]
					name := fmt.Sprintf("%s-q%d-r%d-%d.doq.test.", kind, qc, r, k)
					if kind == "hit" {
						name = fmt.Sprintf("hit-q%d-%d.doq.test.", qc, (r+k)%p.HitRing)
					}
					rg.Add(1)
					go func(k int, kind, name string) {
						defer rg.Done()
						octx, ocancel := context.WithTimeout(ctx, 3*time.Second)
						st, err := conn.OpenStreamSync(octx)
						ocancel()
						if err != nil {
							return
						}
						if _, err := st.Write(vfC10Frame(vfC10Pack(0, name))); err != nil {
							return
						}
						_ = st.Close() // FIN: the query is complete (RFC 9250 4.2)
						_ = st.SetReadDeadline(time.Now().Add(3 * time.Second))
						all, _ := io.ReadAll(io.LimitReader(st, 1<<17))
						sw := fmt.Sprintf("%s stream %d/%d (%s)", who, r, k, name)
						if len(all) == 0 {
							streamsEmpty.Add(1) // dropped by design, or reset
							return
						}
						if len(all) < 2 || int(binary.BigEndian.Uint16(all[:2])) != len(all)-2 {
							n := -1
							if len(all) >= 2 {
								n = int(binary.BigEndian.Uint16(all[:2]))
							}
							report("%s: the stream carried %d bytes for a length prefix of %d - not exactly one whole reply", sw, len(all), n)
							return
						}
						if _, bad := vfC10Check(sw, all[2:], map[uint16]string{0: name}); bad != "" {
							report("%s", bad)
							return
						}
						streamsOK.Add(1)
						if kind == "hit" {
							hitStreams.Add(1)
						}
					}(k, kind, name)
				}
				rg.Wait()
			}
		}(qc)
	}
	wg.Wait()
	stats = map[string]int64{"dot-frames": frames.Load(), "doq-streams-answered": streamsOK.Load(), "doq-streams-empty": streamsEmpty.Load(), "doq-hit-streams": hitStreams.Load(), "dot-read-timeouts": slowStreams.Load(), "handler-calls": stub.calls.Load() - warm}
	if v := viol.Load(); v != nil {
		violation = *v
	}
	return
}

func TestVerifC10Encrypted(t *testing.T) {
	defer vfstat.Flush()
	vfstat.Quiet()
	const U = "C10.encrypted"
	dir, _ := os.MkdirTemp(os.Getenv("VERIF_WORKDIR"), "c10e")
	defer os.RemoveAll(dir)
	rapid.Check(t, func(rt *rapid.T) {
		p := vfC10EncParams{
			DoTConns:   rapid.IntRange(1, 6).Draw(rt, "dotconns"),
			Bursts:     rapid.SampledFrom([]int{4, 10, 25}).Draw(rt, "bursts"),
			DoQConns:   rapid.IntRange(1, 4).Draw(rt, "doqconns"),
			Streams:    rapid.SampledFrom([]int{4, 12, 30}).Draw(rt, "streams"),
			Rounds:     rapid.SampledFrom([]int{3, 8, 16}).Draw(rt, "rounds"),
			HitRing:    rapid.SampledFrom([]int{1, 4, 16}).Draw(rt, "ring"),
			HalfClosed: rapid.Bool().Draw(rt, "halfclose"),
		}
		v, stats := vfC10EncRun(t, dir, p)
		if v != "" {
			rt.Fatalf("%s\n  parameters: %+v\n  stats: %v", v, p, stats)
		}
		vfstat.Eval(U, 1)
		if stats["dot-frames"] > 10 {
			vfstat.Class(U, "dot-pipelined-bursts")
		}
		if stats["doq-streams-answered"] > 10 {
			vfstat.Class(U, "doq-concurrent-streams")
		}
		if stats["doq-streams-empty"] > 0 {
			vfstat.Class(U, "doq-streams-without-reply")
		}
		if stats["dot-frames"] > 10 && stats["doq-streams-answered"] > 10 && stats["doq-hit-streams"] > 0 {
			vfstat.NonTrivial(U, fmt.Sprintf("%+v", p))
			vfstat.Sample(U, fmt.Sprint(p.DoTConns > 2, p.Streams), map[string]any{"parameters": fmt.Sprintf("%+v", p), "stats": stats})
		}
	})
}

var _ = strings.ToLower
