package server

// C04 — nothing is served past its lifetime; composed answers inherit the shortest part.
// Histories of queries / sleeps / purges / prefetch orderings run in a synctest bubble against
// the real default chain. The upstream stub stamps every record with the index of the call
// that produced it, so each record of each reply can be traced to the fetch it was learned
// from; a reference lifetime model (upper bound) then judges every TTL the client sees.

import (
	"context"
	"fmt"
	"net"
	"os"
	"sort"
	"strings"
	"sync"
	"testing"
	"testing/synctest"
	"time"

	"github.com/miekg/dns"
	"github.com/semihalev/sdns/config"
	"github.com/semihalev/sdns/internal/vfgen"
	"github.com/semihalev/sdns/internal/vfstat"
	"github.com/semihalev/sdns/middleware"
	"pgregory.net/rapid"
)

// vfC04Q is the per-question upstream behaviour (plain data, drawn outside the bubble).
type vfC04Q struct {
	Name    string
	Qtype   uint16
	Kind    string   // "a", "cname", "nx", "nodata", "signed"
	TTLs    []uint32 // per call (cycled): record TTL
	SOAMin  uint32
	SOATTL  uint32
	SigLeft []int // per call (cycled): seconds until RRSIG expiry at fetch time (may be <=0)
	Lease   []int // per call (cycled): seconds of delegation lease reported by the "resolver" (0 = none)
	Target  string
	Scope   int // ECS scope echoed (geo); -1 none
}

type vfC04Fetch struct {
	Idx      int
	At       time.Duration
	Key      string // lower(name)/type
	CD       bool
	Life     time.Duration // reference lifetime of what the cache may keep from this fetch
	Released time.Duration // when the response was handed back (differs from At for a blocked prefetch)
	Blocked  bool
	Internal bool // arrived through an internal sub-pipeline (alias chase or background refresh)
	RelSeq   int  // number of upstream calls that had started when a parked call was released
}

type vfC04Up struct {
	mu      sync.Mutex
	qs      map[string]*vfC04Q
	perQ    map[string]int
	fetches []*vfC04Fetch
	// blockNext: the next *internal* (prefetch) call for this key parks until release is closed
	blockKey string
	release  chan struct{}
	parked   chan struct{}
	ecsCap   time.Duration
}

func (u *vfC04Up) Name() string { return "vfupstream" }

func vfC04Clamp(d time.Duration) time.Duration {
	if d < 5*time.Second {
		return 5 * time.Second
	}
	if d > 24*time.Hour {
		return 24 * time.Hour
	}
	return d
}

func (u *vfC04Up) ServeDNS(ctx context.Context, ch *middleware.Chain) {
	ctx, req := ch.Materialize(ctx)
	if req == nil || len(req.Question) == 0 {
		ch.Cancel()
		return
	}
	q := req.Question[0]
	key := vfUpKey(q.Name, q.Qtype)
	now := time.Since(vfEpoch)
	u.mu.Lock()
	spec := u.qs[key]
	n := u.perQ[key]
	u.perQ[key] = n + 1
	f := &vfC04Fetch{Idx: len(u.fetches) + 1, At: now, Key: key, CD: req.CheckingDisabled, Internal: ch.Writer.Internal()}
	u.fetches = append(u.fetches, f)
	park := u.blockKey == key && ch.Writer.Internal() && u.release != nil
	var release, parked chan struct{}
	if park {
		release, parked = u.release, u.parked
		u.blockKey = ""
		f.Blocked = true
	}
	u.mu.Unlock()

	resp := new(dns.Msg)
	resp.SetReply(req)
	resp.RecursionAvailable = true
	minTTL := time.Duration(1<<62 - 1)
	use := func(ttl uint32) {
		if d := time.Duration(ttl) * time.Second; d < minTTL {
			minTTL = d
		}
	}
	a, b := byte(f.Idx>>8), byte(f.Idx)
	lease := 0
	scoped := false
	if spec == nil {
		soa, _ := dns.NewRR(fmt.Sprintf("example.org. 60 IN SOA ns.example.org. h.example.org. %d 7200 3600 1209600 60", f.Idx))
		resp.Ns = []dns.RR{soa}
		use(60)
	} else {
		ttl := spec.TTLs[n%len(spec.TTLs)]
		if len(spec.Lease) > 0 {
			lease = spec.Lease[n%len(spec.Lease)]
		}
		switch spec.Kind {
		case "a":
			for k := 1; k <= 2; k++ {
				resp.Answer = append(resp.Answer, &dns.A{Hdr: dns.RR_Header{Name: q.Name, Rrtype: dns.TypeA, Class: dns.ClassINET, Ttl: ttl}, A: net.IPv4(10, a, b, byte(k)).To4()})
			}
			use(ttl)
		case "cname":
			resp.Answer = append(resp.Answer, &dns.CNAME{Hdr: dns.RR_Header{Name: q.Name, Rrtype: dns.TypeCNAME, Class: dns.ClassINET, Ttl: ttl}, Target: spec.Target})
			use(ttl)
		case "signed":
			resp.Answer = append(resp.Answer, &dns.A{Hdr: dns.RR_Header{Name: q.Name, Rrtype: dns.TypeA, Class: dns.ClassINET, Ttl: ttl}, A: net.IPv4(10, a, b, 9).To4()})
			left := spec.SigLeft[n%len(spec.SigLeft)]
			exp := vfEpoch.Add(now).Add(time.Duration(left) * time.Second)
			resp.Answer = append(resp.Answer, &dns.RRSIG{Hdr: dns.RR_Header{Name: q.Name, Rrtype: dns.TypeRRSIG, Class: dns.ClassINET, Ttl: ttl}, TypeCovered: dns.TypeA, Algorithm: 13, Labels: 3, OrigTtl: ttl,
				Expiration: uint32(exp.Unix()), Inception: uint32(vfEpoch.Add(-time.Hour).Unix()), KeyTag: uint16(f.Idx), SignerName: "example.org.", Signature: "MDAwMDAwMDAwMDAwMDAwMDAwMDAwMDAwMDAwMDAwMDAwMDAwMDAwMDAwMDAwMDAwMDAwMDAwMDAwMDAwMDAwMA=="})
			use(ttl)
			if left > 0 {
				if d := time.Duration(left) * time.Second; d < minTTL {
					minTTL = d
				}
			} else {
				minTTL = 0 // expired signature: at most the floor, or not cached at all
			}
			resp.AuthenticatedData = true
		case "wildcard-signed":
			// a wildcard-expanded answer: the answer RRset with a long-lived signature, and in the authority section the
			// NSEC that proves no closer match, signed separately - with a signature that may expire much earlier
			resp.Answer = append(resp.Answer, &dns.A{Hdr: dns.RR_Header{Name: q.Name, Rrtype: dns.TypeA, Class: dns.ClassINET, Ttl: ttl}, A: net.IPv4(10, a, b, 7).To4()})
			mk := func(owner string, covered uint16, labels uint8, left int) *dns.RRSIG {
				exp := vfEpoch.Add(now).Add(time.Duration(left) * time.Second)
				return &dns.RRSIG{Hdr: dns.RR_Header{Name: owner, Rrtype: dns.TypeRRSIG, Class: dns.ClassINET, Ttl: ttl}, TypeCovered: covered, Algorithm: 13, Labels: labels, OrigTtl: ttl,
					Expiration: uint32(exp.Unix()), Inception: uint32(vfEpoch.Add(-time.Hour).Unix()), KeyTag: uint16(f.Idx), SignerName: "example.org.", Signature: "MDAwMDAwMDAwMDAwMDAwMDAwMDAwMDAwMDAwMDAwMDAwMDAwMDAwMDAwMDAwMDAwMDAwMDAwMDAwMDAwMDAwMA=="}
			}
			left := spec.SigLeft[n%len(spec.SigLeft)]
			resp.Answer = append(resp.Answer, mk(q.Name, dns.TypeA, 2, 1000000))
			resp.Ns = append(resp.Ns, &dns.NSEC{Hdr: dns.RR_Header{Name: "v.example.org.", Rrtype: dns.TypeNSEC, Class: dns.ClassINET, Ttl: ttl}, NextDomain: "x.example.org.", TypeBitMap: []uint16{dns.TypeA, dns.TypeRRSIG, dns.TypeNSEC}},
				mk("v.example.org.", dns.TypeNSEC, 3, left))
			use(ttl)
			if left > 0 {
				if d := time.Duration(left) * time.Second; d < minTTL {
					minTTL = d
				}
			} else {
				minTTL = 0
			}
			resp.AuthenticatedData = true
		case "cname-nodata":
			// what an authority serving alias and target from one zone returns when the target lacks the type: the
			// alias, and the zone's SOA for the negative part - whose lifetime is the SOA's negative TTL (RFC 2308)
			resp.Answer = append(resp.Answer, &dns.CNAME{Hdr: dns.RR_Header{Name: q.Name, Rrtype: dns.TypeCNAME, Class: dns.ClassINET, Ttl: ttl}, Target: spec.Target})
			resp.Ns = append(resp.Ns, &dns.SOA{Hdr: dns.RR_Header{Name: "example.org.", Rrtype: dns.TypeSOA, Class: dns.ClassINET, Ttl: spec.SOATTL}, Ns: "ns.example.org.", Mbox: "h.example.org.",
				Serial: uint32(f.Idx), Refresh: 7200, Retry: 3600, Expire: 1209600, Minttl: spec.SOAMin})
			use(ttl)
			use(spec.SOATTL)
			use(spec.SOAMin)
		case "nx-bare":
			// NXDOMAIN with empty sections: nothing in it carries a TTL, the cache keeps it for its floor
			resp.Rcode = dns.RcodeNameError
			use(0)
		case "nx", "nodata":
			if spec.Kind == "nx" {
				resp.Rcode = dns.RcodeNameError
			}
			resp.Ns = append(resp.Ns, &dns.SOA{Hdr: dns.RR_Header{Name: "example.org.", Rrtype: dns.TypeSOA, Class: dns.ClassINET, Ttl: spec.SOATTL}, Ns: "ns.example.org.", Mbox: "h.example.org.",
				Serial: uint32(f.Idx), Refresh: 7200, Retry: 3600, Expire: 1209600, Minttl: spec.SOAMin})
			use(spec.SOATTL)
			use(spec.SOAMin)
		}
		if spec.Scope >= 0 {
			if opt := req.IsEdns0(); opt != nil {
				for _, ro := range opt.Option {
					if s, ok := ro.(*dns.EDNS0_SUBNET); ok {
						o := &dns.OPT{Hdr: dns.RR_Header{Name: ".", Rrtype: dns.TypeOPT}}
						o.SetUDPSize(1232)
						o.Option = append(o.Option, &dns.EDNS0_SUBNET{Code: dns.EDNS0SUBNET, Family: s.Family, SourceNetmask: s.SourceNetmask, SourceScope: uint8(spec.Scope), Address: s.Address})
						resp.Extra = append(resp.Extra, o)
						scoped = spec.Scope > 0
					}
				}
			}
		}
	}
	life := vfC04Clamp(minTTL)
	if scoped && u.ecsCap > 0 && life > u.ecsCap {
		life = u.ecsCap
	}
	if lease > 0 {
		// what a resolver does: report the delegation lease this answer was learned under
		if meta := middleware.ResponseMetaFrom(ctx); meta != nil {
			meta.BoundCut(vfEpoch.Add(now).Add(time.Duration(lease) * time.Second))
		}
		if d := time.Duration(lease) * time.Second; d < life {
			life = d // the lease overrides the 5 s floor
		}
	}
	f.Life = life
	if park {
		close(parked)
		<-release
		u.mu.Lock()
		f.RelSeq = len(u.fetches)
		u.mu.Unlock()
	}
	f.Released = time.Since(vfEpoch)
	_ = ch.Writer.WriteMsg(resp)
	ch.Cancel()
}

type vfC04Step struct {
	Kind   string // query sleep purge block release
	Q      int    // index into the question list
	CD     bool
	DO     bool
	EDNS   bool
	Wire   bool
	Proto  string
	Client int
	ECS    bool
	Sleep  time.Duration
	Upper  bool
}

type vfC04Case struct {
	Qs       []vfC04Q
	Steps    []vfC04Step
	Prefetch int
	ECSOn    bool
	ECSCap   int
}

// vfC04Served is one record seen by a client, attributed to the fetch it came from.
type vfC04Served struct {
	step  int
	at    time.Duration
	rr    string
	ttl   uint32
	fetch int // 0 = unknown (e.g. CNAME: several candidates)
	cands []int
}

func vfC04FetchOf(rr dns.RR) int {
	switch v := rr.(type) {
	case *dns.A:
		ip := v.A.To4()
		if ip != nil && ip[0] == 10 {
			return int(ip[1])<<8 | int(ip[2])
		}
	case *dns.SOA:
		return int(v.Serial)
	case *dns.RRSIG:
		return int(v.KeyTag)
	}
	return 0
}

func vfC04Run(t *testing.T, dir string, c *vfC04Case) (violation string, stats map[string]int, sample []string) {
	stats = map[string]int{}
	synctest.Test(t, func(t *testing.T) {
		cfg := vfBaseConfig(dir)
		cfg.Prefetch = uint32(c.Prefetch)
		if c.ECSOn {
			cfg.ECS = config.ECSConfig{Enabled: true, ForwardV4Max: 24, ForwardV6Max: 56, MinScopeV4: 16, MinScopeV6: 32, ClientNetworks: []string{"0.0.0.0/0", "::/0"}}
			cfg.ECS.CacheLimitTTL.Duration = time.Duration(c.ECSCap) * time.Second
		}
		up := &vfC04Up{qs: map[string]*vfC04Q{}, perQ: map[string]int{}, ecsCap: time.Duration(c.ECSCap) * time.Second}
		for i := range c.Qs {
			up.qs[vfUpKey(c.Qs[i].Name, c.Qs[i].Qtype)] = &c.Qs[i]
		}
		s, done := vfBuildServerWith(cfg, up)
		defer done()
		// runs before done(): a refresh still parked upstream would otherwise wedge the queue's Stop
		defer func() {
			up.mu.Lock()
			if up.release != nil {
				close(up.release)
				up.release = nil
			}
			up.mu.Unlock()
			synctest.Wait()
		}()
		w := &vfWorld{s: s, cfg: cfg}
		lastTTL := map[string]uint32{} // "question|fetch|rr" -> last TTL shown
		fetchStep := map[int]int{}     // fetch index -> step it happened in
		fail := func(format string, a ...any) {
			if violation == "" {
				violation = fmt.Sprintf(format, a...)
			}
		}
		for si, st := range c.Steps {
			now := time.Since(vfEpoch)
			switch st.Kind {
			case "sleep":
				time.Sleep(st.Sleep)
				sample = append(sample, fmt.Sprintf("t=%s sleep %s", now, st.Sleep))
				continue
			case "purge":
				q := c.Qs[st.Q]
				if h := middleware.Get("cache"); h != nil {
					h.(interface{ Purge(dns.Question) }).Purge(dns.Question{Name: q.Name, Qtype: q.Qtype, Qclass: dns.ClassINET})
				}
				sample = append(sample, fmt.Sprintf("t=%s purge %s", now, q.Name))
				continue
			case "block":
				// only questions that are never the target of an alias chase: an internal call for them
				// can only be a background refresh, never part of the client's own call stack
				if n := c.Qs[st.Q].Name; n == "www.example.org." || n == "alias.example.org." || n == "nodata-t.example.org." || n == "barenx.example.org." {
					continue
				}
				up.mu.Lock()
				if up.release == nil {
					up.blockKey = vfUpKey(c.Qs[st.Q].Name, c.Qs[st.Q].Qtype)
					up.release, up.parked = make(chan struct{}), make(chan struct{})
				}
				up.mu.Unlock()
				sample = append(sample, fmt.Sprintf("t=%s arm: next background refresh of %s parks", now, c.Qs[st.Q].Name))
				continue
			case "release":
				up.mu.Lock()
				rel, parked := up.release, up.parked
				up.mu.Unlock()
				if rel != nil {
					select {
					case <-parked:
						stats["late-prefetch-released"]++
					default:
					}
					close(rel)
					up.mu.Lock()
					up.release, up.parked, up.blockKey = nil, nil, ""
					up.mu.Unlock()
					synctest.Wait()
					sample = append(sample, fmt.Sprintf("t=%s release parked refresh", now))
				}
				continue
			}
			q := c.Qs[st.Q]
			name := q.Name
			if st.Upper {
				name = strings.ToUpper(name)
			}
			m := new(dns.Msg)
			m.SetQuestion(name, q.Qtype)
			m.Id = uint16(1000 + si)
			m.CheckingDisabled = st.CD
			if st.EDNS || st.ECS {
				m.SetEdns0(1232, st.DO)
				if st.ECS {
					ip := vfgen.ClientAddrs[st.Client]
					fam, bits := uint16(1), uint8(24)
					if ip.To4() == nil {
						fam, bits = 2, 56
					}
					m.IsEdns0().Option = append(m.IsEdns0().Option, &dns.EDNS0_SUBNET{Code: dns.EDNS0SUBNET, Family: fam, SourceNetmask: bits, Address: ip})
				}
			}
			raw, _ := m.Pack()
			up.mu.Lock()
			before := len(up.fetches)
			up.mu.Unlock()
			r := w.Ask(raw, st.Proto, vfgen.ClientAddrs[st.Client], 4000+st.Client, st.Wire)
			synctest.Wait()
			up.mu.Lock()
			fetches := append([]*vfC04Fetch(nil), up.fetches...)
			up.mu.Unlock()
			for _, f := range fetches[before:] {
				fetchStep[f.Idx] = si
			}
			freshThisStep := map[int]bool{}
			for _, f := range fetches[before:] {
				if !f.Blocked || f.Released > 0 {
					freshThisStep[f.Idx] = true
				}
			}
			if r.Msg == nil {
				if len(r.Writes) == 0 {
					sample = append(sample, fmt.Sprintf("t=%s %s -> no reply", now, name))
					continue
				}
				fail("step %d: undecodable reply: %s", si, r.Err)
				return
			}
			line := fmt.Sprintf("t=%s %s cd=%v wire=%v -> rcode=%d", now, name, st.CD, st.Wire, r.Msg.Rcode)
			cacheServed := len(fetches) == before
			if strings.EqualFold(name, "aliasnx.example.org.") && r.Msg.Rcode == dns.RcodeNameError {
				// the alias entry now serving was written back by the latest fetch of the alias; if the denial it was
				// completed with came from cache then (no fetch of the target in that step), the alias entry inherited that
				// denial's lifetime and cannot still be served once the denial has expired
				// every fetch of the alias whose CNAME could still be held happened in a step that did not fetch the
				// target (so each stored alias entry was completed with a cached denial and inherited its remaining
				// lifetime), and every denial of the target ever fetched has run out: nothing is left to serve this from
				aliasOnly, any := true, false
				for _, f := range fetches[:before] {
					if f.Key != vfUpKey("aliasnx.example.org.", dns.TypeA) || now > f.At+300*time.Second {
						continue
					}
					any = true
					for _, g := range fetches {
						if g.Key == vfUpKey("barenx.example.org.", dns.TypeA) && fetchStep[g.Idx] == fetchStep[f.Idx] {
							aliasOnly = false
						}
					}
				}
				var last *vfC04Fetch
				for _, g := range fetches[:before] {
					if g.Key == vfUpKey("barenx.example.org.", dns.TypeA) {
						if last == nil || g.At+g.Life > last.At+last.Life {
							last = g
						}
					}
				}
				if !cacheServed && any && aliasOnly && last != nil && now > last.At+last.Life+time.Second {
					stats["alias-over-cached-denial"]++ // the stored alias had nothing live to stand on, and was not used
				}
				if cacheServed && any && aliasOnly && last != nil {
					stats["alias-over-cached-denial"]++
					if now > last.At+last.Life+time.Second {
						fail("step %d at t=%s: %s is answered NXDOMAIN from cache, by an alias entry that was completed with a cached denial of its target; the last such denial (fetch #%d at t=%s, lifetime %s) ran out %s ago\nhistory:\n  %s", si, now, name, last.Idx, last.At, last.Life, now-last.At-last.Life, strings.Join(append(sample, line), "\n  "))
						return
					}
				}
			}
			if cacheServed {
				stats["cache-served-replies"]++
			} else {
				// something was fetched for this reply: what it is composed into is a new stored entry for this question,
				// and "never grows between hits on the same stored entry" starts over for it (a record of an older fetch
				// may reappear in it through another entry, with that entry's own remaining lifetime)
				pre := fmt.Sprintf("%s|%d|%v|", strings.ToLower(name), q.Qtype, st.CD)
				for k := range lastTTL {
					if strings.HasPrefix(k, pre) {
						delete(lastTTL, k)
					}
				}
			}
			// which fetches this reply is composed of: the identity of "the same stored entry" for the never-grows clause
			var comp []int
			for _, rr := range append(append([]dns.RR{}, r.Msg.Answer...), r.Msg.Ns...) {
				if i := vfC04FetchOf(rr); i > 0 {
					comp = append(comp, i)
				}
			}
			sort.Ints(comp)
			for _, rr := range append(append([]dns.RR{}, r.Msg.Answer...), r.Msg.Ns...) {
				if rr.Header().Rrtype == dns.TypeOPT {
					continue
				}
				fidx := vfC04FetchOf(rr)
				var cands []*vfC04Fetch
				if fidx > 0 && fidx <= len(fetches) {
					cands = []*vfC04Fetch{fetches[fidx-1]}
				} else if c2, ok := rr.(*dns.CNAME); ok {
					k := vfUpKey(c2.Hdr.Name, dns.TypeA)
					for _, f := range fetches {
						if f.Key == k || f.Key == vfUpKey(c2.Hdr.Name, dns.TypeCNAME) {
							cands = append(cands, f)
						}
					}
				}
				if len(cands) == 0 {
					continue
				}
				line += fmt.Sprintf(" [%s ttl=%d fetch#%d]", dns.TypeToString[rr.Header().Rrtype], rr.Header().Ttl, fidx)
				// reference: the most generous candidate
				fresh := false
				allowed := time.Duration(-1 << 62)
				var best *vfC04Fetch
				for _, f := range cands {
					if freshThisStep[f.Idx] {
						fresh = true
					}
					rel := f.At // lifetime counts from when the response was received
					if f.Blocked {
						rel = f.Released
					}
					if a := f.Life - (now - rel); a > allowed {
						allowed, best = a, f
					}
				}
				if fresh {
					continue // answered from upstream in this very step: published TTLs pass through
				}
				stats["cached-records-judged"]++
				if allowed <= 0 {
					fail("step %d at t=%s: %s served %s although its lifetime ended %s ago (fetch #%d at t=%s, lifetime %s)\nhistory:\n  %s", si, now, name, rr.String(), -allowed, best.Idx, best.At, best.Life, strings.Join(append(sample, line), "\n  "))
					return
				}
				limit := uint32((allowed + time.Second - 1) / time.Second)
				if rr.Header().Ttl > limit {
					fail("step %d at t=%s: %s shows TTL %d on %s but only %s remain (fetch #%d at t=%s, lifetime %s)\nhistory:\n  %s", si, now, name, rr.Header().Ttl, rr.String(), allowed, best.Idx, best.At, best.Life, strings.Join(append(sample, line), "\n  "))
					return
				}
				if allowed < 3*time.Second || now-best.At > best.Life/2 {
					stats["late-in-life"]++
				}
				// TTL never grows between hits on the same stored data
				if fidx > 0 {
					k := fmt.Sprintf("%s|%d|%v|%d|%v|%s", strings.ToLower(name), q.Qtype, st.CD, fidx, comp, strings.ToLower(vfCanonRR(rr, false)))
					if prev, ok := lastTTL[k]; ok && rr.Header().Ttl > prev {
						fail("step %d at t=%s: TTL of %s grew from %d to %d between hits on the same stored entry\nhistory:\n  %s", si, now, rr.String(), prev, rr.Header().Ttl, strings.Join(append(sample, line), "\n  "))
						return
					}
					lastTTL[k] = rr.Header().Ttl
				}
			}
			// chase composition: an alias reply assembled from >=2 fetches of different ages
			seen := map[int]bool{}
			for _, rr := range append(append([]dns.RR{}, r.Msg.Answer...), r.Msg.Ns...) {
				if f := vfC04FetchOf(rr); f > 0 {
					seen[f] = true
				}
			}
			if q.Kind == "cname" && cacheServed && len(r.Msg.Answer) > 1 {
				stats["composed-from-cache"]++
			}
			// a background refresh that completed after newer data was stored must not have overwritten it:
			// the newest *client-path* fetch of this question wins over an older parked one
			var newestClient, parkedIdx, parkedRelSeq int
			for _, f := range fetches {
				if f.Key == vfUpKey(q.Name, q.Qtype) && f.CD == st.CD {
					if f.Blocked && f.Released > 0 {
						parkedIdx, parkedRelSeq, newestClient = f.Idx, f.RelSeq, 0
					} else if !f.Blocked && !f.Internal && parkedIdx > 0 && f.Idx > parkedIdx && f.Idx <= parkedRelSeq {
						newestClient = f.Idx // a client-path fetch that started and completed while the refresh was parked
					}
				}
			}
			if q.Kind != "signed" && parkedIdx > 0 && newestClient > parkedIdx {
				for f := range seen {
					if f == parkedIdx {
						fail("step %d at t=%s: %s answered from the late background refresh (fetch #%d) although newer data (fetch #%d) had been stored before it completed\nhistory:\n  %s", si, now, name, parkedIdx, newestClient, strings.Join(append(sample, line), "\n  "))
						return
					}
				}
				stats["late-prefetch-judged"]++
			}
			sample = append(sample, line)
		}
	})
	return violation, stats, sample
}

func vfC04GenCase(rt *rapid.T) *vfC04Case {
	ttls := func(label string) []uint32 {
		n := rapid.IntRange(1, 3).Draw(rt, label+".n")
		out := make([]uint32, n)
		for i := range out {
			out[i] = rapid.SampledFrom([]uint32{0, 1, 3, 5, 6, 10, 30, 60, 300, 90000, 200000}).Draw(rt, label)
		}
		return out
	}
	leases := func(label string) []int {
		if rapid.IntRange(0, 2).Draw(rt, label+".has") != 0 {
			return nil
		}
		return []int{rapid.SampledFrom([]int{0, 2, 3, 4, 8, 20, 100}).Draw(rt, label), rapid.SampledFrom([]int{0, 2, 50}).Draw(rt, label+"2")}
	}
	c := &vfC04Case{Prefetch: rapid.SampledFrom([]int{0, 0, 10, 50, 90}).Draw(rt, "prefetch"), ECSOn: rapid.IntRange(0, 3).Draw(rt, "ecs") == 0, ECSCap: rapid.SampledFrom([]int{0, 7, 20}).Draw(rt, "ecscap")}
	c.Qs = []vfC04Q{
		{Name: "www.example.org.", Qtype: dns.TypeA, Kind: "a", TTLs: ttls("ttl.www"), Lease: leases("lease.www"), Scope: -1},
		{Name: "alias.example.org.", Qtype: dns.TypeA, Kind: "cname", Target: "www.example.org.", TTLs: ttls("ttl.alias"), Lease: leases("lease.alias"), Scope: -1},
		{Name: "alias2.example.org.", Qtype: dns.TypeA, Kind: "cname", Target: "alias.example.org.", TTLs: ttls("ttl.alias2"), Scope: -1},
		{Name: "nx.example.org.", Qtype: dns.TypeA, Kind: "nx", TTLs: []uint32{0}, SOATTL: rapid.SampledFrom([]uint32{0, 3, 30, 300, 100000}).Draw(rt, "soattl"), SOAMin: rapid.SampledFrom([]uint32{0, 2, 10, 60, 100000}).Draw(rt, "soamin"), Lease: leases("lease.nx"), Scope: -1},
		{Name: "nodata.example.org.", Qtype: dns.TypeA, Kind: "nodata", TTLs: []uint32{0}, SOATTL: rapid.SampledFrom([]uint32{3, 30, 300}).Draw(rt, "soattl2"), SOAMin: rapid.SampledFrom([]uint32{2, 10, 60}).Draw(rt, "soamin2"), Scope: -1},
		{Name: "signed.example.org.", Qtype: dns.TypeA, Kind: "signed", TTLs: ttls("ttl.signed"), SigLeft: []int{rapid.SampledFrom([]int{-5, 2, 7, 20, 100, 1000000}).Draw(rt, "sigleft"), rapid.SampledFrom([]int{3, 50}).Draw(rt, "sigleft2")}, Scope: -1},
		{Name: "geo.example.org.", Qtype: dns.TypeA, Kind: "a", TTLs: ttls("ttl.geo"), Scope: rapid.SampledFrom([]int{0, 16, 24}).Draw(rt, "geoscope")},
		{Name: "aliasnd.example.org.", Qtype: dns.TypeA, Kind: "cname-nodata", Target: "nodata-t.example.org.", TTLs: []uint32{rapid.SampledFrom([]uint32{300, 3600}).Draw(rt, "ttl.aliasnd")},
			SOATTL: rapid.SampledFrom([]uint32{300, 3600}).Draw(rt, "soattl3"), SOAMin: rapid.SampledFrom([]uint32{10, 60}).Draw(rt, "soamin3"), Scope: -1},
		{Name: "nodata-t.example.org.", Qtype: dns.TypeA, Kind: "nodata", TTLs: []uint32{0}, SOATTL: 3600, SOAMin: 60, Scope: -1},
		{Name: "aliasnx.example.org.", Qtype: dns.TypeA, Kind: "cname", Target: "barenx.example.org.", TTLs: []uint32{300}, Scope: -1},
		{Name: "barenx.example.org.", Qtype: dns.TypeA, Kind: "nx-bare", TTLs: []uint32{0}, Scope: -1},
		{Name: "w.wild.example.org.", Qtype: dns.TypeA, Kind: "wildcard-signed", TTLs: []uint32{rapid.SampledFrom([]uint32{60, 300, 3600}).Draw(rt, "ttl.wild")},
			SigLeft: []int{rapid.SampledFrom([]int{-5, 7, 20, 100}).Draw(rt, "wildsigleft")}, Scope: -1},
	}
	if rapid.IntRange(0, 3).Draw(rt, "lateprefetch") == 0 {
		// scripted skeleton of a late background refresh, with generated timings: fetch, age into the
		// prefetch window, hit (refresh starts and parks upstream), let newer data arrive through the
		// client path (after a purge or the entry's expiry), release the parked refresh, look again.
		c.Prefetch = rapid.SampledFrom([]int{50, 90}).Draw(rt, "lp.threshold")
		qi := rapid.SampledFrom([]int{2, 3, 4, 5}).Draw(rt, "lp.q") // alias2, nx, nodata, signed
		ttl := uint32(rapid.SampledFrom([]int{20, 60, 300}).Draw(rt, "lp.ttl"))
		c.Qs[qi].TTLs, c.Qs[qi].SOATTL, c.Qs[qi].SOAMin, c.Qs[qi].SigLeft = []uint32{ttl}, ttl, ttl, []int{1000000}
		cl := rapid.IntRange(0, len(vfgen.ClientAddrs)-1).Draw(rt, "lp.client")
		ask := func() vfC04Step {
			return vfC04Step{Kind: "query", Q: qi, EDNS: rapid.Bool().Draw(rt, "lp.edns"), Wire: rapid.Bool().Draw(rt, "lp.wire"), Proto: "udp", Client: cl}
		}
		age := time.Duration(int(ttl)*rapid.SampledFrom([]int{60, 80, 95}).Draw(rt, "lp.age")/100) * time.Second
		c.Steps = append(c.Steps, ask(), vfC04Step{Kind: "sleep", Sleep: age}, vfC04Step{Kind: "block", Q: qi}, ask())
		if rapid.Bool().Draw(rt, "lp.purge") {
			c.Steps = append(c.Steps, vfC04Step{Kind: "purge", Q: qi})
		} else {
			c.Steps = append(c.Steps, vfC04Step{Kind: "sleep", Sleep: time.Duration(ttl)*time.Second - age + time.Second})
		}
		c.Steps = append(c.Steps, ask())
		if rapid.Bool().Draw(rt, "lp.gap") {
			c.Steps = append(c.Steps, vfC04Step{Kind: "sleep", Sleep: time.Second})
		}
		c.Steps = append(c.Steps, vfC04Step{Kind: "release"}, ask(), vfC04Step{Kind: "sleep", Sleep: 2 * time.Second}, ask())
		return c
	}
	if rapid.IntRange(0, 5).Draw(rt, "aliasdenial") == 0 {
		// an alias fetched while the denial of its target is already cached, looked at again after that denial ran out
		ask := func(qi int) vfC04Step {
			return vfC04Step{Kind: "query", Q: qi, EDNS: rapid.Bool().Draw(rt, "ad.edns"), DO: rapid.Bool().Draw(rt, "ad.do"), Wire: rapid.Bool().Draw(rt, "ad.wire"), Proto: "udp", Client: 0}
		}
		sl := func(choices ...int) vfC04Step {
			return vfC04Step{Kind: "sleep", Sleep: time.Duration(rapid.SampledFrom(choices).Draw(rt, "ad.sleep")) * time.Second}
		}
		c.Steps = append(c.Steps, ask(10), sl(1, 2, 3), ask(9), sl(2, 4, 6, 9, 31, 120), ask(9), sl(1, 5, 60), ask(9))
		return c
	}
	n := rapid.IntRange(3, 16).Draw(rt, "nsteps")
	focus := rapid.IntRange(0, len(c.Qs)-1).Draw(rt, "focus")
	for i := 0; i < n; i++ {
		k := rapid.IntRange(0, 19).Draw(rt, "stepkind")
		qi := focus
		if rapid.IntRange(0, 2).Draw(rt, "otherq") == 0 {
			qi = rapid.IntRange(0, len(c.Qs)-1).Draw(rt, "qi")
		}
		switch {
		case k < 6:
			c.Steps = append(c.Steps, vfC04Step{Kind: "sleep", Sleep: time.Duration(rapid.SampledFrom([]int{1, 1, 2, 3, 4, 5, 6, 9, 11, 25, 31, 59, 61, 299, 301, 86399, 86401}).Draw(rt, "sleep")) * time.Second})
		case k == 6:
			c.Steps = append(c.Steps, vfC04Step{Kind: "purge", Q: qi})
		case k == 7 && c.Prefetch > 0:
			c.Steps = append(c.Steps, vfC04Step{Kind: "block", Q: qi})
		case k == 8 && c.Prefetch > 0:
			c.Steps = append(c.Steps, vfC04Step{Kind: "release"})
		default:
			c.Steps = append(c.Steps, vfC04Step{Kind: "query", Q: qi, CD: rapid.IntRange(0, 5).Draw(rt, "cd") == 0, EDNS: rapid.Bool().Draw(rt, "edns"), DO: rapid.Bool().Draw(rt, "do"),
				Wire: rapid.Bool().Draw(rt, "wire"), Proto: rapid.SampledFrom([]string{"udp", "tcp"}).Draw(rt, "proto"), Client: rapid.IntRange(0, len(vfgen.ClientAddrs)-1).Draw(rt, "client"),
				ECS: c.ECSOn && rapid.IntRange(0, 1).Draw(rt, "useecs") == 0, Upper: rapid.IntRange(0, 4).Draw(rt, "upper") == 0})
		}
	}
	return c
}

func TestVerifC04Lifetime(t *testing.T) {
	defer vfstat.Flush()
	vfstat.Quiet()
	const U = "C04.lifetime"
	dir, _ := os.MkdirTemp(os.Getenv("VERIF_WORKDIR"), "c04")
	defer os.RemoveAll(dir)
	rapid.Check(t, func(rt *rapid.T) {
		c := vfC04GenCase(rt)
		v, stats, sample := vfC04Run(t, dir, c)
		if v != "" {
			rt.Fatalf("%s", v)
		}
		vfstat.Eval(U, 1)
		var cls []string
		for k, n := range stats {
			if n > 0 {
				vfstat.Class(U, k)
				cls = append(cls, k)
			}
		}
		sort.Strings(cls)
		if stats["late-in-life"] > 0 || stats["composed-from-cache"] > 0 || stats["late-prefetch-judged"] > 0 {
			var shape []string
			for _, st := range c.Steps {
				shape = append(shape, fmt.Sprintf("%s%d%v%v", st.Kind[:1], st.Q, st.CD, st.Sleep/time.Second))
			}
			vfstat.NonTrivial(U, strings.Join(cls, "+")+"|"+strings.Join(shape, ","))
			if len(sample) > 14 {
				sample = sample[:14]
			}
			vfstat.Sample(U, strings.Join(cls, "+"), map[string]any{"prefetch": c.Prefetch, "ecs": c.ECSOn, "classes": cls, "history": sample})
		}
	})
}
