package server

// C12 — bounded work per request: resolution always terminates within its budgets.
// The authority of evil.test. (and of the signed sig.test.) answers from a generated repertoire of
// pathological shapes: alias loops and long chains, DNAME ping-pong, glueless NS cycles, referrals
// that go one label deeper for ever, lame / self-referring / silent servers, fan-out referrals (NXNS),
// truncation games, oversized answers, floods of bad signatures and tag-colliding keys. For every
// client question the harness counts every packet any authority receives until the request tree is
// quiet (detached helpers included) and the DNSSEC operations performed, and holds them against
// the configured budgets.

import (
	"errors"
	"fmt"
	"net"
	"os"
	"strings"
	"sync/atomic"
	"testing"
	"testing/synctest"
	"time"

	"github.com/miekg/dns"
	"github.com/semihalev/sdns/config"
	"github.com/semihalev/sdns/internal/verifhook"
	"github.com/semihalev/sdns/internal/vfgen"
	"github.com/semihalev/sdns/internal/vfstat"
	"github.com/semihalev/sdns/internal/vfworld"
	"pgregory.net/rapid"
)

var vfC12Shapes = []string{"restart", "restart", "chain", "loop", "dname-pingpong", "glueless-cycle", "deeper", "ns-chain", "ns-chain", "lame-refused", "lame-servfail", "lame-silent", "self-referral", "nxns-victim", "nxns-cycle",
	"tc-forever", "big-answer", "many-sigs", "many-keys", "slow", "garbage", "honest"}

type vfC12Step struct {
	Shape string
	Name  string
	Qtype uint16
	EDNS  bool
	Sleep time.Duration
}

type vfC12Case struct {
	Mode      string // off shadow enforce
	MaxOut    uint32
	MaxInt    uint32
	MaxSig    uint32
	N         int // size parameter of the shapes (chain length, fan-out, flood size)
	QMin      int
	Steps     []vfC12Step
	W         *vfworld.World
	SecondAsk bool // ask every question a second time from another client
	Multi     bool // delegations with three and four addresses
	V6        bool // ipv6access on: every delegation learned without AAAA glue starts a detached address-enrichment job
}

// vfC12InternalCap is where the harness stops a request tree that keeps starting internal sub-queries, so that a
// runaway is reported instead of waited for. The largest legitimate tree in this repertoire needs well under 200.
const vfC12InternalCap = 2000

const (
	vfC12Evil = "evil.test."
	vfC12Sig  = "sig.test."
)

// vfC12World builds the namespace. With multi, delegations have three and four addresses, which brings sdns's
// hedged attempts and exploration probes into play (and with them scheduling-dependent server choice).
func vfC12World(multi bool) *vfworld.World {
	n3, n4 := 1, 1
	if multi {
		n3, n4 = 3, 4
	}
	return vfworld.Build([]vfworld.ZoneSpec{
		{Apex: ".", Signed: true},
		{Apex: "test.", Signed: true, Servers: n3},
		{Apex: vfC12Evil, Servers: n4, Owners: map[string][]uint16{"ok." + vfC12Evil: {dns.TypeA}}},
		{Apex: vfC12Sig, Signed: true, Split: true, Owners: map[string][]uint16{"www." + vfC12Sig: {dns.TypeA}, "txt." + vfC12Sig: {dns.TypeTXT}}},
		{Apex: "victim.test.", Owners: map[string][]uint16{"www.victim.test.": {dns.TypeA}}},
	})
}

func vfC12Gen(rt *rapid.T) *vfC12Case {
	c := &vfC12Case{Mode: rapid.SampledFrom([]string{"off", "shadow", "enforce", "enforce", "enforce"}).Draw(rt, "mode"),
		MaxOut: uint32(rapid.SampledFrom([]int{8, 16, 32, 128}).Draw(rt, "maxout")), MaxInt: uint32(rapid.SampledFrom([]int{4, 8, 32}).Draw(rt, "maxint")),
		MaxSig: uint32(rapid.SampledFrom([]int{8, 32}).Draw(rt, "maxsig")), N: rapid.SampledFrom([]int{2, 5, 12, 40}).Draw(rt, "n"), QMin: rapid.SampledFrom([]int{0, 5, 5}).Draw(rt, "qmin"),
		SecondAsk: rapid.Bool().Draw(rt, "secondask")}
	// the shadow-vs-off comparison needs a deterministic resolver: one address per delegation
	c.Multi = c.Mode != "shadow" && rapid.IntRange(0, 2).Draw(rt, "multi") != 0
	c.W = vfC12World(c.Multi)
	c.V6 = rapid.Bool().Draw(rt, "ipv6access")
	n := rapid.IntRange(1, 4).Draw(rt, "nsteps")
	for i := 0; i < n; i++ {
		sh := rapid.SampledFrom(vfC12Shapes).Draw(rt, "shape")
		st := vfC12Step{Shape: sh, Qtype: dns.TypeA, EDNS: rapid.IntRange(0, 3).Draw(rt, "edns") != 0}
		tag := fmt.Sprintf("q%d", i)
		switch sh {
		case "deeper", "restart":
			var ls []string
			for k := 0; k < c.N+2; k++ {
				ls = append(ls, fmt.Sprintf("l%d", k))
			}
			st.Name = strings.Join(ls, ".") + "." + tag + "." + sh + "." + vfC12Evil
		case "many-sigs", "many-keys":
			st.Name = "www." + vfC12Sig
			if rapid.Bool().Draw(rt, "sigtxt") {
				st.Name, st.Qtype = "txt."+vfC12Sig, dns.TypeTXT
			}
		case "honest":
			st.Name = rapid.SampledFrom([]string{"ok." + vfC12Evil, "www.victim.test.", "nx.victim.test.", "www." + vfC12Sig}).Draw(rt, "honestname")
		default:
			st.Name = "c0." + tag + "." + sh + "." + vfC12Evil
		}
		c.Steps = append(c.Steps, st)
		if rapid.IntRange(0, 3).Draw(rt, "sleep") == 0 {
			c.Steps = append(c.Steps, vfC12Step{Sleep: time.Duration(rapid.SampledFrom([]int{1, 30, 400}).Draw(rt, "sleepsec")) * time.Second})
		}
	}
	return c
}

// vfC12Script is the pathological authority. State (depth per name) lives in the closure.
func vfC12Script(c *vfC12Case, w *vfworld.World) func(p vfworld.Packet, n int, req, resp *dns.Msg, info vfworld.Info) vfworld.Action {
	evilIP := w.Zones[vfC12Evil].Servers[0]
	depth := map[string]int{}
	a := func(name string, last byte) dns.RR {
		return &dns.A{Hdr: dns.RR_Header{Name: name, Rrtype: dns.TypeA, Class: dns.ClassINET, Ttl: 60}, A: net.IPv4(10, 9, 9, last).To4()}
	}
	ns := func(owner, host string) dns.RR {
		return &dns.NS{Hdr: dns.RR_Header{Name: owner, Rrtype: dns.TypeNS, Class: dns.ClassINET, Ttl: 60}, Ns: host}
	}
	return func(p vfworld.Packet, n int, req, resp *dns.Msg, info vfworld.Info) vfworld.Action {
		if info.Zone == nil {
			return vfworld.Action{}
		}
		q := req.Question[0]
		name := strings.ToLower(q.Name)
		opt := func() []dns.RR {
			var out []dns.RR
			for _, rr := range resp.Extra {
				if rr.Header().Rrtype == dns.TypeOPT {
					out = append(out, rr)
				}
			}
			return out
		}
		if info.Zone.Apex == vfC12Sig {
			flood := false
			for _, st := range c.Steps {
				if st.Shape == "many-sigs" || st.Shape == "many-keys" {
					flood = true
				}
			}
			if !flood {
				return vfworld.Action{}
			}
			// KeyTrap-style floods on the signed zone
			var out []dns.RR
			for _, rr := range resp.Answer {
				if sig, ok := rr.(*dns.RRSIG); ok {
					for k := 0; k < c.N; k++ {
						bad := dns.Copy(sig).(*dns.RRSIG)
						b := []byte(bad.Signature)
						b[5+k%20] ^= 1
						if b[5+k%20] == '=' || b[5+k%20] < '0' {
							b[5+k%20] = 'A'
						}
						bad.Signature = string(b)
						out = append(out, bad)
					}
				}
				if key, ok := rr.(*dns.DNSKEY); ok && info.Kind == "dnskey" {
					for k := 0; k < c.N; k++ {
						// swapping two aligned 16-bit words keeps the key tag and changes the key
						fake := dns.Copy(key).(*dns.DNSKEY)
						raw := []byte(fake.PublicKey)
						i, j := 4*(k%8), 4*(k%8)+8
						if j+4 <= len(raw) {
							raw[i], raw[i+1], raw[i+2], raw[i+3], raw[j], raw[j+1], raw[j+2], raw[j+3] = raw[j], raw[j+1], raw[j+2], raw[j+3], raw[i], raw[i+1], raw[i+2], raw[i+3]
						}
						fake.PublicKey = string(raw)
						out = append(out, fake)
					}
				}
				out = append(out, rr)
			}
			resp.Answer = out
			return vfworld.Action{}
		}
		if info.Zone.Apex != vfC12Evil {
			return vfworld.Action{}
		}
		labels := dns.SplitDomainName(name)
		base := len(dns.SplitDomainName(vfC12Evil))
		if len(labels) < base+2 {
			return vfworld.Action{}
		}
		shape := labels[len(labels)-base-1]
		tagLabel := labels[len(labels)-base-2]
		zone := tagLabel + "." + shape + "." + vfC12Evil
		answer := func(rrs ...dns.RR) {
			resp.Rcode, resp.Authoritative, resp.Answer, resp.Ns, resp.Extra = dns.RcodeSuccess, true, rrs, nil, opt()
		}
		referral := func(glue []dns.RR, nss ...dns.RR) {
			resp.Rcode, resp.Authoritative, resp.Answer, resp.Ns, resp.Extra = dns.RcodeSuccess, false, nil, nss, append(glue, opt()...)
		}
		cname := func(owner, target string) dns.RR {
			return &dns.CNAME{Hdr: dns.RR_Header{Name: owner, Rrtype: dns.TypeCNAME, Class: dns.ClassINET, Ttl: 60}, Target: target}
		}
		idx := 0
		if strings.HasPrefix(labels[0], "c") {
			fmt.Sscanf(labels[0], "c%d", &idx)
		}
		switch shape {
		case "chain", "loop":
			switch {
			case idx+1 < c.N:
				answer(cname(name, fmt.Sprintf("c%d.%s", idx+1, zone)))
			case shape == "loop":
				answer(cname(name, "c0."+zone))
			default:
				answer(a(name, 1))
			}
		case "dname-pingpong":
			// x.a.<zone> -> DNAME a.<zone> -> b.<zone>, and back
			side, other := "a", "b"
			if len(labels) > base+3 && labels[len(labels)-base-3] == "b" {
				side, other = "b", "a"
			}
			if len(labels) <= base+3 {
				answer(cname(name, "x.a."+zone))
			} else {
				pre := strings.Join(labels[:len(labels)-base-3], ".")
				d := &dns.DNAME{Hdr: dns.RR_Header{Name: side + "." + zone, Rrtype: dns.TypeDNAME, Class: dns.ClassINET, Ttl: 60}, Target: other + "." + zone}
				answer(d, cname(name, pre+"."+other+"."+zone))
			}
		case "glueless-cycle":
			// la.<zone> is served by ns.lb.<zone>, lb.<zone> by ns.la.<zone>; nobody has an address
			switch {
			case strings.HasSuffix(name, ".la."+zone) || name == "la."+zone:
				referral(nil, ns("la."+zone, "ns.lb."+zone))
			case strings.HasSuffix(name, ".lb."+zone) || name == "lb."+zone:
				referral(nil, ns("lb."+zone, "ns.la."+zone))
			default:
				answer(cname(name, "www.la."+zone))
			}
		case "restart":
			// QNAME-minimised probes get an empty NOERROR; the full name first gets a referral to a zone shallower than
			// the level minimisation had reached, which makes sdns start over from the root without minimisation;
			// from then on every question is delegated one label further down
			full := false
			for _, st := range c.Steps {
				if strings.EqualFold(st.Name, name) {
					full = true
				}
			}
			switch {
			case !full:
				answer()
			case depth[name] == 0:
				depth[name] = 1
				referral([]dns.RR{a("ns."+zone, 0)}, ns(zone, "ns."+zone))
				resp.Extra[0].(*dns.A).A = net.ParseIP(evilIP).To4()
			default:
				d := depth[name]
				depth[name] = d + 1
				if base+2+d >= len(labels) {
					answer(a(name, 4))
				} else {
					cut := strings.Join(labels[len(labels)-base-2-d:], ".") + "."
					referral([]dns.RR{a("ns."+cut, 0)}, ns(cut, "ns."+cut))
					resp.Extra[0].(*dns.A).A = net.ParseIP(evilIP).To4()
				}
			}
		case "ns-chain":
			// every question is first answered with a referral that names a fresh name server (IPv4 glue only) inside a
			// fresh child zone, and the second time with the data (or none): whoever looks up that name server's other
			// addresses is handed the next fresh delegation
			k := 0
			for _, l := range labels {
				if strings.HasPrefix(l, "r") {
					fmt.Sscanf(l, "r%d", &k)
				}
			}
			key := fmt.Sprintf("%s/%d", name, q.Qtype)
			cut := zone
			if k > 0 {
				cut = fmt.Sprintf("r%d.%s", k, zone)
			}
			switch {
			case depth[key] == 0 && strings.HasSuffix(name, "."+cut):
				depth[key] = 1
				host := fmt.Sprintf("ns.r%d.%s", k+1, zone)
				referral([]dns.RR{a(host, 0)}, ns(cut, host))
				resp.Extra[0].(*dns.A).A = net.ParseIP(evilIP).To4()
			case q.Qtype == dns.TypeA:
				answer(a(name, 6))
			default:
				answer()
			}
		case "deeper":
			// every time a name is asked, delegate one label further down, to ourselves
			d := depth[name] + 1
			depth[name] = d
			if base+2+d >= len(labels) {
				answer(a(name, 2))
			} else {
				cut := strings.Join(labels[len(labels)-base-2-d:], ".") + "."
				referral([]dns.RR{a("ns."+cut, 0)}, ns(cut, "ns."+cut))
				resp.Extra[0].(*dns.A).A = net.ParseIP(evilIP).To4()
			}
		case "lame-refused":
			resp.Rcode, resp.Answer, resp.Ns = dns.RcodeRefused, nil, nil
		case "lame-servfail":
			resp.Rcode, resp.Answer, resp.Ns = dns.RcodeServerFailure, nil, nil
		case "lame-silent":
			if name != zone {
				referral([]dns.RR{a("ns1."+zone, 0), a("ns2."+zone, 0)}, ns(zone, "ns1."+zone), ns(zone, "ns2."+zone))
				resp.Extra[0].(*dns.A).A = net.IPv4(198, 51, 100, 250).To4() // nobody there
				resp.Extra[1].(*dns.A).A = net.IPv4(198, 51, 100, 251).To4()
			}
		case "self-referral":
			referral([]dns.RR{a("ns1."+vfC12Evil, 0)}, ns(vfC12Evil, "ns1."+vfC12Evil))
			resp.Extra[0].(*dns.A).A = net.ParseIP(evilIP).To4()
		case "nxns-victim", "nxns-cycle":
			if name == zone || !strings.HasPrefix(labels[0], "c") {
				break
			}
			var nss []dns.RR
			for k := 0; k < c.N; k++ {
				host := fmt.Sprintf("ns%d.%s.victim.test.", k, tagLabel)
				if shape == "nxns-cycle" {
					host = fmt.Sprintf("c%d.%s-%d.nxns-cycle.%s", k, tagLabel, k, vfC12Evil) // each NS name needs another fan-out referral
				}
				nss = append(nss, ns("sub."+zone, host))
			}
			if strings.HasSuffix(name, ".sub."+zone) || shape == "nxns-cycle" {
				for i := range nss {
					nss[i].Header().Name = zone
				}
			}
			referral(nil, nss...)
		case "tc-forever":
			resp.Truncated, resp.Answer = true, nil
			if !strings.HasPrefix(p.Proto, "udp") {
				return vfworld.Action{NoReply: true, Close: true}
			}
		case "big-answer":
			var rrs []dns.RR
			for k := 0; k < 40*c.N; k++ {
				rrs = append(rrs, a(name, byte(k)))
				rrs[k].(*dns.A).A = net.IPv4(10, 9, byte(k>>8), byte(k)).To4()
			}
			answer(rrs...)
		case "slow":
			answer(a(name, 3))
			return vfworld.Action{Delay: 1900 * time.Millisecond}
		case "garbage":
			return vfworld.Action{Raw: [][]byte{{0, 1, 2, 3}, make([]byte, 600)}, NoReply: n%2 == 0}
		}
		return vfworld.Action{}
	}
}

func vfC12Config(dir string, c *vfC12Case) *config.Config {
	cfg := vfResolverConfig(dir, c.W)
	cfg.QnameMinLevel = c.QMin
	cfg.RecursionFirewall = config.RecursionFirewallConfig{Mode: config.RecursionFirewallMode(c.Mode), MaxOutboundQueries: c.MaxOut, MaxInternalQueries: c.MaxInt, MaxSignatureChecks: c.MaxSig}
	cfg.RecursionFirewall.Normalize()
	cfg.IPv6Access = c.V6
	return cfg
}

type vfC12Obs struct {
	Rcode      int
	NoReply    bool
	Replies    int
	Packets    int
	AtReply    int // upstream packets sent by the time the reply was written (detached helpers come later)
	Late       int // upstream packets between 60 s and 90 s after the reply
	Elapsed    time.Duration
	EDE        string
	Sig, DS    int64
	NSEC3      int64
	Internal   int64 // internal sub-queries started (alias chase, DNAME target, NS address lookups)
	Aborted    bool  // the harness cut the request off at vfC12InternalCap sub-queries
	Canon      string
	OverLimit  bool
	LocalLimit bool // the failure is this request tree's own (budget or per-server attempt limit): nobody else's business
}

func vfC12Run(t *testing.T, dir string, c *vfC12Case, mode string) (obs []vfC12Obs, trace []string) {
	cc := *c
	cc.Mode = mode
	synctest.Test(t, func(t *testing.T) {
		time.Sleep(time.Until(vfworld.Epoch))
		rw := vfStartResolver(vfC12Config(dir, &cc), c.W)
		defer rw.Close()
		rw.Net.Script = vfC12Script(&cc, c.W)
		var internal atomic.Int64
		verifhook.SetFailer(func(point string) error {
			if point == "cache.internal-exchange" || point == "resolver.internal-exchange" {
				if internal.Add(1) > vfC12InternalCap {
					return errors.New("verif: internal sub-query cap reached")
				}
			}
			return nil
		})
		defer verifhook.SetFailer(nil)
		ask := func(i int, st vfC12Step, client byte) vfC12Obs {
			q := &vfgen.QuerySpec{ID: uint16(400 + i), Name: st.Name, Qtype: st.Qtype, Qclass: dns.ClassINET, RD: true, EDNS: st.EDNS, DO: st.EDNS, UDPSize: 1232}
			n0 := rw.Net.Count()
			k0 := verifhook.Counts()
			internal.Store(0)
			t0 := time.Now()
			rep := rw.Ask(q, "udp", net.IPv4(203, 0, 113, client), false)
			o := vfC12Obs{Elapsed: time.Since(t0), Replies: len(rep.Writes), NoReply: rep.Msg == nil, Rcode: -1, AtReply: rw.Net.Count() - n0}
			// let detached helpers and abandoned attempts run out, then count what the request tree cost
			time.Sleep(25 * time.Second)
			synctest.Wait()
			o.Packets = rw.Net.Count() - n0
			// ... and then it has to be over: a reply within the 10 s query timeout, helpers that start within 2 s of a
			// delegation and run for at most 30 s - a minute after the reply nothing may still be asking on its behalf
			time.Sleep(35 * time.Second)
			synctest.Wait()
			n1 := rw.Net.Count()
			time.Sleep(30 * time.Second)
			synctest.Wait()
			o.Late = rw.Net.Count() - n1
			o.Internal = internal.Load()
			o.Aborted = o.Internal > vfC12InternalCap
			k1 := verifhook.Counts()
			o.Sig, o.DS, o.NSEC3 = k1["dnssec.signature"]-k0["dnssec.signature"], k1["dnssec.dsdigest"]-k0["dnssec.dsdigest"], k1["dnssec.nsec3hash"]-k0["dnssec.nsec3hash"]
			if rep.Msg != nil {
				o.Rcode = rep.Msg.Rcode
				if opt := rep.Msg.IsEdns0(); opt != nil {
					for _, e := range opt.Option {
						if ede, ok := e.(*dns.EDNS0_EDE); ok {
							o.EDE = ede.ExtraText
						}
					}
				}
				o.OverLimit = strings.Contains(o.EDE, "budget exceeded")
				o.LocalLimit = o.OverLimit || strings.Contains(o.EDE, "attempt limit exceeded")
				cr := vfCanon(rep)
				cr.OPT = "" // the EDE text names whichever server was tried last; which one is a scheduling matter
				o.Canon = cr.String()
			}
			trace = append(trace, fmt.Sprintf("t=%s [%s] %s/%s edns=%v client=%d -> rcode=%d replies=%d in %s, %d upstream packets, %d internal sub-queries, dnssec ops sig=%d ds=%d nsec3=%d, ede=%q", time.Since(vfworld.Epoch), st.Shape, st.Name, dns.TypeToString[st.Qtype], st.EDNS, client, o.Rcode, o.Replies, o.Elapsed, o.Packets, o.Internal, o.Sig, o.DS, o.NSEC3, o.EDE))
			return o
		}
		for i, st := range c.Steps {
			if st.Name == "" {
				time.Sleep(st.Sleep)
				continue
			}
			obs = append(obs, ask(i, st, 5))
			if c.SecondAsk {
				obs = append(obs, ask(i, st, 6))
			}
		}
	})
	return
}

func TestVerifC12Budget(t *testing.T) {
	defer vfstat.Flush()
	vfstat.Quiet()
	const U = "C12.budget"
	dir, _ := os.MkdirTemp(os.Getenv("VERIF_WORKDIR"), "c12")
	defer os.RemoveAll(dir)
	rapid.Check(t, func(rt *rapid.T) {
		c := vfC12Gen(rt)
		obs, trace := vfC12Run(t, dir, c, c.Mode)
		bad := func(f string, a ...any) {
			rt.Fatalf("%s\n  mode=%s ipv6access=%v budgets: outbound=%d internal=%d signatures=%d  n=%d qmin=%d\n  history:\n    %s", fmt.Sprintf(f, a...), c.Mode, c.V6, c.MaxOut, c.MaxInt, c.MaxSig, c.N, c.QMin, strings.Join(trace, "\n    "))
		}
		var steps []vfC12Step
		for _, st := range c.Steps {
			if st.Name != "" {
				steps = append(steps, st)
				if c.SecondAsk {
					steps = append(steps, st)
				}
			}
		}
		over := false
		for i, o := range obs {
			st := steps[i]
			switch {
			case o.Replies != 1:
				bad("question %d (%s): %d replies were written; an admitted question gets exactly one", i, st.Shape, o.Replies)
			case o.NoReply:
				bad("question %d (%s): the reply does not decode", i, st.Shape)
			case o.Elapsed > 11*time.Second:
				bad("question %d (%s): the reply took %s; the query timeout is 10s", i, st.Shape, o.Elapsed)
			case o.Packets > 1500:
				bad("question %d (%s): %d upstream packets for one client question", i, st.Shape, o.Packets)
			case o.Late > 0:
				bad("question %d (%s): %d upstream packets were sent between 60 s and 90 s after the reply: the work done for one client question does not end", i, st.Shape, o.Late)
			case o.Aborted:
				bad("question %d (%s): more than %d internal sub-queries were started for one client question (the harness cut it off there)", i, st.Shape, vfC12InternalCap)
			}
			if c.Mode == "enforce" {
				if o.Packets > int(c.MaxOut) {
					bad("question %d (%s): %d upstream transport attempts reached the authorities; the budget for one request tree is %d", i, st.Shape, o.Packets, c.MaxOut)
				}
				if o.Sig > int64(c.MaxSig) {
					bad("question %d (%s): %d signature verifications; the budget for one request tree is %d", i, st.Shape, o.Sig, c.MaxSig)
				}
				if o.DS > int64(config.DefaultRecursionFirewallMaxDSDigests) || o.NSEC3 > int64(config.DefaultRecursionFirewallMaxNSEC3Hashes) {
					bad("question %d (%s): %d DS digests / %d NSEC3 hashes; the budgets are %d / %d", i, st.Shape, o.DS, o.NSEC3, config.DefaultRecursionFirewallMaxDSDigests, config.DefaultRecursionFirewallMaxNSEC3Hashes)
				}
				if o.OverLimit {
					over = true
					if o.Rcode != dns.RcodeServerFailure {
						bad("question %d (%s): over-budget reply has rcode %d, not SERVFAIL", i, st.Shape, o.Rcode)
					}
					// not cached for other clients: the same question from the next client must be worked on again
					if c.SecondAsk && i%2 == 0 && i+1 < len(obs) && obs[i+1].Packets == 0 && obs[i+1].Rcode == dns.RcodeServerFailure {
						bad("question %d (%s): the over-budget SERVFAIL of one client was served to the next client without any new work", i, st.Shape)
					}
				} else if o.Rcode == dns.RcodeServerFailure && st.EDNS && o.AtReply >= int(c.MaxOut) && o.EDE == "" {
					bad("question %d (%s): the outbound budget was used up and the SERVFAIL to an EDNS client carries no Extended DNS Error", i, st.Shape)
				}
			} else if o.OverLimit {
				bad("question %d (%s): mode %s must only count, yet the reply says %q", i, st.Shape, c.Mode, o.EDE)
			}
			// a failure that is the request tree's own is not cached for other clients, in any mode
			if o.LocalLimit && !o.OverLimit && c.SecondAsk && i%2 == 0 && i+1 < len(obs) && obs[i+1].Packets == 0 && obs[i+1].Rcode == dns.RcodeServerFailure && obs[i+1].Internal == 0 {
				bad("question %d (%s): a SERVFAIL caused by this request's own attempt limit (%q) was served to the next client without any new work", i, st.Shape, o.EDE)
			}
			vfstat.Class(U, "shape:"+st.Shape)
			if c.V6 && st.Shape == "ns-chain" {
				vfstat.Class(U, "detached-enrichment-chain")
			}
		}
		// shadow mode: replies identical to firewall-off
		twin := false
		stateless := true
		for _, st := range c.Steps {
			if st.Shape == "deeper" || st.Shape == "restart" || st.Shape == "garbage" || st.Shape == "ns-chain" {
				stateless = false // these authorities answer by how often they were asked
			}
		}
		if c.Mode == "shadow" && stateless {
			twin = true
			off, _ := vfC12Run(t, dir, c, "off")
			for i := range obs {
				if i < len(off) && obs[i].Canon != off[i].Canon {
					bad("question %d (%s): shadow mode changed the reply\n  off:    %s\n  shadow: %s", i, steps[i].Shape, off[i].Canon, obs[i].Canon)
				}
			}
		}
		vfstat.Eval(U, 1)
		vfstat.Class(U, "mode:"+c.Mode)
		if c.Multi {
			vfstat.Class(U, "multi-address-delegations")
		}
		if over {
			vfstat.Class(U, "budget-exceeded")
		}
		if twin {
			vfstat.Class(U, "shadow-vs-off-twin")
		}
		heavy := false
		for _, o := range obs {
			if o.Packets > 8 || o.Sig > 8 {
				heavy = true
			}
		}
		if heavy || over {
			var shape []string
			for _, s := range c.Steps {
				shape = append(shape, s.Shape+s.Name)
			}
			vfstat.NonTrivial(U, fmt.Sprint(c.Mode, c.MaxOut, c.MaxInt, c.MaxSig, c.N, c.QMin, c.SecondAsk, shape))
			tr := trace
			if len(tr) > 8 {
				tr = tr[:8]
			}
			vfstat.Sample(U, c.Mode+fmt.Sprint(over), map[string]any{"mode": c.Mode, "budget_outbound": c.MaxOut, "budget_signatures": c.MaxSig, "n": c.N, "history": tr})
		}
	})
}

// TestVerifC12Debug replays one hand-written case with wall-clock timing (VERIF_LOG=1); skipped otherwise.
func TestVerifC12Debug(t *testing.T) {
	if os.Getenv("VERIF_LOG") == "" {
		t.Skip("debug helper")
	}
	n := 5
	fmt.Sscanf(os.Getenv("VERIF_N"), "%d", &n)
	shape := os.Getenv("VERIF_SHAPE")
	if shape == "" {
		shape = "loop"
	}
	c := &vfC12Case{Mode: map[bool]string{true: os.Getenv("VERIF_MODE"), false: "enforce"}[os.Getenv("VERIF_MODE") != ""], MaxOut: 128, MaxInt: vfC12EnvInt("VERIF_MAXINT", 32), MaxSig: 32, N: n, W: vfC12World(true), SecondAsk: true,
		Steps: []vfC12Step{{Shape: shape, Name: "c0.q0." + shape + "." + vfC12Evil, Qtype: dns.TypeA, EDNS: true}}}
	if os.Getenv("VERIF_SEQ") != "" {
		var ls []string
		for k := 0; k < n+2; k++ {
			ls = append(ls, fmt.Sprintf("l%d", k))
		}
		c.SecondAsk = false
		c.Steps = []vfC12Step{{Shape: "deeper", Name: strings.Join(ls, ".") + ".q0.deeper." + vfC12Evil, Qtype: dns.TypeA}, {Sleep: time.Second},
			{Shape: "honest", Name: "www." + vfC12Sig, Qtype: dns.TypeA}, {Shape: "loop", Name: "c0.q2.loop." + vfC12Evil, Qtype: dns.TypeA}}
	}
	t0 := time.Now()
	_, trace := vfC12Run(t, t.TempDir(), c, c.Mode)
	t.Logf("wall %s\n%s", time.Since(t0), strings.Join(trace, "\n"))
}

func vfC12EnvInt(name string, def uint32) uint32 {
	v := def
	fmt.Sscanf(os.Getenv(name), "%d", &v)
	return v
}
