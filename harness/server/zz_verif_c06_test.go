package server

// C06 — every reply respects what the client sent and negotiated. Reply-shape predicates
// computed from the client's raw packet are applied to every reply produced by generated
// histories on the real default chain (wire-born and decoded ingress, UDP- and TCP-shaped
// transports, DoH/DoQ-style decoded entry), with upstream answers that are oversized, signed,
// and carry foreign EDNS options.

import (
	"context"
	"encoding/binary"
	"encoding/hex"
	"fmt"
	"net"
	"os"
	"strings"
	"testing"
	"testing/synctest"
	"time"

	"github.com/miekg/dns"
	"github.com/semihalev/sdns/internal/vfgen"
	"github.com/semihalev/sdns/internal/vfstat"
	"pgregory.net/rapid"
)

type vfC06Ctx struct {
	Proto      string // udp tcp doh doq
	CookieOn   bool
	NSIDOn     bool
	DoQ        bool
	ListenerOK bool // the packet passed the listener's header screen (needed for the BADVERS/NOTIMP expectations)
}

// vfC06Check applies the property's clauses; returns "" or a violation text plus the set of
// shaping rules that were relevant (for the non-trivial statistic).
func vfC06Check(qraw []byte, replies [][]byte, c vfC06Ctx) (string, []string) {
	var fired []string
	if len(qraw) < 12 {
		if len(replies) != 0 {
			return fmt.Sprintf("a %d-octet packet was answered", len(qraw)), nil
		}
		return "", nil
	}
	qid := binary.BigEndian.Uint16(qraw[0:2])
	qQR := qraw[2]&0x80 != 0
	qOpcode := int(qraw[2]>>3) & 0xF
	if qQR {
		fired = append(fired, "response-packet")
		if len(replies) != 0 {
			return "a packet with QR=1 (itself a response) was answered", fired
		}
		return "", fired
	}
	if len(replies) == 0 {
		return "", fired // dropping is always within the property (rate limits, policy, malformed)
	}
	if len(replies) > 1 {
		return fmt.Sprintf("%d replies to one query", len(replies)), fired
	}
	r := replies[0]
	if len(r) < 12 {
		return fmt.Sprintf("reply of %d octets", len(r)), fired
	}
	if r[2]&0x80 == 0 {
		return "reply without QR", fired
	}
	rid := binary.BigEndian.Uint16(r[0:2])
	if c.DoQ {
		if rid != 0 {
			return fmt.Sprintf("DoQ reply carries ID %d, want 0", rid), fired
		}
	} else if rid != qid {
		return fmt.Sprintf("reply ID %d, query ID %d", rid, qid), fired
	}
	if op := int(r[2]>>3) & 0xF; op != qOpcode {
		return fmt.Sprintf("reply opcode %d, query opcode %d", op, qOpcode), fired
	}
	rcodeLow := int(r[3] & 0xF)
	bare := len(r) == 12 && (rcodeLow == dns.RcodeFormatError || rcodeLow == dns.RcodeNotImplemented)
	if qOpcode != dns.OpcodeQuery && qOpcode != dns.OpcodeNotify {
		fired = append(fired, "non-query-opcode")
		if rcodeLow != dns.RcodeNotImplemented {
			return fmt.Sprintf("opcode %d answered with rcode %d, want NOTIMP", qOpcode, rcodeLow), fired
		}
	}
	if bare {
		fired = append(fired, "bare-rejection")
		return "", fired
	}
	q := new(dns.Msg)
	qerr := q.Unpack(qraw)
	m := new(dns.Msg)
	if err := m.Unpack(r); err != nil {
		return fmt.Sprintf("undecodable reply: %v (%s)", err, hex.EncodeToString(r)), fired
	}
	if qerr != nil || len(q.Question) != 1 {
		fired = append(fired, "undecodable-query")
		if m.Rcode != dns.RcodeFormatError && m.Rcode != dns.RcodeNotImplemented {
			// counts/body the library cannot decode must be a format error (when answered at all)
			return fmt.Sprintf("undecodable query (%v) answered with rcode %d", qerr, m.Rcode), fired
		}
		return "", fired
	}
	// question echo
	if len(m.Question) != 1 || !strings.EqualFold(m.Question[0].Name, q.Question[0].Name) || m.Question[0].Qtype != q.Question[0].Qtype || m.Question[0].Qclass != q.Question[0].Qclass {
		return fmt.Sprintf("question not echoed: query %v reply %v", q.Question, m.Question), fired
	}
	qopt, ropt := q.IsEdns0(), m.IsEdns0()
	nopt := 0
	for _, rr := range m.Extra {
		if rr.Header().Rrtype == dns.TypeOPT {
			nopt++
		}
	}
	_ = nopt // several OPTs in a reply to a several-OPT query: not constrained by the property
	if ropt != nil && qopt == nil {
		return "reply carries OPT although the query had none", fired
	}
	do := qopt != nil && qopt.Do()
	if qopt != nil && qopt.Version() != 0 && c.ListenerOK {
		fired = append(fired, "edns-version")
		if m.Rcode != dns.RcodeBadVers {
			return fmt.Sprintf("EDNS version %d answered with rcode %d, want BADVERS", qopt.Version(), m.Rcode), fired
		}
		return "", fired
	}
	// DNSSEC records only on request
	if !do && q.Question[0].Qtype != dns.TypeRRSIG {
		for _, rr := range append(append([]dns.RR{}, m.Answer...), m.Ns...) {
			switch rr.Header().Rrtype {
			case dns.TypeRRSIG, dns.TypeNSEC, dns.TypeNSEC3:
				return fmt.Sprintf("DO=0 but the reply carries %s", dns.TypeToString[rr.Header().Rrtype]), fired
			}
		}
	}
	// AD discipline
	if (q.CheckingDisabled || (!do && !q.AuthenticatedData)) && m.AuthenticatedData {
		return fmt.Sprintf("AD=1 toward a client with CD=%v DO=%v AD=%v", q.CheckingDisabled, do, q.AuthenticatedData), fired
	}
	// options
	if ropt != nil {
		var clientCookie string
		var clientCookies []string
		wantsNSID, sentKeepalive := false, false
		for _, o := range qopt.Option {
			switch v := o.(type) {
			case *dns.EDNS0_COOKIE:
				if clientCookie == "" {
					clientCookie = v.Cookie
				}
				clientCookies = append(clientCookies, v.Cookie)
			case *dns.EDNS0_NSID:
				wantsNSID = true
			case *dns.EDNS0_TCP_KEEPALIVE:
				sentKeepalive = true
			}
		}
		seen := map[uint16]int{}
		for _, o := range ropt.Option {
			seen[o.Option()]++
			switch v := o.(type) {
			case *dns.EDNS0_SUBNET:
				return fmt.Sprintf("client-subnet option in the reply: %s", v.String()), append(fired, "ecs")
			case *dns.EDNS0_COOKIE:
				fired = append(fired, "cookie")
				if clientCookie == "" {
					return fmt.Sprintf("server cookie %s returned although the client sent no cookie", v.Cookie), fired
				}
				echoed := false
				for _, cc := range clientCookies { // a query with several COOKIE options: any of them may be the one answered
					if len(cc) >= 16 && strings.HasPrefix(strings.ToLower(v.Cookie), strings.ToLower(cc[:16])) {
						echoed = true
					}
				}
				if !echoed && len(clientCookie) >= 16 {
					return fmt.Sprintf("cookie %s does not echo a client cookie (%v)", v.Cookie, clientCookies), fired
				}
			case *dns.EDNS0_NSID:
				fired = append(fired, "nsid")
				if !wantsNSID || !c.NSIDOn {
					return fmt.Sprintf("NSID in the reply (requested=%v configured=%v)", wantsNSID, c.NSIDOn), fired
				}
			case *dns.EDNS0_TCP_KEEPALIVE:
				fired = append(fired, "keepalive")
				if c.Proto == "udp" || !sentKeepalive {
					return fmt.Sprintf("tcp-keepalive in the reply (proto=%s client sent it=%v)", c.Proto, sentKeepalive), fired
				}
			case *dns.EDNS0_EDE:
				fired = append(fired, "ede")
			case *dns.EDNS0_PADDING:
				fired = append(fired, "padding")
				if !vfHasOption(qopt, dns.EDNS0PADDING) {
					return "padding option in the reply although the client sent none (foreign option reflected)", fired
				}
			default:
				return fmt.Sprintf("foreign option %d in the reply: %s", o.Option(), o.String()), fired
			}
		}
		if seen[dns.EDNS0COOKIE] > 1 || seen[dns.EDNS0NSID] > 1 || seen[dns.EDNS0TCPKEEPALIVE] > 1 {
			return fmt.Sprintf("duplicate options in the reply: %v", seen), fired
		}
	}
	// UDP size
	if c.Proto == "udp" {
		adv := 512
		if qopt != nil {
			adv = int(qopt.UDPSize())
		}
		limit := adv
		if limit > 1232 {
			limit = 1232
		}
		if limit < 512 {
			limit = 512
		}
		if len(r) > limit-100 {
			fired = append(fired, "near-udp-limit")
		}
		if len(r) > limit {
			nonOPT := 0
			for _, rr := range m.Extra {
				if rr.Header().Rrtype != dns.TypeOPT {
					nonOPT++
				}
			}
			if !m.Truncated || len(m.Answer) != 0 || len(m.Ns) != 0 || nonOPT != 0 {
				return fmt.Sprintf("UDP reply of %d octets exceeds max(512, min(%d, 1232)) = %d and is not a bare TC=1 reply", len(r), adv, limit), fired
			}
		}
		if m.Truncated {
			fired = append(fired, "truncated")
		}
	}
	return "", fired
}

func vfHasOption(opt *dns.OPT, code uint16) bool {
	if opt == nil {
		return false
	}
	for _, o := range opt.Option {
		if o.Option() == code {
			return true
		}
	}
	return false
}

// vfC06ListenerScreen mirrors what the property states about the listeners' header screen, to know
// which expectations apply to a packet handed straight to ServeRaw (which sits behind that screen).
func vfC06ListenerScreen(raw []byte) (answerable bool) {
	if len(raw) < 12 || raw[2]&0x80 != 0 {
		return false
	}
	op := int(raw[2]>>3) & 0xF
	if op != dns.OpcodeQuery && op != dns.OpcodeNotify {
		return false
	}
	qd, an, ns, ar := binary.BigEndian.Uint16(raw[4:6]), binary.BigEndian.Uint16(raw[6:8]), binary.BigEndian.Uint16(raw[8:10]), binary.BigEndian.Uint16(raw[10:12])
	return qd == 1 && an <= 1 && ns <= 1 && ar <= 2
}

type vfC06Step struct {
	Sleep   time.Duration
	Q       *vfgen.QuerySpec
	Raw     []byte
	Ingress string // wire decoded doh doq
	Proto   string
	Client  int
}

func TestVerifC06Shape(t *testing.T) {
	defer vfstat.Flush()
	vfstat.Quiet()
	const U = "C06.shape"
	dir, _ := os.MkdirTemp(os.Getenv("VERIF_WORKDIR"), "c06")
	defer os.RemoveAll(dir)
	rapid.Check(t, func(rt *rapid.T) {
		p := vfC05Params{Cookie: rapid.Bool().Draw(rt, "cookie"), NSID: rapid.Bool().Draw(rt, "nsid"), Chaos: rapid.Bool().Draw(rt, "chaos"),
			ClientRate: rapid.SampledFrom([]int{0, 0, 50, 1000}).Draw(rt, "clientrate")} // with a client rate limit, a changed client cookie is answered BADCOOKIE ahead of the edns middleware
		ecsOn := rapid.Bool().Draw(rt, "ecs")
		proto := vfGenUpstream(rt)
		vfAddProofZone(rt, proto) // signed negative answers: RRSIG / NSEC in the authority section only
		n := rapid.IntRange(2, 10).Draw(rt, "nsteps")
		var steps []vfC06Step
		type hotQ struct {
			name  string
			qtype uint16
		}
		hots := []hotQ{{"www.example.org.", 1}, {"alias.example.org.", 1}, {"nx.example.org.", 1}, {"signed.example.org.", 1}, {"signed.example.org.", 46}, {"fail.example.org.", 1},
			{"big.example.org.", 16}, {"ede.example.org.", 1}, {"geo.example.org.", 1}, {"nodata.example.org.", 1}, {"local.test.", 1}, {"1.0.0.10.in-addr.arpa.", 12},
			{"gone.sz.example.org.", 1}, {"nd.sz.example.org.", 16}, {"a.b.gone.sz.example.org.", 1}, {"gx.sz.example.org.", 1}, {"nd.sz.example.org.", 1}}
		hot := hots[rapid.IntRange(0, len(hots)-1).Draw(rt, "hot")]
		for i := 0; i < n; i++ {
			if rapid.IntRange(0, 5).Draw(rt, "issleep") == 0 {
				steps = append(steps, vfC06Step{Sleep: time.Duration(rapid.SampledFrom([]int{1, 6, 31}).Draw(rt, "sleep")) * time.Second})
				continue
			}
			q := vfgen.GenQuery(rt, true)
			switch rapid.IntRange(0, 3).Draw(rt, "usehot") {
			case 1, 2:
				q.Name, q.Qtype = hot.name, hot.qtype
			case 3:
				// the proof zone: the denied name, names below it and beside it (answered from the subtree cut or a
				// synthesised denial once the first validated denial is cached), other types at the NODATA owner
				z := hots[len(hots)-5+rapid.IntRange(0, 4).Draw(rt, "szname")]
				q.Name, q.Qtype = z.name, z.qtype
			}
			ing := rapid.SampledFrom([]string{"wire", "wire", "decoded", "doh", "doq"}).Draw(rt, "ingress")
			pr := rapid.SampledFrom([]string{"udp", "udp", "tcp"}).Draw(rt, "proto")
			if ing == "doh" {
				pr = "doh"
			}
			if ing == "doq" {
				pr = "doq"
			}
			steps = append(steps, vfC06Step{Q: q, Raw: q.Pack(), Ingress: ing, Proto: pr, Client: rapid.IntRange(0, len(vfgen.ClientAddrs)-1).Draw(rt, "client")})
		}
		var violation string
		firedAll := map[string]bool{}
		var sample []any
		synctest.Test(t, func(t *testing.T) {
			cfg := vfC05Config(dir, p)
			if ecsOn {
				cfg.ECS.Enabled, cfg.ECS.ForwardV4Max, cfg.ECS.ForwardV6Max = true, 24, 56
				cfg.ECS.ClientNetworks = []string{"0.0.0.0/0", "::/0"}
			}
			u := &vfUp{table: map[string]*vfUpAnswer{}}
			for k, a := range proto.table {
				cp := *a
				u.table[k] = &cp
			}
			w := vfNewWorld(cfg, u)
			defer w.Close()
			for i, st := range steps {
				if st.Q == nil {
					time.Sleep(st.Sleep)
					continue
				}
				ip := vfgen.ClientAddrs[st.Client]
				var writes [][]byte
				cx := vfC06Ctx{Proto: st.Proto, CookieOn: p.Cookie, NSIDOn: p.NSID, ListenerOK: vfC06ListenerScreen(st.Raw)}
				switch st.Ingress {
				case "wire", "decoded":
					if !cx.ListenerOK {
						continue // the listeners never hand such a packet to the pipeline; covered by the socket unit
					}
					r := w.Ask(st.Raw, st.Proto, ip, 4100+st.Client, st.Ingress == "wire")
					writes = r.Writes
					if !r.Handled && len(writes) == 0 {
						// ServeRaw reports an undecodable body: the listener answers FORMERR in place
						continue
					}
				default:
					// DoH / DoQ hand a decoded message to ServeMsg through their own writers
					m := new(dns.Msg)
					if err := m.Unpack(st.Raw); err != nil || !cx.ListenerOK {
						continue
					}
					tr := vfgen.NewTransport(st.Proto, ip, 4200+st.Client)
					w.s.ServeMsg(context.Background(), tr, m)
					for _, rm := range tr.Msgs {
						if st.Ingress == "doq" {
							rm.Id = 0 // doq.ResponseWriter zeroes the ID on the way out
						}
						b, err := rm.Pack()
						if err != nil {
							violation = fmt.Sprintf("step %d: reply does not pack: %v", i, err)
							return
						}
						writes = append(writes, b)
					}
					writes = append(writes, tr.Raw...)
					cx.DoQ = st.Ingress == "doq"
				}
				v, fired := vfC06Check(st.Raw, writes, cx)
				if v == "" && (st.Ingress == "wire" || st.Ingress == "decoded") {
					v = vfC06ScreenExpect(st.Raw, writes) // a body the library cannot decode is owed FORMERR, cached name or not
				}
				for _, f := range fired {
					firedAll[f] = true
				}
				if len(sample) < 6 {
					sample = append(sample, map[string]any{"query": st.Q.Describe(), "ingress": st.Ingress, "proto": st.Proto, "replies": len(writes), "rules": fired})
				}
				if v != "" {
					rh := ""
					if len(writes) > 0 {
						rh = hex.EncodeToString(writes[0])
						if len(rh) > 400 {
							rh = rh[:400] + "…"
						}
					}
					violation = fmt.Sprintf("step %d (%s/%s, cookie=%v nsid=%v ecs=%v): %s\n  query: %v\n  reply: %s", i, st.Ingress, st.Proto, p.Cookie, p.NSID, ecsOn, v, st.Q.Describe(), rh)
					return
				}
				vfstat.Eval(U, 1)
			}
		})
		if violation != "" {
			rt.Fatalf("%s", violation)
		}
		var fl []string
		for f := range firedAll {
			fl = append(fl, f)
			vfstat.Class(U, f)
		}
		if len(fl) > 0 {
			vfstat.NonTrivial(U, fmt.Sprint(fl, p, ecsOn, len(steps)))
			vfstat.Sample(U, fmt.Sprint(fl), map[string]any{"rules_fired": fl, "steps": sample})
		}
	})
}

var _ = net.IPv4zero

// TestVerifC06Listeners: the header screen of the real UDP and TCP listeners on loopback —
// responses are never answered, non-query opcodes get NOTIMP, bad counts / undecodable bodies
// FORMERR, EDNS version != 0 BADVERS — plus every shape clause on what does get answered.
func TestVerifC06Listeners(t *testing.T) {
	defer vfstat.Flush()
	vfstat.Quiet()
	const U = "C06.listeners"
	dir, _ := os.MkdirTemp(os.Getenv("VERIF_WORKDIR"), "c06l")
	defer os.RemoveAll(dir)
	var proto *vfUp
	rapid.Check(t, func(rt *rapid.T) {
		if proto == nil {
			proto = vfGenUpstream(rt)
		}
	})
	if proto == nil {
		t.Skip("no upstream drawn")
	}
	for _, a := range proto.table {
		a.compile()
	}
	p := vfC05Params{Cookie: true, NSID: true}
	cfg := vfC05Config(dir, p)
	k, err := vfStartSock(cfg, proto)
	if err != nil {
		t.Fatalf("VERIF-INCONCLUSIVE cannot start listeners: %v", err)
	}
	defer k.Stop()
	rapid.Check(t, func(rt *rapid.T) {
		n := rapid.IntRange(4, 24).Draw(rt, "npackets")
		var specs []*vfgen.QuerySpec
		var raws [][]byte
		for i := 0; i < n; i++ {
			q := vfgen.GenQuery(rt, true)
			if rapid.IntRange(0, 3).Draw(rt, "hot") == 0 {
				q.Name, q.Qtype = "big.example.org.", dns.TypeTXT
			}
			// make the screen classes frequent
			switch rapid.IntRange(0, 9).Draw(rt, "screen") {
			case 0:
				q.QR = true
			case 1:
				q.Opcode = rapid.SampledFrom([]int{1, 2, 5, 6, 15}).Draw(rt, "opcode")
			case 2:
				q.Edits = []string{rapid.SampledFrom([]string{"qd0", "qd2", "an1", "ns1", "ar+1", "trailing", "ptrname", "optlen+", "truncate:13", "truncate:28"}).Draw(rt, "edit")}
			case 3:
				if q.EDNS {
					q.Version = 1
				}
			case 4:
				// a well-known option code over a payload its format does not allow
				q.EDNS = true
				if q.UDPSize == 0 {
					q.UDPSize = 1232
				}
				q.Options = append(q.Options, vfgen.OptionSpec{Kind: "local", Code: rapid.SampledFrom([]uint16{dns.EDNS0TCPKEEPALIVE, dns.EDNS0TCPKEEPALIVE, dns.EDNS0SUBNET, dns.EDNS0COOKIE, dns.EDNS0EDE, dns.EDNS0EXPIRE}).Draw(rt, "badoptcode"),
					Data: rapid.SampledFrom([]string{"aa", "aa", "aabbcc", "00010203040506", "0001020304050607080910"}).Draw(rt, "badoptdata")})
			}
			q.ID = uint16(1000 + i)
			specs = append(specs, q)
			raws = append(raws, q.Pack())
		}
		tcp := rapid.IntRange(0, 2).Draw(rt, "tcp") == 0
		if !tcp {
			got, err := vfUDPExchange(k.udpAddr, raws, 400*time.Millisecond)
			if err != nil {
				rt.Fatalf("VERIF-INCONCLUSIVE udp exchange: %v", err)
			}
			for i := range raws {
				cx := vfC06Ctx{Proto: "udp", CookieOn: true, NSIDOn: true, ListenerOK: true}
				v, fired := vfC06Check(raws[i], got[i], cx)
				if v == "" {
					v = vfC06ScreenExpect(raws[i], got[i])
				}
				if v != "" {
					rt.Fatalf("udp listener: %s\n  query: %v\n  replies: %x", v, specs[i].Describe(), got[i])
				}
				vfstat.Eval(U, 1)
				for _, f := range fired {
					vfstat.Class(U, "udp:"+f)
				}
				if len(fired) > 0 {
					vfstat.NonTrivial(U, fmt.Sprint("udp", fired, specs[i].Qtype, specs[i].Edits, specs[i].Opcode, specs[i].QR, specs[i].Version))
					vfstat.Sample(U, fmt.Sprint("udp", fired), map[string]any{"transport": "udp", "query": specs[i].Describe(), "replies": len(got[i]), "rules": fired})
				}
			}
			return
		}
		// TCP: one connection per packet keeps attribution exact
		for i := range raws {
			if len(raws[i]) == 0 {
				continue
			}
			frames, err := vfTCPExchange(k.tcpAddr, [][]byte{raws[i]}, 300*time.Millisecond)
			if err != nil {
				rt.Fatalf("VERIF-INCONCLUSIVE tcp exchange: %v", err)
			}
			cx := vfC06Ctx{Proto: "tcp", CookieOn: true, NSIDOn: true, ListenerOK: true}
			v, fired := vfC06Check(raws[i], frames, cx)
			if v == "" {
				v = vfC06ScreenExpect(raws[i], frames)
			}
			if v != "" {
				rt.Fatalf("tcp listener: %s\n  query: %v\n  replies: %x", v, specs[i].Describe(), frames)
			}
			vfstat.Eval(U, 1)
			for _, f := range fired {
				vfstat.Class(U, "tcp:"+f)
			}
			if len(fired) > 0 {
				vfstat.NonTrivial(U, fmt.Sprint("tcp", fired, specs[i].Qtype, specs[i].Edits, specs[i].Opcode, specs[i].QR, specs[i].Version))
			}
		}
	})
}

// vfC06ScreenExpect: what the property demands of packets that fail the listeners' screen.
func vfC06ScreenExpect(raw []byte, replies [][]byte) string {
	if len(raw) < 12 || raw[2]&0x80 != 0 {
		return "" // handled by vfC06Check (no reply)
	}
	op := int(raw[2]>>3) & 0xF
	if op != dns.OpcodeQuery && op != dns.OpcodeNotify {
		return "" // NOTIMP clause handled by vfC06Check when a reply exists
	}
	qd := binary.BigEndian.Uint16(raw[4:6])
	q := new(dns.Msg)
	err := q.Unpack(raw)
	if qd != 1 || err != nil {
		// bad section counts or an undecodable body: a reply, if any, must be FORMERR
		for _, r := range replies {
			if len(r) >= 12 && int(r[3]&0xF) != dns.RcodeFormatError {
				return fmt.Sprintf("bad section counts / undecodable body (qdcount=%d, err=%v) answered with rcode %d, want FORMERR", qd, err, r[3]&0xF)
			}
		}
	}
	return ""
}
