package server

// Pipeline "world" shared by the C03/C04/C05/C06/C13/C19 harnesses: the real default
// chain (recovery … cache) over a table-driven stub upstream, driven through ServeRaw on a
// wire-born (strict) or decoded transport, inside a testing/synctest bubble so that
// the harness owns the clock. Overlaid by /verif/run.py.

import (
	"context"
	"fmt"
	"net"
	"sort"
	"strings"
	"sync"
	"time"

	"github.com/miekg/dns"
	"github.com/semihalev/sdns/config"
	"github.com/semihalev/sdns/internal/vfgen"
	"github.com/semihalev/sdns/middleware"
	"github.com/semihalev/sdns/middleware/cache"
	"pgregory.net/rapid"
)

// vfEpoch is time.Now() at the start of every synctest bubble.
var vfEpoch = time.Date(2000, 1, 1, 0, 0, 0, 0, time.UTC)

// vfUpAnswer is what the stub upstream returns for one (name, type).
type vfUpAnswer struct {
	Rcode   int
	AD, AA  bool
	Answer  []string // RR presentation forms, TTL included
	Ns      []string
	Extra   []string
	EDE     []uint16
	Scope   int      // ECS SCOPE PREFIX-LENGTH echoed when the upstream request carried ECS; -1 = none
	OptOpts []string // foreign options on the upstream OPT: cookie nsid padding local keepalive ecs
	NoOPT   bool
	// Proof marks a negative answer the way the validating resolver does (resolver-to-cache provenance seam): "nsec"
	// plus the signer zone; only CD=0 resolutions are marked.
	Proof     string
	ProofZone string
	answer    []dns.RR
	ns        []dns.RR
	extra     []dns.RR
}

func (a *vfUpAnswer) compile() {
	parse := func(ss []string) []dns.RR {
		var out []dns.RR
		for _, s := range ss {
			rr, err := dns.NewRR(s)
			if err != nil || rr == nil {
				panic(fmt.Sprintf("harness: bad RR %q: %v", s, err))
			}
			out = append(out, rr)
		}
		return out
	}
	a.answer, a.ns, a.extra = parse(a.Answer), parse(a.Ns), parse(a.Extra)
}

// vfUpCall records what reached the upstream position of the chain.
type vfUpCall struct {
	At      time.Duration // since vfEpoch
	Name    string
	Qtype   uint16
	CD, DO  bool
	HasOPT  bool
	Options []string // option codes (and ECS rendering) seen on the upstream-bound request
}

// vfUp is the table-driven upstream stub placed where failover/resolver/forwarder sit.
type vfUp struct {
	mu    sync.Mutex
	table map[string]*vfUpAnswer // lower(name)/TYPE
	calls []vfUpCall
	// Override, when set, is consulted first (used by histories that change upstream data over time).
	Override func(name string, qtype uint16, at time.Duration) *vfUpAnswer
}

func vfUpKey(name string, qtype uint16) string {
	return strings.ToLower(name) + "/" + dns.TypeToString[qtype]
}

func (u *vfUp) Name() string { return "vfupstream" }

func (u *vfUp) Calls() []vfUpCall {
	u.mu.Lock()
	defer u.mu.Unlock()
	return append([]vfUpCall(nil), u.calls...)
}

func (u *vfUp) NCalls() int {
	u.mu.Lock()
	defer u.mu.Unlock()
	return len(u.calls)
}

func vfRenderOptions(opt *dns.OPT) []string {
	var out []string
	if opt == nil {
		return nil
	}
	for _, o := range opt.Option {
		switch v := o.(type) {
		case *dns.EDNS0_SUBNET:
			out = append(out, fmt.Sprintf("ecs:%d:%s/%d/%d", v.Family, v.Address, v.SourceNetmask, v.SourceScope))
		default:
			out = append(out, fmt.Sprintf("opt%d", o.Option()))
		}
	}
	sort.Strings(out)
	return out
}

func (u *vfUp) ServeDNS(ctx context.Context, ch *middleware.Chain) {
	ctx, req := ch.Materialize(ctx)
	if req == nil {
		return
	}
	if len(req.Question) == 0 {
		ch.Cancel()
		return
	}
	q := req.Question[0]
	opt := req.IsEdns0()
	call := vfUpCall{At: time.Since(vfEpoch), Name: q.Name, Qtype: q.Qtype, CD: req.CheckingDisabled, HasOPT: opt != nil, Options: vfRenderOptions(opt)}
	if opt != nil {
		call.DO = opt.Do()
	}
	u.mu.Lock()
	u.calls = append(u.calls, call)
	var a *vfUpAnswer
	if u.Override != nil {
		a = u.Override(q.Name, q.Qtype, call.At)
	}
	if a == nil {
		a = u.table[vfUpKey(q.Name, q.Qtype)]
	}
	u.mu.Unlock()
	resp := new(dns.Msg)
	resp.SetReply(req)
	resp.RecursionAvailable = true
	if a == nil {
		// default: NODATA under example.org / NXDOMAIN elsewhere
		soa, _ := dns.NewRR("example.org. 300 IN SOA ns.example.org. host.example.org. 1 7200 3600 1209600 60")
		resp.Ns = []dns.RR{soa}
		if !strings.HasSuffix(strings.ToLower(q.Name), "example.org.") {
			resp.Rcode = dns.RcodeNameError
			soa2, _ := dns.NewRR(". 300 IN SOA a.root. host.root. 1 7200 3600 1209600 60")
			resp.Ns = []dns.RR{soa2}
		}
	} else {
		resp.Rcode = a.Rcode
		resp.AuthenticatedData, resp.Authoritative = a.AD, a.AA
		cp := func(rrs []dns.RR) []dns.RR {
			out := make([]dns.RR, len(rrs))
			for i, rr := range rrs {
				out[i] = dns.Copy(rr)
			}
			return out
		}
		resp.Answer, resp.Ns, resp.Extra = cp(a.answer), cp(a.ns), cp(a.extra)
	}
	if opt != nil && (a == nil || !a.NoOPT) {
		o := &dns.OPT{Hdr: dns.RR_Header{Name: ".", Rrtype: dns.TypeOPT}}
		o.SetUDPSize(1232)
		o.SetDo(opt.Do())
		if a != nil {
			for _, c := range a.EDE {
				o.Option = append(o.Option, &dns.EDNS0_EDE{InfoCode: c, ExtraText: "upstream says"})
			}
			if a.Scope >= 0 {
				for _, ro := range opt.Option {
					if s, ok := ro.(*dns.EDNS0_SUBNET); ok {
						o.Option = append(o.Option, &dns.EDNS0_SUBNET{Code: dns.EDNS0SUBNET, Family: s.Family, SourceNetmask: s.SourceNetmask, SourceScope: uint8(a.Scope), Address: s.Address})
					}
				}
			}
			for _, k := range a.OptOpts {
				switch k {
				case "cookie":
					o.Option = append(o.Option, &dns.EDNS0_COOKIE{Code: dns.EDNS0COOKIE, Cookie: "aaaaaaaaaaaaaaaabbbbbbbbbbbbbbbb"})
				case "nsid":
					o.Option = append(o.Option, &dns.EDNS0_NSID{Code: dns.EDNS0NSID, Nsid: "7570"})
				case "padding":
					o.Option = append(o.Option, &dns.EDNS0_PADDING{Padding: make([]byte, 9)})
				case "local":
					o.Option = append(o.Option, &dns.EDNS0_LOCAL{Code: 65009, Data: []byte{9, 9}})
				case "keepalive":
					o.Option = append(o.Option, &dns.EDNS0_TCP_KEEPALIVE{Code: dns.EDNS0TCPKEEPALIVE, Timeout: 77})
				case "ecs":
					o.Option = append(o.Option, &dns.EDNS0_SUBNET{Code: dns.EDNS0SUBNET, Family: 1, SourceNetmask: 24, SourceScope: 24, Address: net.IPv4(10, 9, 8, 0).To4()})
				}
			}
		}
		resp.Extra = append(resp.Extra, o)
	}
	if a != nil && a.Proof == "nsec" && !req.CheckingDisabled {
		middleware.MarkValidatedNegativeProofResponse(ctx, resp, middleware.ValidatedNegativeProof{Subject: q.Name, Zone: a.ProofZone, Kind: middleware.ValidatedNegativeProofNSEC, Aggressive: true})
	}
	_ = ch.Writer.WriteMsg(resp)
	ch.Cancel()
}

// vfAddProofZone adds sz.example.org., a zone whose negative answers carry complete NSEC proofs and the resolver's
// validated-proof provenance, so that the cache admits subtree cuts (RFC 8020) and denial proofs (RFC 8198).
func vfAddProofZone(t *rapid.T, u *vfUp) {
	ttl := rapid.SampledFrom([]uint32{5, 30, 300, 3600}).Draw(t, "ttl.sz")
	sig := func(owner string, labels int, covered string) string {
		return fmt.Sprintf("%s %d IN RRSIG %s 13 %d %d %s %s 4242 sz.example.org. MDAwMDAwMDAwMDAwMDAwMDAwMDAwMDAwMDAwMDAwMDAwMDAwMDAwMDAwMDAwMDAwMDAwMDAwMDAwMDAwMDAwMA==", owner, ttl, covered, labels, ttl, vfRRSIGTime(100*24*time.Hour), vfRRSIGTime(-time.Hour))
	}
	soa := fmt.Sprintf("sz.example.org. %d IN SOA ns.sz.example.org. host.sz.example.org. 1 7200 3600 1209600 %d", ttl, ttl)
	apexNSEC := fmt.Sprintf("sz.example.org. %d IN NSEC alpha.sz.example.org. NS SOA RRSIG NSEC DNSKEY", ttl)
	cover := fmt.Sprintf("glib.sz.example.org. %d IN NSEC help.sz.example.org. A RRSIG NSEC", ttl)
	nx := []string{soa, sig("sz.example.org.", 3, "SOA"), cover, sig("glib.sz.example.org.", 4, "NSEC"), apexNSEC, sig("sz.example.org.", 3, "NSEC")}
	for _, n := range []string{"gone.sz.example.org.", "a.b.gone.sz.example.org."} {
		for _, ty := range []uint16{dns.TypeA, dns.TypeAAAA, dns.TypeTXT, dns.TypeMX} {
			u.table[vfUpKey(n, ty)] = &vfUpAnswer{Scope: -1, Rcode: dns.RcodeNameError, Ns: nx, AD: true, Proof: "nsec", ProofZone: "sz.example.org."}
		}
	}
	exact := fmt.Sprintf("nd.sz.example.org. %d IN NSEC nf.sz.example.org. A RRSIG NSEC", ttl)
	nd := []string{soa, sig("sz.example.org.", 3, "SOA"), exact, sig("nd.sz.example.org.", 4, "NSEC")}
	for _, ty := range []uint16{dns.TypeTXT, dns.TypeMX, dns.TypeAAAA} {
		u.table[vfUpKey("nd.sz.example.org.", ty)] = &vfUpAnswer{Scope: -1, Ns: nd, AD: true, Proof: "nsec", ProofZone: "sz.example.org."}
	}
	u.table[vfUpKey("nd.sz.example.org.", dns.TypeA)] = &vfUpAnswer{Scope: -1, AD: true, Answer: []string{fmt.Sprintf("nd.sz.example.org. %d IN A 192.0.2.50", ttl), sig("nd.sz.example.org.", 4, "A")}}
}

// vfWorld is one running pipeline + server.
type vfWorld struct {
	s     *Server
	up    *vfUp
	cfg   *config.Config
	done  func()
	cache *cache.Cache
	jobMu sync.Mutex
	jobs  map[string][]*vfJob // idle wire-born transport jobs per protocol, reused from packet to packet as an engine's slabs are
}

// wireJob hands out this world's transport job for proto, re-addressed for the next packet. The engines keep a job's
// strict-path storage (request, chain, deadline carrier, edns writer slot) from one packet to the next, whoever sent it.
func (w *vfWorld) wireJob(proto string, local, remote net.Addr) *vfJob {
	w.jobMu.Lock()
	defer w.jobMu.Unlock()
	if w.jobs == nil {
		w.jobs = map[string][]*vfJob{}
	}
	var j *vfJob
	if idle := w.jobs[proto]; len(idle) > 0 {
		j, w.jobs[proto] = idle[len(idle)-1], idle[:len(idle)-1] // last in, first out, like the engines' slab caches
	} else {
		j = &vfJob{}
	}
	j.local, j.remote, j.wrote = local, remote, nil
	return j
}

// parkJob returns a job whose packet has been served to the idle list.
func (w *vfWorld) parkJob(proto string, j *vfJob) {
	w.jobMu.Lock()
	w.jobs[proto] = append(w.jobs[proto], j)
	w.jobMu.Unlock()
}

func vfNewWorld(cfg *config.Config, up *vfUp) *vfWorld {
	for _, a := range up.table {
		a.compile()
	}
	cache.VerifResetSharedLimiters()
	s, done := vfBuildServerWith(cfg, up)
	w := &vfWorld{s: s, up: up, cfg: cfg, done: done}
	if h := middleware.Get("cache"); h != nil {
		w.cache, _ = h.(*cache.Cache)
	}
	return w
}

func (w *vfWorld) Close() { w.done() }

// vfReply is what one query produced on its transport.
type vfReply struct {
	Handled bool
	Writes  [][]byte
	Msg     *dns.Msg // decoded single reply, nil when none or undecodable
	Err     string
}

// Ask sends raw through ServeRaw on a wire-born (strict) or decoded transport.
func (w *vfWorld) Ask(raw []byte, proto string, ip net.IP, port int, wire bool) vfReply {
	local, remote := vfAddrs(proto, ip, port)
	var r vfReply
	if wire {
		job := w.wireJob(proto, local, remote)
		r.Handled = w.s.ServeRaw(job, raw, time.Now())
		r.Writes = job.wrote
		w.parkJob(proto, job)
	} else {
		job := &vfPlain{local: local, remote: remote}
		r.Handled = w.s.ServeRaw(job, raw, time.Now())
		r.Writes = job.wrote
	}
	if len(r.Writes) == 1 {
		m := new(dns.Msg)
		if err := m.Unpack(r.Writes[0]); err != nil {
			r.Err = err.Error()
		} else {
			r.Msg = m
		}
	}
	return r
}

// AskInline is the wire-born ingress as the batch UDP reader drives it: an inline pass that must not block, and -
// when that pass hands the packet off without having written - the replay of the same packet on a worker.
func (w *vfWorld) AskInline(raw []byte, ip net.IP, port int) (r vfReply, replayed bool) {
	if !w.s.InlineReady() {
		return w.Ask(raw, "udp", ip, port, true), false
	}
	local, remote := vfAddrs("udp", ip, port)
	job := w.wireJob("udp", local, remote)
	at := time.Now()
	r.Handled = w.s.ServeRawInline(job, raw, at)
	if !r.Handled && len(job.wrote) == 0 {
		replayed = true
		r.Handled = w.s.ServeRawReplay(job, raw, at)
	}
	r.Writes = job.wrote
	w.parkJob("udp", job)
	if len(r.Writes) == 1 {
		m := new(dns.Msg)
		if err := m.Unpack(r.Writes[0]); err != nil {
			r.Err = err.Error()
		} else {
			r.Msg = m
		}
	}
	return r, replayed
}

// vfCanonRR renders a record for multiset comparison: owner lower-cased, TTL kept.
func vfCanonRR(rr dns.RR, keepTTL bool) string {
	c := dns.Copy(rr)
	c.Header().Name = strings.ToLower(c.Header().Name)
	if !keepTTL {
		c.Header().Ttl = 0
	}
	c.Header().Rdlength = 0
	return c.String()
}

func vfCanonSection(rrs []dns.RR) []string {
	var out []string
	for _, rr := range rrs {
		if rr.Header().Rrtype == dns.TypeOPT {
			continue
		}
		out = append(out, vfCanonRR(rr, true))
	}
	sort.Strings(out)
	return out
}

// vfCanonReply is the decoded, order- and case-insensitive view of a reply that the
// property compares ("differing at most in name compression and letter case of owner names").
type vfCanonReply struct {
	None     bool
	Count    int
	Hdr      string
	Rcode    int
	Question string
	Answer   []string
	Ns       []string
	Extra    []string
	OPT      string
}

func vfCanon(r vfReply) vfCanonReply {
	if len(r.Writes) == 0 {
		return vfCanonReply{None: true}
	}
	if r.Msg == nil {
		return vfCanonReply{Count: len(r.Writes), Hdr: "undecodable:" + r.Err}
	}
	m := r.Msg
	c := vfCanonReply{Count: len(r.Writes), Rcode: m.Rcode}
	c.Hdr = fmt.Sprintf("id=%d qr=%v op=%d aa=%v tc=%v rd=%v ra=%v z=%v ad=%v cd=%v", m.Id, m.Response, m.Opcode, m.Authoritative, m.Truncated, m.RecursionDesired, m.RecursionAvailable, m.Zero, m.AuthenticatedData, m.CheckingDisabled)
	for _, q := range m.Question {
		c.Question += fmt.Sprintf("%s/%d/%d;", strings.ToLower(q.Name), q.Qtype, q.Qclass)
	}
	c.Answer, c.Ns, c.Extra = vfCanonSection(m.Answer), vfCanonSection(m.Ns), vfCanonSection(m.Extra)
	nopt := 0
	for _, rr := range m.Extra {
		if o, ok := rr.(*dns.OPT); ok {
			nopt++
			var opts []string
			for _, e := range o.Option {
				opts = append(opts, fmt.Sprintf("%d:%s", e.Option(), e.String()))
			}
			sort.Strings(opts)
			c.OPT += fmt.Sprintf("v=%d size=%d do=%v ext=%d opts=%v;", o.Version(), o.UDPSize(), o.Do(), o.ExtendedRcode(), opts)
		}
	}
	if nopt > 1 {
		c.OPT += fmt.Sprintf("(%d OPTs)", nopt)
	}
	return c
}

func (c vfCanonReply) String() string {
	if c.None {
		return "<no reply>"
	}
	return fmt.Sprintf("n=%d %s rcode=%d q=%s an=%v ns=%v ex=%v opt=%s", c.Count, c.Hdr, c.Rcode, c.Question, c.Answer, c.Ns, c.Extra, c.OPT)
}

// ---- generated upstream content ----------------------------------------------------------------

// vfRRSIGTime renders an absolute bubble time in RRSIG presentation form.
func vfRRSIGTime(off time.Duration) string {
	return vfEpoch.Add(off).UTC().Format("20060102150405")
}

// vfGenUpstream draws the upstream table over the fixed name universe of vfgen.GenQuery.
func vfGenUpstream(t *rapid.T) *vfUp {
	ttl := func(label string) uint32 {
		return rapid.SampledFrom([]uint32{0, 1, 4, 5, 6, 30, 300, 3600, 86400, 200000}).Draw(t, label)
	}
	u := &vfUp{table: map[string]*vfUpAnswer{}}
	tA := ttl("ttl.www")
	u.table[vfUpKey("www.example.org.", dns.TypeA)] = &vfUpAnswer{Scope: -1, AD: rapid.Bool().Draw(t, "ad.www"),
		Answer: []string{fmt.Sprintf("www.example.org. %d IN A 192.0.2.10", tA), fmt.Sprintf("www.example.org. %d IN A 192.0.2.11", tA)}}
	u.table[vfUpKey("www.example.org.", dns.TypeAAAA)] = &vfUpAnswer{Scope: -1, Answer: []string{fmt.Sprintf("www.example.org. %d IN AAAA 2001:db8::10", ttl("ttl.www6"))}}
	// alias -> www ; alias2 -> alias (chain); upstream returns the whole chain the way a resolver would
	tC := ttl("ttl.alias")
	chainFull := rapid.Bool().Draw(t, "alias.full")
	ans := []string{fmt.Sprintf("alias.example.org. %d IN CNAME www.example.org.", tC)}
	if chainFull {
		ans = append(ans, fmt.Sprintf("www.example.org. %d IN A 192.0.2.10", tA), fmt.Sprintf("www.example.org. %d IN A 192.0.2.11", tA))
	}
	aliasAD := rapid.Bool().Draw(t, "ad.alias")
	u.table[vfUpKey("alias.example.org.", dns.TypeA)] = &vfUpAnswer{Scope: -1, Answer: ans, AD: aliasAD}
	u.table[vfUpKey("alias.example.org.", dns.TypeCNAME)] = &vfUpAnswer{Scope: -1, Answer: ans[:1], AD: aliasAD}
	tC2 := ttl("ttl.alias2")
	u.table[vfUpKey("alias2.example.org.", dns.TypeA)] = &vfUpAnswer{Scope: -1, AD: rapid.Bool().Draw(t, "ad.alias2"), Answer: []string{fmt.Sprintf("alias2.example.org. %d IN CNAME alias.example.org.", tC2)}}
	// negative answers
	soaTTL, soaMin := ttl("ttl.soa"), ttl("min.soa")
	soa := fmt.Sprintf("example.org. %d IN SOA ns.example.org. host.example.org. 1 7200 3600 1209600 %d", soaTTL, soaMin)
	for _, n := range []string{"nx.example.org.", "deep.nx.example.org."} {
		for _, ty := range []uint16{dns.TypeA, dns.TypeAAAA, dns.TypeMX, dns.TypeTXT} {
			u.table[vfUpKey(n, ty)] = &vfUpAnswer{Scope: -1, Rcode: dns.RcodeNameError, Ns: []string{soa}, AD: rapid.Bool().Draw(t, "ad.nx")}
		}
	}
	for _, ty := range []uint16{dns.TypeA, dns.TypeAAAA, dns.TypeMX} {
		u.table[vfUpKey("nodata.example.org.", ty)] = &vfUpAnswer{Scope: -1, Ns: []string{soa}}
	}
	// signed answer with RRSIG (window end generated around the record TTL)
	tS := ttl("ttl.signed")
	sigEnd := rapid.SampledFrom([]time.Duration{-10 * time.Second, 3 * time.Second, 20 * time.Second, 90 * time.Second, 100 * 24 * time.Hour}).Draw(t, "sig.end")
	u.table[vfUpKey("signed.example.org.", dns.TypeA)] = &vfUpAnswer{Scope: -1, AD: rapid.Bool().Draw(t, "ad.signed"),
		Answer: []string{fmt.Sprintf("signed.example.org. %d IN A 192.0.2.20", tS),
			fmt.Sprintf("signed.example.org. %d IN RRSIG A 13 3 %d %s %s 12345 example.org. MDAwMDAwMDAwMDAwMDAwMDAwMDAwMDAwMDAwMDAwMDAwMDAwMDAwMDAwMDAwMDAwMDAwMDAwMDAwMDAwMDAwMA==", tS, tS, vfRRSIGTime(sigEnd), vfRRSIGTime(-time.Hour))}}
	u.table[vfUpKey("signed.example.org.", dns.TypeRRSIG)] = u.table[vfUpKey("signed.example.org.", dns.TypeA)]
	// big answers
	nTXT := rapid.SampledFrom([]int{3, 6, 20}).Draw(t, "big.n")
	var big []string
	for i := 0; i < nTXT; i++ {
		big = append(big, fmt.Sprintf("big.example.org. %d IN TXT \"%s%d\"", ttl("ttl.big"), strings.Repeat("x", 220), i))
	}
	bigA := &vfUpAnswer{Scope: -1, Answer: big}
	if rapid.Bool().Draw(t, "big.extra") {
		bigA.Extra = []string{"glue1.example.org. 300 IN A 192.0.2.201", "glue2.example.org. 300 IN AAAA 2001:db8::201"}
		bigA.Ns = []string{"example.org. 300 IN NS glue1.example.org."}
	}
	u.table[vfUpKey("big.example.org.", dns.TypeTXT)] = bigA
	// failures
	var failEDE []uint16
	if rapid.Bool().Draw(t, "fail.ede") {
		failEDE = []uint16{rapid.SampledFrom([]uint16{22, 23, 6, 9}).Draw(t, "fail.code")}
	}
	for _, n := range []string{"fail.example.org.", "sub.fail.example.org."} {
		for _, ty := range []uint16{dns.TypeA, dns.TypeAAAA, dns.TypeMX, dns.TypeTXT} {
			u.table[vfUpKey(n, ty)] = &vfUpAnswer{Scope: -1, Rcode: dns.RcodeServerFailure, EDE: failEDE}
		}
	}
	// geo answer: authority scope
	u.table[vfUpKey("geo.example.org.", dns.TypeA)] = &vfUpAnswer{Scope: rapid.SampledFrom([]int{0, 8, 16, 20, 24, 32, 48, 56}).Draw(t, "geo.scope"),
		Answer: []string{fmt.Sprintf("geo.example.org. %d IN A 192.0.2.99", ttl("ttl.geo"))}}
	// EDE-bearing positive answer with foreign options on the upstream OPT
	var foreign []string
	for _, k := range []string{"cookie", "nsid", "padding", "local", "keepalive", "ecs"} {
		if rapid.IntRange(0, 2).Draw(t, "ede.opt."+k) == 0 {
			foreign = append(foreign, k)
		}
	}
	u.table[vfUpKey("ede.example.org.", dns.TypeA)] = &vfUpAnswer{Scope: -1, EDE: []uint16{rapid.SampledFrom([]uint16{3, 19, 4}).Draw(t, "ede.code")}, OptOpts: foreign,
		Answer: []string{fmt.Sprintf("ede.example.org. %d IN A 192.0.2.30", ttl("ttl.ede"))}}
	// escaped / binary labels
	u.table[vfUpKey("esc\\.aped.example.org.", dns.TypeA)] = &vfUpAnswer{Scope: -1, Answer: []string{fmt.Sprintf("esc\\.aped.example.org. %d IN A 192.0.2.40", ttl("ttl.esc"))}}
	u.table[vfUpKey("bin\\000\\255.example.org.", dns.TypeA)] = &vfUpAnswer{Scope: -1, Answer: []string{fmt.Sprintf("bin\\000\\255.example.org. %d IN A 192.0.2.41", ttl("ttl.bin"))}}
	return u
}

// vfGenConfig draws the configuration toggles the properties quantify over.
func vfGenConfig(t *rapid.T, dir string) *config.Config {
	cfg := vfBaseConfig(dir)
	if rapid.Bool().Draw(t, "cfg.cookie") {
		cfg.CookieSecret = "6c6f6f6b61686172646c6f6f6b6168617264"
	}
	if rapid.Bool().Draw(t, "cfg.nsid") {
		cfg.NSID = "vf-nsid"
	}
	cfg.EmptyZones = []string{"10.in-addr.arpa."}
	cfg.Chaos = rapid.Bool().Draw(t, "cfg.chaos")
	return cfg
}

type vfC05Params struct {
	Cookie, NSID, Chaos bool
	ClientRate          int
	EntryRate           int
	RFC8198, RFC9520    bool
	Prefetch            int // 0 = off, else the remaining-lifetime percentage below which a hit queues a refresh
}

func vfC05Config(dir string, p vfC05Params) *config.Config {
	cfg := vfBaseConfig(dir)
	if p.Cookie {
		cfg.CookieSecret = "6c6f6f6b61686172646c6f6f6b6168617264"
	}
	if p.NSID {
		cfg.NSID = "vf-nsid"
	}
	cfg.Chaos = p.Chaos
	cfg.ClientRateLimit = p.ClientRate
	cfg.RateLimit = p.EntryRate
	cfg.Prefetch = uint32(p.Prefetch)
	cfg.EmptyZones = []string{"10.in-addr.arpa."}
	return cfg
}

var _ = vfgen.ClientAddrs
