package server

// C10 — replies reach only their own client and carry only their own bytes.
// The real UDP (batch engine, inline fast path, workers, send bursts) and TCP (stream staging)
// listeners run on loopback in front of a stub resolver whose answer is a function of the question
// alone. Many client sockets keep windows of cached ("hit": answered inline by the reader) and
// uncached ("miss": handed to a worker) questions in flight, some questions are dropped or panic
// inside the handler; TCP clients pipeline bursts that contain an oversized reply. Every datagram
// and frame a client receives must be the answer to one of its own outstanding questions.

import (
	"bytes"
	"context"
	"encoding/base64"
	"encoding/binary"
	"fmt"
	"hash/fnv"
	"io"
	"net"
	"net/http"
	"net/http/httptest"
	"net/url"
	"os"
	"strings"
	"sync"
	"sync/atomic"
	"testing"
	"time"

	"github.com/miekg/dns"
	"github.com/semihalev/sdns/internal/vfstat"
	"github.com/semihalev/sdns/middleware"
	"pgregory.net/rapid"
)

// vfC10Stub answers from the question alone: a TXT RRset that spells the question name, padded to the size the
// name asks for ("big" names exceed the TCP stream's 8 KiB staging buffer). "drop" names get no reply, "panic"
// names panic inside the handler.
type vfC10Stub struct{ calls atomic.Int64 }

func (s *vfC10Stub) Name() string { return "vfupstream" }

func vfC10Answer(name string) []dns.RR {
	hdr := dns.RR_Header{Name: name, Rrtype: dns.TypeTXT, Class: dns.ClassINET, Ttl: 300}
	lower := strings.ToLower(name)
	if strings.HasPrefix(lower, "sz") && len(lower) > 6 {
		// "szNNNN-...": one TXT RRset whose strings add up to NNNN octets, so that a client can steer reply sizes
		total := 0
		for _, c := range lower[2:6] {
			if c < '0' || c > '9' {
				total = -1
				break
			}
			total = total*10 + int(c-'0')
		}
		if total > 0 {
			var txt []string
			for total > 0 {
				k := min(total, 255)
				txt = append(txt, strings.Repeat("s", k))
				total -= k
			}
			return []dns.RR{&dns.TXT{Hdr: hdr, Txt: txt}}
		}
	}
	n := 1
	if strings.HasPrefix(lower, "big") {
		n = 45 // 45 strings of ~210 octets: about 9.5 KB
	}
	var txt []string
	for i := 0; i < n; i++ {
		s := fmt.Sprintf("%02d:%s", i, lower)
		if n > 1 {
			s += strings.Repeat("~", 200-len(s)%50)
		}
		txt = append(txt, s)
	}
	return []dns.RR{&dns.TXT{Hdr: hdr, Txt: txt}}
}

func (s *vfC10Stub) ServeDNS(ctx context.Context, ch *middleware.Chain) {
	ctx, req := ch.Materialize(ctx)
	if req == nil || len(req.Question) == 0 {
		ch.Cancel()
		return
	}
	s.calls.Add(1)
	name := req.Question[0].Name
	lower := strings.ToLower(name)
	switch {
	case strings.HasPrefix(lower, "drop"):
		ch.Cancel()
		return
	case strings.HasPrefix(lower, "panic"):
		panic("vfC10: handler panic for " + lower)
	case strings.HasPrefix(lower, "slow"):
		time.Sleep(2 * time.Millisecond)
	case strings.HasPrefix(lower, "hold"):
		time.Sleep(2 * time.Second) // well inside one query's budget (5 s), a large part of it
	}
	m := new(dns.Msg)
	m.SetReply(req)
	m.RecursionAvailable = true
	m.Answer = vfC10Answer(name)
	_ = ch.Writer.WriteMsg(m)
	ch.Cancel()
}

type vfC10Params struct {
	Clients  int
	Window   int
	PerUDP   int
	TCPConns int
	Bursts   int
	Workers  int
	HitRing  int
}

// vfC10Cookie: the client cookie (hex) a question for name carries, "" for none - a function of the name, so that
// every reply can be matched against the cookie of the very question it answers.
func vfC10Cookie(name string) string {
	h := fnv.New64a()
	_, _ = h.Write([]byte(strings.ToLower(name)))
	v := h.Sum64()
	if v%3 == 0 {
		return ""
	}
	return fmt.Sprintf("%016x", v)
}

// vfC10Late recognises the one late reply to a question this client stopped waiting for: same ID, same question,
// exactly that question's answer. It is the client's own reply, not a leftover of another client's.
func vfC10Late(raw []byte, outstanding, abandoned map[uint16]string) (uint16, bool) {
	m := new(dns.Msg)
	if err := m.Unpack(raw); err != nil || len(m.Question) != 1 {
		return 0, false
	}
	if _, live := outstanding[m.Id]; live {
		return 0, false
	}
	want, ok := abandoned[m.Id]
	if !ok || !strings.EqualFold(m.Question[0].Name, want) {
		return 0, false
	}
	if _, bad := vfC10Check("", raw, map[uint16]string{m.Id: want}); bad != "" {
		return 0, false
	}
	return m.Id, true
}

// vfC10Check verifies that msg answers an outstanding question of this client and holds exactly its answer.
// vfC10Whole walks a reply the way a strict parser does: the four section counts of the header must describe exactly
// what follows, to the last octet (the library's Unpack stops quietly at the end of the message whatever the counts say).
func vfC10Whole(raw []byte) string {
	if len(raw) < 12 {
		return fmt.Sprintf("%d octets, shorter than a header", len(raw))
	}
	qd, rrs := int(binary.BigEndian.Uint16(raw[4:])), int(binary.BigEndian.Uint16(raw[6:]))+int(binary.BigEndian.Uint16(raw[8:]))+int(binary.BigEndian.Uint16(raw[10:]))
	off := 12
	name := func() bool {
		for off < len(raw) {
			b := int(raw[off])
			switch {
			case b == 0:
				off++
				return true
			case b&0xC0 == 0xC0:
				off += 2
				return off <= len(raw)
			default:
				off += 1 + b
			}
		}
		return false
	}
	for i := 0; i < qd; i++ {
		if !name() || off+4 > len(raw) {
			return fmt.Sprintf("header counts %x promise %d question(s), the %d octets end inside question %d", raw[4:12], qd, len(raw), i+1)
		}
		off += 4
	}
	for i := 0; i < rrs; i++ {
		if !name() || off+10 > len(raw) {
			return fmt.Sprintf("header counts %x promise %d record(s), the %d octets end before record %d", raw[4:12], rrs, len(raw), i+1)
		}
		off += 10 + int(binary.BigEndian.Uint16(raw[off+8:]))
		if off > len(raw) {
			return fmt.Sprintf("header counts %x: record %d runs past the end of the %d octets", raw[4:12], i+1, len(raw))
		}
	}
	if off != len(raw) {
		return fmt.Sprintf("header counts %x account for %d of the %d octets", raw[4:12], off, len(raw))
	}
	return ""
}

// vfC10Reject judges the reply to a frame the engine turns away at the header (foreign opcode, two questions): the
// asker's ID, an error code, and not one octet that the counts do not account for.
func vfC10Reject(who string, raw []byte, id uint16) string {
	if bad := vfC10Whole(raw); bad != "" {
		return fmt.Sprintf("%s sent a frame the server refuses at the header and received a reply that is not whole: %s", who, bad)
	}
	if got := binary.BigEndian.Uint16(raw); got != id {
		return fmt.Sprintf("%s sent a refused frame with id %d and received a reply with id %d", who, id, got)
	}
	if raw[2]&0x80 == 0 || (raw[3]&0x0f != dns.RcodeNotImplemented && raw[3]&0x0f != dns.RcodeFormatError) {
		return fmt.Sprintf("%s sent a refused frame with id %d and received flags %x", who, id, raw[2:4])
	}
	return ""
}

func vfC10Check(who string, raw []byte, outstanding map[uint16]string) (uint16, string) {
	if bad := vfC10Whole(raw); bad != "" {
		return 0, fmt.Sprintf("%s received a reply that is not whole: %s", who, bad)
	}
	m := new(dns.Msg)
	if err := m.Unpack(raw); err != nil {
		return 0, fmt.Sprintf("%s received %d bytes that do not decode: %v", who, len(raw), err)
	}
	if len(m.Question) != 1 {
		return 0, fmt.Sprintf("%s received a reply with %d questions", who, len(m.Question))
	}
	want, ok := outstanding[m.Id]
	if !ok {
		return 0, fmt.Sprintf("%s received a reply with id %d question %s, which it has not outstanding", who, m.Id, m.Question[0].Name)
	}
	if !strings.EqualFold(m.Question[0].Name, want) {
		return 0, fmt.Sprintf("%s asked %s with id %d and received a reply about %s", who, want, m.Id, m.Question[0].Name)
	}
	// the reply's COOKIE option, if any, starts with the client cookie this very question carried - and there is none
	// when the question carried none (a cookie is eight octets of one client's query)
	wantCookie := vfC10Cookie(want)
	if opt := m.IsEdns0(); opt != nil {
		for _, o := range opt.Option {
			if ck, ok := o.(*dns.EDNS0_COOKIE); ok {
				if wantCookie == "" {
					return 0, fmt.Sprintf("%s asked %s without a cookie and received the COOKIE option %s", who, want, ck.Cookie)
				}
				if !strings.HasPrefix(strings.ToLower(ck.Cookie), wantCookie) {
					return 0, fmt.Sprintf("%s asked %s with client cookie %s and received the COOKIE option %s", who, want, wantCookie, ck.Cookie)
				}
			}
		}
	}
	if m.Rcode == dns.RcodeServerFailure {
		return m.Id, "" // panic names: the recovery handler's own SERVFAIL
	}
	exp := vfC10Answer(want)[0].(*dns.TXT)
	if m.Truncated && len(m.Answer) == 0 {
		return m.Id, ""
	}
	if len(m.Answer) != 1 {
		return 0, fmt.Sprintf("%s asked %s and received %d answer records", who, want, len(m.Answer))
	}
	got, isTXT := m.Answer[0].(*dns.TXT)
	if !isTXT || !strings.EqualFold(got.Hdr.Name, want) || strings.ToLower(strings.Join(got.Txt, "|")) != strings.ToLower(strings.Join(exp.Txt, "|")) {
		return 0, fmt.Sprintf("%s asked %s and received an answer that is not that question's: %.120s", who, want, m.Answer[0].String())
	}
	return m.Id, ""
}

func vfC10Run(t *testing.T, dir string, p vfC10Params) (violation string, stats map[string]int64) {
	var viol atomic.Pointer[string]
	report := func(f string, a ...any) {
		s := fmt.Sprintf(f, a...)
		viol.CompareAndSwap(nil, &s)
	}
	var answered, unanswered, inlineHits, frames, slowStreams, rejects atomic.Int64
	cfg := vfBaseConfig(dir)
	cfg.IngressWorkers = p.Workers
	cfg.RateLimit, cfg.ClientRateLimit = 0, 0
	cfg.CookieSecret = "6c6f6f6b61686172646c6f6f6b6168617264"
	stub := &vfC10Stub{}
	k, err := vfStartSock(cfg, stub)
	if err != nil {
		t.Fatalf("listeners: %v", err)
	}
	defer k.Stop()
	pack := vfC10Pack
	raddr, _ := net.ResolveUDPAddr("udp", k.udpAddr)
	// warm the cache: every client's ring of "hit" names, so that later they are answered on the reader
	for i := 0; i < p.Clients; i++ {
		c, err := net.DialUDP("udp", nil, raddr)
		if err != nil {
			t.Fatalf("dial: %v", err)
		}
		buf := make([]byte, 65536)
		for r := 0; r < p.HitRing; r++ {
			_, _ = c.Write(pack(uint16(r+1), fmt.Sprintf("hit-c%d-%d.u.test.", i, r)))
			_ = c.SetReadDeadline(time.Now().Add(500 * time.Millisecond))
			_, _ = c.Read(buf)
		}
		c.Close()
	}
	// ... and a set of small and oversized answers for the TCP bursts (cached answers are staged on the stream and
	// flushed together; uncached ones take the slow lane, which flushes first)
	if wc, err := net.DialTimeout("tcp", k.tcpAddr, 2*time.Second); err == nil {
		for r := 0; r < 10; r++ {
			name := fmt.Sprintf("tw-s%d.tcp.test.", r)
			if r >= 8 {
				name = fmt.Sprintf("big-tw%d.tcp.test.", r-8)
			}
			raw := pack(uint16(r+1), name)
			frame := make([]byte, 2+len(raw))
			binary.BigEndian.PutUint16(frame, uint16(len(raw)))
			copy(frame[2:], raw)
			_, _ = wc.Write(frame)
			_ = wc.SetReadDeadline(time.Now().Add(time.Second))
			var l [2]byte
			if _, err := io.ReadFull(wc, l[:]); err == nil {
				_, _ = io.ReadFull(wc, make([]byte, binary.BigEndian.Uint16(l[:])))
			}
		}
		wc.Close()
	}
	warm := stub.calls.Load()
	var wg sync.WaitGroup
	for i := 0; i < p.Clients; i++ {
		wg.Add(1)
		go func(i int) {
			defer wg.Done()
			who := fmt.Sprintf("UDP client %d", i)
			c, err := net.DialUDP("udp", nil, raddr)
			if err != nil {
				return
			}
			defer c.Close()
			outstanding := map[uint16]string{}
			abandoned := map[uint16]string{}
			var id uint16 = uint16(i) << 8
			sent := 0
			buf := make([]byte, 65536)
			kinds := []string{"hit", "miss", "hit", "slow", "hit", "miss", "drop", "hit", "miss", "hit", "miss", "hit", "slow", "hit", "miss", "hit", "hit", "miss", "hit", "miss", "hit", "miss", "hit", "panic"}
			for sent < p.PerUDP || len(outstanding) > 0 {
				for len(outstanding) < p.Window && sent < p.PerUDP {
					id++
					kind := kinds[(sent+i)%len(kinds)]
					name := fmt.Sprintf("%s-c%d-%d.u.test.", kind, i, sent)
					if kind == "hit" {
						name = fmt.Sprintf("hit-c%d-%d.u.test.", i, sent%p.HitRing)
					}
					outstanding[id] = name
					_, _ = c.Write(pack(id, name))
					sent++
				}
				_ = c.SetReadDeadline(time.Now().Add(150 * time.Millisecond))
				n, err := c.Read(buf)
				if err != nil {
					// whatever is still outstanding was dropped (by design for "drop" names, by the kernel otherwise) - or is
					// merely late on a busy machine: the client stops waiting, but one late reply to such a question is its own
					unanswered.Add(int64(len(outstanding)))
					for x, nm := range outstanding {
						abandoned[x] = nm
						delete(outstanding, x)
					}
					continue
				}
				if late, isLate := vfC10Late(buf[:n], outstanding, abandoned); isLate {
					delete(abandoned, late)
					continue
				}
				gotID, bad := vfC10Check(who, buf[:n], outstanding)
				if bad != "" {
					report("%s", bad)
					return
				}
				if strings.HasPrefix(outstanding[gotID], "hit") {
					inlineHits.Add(1)
				}
				delete(outstanding, gotID) // a second reply to the same question now reads "not outstanding"
				answered.Add(1)
				if viol.Load() != nil {
					return
				}
			}
			// linger: nothing may arrive for a client with nothing outstanding
			_ = c.SetReadDeadline(time.Now().Add(40 * time.Millisecond))
			if n, err := c.Read(buf); err == nil {
				if _, isLate := vfC10Late(buf[:n], outstanding, abandoned); !isLate {
					_, bad := vfC10Check(who, buf[:n], outstanding)
					report("%s (after all its questions had been answered or given up)", bad)
				}
			}
		}(i)
	}
	for j := 0; j < p.TCPConns; j++ {
		wg.Add(1)
		go func(j int) {
			defer wg.Done()
			who := fmt.Sprintf("TCP client %d", j)
			c, err := net.DialTimeout("tcp", k.tcpAddr, 2*time.Second)
			if err != nil {
				return
			}
			defer c.Close()
			for b := 0; b < p.Bursts; b++ {
				nq := 3 + (b+j)%5
				bigAt := (b*7 + j) % nq
				var names []string
				var burst []byte
				for q := 0; q < nq; q++ {
					name := fmt.Sprintf("tw-s%d.tcp.test.", (q+b+j)%8) // cached, small
					if q == bigAt {
						name = fmt.Sprintf("big-tw%d.tcp.test.", (b+j)%2) // cached, oversized
					}
					if b%3 == 2 && q == nq-1 {
						name = fmt.Sprintf("t%d-b%d-q%d.tcp.test.", j, b, q) // an uncached one at the end
					}
					if b%4 == 3 && q == bigAt {
						name = fmt.Sprintf("big-t%d-b%d.tcp.test.", j, b) // an uncached oversized one
					}
					raw := pack(uint16(1000+q), name)
					if (b+2*j+q)%7 == 6 && q > 0 {
						// a frame the engine refuses at the header, after the connection's buffers have carried replies:
						// a bare header with a foreign opcode, or a query that announces two questions
						name = ""
						if (b+j)%2 == 0 {
							raw = make([]byte, 12)
							binary.BigEndian.PutUint16(raw, uint16(1000+q))
							raw[2] = 5 << 3 // UPDATE
						} else {
							raw = append([]byte(nil), raw...)
							raw[5] = 2
						}
					}
					names = append(names, name)
					frame := make([]byte, 2+len(raw))
					binary.BigEndian.PutUint16(frame, uint16(len(raw)))
					copy(frame[2:], raw)
					burst = append(burst, frame...)
				}
				if _, err := c.Write(burst); err != nil { // one write: a pipelined burst
					return
				}
				for q := 0; q < nq; q++ {
					_ = c.SetReadDeadline(time.Now().Add(2 * time.Second))
					var l [2]byte
					if _, err := io.ReadFull(c, l[:]); err != nil {
						if ne, ok := err.(net.Error); ok && ne.Timeout() {
							slowStreams.Add(1) // a busy machine, or C11's business: lateness is not misdelivery
							return
						}
						report("%s: burst %d: the stream ended before reply %d of %d (%v)", who, b, q, nq, err)
						return
					}
					body := make([]byte, binary.BigEndian.Uint16(l[:]))
					if _, err := io.ReadFull(c, body); err != nil {
						report("%s: burst %d: reply %d is cut short (%v)", who, b, q, err)
						return
					}
					if names[q] == "" {
						if bad := vfC10Reject(who, body, uint16(1000+q)); bad != "" {
							report("%s: burst %d, position %d of %d: %s", who, b, q, nq, bad)
							return
						}
						rejects.Add(1)
						frames.Add(1)
						continue
					}
					// in query order, one per query: reply q must answer query q
					if _, bad := vfC10Check(who, body, map[uint16]string{uint16(1000 + q): names[q]}); bad != "" {
						report("%s: burst %d, position %d of %d (replies must come whole, one per query, in query order): %s", who, b, q, nq, bad)
						return
					}
					frames.Add(1)
				}
			}
		}(j)
	}
	// one more TCP client aims pipelined bursts of cached replies at the edges of the stream's staging buffer: the
	// replies staged so far plus the next one come to exactly the buffer size, or one or two octets either side of it
	var boundary atomic.Int64
	if p.TCPConns > 0 {
		wg.Add(1)
		go func() {
			defer wg.Done()
			vfC10BoundaryBursts(k.tcpAddr, 6, report, &boundary, &slowStreams)
		}()
	}
	wg.Wait()
	stats = map[string]int64{"tcp-boundary-bursts": boundary.Load(), "udp-answered": answered.Load(), "udp-unanswered": unanswered.Load(), "udp-hit-answers": inlineHits.Load(), "tcp-frames": frames.Load(), "tcp-header-rejections": rejects.Load(), "tcp-read-timeouts": slowStreams.Load(), "handler-calls": stub.calls.Load() - warm}
	if v := viol.Load(); v != nil {
		violation = *v
	}
	return
}

// vfC10BoundaryBursts: see the call site. Reply sizes are steered through "szNNNN-" names and measured, not computed:
// every name is asked once on a side connection first (which also caches it, so that the burst's replies are staged
// together), and the frame length that comes back is the length the burst will see.
func vfC10BoundaryBursts(addr string, rounds int, report func(string, ...any), done, slow *atomic.Int64) {
	const drain = 8192
	side, err := net.DialTimeout("tcp", addr, 2*time.Second)
	if err != nil {
		return
	}
	defer side.Close()
	c, err := net.DialTimeout("tcp", addr, 2*time.Second)
	if err != nil {
		return
	}
	defer c.Close()
	exchange := func(conn net.Conn, id uint16, name string) (int, bool) {
		if _, err := conn.Write(vfC10Frame(vfC10Pack(id, name))); err != nil {
			return 0, false
		}
		_ = conn.SetReadDeadline(time.Now().Add(2 * time.Second))
		var l [2]byte
		if _, err := io.ReadFull(conn, l[:]); err != nil {
			return 0, false
		}
		body := make([]byte, binary.BigEndian.Uint16(l[:]))
		if _, err := io.ReadFull(conn, body); err != nil {
			return 0, false
		}
		return len(body), true
	}
	lens := map[string]int{}
	measure := func(name string) (int, bool) {
		if n, ok := lens[name]; ok {
			return n, true
		}
		n, ok := exchange(side, 1, name)
		if ok {
			lens[name] = n
		}
		return n, ok
	}
	seq := 0
	for r := 0; r < rounds; r++ {
		// fillers: a few cached replies of assorted sizes, well short of the buffer
		var names []string
		held := 0
		nf := 2 + r%4
		for f := 0; f < nf; f++ {
			name := fmt.Sprintf("sz%04d-f%d.bb.test.", 300+((r*7+f*13)%9)*150, f)
			n, ok := measure(name)
			if !ok {
				return
			}
			if held+2+n > drain-400 {
				break
			}
			names = append(names, name)
			held += 2 + n
		}
		// the last reply: held + its length lands on drain+delta
		delta := []int{0, -1, -2, 1, 2, -3}[r%6]
		want := drain + delta - held
		guess := want - 60
		var last string
		for try := 0; try < 6 && last == ""; try++ {
			if guess < 1 || guess > 9999 {
				break
			}
			seq++
			name := fmt.Sprintf("sz%04d-l%d.bb.test.", guess, seq)
			n, ok := measure(name)
			if !ok {
				return
			}
			if n == want {
				last = name
			} else {
				guess += want - n
			}
		}
		if last == "" {
			continue
		}
		names = append(names, last)
		var burst []byte
		for q, name := range names {
			burst = append(burst, vfC10Frame(vfC10Pack(uint16(3000+q), name))...)
		}
		if _, err := c.Write(burst); err != nil {
			return
		}
		for q, name := range names {
			_ = c.SetReadDeadline(time.Now().Add(2 * time.Second))
			var l [2]byte
			if _, err := io.ReadFull(c, l[:]); err != nil {
				if ne, ok := err.(net.Error); ok && ne.Timeout() {
					slow.Add(1)
					return
				}
				report("boundary burst %d (staged %d octets, then a %d-octet reply: buffer size %+d): the stream ended before reply %d of %d (%v)", r, held, want, delta, q, len(names), err)
				return
			}
			body := make([]byte, binary.BigEndian.Uint16(l[:]))
			if _, err := io.ReadFull(c, body); err != nil {
				if ne, ok := err.(net.Error); ok && ne.Timeout() {
					report("boundary burst %d (staged %d octets, then a %d-octet reply: buffer size %+d): reply %d of %d announces %d octets and fewer arrived", r, held, want, delta, q, len(names), len(body))
					return
				}
				report("boundary burst %d: reply %d is cut short (%v)", r, q, err)
				return
			}
			if _, bad := vfC10Check("TCP boundary client", body, map[uint16]string{uint16(3000 + q): name}); bad != "" {
				report("boundary burst %d (staged %d octets, then a %d-octet reply: buffer size %+d), position %d of %d: %s", r, held, want, delta, q, len(names), bad)
				return
			}
		}
		done.Add(1)
	}
}

func TestVerifC10Sockets(t *testing.T) {
	defer vfstat.Flush()
	vfstat.Quiet()
	const U = "C10.sockets"
	dir, _ := os.MkdirTemp(os.Getenv("VERIF_WORKDIR"), "c10")
	defer os.RemoveAll(dir)
	rapid.Check(t, func(rt *rapid.T) {
		p := vfC10Params{Clients: rapid.IntRange(4, 24).Draw(rt, "clients"), Window: rapid.SampledFrom([]int{1, 4, 8, 16}).Draw(rt, "window"), PerUDP: rapid.SampledFrom([]int{40, 120, 300}).Draw(rt, "perudp"),
			TCPConns: rapid.IntRange(0, 4).Draw(rt, "tcpconns"), Bursts: rapid.IntRange(1, 6).Draw(rt, "bursts"), Workers: rapid.SampledFrom([]int{1, 2, 4}).Draw(rt, "workers"), HitRing: rapid.SampledFrom([]int{1, 4, 8}).Draw(rt, "hitring")}
		v, stats := vfC10Run(t, dir, p)
		if v != "" {
			rt.Fatalf("%s\n  %+v\n  %v", v, p, stats)
		}
		vfstat.Eval(U, 1)
		if stats["udp-hit-answers"] > 0 && stats["handler-calls"] > 0 {
			vfstat.Class(U, "inline-hits-and-worker-misses-together")
		}
		if stats["tcp-frames"] > 0 {
			vfstat.Class(U, "tcp-pipelined-bursts")
		}
		if stats["udp-unanswered"] > 0 {
			vfstat.Class(U, "questions-without-reply")
		}
		if stats["tcp-header-rejections"] > 0 {
			vfstat.Class(U, "header-rejections-on-used-buffers")
		}
		if stats["udp-answered"] > 50 {
			vfstat.NonTrivial(U, fmt.Sprint(p))
			vfstat.Sample(U, fmt.Sprint(p.Workers, p.TCPConns > 0), map[string]any{"params": fmt.Sprintf("%+v", p), "stats": stats})
		}
	})
}

// TestVerifC10DoH drives the DoH handler (Server.ServeHTTP, wire-format POST / GET and the JSON form) over plain
// HTTP/1.1 keep-alive connections shared by many goroutines: every HTTP exchange must carry the answer to the
// question asked in that exchange and nothing else.
func TestVerifC10DoH(t *testing.T) {
	defer vfstat.Flush()
	vfstat.Quiet()
	const U = "C10.doh"
	dir, _ := os.MkdirTemp(os.Getenv("VERIF_WORKDIR"), "c10h")
	defer os.RemoveAll(dir)
	rapid.Check(t, func(rt *rapid.T) {
		workers := rapid.IntRange(4, 24).Draw(rt, "goroutines")
		per := rapid.SampledFrom([]int{30, 100, 250}).Draw(rt, "per")
		ring := rapid.SampledFrom([]int{1, 4, 16}).Draw(rt, "ring")
		cfg := vfBaseConfig(dir)
		cfg.RateLimit, cfg.ClientRateLimit = 0, 0
		stub := &vfC10Stub{}
		s, done := vfBuildServerWith(cfg, stub)
		defer done()
		hs := httptest.NewServer(s)
		defer hs.Close()
		client := hs.Client()
		var viol atomic.Pointer[string]
		report := func(f string, a ...any) {
			s := fmt.Sprintf(f, a...)
			viol.CompareAndSwap(nil, &s)
		}
		var ok200, other atomic.Int64
		var wg sync.WaitGroup
		for g := 0; g < workers; g++ {
			wg.Add(1)
			go func(g int) {
				defer wg.Done()
				kinds := []string{"hit", "miss", "hit", "miss", "hit", "slow", "hit", "drop", "hit", "miss", "big", "hit", "panic", "miss"}
				for k := 0; k < per && viol.Load() == nil; k++ {
					kind := kinds[(k+g)%len(kinds)]
					name := fmt.Sprintf("%s-h%d-%d.doh.test.", kind, g, k)
					if kind == "hit" {
						name = fmt.Sprintf("hit-h%d-%d.doh.test.", g, k%ring)
					}
					id := uint16(g<<8 | k&0xff)
					m := new(dns.Msg)
					m.SetQuestion(name, dns.TypeTXT)
					m.Id = id
					m.SetEdns0(4096, false)
					raw, _ := m.Pack()
					var resp *http.Response
					var err error
					form := (k + g) % 3
					switch form {
					case 0:
						resp, err = client.Post(hs.URL+"/dns-query", "application/dns-message", bytes.NewReader(raw))
					case 1:
						resp, err = client.Get(hs.URL + "/dns-query?dns=" + base64.RawURLEncoding.EncodeToString(raw))
					default:
						resp, err = client.Get(hs.URL + "/dns-query?name=" + url.QueryEscape(name) + "&type=TXT")
					}
					if err != nil {
						other.Add(1)
						continue
					}
					body, _ := io.ReadAll(resp.Body)
					resp.Body.Close()
					if resp.StatusCode != 200 {
						other.Add(1)
						if bytes.Contains(bytes.ToLower(body), []byte(".doh.test")) && !bytes.Contains(bytes.ToLower(body), []byte(strings.ToLower(strings.TrimSuffix(name, ".")))) {
							report("goroutine %d: HTTP %d body for %s mentions another exchange's name: %.120q", g, resp.StatusCode, name, body)
						}
						continue
					}
					ok200.Add(1)
					who := fmt.Sprintf("DoH exchange (goroutine %d, request %d, form %d)", g, k, form)
					if form == 2 {
						lower := strings.ToLower(string(body))
						if !strings.Contains(lower, strings.ToLower(strings.TrimSuffix(name, "."))) {
							report("%s: JSON body does not mention the question %s: %.160q", who, name, body)
						}
						for _, part := range strings.Split(lower, ".doh.test") {
							if i := strings.LastIndexAny(part, "\":| "); i >= 0 {
								part = part[i+1:]
							}
							if strings.Contains(part, "-h") && !strings.HasSuffix(strings.ToLower(strings.TrimSuffix(name, ".doh.test.")), part) && !strings.HasSuffix(part, strings.ToLower(strings.TrimSuffix(name, ".doh.test."))) {
								report("%s: JSON body for %s mentions another exchange's name %q", who, name, part)
							}
						}
						continue
					}
					if _, bad := vfC10Check(who, body, map[uint16]string{id: name}); bad != "" {
						report("%s", bad)
					}
				}
			}(g)
		}
		wg.Wait()
		if v := viol.Load(); v != nil {
			rt.Fatalf("%s\n  goroutines=%d per=%d ring=%d ok=%d other=%d", *v, workers, per, ring, ok200.Load(), other.Load())
		}
		vfstat.Eval(U, 1)
		if ok200.Load() > 100 {
			vfstat.NonTrivial(U, fmt.Sprint(workers, per, ring))
			vfstat.Class(U, "concurrent-http-exchanges")
			vfstat.Sample(U, fmt.Sprint(workers > 12), map[string]any{"goroutines": workers, "requests_each": per, "answered_200": ok200.Load(), "other_status": other.Load()})
		}
	})
}
