package server

// C07 — authoritative data is trusted only inside the sender's bailiwick.
// An attacker is the genuine authority of one zone (evil.test.) in an otherwise honest namespace
// whose victim zones are unsigned, so nothing but the bailiwick rules protects them. Every response
// of the attacker's servers is decorated by a generated attack; later questions for victim names
// must still get the victims' own published data, the attacker's addresses must never be asked
// about names outside its zone, and nothing unroutable may be dialled.

import (
	"fmt"
	"net"
	"os"
	"strings"
	"testing"
	"testing/synctest"
	"time"

	"github.com/miekg/dns"
	"github.com/semihalev/sdns/internal/vfgen"
	"github.com/semihalev/sdns/internal/vfmodel"
	"github.com/semihalev/sdns/internal/vfstat"
	"github.com/semihalev/sdns/internal/vfworld"
	"pgregory.net/rapid"
)

var vfC07Attacks = []string{"extra-answer", "extra-additional", "authority-ns-victim", "cname-in-message", "dname-in-message", "dname-above-zone", "upward-referral", "sideways-referral", "offpath-referral", "offpath-deep-referral", "offpath-deep-referral", "self-referral",
	"mixed-owner-referral", "long-chain-in-message", "glue-out-of-zone", "glue-lookalike", "glue-unroutable", "wrong-id-first", "wrong-question-first", "wrong-question-error", "wrong-question-error", "chaos-referral", "victim-soa-negative", "ns-in-answer"}

type vfC07Step struct {
	Name  string
	Qtype uint16
	Sleep time.Duration
	CD    bool
	Wire  bool
}

type vfC07Case struct {
	W            *vfworld.World
	Attacks      []string
	Victim       string // victim zone apex
	VictimSecure bool
	Evil         string
	Glueless     bool // the victim zone is delegated to a host in another zone, without glue
	Spoof        bool // an off-path attacker sprays forged answers (guessed transaction IDs) at the resolver whenever it asks the victim's servers
	QMin         int
	ChainLen     int // long-chain-in-message: alias hops that stay inside the attacker's zone before the chain leaves it
	Steps        []vfC07Step
}

// vfC07Evil is the attacker's zone apex of the case being generated / run (one case at a time per process): one label
// below the TLD, or two (test. delegates evil.co.test. directly, the co.uk shape - a cut that skips a level).
var vfC07Evil = "evil.test."

func vfC07Marker(i byte) net.IP { return net.IPv4(6, 6, 6, i).To4() }

func vfC07A(name string, ip net.IP) dns.RR {
	return &dns.A{Hdr: dns.RR_Header{Name: name, Rrtype: dns.TypeA, Class: dns.ClassINET, Ttl: 3600}, A: ip}
}
func vfC07NS(owner, host string) dns.RR {
	return &dns.NS{Hdr: dns.RR_Header{Name: owner, Rrtype: dns.TypeNS, Class: dns.ClassINET, Ttl: 3600}, Ns: host}
}

// vfC07Decorate applies one attack to an honest response of the attacker's zone. It may return raw
// datagrams to be sent before the (possibly edited) response.
func vfC07Decorate(c *vfC07Case, attack string, n int, evilIP string, req, resp *dns.Msg, proto string) (raw [][]byte) {
	v := c.Victim
	www, vns := "t."+v, "ns1."+v
	eip := net.ParseIP(evilIP).To4()
	referral := func(ns ...dns.RR) {
		resp.Answer, resp.Ns, resp.Authoritative, resp.Rcode = nil, ns, false, dns.RcodeSuccess
	}
	keepOPT := func() []dns.RR {
		var out []dns.RR
		for _, rr := range resp.Extra {
			if rr.Header().Rrtype == dns.TypeOPT {
				out = append(out, rr)
			}
		}
		return out
	}
	q := req.Question[0]
	switch attack {
	case "extra-answer":
		resp.Answer = append(resp.Answer, vfC07A(www, vfC07Marker(1)), vfC07A(vns, vfC07Marker(2)))
	case "extra-additional":
		resp.Extra = append([]dns.RR{vfC07A(www, vfC07Marker(3)), vfC07A(vns, eip)}, resp.Extra...)
	case "authority-ns-victim":
		resp.Ns = append(resp.Ns, vfC07NS(v, "ns1."+vfC07Evil))
		resp.Extra = append([]dns.RR{vfC07A("ns1."+vfC07Evil, eip)}, resp.Extra...)
	case "ns-in-answer":
		resp.Answer = append(resp.Answer, vfC07NS(v, "ns1."+vfC07Evil), vfC07NS("test.", "ns1."+vfC07Evil))
	case "cname-in-message":
		resp.Rcode, resp.Ns = dns.RcodeSuccess, nil
		resp.Answer = []dns.RR{&dns.CNAME{Hdr: dns.RR_Header{Name: q.Name, Rrtype: dns.TypeCNAME, Class: dns.ClassINET, Ttl: 3600}, Target: www}, vfC07A(www, vfC07Marker(4))}
	case "long-chain-in-message":
		// an alias chain that stays inside the attacker's own zone for a generated number of hops, then leaves it -
		// with the "answer" for the foreign target, and an unrelated victim record, riding along
		resp.Rcode, resp.Ns = dns.RcodeSuccess, nil
		resp.Answer = nil
		owner := q.Name
		for h := 1; h <= c.ChainLen; h++ {
			next := fmt.Sprintf("h%d.%s", h, vfC07Evil)
			resp.Answer = append(resp.Answer, &dns.CNAME{Hdr: dns.RR_Header{Name: owner, Rrtype: dns.TypeCNAME, Class: dns.ClassINET, Ttl: 3600}, Target: next})
			owner = next
		}
		resp.Answer = append(resp.Answer, &dns.CNAME{Hdr: dns.RR_Header{Name: owner, Rrtype: dns.TypeCNAME, Class: dns.ClassINET, Ttl: 3600}, Target: www}, vfC07A(www, vfC07Marker(9)), vfC07A(vns, vfC07Marker(10)))
	case "dname-in-message":
		resp.Rcode, resp.Ns = dns.RcodeSuccess, nil
		resp.Answer = []dns.RR{&dns.CNAME{Hdr: dns.RR_Header{Name: q.Name, Rrtype: dns.TypeCNAME, Class: dns.ClassINET, Ttl: 3600}, Target: www},
			&dns.DNAME{Hdr: dns.RR_Header{Name: v, Rrtype: dns.TypeDNAME, Class: dns.ClassINET, Ttl: 3600}, Target: vfC07Evil}, vfC07A(www, vfC07Marker(5))}
	case "dname-above-zone":
		// a DNAME owned by an ancestor of the attacker's zone (its parent, or the root), redirecting the whole
		// subtree - with the CNAME a server synthesises from it for the name that was asked
		parent := strings.SplitN(vfC07Evil, ".", 2)[1]
		if n%2 == 0 || parent == "" {
			parent = "."
		}
		if rest := strings.TrimSuffix(strings.ToLower(q.Name), "."+parent); parent != "." && rest != strings.ToLower(q.Name) || parent == "." {
			prefix := strings.TrimSuffix(strings.TrimSuffix(q.Name, parent), ".")
			if parent == "." {
				prefix = strings.TrimSuffix(q.Name, ".")
			}
			target := "moved." + v
			resp.Rcode, resp.Ns = dns.RcodeSuccess, nil
			resp.Answer = []dns.RR{&dns.DNAME{Hdr: dns.RR_Header{Name: parent, Rrtype: dns.TypeDNAME, Class: dns.ClassINET, Ttl: 3600}, Target: target},
				&dns.CNAME{Hdr: dns.RR_Header{Name: q.Name, Rrtype: dns.TypeCNAME, Class: dns.ClassINET, Ttl: 3600}, Target: prefix + "." + target}}
		}
	case "upward-referral":
		referral(vfC07NS("test.", "ns1."+vfC07Evil))
		resp.Extra = append([]dns.RR{vfC07A("ns1."+vfC07Evil, eip)}, keepOPT()...)
	case "sideways-referral":
		referral(vfC07NS(v, "ns1."+vfC07Evil))
		resp.Extra = append([]dns.RR{vfC07A("ns1."+vfC07Evil, eip)}, keepOPT()...)
	case "offpath-referral":
		// in the attacker's bailiwick, but not on the way to the name that was asked: a real sub-zone whose honest
		// server would then be asked about names it has nothing to do with
		if !strings.HasSuffix(strings.ToLower(q.Name), "sub."+vfC07Evil) {
			referral(vfC07NS("sub."+vfC07Evil, "ns1.sub."+vfC07Evil))
			resp.Extra = append([]dns.RR{vfC07A("ns1.sub."+vfC07Evil, net.ParseIP(c.W.Zones["sub."+vfC07Evil].Servers[0]).To4())}, keepOPT()...)
		}
	case "offpath-deep-referral":
		// inside the attacker's bailiwick and below the zone asked, sharing a branch with the question but not on the
		// way to it: a sibling of the question name two or more labels down, or a name below the question name. The
		// host it names is given, in bailiwick, the address of an honest server that serves none of this
		// (the look-alike zone's own): whatever that server is then asked about the attacker's zone came through this referral
		labels := dns.SplitDomainName(q.Name)
		if len(labels) >= dns.CountLabel(vfC07Evil)+2 && vfmodel.IsSubdomain(strings.ToLower(q.Name), vfC07Evil) {
			owner := "z9." + q.Name
			if n%2 == 0 {
				owner = "yy7." + strings.Join(labels[1:], ".") + "."
			}
			referral(vfC07NS(owner, "ns."+owner))
			resp.Extra = append([]dns.RR{vfC07A("ns."+owner, net.ParseIP(c.W.Zones["x"+vfC07Evil].Servers[0]).To4())}, keepOPT()...)
		}
	case "self-referral":
		referral(vfC07NS(vfC07Evil, "ns1."+vfC07Evil))
		resp.Extra = append([]dns.RR{vfC07A("ns1."+vfC07Evil, eip)}, keepOPT()...)
	case "mixed-owner-referral":
		referral(vfC07NS("sub."+vfC07Evil, "ns1.sub."+vfC07Evil), vfC07NS(v, "ns1."+vfC07Evil))
		resp.Extra = append([]dns.RR{vfC07A("ns1.sub."+vfC07Evil, eip), vfC07A("ns1."+vfC07Evil, eip)}, keepOPT()...)
	case "glue-out-of-zone":
		// a real delegation inside the attacker's zone whose NS host lives in the victim zone, with "glue"
		referral(vfC07NS("sub."+vfC07Evil, vns))
		resp.Extra = append([]dns.RR{vfC07A(vns, eip), vfC07A(www, vfC07Marker(6))}, keepOPT()...)
	case "glue-lookalike":
		// an NS host whose name merely ends in the zone's characters (ns1.xevil.test. under evil.test.), with "glue"
		referral(vfC07NS("sub."+vfC07Evil, "ns9.x"+vfC07Evil))
		resp.Extra = append([]dns.RR{vfC07A("ns9.x"+vfC07Evil, eip)}, keepOPT()...)
	case "glue-unroutable":
		referral(vfC07NS("sub."+vfC07Evil, "ns1.sub."+vfC07Evil), vfC07NS("sub."+vfC07Evil, "ns2.sub."+vfC07Evil))
		first := net.IPv4(127, 0, 0, 1).To4()
		if n%2 == 0 {
			first = net.IPv4zero.To4() // the unspecified address reaches the local host just as well
		}
		resp.Extra = append([]dns.RR{vfC07A("ns1.sub."+vfC07Evil, first), vfC07A("ns2.sub."+vfC07Evil, net.IPv4(127, 0, 0, 53).To4())}, keepOPT()...)
	case "chaos-referral":
		ns := vfC07NS(v, "ns1."+vfC07Evil)
		ns.Header().Class = dns.ClassCHAOS
		resp.Ns = append(resp.Ns, ns)
	case "victim-soa-negative":
		// a negative answer "from" the victim zone: SOA of the victim in the authority section
		resp.Ns = append(resp.Ns, &dns.SOA{Hdr: dns.RR_Header{Name: v, Rrtype: dns.TypeSOA, Class: dns.ClassINET, Ttl: 3600}, Ns: "ns1." + vfC07Evil, Mbox: "x." + vfC07Evil, Serial: 9, Minttl: 3600})
	case "wrong-question-error":
		// the right ID, somebody else's question, an error rcode and nothing else — instead of the real response
		resp.Question = []dns.Question{{Name: []string{www, www, "www." + v, v}[n%4], Qtype: dns.TypeA, Qclass: dns.ClassINET}}
		resp.Answer, resp.Ns, resp.Extra = nil, nil, keepOPT()
		resp.Rcode = []int{dns.RcodeNameError, dns.RcodeNameError, dns.RcodeNameError, dns.RcodeRefused, dns.RcodeServerFailure}[(n/2)%5]
	case "wrong-id-first", "wrong-question-first":
		if strings.HasPrefix(proto, "udp") {
			f := new(dns.Msg)
			f.SetReply(req)
			f.Authoritative = true
			if attack == "wrong-id-first" {
				f.Id = req.Id + 1
				f.Answer = []dns.RR{vfC07A(q.Name, vfC07Marker(7))}
			} else {
				f.Question = []dns.Question{{Name: www, Qtype: dns.TypeA, Qclass: dns.ClassINET}}
				f.Answer = []dns.RR{vfC07A(www, vfC07Marker(8))}
			}
			if b, err := f.Pack(); err == nil {
				raw = append(raw, b)
			}
		}
	}
	return raw
}

func vfC07Gen(rt *rapid.T) *vfC07Case {
	c := &vfC07Case{QMin: rapid.SampledFrom([]int{0, 0, 5}).Draw(rt, "qmin")}
	c.ChainLen = rapid.IntRange(0, 14).Draw(rt, "chainlen")
	c.VictimSecure = rapid.IntRange(0, 4).Draw(rt, "victimsecure") == 0
	c.Spoof = rapid.IntRange(0, 3).Draw(rt, "spoof") == 0
	c.Evil = rapid.SampledFrom([]string{"evil.test.", "evil.test.", "evil.co.test."}).Draw(rt, "evilapex")
	vfC07Evil = c.Evil
	c.Victim = rapid.SampledFrom([]string{"victim.test.", "victim.test.", "victim.org."}).Draw(rt, "victim")
	if c.Evil == "evil.co.test." && rapid.Bool().Draw(rt, "victimsibling") {
		c.Victim = "victim.co.test." // a sibling below the same skipped level
	}
	specs := []vfworld.ZoneSpec{
		{Apex: ".", Signed: true},
		{Apex: "test.", Signed: true, Servers: 2},
		{Apex: "org.", Signed: rapid.Bool().Draw(rt, "orgsigned")},
		{Apex: vfC07Evil, Servers: 2, Owners: map[string][]uint16{"a." + vfC07Evil: {dns.TypeA}, "b." + vfC07Evil: {dns.TypeA, dns.TypeTXT}, "c." + vfC07Evil: {dns.TypeCNAME}},
			Targets: map[string]string{"c." + vfC07Evil: "t." + c.Victim}},
		{Apex: "sub." + vfC07Evil, Owners: map[string][]uint16{"a.sub." + vfC07Evil: {dns.TypeA}}},
		{Apex: "x" + vfC07Evil, Owners: map[string][]uint16{"www.x" + vfC07Evil: {dns.TypeA}}},
		{Apex: c.Victim, Signed: c.VictimSecure, Owners: map[string][]uint16{"www." + c.Victim: {dns.TypeA}, "mail." + c.Victim: {dns.TypeA, dns.TypeMX}, "t." + c.Victim: {dns.TypeA, dns.TypeTXT}}},
	}
	skipLevel := c.Evil == "evil.co.test." && rapid.Bool().Draw(rt, "skiplevelopening")
	if c.Glueless = rapid.IntRange(0, 2).Draw(rt, "glueless") == 0 || skipLevel; c.Glueless {
		specs[len(specs)-1].NSHost = "ns9.x" + vfC07Evil
	}
	if c.Victim == "victim.org." && c.VictimSecure {
		specs[2].Signed = true
	}
	c.W = vfworld.Build(specs)
	n := rapid.IntRange(1, 3).Draw(rt, "nattacks")
	for i := 0; i < n; i++ {
		c.Attacks = append(c.Attacks, rapid.SampledFrom(vfC07Attacks).Draw(rt, "attack"))
	}
	if skipLevel {
		// the cut to the attacker's zone skips a level and is then found cached: its servers, asked below their own
		// sub-delegation, hand out an address for a name server host that is their sibling (the glueless victim's)
		c.Attacks = []string{"glue-lookalike"}
		c.Steps = append(c.Steps, vfC07Step{Name: "a." + vfC07Evil, Qtype: dns.TypeA}, vfC07Step{Name: "a.sub." + vfC07Evil, Qtype: dns.TypeA},
			vfC07Step{Name: "x.sub." + vfC07Evil, Qtype: dns.TypeA, Wire: rapid.Bool().Draw(rt, "wire")})
	}
	evilQ := []string{"w.dept." + vfC07Evil, "v.w.dept." + vfC07Evil, "a." + vfC07Evil, "b." + vfC07Evil, "c." + vfC07Evil, "nx." + vfC07Evil, "a.sub." + vfC07Evil, "x.sub." + vfC07Evil, vfC07Evil}
	victimQ := []string{"t." + c.Victim, "www." + c.Victim, "mail." + c.Victim, c.Victim, "nx." + c.Victim, "test.", "ns9.x" + vfC07Evil, "www.x" + vfC07Evil}
	steps := rapid.IntRange(2, 7).Draw(rt, "nsteps")
	for i := 0; i < steps; i++ {
		if i > 0 && rapid.IntRange(0, 6).Draw(rt, "sleep") == 0 {
			c.Steps = append(c.Steps, vfC07Step{Sleep: time.Duration(rapid.SampledFrom([]int{1, 61, 301, 3601}).Draw(rt, "sleepsec")) * time.Second})
			continue
		}
		st := vfC07Step{CD: rapid.IntRange(0, 2).Draw(rt, "cd") == 0, Wire: rapid.Bool().Draw(rt, "wire")}
		if rapid.IntRange(0, 9).Draw(rt, "side") < 5 {
			st.Name = rapid.SampledFrom(evilQ).Draw(rt, "evilq")
			st.Qtype = rapid.SampledFrom([]uint16{dns.TypeA, dns.TypeA, dns.TypeTXT, dns.TypeNS, dns.TypeMX}).Draw(rt, "qtype")
		} else {
			st.Name = rapid.SampledFrom(victimQ).Draw(rt, "victimq")
			st.Qtype = rapid.SampledFrom([]uint16{dns.TypeA, dns.TypeA, dns.TypeA, dns.TypeNS, dns.TypeMX, dns.TypeSOA}).Draw(rt, "qtype")
		}
		c.Steps = append(c.Steps, st)
	}
	// every attack aims at t.<victim>: always ask for it afterwards, the way a later client would
	c.Steps = append(c.Steps, vfC07Step{Name: "t." + c.Victim, Qtype: dns.TypeA, Wire: rapid.Bool().Draw(rt, "finalwire")},
		vfC07Step{Name: "t." + c.Victim, Qtype: dns.TypeA, CD: true, Wire: rapid.Bool().Draw(rt, "finalwire2")})
	return c
}

type vfC07Result struct {
	Violation string
	Trace     []string
	Stats     map[string]int
}

func vfC07Run(t *testing.T, dir string, c *vfC07Case) (res vfC07Result) {
	res.Stats = map[string]int{}
	if c.Evil != "" {
		vfC07Evil = c.Evil
	}
	fail := func(f string, a ...any) {
		if res.Violation == "" {
			res.Violation = fmt.Sprintf(f, a...)
		}
	}
	synctest.Test(t, func(t *testing.T) {
		time.Sleep(time.Until(vfworld.Epoch))
		cfg := vfResolverConfig(dir, c.W)
		cfg.QnameMinLevel = c.QMin
		rw := vfStartResolver(cfg, c.W)
		defer rw.Close()
		evil := map[string]bool{}
		for _, z := range []string{vfC07Evil, "sub." + vfC07Evil} {
			for _, ip := range c.W.Zones[z].Servers {
				evil[ip] = true
			}
		}
		attackN := 0
		rw.Net.Script = func(p vfworld.Packet, n int, req, resp *dns.Msg, info vfworld.Info) vfworld.Action {
			if c.Spoof && !evil[p.Addr] && strings.HasPrefix(p.Proto, "udp") && info.Zone != nil && info.Zone.Apex == c.Victim && len(req.Question) == 1 {
				// the right question, the victim's address as source, poisoned data - but the attacker cannot see the
				// transaction ID and guesses: 0, all ones, neighbours of the real one (a guess that happens to be right
				// is not sent: that is luck, not a flaw)
				var raws [][]byte
				for _, id := range []uint16{0, 0xffff, req.Id + 1, req.Id ^ 0x00ff, 1} {
					if id == req.Id {
						continue
					}
					f := new(dns.Msg)
					f.SetReply(req)
					f.Id, f.Authoritative = id, true
					f.Answer = []dns.RR{vfC07A(req.Question[0].Name, vfC07Marker(9))}
					if b, err := f.Pack(); err == nil {
						raws = append(raws, b)
					}
				}
				res.Stats["spoofed-bursts"]++
				return vfworld.Action{Raw: raws}
			}
			if !evil[p.Addr] || info.Zone == nil || info.Zone.Apex != vfC07Evil {
				return vfworld.Action{}
			}
			a := c.Attacks[attackN%len(c.Attacks)]
			attackN++
			res.Stats["attack:"+a]++
			return vfworld.Action{Raw: vfC07Decorate(c, a, attackN, p.Addr, req, resp, p.Proto)}
		}
		inEvil := func(name string) bool { return vfmodel.IsSubdomain(strings.ToLower(name), vfC07Evil) }
		for i, st := range c.Steps {
			if st.Name == "" {
				time.Sleep(st.Sleep)
				res.Trace = append(res.Trace, fmt.Sprintf("t=%s sleep %s", time.Since(vfworld.Epoch), st.Sleep))
				continue
			}
			q := &vfgen.QuerySpec{ID: uint16(200 + i), Name: st.Name, Qtype: st.Qtype, Qclass: dns.ClassINET, RD: true, CD: st.CD, EDNS: true, DO: true, UDPSize: 1232}
			n0, a0 := rw.Net.Count(), attackN
			rep := rw.Ask(q, "udp", net.IPv4(203, 0, 113, 5), st.Wire)
			synctest.Wait()
			line := fmt.Sprintf("t=%s %s/%s cd=%v -> ", time.Since(vfworld.Epoch), st.Name, dns.TypeToString[st.Qtype], st.CD)
			if rep.Msg == nil {
				res.Trace = append(res.Trace, line+"no reply")
				continue
			}
			m := rep.Msg
			line += fmt.Sprintf("%s an=%d (upstream %d, attacked responses %d)", dns.RcodeToString[m.Rcode], len(m.Answer), rw.Net.Count()-n0, attackN-a0)
			res.Trace = append(res.Trace, line)
			// O2: what the attacker's addresses were asked
			for _, p := range rw.Net.Log()[n0:] {
				if evil[p.Addr] && !inEvil(p.Name) {
					fail("step %d: the attacker's server %s was asked %s/%s, a name outside its zone", i, p.Addr, p.Name, dns.TypeToString[p.Qtype])
				}
				// O6: the look-alike zone's own server is nobody's delegate: it hears of the attacker's names only through
				// the off-path referral that lent its address to a made-up host
				if p.Addr == c.W.Zones["x"+vfC07Evil].Servers[0] && inEvil(p.Name) {
					fail("step %d: the server %s (serving %s) was asked %s/%s: a referral to a name that is not on the way to the question was followed", i, p.Addr, "x"+vfC07Evil, p.Name, dns.TypeToString[p.Qtype])
				}
				// O5: an honest server is only asked about names at or below a zone it serves (a referral that is not on
				// the way to the question sends it questions it has nothing to do with)
				// (names in the attacker's own zones are exempt: it may delegate them to any host it likes)
				if zs, ok := c.W.Addrs[p.Addr]; ok && !inEvil(p.Name) {
					inside := false
					for _, z := range zs {
						if vfmodel.IsSubdomain(strings.ToLower(p.Name), z.Apex) {
							inside = true
						}
					}
					if !inside {
						fail("step %d: the server %s (serving %s) was asked %s/%s, which lies in none of its zones", i, p.Addr, zs[0].Apex, p.Name, dns.TypeToString[p.Qtype])
					}
				}
			}
			// O1: nothing foreign in the answer; honest-zone records are the published ones
			// (the authority section of the attacker's own negative answers may name a foreign SOA: that only sets the
			// negative TTL of the attacker's own name and is outside "relayed inside the answer", as is the additional
			// section, which sdns passes through on negative answers; marker addresses are looked for in answer and authority)
			for si, sec := range [][]dns.RR{m.Answer, m.Ns} {
				for _, rr := range sec {
					if rr.Header().Rrtype == dns.TypeRRSIG || rr.Header().Rrtype == dns.TypeOPT {
						continue
					}
					owner := strings.ToLower(rr.Header().Name)
					if a, ok := rr.(*dns.A); ok && a.A[0] == 6 && a.A[1] == 6 && a.A[2] == 6 && !inEvil(owner) {
						fail("step %d: reply to %s/%s carries the attacker's record %q", i, st.Name, dns.TypeToString[st.Qtype], rr.String())
					}
					if inEvil(owner) || si != 0 {
						continue
					}
					if !c.W.Published(rr) {
						// a synthesised CNAME for a published DNAME is fine; nothing else is generated here
						fail("step %d: reply to %s/%s carries %q, owned outside the attacker's zone and published by nobody", i, st.Name, dns.TypeToString[st.Qtype], rr.String())
					}
				}
			}
			// O4: victim questions get the victim's own truth
			if !inEvil(st.Name) && m.Rcode != dns.RcodeServerFailure {
				g := c.W.Resolve(st.Name, st.Qtype)
				res.Stats["victim-question"]++
				if attackN > 0 {
					res.Stats["victim-question-after-attack"]++
				}
				want := dns.RcodeSuccess
				if g.Out.Kind == "nxdomain" {
					want = dns.RcodeNameError
				}
				if m.Rcode != want {
					fail("step %d: %s/%s answered %s, the zone's own servers say %s", i, st.Name, dns.TypeToString[st.Qtype], dns.RcodeToString[m.Rcode], dns.RcodeToString[want])
				}
				if g.Out.Kind == "answer" && !g.Out.CNAME {
					for _, r := range g.Zone.RRset(g.Name, st.Qtype) {
						found := false
						for _, rr := range m.Answer {
							if vfNormRR(rr) == vfNormRR(r) {
								found = true
							}
						}
						if !found {
							fail("step %d: %s/%s lacks the published %q", i, st.Name, dns.TypeToString[st.Qtype], r.String())
						}
					}
				}
			}
		}
		// O3: nothing unroutable or unknown was dialled
		for _, d := range rw.Net.Dials() {
			host := d[strings.Index(d, "/")+1:]
			ip := net.ParseIP(host)
			if ip == nil || ip.IsLoopback() || ip.IsUnspecified() || strings.HasPrefix(host, "6.6.6.") {
				// loopback glue, or an address that only ever appeared in records forged outside the sender's zone
				// (addresses an owner's own zone publishes may be dialled, whatever they lead to)
				fail("sdns dialled %s: loopback, or an address that exists only in out-of-bailiwick records", d)
			}
		}
		res.Stats["attacked-responses"] = attackN
	})
	return
}

func TestVerifC07Bailiwick(t *testing.T) {
	defer vfstat.Flush()
	vfstat.Quiet()
	const U = "C07.bailiwick"
	dir, _ := os.MkdirTemp(os.Getenv("VERIF_WORKDIR"), "c07")
	defer os.RemoveAll(dir)
	rapid.Check(t, func(rt *rapid.T) {
		c := vfC07Gen(rt)
		r := vfC07Run(t, dir, c)
		if r.Violation != "" {
			rt.Fatalf("%s\n  attacks=%v victim=%s secure=%v qmin=%d\n  history:\n    %s\n  world:\n%s", r.Violation, c.Attacks, c.Victim, c.VictimSecure, c.QMin, strings.Join(r.Trace, "\n    "), c.W.Describe())
		}
		vfstat.Eval(U, 1)
		for k, n := range r.Stats {
			if n > 0 {
				vfstat.Class(U, k)
			}
		}
		if c.VictimSecure {
			vfstat.Class(U, "victim-signed")
		}
		if c.Glueless {
			vfstat.Class(U, "victim-glueless")
		}
		if r.Stats["attacked-responses"] > 0 && r.Stats["victim-question-after-attack"] > 0 {
			var shape []string
			for _, s := range c.Steps {
				shape = append(shape, fmt.Sprint(s.Name, s.Qtype, s.CD, s.Sleep))
			}
			vfstat.NonTrivial(U, fmt.Sprint(c.Attacks, c.Victim, c.VictimSecure, c.QMin, shape))
			tr := r.Trace
			if len(tr) > 8 {
				tr = tr[:8]
			}
			vfstat.Sample(U, fmt.Sprint(c.Attacks), map[string]any{"attacks": c.Attacks, "victim": c.Victim, "history": tr})
		}
	})
}

// TestVerifC07Debug replays one attack with its trace (VERIF_LOG=1); skipped otherwise.
func TestVerifC07Debug(t *testing.T) {
	if os.Getenv("VERIF_LOG") == "" {
		t.Skip("debug helper")
	}
	var c *vfC07Case
	rapid.Check(t, func(rt *rapid.T) {
		if c == nil {
			c = vfC07Gen(rt)
		}
	})
	c.Attacks = []string{os.Getenv("VERIF_ATTACK")}
	c.QMin = 0
	c.Steps = []vfC07Step{{Name: "a." + vfC07Evil, Qtype: dns.TypeA}, {Name: "t." + c.Victim, Qtype: dns.TypeA}, {Name: "www." + c.Victim, Qtype: dns.TypeA}, {Name: "t.test.", Qtype: dns.TypeA}}
	r := vfC07Run(t, t.TempDir(), c)
	t.Logf("victim=%s glueless=%v violation=%q\n%s", c.Victim, c.Glueless, r.Violation, strings.Join(r.Trace, "\n"))
}
