package server

// C01 — validating clients get only authenticated data; AD implies authentic.
// A generated signed namespace (internal/vfworld) is served by in-memory authorities; sdns runs its
// complete default chain against it under a virtual clock. A tamper script edits the honest
// responses of one zone (all of them: "decisive", or one kind of response). Every client reply is
// judged against the namespace's ground truth.

import (
	"fmt"
	"net"
	"os"
	"sort"
	"strings"
	"testing"
	"testing/synctest"
	"time"

	"github.com/miekg/dns"
	"github.com/semihalev/sdns/internal/vfgen"
	"github.com/semihalev/sdns/internal/vfmodel"
	"github.com/semihalev/sdns/internal/vfstat"
	"github.com/semihalev/sdns/internal/vfworld"
	"pgregory.net/rapid"
)

type vfC01Step struct {
	Name         string
	Qtype        uint16
	DO, CD, AD   bool
	EDNS         bool
	Sleep        time.Duration
	Wire         bool
	Proto        string
	ClientOctet4 byte
}

type vfC01Tamper struct {
	DropDS  bool   // explicit DS questions get no reply from anyone (the attacker also blocks the proof of signedness)
	Variant int    // edit-specific flavour
	Zone    string // apex of the zone whose responses are edited
	Kind    string // "" = every response of the zone, else only this kind (vfworld.Info.Kind)
	Edit    string
	Foreign string // apex of the zone that signs instead (foreign-signer)
}

var vfC01ZoneEdits = []string{"empty", "corrupt-sigs", "strip-sigs", "strip-dnssec", "expired", "not-yet-valid", "foreign-signer", "rogue-key", "rogue-key"}
var vfC01KindEdits = []string{"wildcard-replay", "wildcard-replay", "empty", "flip-rdata", "flip-one", "flip-one", "ent-signer", "wildcard-nsec-rename", "wildcard-nsec-rename", "corrupt-sigs", "strip-sigs", "expired", "drop-denial", "flip-rcode", "strip-ds", "swap-ds", "inject-foreign", "inject-foreign", "inject-foreign", "replace-unsigned", "foreign-signer", "sibling-denial"}

func (tm *vfC01Tamper) decisive() bool { return tm != nil && tm.Kind == "" }

type vfC01Case struct {
	W        *vfworld.World
	NoAnchor bool
	QMin     int
	Tamper   *vfC01Tamper
	Steps    []vfC01Step
}

func vfC01IsDNSSEC(t uint16) bool {
	return t == dns.TypeRRSIG || t == dns.TypeNSEC || t == dns.TypeNSEC3 || t == dns.TypeDS || t == dns.TypeDNSKEY
}

// vfC01Groups splits a section into RRsets (RRSIGs apart).
func vfC01Groups(rrs []dns.RR) (sets [][]dns.RR, sigs []*dns.RRSIG, rest []dns.RR) {
	idx := map[string]int{}
	for _, rr := range rrs {
		switch v := rr.(type) {
		case *dns.RRSIG:
			sigs = append(sigs, v)
		case *dns.OPT:
			rest = append(rest, rr)
		default:
			k := strings.ToLower(rr.Header().Name) + "/" + fmt.Sprint(rr.Header().Rrtype)
			if i, ok := idx[k]; ok {
				sets[i] = append(sets[i], rr)
			} else {
				idx[k] = len(sets)
				sets = append(sets, []dns.RR{rr})
			}
		}
	}
	return
}

// vfC01Apply edits resp in place; reports whether anything changed.
func vfC01Apply(w *vfworld.World, tm *vfC01Tamper, resp *dns.Msg, info vfworld.Info) bool {
	z := info.Zone
	changed := false
	do := false
	for _, rr := range resp.Extra {
		if opt, ok := rr.(*dns.OPT); ok {
			do = opt.Do()
		}
	}
	mapSigs := func(f func(s *dns.RRSIG)) {
		for _, sec := range [][]dns.RR{resp.Answer, resp.Ns} {
			for _, rr := range sec {
				if s, ok := rr.(*dns.RRSIG); ok {
					f(s)
					changed = true
				}
			}
		}
	}
	filter := func(keep func(rr dns.RR) bool) {
		for _, sec := range []*[]dns.RR{&resp.Answer, &resp.Ns} {
			var out []dns.RR
			for _, rr := range *sec {
				if keep(rr) {
					out = append(out, rr)
				} else {
					changed = true
				}
			}
			*sec = out
		}
	}
	resign := func(signer *vfworld.SZone, incep, expir time.Time) {
		for _, sec := range []*[]dns.RR{&resp.Answer, &resp.Ns} {
			sets, sigs, rest := vfC01Groups(*sec)
			if len(sigs) == 0 {
				continue
			}
			covered := map[string]*dns.RRSIG{}
			for _, s := range sigs {
				covered[strings.ToLower(s.Hdr.Name)+"/"+fmt.Sprint(s.TypeCovered)] = s
			}
			var out []dns.RR
			for _, set := range sets {
				out = append(out, set...)
				k := strings.ToLower(set[0].Header().Name) + "/" + fmt.Sprint(set[0].Header().Rrtype)
				old := covered[k]
				if old == nil {
					continue
				}
				// sign the published form (wildcard owner restored through the label count)
				cp := make([]dns.RR, len(set))
				for i, r := range set {
					cp[i] = dns.Copy(r)
					if int(old.Labels) < dns.CountLabel(r.Header().Name) {
						ls := dns.SplitDomainName(r.Header().Name)
						cp[i].Header().Name = "*." + strings.Join(ls[len(ls)-int(old.Labels):], ".") + "."
					}
				}
				if ns := signer.SignWindow(cp, incep, expir); ns != nil {
					ns.Hdr.Name = set[0].Header().Name
					out = append(out, ns)
					changed = true
				}
			}
			*sec = append(out, rest...)
		}
	}
	alter := func(rr dns.RR) bool {
		switch v := rr.(type) {
		case *dns.A:
			v.A = net.IPv4(6, 6, 6, 11).To4()
		case *dns.AAAA:
			v.AAAA = net.ParseIP("2001:db8:bad::11")
		case *dns.TXT:
			v.Txt = []string{"altered"}
		case *dns.MX:
			v.Mx = "altered.org."
		case *dns.CNAME:
			v.Target = "t.org."
		case *dns.NSEC:
			v.NextDomain = "zzzzzz." + v.NextDomain
			v.TypeBitMap = []uint16{dns.TypeRRSIG, dns.TypeNSEC}
		case *dns.NSEC3:
			v.TypeBitMap = []uint16{dns.TypeRRSIG}
			if len(v.NextDomain) > 2 {
				v.NextDomain = "vv" + v.NextDomain[2:]
			}
		case *dns.SOA:
			v.Minttl, v.Serial = 86400, v.Serial+7
		default:
			return false
		}
		return true
	}
	switch tm.Edit {
	case "wildcard-nsec-rename":
		// a positive answer is replaced by a "NODATA" built from the signer's own records: the SOA, and the NSEC of the
		// sibling wildcard printed under the question's name - its signature (Labels below the owner's label count) still
		// verifies as a wildcard expansion, and its type bitmap lacks the type asked for
		if z == nil || !z.Signed || z.NSEC3 || info.Out.Kind != "answer" || info.Out.Wildcard || len(resp.Question) != 1 {
			break
		}
		q := resp.Question[0]
		qn := strings.ToLower(q.Name)
		ls := dns.SplitDomainName(qn)
		if len(ls) <= len(dns.SplitDomainName(z.Apex)) {
			break
		}
		wc := "*." + strings.Join(ls[1:], ".") + "."
		if z.Owners[wc] == nil || z.Owners[wc][q.Qtype] {
			break
		}
		var wn *dns.NSEC
		for _, n := range z.NSECs() {
			if strings.EqualFold(n.Hdr.Name, wc) {
				wn = n
			}
		}
		soa := z.RRset(z.Apex, dns.TypeSOA)
		if wn == nil || len(soa) == 0 {
			break
		}
		nsig, ssig := z.Sign([]dns.RR{wn}), z.Sign(soa)
		if nsig == nil || ssig == nil {
			break
		}
		forged := dns.Copy(wn)
		forged.Header().Name = qn
		nsig.Hdr.Name = qn
		resp.Answer = nil
		resp.Ns = append(append([]dns.RR{}, soa...), ssig, forged, nsig)
		changed = true
	case "flip-one":
		// one RRset of several is altered and keeps its (now wrong) signature; the others stay intact. Which one:
		// by the order (owner, type) a validator might walk them in - mostly not the first
		type ref struct {
			key string
			rrs []dns.RR
		}
		var sets []ref
		for _, sec := range [][]dns.RR{resp.Answer, resp.Ns} {
			groups, _, _ := vfC01Groups(sec)
			for _, g := range groups {
				if z != nil && vfmodel.IsSubdomain(g[0].Header().Name, z.Apex) && !(g[0].Header().Rrtype == dns.TypeNS) {
					sets = append(sets, ref{strings.ToLower(g[0].Header().Name) + fmt.Sprintf("/%05d", g[0].Header().Rrtype), g})
				}
			}
		}
		if len(sets) < 2 {
			break
		}
		sort.Slice(sets, func(i, j int) bool { return sets[i].key < sets[j].key })
		pick := len(sets) - 1 - tm.Variant%len(sets) // variant 0: the last one
		for _, rr := range sets[pick].rrs {
			if alter(rr) {
				changed = true
			}
		}
	case "ent-signer":
		// altered data under signatures that name an ancestor of the owner inside the zone which is no zone cut (and so
		// validly has no DS): the claimed signer cannot vouch for anything, and the real zone is signed
		if z == nil || !z.Signed || len(resp.Answer) == 0 {
			break
		}
		owner := strings.ToLower(resp.Answer[0].Header().Name)
		ls := dns.SplitDomainName(owner)
		if len(ls) < len(dns.SplitDomainName(z.Apex))+2 {
			break
		}
		claimed := strings.Join(ls[1:], ".") + "."
		for _, rr := range resp.Answer {
			if rr.Header().Rrtype != dns.TypeRRSIG {
				alter(rr)
			}
		}
		mapSigs(func(s *dns.RRSIG) { s.SignerName = claimed })
		changed = true
	case "rogue-key":
		// the attacker adds a key of their own to the zone's DNSKEY RRset, signs that RRset with it, and signs altered
		// data with it: no DS vouches for the key, and the DNSKEY RRset carries no signature by a key a DS vouches for
		if z == nil || !z.Signed {
			break
		}
		flags := uint16(257)
		if tm.Variant%2 == 1 {
			flags = 256
		}
		rogue := vfworld.NewKey(z.Apex, dns.ECDSAP256SHA256, flags, 77)
		rz := &vfworld.SZone{Zone: z.Zone, Signed: true, KSK: rogue, ZSK: rogue}
		if info.Kind == "dnskey" {
			hasKeys := false
			for _, rr := range resp.Answer {
				if rr.Header().Rrtype == dns.TypeDNSKEY {
					hasKeys = true
				}
			}
			if hasKeys {
				k := dns.Copy(rogue.RR)
				k.Header().Ttl = resp.Answer[0].Header().Ttl
				resp.Answer = append([]dns.RR{k}, resp.Answer...)
				resign(rz, z.Incep, z.Expir)
				changed = true
			}
			break
		}
		altered := false
		for _, rr := range resp.Answer {
			switch v := rr.(type) {
			case *dns.A:
				v.A, altered = net.IPv4(6, 6, 6, 9).To4(), true
			case *dns.AAAA:
				v.AAAA, altered = net.ParseIP("2001:db8:bad::9"), true
			case *dns.TXT:
				v.Txt, altered = []string{"rogue"}, true
			case *dns.MX:
				v.Mx, altered = "rogue.org.", true
			}
		}
		if altered {
			resign(rz, z.Incep, z.Expir)
			changed = true
		}
	case "wildcard-replay":
		// RFC 4035 §5.3.4 replay: answer for an existing name with the sibling wildcard's RRset and its genuine
		// signature, padded (variant-wise) with a forged denial of the name: none / unsigned NSEC owned by the parent
		// zone / unsigned NSEC owned inside the zone / the zone's genuine NSEC(3) records, which cannot deny it
		if z == nil || !z.Signed || info.Out.Kind != "answer" || info.Out.Wildcard || len(resp.Question) != 1 {
			break
		}
		q := resp.Question[0]
		qn := strings.ToLower(q.Name)
		ls := dns.SplitDomainName(qn)
		if len(ls) <= len(dns.SplitDomainName(z.Apex)) {
			break
		}
		parent := strings.Join(ls[1:], ".") + "."
		wc := "*." + parent
		qt := q.Qtype
		if info.Out.CNAME {
			qt = dns.TypeCNAME
		}
		set := z.RRset(wc, qt)
		if len(set) == 0 {
			break
		}
		sig := z.Sign(set)
		resp.Answer = nil
		for _, r := range set {
			c := dns.Copy(r)
			c.Header().Name = qn
			resp.Answer = append(resp.Answer, c)
		}
		if sig != nil {
			sig.Hdr.Name = qn
			resp.Answer = append(resp.Answer, sig)
		}
		resp.Ns = nil
		forged := func(owner string) dns.RR {
			return &dns.NSEC{Hdr: dns.RR_Header{Name: owner, Rrtype: dns.TypeNSEC, Class: dns.ClassINET, Ttl: 300}, NextDomain: "zzzz." + parent, TypeBitMap: []uint16{dns.TypeNS, dns.TypeRRSIG, dns.TypeNSEC}}
		}
		switch tm.Variant % 4 {
		case 1:
			if z.Parent != nil {
				resp.Ns = append(resp.Ns, forged(z.Parent.Apex))
			}
		case 2:
			resp.Ns = append(resp.Ns, forged(z.Apex))
		case 3:
			if z.NSEC3 {
				for _, n := range z.NSEC3s() {
					resp.Ns = append(resp.Ns, dns.Copy(n), z.Sign([]dns.RR{n}))
				}
			} else {
				for _, n := range z.NSECs() {
					resp.Ns = append(resp.Ns, dns.Copy(n), z.Sign([]dns.RR{n}))
				}
			}
		}
		changed = true
	case "empty":
		if len(resp.Answer)+len(resp.Ns) > 0 {
			resp.Answer, resp.Ns = nil, nil
			changed = true
		}
	case "corrupt-sigs":
		mapSigs(func(s *dns.RRSIG) {
			b := []byte(s.Signature)
			if len(b) > 10 {
				if b[10] == 'A' {
					b[10] = 'B'
				} else {
					b[10] = 'A'
				}
			}
			s.Signature = string(b)
		})
	case "strip-sigs":
		filter(func(rr dns.RR) bool { return rr.Header().Rrtype != dns.TypeRRSIG })
	case "strip-dnssec":
		filter(func(rr dns.RR) bool {
			return !vfC01IsDNSSEC(rr.Header().Rrtype) || info.Kind == "dnskey" && rr.Header().Rrtype == dns.TypeDNSKEY
		})
	case "expired":
		if z != nil {
			resign(z, vfworld.Epoch.Add(-48*time.Hour), vfworld.Epoch.Add(-24*time.Hour))
		}
	case "not-yet-valid":
		if z != nil {
			resign(z, vfworld.Epoch.Add(20*24*time.Hour), vfworld.Epoch.Add(40*24*time.Hour))
		}
	case "foreign-signer":
		if f := w.Zones[tm.Foreign]; f != nil && f.Signed {
			resign(f, f.Incep, f.Expir)
		}
	case "flip-rdata":
		for _, rr := range resp.Answer {
			switch v := rr.(type) {
			case *dns.A:
				v.A = net.IPv4(6, 6, 6, 6).To4()
				changed = true
			case *dns.AAAA:
				v.AAAA = net.ParseIP("2001:db8:bad::6")
				changed = true
			case *dns.TXT:
				v.Txt = []string{"evil"}
				changed = true
			case *dns.CNAME:
				v.Target = "t.org."
				changed = true
			case *dns.MX:
				v.Mx = "evil.org."
				changed = true
			}
		}
	case "drop-denial":
		filter(func(rr dns.RR) bool {
			t := rr.Header().Rrtype
			if t == dns.TypeNSEC || t == dns.TypeNSEC3 {
				return false
			}
			if s, ok := rr.(*dns.RRSIG); ok && (s.TypeCovered == dns.TypeNSEC || s.TypeCovered == dns.TypeNSEC3) {
				return false
			}
			return true
		})
	case "flip-rcode":
		if len(resp.Answer) == 0 {
			if resp.Rcode == dns.RcodeNameError {
				resp.Rcode = dns.RcodeSuccess
			} else if resp.Rcode == dns.RcodeSuccess && info.Kind == "nodata" {
				resp.Rcode = dns.RcodeNameError
			}
			changed = true
		}
	case "strip-ds":
		filter(func(rr dns.RR) bool {
			if rr.Header().Rrtype == dns.TypeDS {
				return false
			}
			if s, ok := rr.(*dns.RRSIG); ok && s.TypeCovered == dns.TypeDS {
				return false
			}
			return true
		})
	case "swap-ds":
		for _, sec := range [][]dns.RR{resp.Answer, resp.Ns} {
			for _, rr := range sec {
				if ds, ok := rr.(*dns.DS); ok {
					ds.Digest = strings.Repeat("cd", 32)
					changed = true
				}
			}
		}
	case "inject-foreign":
		evil := &dns.A{Hdr: dns.RR_Header{Name: "t.org.", Rrtype: dns.TypeA, Class: dns.ClassINET, Ttl: 3600}, A: net.IPv4(6, 6, 6, 6).To4()}
		evil2 := &dns.A{Hdr: dns.RR_Header{Name: resp.Question[0].Name, Rrtype: dns.TypeA, Class: dns.ClassINET, Ttl: 3600}, A: net.IPv4(6, 6, 6, 7).To4()}
		if tm.Variant%2 == 1 {
			// padding in the authority section only: an unsigned foreign RRset, and an unsigned in-zone one
			resp.Ns = append(resp.Ns, dns.Copy(evil))
			if z != nil && tm.Variant%4 == 1 {
				resp.Ns = append(resp.Ns, &dns.A{Hdr: dns.RR_Header{Name: "pad." + z.Apex, Rrtype: dns.TypeA, Class: dns.ClassINET, Ttl: 3600}, A: net.IPv4(6, 6, 6, 5).To4()})
			}
			changed = true
			break
		}
		resp.Answer = append(resp.Answer, evil)
		resp.Ns = append(resp.Ns, dns.Copy(evil))
		resp.Extra = append([]dns.RR{dns.Copy(evil)}, resp.Extra...)
		if info.Kind == "nodata" || info.Kind == "nxdomain" || info.Kind == "referral" {
			resp.Answer = append(resp.Answer, evil2)
		}
		changed = true
	case "replace-unsigned":
		if len(resp.Answer) > 0 {
			filter(func(rr dns.RR) bool { return rr.Header().Rrtype != dns.TypeRRSIG })
			for _, rr := range resp.Answer {
				if a, ok := rr.(*dns.A); ok {
					a.A = net.IPv4(6, 6, 6, 8).To4()
				}
			}
			changed = true
		}
	case "sibling-denial":
		// replace this zone's denial records by another zone's genuine, validly signed ones
		if f := w.Zones[tm.Foreign]; f != nil && f.Signed && do && (info.Kind == "nodata" || info.Kind == "nxdomain" || info.Kind == "wildcard") {
			filter(func(rr dns.RR) bool {
				t := rr.Header().Rrtype
				if t == dns.TypeNSEC || t == dns.TypeNSEC3 {
					return false
				}
				if s, ok := rr.(*dns.RRSIG); ok && (s.TypeCovered == dns.TypeNSEC || s.TypeCovered == dns.TypeNSEC3) {
					return false
				}
				return true
			})
			if f.NSEC3 {
				for _, n := range f.NSEC3s() {
					resp.Ns = append(resp.Ns, dns.Copy(n), f.Sign([]dns.RR{n}))
				}
			} else {
				for _, n := range f.NSECs() {
					resp.Ns = append(resp.Ns, dns.Copy(n), f.Sign([]dns.RR{n}))
				}
			}
			changed = true
		}
	}
	return changed
}

type vfC01Obs struct {
	Step    int
	Reply   *dns.Msg
	NoReply bool
	Fired   int // tampered responses delivered during this step
	Up      int
	Truth   vfworld.GTruth
	Line    string
}

func vfC01Run(t *testing.T, dir string, c *vfC01Case) (obs []vfC01Obs, firedTotal int) {
	synctest.Test(t, func(t *testing.T) {
		time.Sleep(time.Until(vfworld.Epoch))
		cfg := vfResolverConfig(dir, c.W)
		if c.NoAnchor {
			cfg.RootKeys = nil
		}
		cfg.QnameMinLevel = c.QMin
		rw := vfStartResolver(cfg, c.W)
		defer rw.Close()
		fired := 0
		if c.Tamper != nil {
			rw.Net.Script = func(p vfworld.Packet, n int, req, resp *dns.Msg, info vfworld.Info) vfworld.Action {
				if c.Tamper.DropDS && p.Qtype == dns.TypeDS {
					return vfworld.Action{Drop: true}
				}
				if info.Zone == nil || info.Zone.Apex != c.Tamper.Zone || (c.Tamper.Kind != "" && c.Tamper.Kind != info.Kind) {
					return vfworld.Action{}
				}
				if vfC01Apply(c.W, c.Tamper, resp, info) {
					fired++
				}
				return vfworld.Action{}
			}
		}
		for i, st := range c.Steps {
			if st.Name == "" {
				time.Sleep(st.Sleep)
				continue
			}
			q := &vfgen.QuerySpec{ID: uint16(100 + i), Name: st.Name, Qtype: st.Qtype, Qclass: dns.ClassINET, RD: true, CD: st.CD, AD: st.AD, EDNS: st.EDNS, DO: st.DO && st.EDNS, UDPSize: 1232}
			f0, u0 := fired, rw.Net.Count()
			rep := rw.Ask(q, st.Proto, net.IPv4(203, 0, 113, st.ClientOctet4), st.Wire)
			synctest.Wait()
			o := vfC01Obs{Step: i, Reply: rep.Msg, NoReply: rep.Msg == nil, Fired: fired - f0, Up: rw.Net.Count() - u0, Truth: c.W.Resolve(st.Name, st.Qtype)}
			o.Line = fmt.Sprintf("t=%s %s/%s do=%v cd=%v ad=%v edns=%v -> ", time.Since(vfworld.Epoch), st.Name, dns.TypeToString[st.Qtype], st.DO && st.EDNS, st.CD, st.AD, st.EDNS)
			if rep.Msg != nil {
				o.Line += fmt.Sprintf("%s ad=%v an=%d ns=%d", dns.RcodeToString[rep.Msg.Rcode], rep.Msg.AuthenticatedData, len(rep.Msg.Answer), len(rep.Msg.Ns))
			} else {
				o.Line += "no reply " + rep.Err
			}
			o.Line += fmt.Sprintf(" (upstream %d, tampered %d)", o.Up, o.Fired)
			obs = append(obs, o)
		}
		firedTotal = fired
	})
	return
}

// vfC01PathZones lists the zones a correct resolution of the question consults.
func vfC01PathZones(w *vfworld.World, g vfworld.GTruth, qname string) map[string]bool {
	out := map[string]bool{}
	names := []string{strings.ToLower(qname)}
	for _, s := range g.Steps {
		names = append(names, s.Target)
	}
	for _, n := range names {
		for _, z := range w.Zones {
			if vfmodel.IsSubdomain(n, z.Apex) {
				// only zones actually delegated on the way (not occluded siblings)
				out[z.Apex] = true
			}
		}
	}
	return out
}

func vfC01HasEDE(m *dns.Msg) bool {
	if opt := m.IsEdns0(); opt != nil {
		for _, o := range opt.Option {
			if _, ok := o.(*dns.EDNS0_EDE); ok {
				return true
			}
		}
	}
	return false
}

// vfC01Judge returns "" or the violation.
//
// A reply is read as covering a prefix of the resolution: the aliases it holds, plus the final
// element (RRset or denial) unless it stops at an alias. sdns stops at a validated alias when the
// target cannot be resolved or validated (and for DS questions, which it never chases); such a
// reply holds published data only, so it is judged for what it covers. It is tolerated under
// tampering or when the next element is bogus, never in an honest, validatable world.
func vfC01Judge(c *vfC01Case, st vfC01Step, o vfC01Obs, tamperedBefore bool) (string, []string) {
	var cls []string
	if o.NoReply {
		return "", []string{"no-reply"}
	}
	m, g := o.Reply, o.Truth
	servfail := m.Rcode == dns.RcodeServerFailure
	clientVal := st.DO && st.EDNS || st.AD
	tampered := c.Tamper != nil && (o.Fired > 0 || tamperedBefore)
	if m.AuthenticatedData {
		cls = append(cls, "ad-set")
		switch {
		case st.CD:
			return "AD set toward a client that set CD", cls
		case !clientVal:
			return "AD set toward a client that set neither DO nor AD", cls
		case c.NoAnchor:
			return "AD set although no trust anchor is configured", cls
		}
	}
	if m.AuthenticatedData {
		// a signature vouches for a name only when its signer is an ancestor of (or is) that name, label by label
		for _, sec := range [][]dns.RR{m.Answer, m.Ns} {
			for _, rr := range sec {
				if sig, ok := rr.(*dns.RRSIG); ok && !vfmodel.IsSubdomain(sig.Hdr.Name, sig.SignerName) {
					return fmt.Sprintf("AD set on a reply whose %s RRset at %s is signed by %s, which is no ancestor of that name", dns.TypeToString[sig.TypeCovered], sig.Hdr.Name, sig.SignerName), cls
				}
			}
		}
	}
	if servfail {
		cls = append(cls, "servfail")
		if !st.EDNS && m.IsEdns0() != nil {
			return "SERVFAIL to a non-EDNS client carries an OPT record", cls
		}
		if st.EDNS && !g.Loop && (g.Bogus || c.NoAnchor || (c.Tamper.decisive() && o.Fired > 0 && g.Secure)) && !st.CD && !vfC01HasEDE(m) {
			return "DNSSEC failure reported as SERVFAIL without an Extended DNS Error to an EDNS client", cls
		}
		return "", cls
	}
	if st.CD {
		return "", append(cls, "cd-client")
	}
	if c.NoAnchor {
		return fmt.Sprintf("no trust anchor is available, yet a CD=0 client got %s instead of SERVFAIL", dns.RcodeToString[m.Rcode]), cls
	}
	if g.Loop {
		return "", append(cls, "alias-loop")
	}
	// ---- what does the reply cover
	stepOf := map[string]int{}
	for i, s := range g.Steps {
		switch s.Type {
		case dns.TypeCNAME:
			for _, r := range s.Zone.RRset(s.Owner, dns.TypeCNAME) {
				c2 := dns.Copy(r)
				c2.Header().Name = s.Name
				stepOf[vfNormRR(c2)] = i
			}
		case dns.TypeDNAME:
			for _, r := range s.Zone.RRset(s.Owner, dns.TypeDNAME) {
				stepOf[vfNormRR(r)] = i
			}
			stepOf[vfNormRR(&dns.CNAME{Hdr: dns.RR_Header{Name: s.Name, Rrtype: dns.TypeCNAME, Class: dns.ClassINET}, Target: s.Target})] = i
		}
	}
	prefix, onlyAliases := 0, len(m.Answer) > 0
	for _, rr := range m.Answer {
		if rr.Header().Rrtype == dns.TypeRRSIG {
			continue
		}
		if i, ok := stepOf[vfNormRR(rr)]; ok {
			if i+1 > prefix {
				prefix = i + 1
			}
		} else {
			onlyAliases = false
		}
	}
	hasSOA := false
	for _, rr := range m.Ns {
		if rr.Header().Rrtype == dns.TypeSOA {
			hasSOA = true
		}
	}
	finalIsAliasAnswer := g.Out.Kind == "dname-cname"
	partial := !finalIsAliasAnswer && len(g.Steps) > 0 && onlyAliases && m.Rcode == dns.RcodeSuccess && !hasSOA
	covered := len(g.Steps)
	if partial {
		covered = prefix
		cls = append(cls, "stops-at-alias")
	}
	// ---- security of what is covered
	// RFC 5155 §12.2: in an opt-out zone every name that is not itself a signed owner may be claimed by an unsigned
	// delegation inserted into the covering span, so without AD such names carry no assurance at all.
	weak := func(z *vfworld.SZone, nonexistent bool) bool {
		return !m.AuthenticatedData && z != nil && z.Signed && z.NSEC3 && z.OptOut && nonexistent
	}
	finalSecure := g.FinalSecure && !weak(g.Zone, g.Out.Kind == "nxdomain" || g.Out.Wildcard)
	secure, bogusAt, tamperAt := true, -1, -1
	dep := func(z *vfworld.SZone) bool {
		return c.Tamper.decisive() && tampered && z != nil && vfmodel.IsSubdomain(z.Apex, c.Tamper.Zone)
	}
	for i := 0; i < covered; i++ {
		s := g.Steps[i]
		stepSecure := s.Secure && !weak(s.Zone, s.Wildcard)
		if !stepSecure {
			secure = false
		}
		if s.Bogus && bogusAt < 0 {
			bogusAt = i
		}
		if dep(s.Zone) && stepSecure && tamperAt < 0 {
			tamperAt = i
		}
	}
	if !partial {
		if !finalSecure {
			secure = false
		}
		if g.FinalBogus && bogusAt < 0 {
			bogusAt = len(g.Steps)
		}
		if dep(g.Zone) && finalSecure && tamperAt < 0 && !finalIsAliasAnswer {
			tamperAt = len(g.Steps)
		}
	}
	// A zone that is properly unsigned can be made to say anything, and the tamper script did make it say something else:
	// when responses of an insecure zone earlier on the chain were altered, the chain computed from the honest world no
	// longer describes what sdns was shown after that point - the alias that led into the bogus zone may never have
	// arrived. Such a reply, when it claims no authenticity (AD clear), is not judged further; one with AD set goes
	// through the checks below like any other.
	if tampered && !m.AuthenticatedData {
		for i := 0; i < len(g.Steps) && (bogusAt < 0 || i < bogusAt); i++ {
			if s := g.Steps[i]; s.Zone != nil && !s.Secure && !s.Bogus && vfmodel.IsSubdomain(s.Zone.Apex, c.Tamper.Zone) {
				return "", append(cls, "altered-in-an-insecure-zone")
			}
		}
	}
	if bogusAt >= 0 {
		return fmt.Sprintf("element %d of the answer comes from below a zone whose DS matches none of its keys, yet a CD=0 client got %s instead of SERVFAIL", bogusAt, dns.RcodeToString[m.Rcode]), cls
	}
	if tamperAt >= 0 {
		return fmt.Sprintf("every response of zone %s is tampered (%s) and element %d of the reply depends on it, yet a CD=0 client got %s (answers=%d) instead of SERVFAIL", c.Tamper.Zone, c.Tamper.Edit, tamperAt, dns.RcodeToString[m.Rcode], len(m.Answer)), cls
	}
	if m.AuthenticatedData && !secure {
		return "AD set although part of the reply is not under an unbroken signed chain", cls
	}
	if partial {
		// why did it stop? the next element must be one sdns could not (or does not) resolve
		nextBogus := (covered < len(g.Steps) && g.Steps[covered].Bogus) || (covered == len(g.Steps) && g.FinalBogus)
		if !(tampered || nextBogus || st.Qtype == dns.TypeDS) {
			// Nothing forced the stop. Still only published data — the same as a SERVFAIL on the target, which this
			// property always allows (seen for targets that are empty non-terminals of NSEC-signed zones, whose
			// NODATA sdns cannot validate) — so it is counted, not judged.
			cls = append(cls, "stops-at-alias-unforced")
		}
		if prefix == 0 {
			return "NOERROR reply with answers that are no part of the alias chain", cls
		}
	}
	if !secure {
		return "", append(cls, "insecure")
	}
	cls = append(cls, "secure")
	// ---- the covered data must be exactly what the signers published
	if !partial {
		wantRcode := dns.RcodeSuccess
		if g.Out.Kind == "nxdomain" {
			wantRcode = dns.RcodeNameError
		}
		if m.Rcode != wantRcode {
			return fmt.Sprintf("rcode %s, the signed zones say %s (%+v)", dns.RcodeToString[m.Rcode], dns.RcodeToString[wantRcode], g.Out), cls
		}
	}
	allowed, required := vfExpectedAnswer(g, st.Qtype)
	got := map[string]bool{}
	for _, rr := range m.Answer {
		if rr.Header().Rrtype == dns.TypeRRSIG {
			if !(st.DO && st.EDNS) && st.Qtype != dns.TypeRRSIG {
				return "RRSIG in the answer to a client without DO", cls
			}
			continue
		}
		k := vfNormRR(rr)
		ttl, ok := allowed[k]
		if !ok {
			return fmt.Sprintf("answer holds %q, which no signer published for this question", rr.String()), cls
		}
		if rr.Header().Ttl > ttl {
			return fmt.Sprintf("answer record %q has TTL above the published %d", rr.String(), ttl), cls
		}
		got[k] = true
	}
	if !partial {
		for _, k := range required {
			if !got[k] {
				return fmt.Sprintf("answer lacks the published record %q", k), cls
			}
		}
	}
	if !partial && len(required) == 0 && g.Out.Kind != "answer" && !finalIsAliasAnswer {
		cls = append(cls, "denial")
		for _, rr := range m.Ns {
			if rr.Header().Rrtype == dns.TypeRRSIG {
				continue
			}
			if !c.W.Published(rr) {
				return fmt.Sprintf("authority section of the denial holds %q, which no signer published", rr.String()), cls
			}
		}
		if m.AuthenticatedData && g.Zone.NSEC3 && g.Zone.OptOut {
			needCover := g.Out.Kind == "nxdomain" || g.Out.Wildcard
			if g.Out.Kind == "nodata" && !g.Out.Wildcard {
				needCover = true
				for _, n := range g.Zone.NSEC3Names() {
					if n == g.Name {
						needCover = false
					}
				}
			}
			if needCover {
				return "AD set on a denial that rests on an opt-out span", cls
			}
		}
	}
	if len(g.Steps) > 0 {
		cls = append(cls, "alias-chain")
	}
	if g.Out.Wildcard {
		cls = append(cls, "wildcard")
	}
	return "", cls
}

func vfC01Gen(rt *rapid.T) *vfC01Case {
	c := &vfC01Case{W: vfworld.GenWorld(rt)}
	c.NoAnchor = rapid.IntRange(0, 19).Draw(rt, "noanchor") == 0
	c.QMin = rapid.SampledFrom([]int{0, 0, 3, 5}).Draw(rt, "qmin")
	var apexes, signed []string
	for a, z := range c.W.Zones {
		apexes = append(apexes, a)
		if z.Signed {
			signed = append(signed, a)
		}
	}
	sort.Strings(apexes)
	sort.Strings(signed)
	// a broken delegation now and then
	if rapid.IntRange(0, 9).Draw(rt, "wrongds") == 0 {
		z := c.W.Zones[rapid.SampledFrom(apexes).Draw(rt, "wrongdszone")]
		if z.Parent != nil && z.Signed && !z.NoDS {
			z.WrongDS = true
		}
	}
	switch rapid.IntRange(0, 3).Draw(rt, "tamper") {
	case 0:
	case 1:
		c.Tamper = &vfC01Tamper{Zone: rapid.SampledFrom(apexes).Draw(rt, "tzone"), Edit: rapid.SampledFrom(vfC01ZoneEdits).Draw(rt, "tedit")}
	default:
		c.Tamper = &vfC01Tamper{Zone: rapid.SampledFrom(apexes).Draw(rt, "tzone"), Kind: rapid.SampledFrom([]string{"answer", "answer", "wildcard", "cname", "dname", "nodata", "nxdomain", "referral", "referral", "dnskey", "ds"}).Draw(rt, "tkind"),
			Edit: rapid.SampledFrom(vfC01KindEdits).Draw(rt, "tedit")}
	}
	if c.Tamper != nil {
		c.Tamper.Variant = rapid.IntRange(0, 3).Draw(rt, "tvariant")
		c.Tamper.DropDS = rapid.IntRange(0, 4).Draw(rt, "dropds") == 0
		if c.Tamper.Edit == "inject-foreign" {
			// padding of every section, or of the authority section alone (foreign RRset, with or without an unsigned
			// in-zone one) - mostly behind denials, whose authority section is what the client is meant to believe
			c.Tamper.Kind = rapid.SampledFrom([]string{"nodata", "nodata", "nxdomain", "nxdomain", "answer", "wildcard", "referral"}).Draw(rt, "tkind3")
			c.Tamper.Variant = rapid.SampledFrom([]int{0, 1, 3, 3}).Draw(rt, "tvariant3")
		}
		if c.Tamper.Edit == "wildcard-replay" {
			c.Tamper.Kind = rapid.SampledFrom([]string{"answer", "answer", "cname"}).Draw(rt, "tkind2")
		}
		// the impostor signer is a validly chained zone that is not an ancestor of the tampered zone
		var foreign []string
		for _, a := range signed {
			if !vfmodel.IsSubdomain(c.Tamper.Zone, a) {
				foreign = append(foreign, a)
			}
		}
		if len(foreign) > 0 {
			c.Tamper.Foreign = rapid.SampledFrom(foreign).Draw(rt, "tforeign")
		} else if c.Tamper.Edit == "foreign-signer" || c.Tamper.Edit == "sibling-denial" {
			c.Tamper.Edit = "corrupt-sigs"
		}
	}
	// edits that need a particular shape of name: aim them at one (a sibling of a wildcard; an owner at least two labels
	// below its apex) instead of waiting for the zone and the question to coincide
	directedName := ""
	if c.Tamper != nil && (c.Tamper.Edit == "wildcard-replay" || c.Tamper.Edit == "ent-signer" || c.Tamper.Edit == "wildcard-nsec-rename") {
		var cand [][2]string
		for _, a := range apexes {
			z := c.W.Zones[a]
			if !z.Signed || z.NoDS || z.WrongDS {
				continue
			}
			var owners []string
			for o := range z.Owners {
				owners = append(owners, o)
			}
			sort.Strings(owners)
			for _, o := range owners {
				ls, al := dns.SplitDomainName(o), dns.SplitDomainName(a)
				if strings.HasPrefix(o, "*") || len(ls) < len(al)+2 || !(z.Owners[o][dns.TypeA] || z.Owners[o][dns.TypeTXT]) {
					continue
				}
				if c.Tamper.Edit == "wildcard-replay" || c.Tamper.Edit == "wildcard-nsec-rename" {
					if _, ok := z.Owners["*."+strings.Join(ls[1:], ".")+"."]; !ok {
						continue
					}
				}
				if c.Tamper.Edit == "wildcard-nsec-rename" && (z.NSEC3 || !z.Owners[o][dns.TypeAAAA]) {
					continue
				}
				cand = append(cand, [2]string{o, a})
			}
		}
		if len(cand) > 0 && rapid.IntRange(0, 3).Draw(rt, "directed") != 0 {
			k := cand[rapid.IntRange(0, len(cand)-1).Draw(rt, "directedwhich")]
			directedName, c.Tamper.Zone = k[0], k[1]
			if c.Tamper.Edit == "ent-signer" || c.Tamper.Edit == "wildcard-nsec-rename" {
				c.Tamper.Kind = "answer"
			}
		}
	}
	// flipping the unsigned rcode of a genuine NODATA is most interesting at an empty non-terminal of an NSEC zone:
	// every record and signature of the reply is the signer's own
	if directedName == "" && c.Tamper != nil && c.Tamper.Edit == "flip-rcode" && rapid.IntRange(0, 2).Draw(rt, "entflip") != 0 {
		var ents [][2]string
		for _, a := range apexes {
			z := c.W.Zones[a]
			if !z.Signed || z.NSEC3 || z.NoDS || z.WrongDS {
				continue
			}
			seen := map[string]bool{}
			var owners []string
			for o := range z.Owners {
				owners = append(owners, o)
			}
			sort.Strings(owners)
			for _, o := range owners {
				ls, al := dns.SplitDomainName(o), dns.SplitDomainName(a)
				for k := 1; k < len(ls)-len(al); k++ {
					anc := strings.Join(ls[k:], ".") + "."
					if z.Owners[anc] == nil && !seen[anc] && !strings.HasPrefix(anc, "*") {
						seen[anc] = true
						ents = append(ents, [2]string{anc, a})
					}
				}
			}
		}
		if len(ents) > 0 {
			k := ents[rapid.IntRange(0, len(ents)-1).Draw(rt, "entwhich")]
			directedName, c.Tamper.Zone, c.Tamper.Kind = k[0], k[1], "nodata"
		}
	}
	// a validated alias whose target does not exist in an *insecure* zone, and that zone answers the bare way (header
	// only): the alias's authenticity says nothing about the denial
	bareAlias := ""
	if directedName == "" && rapid.IntRange(0, 2).Draw(rt, "barealias") == 0 {
		for _, a := range apexes {
			z := c.W.Zones[a]
			var owners []string
			for o := range z.Targets {
				owners = append(owners, o)
			}
			sort.Strings(owners)
			for _, o := range owners {
				g := c.W.Resolve(o, dns.TypeA)
				if bareAlias == "" && len(g.Steps) == 1 && g.Steps[0].Secure && g.Steps[0].Type == dns.TypeCNAME && g.Out.Kind == "nxdomain" && g.Zone != nil && !g.Zone.Signed && !g.Loop {
					bareAlias = o
					c.Tamper = &vfC01Tamper{Zone: g.Zone.Apex, Kind: "nxdomain", Edit: "empty"}
				}
			}
		}
	}
	// label-boundary impostor: an owner whose first label holds a literal dot ("t\.example.test." in test.) is
	// re-signed by the zone its spelling resembles (example.test.), which is no ancestor of it
	confusable := ""
	if c.Tamper != nil && (c.Tamper.Edit == "foreign-signer" || c.Tamper.Edit == "corrupt-sigs") {
		var cand [][3]string
		for _, a := range apexes {
			var owners []string
			for o := range c.W.Zones[a].Owners {
				owners = append(owners, o)
			}
			sort.Strings(owners)
			for _, o := range owners {
				if i := strings.Index(o, "\\."); i >= 0 {
					if f := c.W.Zones[o[i+2:]]; f != nil && f.Signed && !f.NoDS && !f.WrongDS {
						cand = append(cand, [3]string{o, a, f.Apex})
					}
				}
			}
		}
		if len(cand) > 0 && rapid.Bool().Draw(rt, "confusable") {
			k := cand[rapid.IntRange(0, len(cand)-1).Draw(rt, "confusablewhich")]
			confusable = k[0]
			c.Tamper.Edit, c.Tamper.Zone, c.Tamper.Kind, c.Tamper.Foreign = "foreign-signer", k[1], "answer", k[2]
		}
	}
	n := rapid.IntRange(1, 5).Draw(rt, "nsteps")
	var prev *vfC01Step
	for i := 0; i < n; i++ {
		if i > 0 && rapid.IntRange(0, 5).Draw(rt, "sleep") == 0 {
			c.Steps = append(c.Steps, vfC01Step{Sleep: time.Duration(rapid.SampledFrom([]int{1, 30, 61, 301, 4000}).Draw(rt, "sleepsec")) * time.Second})
			continue
		}
		st := vfC01Step{EDNS: rapid.IntRange(0, 5).Draw(rt, "edns") != 0, DO: rapid.IntRange(0, 3).Draw(rt, "do") != 0, CD: rapid.IntRange(0, 5).Draw(rt, "cd") == 0, AD: rapid.IntRange(0, 3).Draw(rt, "adbit") == 0,
			Wire: rapid.Bool().Draw(rt, "wire"), Proto: rapid.SampledFrom([]string{"udp", "udp", "tcp"}).Draw(rt, "proto"), ClientOctet4: byte(rapid.IntRange(1, 3).Draw(rt, "client"))}
		if prev != nil && rapid.IntRange(0, 2).Draw(rt, "repeat") == 0 {
			st.Name, st.Qtype = prev.Name, prev.Qtype
		} else {
			st.Name, st.Qtype = vfworld.GenQuestion(rt, c.W)
		}
		if directedName != "" && prev == nil {
			st.Name, st.CD = directedName, false
			st.Qtype = dns.TypeA
			if z := c.W.Zones[c.Tamper.Zone]; z != nil && !z.Owners[directedName][dns.TypeA] {
				st.Qtype = dns.TypeTXT
			}
			if c.Tamper.Edit == "wildcard-nsec-rename" {
				st.Qtype = dns.TypeAAAA
			}
		}
		if bareAlias != "" && prev == nil {
			st.Name, st.Qtype, st.CD, st.EDNS, st.DO = bareAlias, dns.TypeA, false, true, true
		}
		if confusable != "" && prev == nil {
			st.Name, st.Qtype, st.CD = confusable, rapid.SampledFrom([]uint16{dns.TypeA, dns.TypeTXT}).Draw(rt, "confusableqtype"), false
		}
		c.Steps = append(c.Steps, st)
		prev = &c.Steps[len(c.Steps)-1]
	}
	return c
}

func TestVerifC01World(t *testing.T) {
	defer vfstat.Flush()
	vfstat.Quiet()
	const U = "C01.world"
	dir, _ := os.MkdirTemp(os.Getenv("VERIF_WORKDIR"), "c01")
	defer os.RemoveAll(dir)
	rapid.Check(t, func(rt *rapid.T) {
		c := vfC01Gen(rt)
		obs, fired := vfC01Run(t, dir, c)
		var trace []string
		for _, o := range obs {
			trace = append(trace, o.Line)
		}
		oi, firedSoFar := 0, 0
		seen := map[string]bool{}
		nontrivial := false
		for _, st := range c.Steps {
			if st.Name == "" {
				continue
			}
			o := obs[oi]
			oi++
			bad, cls := vfC01Judge(c, st, o, firedSoFar > 0)
			firedSoFar += o.Fired
			if bad != "" {
				tm := "none"
				if c.Tamper != nil {
					tm = fmt.Sprintf("%+v", *c.Tamper)
				}
				rt.Fatalf("step %d (%s/%s): %s\n  truth: %+v steps=%d secure=%v bogus=%v zone=%s\n  tamper: %s  no-anchor=%v qmin=%d\n  history:\n    %s\n  reply:\n%v\n  world:\n%s", o.Step, st.Name, dns.TypeToString[st.Qtype], bad, o.Truth.Out, len(o.Truth.Steps), o.Truth.Secure, o.Truth.Bogus, o.Truth.Zone.Apex, tm, c.NoAnchor, c.QMin, strings.Join(trace, "\n    "), o.Reply, c.W.Describe())
			}
			for _, k := range cls {
				seen[k] = true
			}
			if o.Fired > 0 && o.Truth.Secure && !st.CD {
				nontrivial = true
				seen["tamper-consumed-on-secure-name"] = true
			}
			if o.Up == 0 && !o.NoReply {
				seen["served-from-cache"] = true
			}
		}
		vfstat.Eval(U, 1)
		for k := range seen {
			vfstat.Class(U, k)
		}
		if c.Tamper != nil {
			vfstat.Class(U, "tamper:"+c.Tamper.Edit)
			if c.Tamper.Edit == "foreign-signer" && len(c.Steps) > 0 && strings.Contains(c.Steps[0].Name, "\\.") && fired > 0 {
				vfstat.Class(U, "label-boundary-impostor-fired")
			}
			if c.Tamper.DropDS {
				vfstat.Class(U, "tamper-drops-ds")
			}
			if c.Tamper.decisive() {
				vfstat.Class(U, "tamper-decisive")
			}
			if fired > 0 {
				vfstat.Class(U, "tamper-fired")
			}
		} else {
			vfstat.Class(U, "honest-world")
		}
		if c.NoAnchor {
			vfstat.Class(U, "no-anchor")
		}
		if nontrivial || seen["secure"] {
			shape := []string{}
			for _, st := range c.Steps {
				shape = append(shape, fmt.Sprint(st.Name, st.Qtype, st.DO, st.CD, st.AD, st.EDNS))
			}
			tm := ""
			if c.Tamper != nil {
				tm = fmt.Sprintf("%+v", *c.Tamper)
			}
			vfstat.NonTrivial(U, fmt.Sprint(c.W.Describe(), tm, shape))
			if len(trace) > 8 {
				trace = trace[:8]
			}
			vfstat.Sample(U, fmt.Sprint(tm != "", seen["alias-chain"], seen["denial"], seen["servfail"]), map[string]any{"tamper": tm, "history": trace, "zones": len(c.W.Zones)})
		}
	})
}

// TestVerifC01Debug replays one hand-written case with logging on (VERIF_LOG=1); skipped otherwise.
func TestVerifC01Debug(t *testing.T) {
	if os.Getenv("VERIF_LOG") == "" {
		t.Skip("debug helper")
	}
	w := vfworld.Build([]vfworld.ZoneSpec{
		{Apex: ".", Signed: true},
		{Apex: "test.", Signed: true},
		{Apex: "example.test.", Signed: true, NSEC3: true, OptOut: true, Salt: "ab", Owners: map[string][]uint16{"*.example.test.": {dns.TypeA}, "b.example.test.": {dns.TypeA}}},
	})
	qm := 0
	if os.Getenv("VERIF_QMIN") != "" {
		qm = 5
	}
	c := &vfC01Case{W: w, QMin: qm, Tamper: &vfC01Tamper{Zone: "example.test.", Kind: "wildcard", Edit: "empty"}, Steps: []vfC01Step{
		{Name: "ab.example.test.", Qtype: dns.TypeA, DO: true, EDNS: true, AD: true, Proto: "udp", ClientOctet4: 1},
	}}
	if os.Getenv("VERIF_ROGUE") != "" {
		w = vfworld.Build([]vfworld.ZoneSpec{
			{Apex: ".", Signed: true},
			{Apex: "test.", Signed: true},
			{Apex: "example.test.", Signed: true, Split: os.Getenv("VERIF_ROGUE") == "split", Owners: map[string][]uint16{"b.example.test.": {dns.TypeA}}},
		})
		c = &vfC01Case{W: w, QMin: qm, Tamper: &vfC01Tamper{Zone: "example.test.", Edit: "rogue-key"}, Steps: []vfC01Step{
			{Name: "b.example.test.", Qtype: dns.TypeA, DO: true, EDNS: true, AD: true, Proto: "udp", ClientOctet4: 1},
		}}
	}
	if k := os.Getenv("VERIF_INJECT"); k != "" {
		c = &vfC01Case{W: w, QMin: qm, Tamper: &vfC01Tamper{Zone: "example.test.", Kind: k, Edit: "inject-foreign", Variant: 3}, Steps: []vfC01Step{
			{Name: "nx.b.example.test.", Qtype: dns.TypeA, DO: true, EDNS: true, AD: true, Proto: "udp", ClientOctet4: 1},
			{Name: "b.example.test.", Qtype: dns.TypeTXT, DO: true, EDNS: true, AD: true, Proto: "udp", ClientOctet4: 1},
		}}
	}
	if os.Getenv("VERIF_ESCDOT") != "" {
		w = vfworld.Build([]vfworld.ZoneSpec{
			{Apex: ".", Signed: true},
			{Apex: "test.", Signed: true, Owners: map[string][]uint16{"t\\.example.test.": {dns.TypeA}}},
			{Apex: "example.test.", Signed: true, Owners: map[string][]uint16{"b.example.test.": {dns.TypeA}}},
		})
		c = &vfC01Case{W: w, QMin: qm, Tamper: &vfC01Tamper{Zone: "test.", Kind: "answer", Edit: "foreign-signer", Foreign: "example.test."}, Steps: []vfC01Step{
			{Name: "t\\.example.test.", Qtype: dns.TypeA, DO: true, EDNS: true, AD: true, Proto: "udp", ClientOctet4: 1},
		}}
	}
	obs, _ := vfC01Run(t, t.TempDir(), c)
	for _, o := range obs {
		t.Logf("%s\n%v", o.Line, o.Reply)
	}
}
