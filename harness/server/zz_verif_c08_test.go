package server

// C08 — a delegation never outlives the lease its parent granted (ghost domains).
// A zone is delegated with generated NS/DS TTLs; clients query it; at a generated moment the parent
// withdraws or changes the delegation while the old servers keep answering ("ghosts") with long-lived
// data and keep naming themselves. Clients go on querying. From the end of the last lease the parent
// granted, the ghosts must receive nothing and every reply must be what the new namespace says.

import (
	"fmt"
	"net"
	"os"
	"strings"
	"testing"
	"testing/synctest"
	"time"

	"github.com/miekg/dns"
	"github.com/semihalev/sdns/internal/vfgen"
	"github.com/semihalev/sdns/internal/vfmodel"
	"github.com/semihalev/sdns/internal/vfstat"
	"github.com/semihalev/sdns/internal/vfworld"
	"pgregory.net/rapid"
)

type vfC08Step struct {
	Name   string
	Qtype  uint16
	Sleep  time.Duration
	Change bool
	CD     bool
	DO     bool
	Wire   bool
}

type vfC08Case struct {
	Zone     string // the delegation that changes
	NSTTL    uint32
	DSTTL    uint32
	Signed   bool
	Change   string // withdraw redelegate redelegate-insecure
	Prefetch int
	QMin     int
	Glueless bool          // the zone is delegated to a host in provider.test., no glue
	Partial  bool          // ... next to a host of its own with glue
	SlowNS   time.Duration // how long provider.test. takes to answer for that host
	SlowKey  time.Duration // how long the root and test. take to answer DNSKEY questions: validating a referral takes this long while keys are cold
	Old, New *vfworld.World
	Steps    []vfC08Step
}

func vfC08Specs(c *vfC08Case, version int) []vfworld.ZoneSpec {
	long := uint32(86400)
	ttls := map[string]uint32{"ghost.test./NS": c.NSTTL, "ghost.test./DS": c.DSTTL}
	deepTTLs := map[string]uint32{"deep.ghost.test./NS": c.NSTTL, "deep.ghost.test./DS": c.DSTTL}
	specs := []vfworld.ZoneSpec{
		{Apex: ".", Signed: true, TTL: long},
		{Apex: "test.", Signed: true, TTL: long, NegTTL: 30, TTLs: map[string]uint32{}, Owners: map[string][]uint16{"alias.test.": {dns.TypeCNAME}}, Targets: map[string]string{"alias.test.": "www.ghost.test."}},
	}
	data := map[string][]uint16{"www.ghost.test.": {dns.TypeA, dns.TypeTXT}, "mail.ghost.test.": {dns.TypeA, dns.TypeMX}, "*.w.ghost.test.": {dns.TypeA}}
	deep := map[string][]uint16{"www.deep.ghost.test.": {dns.TypeA}}
	specs = append(specs, vfworld.ZoneSpec{Apex: "provider.test.", TTL: long})
	ghost := vfworld.ZoneSpec{Apex: "ghost.test.", Signed: c.Signed, TTL: long, NegTTL: 3600, Owners: data, TTLs: map[string]uint32{}, Servers: 2}
	if c.Glueless {
		if c.Partial {
			ghost.ExtraNSHost = "ns1.provider.test."
		} else {
			ghost.NSHost = "ns1.provider.test."
		}
	}
	deepz := vfworld.ZoneSpec{Apex: "deep.ghost.test.", Signed: c.Signed, TTL: long, NegTTL: 3600, Owners: deep}
	changedIsDeep := c.Zone == "deep.ghost.test."
	if changedIsDeep {
		ghost.TTLs = deepTTLs
		specs[1].TTLs = map[string]uint32{"ghost.test./NS": long, "ghost.test./DS": long}
	} else {
		specs[1].TTLs = ttls
	}
	if version == 2 {
		target := &ghost
		if changedIsDeep {
			target = &deepz
		}
		switch c.Change {
		case "withdraw":
			if changedIsDeep {
				return append(specs, ghost)
			}
			return specs
		case "redelegate":
			target.Addrs, target.Tag, target.KeyGen = []string{"198.51.100.201", "198.51.100.202"}, "v2", 1
		case "redelegate-insecure":
			target.Addrs, target.Tag, target.Signed = []string{"198.51.100.201", "198.51.100.202"}, "v2", false
		case "redelegate-partial-glue":
			// the new operator keeps the host names; the parent's new referral carries glue for the second one only
			target.Addrs, target.Tag, target.KeyGen = []string{"198.51.100.201", "198.51.100.202"}, "v2", 1
			target.NoGlueFor = []string{"ns1." + target.Apex}
		}
		if c.Glueless && !changedIsDeep {
			// the parent names another host: re-using the old host name would leave its (legitimately long-lived)
			// address record in charge of where the zone is looked for
			if c.Partial {
				target.ExtraNSHost = "ns2.provider.test."
			} else {
				target.NSHost = "ns2.provider.test."
			}
		}
		if !changedIsDeep {
			// the deeper zone moves with its parent's new operator
			deepz.Addrs, deepz.Tag, deepz.KeyGen, deepz.Signed = []string{"198.51.100.203"}, "v2", 1, target.Signed
		}
	}
	return append(specs, ghost, deepz)
}

func vfC08Gen(rt *rapid.T) *vfC08Case {
	c := &vfC08Case{Zone: rapid.SampledFrom([]string{"ghost.test.", "ghost.test.", "deep.ghost.test."}).Draw(rt, "zone"),
		NSTTL:    uint32(rapid.SampledFrom([]int{0, 1, 2, 4, 30, 60, 300, 3600, 90000}).Draw(rt, "nsttl")),
		Signed:   rapid.Bool().Draw(rt, "signed"),
		Change:   rapid.SampledFrom([]string{"withdraw", "redelegate", "redelegate", "redelegate-insecure"}).Draw(rt, "change"),
		Prefetch: rapid.SampledFrom([]int{0, 50, 90}).Draw(rt, "prefetch"),
		QMin:     rapid.SampledFrom([]int{0, 0, 5}).Draw(rt, "qmin")}
	c.DSTTL = c.NSTTL
	// (the unit also runs as C01's changing-world unit; the scenario of C08's open finding is generated for C08 only)
	if rapid.IntRange(0, 7).Draw(rt, "partialglue-change") == 0 && (os.Getenv("VERIF_PROP") == "C08" || os.Getenv("VERIF_PROP") == "") {
		c.Change = "redelegate-partial-glue"
	}
	if c.Glueless = c.Change != "redelegate-partial-glue" && rapid.IntRange(0, 2).Draw(rt, "glueless") == 0; c.Glueless {
		c.Partial = rapid.Bool().Draw(rt, "partialglue")
		c.SlowNS = time.Duration(rapid.SampledFrom([]int{0, 1500, 3000}).Draw(rt, "slowns")) * time.Millisecond
	}
	c.SlowKey = time.Duration(rapid.SampledFrom([]int{0, 0, 1500, 3000}).Draw(rt, "slowkey")) * time.Millisecond
	if rapid.IntRange(0, 2).Draw(rt, "dsshorter") == 0 {
		c.DSTTL = uint32(rapid.SampledFrom([]int{0, 20, 45, 120}).Draw(rt, "dsttl"))
	}
	c.Old = vfworld.Build(vfC08Specs(c, 1))
	c.New = vfworld.Build(vfC08Specs(c, 2))
	lease := c.lease()
	names := []string{"alias.test.", "alias.test.", "www.ghost.test.", "mail.ghost.test.", "x.w.ghost.test.", "nx.ghost.test.", "ghost.test.", "www.deep.ghost.test.", "deep.ghost.test.", "nx.deep.ghost.test."}
	types := []uint16{dns.TypeA, dns.TypeA, dns.TypeA, dns.TypeTXT, dns.TypeNS, dns.TypeMX, dns.TypeSOA, dns.TypeDNSKEY, dns.TypeDS}
	n := rapid.IntRange(4, 14).Draw(rt, "nsteps")
	changeAt := rapid.IntRange(1, n-2).Draw(rt, "changeat")
	var hot []vfC08Step
	for i := 0; i < n; i++ {
		if i == changeAt {
			c.Steps = append(c.Steps, vfC08Step{Change: true})
			continue
		}
		switch rapid.IntRange(0, 9).Draw(rt, "kind") {
		case 0, 1, 2:
			frac := rapid.SampledFrom([]float64{0.1, 0.34, 0.5, 0.9, 0.99, 1.01, 1.5, 3}).Draw(rt, "frac")
			d := time.Duration(float64(lease) * frac)
			if d < time.Second {
				d = time.Second
			}
			c.Steps = append(c.Steps, vfC08Step{Sleep: d})
		default:
			st := vfC08Step{Name: rapid.SampledFrom(names).Draw(rt, "name"), Qtype: rapid.SampledFrom(types).Draw(rt, "qtype"), CD: rapid.IntRange(0, 5).Draw(rt, "cd") == 0, DO: rapid.Bool().Draw(rt, "do"), Wire: rapid.Bool().Draw(rt, "wire")}
			if st.Name == "alias.test." && (st.Qtype == dns.TypeDS || st.Qtype == dns.TypeNS || st.Qtype == dns.TypeSOA || st.Qtype == dns.TypeDNSKEY) {
				st.Qtype = dns.TypeA // sdns never chases aliases for DS questions; keep the alias questions about its target's data
			}
			if len(hot) > 0 && rapid.IntRange(0, 2).Draw(rt, "again") == 0 {
				st = hot[rapid.IntRange(0, len(hot)-1).Draw(rt, "hot")] // keep asking what is cached: "continued querying"
			}
			hot = append(hot, st)
			c.Steps = append(c.Steps, st)
		}
	}
	// always look again well after every lease has run out
	c.Steps = append(c.Steps, vfC08Step{Sleep: lease + 2*time.Second})
	for _, st := range hot {
		c.Steps = append(c.Steps, st)
		if len(c.Steps) > 24 {
			break
		}
	}
	return c
}

// lease is the lifetime the parent granted: min(NS TTL, DS TTL), at most 12 h. A CD=1 resolution never
// retains the DS RRset (it validates nothing), so for it the NS TTL alone is the grant.
func (c *vfC08Case) lease(cd ...bool) time.Duration {
	l := c.NSTTL
	if c.Signed && c.DSTTL < l && !(len(cd) > 0 && cd[0]) {
		l = c.DSTTL
	}
	if l > 12*3600 {
		l = 12 * 3600
	}
	return time.Duration(l) * time.Second
}

type vfC08Result struct {
	Violation string
	Trace     []string
	Stats     map[string]int
}

func vfC08Run(t *testing.T, dir string, c *vfC08Case) (res vfC08Result) {
	res.Stats = map[string]int{}
	fail := func(f string, a ...any) {
		if c.Change == "redelegate-partial-glue" && vfstat.KnownOpen("C08-address-cache-outlives-the-lease") {
			// known finding: the name-server address caches keep no TTL and no tie to the delegation an address was
			// learned under; a re-delegation that re-uses a host name without glue for it gets the old address back
			vfstat.Known("C08.lease", "C08-address-cache-outlives-the-lease")
			vfstat.ReportKnown("C08-address-cache-outlives-the-lease")
			res.Stats["known-finding:stale-ns-address"]++
			return
		}
		if res.Violation == "" {
			res.Violation = fmt.Sprintf(f, a...)
		}
	}
	synctest.Test(t, func(t *testing.T) {
		time.Sleep(time.Until(vfworld.Epoch))
		cfg := vfResolverConfig(dir, c.Old)
		cfg.QnameMinLevel = c.QMin
		cfg.Prefetch = uint32(c.Prefetch)
		cfg.Expire = 600
		rw := vfStartResolver(cfg, c.Old)
		defer rw.Close()
		lease := c.lease()
		if c.SlowNS > 0 || c.SlowKey > 0 {
			rw.Net.Script = func(p vfworld.Packet, n int, req, resp *dns.Msg, info vfworld.Info) vfworld.Action {
				if c.SlowNS > 0 && strings.HasSuffix(strings.ToLower(p.Name), ".provider.test.") {
					return vfworld.Action{Delay: c.SlowNS}
				}
				if c.SlowKey > 0 && p.Qtype == dns.TypeDNSKEY && (strings.EqualFold(p.Name, "test.") || p.Name == ".") {
					return vfworld.Action{Delay: c.SlowKey}
				}
				return vfworld.Action{}
			}
		}
		changed := false
		var changedAt time.Duration
		ghostAddr := map[string]bool{}
		since := func() time.Duration { return time.Since(vfworld.Epoch) }
		// the last moment the parent handed out the old delegation (referral or DS answer for the zone)
		lastGrant := func() time.Duration {
			var last time.Duration = -1
			for _, p := range rw.Net.Log() {
				if p.Ghost || (changed && p.At >= changedAt) {
					continue
				}
				name := strings.ToLower(p.Name)
				if (p.Kind == "referral" && p.Cut == c.Zone) || (p.Qtype == dns.TypeDS && name == c.Zone) {
					if p.At > last {
						last = p.At
					}
				}
			}
			return last
		}
		checked := 0
		for i, st := range c.Steps {
			switch {
			case st.Change:
				ghosts := map[string]*vfworld.World{}
				for apex, z := range c.Old.Zones {
					if !vfmodel.IsSubdomain(apex, c.Zone) {
						continue
					}
					nz := c.New.Zones[apex]
					for _, ip := range z.Servers {
						still := false
						if nz != nil {
							for _, ip2 := range nz.Servers {
								if ip2 == ip {
									still = true
								}
							}
						}
						if !still {
							ghosts[ip] = c.Old
							ghostAddr[ip] = true
						}
					}
				}
				rw.Net.Swap(c.New, ghosts)
				changed, changedAt = true, since()
				res.Trace = append(res.Trace, fmt.Sprintf("t=%s PARENT CHANGES %s: %s (ghosts %d, last grant of the old delegation at %s, lease %s)", since(), c.Zone, c.Change, len(ghosts), lastGrant(), lease))
				continue
			case st.Name == "":
				time.Sleep(st.Sleep)
				synctest.Wait()
				res.Trace = append(res.Trace, fmt.Sprintf("t=%s slept %s", since(), st.Sleep))
				continue
			}
			q := &vfgen.QuerySpec{ID: uint16(300 + i), Name: st.Name, Qtype: st.Qtype, Qclass: dns.ClassINET, RD: true, CD: st.CD, EDNS: true, DO: st.DO, UDPSize: 1232}
			n0 := rw.Net.Count()
			now := since()
			rep := rw.Ask(q, "udp", net.IPv4(203, 0, 113, 5), st.Wire)
			synctest.Wait()
			line := fmt.Sprintf("t=%s %s/%s cd=%v -> ", now, st.Name, dns.TypeToString[st.Qtype], st.CD)
			if rep.Msg == nil {
				res.Trace = append(res.Trace, line+"no reply")
				continue
			}
			m := rep.Msg
			line += fmt.Sprintf("%s an=%d upstream=%d", dns.RcodeToString[m.Rcode], len(m.Answer), rw.Net.Count()-n0)
			for _, rr := range m.Answer {
				if a, ok := rr.(*dns.A); ok {
					line += " " + a.A.String()
				}
			}
			res.Trace = append(res.Trace, line)
			if !changed {
				continue
			}
			grant := lastGrant()
			if grant < 0 {
				grant = 0 // never learned: nothing to outlive
			}
			lease := c.lease(st.CD)
			end := grant + lease
			ghostHits := 0
			for _, p := range rw.Net.Log()[n0:] {
				if p.Ghost {
					ghostHits++
					if p.At > grant+c.lease(p.CD) {
						fail("step %d: at t=%s the superseded server %s was asked %s/%s, but the last lease the parent granted for %s (at t=%s, %s) ended at t=%s", i, p.At, p.Addr, p.Name, dns.TypeToString[p.Qtype], c.Zone, grant, lease, end)
					}
				}
			}
			if ghostHits > 0 {
				res.Stats["ghost-asked-within-lease"]++
			}
			if now <= end {
				res.Stats["reply-within-old-lease"]++
				continue
			}
			if oz := c.Old.Resolve(st.Name, st.Qtype).Zone; oz == nil || !vfmodel.IsSubdomain(oz.Apex, c.Zone) {
				// the superseded namespace answered this from the parent side of the cut (DS at the cut): it was never
				// learned through the delegation, its own TTL governs
				res.Stats["answered-by-parent-side"]++
				continue
			}
			// past the lease: only the new namespace may speak
			res.Stats["reply-after-lease"]++
			checked++
			if m.Rcode == dns.RcodeServerFailure {
				res.Stats["servfail-after-lease"]++
				continue
			}
			g := c.New.Resolve(st.Name, st.Qtype)
			if len(g.Steps) > 0 && m.Rcode == dns.RcodeSuccess && len(m.Ns) == 0 {
				final := false
				for _, rr := range m.Answer {
					if rr.Header().Rrtype == st.Qtype {
						final = true
					}
				}
				if !final {
					// the reply stops at the (unchanged, validated) alias: nothing in it was learned through the delegation
					res.Stats["stops-at-alias"]++
					continue
				}
			}
			want := dns.RcodeSuccess
			if g.Out.Kind == "nxdomain" {
				want = dns.RcodeNameError
			}
			old := c.Old.Resolve(st.Name, st.Qtype)
			if m.Rcode != want {
				fail("step %d: at t=%s (old lease ended t=%s) %s/%s answered %s; since the change the namespace says %s (the superseded one said %s)", i, now, end, st.Name, dns.TypeToString[st.Qtype], dns.RcodeToString[m.Rcode], dns.RcodeToString[want], old.Out.Kind)
				continue
			}
			allowedTTL, _ := vfExpectedAnswer(g, st.Qtype)
			allowed := map[string]bool{}
			for k := range allowedTTL {
				allowed[k] = true
			}
			if m.AuthenticatedData && !g.Secure {
				fail("step %d: at t=%s (old lease ended t=%s) %s/%s answered with AD set; since the change part of the answer is not under a signed chain", i, now, end, st.Name, dns.TypeToString[st.Qtype])
			}
			for _, rr := range m.Answer {
				if rr.Header().Rrtype == dns.TypeRRSIG {
					if s := rr.(*dns.RRSIG); g.Zone != nil && g.Zone.Signed && c.Old.Zones[g.Zone.Apex] != nil && c.Old.Zones[g.Zone.Apex].ZSK != nil && g.Zone.ZSK != nil &&
						s.KeyTag == c.Old.Zones[g.Zone.Apex].ZSK.RR.KeyTag() && s.KeyTag != g.Zone.ZSK.RR.KeyTag() && vfmodel.IsSubdomain(g.Zone.Apex, c.Zone) {
						fail("step %d: at t=%s (old lease ended t=%s) the reply carries a signature by the superseded zone's key %d", i, now, end, s.KeyTag)
					}
					continue
				}
				if !allowed[vfNormRR(rr)] {
					fail("step %d: at t=%s (old lease ended t=%s) %s/%s answered %q, which only the superseded delegation published", i, now, end, st.Name, dns.TypeToString[st.Qtype], rr.String())
				}
			}
			if g.Out.Kind == "answer" && !g.Out.CNAME && len(m.Answer) == 0 {
				fail("step %d: at t=%s %s/%s answered empty NOERROR; the namespace publishes data for it", i, now, st.Name, dns.TypeToString[st.Qtype])
			}
		}
		res.Stats["checked-after-lease"] = checked
	})
	return
}

func TestVerifC08Lease(t *testing.T) {
	defer vfstat.Flush()
	vfstat.Quiet()
	const U = "C08.lease"
	dir, _ := os.MkdirTemp(os.Getenv("VERIF_WORKDIR"), "c08")
	defer os.RemoveAll(dir)
	rapid.Check(t, func(rt *rapid.T) {
		c := vfC08Gen(rt)
		r := vfC08Run(t, dir, c)
		if r.Violation != "" {
			rt.Fatalf("%s\n  zone=%s change=%s nsttl=%d dsttl=%d signed=%v prefetch=%d qmin=%d glueless=%v slow-ns=%s slow-keys=%s\n  history:\n    %s", r.Violation, c.Zone, c.Change, c.NSTTL, c.DSTTL, c.Signed, c.Prefetch, c.QMin, c.Glueless, c.SlowNS, c.SlowKey, strings.Join(r.Trace, "\n    "))
		}
		vfstat.Eval(U, 1)
		for k, n := range r.Stats {
			if n > 0 {
				vfstat.Class(U, k)
			}
		}
		vfstat.Class(U, "change:"+c.Change)
		if c.Prefetch > 0 {
			vfstat.Class(U, "prefetch-on")
		}
		if c.NSTTL > 12*3600 {
			vfstat.Class(U, "ttl-above-12h-ceiling")
		}
		if c.Glueless {
			vfstat.Class(U, "glueless")
			if c.Partial {
				vfstat.Class(U, "partially-glued")
			}
			if c.SlowNS > 0 && time.Duration(c.NSTTL)*time.Second < 2*c.SlowNS {
				vfstat.Class(U, "ns-lookup-outlasts-lease")
			}
		}
		if c.Signed && c.DSTTL < c.NSTTL {
			vfstat.Class(U, "ds-ttl-shorter")
		}
		if c.SlowKey > 0 && c.lease() < 4*c.SlowKey {
			vfstat.Class(U, "referral-validation-comparable-to-lease")
		}
		if r.Stats["reply-after-lease"] > 0 && r.Stats["reply-within-old-lease"]+r.Stats["ghost-asked-within-lease"] > 0 {
			var shape []string
			for _, s := range c.Steps {
				shape = append(shape, fmt.Sprint(s.Name, s.Qtype, s.Sleep, s.Change, s.CD))
			}
			vfstat.NonTrivial(U, fmt.Sprint(c.Zone, c.Change, c.NSTTL, c.DSTTL, c.Signed, c.Prefetch, c.Glueless, c.Partial, c.SlowNS, c.SlowKey, shape))
			tr := r.Trace
			if len(tr) > 14 {
				tr = tr[:14]
			}
			vfstat.Sample(U, c.Change+fmt.Sprint(c.Signed, c.Prefetch > 0), map[string]any{"zone": c.Zone, "change": c.Change, "ns_ttl": c.NSTTL, "ds_ttl": c.DSTTL, "history": tr})
		}
	})
}
