package server

// C19 on the resolver-world harness — "an answer for which the authority declared a non-zero scope is served only to
// clients inside that scope". The audience unit runs over a stub upstream, where the upstream's OPT reaches the cache
// as it was sent; here the answer comes from the real iterative resolver, which rebuilds the additional section of
// what it returns. geo.test. is served by an authority that tailors www.geo.test./A to the client subnet it is shown
// (the address it returns spells the subnet) and declares a generated scope; clients from three networks, with and
// without a client-subnet option, ask in generated order with sleeps. Whoever gets a tailored address must have sent
// a subnet - or, having sent none, have an address - inside the network it was tailored for, within the declared scope.

import (
	"fmt"
	"net"
	"net/netip"
	"os"
	"strings"
	"testing"
	"testing/synctest"
	"time"

	"github.com/miekg/dns"
	"github.com/semihalev/sdns/config"
	"github.com/semihalev/sdns/internal/vfgen"
	"github.com/semihalev/sdns/internal/vfstat"
	"github.com/semihalev/sdns/internal/vfworld"
	"pgregory.net/rapid"
)

type vfC19GStep struct {
	Sleep  time.Duration
	Name   string
	With   int  // -1, or a second client asking the same question in the same instant, with its own subnet
	Client int  // index into vfC19GClients
	ECS    bool // the client sends its /24 (or /56) as client subnet
	Wire   bool
	CD     bool
}

var vfC19GClients = []string{"203.0.113.5", "203.0.113.77", "198.18.7.9", "2001:db8:c::5"}

type vfC19GCase struct {
	Scope4, Scope6 uint8 // what the authority declares for IPv4 / IPv6 subnets
	TTL            uint32
	Steps          []vfC19GStep
	W              *vfworld.World
}

func vfC19GGen(rt *rapid.T) *vfC19GCase {
	c := &vfC19GCase{Scope4: uint8(rapid.SampledFrom([]int{0, 16, 24, 24, 32}).Draw(rt, "scope4")), Scope6: uint8(rapid.SampledFrom([]int{0, 48, 56, 64}).Draw(rt, "scope6")),
		TTL: uint32(rapid.SampledFrom([]int{30, 300}).Draw(rt, "ttl"))}
	c.W = vfworld.Build([]vfworld.ZoneSpec{{Apex: ".", Signed: true},
		{Apex: "test.", Signed: true, Owners: map[string][]uint16{"alias.test.": {dns.TypeCNAME}}, Targets: map[string]string{"alias.test.": "www.geo.test."}},
		{Apex: "geo.test.", TTL: c.TTL, Owners: map[string][]uint16{"www.geo.test.": {dns.TypeA}, "in.geo.test.": {dns.TypeCNAME}}, Targets: map[string]string{"in.geo.test.": "www.geo.test."}}})
	n := rapid.IntRange(2, 8).Draw(rt, "nsteps")
	for i := 0; i < n; i++ {
		if i > 0 && rapid.IntRange(0, 4).Draw(rt, "sleep") == 0 {
			c.Steps = append(c.Steps, vfC19GStep{Sleep: time.Duration(rapid.SampledFrom([]int{1, 6, 40, 400}).Draw(rt, "sleepsec")) * time.Second})
			continue
		}
		c.Steps = append(c.Steps, vfC19GStep{Name: rapid.SampledFrom([]string{"www.geo.test.", "www.geo.test.", "alias.test.", "in.geo.test."}).Draw(rt, "name"), With: rapid.SampledFrom([]int{-1, -1, 0, 2, 3}).Draw(rt, "with"), Client: rapid.IntRange(0, len(vfC19GClients)-1).Draw(rt, "client"), ECS: rapid.IntRange(0, 2).Draw(rt, "ecs") != 0,
			Wire: rapid.Bool().Draw(rt, "wire"), CD: rapid.IntRange(0, 7).Draw(rt, "cd") == 0})
	}
	return c
}

// vfC19GTailored spells a subnet into an address: 10.<third octet of a v4 /24 | 0xee for v6>.<scope>.1; the global answer is 10.0.0.1.
func vfC19GTailored(p netip.Prefix, scope uint8) net.IP {
	if p.Addr().Is4() {
		b := p.Addr().As4()
		return net.IPv4(10, b[0]^b[2], scope, 1).To4()
	}
	return net.IPv4(10, 0xee, scope, 1).To4()
}

func vfC19GRun(t *testing.T, dir string, c *vfC19GCase) (violation string, trace []string, stats map[string]int) {
	stats = map[string]int{}
	fail := func(f string, a ...any) {
		if violation == "" {
			violation = fmt.Sprintf(f, a...)
		}
	}
	synctest.Test(t, func(t *testing.T) {
		time.Sleep(time.Until(vfworld.Epoch))
		cfg := vfResolverConfig(dir, c.W)
		cfg.ECS = config.ECSConfig{Enabled: true, ForwardV4Max: 24, ForwardV6Max: 56}
		rw := vfStartResolver(cfg, c.W)
		defer rw.Close()
		tailoredFor := map[string]netip.Prefix{} // address handed out -> the subnet it was tailored for
		rw.Net.Script = func(p vfworld.Packet, n int, req, resp *dns.Msg, info vfworld.Info) vfworld.Action {
			if info.Zone == nil || info.Zone.Apex != "geo.test." || !strings.EqualFold(p.Name, "www.geo.test.") || p.Qtype != dns.TypeA {
				return vfworld.Action{}
			}
			var sub *dns.EDNS0_SUBNET
			if opt := req.IsEdns0(); opt != nil {
				for _, o := range opt.Option {
					if s, ok := o.(*dns.EDNS0_SUBNET); ok {
						sub = s
					}
				}
			}
			ip := net.IPv4(10, 0, 0, 1).To4()
			if sub != nil {
				if a, ok := netip.AddrFromSlice(sub.Address); ok {
					scope := c.Scope4
					if sub.Family == 2 {
						scope = c.Scope6
					}
					if pf, err := a.Unmap().Prefix(int(sub.SourceNetmask)); err == nil && scope > 0 {
						ip = vfC19GTailored(pf, scope)
						tailoredFor[ip.String()] = pf
					}
					o := &dns.OPT{Hdr: dns.RR_Header{Name: ".", Rrtype: dns.TypeOPT}}
					o.SetUDPSize(1232)
					o.Option = append(o.Option, &dns.EDNS0_SUBNET{Code: dns.EDNS0SUBNET, Family: sub.Family, SourceNetmask: sub.SourceNetmask, SourceScope: scope, Address: sub.Address})
					var extra []dns.RR
					for _, rr := range resp.Extra {
						if rr.Header().Rrtype != dns.TypeOPT {
							extra = append(extra, rr)
						}
					}
					resp.Extra = append(extra, o)
				}
			}
			for _, rr := range resp.Answer {
				if a, ok := rr.(*dns.A); ok {
					a.A = ip
				}
			}
			return vfworld.Action{}
		}
		for i, st := range c.Steps {
			if st.Sleep > 0 {
				time.Sleep(st.Sleep)
				trace = append(trace, fmt.Sprintf("t=%s sleep %s", time.Since(vfworld.Epoch), st.Sleep))
				continue
			}
			// one client, or two released in the same instant (the second from another network with its own subnet):
			// their upstream lookups overlap, their answers must not
			type asked struct {
				client netip.Addr
				ecs    bool
				sent   netip.Prefix
				rep    vfReply
			}
			mk := func(ci int, ecs bool, id uint16) (*vfgen.QuerySpec, *asked) {
				a := &asked{client: netip.MustParseAddr(vfC19GClients[ci]), ecs: ecs}
				q := &vfgen.QuerySpec{ID: id, Name: st.Name, Qtype: dns.TypeA, Qclass: dns.ClassINET, RD: true, CD: st.CD, EDNS: true, UDPSize: 1232}
				if ecs {
					bits, fam := 24, uint16(1)
					if a.client.Is6() {
						bits, fam = 56, 2
					}
					a.sent, _ = a.client.Prefix(bits)
					q.Options = []vfgen.OptionSpec{{Kind: "subnet", Code: fam, A: uint8(bits), Addr: a.sent.Addr().String()}}
				}
				return q, a
			}
			n0 := rw.Net.Count()
			q1, a1 := mk(st.Client, st.ECS, uint16(900+i))
			all := []*asked{a1}
			if st.With >= 0 && st.With != st.Client {
				q2, a2 := mk(st.With, true, uint16(950+i))
				all = append(all, a2)
				done := make(chan struct{})
				go func() {
					a2.rep = rw.Ask(q2, "udp", net.IP(a2.client.AsSlice()), !st.Wire)
					close(done)
				}()
				a1.rep = rw.Ask(q1, "udp", net.IP(a1.client.AsSlice()), st.Wire)
				<-done
				stats["two-clients-at-once"]++
			} else {
				a1.rep = rw.Ask(q1, "udp", net.IP(a1.client.AsSlice()), st.Wire)
			}
			synctest.Wait()
			for _, a := range all {
				client, rep := a.client, a.rep
				line := fmt.Sprintf("t=%s %s client %s ecs=%v cd=%v -> ", time.Since(vfworld.Epoch), st.Name, client, a.ecs, st.CD)
				if rep.Msg == nil || rep.Msg.Rcode != dns.RcodeSuccess {
					trace = append(trace, line+"no usable reply")
					continue
				}
				var got net.IP
				for _, rr := range rep.Msg.Answer {
					if x, ok := rr.(*dns.A); ok {
						got = x.A
					}
				}
				trace = append(trace, line+fmt.Sprintf("%v (upstream packets in this step %d)", got, rw.Net.Count()-n0))
				if opt := rep.Msg.IsEdns0(); opt != nil {
					for _, o := range opt.Option {
						if _, ok := o.(*dns.EDNS0_SUBNET); ok {
							fail("step %d: the reply to client %s carries a client-subnet option", i, client)
						}
					}
				}
				if got == nil {
					continue
				}
				stats["answered"]++
				pf, tailored := tailoredFor[got.String()]
				if !tailored {
					stats["global-answer"]++
					continue
				}
				stats["tailored-answer"]++
				if rw.Net.Count() == n0 {
					stats["tailored-answer-from-cache"]++
				}
				scope := int(got[2])
				if scope > pf.Bits() {
					scope = pf.Bits() // never more specific than what was forwarded
				}
				aud, _ := pf.Addr().Prefix(scope)
				// "inside that scope": by the subnet the client sent, or by its own address when it sent none
				where := client
				if a.ecs {
					where = a.sent.Addr()
				}
				if !aud.Contains(where) {
					fail("step %d: client %s (client subnet sent: %v) was served %v, the answer the authority tailored for %s and scoped to /%d - the client is outside %s", i, client, a.ecs, got, pf, got[2], aud)
				}
			}
		}
	})
	return
}

func TestVerifC19Geo(t *testing.T) {
	defer vfstat.Flush()
	vfstat.Quiet()
	const U = "C19.geo"
	dir, _ := os.MkdirTemp(os.Getenv("VERIF_WORKDIR"), "c19g")
	defer os.RemoveAll(dir)
	rapid.Check(t, func(rt *rapid.T) {
		c := vfC19GGen(rt)
		v, trace, stats := vfC19GRun(t, dir, c)
		if v != "" {
			rt.Fatalf("%s\n  authority scopes: ipv4 /%d ipv6 /%d, ttl %d\n  history:\n    %s", v, c.Scope4, c.Scope6, c.TTL, strings.Join(trace, "\n    "))
		}
		vfstat.Eval(U, 1)
		for k, n := range stats {
			if n > 0 {
				vfstat.Class(U, k)
			}
		}
		if stats["tailored-answer"] > 0 && stats["answered"] > 1 {
			vfstat.NonTrivial(U, fmt.Sprint(c.Scope4, c.Scope6, c.TTL, c.Steps))
			vfstat.Sample(U, fmt.Sprint(stats["tailored-answer-from-cache"] > 0), map[string]any{"scope4": c.Scope4, "scope6": c.Scope6, "history": trace})
		}
	})
}
