package server

// C05 — the wire fast path and the decoded path are observationally equivalent.
// The same generated history (configuration, upstream data, query packets, sleeps) is run
// twice in separate synctest bubbles starting at the same virtual instant: once with every
// packet entering through the wire-born (strict) transport, once through the decoded
// transport. Replies are compared as decoded messages (order/case/compression insensitive),
// together with the cache contents and the upstream call log after every step.

import (
	"fmt"
	"os"
	"strings"
	"testing"
	"testing/synctest"
	"time"

	"github.com/miekg/dns"
	"github.com/semihalev/sdns/internal/vfgen"
	"github.com/semihalev/sdns/internal/vfstat"
	"github.com/semihalev/sdns/middleware/cache"
	"pgregory.net/rapid"
)

type vfC05Step struct {
	Sleep  time.Duration
	Q      *vfgen.QuerySpec
	Raw    []byte
	Proto  string
	Client int
	Inline bool // wire run only: enter as the batch UDP reader does (inline pass, then worker replay on a handoff)
	Echo   bool // send the cookie option of the last reply this client got (client + server cookie), as a real client does
}

// vfC05Run executes the history with the given ingress and returns the transcript.
func vfC05Run(t *testing.T, dir string, p vfC05Params, mkUp func() *vfUp, steps []vfC05Step, wire bool) (transcript []string, wireServed int64, kinds map[string]int64) {
	kinds = map[string]int64{}
	synctest.Test(t, func(t *testing.T) {
		w := vfNewWorld(vfC05Config(dir, p), mkUp())
		defer w.Close()
		before := cache.VerifWireStats()
		lastCookie := map[int]string{}
		for i, st := range steps {
			if st.Sleep > 0 {
				time.Sleep(st.Sleep)
				transcript = append(transcript, fmt.Sprintf("step %d sleep %s", i, st.Sleep))
				continue
			}
			raw := st.Raw
			if st.Echo && lastCookie[st.Client] != "" && st.Q != nil {
				q := *st.Q
				q.EDNS = true
				var opts []vfgen.OptionSpec
				for _, o := range q.Options {
					if o.Kind != "cookie" {
						opts = append(opts, o)
					}
				}
				q.Options = append(opts, vfgen.OptionSpec{Kind: "cookie", Data: lastCookie[st.Client]})
				raw = q.Pack()
			}
			var r vfReply
			if wire && st.Inline && st.Proto == "udp" {
				var replayed bool
				r, replayed = w.AskInline(raw, vfgen.ClientAddrs[st.Client], 4000+st.Client)
				kinds["inline"]++
				if replayed {
					kinds["inline_replayed"]++
				}
			} else {
				r = w.Ask(raw, st.Proto, vfgen.ClientAddrs[st.Client], 4000+st.Client, wire)
			}
			synctest.Wait() // a queued background refresh runs to completion before the side effects are read
			if r.Msg != nil {
				if opt := r.Msg.IsEdns0(); opt != nil {
					for _, o := range opt.Option {
						if c, ok := o.(*dns.EDNS0_COOKIE); ok && len(c.Cookie) >= 16 {
							lastCookie[st.Client] = c.Cookie
						}
					}
				}
			}
			line := fmt.Sprintf("step %d handled=%v echo=%v reply: %s", i, r.Handled, st.Echo && raw != nil && len(raw) != len(st.Raw), vfCanon(r))
			// side effects later queries can see: what is cached, what went upstream
			var ents []string
			if w.cache != nil {
				for _, e := range w.cache.VerifStore().VerifEntries() {
					ents = append(ents, fmt.Sprintf("%s/%d/cd=%v/%s/rem=%ds", strings.ToLower(e.Name), e.Qtype, e.CD, e.Scope, int(e.Remaining/time.Second)))
				}
				for _, f := range w.cache.VerifStore().VerifFailures() {
					ents = append(ents, fmt.Sprintf("FAIL:%s/%d/cd=%v/zone=%v/streak=%d/until=%s", strings.ToLower(f.Name), f.Qtype, f.CD, f.Zone, f.Streak, f.RetryAfter.Sub(vfEpoch)))
				}
			}
			line += fmt.Sprintf(" | cache=%v | upstream_calls=%d", ents, w.up.NCalls())
			transcript = append(transcript, line)
		}
		after := cache.VerifWireStats()
		for _, k := range []string{"served", "chase_served", "cut_served", "failure_served"} {
			wireServed += after[k] - before[k]
			kinds[k] = after[k] - before[k]
		}
		synctest.Wait()
	})
	return transcript, wireServed, kinds
}

func TestVerifC05Twin(t *testing.T) {
	defer vfstat.Flush()
	vfstat.Quiet()
	const U = "C05.twin"
	dir, _ := os.MkdirTemp(os.Getenv("VERIF_WORKDIR"), "c05")
	defer os.RemoveAll(dir)
	rapid.Check(t, func(rt *rapid.T) {
		p := vfC05Params{Cookie: rapid.Bool().Draw(rt, "cookie"), NSID: rapid.Bool().Draw(rt, "nsid"), Chaos: rapid.Bool().Draw(rt, "chaos"),
			ClientRate: rapid.SampledFrom([]int{0, 0, 0, 3, 100}).Draw(rt, "clientrate"), EntryRate: rapid.SampledFrom([]int{0, 0, 0, 2, 50}).Draw(rt, "entryrate"), Prefetch: rapid.SampledFrom([]int{0, 0, 50, 90}).Draw(rt, "prefetch")}
		// the upstream table is drawn once and rebuilt identically for both runs
		proto := vfGenUpstream(rt)
		proofZone := rapid.IntRange(0, 2).Draw(rt, "proofzone") > 0
		if proofZone {
			vfAddProofZone(rt, proto)
		}
		mkUp := func() *vfUp {
			u := &vfUp{table: map[string]*vfUpAnswer{}}
			for k, a := range proto.table {
				cp := *a
				u.table[k] = &cp
			}
			return u
		}
		n := rapid.IntRange(2, 14).Draw(rt, "nsteps")
		inlineCase := rapid.Bool().Draw(rt, "inlinecase")
		var steps []vfC05Step
		var classes []string
		type hotQ struct {
			name  string
			qtype uint16
		}
		hots := []hotQ{{"www.example.org.", 1}, {"alias.example.org.", 1}, {"alias2.example.org.", 1}, {"nx.example.org.", 1}, {"signed.example.org.", 1}, {"fail.example.org.", 1},
			{"big.example.org.", 16}, {"ede.example.org.", 1}, {"geo.example.org.", 1}, {"nodata.example.org.", 1}, {"local.test.", 1}, {"1.0.0.10.in-addr.arpa.", 12}, {"deep.nx.example.org.", 1}}
		szNames := []hotQ{{"gone.sz.example.org.", 1}, {"a.b.gone.sz.example.org.", 1}, {"A.B.Gone.SZ.example.org.", 28}, {"x.gone.sz.example.org.", 1}, {"gx.sz.example.org.", 1}, {"nd.sz.example.org.", 16}, {"nd.sz.example.org.", 15}, {"nd.sz.example.org.", 1}, {"zz.sz.example.org.", 1}}
		if proofZone {
			hots = append(hots, szNames[:2]...)
		}
		hot := hots[rapid.IntRange(0, len(hots)-1).Draw(rt, "hot")]
		if proofZone && rapid.Bool().Draw(rt, "hotproof") {
			hot = szNames[0]
		}
		hot2 := hots[rapid.IntRange(0, len(hots)-1).Draw(rt, "hot2")]
		for i := 0; i < n; i++ {
			if rapid.IntRange(0, 3).Draw(rt, "issleep") == 0 {
				steps = append(steps, vfC05Step{Sleep: time.Duration(rapid.SampledFrom([]int{1, 2, 4, 5, 6, 29, 31, 299, 3000}).Draw(rt, "sleep")) * time.Second})
				continue
			}
			q := vfgen.GenQuery(rt, true)
			switch rapid.IntRange(0, 5).Draw(rt, "usehot") { // make repeated questions (cache hits) common
			case 0, 1, 2:
				q.Name, q.Qtype = hot.name, hot.qtype
			case 3:
				q.Name, q.Qtype = hot2.name, hot2.qtype
			case 4:
				if proofZone {
					// validated negative proofs: the denied name, names below it, names the same NSEC covers, other types
					// at a NODATA owner - in both CD partitions
					z := szNames[rapid.IntRange(0, len(szNames)-1).Draw(rt, "szname")]
					q.Name, q.Qtype = z.name, z.qtype
					if len(q.Edits) == 0 {
						q.Qclass = dns.ClassINET
					}
				}
			}
			steps = append(steps, vfC05Step{Q: q, Raw: q.Pack(), Proto: rapid.SampledFrom([]string{"udp", "udp", "tcp"}).Draw(rt, "proto"), Client: rapid.IntRange(0, len(vfgen.ClientAddrs)-1).Draw(rt, "client"),
				Echo: p.Cookie && rapid.IntRange(0, 2).Draw(rt, "echo") == 0, Inline: inlineCase && rapid.IntRange(0, 3).Draw(rt, "inline") > 0})
			if len(q.Edits) > 0 {
				classes = append(classes, "edited-packet")
			}
		}
		if p.Cookie && p.ClientRate > 0 && rapid.IntRange(0, 1).Draw(rt, "rotation") == 0 {
			// a client that rotates its cookie while switching transports, then echoes what it was given: the per-client
			// stored cookie is state the limiter keeps between packets
			cl := rapid.IntRange(0, len(vfgen.ClientAddrs)-1).Draw(rt, "rot.client")
			mk := func(cookie, proto string, echo bool, id uint16) vfC05Step {
				q := &vfgen.QuerySpec{ID: id, Name: hot.name, Qtype: hot.qtype, Qclass: dns.ClassINET, RD: true, EDNS: true, UDPSize: 1232, Options: []vfgen.OptionSpec{{Kind: "cookie", Data: cookie}}}
				return vfC05Step{Q: q, Raw: q.Pack(), Proto: proto, Client: cl, Echo: echo}
			}
			rot := []vfC05Step{mk("0102030405060708", "udp", false, 901), mk("1112131415161718", rapid.SampledFrom([]string{"tcp", "tcp", "udp"}).Draw(rt, "rot.proto"), false, 902), mk("1112131415161718", "udp", true, 903)}
			at := rapid.IntRange(0, len(steps)).Draw(rt, "rot.at")
			steps = append(steps[:at], append(rot, steps[at:]...)...)
			classes = append(classes, "cookie-rotation-across-transports")
		}
		if p.EntryRate > 0 && rapid.IntRange(0, 2).Draw(rt, "bigburst") == 0 {
			// a burst on one cached question whose answer does not fit the client's datagram: each packet costs the
			// entry's limiter exactly one token whichever way it came in, so both ingresses run dry at the same packet
			edns := rapid.Bool().Draw(rt, "bb.edns")
			size := uint16(rapid.SampledFrom([]int{512, 700, 1232}).Draw(rt, "bb.size"))
			k := rapid.IntRange(3, 6).Draw(rt, "bb.n")
			at := rapid.IntRange(0, len(steps)).Draw(rt, "bb.at")
			var burst []vfC05Step
			for i := 0; i < k; i++ {
				q := &vfgen.QuerySpec{ID: uint16(800 + i), Name: "big.example.org.", Qtype: dns.TypeTXT, Qclass: dns.ClassINET, RD: true, EDNS: edns, UDPSize: size}
				burst = append(burst, vfC05Step{Q: q, Raw: q.Pack(), Proto: "udp", Client: rapid.IntRange(0, len(vfgen.ClientAddrs)-1).Draw(rt, "bb.client"), Inline: rapid.IntRange(0, 3).Draw(rt, "bb.inline") > 0})
			}
			steps = append(steps[:at], append(burst, steps[at:]...)...)
			classes = append(classes, "oversized-hit-burst-under-entry-limit")
		}
		tw, served, kinds := vfC05Run(t, dir, p, mkUp, steps, true)
		tm, _, _ := vfC05Run(t, dir, p, mkUp, steps, false)
		if len(tw) != len(tm) {
			rt.Fatalf("transcripts differ in length: wire %d decoded %d", len(tw), len(tm))
		}
		for i := range tw {
			if tw[i] != tm[i] {
				var desc any
				k := 0
				for j, st := range steps {
					_ = j
					if st.Q != nil && strings.HasPrefix(tw[i], fmt.Sprintf("step %d ", j)) {
						desc = st.Q.Describe()
					}
					k++
				}
				rt.Fatalf("wire-born and decoded ingress diverge at %q\n  wire:    %s\n  decoded: %s\n  query: %v\n  params: %+v\n  history so far (wire): %s", strings.SplitN(tw[i], " ", 3)[1], tw[i], tm[i], desc, p, strings.Join(tw[:i], "\n    "))
			}
		}
		vfstat.Eval(U, 1)
		if served > 0 {
			vfstat.Class(U, "wire-served")
		}
		for k, n := range kinds {
			if n > 0 {
				vfstat.Class(U, "wire:"+k)
			}
		}
		for _, line := range tw {
			if strings.Contains(line, "reply: <no reply>") {
				vfstat.Class(U, "has-dropped-packet")
				break
			}
		}
		for _, c := range classes {
			vfstat.Class(U, c)
		}
		if served > 0 || len(classes) > 0 {
			var shape []string
			for _, st := range steps {
				if st.Q == nil {
					shape = append(shape, "s")
				} else {
					shape = append(shape, fmt.Sprintf("%s/%d/%v%v%v/%v", st.Q.Name, st.Q.Qtype, st.Q.CD, st.Q.DO, st.Q.EDNS, st.Q.Edits))
				}
			}
			vfstat.NonTrivial(U, strings.Join(shape, ",")+fmt.Sprint(p))
			var sample []any
			for _, st := range steps {
				if st.Q != nil {
					sample = append(sample, st.Q.Describe())
				} else {
					sample = append(sample, "sleep "+st.Sleep.String())
				}
			}
			vfstat.Sample(U, fmt.Sprint(served > 0), map[string]any{"params": fmt.Sprintf("%+v", p), "steps": sample, "wire_served": served})
		}
	})
}
