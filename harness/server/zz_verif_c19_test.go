package server

// C19 — client subnet data is neither leaked upstream nor across audiences.
// Generated ECS policies (incl. invalid ones), client addresses, client-sent options (hand-
// encoded, malformed ones included) and authority scopes drive the real default chain. The
// upstream stub records exactly which EDNS options reach it and stamps its answers with the
// subnet it was shown, so the harness can tell which audience every cached answer belongs to.

import (
	"context"
	"fmt"
	"net"
	"net/netip"
	"os"
	"strings"
	"sync"
	"testing"
	"testing/synctest"
	"time"

	"github.com/miekg/dns"
	"github.com/semihalev/sdns/config"
	"github.com/semihalev/sdns/internal/vfgen"
	"github.com/semihalev/sdns/internal/vfstat"
	"github.com/semihalev/sdns/middleware"
	"pgregory.net/rapid"
)

type vfC19Call struct {
	Name    string
	Options []string // "ecs:fam:addr/bits/scope" or "optNN"
	ECS     *netip.Prefix
	Idx     int
}

type vfC19Up struct {
	mu     sync.Mutex
	calls  []vfC19Call
	scopes map[string]int // lower(name) -> authority scope bits (0 = global, -1 = no ECS in answer)
	ttl    uint32
}

func (u *vfC19Up) Name() string { return "vfupstream" }
func (u *vfC19Up) N() int {
	u.mu.Lock()
	defer u.mu.Unlock()
	return len(u.calls)
}

func (u *vfC19Up) ServeDNS(ctx context.Context, ch *middleware.Chain) {
	ctx, req := ch.Materialize(ctx)
	if req == nil || len(req.Question) == 0 {
		ch.Cancel()
		return
	}
	q := req.Question[0]
	call := vfC19Call{Name: strings.ToLower(q.Name)}
	var seen *dns.EDNS0_SUBNET
	// everything in the additional section travels upstream, not only the OPT the library would select
	for _, xr := range req.Extra {
		opt, isOPT := xr.(*dns.OPT)
		if !isOPT {
			continue
		}
		call.Options = append(call.Options, vfRenderOptions(opt)...)
		for _, o := range opt.Option {
			if s, ok := o.(*dns.EDNS0_SUBNET); ok {
				seen = s
				if a, ok := netip.AddrFromSlice(s.Address); ok {
					if p, err := a.Unmap().Prefix(int(s.SourceNetmask)); err == nil {
						call.ECS = &p
					}
				}
			}
		}
	}
	u.mu.Lock()
	call.Idx = len(u.calls) + 1
	u.calls = append(u.calls, call)
	scope, ok := u.scopes[call.Name]
	ttl := u.ttl
	u.mu.Unlock()
	if !ok {
		scope = -1
	}
	resp := new(dns.Msg)
	resp.SetReply(req)
	resp.RecursionAvailable = true
	// the answer is stamped with the index of the upstream call that produced it
	resp.Answer = []dns.RR{&dns.A{Hdr: dns.RR_Header{Name: q.Name, Rrtype: dns.TypeA, Class: dns.ClassINET, Ttl: ttl}, A: net.IPv4(10, 99, byte(call.Idx>>8), byte(call.Idx)).To4()}}
	if q.Qtype != dns.TypeA {
		resp.Answer = nil
		resp.Ns = []dns.RR{&dns.SOA{Hdr: dns.RR_Header{Name: "test.", Rrtype: dns.TypeSOA, Class: dns.ClassINET, Ttl: ttl}, Ns: "ns.test.", Mbox: "h.test.", Serial: uint32(call.Idx), Refresh: 1, Retry: 1, Expire: 1, Minttl: ttl}}
	}
	if opt := req.IsEdns0(); opt != nil {
		o := &dns.OPT{Hdr: dns.RR_Header{Name: ".", Rrtype: dns.TypeOPT}}
		o.SetUDPSize(1232)
		if seen != nil && scope > 32 && seen.Family == 1 {
			scope = 32 // an authority never declares a scope longer than the address family allows
		}
		if seen != nil && scope >= 0 {
			o.Option = append(o.Option, &dns.EDNS0_SUBNET{Code: dns.EDNS0SUBNET, Family: seen.Family, SourceNetmask: seen.SourceNetmask, SourceScope: uint8(scope), Address: seen.Address})
		}
		resp.Extra = append(resp.Extra, o)
	}
	_ = ch.Writer.WriteMsg(resp)
	ch.Cancel()
}

type vfC19Step struct {
	Sleep  time.Duration
	Name   string
	Client string
	Opts   []vfgen.OptionSpec
	EDNS   bool
	CD     bool
	Wire   bool
	Proto  string
	Ver    uint8 // EDNS version of the query (non-zero: answered BADVERS by sdns itself)
	DupOPT bool  // a second, bare OPT record follows the one that carries the options
}

type vfC19Case struct {
	Enabled        bool
	F4, F6, M4, M6 uint8
	Nets           []string
	Cap            int
	Prefetch       int
	Steps          []vfC19Step
}

// vfC19Forwarded: the reference for what may leave toward upstream for this client/option.
func vfC19Forwarded(c *vfC19Case, valid bool, client netip.Addr, opts []vfgen.OptionSpec) *netip.Prefix {
	if !c.Enabled || !valid {
		return nil
	}
	if len(c.Nets) > 0 {
		in := false
		for _, n := range c.Nets {
			if p, err := netip.ParsePrefix(n); err == nil && p.Contains(client) {
				in = true
			}
		}
		if !in {
			return nil
		}
	}
	var last *vfgen.OptionSpec
	for i := range opts {
		if opts[i].Kind == "rawsubnet" {
			last = &opts[i]
		}
	}
	if last == nil {
		return nil
	}
	raw := vfUnhex(last.Data)
	var a netip.Addr
	switch last.Code {
	case 1:
		var b [4]byte
		if len(raw) > 4 {
			return nil
		}
		copy(b[:], raw)
		a = netip.AddrFrom4(b)
	case 2:
		var b [16]byte
		if len(raw) > 16 {
			return nil
		}
		copy(b[:], raw)
		a = netip.AddrFrom16(b)
		if a.Is4In6() {
			return nil
		}
	default:
		return nil
	}
	ceil := c.F4
	if ceil == 0 {
		ceil = 24
	}
	if last.Code == 2 {
		ceil = c.F6
		if ceil == 0 {
			ceil = 56
		}
	}
	bits := last.A
	if bits > ceil {
		bits = ceil
	}
	p, err := a.Prefix(int(bits))
	if err != nil {
		return nil
	}
	return &p
}

func vfUnhex(s string) []byte {
	out := make([]byte, 0, len(s)/2)
	for i := 0; i+1 < len(s); i += 2 {
		var b byte
		fmt.Sscanf(s[i:i+2], "%02x", &b)
		out = append(out, b)
	}
	return out
}

func vfC19Run(t *testing.T, dir string, c *vfC19Case) (violation string, stats map[string]int, trace []string) {
	stats = map[string]int{}
	synctest.Test(t, func(t *testing.T) {
		cfg := vfBaseConfig(dir)
		cfg.Prefetch = uint32(c.Prefetch)
		cfg.ECS = config.ECSConfig{Enabled: c.Enabled, ForwardV4Max: c.F4, ForwardV6Max: c.F6, MinScopeV4: c.M4, MinScopeV6: c.M6, ClientNetworks: c.Nets}
		cfg.ECS.CacheLimitTTL.Duration = time.Duration(c.Cap) * time.Second
		valid := c.F4 <= 32 && c.F6 <= 128 && c.M4 <= 32 && c.M6 <= 128
		for _, n := range c.Nets {
			if _, err := netip.ParsePrefix(n); err != nil {
				valid = false
			}
		}
		up := &vfC19Up{scopes: map[string]int{"s0.test.": 0, "s8.test.": 8, "s16.test.": 16, "s20.test.": 20, "s24.test.": 24, "s32.test.": 32, "s48.test.": 48, "s56.test.": 56, "s64.test.": 64, "none.test.": -1}, ttl: 300}
		s, done := vfBuildServerWith(cfg, up)
		defer done()
		w := &vfWorld{s: s, cfg: cfg}
		fail := func(f string, a ...any) {
			if violation == "" {
				violation = fmt.Sprintf(f, a...) + "\nhistory:\n  " + strings.Join(trace, "\n  ")
			}
		}
		floor := func(is6 bool) int {
			f, ce := c.M4, c.F4
			if is6 {
				f, ce = c.M6, c.F6
			}
			if ce == 0 {
				ce = 24
				if is6 {
					ce = 56
				}
			}
			if f == 0 {
				f = ce
			}
			return int(f)
		}
		// what each upstream call's answer may be reused for
		type stored struct {
			scope  netip.Prefix // invalid = shared
			at     time.Duration
			scoped bool
		}
		byIdx := map[int]stored{}
		for si, st := range c.Steps {
			now := time.Since(vfEpoch)
			if st.Name == "" {
				time.Sleep(st.Sleep)
				trace = append(trace, fmt.Sprintf("t=%s sleep %s", now, st.Sleep))
				continue
			}
			client := netip.MustParseAddr(st.Client)
			q := &vfgen.QuerySpec{ID: uint16(500 + si), Name: st.Name, Qtype: dns.TypeA, Qclass: dns.ClassINET, RD: true, CD: st.CD, EDNS: st.EDNS || len(st.Opts) > 0, UDPSize: 1232, Options: st.Opts}
			q.Version = st.Ver
			if st.DupOPT && q.EDNS {
				q.Edits = []string{"dupopt"}
			}
			raw := q.Pack()
			if st.DupOPT && q.EDNS {
				// the OPT that counts is the last one, and that one is bare: version 0, no options. What the shadowed
				// OPT carries is the client's all the same, and nothing of it may be seen upstream
				st.Ver, st.Opts = 0, nil
				stats["shadowed-opt"]++
			}
			before := up.N()
			r := w.Ask(raw, st.Proto, net.IP(client.AsSlice()), 4000, st.Wire)
			synctest.Wait()
			if st.Ver != 0 && q.EDNS {
				// sdns answers this one itself (BADVERS): nothing goes upstream, and no client subnet comes back - neither
				// the client's own option nor the form prepared for forwarding
				trace = append(trace, fmt.Sprintf("t=%s %s from %s with EDNS version %d opts=%v", now, st.Name, st.Client, st.Ver, st.Opts))
				if up.N() != before {
					fail("step %d: a query with EDNS version %d was sent upstream", si, st.Ver)
					return
				}
				if r.Msg != nil {
					if opt := r.Msg.IsEdns0(); opt != nil {
						for _, o := range opt.Option {
							if e, ok := o.(*dns.EDNS0_SUBNET); ok {
								fail("step %d: the reply (rcode %d) to an EDNS version %d query carries the client-subnet option %s", si, r.Msg.Rcode, st.Ver, e.String())
								return
							}
						}
					}
				}
				stats["badvers-with-options"]++
				continue
			}
			up.mu.Lock()
			calls := append([]vfC19Call(nil), up.calls[before:]...)
			up.mu.Unlock()
			want := vfC19Forwarded(c, valid, client.Unmap(), st.Opts)
			line := fmt.Sprintf("t=%s %s from %s opts=%v cd=%v wire=%v -> upstream calls=%d", now, st.Name, st.Client, q.Describe()["options"], st.CD, st.Wire, len(calls))
			// 1. what reaches upstream
			for _, cl := range calls {
				line += fmt.Sprintf(" [up#%d opts=%v]", cl.Idx, cl.Options)
				for _, o := range cl.Options {
					if !strings.HasPrefix(o, "ecs:") {
						trace = append(trace, line)
						fail("step %d: client-supplied option %s reached upstream", si, o)
						return
					}
				}
				if want == nil && cl.ECS != nil {
					trace = append(trace, line)
					fail("step %d: client subnet %v was forwarded although forwarding is not permitted here (enabled=%v valid-config=%v networks=%v client=%s)", si, cl.ECS, c.Enabled, valid, c.Nets, st.Client)
					return
				}
				if want != nil {
					stats["forwarding-permitted"]++
					if cl.ECS == nil {
						// dropping the option is always safe; only leaks are violations
						stats["permitted-but-dropped"]++
					} else if *cl.ECS != *want {
						trace = append(trace, line)
						fail("step %d: forwarded subnet %v, reference (ceiling, host bits zeroed) %v", si, cl.ECS, want)
						return
					}
				}
				// bookkeeping: the audience this answer may serve
				sc, ok := up.scopes[cl.Name]
				if cl.ECS != nil && cl.ECS.Addr().Is4() && sc > 32 {
					sc = 32
				}
				stRec := stored{at: now}
				if cl.ECS != nil && ok && sc > 0 {
					bits := sc
					if cl.ECS.Bits() < bits {
						bits = cl.ECS.Bits()
					}
					if fl := floor(cl.ECS.Addr().Is6()); bits > fl {
						bits = fl
					}
					stRec.scope, _ = cl.ECS.Addr().Prefix(bits)
					stRec.scoped = bits > 0 // a /0 scope is the shared audience
				}
				byIdx[cl.Idx] = stRec
			}
			trace = append(trace, line)
			if r.Msg == nil {
				continue
			}
			// 2. never ECS toward the client
			if opt := r.Msg.IsEdns0(); opt != nil {
				for _, o := range opt.Option {
					if _, ok := o.(*dns.EDNS0_SUBNET); ok {
						fail("step %d: reply carries a client-subnet option", si)
						return
					}
				}
			}
			// 3. audience of a cached answer
			if len(r.Msg.Answer) == 1 {
				if a, ok := r.Msg.Answer[0].(*dns.A); ok {
					ip := a.A.To4()
					if ip != nil && ip[0] == 10 && ip[1] == 99 {
						idx := int(ip[2])<<8 | int(ip[3])
						rec, known := byIdx[idx]
						fresh := false
						for _, cl := range calls {
							if cl.Idx == idx {
								fresh = true
							}
						}
						if known && !fresh {
							stats["served-from-cache"]++
							if rec.scoped {
								stats["scoped-entry-hit"]++
								if want == nil {
									fail("step %d: %s from %s (no subnet forwarded for it) was served the answer scoped to %v (upstream call #%d)", si, st.Name, st.Client, rec.scope, idx)
									return
								}
								if !(want.Bits() >= rec.scope.Bits() && rec.scope.Contains(want.Addr())) {
									fail("step %d: %s from subnet %v was served the answer scoped to %v (upstream call #%d)", si, st.Name, want, rec.scope, idx)
									return
								}
								if c.Cap > 0 && now-rec.at >= time.Duration(c.Cap)*time.Second {
									fail("step %d: scoped answer (call #%d at t=%s) still served at t=%s, beyond the scoped TTL limit of %ds", si, idx, rec.at, now, c.Cap)
									return
								}
								if c.Cap > 0 && a.Hdr.Ttl > uint32(c.Cap) {
									fail("step %d: scoped answer shows TTL %d above the scoped TTL limit %d", si, a.Hdr.Ttl, c.Cap)
									return
								}
								// never background-refreshed: a hit on a scoped entry starts no upstream work
								if len(calls) != 0 {
									fail("step %d: a hit on the scoped entry (call #%d) was accompanied by %d upstream call(s) — scoped entries must not be refreshed in the background", si, idx, len(calls))
									return
								}
							} else {
								stats["shared-entry-hit"]++
							}
						}
					}
				}
			}
		}
	})
	return violation, stats, trace
}

func vfC19Gen(rt *rapid.T) *vfC19Case {
	c := &vfC19Case{Enabled: rapid.IntRange(0, 4).Draw(rt, "enabled") != 0,
		F4: uint8(rapid.SampledFrom([]int{0, 16, 20, 24, 24, 32, 40}).Draw(rt, "f4")), F6: uint8(rapid.SampledFrom([]int{0, 48, 56, 56, 64, 129}).Draw(rt, "f6")),
		M4: uint8(rapid.SampledFrom([]int{0, 8, 16, 24, 32}).Draw(rt, "m4")), M6: uint8(rapid.SampledFrom([]int{0, 32, 48, 56}).Draw(rt, "m6")),
		Nets:     rapid.SampledFrom([][]string{nil, nil, {"203.0.113.0/24", "2001:db8:abcd::/48"}, {"0.0.0.0/0", "::/0"}, {"not-a-cidr"}}).Draw(rt, "nets"),
		Cap:      rapid.SampledFrom([]int{0, 7, 60}).Draw(rt, "cap"),
		Prefetch: rapid.SampledFrom([]int{0, 50, 90}).Draw(rt, "prefetch")}
	name := rapid.SampledFrom([]string{"s0.test.", "s8.test.", "s16.test.", "s20.test.", "s24.test.", "s32.test.", "s56.test.", "none.test."}).Draw(rt, "name")
	clients := []string{"203.0.113.7", "203.0.113.200", "203.0.112.9", "198.51.100.9", "2001:db8:abcd::7", "2001:db8:abcd:1::9", "2001:db8:ffff::1"}
	n := rapid.IntRange(2, 10).Draw(rt, "nsteps")
	for i := 0; i < n; i++ {
		if rapid.IntRange(0, 4).Draw(rt, "issleep") == 0 {
			c.Steps = append(c.Steps, vfC19Step{Sleep: time.Duration(rapid.SampledFrom([]int{1, 5, 8, 100, 160, 280, 301}).Draw(rt, "sleep")) * time.Second})
			continue
		}
		if k := len(c.Steps); k > 0 && rapid.IntRange(0, 4).Draw(rt, "again") == 0 {
			// the same client asks the same thing again (possibly after a sleep): hits on what its first question stored
			for j := k - 1; j >= 0; j-- {
				if c.Steps[j].Name != "" && c.Steps[j].Ver == 0 {
					again := c.Steps[j]
					again.Wire = rapid.Bool().Draw(rt, "wire")
					c.Steps = append(c.Steps, again)
					break
				}
			}
			continue
		}
		st := vfC19Step{Name: name, Client: rapid.SampledFrom(clients).Draw(rt, "client"), EDNS: rapid.Bool().Draw(rt, "edns"), CD: rapid.IntRange(0, 7).Draw(rt, "cd") == 0, Ver: rapid.SampledFrom([]uint8{0, 0, 0, 0, 0, 0, 0, 0, 0, 0, 0, 0, 0, 0, 0, 0, 0, 0, 0, 0, 0, 0, 1, 255}).Draw(rt, "ednsversion"),
			Wire: rapid.Bool().Draw(rt, "wire"), Proto: rapid.SampledFrom([]string{"udp", "tcp"}).Draw(rt, "proto"), DupOPT: rapid.IntRange(0, 7).Draw(rt, "dupopt") == 0}
		if rapid.IntRange(0, 3).Draw(rt, "othername") == 0 {
			st.Name = rapid.SampledFrom([]string{"s0.test.", "s24.test.", "s16.test.", "none.test."}).Draw(rt, "name2")
		}
		// client-sent options
		if rapid.IntRange(0, 3).Draw(rt, "hasecs") != 0 {
			fam := rapid.SampledFrom([]uint16{1, 1, 1, 2, 2, 0, 3}).Draw(rt, "fam")
			mask := uint8(rapid.SampledFrom([]int{0, 8, 16, 20, 24, 25, 28, 32, 33, 48, 56, 57, 64, 128}).Draw(rt, "mask"))
			var addr net.IP
			if fam == 2 {
				addr = net.ParseIP(rapid.SampledFrom([]string{"2001:db8:abcd:12ff:ffff::1", "2001:db8:abcd::", "2001:db8:ffff:ffff::"}).Draw(rt, "a6"))
			} else {
				addr = net.ParseIP(rapid.SampledFrom([]string{"203.0.113.77", "203.0.113.255", "203.0.112.1", "198.51.100.200"}).Draw(rt, "a4")).To4()
			}
			nb := (int(mask) + 7) / 8
			switch rapid.IntRange(0, 4).Draw(rt, "alen") {
			case 0:
				nb = len(addr) // host bits present
			}
			if nb > len(addr) {
				nb = len(addr)
			}
			st.Opts = append(st.Opts, vfgen.OptionSpec{Kind: "rawsubnet", Code: fam, A: mask, B: uint8(rapid.SampledFrom([]int{0, 0, 24}).Draw(rt, "cscope")), Data: fmt.Sprintf("%x", []byte(addr[:nb]))})
		}
		for _, k := range []string{"cookie", "nsid", "padding", "local", "keepalive"} {
			if rapid.IntRange(0, 3).Draw(rt, "opt."+k) == 0 {
				o := vfgen.OptionSpec{Kind: k}
				switch k {
				case "cookie":
					o.Data = "0102030405060708"
				case "padding":
					o.Data = "0000000000"
				case "local":
					o.Code, o.Data = 65001, "beef"
				case "keepalive":
					o.Code = 100
				}
				st.Opts = append(st.Opts, o)
			}
		}
		c.Steps = append(c.Steps, st)
	}
	return c
}

func TestVerifC19Audience(t *testing.T) {
	defer vfstat.Flush()
	vfstat.Quiet()
	const U = "C19.audience"
	dir, _ := os.MkdirTemp(os.Getenv("VERIF_WORKDIR"), "c19")
	defer os.RemoveAll(dir)
	rapid.Check(t, func(rt *rapid.T) {
		c := vfC19Gen(rt)
		v, stats, trace := vfC19Run(t, dir, c)
		if v != "" {
			rt.Fatalf("%s\npolicy: enabled=%v ceilings=%d/%d floors=%d/%d networks=%v cap=%ds prefetch=%d", v, c.Enabled, c.F4, c.F6, c.M4, c.M6, c.Nets, c.Cap, c.Prefetch)
		}
		vfstat.Eval(U, 1)
		var cls []string
		for k, n := range stats {
			if n > 0 {
				vfstat.Class(U, k)
				cls = append(cls, k)
			}
		}
		if !c.Enabled {
			vfstat.Class(U, "policy-disabled")
		}
		if stats["forwarding-permitted"] > 0 || stats["scoped-entry-hit"] > 0 {
			var shape []string
			for _, s := range c.Steps {
				shape = append(shape, fmt.Sprint(s.Name, s.Client, len(s.Opts), s.CD, s.Sleep/time.Second))
			}
			vfstat.NonTrivial(U, fmt.Sprint(c.Enabled, c.F4, c.F6, c.M4, c.M6, c.Nets, c.Cap, shape))
			if len(trace) > 12 {
				trace = trace[:12]
			}
			vfstat.Sample(U, fmt.Sprint(cls), map[string]any{"policy": fmt.Sprintf("enabled=%v ceilings=%d/%d floors=%d/%d networks=%v cap=%ds", c.Enabled, c.F4, c.F6, c.M4, c.M6, c.Nets, c.Cap), "classes": cls, "history": trace})
		}
	})
}
