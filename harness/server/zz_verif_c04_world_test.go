package server

// C04 / C02 / C19 on the resolver-world harness — lifetimes and provenance of everything served from cache,
// RFC 8198 synthesis included. Every record an authority sends is logged with its TTL and the client question
// that was being resolved; every record in a client reply must then be young enough, answers composed from
// several cached pieces must carry the shortest piece's lifetime, a synthesised denial must agree with the
// zone's ground truth, and no piece of one may stem only from questions that carried a client subnet option.

import (
	"fmt"
	"net"
	"os"
	"sort"
	"strings"
	"testing"
	"testing/synctest"
	"time"

	"github.com/miekg/dns"
	"github.com/semihalev/sdns/config"
	"github.com/semihalev/sdns/internal/vfgen"
	"github.com/semihalev/sdns/internal/vfstat"
	"github.com/semihalev/sdns/internal/vfworld"
	"pgregory.net/rapid"
)

type vfC04WStep struct {
	Name   string
	Qtype  uint16
	Sleep  time.Duration
	DO     bool
	CD     bool
	Wire   bool
	ECS    string // the client subnet option the client sent: "" none, "valid", or one of the malformed / refused shapes
	Client byte
}

type vfC04WCase struct {
	W       *vfworld.World
	ECSOn   bool
	Steps   []vfC04WStep
	TTLs    []int
	NegTTLs []int
}

func vfC04WGen(rt *rapid.T) *vfC04WCase {
	c := &vfC04WCase{ECSOn: rapid.Bool().Draw(rt, "ecs-on")}
	ttl := func(l string) uint32 { return uint32(rapid.SampledFrom([]int{5, 20, 60, 300}).Draw(rt, l)) }
	neg := func(l string) uint32 { return uint32(rapid.SampledFrom([]int{5, 20, 60}).Draw(rt, l)) }
	owners := map[string][]uint16{}
	labels := []string{"a", "c", "e", "g", "k", "m", "p", "t", "x"}
	n := rapid.IntRange(2, 6).Draw(rt, "nowners")
	for i := 0; i < n; i++ {
		l := rapid.SampledFrom(labels).Draw(rt, "owner")
		owners[l+".z.test."] = []uint16{dns.TypeA}
	}
	if rapid.Bool().Draw(rt, "deep") {
		owners["a.d.z.test."] = []uint16{dns.TypeA}
	}
	if rapid.IntRange(0, 3).Draw(rt, "wild") == 0 {
		owners["*.w.z.test."] = []uint16{dns.TypeTXT}
	}
	// an existing name whose spelling ends like the denied nope.z.test. but whose first label holds a literal dot
	lookalike := rapid.Bool().Draw(rt, "lookalike")
	if lookalike {
		owners["x\\.nope.z.test."] = []uint16{dns.TypeA}
	}
	// aliases whose target lives shorter (or longer) than the alias: one across the cut, one inside the zone
	var hosts []string
	for o := range owners {
		if !strings.HasPrefix(o, "*") && !strings.HasPrefix(o, "a.d.") {
			hosts = append(hosts, o)
		}
	}
	sort.Strings(hosts)
	tldOwners := map[string][]uint16{"alias.test.": {dns.TypeCNAME}, "ali.test.": {dns.TypeCNAME}}
	tldTargets := map[string]string{"alias.test.": "nope.z.test.", "ali.test.": rapid.SampledFrom(hosts).Draw(rt, "alitarget")}
	owners["al.z.test."] = []uint16{dns.TypeCNAME}
	zTargets := map[string]string{"al.z.test.": rapid.SampledFrom(hosts).Draw(rt, "altarget")}
	zTTLs := map[string]uint32{"al.z.test./CNAME": ttl("alttl")}
	specs := []vfworld.ZoneSpec{
		{Apex: ".", Signed: true, TTL: 3600, NegTTL: 3600},
		{Apex: "test.", Signed: true, TTL: 3600, NegTTL: neg("tldneg"), Owners: tldOwners, Targets: tldTargets},
		{Apex: "z.test.", Signed: true, NSEC3: rapid.IntRange(0, 3).Draw(rt, "nsec3") == 0, TTL: ttl("zttl"), NegTTL: neg("zneg"), Owners: owners, Targets: zTargets, TTLs: zTTLs},
	}
	c.W = vfworld.Build(specs)
	qlabels := []string{"a", "b", "c", "d", "e", "f", "g", "h", "k", "l", "m", "n", "p", "q", "t", "u", "x", "y", "zz"}
	if rapid.IntRange(0, 2).Draw(rt, "aliasopening") == 0 {
		// the target first, then its alias (fetched while the target sits in cache), then the alias again from cache
		al := rapid.SampledFrom([]string{"ali.test.", "al.z.test."}).Draw(rt, "aliaswhich")
		tg := tldTargets["ali.test."]
		if al == "al.z.test." {
			tg = zTargets["al.z.test."]
		}
		st := vfC04WStep{DO: rapid.Bool().Draw(rt, "do"), Wire: rapid.Bool().Draw(rt, "wire"), Client: 1, Qtype: dns.TypeA}
		st.Name = tg
		c.Steps = append(c.Steps, st)
		if rapid.Bool().Draw(rt, "aliasgap") {
			c.Steps = append(c.Steps, vfC04WStep{Sleep: time.Duration(rapid.SampledFrom([]int{1, 3, 4}).Draw(rt, "sleepsec")) * time.Second})
		}
		st.Name = al
		c.Steps = append(c.Steps, st)
		st.Wire = rapid.Bool().Draw(rt, "wire")
		c.Steps = append(c.Steps, st)
		c.Steps = append(c.Steps, vfC04WStep{Sleep: time.Duration(rapid.SampledFrom([]int{1, 3, 6, 21}).Draw(rt, "sleepsec")) * time.Second})
		c.Steps = append(c.Steps, st)
	}
	if rapid.IntRange(0, 3).Draw(rt, "twopiece") == 0 {
		// a denial synthesised from pieces of different age: two unasked names of one gap between owners, asked a while
		// apart with another gap's name in between - the second is answered from the first one's (older) covering record
		// and a younger apex record
		var ols []string
		for o := range owners {
			if l := strings.TrimSuffix(o, ".z.test."); l != o && !strings.Contains(l, ".") && !strings.HasPrefix(l, "*") && !strings.Contains(l, "\\") {
				ols = append(ols, l)
			}
		}
		ols = append(ols, "ns1")
		sort.Strings(ols)
		gapOf := func(l string) int { return sort.SearchStrings(ols, l) }
		isOwner := func(l string) bool { i := sort.SearchStrings(ols, l); return i < len(ols) && ols[i] == l }
		byGap := map[int][]string{}
		for _, l := range qlabels {
			if !isOwner(l) {
				byGap[gapOf(l)] = append(byGap[gapOf(l)], l)
			}
		}
		var gaps []int
		for g := range byGap {
			gaps = append(gaps, g)
		}
		sort.Ints(gaps)
		for _, g := range gaps {
			if len(byGap[g]) < 2 {
				continue
			}
			other := ""
			for _, g2 := range gaps {
				if g2 != g {
					other = byGap[g2][0]
				}
			}
			st := vfC04WStep{DO: rapid.Bool().Draw(rt, "do"), Wire: rapid.Bool().Draw(rt, "wire"), Client: 1, Qtype: dns.TypeA}
			st.Name = byGap[g][0] + ".z.test."
			c.Steps = append(c.Steps, st, vfC04WStep{Sleep: time.Duration(rapid.SampledFrom([]int{3, 4, 15, 19}).Draw(rt, "sleepsec")) * time.Second})
			if other != "" {
				st.Name = other + ".z.test."
				c.Steps = append(c.Steps, st)
			}
			st.Name, st.Wire = byGap[g][1]+".z.test.", rapid.Bool().Draw(rt, "wire")
			c.Steps = append(c.Steps, st)
			break
		}
	}
	steps := rapid.IntRange(3, 12).Draw(rt, "nsteps")
	for i := 0; i < steps; i++ {
		if rapid.IntRange(0, 3).Draw(rt, "sleep") == 0 {
			c.Steps = append(c.Steps, vfC04WStep{Sleep: time.Duration(rapid.SampledFrom([]int{1, 3, 4, 6, 15, 19, 21, 45, 61}).Draw(rt, "sleepsec")) * time.Second})
			continue
		}
		st := vfC04WStep{DO: rapid.Bool().Draw(rt, "do"), CD: rapid.IntRange(0, 7).Draw(rt, "cd") == 0, Wire: rapid.Bool().Draw(rt, "wire"), Client: byte(rapid.IntRange(1, 3).Draw(rt, "client")),
			Qtype: rapid.SampledFrom([]uint16{dns.TypeA, dns.TypeA, dns.TypeA, dns.TypeTXT, dns.TypeAAAA}).Draw(rt, "qtype")}
		switch rapid.IntRange(0, 13).Draw(rt, "namekind") {
		case 0:
			st.Name = "alias.test."
		case 12:
			st.Name = rapid.SampledFrom([]string{"nope.z.test.", "sub.nope.z.test.", "NOPE.z.test."}).Draw(rt, "nopename")
		case 13:
			st.Name = "x\\.nope.z.test."
		case 10:
			st.Name = "ali.test."
		case 11:
			st.Name = "al.z.test."
		case 1:
			st.Name = rapid.SampledFrom(qlabels).Draw(rt, "ql") + ".d.z.test."
		case 2:
			st.Name = rapid.SampledFrom(qlabels).Draw(rt, "ql") + ".w.z.test."
		case 3:
			st.Name = "x." + rapid.SampledFrom(qlabels).Draw(rt, "ql") + ".z.test."
		default:
			st.Name = rapid.SampledFrom(qlabels).Draw(rt, "ql") + ".z.test."
		}
		// with the ECS policy on or off - the option is a fact about the query either way; rarer with the policy off, where
		// such a question only ever bypasses the shared denial state this unit is mostly about
		if (c.ECSOn && rapid.IntRange(0, 2).Draw(rt, "hasecs") == 0) || (!c.ECSOn && rapid.IntRange(0, 7).Draw(rt, "hasecsoff") == 0) {
			st.ECS = rapid.SampledFrom([]string{"valid", "mapped", "mapped", "mismatch", "v4-long", "hostbits", "family0"}).Draw(rt, "ecskind")
		}
		c.Steps = append(c.Steps, st)
	}
	return c
}

func vfC04WRun(t *testing.T, dir string, c *vfC04WCase) (violation string, trace []string, stats map[string]int) {
	stats = map[string]int{}
	fail := func(f string, a ...any) {
		if violation == "" {
			violation = fmt.Sprintf(f, a...)
		}
	}
	synctest.Test(t, func(t *testing.T) {
		time.Sleep(time.Until(vfworld.Epoch))
		cfg := vfResolverConfig(dir, c.W)
		if c.ECSOn {
			cfg.ECS = config.ECSConfig{Enabled: true, ForwardV4Max: 24, ForwardV6Max: 56, ClientNetworks: []string{"203.0.113.0/24"}}
		}
		rw := vfStartResolver(cfg, c.W)
		defer rw.Close()
		since := func() time.Duration { return time.Since(vfworld.Epoch) }
		ecsSteps := map[string]bool{}
		asked := map[string]bool{}
		aliasFromCachedTarget := map[string]bool{}
		for i, st := range c.Steps {
			if st.Name == "" {
				time.Sleep(st.Sleep)
				trace = append(trace, fmt.Sprintf("t=%s slept %s", since(), st.Sleep))
				continue
			}
			tag := fmt.Sprintf("step%d", i)
			q := &vfgen.QuerySpec{ID: uint16(600 + i), Name: st.Name, Qtype: st.Qtype, Qclass: dns.ClassINET, RD: true, CD: st.CD, EDNS: true, DO: st.DO, UDPSize: 1232}
			switch st.ECS {
			case "valid":
				q.Options = append(q.Options, vfgen.OptionSpec{Kind: "rawsubnet", Code: 1, A: 24, Data: "cb0071"})
			case "family0":
				q.Options = append(q.Options, vfgen.OptionSpec{Kind: "rawsubnet", Code: 0, A: 24, Data: "cb0071"})
			case "mismatch":
				q.Options = append(q.Options, vfgen.OptionSpec{Kind: "rawsubnet", Code: 2, A: 24, Data: "cb0071"})
			case "mapped": // family 2 carrying an IPv4-mapped address
				q.Options = append(q.Options, vfgen.OptionSpec{Kind: "rawsubnet", Code: 2, A: 120, Data: "00000000000000000000ffffcb007100"})
			case "v4-long": // family 1 with a 16-octet address field
				q.Options = append(q.Options, vfgen.OptionSpec{Kind: "rawsubnet", Code: 1, A: 24, Data: "cb007100000000000000000000000000"})
			case "hostbits": // host bits set beyond the source prefix
				q.Options = append(q.Options, vfgen.OptionSpec{Kind: "rawsubnet", Code: 1, A: 24, Data: "cb0071ff"})
			case "family3":
				q.Options = append(q.Options, vfgen.OptionSpec{Kind: "rawsubnet", Code: 3, A: 24, Data: "cb0071"})
			}
			if st.ECS != "" {
				ecsSteps[tag] = true
			}
			rw.Net.SetTag(tag)
			n0 := rw.Net.Count()
			now := since()
			rep := rw.Ask(q, "udp", net.IPv4(203, 0, 113, st.Client), st.Wire)
			synctest.Wait()
			up := rw.Net.Count() - n0
			line := fmt.Sprintf("t=%s %s/%s do=%v cd=%v ecs=%q -> ", now, st.Name, dns.TypeToString[st.Qtype], st.DO, st.CD, st.ECS)
			if rep.Msg == nil {
				trace = append(trace, line+"no reply")
				continue
			}
			m := rep.Msg
			line += fmt.Sprintf("%s ad=%v an=%d ns=%d upstream=%d", dns.RcodeToString[m.Rcode], m.AuthenticatedData, len(m.Answer), len(m.Ns), up)
			// --- lifetimes
			minBound, maxTTL := int64(1<<40), int64(-1)
			var pieces []string
			for _, sec := range [][]dns.RR{m.Answer, m.Ns} {
				for _, rr := range sec {
					if rr.Header().Rrtype == dns.TypeOPT {
						continue
					}
					d, ok := rw.Net.Delivered(rr)
					if !ok {
						if c2, isC := rr.(*dns.CNAME); isC && len(m.Answer) > 1 {
							_ = c2 // a CNAME synthesised from a DNAME is not delivered as such; none is generated here
						}
						fail("step %d: reply holds %q, which no authority ever sent", i, rr.String())
						continue
					}
					bound := int64(d.TTL) - int64((now-d.At)/time.Second)
					ttl := int64(rr.Header().Ttl)
					if ttl > bound+1 {
						fail("step %d: at t=%s the reply serves %q with TTL %d; the authority last sent it at t=%s with TTL %d, so at most %d s remain", i, now, rr.String(), ttl, d.At, d.TTL, bound)
					}
					if rr.Header().Rrtype != dns.TypeRRSIG {
						if bound < minBound {
							minBound = bound
						}
						if ttl > maxTTL {
							maxTTL = ttl
						}
						pieces = append(pieces, fmt.Sprintf("%s/%s(sent t=%s ttl %d)", strings.ToLower(rr.Header().Name), dns.TypeToString[rr.Header().Rrtype], d.At, d.TTL))
					}
				}
			}
			if up == 0 {
				stats["served-from-cache"]++
			}
			negative := len(m.Answer) == 0 || m.Rcode == dns.RcodeNameError
			if !negative && len(m.Answer) > 1 && st.Qtype != dns.TypeCNAME {
				// An alias and what it leads to. When the alias was fetched while its target came from cache, the alias
				// entry that is written back was composed from a cached piece and inherits that piece's lifetime; on
				// later hits the alias record may then not show more than what remains of any record it leads to
				// (TTLs are constant per world, so a target fetched again later only has more left).
				type piece struct {
					rr    dns.RR
					bound int64
					fresh bool
				}
				var chain []piece
				for _, rr := range m.Answer {
					if rr.Header().Rrtype == dns.TypeRRSIG {
						continue
					}
					if d, ok := rw.Net.Delivered(rr); ok {
						chain = append(chain, piece{rr, int64(d.TTL) - int64((now-d.At)/time.Second), d.At >= now})
					}
				}
				key := fmt.Sprint(strings.ToLower(st.Name), st.Qtype, st.CD) // the DO bit does not partition the cache
				if up > 0 {
					composed := len(chain) > 1 && chain[0].rr.Header().Rrtype == dns.TypeCNAME && chain[0].fresh
					for _, later := range chain[1:] {
						if later.fresh {
							composed = false
						}
					}
					aliasFromCachedTarget[key] = composed
					if composed {
						stats["alias-fetched-over-cached-target"]++
					}
				} else if aliasFromCachedTarget[key] {
					stats["composed-alias-from-cache"]++
					for _, later := range chain[1:] {
						if int64(chain[0].rr.Header().Ttl) > later.bound+1 {
							sort.Strings(pieces)
							fail("step %d: at t=%s the alias %s is served from cache with TTL %d although %s/%s, which it leads to and which was already cached when the alias was fetched, has %d s left - the re-cached alias did not inherit its cached piece's lifetime; pieces: %v", i, now, chain[0].rr.Header().Name, chain[0].rr.Header().Ttl, later.rr.Header().Name, dns.TypeToString[later.rr.Header().Rrtype], later.bound, pieces)
						}
					}
				}
			}
			if up == 0 && negative && len(m.Ns) > 1 {
				// composed from cached pieces: nothing in it may outlive the shortest piece
				stats["composed-negative-from-cache"]++
				if maxTTL > minBound+1 {
					sort.Strings(pieces)
					fail("step %d: at t=%s a negative answer composed from cache carries TTL %d although its shortest piece has %d s left; pieces: %v", i, now, maxTTL, minBound, pieces)
				}
				// ... it must be what the zone says
				g := c.W.Resolve(st.Name, st.Qtype)
				want := dns.RcodeSuccess
				if g.Out.Kind == "nxdomain" {
					want = dns.RcodeNameError
				}
				if m.Rcode != want && !st.CD {
					fail("step %d: %s/%s was answered %s from cache; the zone says %s (%+v)", i, st.Name, dns.TypeToString[st.Qtype], dns.RcodeToString[m.Rcode], dns.RcodeToString[want], g.Out)
				}
				// ... and, when it is a synthesis (this question was never asked before, yet nothing went upstream), none
				// of its denial records may be known only from questions that carried a client subnet
				synthesis := !asked[strings.ToLower(st.Name)+"/"+fmt.Sprint(st.Qtype)] && len(c.W.Resolve(st.Name, st.Qtype).Steps) == 0
				if synthesis {
					stats["rfc8198-synthesis"]++
					// ... and a question that carried a client subnet consumes no shared synthesised denial, whatever the policy
					if st.ECS != "" {
						fail("step %d: %s/%s carried a client subnet option (%s, ECS policy on=%v, wire=%v) and was answered from shared denial state without any upstream question", i, st.Name, dns.TypeToString[st.Qtype], st.ECS, c.ECSOn, st.Wire)
					}
				}
				for _, rr := range m.Ns {
					if !synthesis {
						break
					}
					if t := rr.Header().Rrtype; t != dns.TypeNSEC && t != dns.TypeNSEC3 {
						continue
					}
					d, _ := rw.Net.Delivered(rr)
					onlyECS := len(d.Tags) > 0
					for tg := range d.Tags {
						if !ecsSteps[tg] {
							onlyECS = false
						}
					}
					if onlyECS {
						stats["denial-piece-from-ecs-question-only"]++
						if st.ECS == "" || true {
							fail("step %d: the synthesised denial for %s uses %s %s, which was only ever fetched for questions that carried a client subnet option", i, st.Name, dns.TypeToString[rr.Header().Rrtype], rr.Header().Name)
						}
					}
				}
			}
			if st.ECS != "" {
				stats["ecs-question"]++
			}
			asked[strings.ToLower(st.Name)+"/"+fmt.Sprint(st.Qtype)] = true
			for _, hop := range c.W.Resolve(st.Name, st.Qtype).Steps {
				// the chase asks the alias target on the client's behalf: a later exact hit on it is no synthesis
				asked[strings.ToLower(hop.Target)+"/"+fmt.Sprint(st.Qtype)] = true
			}
			trace = append(trace, line)
		}
	})
	return
}

func TestVerifC04World(t *testing.T) {
	defer vfstat.Flush()
	vfstat.Quiet()
	const U = "C04.world"
	dir, _ := os.MkdirTemp(os.Getenv("VERIF_WORKDIR"), "c04w")
	defer os.RemoveAll(dir)
	rapid.Check(t, func(rt *rapid.T) {
		c := vfC04WGen(rt)
		v, trace, stats := vfC04WRun(t, dir, c)
		if v != "" {
			rt.Fatalf("%s\n  ecs-policy=%v\n  history:\n    %s\n  world:\n%s", v, c.ECSOn, strings.Join(trace, "\n    "), c.W.Describe())
		}
		vfstat.Eval(U, 1)
		for k, n := range stats {
			if n > 0 {
				vfstat.Class(U, k)
			}
		}
		if c.ECSOn {
			vfstat.Class(U, "ecs-policy-on")
		}
		if stats["served-from-cache"] > 0 {
			var shape []string
			for _, s := range c.Steps {
				shape = append(shape, fmt.Sprint(s.Name, s.Qtype, s.Sleep, s.DO, s.CD, s.ECS))
			}
			vfstat.NonTrivial(U, fmt.Sprint(c.W.Describe(), c.ECSOn, shape))
			if len(trace) > 10 {
				trace = trace[:10]
			}
			vfstat.Sample(U, fmt.Sprint(stats["composed-negative-from-cache"] > 0, c.ECSOn), map[string]any{"history": trace})
		}
	})
}

// TestVerifC04WorldDebug replays a hand-written history with its trace (VERIF_LOG=1); skipped otherwise.
func TestVerifC04WorldDebug(t *testing.T) {
	if os.Getenv("VERIF_LOG") == "" {
		t.Skip("debug helper")
	}
	w := vfworld.Build([]vfworld.ZoneSpec{{Apex: ".", Signed: true}, {Apex: "test.", Signed: true}, {Apex: "z.test.", Signed: true, Owners: map[string][]uint16{"a.z.test.": {dns.TypeA}, "m.z.test.": {dns.TypeA}}}})
	kind := os.Getenv("VERIF_ECS")
	c := &vfC04WCase{W: w, ECSOn: true, Steps: []vfC04WStep{
		{Name: "b.z.test.", Qtype: dns.TypeA, DO: true, ECS: kind, Client: 1, Wire: os.Getenv("VERIF_WIRE") != ""},
		{Name: "c.z.test.", Qtype: dns.TypeA, DO: true, Client: 2},
	}}
	v, trace, stats := vfC04WRun(t, t.TempDir(), c)
	t.Logf("violation=%q stats=%v\n%s", v, stats, strings.Join(trace, "\n"))
}
