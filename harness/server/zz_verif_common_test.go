package server

// Shared server-level harness pieces (wire-born and decoded ingress transports,
// default-chain builder with a stub upstream). Overlaid by /verif/run.py.

import (
	"context"
	"net"
	"os"
	"path/filepath"
	"sync"
	"time"

	"github.com/miekg/dns"
	"github.com/semihalev/sdns/config"
	"github.com/semihalev/sdns/internal/verifhook"
	"github.com/semihalev/sdns/middleware"
	"github.com/semihalev/sdns/middleware/defaults"
	"github.com/semihalev/sdns/middleware/edns"
)

// vfJob is a wire-born transport: it implements StrictSlots + LeaseWire so
// ServeRaw takes the strict (zero-copy) branch, like the UDP/TCP engine jobs.
type vfJob struct {
	local, remote net.Addr
	wrote         [][]byte
	tx            [70000]byte
	req           middleware.Request
	chain         middleware.Chain
	carrier       jobCarrier
	ednsWriter    edns.ResponseWriter
}

func (j *vfJob) LeaseWire(capacity int) []byte {
	if capacity > len(j.tx) {
		return nil
	}
	return j.tx[:0]
}
func (j *vfJob) LocalAddr() net.Addr  { return j.local }
func (j *vfJob) RemoteAddr() net.Addr { return j.remote }
func (j *vfJob) Close() error         { return nil }
func (j *vfJob) Write(b []byte) (int, error) {
	j.wrote = append(j.wrote, append([]byte(nil), b...))
	return len(b), nil
}
func (j *vfJob) WriteMsg(m *dns.Msg) error {
	p, err := m.Pack()
	if err != nil {
		return err
	}
	_, err = j.Write(p)
	return err
}
func (j *vfJob) StrictSlots() (*middleware.Request, *middleware.Chain, *jobCarrier, *edns.ResponseWriter) {
	return &j.req, &j.chain, &j.carrier, &j.ednsWriter
}

// vfPlain is the same sink without the strict capabilities: ServeRaw decodes
// the packet and takes the ordinary decoded-message entry.
type vfPlain struct {
	local, remote net.Addr
	wrote         [][]byte
}

func (j *vfPlain) LocalAddr() net.Addr  { return j.local }
func (j *vfPlain) RemoteAddr() net.Addr { return j.remote }
func (j *vfPlain) Close() error         { return nil }
func (j *vfPlain) Write(b []byte) (int, error) {
	j.wrote = append(j.wrote, append([]byte(nil), b...))
	return len(b), nil
}
func (j *vfPlain) WriteMsg(m *dns.Msg) error {
	p, err := m.Pack()
	if err != nil {
		return err
	}
	_, err = j.Write(p)
	return err
}

func vfAddrs(proto string, ip net.IP, port int) (local, remote net.Addr) {
	if proto == "tcp" {
		return &net.TCPAddr{IP: net.IPv4(192, 0, 2, 1), Port: 53}, &net.TCPAddr{IP: ip, Port: port}
	}
	return &net.UDPAddr{IP: net.IPv4(192, 0, 2, 1), Port: 53}, &net.UDPAddr{IP: ip, Port: port}
}

// vfStub is the stand-in for failover/resolver/forwarder at the chain tail.
type vfStub struct {
	mu     sync.Mutex
	calls  int
	log    []string
	Answer func(req *dns.Msg) *dns.Msg
}

func (s *vfStub) Name() string { return "vfupstream" }
func (s *vfStub) Calls() int {
	s.mu.Lock()
	defer s.mu.Unlock()
	return s.calls
}
func (s *vfStub) ServeDNS(ctx context.Context, ch *middleware.Chain) {
	ctx, req := ch.Materialize(ctx)
	if req == nil {
		return
	}
	s.mu.Lock()
	s.calls++
	if len(req.Question) > 0 {
		s.log = append(s.log, req.Question[0].Name+"/"+dns.TypeToString[req.Question[0].Qtype])
	}
	s.mu.Unlock()
	var resp *dns.Msg
	if s.Answer != nil {
		resp = s.Answer(req)
	}
	if resp == nil {
		resp = new(dns.Msg)
		resp.SetReply(req)
		resp.RecursionAvailable = true
		if len(req.Question) > 0 && req.Question[0].Qtype == dns.TypeA {
			rr, _ := dns.NewRR(req.Question[0].Name + " 300 IN A 192.0.2.53")
			resp.Answer = []dns.RR{rr}
		}
	}
	_ = ch.Writer.WriteMsg(resp)
	ch.Cancel()
}

var vfBuildMu sync.Mutex

// vfBuildServer builds the real default chain up to (not including) failover,
// with stub as the upstream, and returns the server plus a teardown.
func vfBuildServer(cfg *config.Config, stub *vfStub) (*Server, func()) {
	return vfBuildServerWith(cfg, stub)
}

// vfBuildServerWith is vfBuildServer for any tail handler named "vfupstream".
func vfBuildServerWith(cfg *config.Config, tail middleware.Handler) (*Server, func()) {
	vfBuildMu.Lock()
	verifhook.SetBackground(false)
	middleware.Reset()
	defaults.RegisterUpTo("failover")
	middleware.Register("vfupstream", func(*config.Config) middleware.Handler { return tail })
	middleware.Setup(cfg)
	s := New(cfg)
	return s, func() {
		for _, h := range middleware.Handlers() {
			if st, ok := h.(interface{ Stop() }); ok {
				st.Stop()
			}
		}
		middleware.Reset()
		vfBuildMu.Unlock()
	}
}

// vfBaseConfig is a minimal but complete configuration for the default chain.
func vfBaseConfig(dir string) *config.Config {
	hosts := filepath.Join(dir, "hosts")
	if _, err := os.Stat(hosts); err != nil {
		_ = os.WriteFile(hosts, []byte("192.0.2.77 local.test\n"), 0o644)
	}
	cfg := &config.Config{Bind: "127.0.0.1:0", Directory: dir, CacheSize: 4096, Expire: 600, Prefetch: 0, HostsFile: hosts,
		Nullroute: "0.0.0.0", Nullroutev6: "::", BlockListDir: filepath.Join(dir, "bl")}
	cfg.QueryTimeout.Duration = 5 * time.Second
	return cfg
}
