package server

// C13 — cached failures (RFC 9520) suppress only what failed, for a bounded time.
// Histories of failing / succeeding / request-locally-failing resolutions, zone failures
// reported the way the resolver reports them, near-miss partitions and time gaps run against
// the real default chain in a synctest bubble; a reference model of the failure state
// (partition key, backoff envelope) judges every reply, the upstream traffic and the retained
// state after each step.

import (
	"context"
	"fmt"
	"net"
	"os"
	"sort"
	"strings"
	"sync"
	"testing"
	"testing/synctest"
	"time"

	"github.com/miekg/dns"
	"github.com/semihalev/sdns/config"
	"github.com/semihalev/sdns/internal/vfgen"
	"github.com/semihalev/sdns/internal/vfstat"
	"github.com/semihalev/sdns/middleware"
	"github.com/semihalev/sdns/middleware/cache"
	"pgregory.net/rapid"
)

type vfC13Up struct {
	inflight, maxInflight int
	mu                    sync.Mutex
	directive             string // what the next upstream call does: ok fail fail-ede local-deadline local-canceled local-attempt local-maxrec slow
	calls                 []string
	delay                 time.Duration
}

func (u *vfC13Up) Name() string { return "vfupstream" }
func (u *vfC13Up) N() int {
	u.mu.Lock()
	defer u.mu.Unlock()
	return len(u.calls)
}

func (u *vfC13Up) ServeDNS(ctx context.Context, ch *middleware.Chain) {
	ctx, req := ch.Materialize(ctx)
	if req == nil || len(req.Question) == 0 {
		ch.Cancel()
		return
	}
	q := req.Question[0]
	u.mu.Lock()
	d := u.directive
	u.calls = append(u.calls, fmt.Sprintf("t=%s %s/%d/cd=%v", time.Since(vfEpoch), strings.ToLower(q.Name), q.Qtype, req.CheckingDisabled))
	delay := u.delay
	u.inflight++
	if u.inflight > u.maxInflight {
		u.maxInflight = u.inflight
	}
	u.mu.Unlock()
	if delay > 0 {
		time.Sleep(delay)
	}
	u.mu.Lock()
	u.inflight--
	u.mu.Unlock()
	resp := new(dns.Msg)
	resp.SetReply(req)
	resp.RecursionAvailable = true
	switch {
	case d == "ok":
		switch q.Qtype {
		case dns.TypeA:
			resp.Answer = []dns.RR{&dns.A{Hdr: dns.RR_Header{Name: q.Name, Rrtype: dns.TypeA, Class: dns.ClassINET, Ttl: 5}, A: net.IPv4(192, 0, 2, 1).To4()}}
		default:
			resp.Answer = []dns.RR{&dns.TXT{Hdr: dns.RR_Header{Name: q.Name, Rrtype: q.Qtype, Class: dns.ClassINET, Ttl: 5}, Txt: []string{"ok"}}}
			if q.Qtype != dns.TypeTXT {
				resp.Answer = nil
				resp.Ns = []dns.RR{&dns.SOA{Hdr: dns.RR_Header{Name: "test.", Rrtype: dns.TypeSOA, Class: dns.ClassINET, Ttl: 5}, Ns: "ns.test.", Mbox: "h.test.", Serial: 1, Refresh: 1, Retry: 1, Expire: 1, Minttl: 5}}
			}
		}
	case strings.HasPrefix(d, "fail"):
		resp.Rcode = dns.RcodeServerFailure
		if d == "fail-ede" {
			if opt := req.IsEdns0(); opt != nil {
				o := &dns.OPT{Hdr: dns.RR_Header{Name: ".", Rrtype: dns.TypeOPT}}
				o.SetUDPSize(1232)
				o.Option = append(o.Option, &dns.EDNS0_EDE{InfoCode: 22, ExtraText: "no reachable authority"})
				resp.Extra = append(resp.Extra, o)
			}
		}
	case strings.HasPrefix(d, "local-"):
		resp.Rcode = dns.RcodeServerFailure
		var err error
		switch d {
		case "local-deadline":
			err = context.DeadlineExceeded
		case "local-canceled":
			err = context.Canceled
		case "local-attempt":
			err = middleware.ErrResolutionAttemptLimit
		default:
			err = middleware.ErrMaxRecursion
		}
		ctx, _ = middleware.EnsureResolutionAttemptGuard(ctx)
		middleware.MarkRequestLocalFailureResponse(ctx, resp, err)
	}
	_ = ch.Writer.WriteMsg(resp)
	ch.Cancel()
}

type vfC13Step struct {
	Kind   string // query sleep zonefail zoneclear
	Name   string
	Qtype  uint16
	CD     bool
	EDNS   bool
	ECS    string
	Wire   bool
	Up     string
	Sleep  time.Duration
	Zone   string
	Client int
}

type vfC13Case struct {
	Min, Max int // seconds
	Off      bool
	Steps    []vfC13Step
}

type vfC13State struct {
	maybe   bool // a useful answer for the shared key arrived through another audience; sdns may or may not have dropped this state
	backoff time.Duration
	until   time.Duration
}

func vfC13AtOrBelow(name, zone string) bool {
	nl, zl := dns.SplitDomainName(strings.ToLower(name)), dns.SplitDomainName(strings.ToLower(zone))
	if len(zl) > len(nl) {
		return false
	}
	for i := 1; i <= len(zl); i++ {
		if nl[len(nl)-i] != zl[len(zl)-i] {
			return false
		}
	}
	return true
}

func vfC13Run(t *testing.T, dir string, c *vfC13Case) (violation string, stats map[string]int, trace []string) {
	stats = map[string]int{}
	synctest.Test(t, func(t *testing.T) {
		cfg := vfBaseConfig(dir)
		cfg.RecursionFirewall.FailureCacheMinTTL.Duration = time.Duration(c.Min) * time.Second
		cfg.RecursionFirewall.FailureCacheMaxTTL.Duration = time.Duration(c.Max) * time.Second
		if c.Off {
			off := false
			cfg.RFC9520 = &off
		}
		cfg.ECS = config.ECSConfig{Enabled: true, ForwardV4Max: 24, ForwardV6Max: 56, MinScopeV4: 24, MinScopeV6: 56, ClientNetworks: []string{"0.0.0.0/0", "::/0"}}
		up := &vfC13Up{directive: "ok"}
		s, done := vfBuildServerWith(cfg, up)
		defer done()
		w := &vfWorld{s: s, cfg: cfg}
		cc := middleware.Get("cache").(*cache.Cache)
		st := cc.VerifStore()
		minB, maxB := time.Duration(c.Min)*time.Second, time.Duration(c.Max)*time.Second
		exact := map[string]*vfC13State{} // partition -> state
		zones := map[string]*vfC13State{} // zone -> state
		posUntil := map[string]time.Duration{}
		fail := func(f string, a ...any) {
			if violation == "" {
				violation = fmt.Sprintf(f, a...) + "\nhistory:\n  " + strings.Join(trace, "\n  ")
			}
		}
		partition := func(s vfC13Step) string {
			scope := ""
			if s.ECS != "" {
				scope = s.ECS
			}
			return fmt.Sprintf("%s/%d/cd=%v/%s", strings.ToLower(s.Name), s.Qtype, s.CD, scope)
		}
		lookupState := func(name string, qtype uint16, cd bool) (time.Duration, uint32, bool) {
			for _, f := range st.VerifFailures() {
				if !f.Zone && f.Scope == "" && strings.EqualFold(f.Name, name) && f.Qtype == qtype && f.CD == cd {
					return f.RetryAfter.Sub(vfEpoch), f.Streak, true
				}
			}
			return 0, 0, false
		}
		for si, sp := range c.Steps {
			now := time.Since(vfEpoch)
			switch sp.Kind {
			case "sleep":
				time.Sleep(sp.Sleep)
				trace = append(trace, fmt.Sprintf("t=%s sleep %s", now, sp.Sleep))
				continue
			case "zonefail":
				// what the resolver does once every server of the zone failed
				st.RecordZoneFailure(dns.Question{Name: "probe." + sp.Zone, Qtype: dns.TypeA, Qclass: dns.ClassINET}, sp.Zone)
				if !c.Off {
					z := zones[sp.Zone]
					if z == nil || now >= z.until {
						b := minB
						if z != nil && now-z.until < maxB && z.backoff*2 <= maxB {
							b = 0 // unknown exactly (streak continues): read it back
						}
						_ = b
						var got time.Duration
						for _, f := range st.VerifFailures() {
							if f.Zone && f.Name == sp.Zone {
								got = f.RetryAfter.Sub(vfEpoch) - now
							}
						}
						if got < minB || got > maxB || maxB > 5*time.Minute {
							fail("step %d: zone failure for %s recorded with backoff %s outside [%s, %s]", si, sp.Zone, got, minB, maxB)
							return
						}
						if z != nil && now-z.until < maxB && got > 2*z.backoff {
							fail("step %d: zone %s backoff grew from %s to %s (more than doubled)", si, sp.Zone, z.backoff, got)
							return
						}
						if z == nil && got != minB {
							fail("step %d: first zone failure for %s starts at %s, configured minimum is %s", si, sp.Zone, got, minB)
							return
						}
						zones[sp.Zone] = &vfC13State{backoff: got, until: now + got}
					}
				}
				trace = append(trace, fmt.Sprintf("t=%s resolver reports zone failure %s", now, sp.Zone))
				continue
			case "zoneclear":
				st.ClearZoneFailure(dns.Question{Name: "probe." + sp.Zone, Qtype: dns.TypeA, Qclass: dns.ClassINET}, sp.Zone)
				delete(zones, sp.Zone)
				trace = append(trace, fmt.Sprintf("t=%s resolver clears zone failure %s", now, sp.Zone))
				continue
			}
			key := partition(sp)
			m := new(dns.Msg)
			m.SetQuestion(sp.Name, sp.Qtype)
			m.Id = uint16(100 + si)
			m.CheckingDisabled = sp.CD
			if sp.EDNS || sp.ECS != "" {
				m.SetEdns0(1232, false)
				if sp.ECS != "" {
					ip, n, _ := net.ParseCIDR(sp.ECS)
					bits, _ := n.Mask.Size()
					m.IsEdns0().Option = append(m.IsEdns0().Option, &dns.EDNS0_SUBNET{Code: dns.EDNS0SUBNET, Family: 1, SourceNetmask: uint8(bits), Address: ip.To4()})
				}
			}
			raw, _ := m.Pack()
			up.mu.Lock()
			up.directive = sp.Up
			up.mu.Unlock()
			before := up.N()
			lenBefore := len(st.VerifFailures())
			r := w.Ask(raw, "udp", vfgen.ClientAddrs[sp.Client], 4000, sp.Wire)
			synctest.Wait()
			calls := up.N() - before
			line := fmt.Sprintf("t=%s %s wire=%v upstream-would=%s -> calls=%d", now, key, sp.Wire, sp.Up, calls)
			if r.Msg == nil {
				fail("step %d: %s got no decodable reply", si, key)
				return
			}
			line += fmt.Sprintf(" rcode=%d", r.Msg.Rcode)
			trace = append(trace, line)
			// reference: is this question under an active backoff?
			var active *vfC13State
			why := ""
			if e := exact[key]; e != nil && now < e.until {
				active, why = e, "exact"
			}
			for z, zs := range zones {
				if now < zs.until && vfC13AtOrBelow(sp.Name, z) {
					active, why = zs, "zone "+z
				}
			}
			if c.Off {
				active = nil
			}
			posKey := fmt.Sprintf("%s/%d/cd=%v", strings.ToLower(sp.Name), sp.Qtype, sp.CD)
			if pu, ok := posUntil[posKey]; ok && now < pu {
				// a still-live positive answer is an exact cache hit; it precedes any failure state
				if calls != 0 || r.Msg.Rcode != dns.RcodeSuccess {
					fail("step %d: %s should be answered from the positive cache", si, key)
					return
				}
				continue
			}
			if active != nil && active.maybe && calls != 0 {
				delete(exact, key) // sdns had dropped it with the shared answer: resolved afresh
				active = nil
			}
			if active != nil {
				stats["lookup-during-backoff"]++
				if calls != 0 {
					fail("step %d at t=%s: %s is inside an active backoff (%s, until t=%s) yet upstream was contacted %d time(s)", si, now, key, why, active.until, calls)
					return
				}
				if r.Msg.Rcode != dns.RcodeServerFailure || len(r.Msg.Answer) != 0 {
					fail("step %d: %s inside backoff answered rcode=%d answers=%d, want a bare SERVFAIL", si, key, r.Msg.Rcode, len(r.Msg.Answer))
					return
				}
				opt := r.Msg.IsEdns0()
				has13 := false
				if opt != nil {
					for _, o := range opt.Option {
						if e, ok := o.(*dns.EDNS0_EDE); ok && e.InfoCode == dns.ExtendedErrorCodeCachedError {
							has13 = true
						}
					}
				}
				if (sp.EDNS || sp.ECS != "") != has13 {
					fail("step %d: cached failure for %s: client OPT=%v but EDE 13 present=%v", si, key, sp.EDNS || sp.ECS != "", has13)
					return
				}
				continue
			}
			// not suppressed by the reference: the question must really have been resolved
			if calls != 1 {
				fail("step %d at t=%s: %s is not under any backoff the reference knows (exact=%v zones=%v) but upstream saw %d call(s) — a failure of something else suppressed it, or it was retried", si, now, key, exact[key], zones, calls)
				return
			}
			stats["resolved"]++
			switch {
			case sp.Up == "ok":
				if r.Msg.Rcode != dns.RcodeSuccess {
					fail("step %d: upstream answered but client got rcode %d", si, r.Msg.Rcode)
					return
				}
				posUntil[posKey] = now + 5*time.Second // the stub's answers are unscoped: shared by every audience
				// a useful answer resets the exact backoff and the covering zone backoffs
				if exact[key] != nil {
					stats["success-after-failure"]++
				}
				delete(exact, key)
				// the stub's answers are unscoped, so the answer is stored under the shared key whoever asked: it is a
				// useful answer for every audience's partition of this question, the shared one included
				for k, e := range exact {
					if strings.HasPrefix(k, posKey+"/") {
						e.maybe = true // whether another audience's own failure state survives the shared answer is left open
					}
				}
				for z := range zones {
					if vfC13AtOrBelow(sp.Name, z) {
						delete(zones, z)
					}
				}
				if _, _, ok := lookupState(sp.Name, sp.Qtype, sp.CD); ok && sp.ECS == "" {
					fail("step %d: %s was answered usefully but its failure state is still retained", si, key)
					return
				}
			case strings.HasPrefix(sp.Up, "fail"):
				if r.Msg.Rcode != dns.RcodeServerFailure {
					fail("step %d: upstream failed but client got rcode %d", si, r.Msg.Rcode)
					return
				}
				if c.Off {
					if n := len(st.VerifFailures()); n != 0 {
						fail("step %d: rfc9520 is off but %d failure record(s) exist", si, n)
						return
					}
					continue
				}
				prev := exact[key]
				var got time.Duration
				found := false
				for _, f := range st.VerifFailures() {
					sc := ""
					if f.Scope != "" {
						sc = f.Scope
					}
					if !f.Zone && strings.EqualFold(f.Name, sp.Name) && f.Qtype == sp.Qtype && f.CD == sp.CD && sc == sp.ECS {
						got, found = f.RetryAfter.Sub(vfEpoch)-now, true
					}
				}
				if !found {
					fail("step %d: %s failed upstream but no failure state was recorded for exactly that partition (records: %+v)", si, key, st.VerifFailures())
					return
				}
				if got < minB || got > maxB || got > 5*time.Minute {
					fail("step %d: backoff %s for %s is outside [%s, %s]", si, got, key, minB, maxB)
					return
				}
				switch {
				case prev == nil:
					if got != minB {
						fail("step %d: first failure (or first after a useful answer) of %s starts its backoff at %s; the configured minimum is %s", si, key, got, minB)
						return
					}
				case now-prev.until >= maxB:
					if got != minB {
						fail("step %d: %s failed again after an idle period of %s (>= max %s) yet the backoff is %s, not the minimum", si, key, now-prev.until, maxB, got)
						return
					}
				default:
					stats["consecutive-failure"]++
					if got > 2*prev.backoff {
						fail("step %d: backoff of %s grew from %s to %s (more than doubled)", si, key, prev.backoff, got)
						return
					}
				}
				exact[key] = &vfC13State{backoff: got, until: now + got}
			case strings.HasPrefix(sp.Up, "local-"):
				stats["request-local-cause"]++
				if r.Msg.Rcode != dns.RcodeServerFailure {
					fail("step %d: request-local failure surfaced as rcode %d", si, r.Msg.Rcode)
					return
				}
				if n := len(st.VerifFailures()); n != lenBefore {
					fail("step %d: a request-local failure (%s) of %s changed shared failure state: %d -> %d records", si, sp.Up, key, lenBefore, n)
					return
				}
				if prev := exact[key]; prev != nil {
					if until, _, ok := lookupState(sp.Name, sp.Qtype, sp.CD); ok && sp.ECS == "" && until != prev.until {
						fail("step %d: a request-local failure (%s) moved the retained backoff of %s", si, sp.Up, key)
						return
					}
				}
			}
		}
	})
	return violation, stats, trace
}

var vfC13Names = []string{"dead.test.", "a.dead.test.", "b.a.dead.test.", "alive.test.", "notdead.test.", "xdead.test.", "test.", "other.example.", "a.other.example.", "x\\.dead.test.", "y\\.a.dead.test.", "z\\.other.example."}

func vfC13Gen(rt *rapid.T) *vfC13Case {
	c := &vfC13Case{Min: rapid.SampledFrom([]int{1, 2, 5, 30}).Draw(rt, "min"), Off: rapid.IntRange(0, 9).Draw(rt, "off") == 0}
	c.Max = rapid.SampledFrom([]int{c.Min, c.Min * 2, c.Min * 3, 60, 300}).Draw(rt, "max")
	if c.Max < c.Min {
		c.Max = c.Min
	}
	if c.Max > 300 {
		c.Max = 300
	}
	focus := vfC13Step{Name: rapid.SampledFrom(vfC13Names).Draw(rt, "fname"), Qtype: rapid.SampledFrom([]uint16{dns.TypeA, dns.TypeTXT, dns.TypeMX}).Draw(rt, "ftype")}
	if rapid.IntRange(0, 3).Draw(rt, "resetopening") == 0 {
		// fail, wait out the backoff, a useful answer, wait out the answer, fail again: the backoff starts over
		s := focus
		s.Kind, s.EDNS = "query", true
		s.ECS = rapid.SampledFrom([]string{"", "203.0.113.0/24", "203.0.113.0/24", "198.51.100.0/24"}).Draw(rt, "oecs")
		s.CD = rapid.IntRange(0, 3).Draw(rt, "ocd") == 0
		s.Wire = rapid.Bool().Draw(rt, "wire")
		s.Up = "fail"
		c.Steps = append(c.Steps, s)
		if rapid.Bool().Draw(rt, "twice") {
			c.Steps = append(c.Steps, vfC13Step{Kind: "sleep", Sleep: time.Duration(c.Min) * time.Second}, s)
		}
		c.Steps = append(c.Steps, vfC13Step{Kind: "sleep", Sleep: time.Duration(2*c.Min+1) * time.Second})
		s.Up = "ok"
		c.Steps = append(c.Steps, s)
		c.Steps = append(c.Steps, vfC13Step{Kind: "sleep", Sleep: 6 * time.Second})
		s.Up = "fail"
		s.Wire = rapid.Bool().Draw(rt, "wire")
		c.Steps = append(c.Steps, s)
	}
	n := rapid.IntRange(3, 18).Draw(rt, "nsteps")
	for i := 0; i < n; i++ {
		k := rapid.IntRange(0, 19).Draw(rt, "kind")
		switch {
		case k < 6:
			d := rapid.SampledFrom([]int{1, 1, 2, 3, c.Min - 1, c.Min, c.Min + 1, 2 * c.Min, 2*c.Min + 1, c.Max, c.Max + 1, 4 * c.Min, 600}).Draw(rt, "sleep")
			if d < 1 {
				d = 1
			}
			c.Steps = append(c.Steps, vfC13Step{Kind: "sleep", Sleep: time.Duration(d) * time.Second})
		case k == 6:
			c.Steps = append(c.Steps, vfC13Step{Kind: "zonefail", Zone: rapid.SampledFrom([]string{"dead.test.", "a.dead.test.", "other.example."}).Draw(rt, "zone")})
		case k == 7:
			c.Steps = append(c.Steps, vfC13Step{Kind: "zoneclear", Zone: rapid.SampledFrom([]string{"dead.test.", "a.dead.test.", "other.example."}).Draw(rt, "zone")})
		default:
			s := focus
			s.Kind = "query"
			switch rapid.IntRange(0, 9).Draw(rt, "variant") { // near-miss partitions
			case 0:
				s.Name = rapid.SampledFrom(vfC13Names).Draw(rt, "vname")
			case 1:
				s.Qtype = rapid.SampledFrom([]uint16{dns.TypeA, dns.TypeTXT, dns.TypeMX}).Draw(rt, "vtype")
			case 2:
				s.CD = true
			case 3:
				s.ECS = rapid.SampledFrom([]string{"203.0.113.0/24", "198.51.100.0/24"}).Draw(rt, "vecs")
			case 4:
				s.Name = strings.ToUpper(s.Name)
			}
			s.EDNS = rapid.Bool().Draw(rt, "edns")
			s.Wire = rapid.Bool().Draw(rt, "wire")
			s.Client = rapid.IntRange(0, 1).Draw(rt, "client")
			s.Up = rapid.SampledFrom([]string{"fail", "fail", "fail", "fail-ede", "ok", "ok", "local-deadline", "local-canceled", "local-attempt", "local-maxrec"}).Draw(rt, "up")
			c.Steps = append(c.Steps, s)
		}
	}
	return c
}

func TestVerifC13History(t *testing.T) {
	defer vfstat.Flush()
	vfstat.Quiet()
	const U = "C13.history"
	dir, _ := os.MkdirTemp(os.Getenv("VERIF_WORKDIR"), "c13")
	defer os.RemoveAll(dir)
	rapid.Check(t, func(rt *rapid.T) {
		c := vfC13Gen(rt)
		v, stats, trace := vfC13Run(t, dir, c)
		if v != "" {
			rt.Fatalf("%s\nconfig: min=%ds max=%ds rfc9520-off=%v", v, c.Min, c.Max, c.Off)
		}
		vfstat.Eval(U, 1)
		var cls []string
		for k, n := range stats {
			if n > 0 {
				vfstat.Class(U, k)
				cls = append(cls, k)
			}
		}
		if c.Off {
			vfstat.Class(U, "rfc9520-off")
		}
		sort.Strings(cls)
		if stats["lookup-during-backoff"] > 0 || stats["consecutive-failure"] > 0 || stats["request-local-cause"] > 0 {
			var shape []string
			for _, s := range c.Steps {
				shape = append(shape, fmt.Sprintf("%s:%s:%d:%v:%s:%s:%d", s.Kind[:1], s.Name, s.Qtype, s.CD, s.ECS, s.Up, s.Sleep/time.Second))
			}
			vfstat.NonTrivial(U, fmt.Sprint(c.Min, c.Max, c.Off, shape))
			if len(trace) > 16 {
				trace = trace[:16]
			}
			vfstat.Sample(U, strings.Join(cls, "+"), map[string]any{"min_s": c.Min, "max_s": c.Max, "rfc9520_off": c.Off, "classes": cls, "history": trace})
		}
	})
}

// TestVerifC13Probe: after a backoff expires, concurrent clients of the same failed question are
// led by a single upstream probe; the others wait for it and share its outcome.
func TestVerifC13Probe(t *testing.T) {
	defer vfstat.Flush()
	vfstat.Quiet()
	const U = "C13.probe"
	dir, _ := os.MkdirTemp(os.Getenv("VERIF_WORKDIR"), "c13p")
	defer os.RemoveAll(dir)
	rapid.Check(t, func(rt *rapid.T) {
		k := rapid.IntRange(2, 8).Draw(rt, "followers")
		outcome := rapid.SampledFrom([]string{"fail", "ok"}).Draw(rt, "outcome")
		zoneKind := rapid.Bool().Draw(rt, "zonekind")
		spread := rapid.SampledFrom([]int{0, 0, 10, 200}).Draw(rt, "spread_ms")
		wire := rapid.Bool().Draw(rt, "wire")
		ecsMode := rapid.SampledFrom([]string{"none", "none", "same", "distinct"}).Draw(rt, "ecs")
		if !zoneKind && ecsMode == "distinct" {
			ecsMode = "same" // an exact-question failure belongs to one audience: other audiences have no backoff to probe
		}
		var violation string
		synctest.Test(t, func(t *testing.T) {
			cfg := vfBaseConfig(dir)
			cfg.RecursionFirewall.FailureCacheMinTTL.Duration = 2 * time.Second
			cfg.ECS = config.ECSConfig{Enabled: true, ForwardV4Max: 24, ForwardV6Max: 56, MinScopeV4: 24, MinScopeV6: 56, ClientNetworks: []string{"0.0.0.0/0", "::/0"}}
			up := &vfC13Up{directive: "fail"}
			s, done := vfBuildServerWith(cfg, up)
			defer done()
			w := &vfWorld{s: s, cfg: cfg}
			st := middleware.Get("cache").(*cache.Cache).VerifStore()
			mk := func(name string, id uint16) []byte {
				m := new(dns.Msg)
				m.SetQuestion(name, dns.TypeA)
				m.Id = id
				if ecsMode != "none" && id >= 10 {
					third := byte(7)
					if ecsMode == "distinct" {
						third = byte(id)
					}
					m.SetEdns0(1232, false)
					m.IsEdns0().Option = append(m.IsEdns0().Option, &dns.EDNS0_SUBNET{Code: dns.EDNS0SUBNET, Family: 1, SourceNetmask: 24, Address: net.IPv4(198, 18, third, 0).To4()})
				}
				raw, _ := m.Pack()
				return raw
			}
			if zoneKind {
				st.RecordZoneFailure(dns.Question{Name: "x.dead.test.", Qtype: dns.TypeA, Qclass: dns.ClassINET}, "dead.test.")
			} else {
				w.Ask(mk("q.dead.test.", 10), "udp", vfgen.ClientAddrs[0], 4000, false)
			}
			time.Sleep(3 * time.Second) // backoff (2 s) has expired
			before := up.N()
			up.mu.Lock()
			up.directive, up.delay, up.maxInflight = outcome, time.Second, 0
			up.mu.Unlock()
			var wg sync.WaitGroup
			replies := make([]vfReply, k)
			for i := 0; i < k; i++ {
				wg.Add(1)
				go func(i int) {
					defer wg.Done()
					time.Sleep(time.Duration(i*spread) * time.Millisecond / time.Duration(k))
					name := "q.dead.test."
					if zoneKind {
						name = fmt.Sprintf("r%d.dead.test.", i) // different names below the failed zone
					}
					replies[i] = w.Ask(mk(name, uint16(10+i)), "udp", vfgen.ClientAddrs[i%2], 4000+i, wire)
				}(i)
			}
			wg.Wait()
			synctest.Wait()
			calls := up.N() - before
			up.mu.Lock()
			maxIn := up.maxInflight
			up.mu.Unlock()
			if maxIn > 1 && outcome == "fail" { // after a successful probe the zone has recovered and distinct names resolve independently
				up.mu.Lock()
				violation = fmt.Sprintf("%d clients retried after the backoff expired (zone failure=%v, wire=%v, spread=%dms): %d upstream probes were in flight at the same time, want one at a time; upstream calls: %v", k, zoneKind, wire, spread, maxIn, up.calls[before:])
				up.mu.Unlock()
			}
			if !zoneKind && calls != 1 {
				violation = fmt.Sprintf("%d clients of one question retried after its backoff expired; upstream saw %d probes (outcome %s), want exactly 1", k, calls, outcome)
			}
			for i, r := range replies {
				if len(r.Writes) != 1 {
					violation = fmt.Sprintf("client %d received %d replies", i, len(r.Writes))
				}
			}
		})
		if violation != "" {
			rt.Fatalf("%s", violation)
		}
		vfstat.Eval(U, 1)
		vfstat.Class(U, fmt.Sprintf("zone=%v/%s", zoneKind, outcome))
		vfstat.NonTrivial(U, fmt.Sprint(k, outcome, zoneKind, spread, wire, ecsMode))
		vfstat.Class(U, "ecs:"+ecsMode)
		vfstat.Sample(U, fmt.Sprint(zoneKind, outcome), map[string]any{"followers": k, "probe_outcome": outcome, "zone_failure": zoneKind, "arrival_spread_ms": spread})
	})
}
