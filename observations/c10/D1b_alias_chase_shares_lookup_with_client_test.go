// Pre-existing violation of C10 in the UNMODIFIED tree, through the cache and
// the resolver together (the production arrangement of the two).
//
// Copy into:  middleware/resolver/   (package resolver; uses hermetic_test.go)
// Run with:   GOFLAGS=-mod=mod GOPROXY=off go test -vet=off -count=1 \
//                 -run 'TestC10DefectAliasChaseLeaksItsTargetSpellingToAClient' ./middleware/resolver/
//
// Client A asks for alias.shop.test., which the zone aliases to
// "WwW.shop.test." (zone files spell targets however their authors did).
// The cache completes the alias with an internal sub-query for that target.
// Internal sub-queries skip the cache's own miss de-duplication, so when
// client B asks for "www.shop.test." at that moment, both reach the resolver,
// and the resolver collapses them onto one upstream lookup (groupLookup).
// B is the follower: it is answered with the leader's question section,
// "WwW.shop.test." — not the question B sent.
package resolver

import (
	"context"
	"strings"
	"sync"
	"sync/atomic"
	"testing"
	"time"

	"github.com/miekg/dns"
	"github.com/semihalev/sdns/internal/dnsutil"
	"github.com/semihalev/sdns/internal/mock"
	"github.com/semihalev/sdns/middleware"
	cachemw "github.com/semihalev/sdns/middleware/cache"
)

type c10SubPipeline struct{ handlers []middleware.Handler }

func (q *c10SubPipeline) Query(ctx context.Context, req *dns.Msg) (*dns.Msg, error) {
	// The production BufferWriter: a TCP-shaped writer that reports itself
	// internal (the sentinel remote address does that for the mock).
	w := mock.NewWriter("tcp", "127.0.0.255:0")
	ch := middleware.NewChain(q.handlers)
	ch.Reset(w, req)
	ch.Next(ctx)
	if !w.Written() {
		return nil, middleware.ErrNoResponse
	}
	return w.Msg(), nil
}

func TestC10DefectAliasChaseLeaksItsTargetSpellingToAClient(t *testing.T) {
	hnet := newHermeticNet(t)
	zone := hnet.Delegate("shop.test.")
	zone.Serve(mustRR(t, "warm.shop.test. 300 IN A 192.0.2.11"))
	// The fixture's server answers by exact (name, type); hand it the alias
	// as the answer to the A question, as a real server would give it.
	zone.server.serve("alias.shop.test.", dns.TypeA, mustRR(t, "alias.shop.test. 300 IN CNAME WwW.shop.test."))
	// The fixture's server matches names byte for byte; publish the target
	// under the spelling the alias uses (a real server matches any case).
	zone.Serve(mustRR(t, "WwW.shop.test. 300 IN A 192.0.2.10"))

	cfg := hnet.Config()
	cfg.DNSSEC = "off"
	cfg.CacheSize = 1024
	cfg.Expire = 600
	cfg.RateLimit = 0
	h := hnet.handlerWithConfig(cfg)
	cm := cachemw.New(cfg)
	defer cm.Stop()
	handlers := []middleware.Handler{cm, h}
	sub := &c10SubPipeline{handlers: handlers}
	cm.SetQueryer(sub)
	cm.SetPrefetchQueryer(&c10SubPipeline{handlers: []middleware.Handler{h}})

	serve := func(remote string, req *dns.Msg) *dns.Msg {
		w := mock.NewWriter("udp", remote)
		ch := middleware.NewChain(handlers)
		ch.Reset(w, req)
		ch.Next(context.Background())
		return w.Msg()
	}

	warm := new(dns.Msg)
	warm.SetQuestion("warm.shop.test.", dns.TypeA)
	warm.SetEdns0(dnsutil.DefaultMsgSize, true)
	if resp := serve("192.0.2.200:4000", warm); resp == nil || resp.Rcode != dns.RcodeSuccess {
		t.Fatalf("warm-up did not resolve: %v", resp)
	}

	// Hold the target's answer — and only that — until client B has had
	// time to arrive behind the alias chase.
	var targetAsked atomic.Bool
	var bAt atomic.Int64
	zone.server.mu.Lock()
	zone.server.beforeReply = func(q dns.Question) {
		if q.Qtype != dns.TypeA || !strings.EqualFold(q.Name, "www.shop.test.") {
			return
		}
		targetAsked.Store(true)
		deadline := time.Now().Add(5 * time.Second)
		for time.Now().Before(deadline) {
			if at := bAt.Load(); at != 0 && time.Now().UnixNano()-at > int64(200*time.Millisecond) {
				return
			}
			time.Sleep(time.Millisecond)
		}
	}
	zone.server.mu.Unlock()

	var wg sync.WaitGroup
	var respA, respB *dns.Msg
	wg.Add(1)
	go func() {
		defer wg.Done()
		req := new(dns.Msg)
		req.SetQuestion("alias.shop.test.", dns.TypeA)
		req.Id = 0xAAAA
		req.SetEdns0(dnsutil.DefaultMsgSize, true)
		respA = serve("192.0.2.50:5300", req)
	}()
	for deadline := time.Now().Add(3 * time.Second); !targetAsked.Load() && time.Now().Before(deadline); {
		time.Sleep(time.Millisecond)
	}
	if !targetAsked.Load() {
		t.Fatal("the alias chase never asked for the target")
	}
	wg.Add(1)
	go func() {
		defer wg.Done()
		req := new(dns.Msg)
		req.SetQuestion("www.shop.test.", dns.TypeA)
		req.Id = 0xBBBB
		req.SetEdns0(dnsutil.DefaultMsgSize, true)
		bAt.Store(time.Now().UnixNano())
		respB = serve("192.0.2.60:6300", req)
	}()
	wg.Wait()

	if respA == nil || respA.Id != 0xAAAA || len(respA.Question) != 1 || respA.Question[0].Name != "alias.shop.test." {
		t.Errorf("client A: %v", respA)
	}
	if respB == nil {
		t.Fatal("client B: no reply")
	}
	t.Logf("client B: id=%#x rcode=%s question=%v answers=%d", respB.Id, dns.RcodeToString[respB.Rcode], respB.Question, len(respB.Answer))
	if respB.Id != 0xBBBB {
		t.Errorf("client B: id %#x want 0xBBBB", respB.Id)
	}
	if len(respB.Question) != 1 || respB.Question[0].Name != "www.shop.test." {
		t.Errorf("client B asked \"www.shop.test.\" and was answered with question %v — "+
			"the question of the alias chase it shared an upstream lookup with", respB.Question)
	}
}
