// Pre-existing violation of C10 in the UNMODIFIED tree (no seeded change).
//
// Copy into:  middleware/resolver/   (package resolver; uses the package's own
//             hermetic DNS fixture from hermetic_test.go)
// Run with:   GOFLAGS=-mod=mod GOPROXY=off go test -vet=off -count=1 \
//                 -run 'TestC10DefectSharedLookupAnswersWithTheLeadersQuestion' ./middleware/resolver/
//
// Two clients ask for the same name at the same moment, spelled differently
// (the ordinary state of affairs with 0x20-randomising clients and
// forwarders). The resolver collapses the two onto one upstream lookup
// (Resolver.groupLookup, singleflight keyed on the case-folded question).
// The follower receives a copy of the leader's upstream response with its
// own ID stamped on it — and the leader's QUESTION SECTION: the reply to
// client B carries client A's spelling of the name, i.e. bytes of another
// client's query, and not the question B asked. A client that checks the
// echoed question case-sensitively (every 0x20 implementation does) must
// discard the reply.
//
// groupLookup rebinds resp.Id to the caller's request and nothing else:
//
//	if shared { resp = resp.Copy() }
//	resp.Id = req.Id            // <- the question stays the leader's
//
// In the full pipeline the cache's own miss de-duplication usually hides
// this (followers re-read the cache with their own request), so it needs a
// pair the cache does not collapse: an internal sub-query (alias chase,
// DNAME target, NS address) racing a client's direct question for the same
// name, cache followers that proceed together after a leader's result was
// not stored, or a cache-less pipeline (as here).
package resolver

import (
	"context"
	"sync"
	"sync/atomic"
	"testing"
	"time"

	"github.com/miekg/dns"
	"github.com/semihalev/sdns/internal/dnsutil"
	"github.com/semihalev/sdns/internal/mock"
	"github.com/semihalev/sdns/middleware"
)

func TestC10DefectSharedLookupAnswersWithTheLeadersQuestion(t *testing.T) {
	hnet := newHermeticNet(t)
	zone := hnet.Delegate("shop.test.")
	zone.Serve(mustRR(t, "www.shop.test. 300 IN A 192.0.2.10"))
	zone.Serve(mustRR(t, "warm.shop.test. 300 IN A 192.0.2.11"))
	handlers := []middleware.Handler{hnet.Handler()}

	serve := func(remote string, req *dns.Msg) *dns.Msg {
		w := mock.NewWriter("udp", remote)
		ch := middleware.NewChain(handlers)
		ch.Reset(w, req)
		ch.Next(context.Background())
		return w.Msg()
	}

	// Warm the delegation and keys so both clients go straight to the
	// zone's server with their final question.
	warm := new(dns.Msg)
	warm.SetQuestion("warm.shop.test.", dns.TypeA)
	warm.SetEdns0(dnsutil.DefaultMsgSize, true)
	if resp := serve("192.0.2.200:4000", warm); resp == nil || resp.Rcode != dns.RcodeSuccess {
		t.Fatalf("warm-up did not resolve: %v", resp)
	}

	// The zone's server holds its answer until the second client has had
	// time to join the first one's lookup.
	var secondAt atomic.Int64
	zone.HoldUntil(func() bool {
		at := secondAt.Load()
		return at != 0 && time.Now().UnixNano()-at > int64(200*time.Millisecond)
	}, 5*time.Second)

	clients := []struct {
		name   string
		id     uint16
		remote string
	}{
		{"www.shop.test.", 0x1111, "192.0.2.50:5300"}, // leader (first in)
		{"wWw.sHoP.tEsT.", 0x2222, "192.0.2.60:6300"}, // follower
	}
	resps := make([]*dns.Msg, len(clients))
	var wg sync.WaitGroup
	for i := range clients {
		wg.Add(1)
		go func(i int) {
			defer wg.Done()
			req := new(dns.Msg)
			req.SetQuestion(clients[i].name, dns.TypeA)
			req.Id = clients[i].id
			req.SetEdns0(dnsutil.DefaultMsgSize, true)
			if i == 1 {
				secondAt.Store(time.Now().UnixNano())
			}
			resps[i] = serve(clients[i].remote, req)
		}(i)
		time.Sleep(80 * time.Millisecond) // the first one reaches the upstream first
	}
	wg.Wait()

	for i, resp := range resps {
		if resp == nil {
			t.Fatalf("client %d: no reply", i)
		}
		if resp.Id != clients[i].id {
			t.Errorf("client %d: reply id %#x, want %#x", i, resp.Id, clients[i].id)
		}
		if len(resp.Question) != 1 || resp.Question[0].Name != clients[i].name {
			t.Errorf("client %d asked %q (id %#x) and was answered with question %v — "+
				"the question section of another client's query",
				i, clients[i].name, clients[i].id, resp.Question)
		}
	}
}
