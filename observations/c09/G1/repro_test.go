// GENUINE DEFECT G1 (unmodified tree): the revocation of a trust anchor whose
// key-tag checksum wraps when the REVOKE bit is set is never seen.
//
// Copy into:  middleware/resolver/   (package resolver, internal test)
// Run with:   go test -vet=off -count=1 -run 'TestC09GenuineWrapTag' ./middleware/resolver/
// Expected:   FAILS on the unmodified tree.
//
// auto_trust_anchor.go finds the anchor a fetched REVOKE-bit key belongs to
// with `tag - DNSKEYFlagRevoke` (three sites: the fetched-set collision switch,
// stageRevocationSelfSignatures / the main loop, and revokedBootstrap in
// verifyFetchedKeysWithWork). The RFC 4034 App. B key tag is a 16-bit sum with
// the carries folded back in, so setting flag bit 0x0080 adds 128 to the tag
// only while the low 16 bits of the sum stay below 0xFF80. For one key in 512
// the addition carries and the revoked form has tag+129 (mod 65536). For such
// an anchor the lookup lands on the wrong slot, so:
//
//	(a) zone co-signed by another anchor: the published, self-signed revocation
//	    is ignored; the key is treated as having "merely disappeared", stays in
//	    the live trust set as MISSING for 90 days, is never tombstoned, and is
//	    re-admitted from configuration afterwards;
//	(b) zone signed only by the revoked key: the refresh is rejected outright
//	    (no revoked-bootstrap), so the revoked key stays VALID indefinitely.
//
// (The repository's own TestStageRevocationSelfSignatures... loops key
// generation until tag+128 holds, i.e. it steps around exactly these keys.)
package resolver

import (
	"crypto"
	"net"
	"path/filepath"
	"sync"
	"testing"
	"time"

	"github.com/miekg/dns"
	"github.com/semihalev/sdns/config"
)

type c09g1Key struct {
	key    *dns.DNSKEY
	signer crypto.Signer
}

// c09g1NewKeyWrap makes an Ed25519 KSK. wrap=false: the revoked form has
// tag+128 (511 keys in 512). wrap=true: setting the REVOKE bit carries out of
// the low 16 bits of the RFC 4034 checksum, so the revoked form has tag+129
// (mod 65536) - one key in 512.
func c09g1NewKey(t *testing.T) c09g1Key { return c09g1NewKeyWrap(t, false) }

func c09g1NewKeyWrap(t *testing.T, wrap bool) c09g1Key {
	t.Helper()
	for {
		k := &dns.DNSKEY{
			Hdr:       dns.RR_Header{Name: ".", Rrtype: dns.TypeDNSKEY, Class: dns.ClassINET, Ttl: 172800},
			Flags:     257,
			Protocol:  3,
			Algorithm: dns.ED25519,
		}
		priv, err := k.Generate(256)
		if err != nil {
			t.Fatal(err)
		}
		rev := *k
		rev.Flags |= DNSKEYFlagRevoke
		if (rev.KeyTag() != k.KeyTag()+DNSKEYFlagRevoke) != wrap {
			continue
		}
		return c09g1Key{key: k, signer: priv.(crypto.Signer)}
	}
}

func (k c09g1Key) revoked() *dns.DNSKEY {
	c := *k.key
	c.Flags |= DNSKEYFlagRevoke
	return &c
}

// sign signs set with k's private key; the RRSIG carries the tag of `as`
// (k.key, or k.revoked() for the self-signature of a revocation).
func (k c09g1Key) sign(t *testing.T, as *dns.DNSKEY, set []dns.RR) *dns.RRSIG {
	t.Helper()
	now := time.Now()
	sig := &dns.RRSIG{
		Hdr:         dns.RR_Header{Name: ".", Rrtype: dns.TypeRRSIG, Class: dns.ClassINET, Ttl: 172800},
		TypeCovered: dns.TypeDNSKEY,
		Algorithm:   as.Algorithm,
		OrigTtl:     172800,
		Expiration:  uint32(now.Add(24 * time.Hour).Unix()),  //nolint:gosec
		Inception:   uint32(now.Add(-24 * time.Hour).Unix()), //nolint:gosec
		KeyTag:      as.KeyTag(),
		SignerName:  ".",
	}
	if err := sig.Sign(k.signer, set); err != nil {
		t.Fatal(err)
	}
	return sig
}

type c09g1Root struct {
	mu     sync.Mutex
	answer []dns.RR
	addr   string
}

func (s *c09g1Root) set(rrs ...dns.RR) {
	s.mu.Lock()
	s.answer = rrs
	s.mu.Unlock()
}

func c09g1StartRoot(t *testing.T) *c09g1Root {
	t.Helper()
	pc, err := net.ListenPacket("udp", "127.0.0.1:0")
	if err != nil {
		t.Fatal(err)
	}
	s := &c09g1Root{addr: pc.LocalAddr().String()}
	ln, err := net.Listen("tcp", s.addr)
	if err != nil {
		t.Fatal(err)
	}
	h := dns.HandlerFunc(func(w dns.ResponseWriter, r *dns.Msg) {
		m := new(dns.Msg)
		m.SetReply(r)
		m.Authoritative = true
		if len(r.Question) == 1 && r.Question[0].Qtype == dns.TypeDNSKEY && r.Question[0].Name == "." {
			s.mu.Lock()
			for _, rr := range s.answer {
				m.Answer = append(m.Answer, dns.Copy(rr))
			}
			s.mu.Unlock()
		}
		m.SetEdns0(4096, true)
		_ = w.WriteMsg(m)
	})
	us := &dns.Server{PacketConn: pc, Handler: h}
	ts := &dns.Server{Listener: ln, Handler: h}
	go func() { _ = us.ActivateAndServe() }()
	go func() { _ = ts.ActivateAndServe() }()
	t.Cleanup(func() { _ = us.Shutdown(); _ = ts.Shutdown() })
	return s
}

func c09g1Config(dir string, root *c09g1Root, keys ...*dns.DNSKEY) *config.Config {
	cfg := new(config.Config)
	cfg.RootServers = []string{root.addr}
	for _, k := range keys {
		cfg.RootKeys = append(cfg.RootKeys, k.String())
	}
	cfg.Maxdepth = 30
	cfg.Expire = 600
	cfg.CacheSize = 1024
	cfg.Timeout.Duration = 2 * time.Second
	cfg.Directory = dir
	cfg.DNSSEC = "on"
	return cfg
}

func c09g1Live(r *Resolver) map[string]bool {
	r.RLock()
	defer r.RUnlock()
	out := map[string]bool{}
	for _, rr := range r.rootKeys {
		out[dnskeyMaterialFP(rr.(*dns.DNSKEY))] = true
	}
	return out
}

func TestC09GenuineWrapTagRevocationCoSigned(t *testing.T) {
	root := c09g1StartRoot(t)
	a := c09g1NewKey(t)
	k := c09g1NewKeyWrap(t, true)
	t.Logf("K tag %d, revoked form tag %d (tag+128 would be %d)", k.key.KeyTag(), k.revoked().KeyTag(), k.key.KeyTag()+DNSKEYFlagRevoke)
	dir := t.TempDir()
	cfg := c09g1Config(dir, root, a.key, k.key)

	set := []dns.RR{a.key, k.key}
	root.set(a.key, k.key, a.sign(t, a.key, set))
	r := NewResolver(cfg)
	r.AutoTA()
	if !c09g1Live(r)[dnskeyMaterialFP(k.key)] {
		t.Fatal("setup: K not live")
	}

	// The zone revokes K: {A, K+REVOKE}, signed by A and self-signed by K.
	kr := k.revoked()
	set = []dns.RR{a.key, kr}
	root.set(a.key, kr, a.sign(t, a.key, set), k.sign(t, kr, set))
	r.AutoTA()

	if c09g1Live(r)[dnskeyMaterialFP(k.key)] {
		st, _ := readFromTAFile(filepath.Join(dir, stateFile))
		for tag, ta := range st {
			t.Logf("state: tag %d %s", tag, ta.State)
		}
		t.Error("K is still a live trust anchor after a validly signed, self-signed revocation")
	}
	tb, err := readTombstones(filepath.Join(dir, tombstoneFile))
	if err != nil {
		t.Fatal(err)
	}
	if _, ok := tb[dnskeyMaterialFP(k.key)]; !ok {
		t.Error("K's revocation left no tombstone")
	}
}

func TestC09GenuineWrapTagRevocationSelfSignedOnly(t *testing.T) {
	root := c09g1StartRoot(t)
	a := c09g1NewKey(t)
	k := c09g1NewKeyWrap(t, true)
	dir := t.TempDir()
	cfg := c09g1Config(dir, root, a.key, k.key)

	set := []dns.RR{a.key, k.key}
	root.set(a.key, k.key, a.sign(t, a.key, set))
	r := NewResolver(cfg)
	r.AutoTA()

	// {A, K+REVOKE} signed only by the revoked K: RFC 5011 2.1 lets this
	// complete K's revocation (and the code does so for a non-wrapping key).
	kr := k.revoked()
	set = []dns.RR{a.key, kr}
	root.set(a.key, kr, k.sign(t, kr, set))
	r.AutoTA()
	if c09g1Live(r)[dnskeyMaterialFP(k.key)] {
		t.Error("K is still a live trust anchor after its self-signed revocation")
	}
}
