// GENUINE DEFECT G3 (unmodified tree; lower severity - a window, not a steady
// state): after a restart a tombstoned key that configuration still lists is a
// live trust anchor until the first AutoTA run reaches its pre-fetch publish.
//
// Copy into:  middleware/resolver/   (package resolver, internal test)
// Run with:   go test -vet=off -count=1 -run 'TestC09GenuineRestartWindow' ./middleware/resolver/
// Expected:   FAILS on the unmodified tree.
//
// NewResolver copies cfg.RootKeys into r.rootKeys without consulting
// trust-anchor-tombstones.db. The tombstone filter only runs inside AutoTA,
// which Resolver.run() calls after waiting for middleware.Ready() AND after
// checkPriming() - a network exchange with the root servers that takes up to
// several timeouts when they are slow or unreachable. Queries are validated
// against r.rootKeys during that whole interval, so a root DNSKEY RRset signed
// only by the revoked (i.e. presumed compromised) key validates. The property
// says a key whose revocation was accepted is never published again "not after
// restarts ... [or] configuration that still lists it".
package resolver

import (
	"context"
	"crypto"
	"net"
	"path/filepath"
	"sync"
	"testing"
	"time"

	"github.com/miekg/dns"
	"github.com/semihalev/sdns/config"
)

type c09g3Key struct {
	key    *dns.DNSKEY
	signer crypto.Signer
}

// c09g3NewKeyWrap makes an Ed25519 KSK. wrap=false: the revoked form has
// tag+128 (511 keys in 512). wrap=true: setting the REVOKE bit carries out of
// the low 16 bits of the RFC 4034 checksum, so the revoked form has tag+129
// (mod 65536) - one key in 512.
func c09g3NewKey(t *testing.T) c09g3Key { return c09g3NewKeyWrap(t, false) }

func c09g3NewKeyWrap(t *testing.T, wrap bool) c09g3Key {
	t.Helper()
	for {
		k := &dns.DNSKEY{
			Hdr:       dns.RR_Header{Name: ".", Rrtype: dns.TypeDNSKEY, Class: dns.ClassINET, Ttl: 172800},
			Flags:     257,
			Protocol:  3,
			Algorithm: dns.ED25519,
		}
		priv, err := k.Generate(256)
		if err != nil {
			t.Fatal(err)
		}
		rev := *k
		rev.Flags |= DNSKEYFlagRevoke
		if (rev.KeyTag() != k.KeyTag()+DNSKEYFlagRevoke) != wrap {
			continue
		}
		return c09g3Key{key: k, signer: priv.(crypto.Signer)}
	}
}

func (k c09g3Key) revoked() *dns.DNSKEY {
	c := *k.key
	c.Flags |= DNSKEYFlagRevoke
	return &c
}

// sign signs set with k's private key; the RRSIG carries the tag of `as`
// (k.key, or k.revoked() for the self-signature of a revocation).
func (k c09g3Key) sign(t *testing.T, as *dns.DNSKEY, set []dns.RR) *dns.RRSIG {
	t.Helper()
	now := time.Now()
	sig := &dns.RRSIG{
		Hdr:         dns.RR_Header{Name: ".", Rrtype: dns.TypeRRSIG, Class: dns.ClassINET, Ttl: 172800},
		TypeCovered: dns.TypeDNSKEY,
		Algorithm:   as.Algorithm,
		OrigTtl:     172800,
		Expiration:  uint32(now.Add(24 * time.Hour).Unix()),  //nolint:gosec
		Inception:   uint32(now.Add(-24 * time.Hour).Unix()), //nolint:gosec
		KeyTag:      as.KeyTag(),
		SignerName:  ".",
	}
	if err := sig.Sign(k.signer, set); err != nil {
		t.Fatal(err)
	}
	return sig
}

type c09g3Root struct {
	mu     sync.Mutex
	answer []dns.RR
	addr   string
}

func (s *c09g3Root) set(rrs ...dns.RR) {
	s.mu.Lock()
	s.answer = rrs
	s.mu.Unlock()
}

func c09g3StartRoot(t *testing.T) *c09g3Root {
	t.Helper()
	pc, err := net.ListenPacket("udp", "127.0.0.1:0")
	if err != nil {
		t.Fatal(err)
	}
	s := &c09g3Root{addr: pc.LocalAddr().String()}
	ln, err := net.Listen("tcp", s.addr)
	if err != nil {
		t.Fatal(err)
	}
	h := dns.HandlerFunc(func(w dns.ResponseWriter, r *dns.Msg) {
		m := new(dns.Msg)
		m.SetReply(r)
		m.Authoritative = true
		if len(r.Question) == 1 && r.Question[0].Qtype == dns.TypeDNSKEY && r.Question[0].Name == "." {
			s.mu.Lock()
			for _, rr := range s.answer {
				m.Answer = append(m.Answer, dns.Copy(rr))
			}
			s.mu.Unlock()
		}
		m.SetEdns0(4096, true)
		_ = w.WriteMsg(m)
	})
	us := &dns.Server{PacketConn: pc, Handler: h}
	ts := &dns.Server{Listener: ln, Handler: h}
	go func() { _ = us.ActivateAndServe() }()
	go func() { _ = ts.ActivateAndServe() }()
	t.Cleanup(func() { _ = us.Shutdown(); _ = ts.Shutdown() })
	return s
}

func c09g3Config(dir string, root *c09g3Root, keys ...*dns.DNSKEY) *config.Config {
	cfg := new(config.Config)
	cfg.RootServers = []string{root.addr}
	for _, k := range keys {
		cfg.RootKeys = append(cfg.RootKeys, k.String())
	}
	cfg.Maxdepth = 30
	cfg.Expire = 600
	cfg.CacheSize = 1024
	cfg.Timeout.Duration = 2 * time.Second
	cfg.Directory = dir
	cfg.DNSSEC = "on"
	return cfg
}

func c09g3Live(r *Resolver) map[string]bool {
	r.RLock()
	defer r.RUnlock()
	out := map[string]bool{}
	for _, rr := range r.rootKeys {
		out[dnskeyMaterialFP(rr.(*dns.DNSKEY))] = true
	}
	return out
}

func TestC09GenuineRestartWindowTrustsTombstonedConfiguredKey(t *testing.T) {
	root := c09g3StartRoot(t)
	a, k := c09g3NewKey(t), c09g3NewKey(t)
	dir := t.TempDir()
	cfg := c09g3Config(dir, root, a.key, k.key)
	kfp := dnskeyMaterialFP(k.key)

	set := []dns.RR{a.key, k.key}
	root.set(a.key, k.key, a.sign(t, a.key, set))
	r := NewResolver(cfg)
	r.AutoTA()

	kr := k.revoked()
	set = []dns.RR{a.key, kr}
	root.set(a.key, kr, a.sign(t, a.key, set), k.sign(t, kr, set))
	r.AutoTA()
	if c09g3Live(r)[kfp] {
		t.Fatal("setup: revoked K still live")
	}
	tb, err := readTombstones(filepath.Join(dir, tombstoneFile))
	if err != nil || tb[kfp] == nil {
		t.Fatalf("setup: tombstone not written: %v %v", tb, err)
	}

	// Restart. Nothing else happens yet: run() is still waiting for the
	// middleware pipeline / priming the root hints.
	r2 := NewResolver(cfg)
	if c09g3Live(r2)[kfp] {
		t.Error("after restart, before the first AutoTA: tombstoned K is in the live trust set")
	}
	// What that means for validation: a root DNSKEY RRset carrying an
	// attacker ZSK and signed only with K's private key is accepted.
	evil := c09g3NewKey(t)
	evil.key.Flags = 256
	forged := []dns.RR{k.key, evil.key}
	msg := &dns.Msg{Answer: append(forged, k.sign(t, k.key, forged))}
	if ok, err := r2.verifyRootKeys(context.Background(), msg); ok && err == nil {
		t.Error("after restart, before the first AutoTA: a root DNSKEY RRset signed only by the revoked key validates")
	}
}
