// GENUINE DEFECT G2 (unmodified tree): an unreadable tombstone store is
// treated as an empty one, so a revoked key that configuration still lists is
// trusted again (and the store is then overwritten with the empty set).
//
// Copy into:  middleware/resolver/   (package resolver, internal test)
// Run with:   go test -vet=off -count=1 -run 'TestC09GenuineUnreadable' ./middleware/resolver/
// Expected:   FAILS on the unmodified tree.
//
// AutoTA fails closed only for errCorruptTombstones (bytes read but not
// decodable). Any other error from os.Open that is not ENOENT - EACCES after
// the daemon is started under another uid (the file is created 0600 by
// os.CreateTemp), EMFILE/ENFILE under descriptor exhaustion, ELOOP, EIO - takes
// the "proceeding with empty in-memory tombstones" branch. Since a completed
// revocation is recorded ONLY in that store (the REVOKED marker is removed
// from trust-anchor.db once the tombstone write succeeded), the configured-key
// merge re-adds the revoked key as VALID and it is published to r.rootKeys
// before the DNSKEY fetch even starts. At the end of the run writeTombstones
// renames a fresh, empty store over the unreadable one, making the loss
// permanent. The property requires: "if ... the revocation store is
// unreadable, validation fails closed instead of trusting it".
//
// The second test is the two-fault sibling: the tombstone write failed at the
// revocation (so trust-anchor.db's REVOKED marker is the only record) and the
// state file is then unreadable on a later refresh.
//
// The test makes the file unreadable with chmod 000 when not root, and by
// replacing it with a self-referencing symlink (open -> ELOOP) when root,
// because root ignores permission bits.
package resolver

import (
	"crypto"
	"net"
	"os"
	"path/filepath"
	"sync"
	"testing"
	"time"

	"github.com/miekg/dns"
	"github.com/semihalev/sdns/config"
)

type c09g2Key struct {
	key    *dns.DNSKEY
	signer crypto.Signer
}

// c09g2NewKeyWrap makes an Ed25519 KSK. wrap=false: the revoked form has
// tag+128 (511 keys in 512). wrap=true: setting the REVOKE bit carries out of
// the low 16 bits of the RFC 4034 checksum, so the revoked form has tag+129
// (mod 65536) - one key in 512.
func c09g2NewKey(t *testing.T) c09g2Key { return c09g2NewKeyWrap(t, false) }

func c09g2NewKeyWrap(t *testing.T, wrap bool) c09g2Key {
	t.Helper()
	for {
		k := &dns.DNSKEY{
			Hdr:       dns.RR_Header{Name: ".", Rrtype: dns.TypeDNSKEY, Class: dns.ClassINET, Ttl: 172800},
			Flags:     257,
			Protocol:  3,
			Algorithm: dns.ED25519,
		}
		priv, err := k.Generate(256)
		if err != nil {
			t.Fatal(err)
		}
		rev := *k
		rev.Flags |= DNSKEYFlagRevoke
		if (rev.KeyTag() != k.KeyTag()+DNSKEYFlagRevoke) != wrap {
			continue
		}
		return c09g2Key{key: k, signer: priv.(crypto.Signer)}
	}
}

func (k c09g2Key) revoked() *dns.DNSKEY {
	c := *k.key
	c.Flags |= DNSKEYFlagRevoke
	return &c
}

// sign signs set with k's private key; the RRSIG carries the tag of `as`
// (k.key, or k.revoked() for the self-signature of a revocation).
func (k c09g2Key) sign(t *testing.T, as *dns.DNSKEY, set []dns.RR) *dns.RRSIG {
	t.Helper()
	now := time.Now()
	sig := &dns.RRSIG{
		Hdr:         dns.RR_Header{Name: ".", Rrtype: dns.TypeRRSIG, Class: dns.ClassINET, Ttl: 172800},
		TypeCovered: dns.TypeDNSKEY,
		Algorithm:   as.Algorithm,
		OrigTtl:     172800,
		Expiration:  uint32(now.Add(24 * time.Hour).Unix()),  //nolint:gosec
		Inception:   uint32(now.Add(-24 * time.Hour).Unix()), //nolint:gosec
		KeyTag:      as.KeyTag(),
		SignerName:  ".",
	}
	if err := sig.Sign(k.signer, set); err != nil {
		t.Fatal(err)
	}
	return sig
}

type c09g2Root struct {
	mu     sync.Mutex
	answer []dns.RR
	addr   string
}

func (s *c09g2Root) set(rrs ...dns.RR) {
	s.mu.Lock()
	s.answer = rrs
	s.mu.Unlock()
}

func c09g2StartRoot(t *testing.T) *c09g2Root {
	t.Helper()
	pc, err := net.ListenPacket("udp", "127.0.0.1:0")
	if err != nil {
		t.Fatal(err)
	}
	s := &c09g2Root{addr: pc.LocalAddr().String()}
	ln, err := net.Listen("tcp", s.addr)
	if err != nil {
		t.Fatal(err)
	}
	h := dns.HandlerFunc(func(w dns.ResponseWriter, r *dns.Msg) {
		m := new(dns.Msg)
		m.SetReply(r)
		m.Authoritative = true
		if len(r.Question) == 1 && r.Question[0].Qtype == dns.TypeDNSKEY && r.Question[0].Name == "." {
			s.mu.Lock()
			for _, rr := range s.answer {
				m.Answer = append(m.Answer, dns.Copy(rr))
			}
			s.mu.Unlock()
		}
		m.SetEdns0(4096, true)
		_ = w.WriteMsg(m)
	})
	us := &dns.Server{PacketConn: pc, Handler: h}
	ts := &dns.Server{Listener: ln, Handler: h}
	go func() { _ = us.ActivateAndServe() }()
	go func() { _ = ts.ActivateAndServe() }()
	t.Cleanup(func() { _ = us.Shutdown(); _ = ts.Shutdown() })
	return s
}

func c09g2Config(dir string, root *c09g2Root, keys ...*dns.DNSKEY) *config.Config {
	cfg := new(config.Config)
	cfg.RootServers = []string{root.addr}
	for _, k := range keys {
		cfg.RootKeys = append(cfg.RootKeys, k.String())
	}
	cfg.Maxdepth = 30
	cfg.Expire = 600
	cfg.CacheSize = 1024
	cfg.Timeout.Duration = 2 * time.Second
	cfg.Directory = dir
	cfg.DNSSEC = "on"
	return cfg
}

func c09g2Live(r *Resolver) map[string]bool {
	r.RLock()
	defer r.RUnlock()
	out := map[string]bool{}
	for _, rr := range r.rootKeys {
		out[dnskeyMaterialFP(rr.(*dns.DNSKEY))] = true
	}
	return out
}

func c09g2MakeUnreadable(t *testing.T, p string) {
	t.Helper()
	if os.Geteuid() != 0 {
		if err := os.Chmod(p, 0); err != nil {
			t.Fatal(err)
		}
	} else {
		if err := os.Rename(p, p+".real"); err != nil {
			t.Fatal(err)
		}
		if err := os.Symlink(filepath.Base(p), p); err != nil {
			t.Fatal(err)
		}
	}
	f, err := os.Open(p)
	if err == nil {
		_ = f.Close()
		t.Fatal("setup: file is still readable")
	}
	if os.IsNotExist(err) {
		t.Fatalf("setup: open error must not be ENOENT: %v", err)
	}
}

func TestC09GenuineUnreadableTombstoneStore(t *testing.T) {
	root := c09g2StartRoot(t)
	a, k := c09g2NewKey(t), c09g2NewKey(t)
	dir := t.TempDir()
	cfg := c09g2Config(dir, root, a.key, k.key)
	kfp := dnskeyMaterialFP(k.key)

	set := []dns.RR{a.key, k.key}
	root.set(a.key, k.key, a.sign(t, a.key, set))
	r := NewResolver(cfg)
	r.AutoTA()

	// K is revoked; both files are written.
	kr := k.revoked()
	set = []dns.RR{a.key, kr}
	root.set(a.key, kr, a.sign(t, a.key, set), k.sign(t, kr, set))
	r.AutoTA()
	if c09g2Live(r)[kfp] {
		t.Fatal("setup: revoked K still live")
	}
	tb, err := readTombstones(filepath.Join(dir, tombstoneFile))
	if err != nil || tb[kfp] == nil {
		t.Fatalf("setup: tombstone not written: %v %v", tb, err)
	}

	// Later the zone withdraws the revoked key.
	set = []dns.RR{a.key}
	root.set(a.key, a.sign(t, a.key, set))
	r.AutoTA()
	if c09g2Live(r)[kfp] {
		t.Fatal("setup: revoked K live")
	}

	// The tombstone store becomes unreadable; the process restarts.
	c09g2MakeUnreadable(t, filepath.Join(dir, tombstoneFile))
	r2 := NewResolver(cfg)
	r2.AutoTA()
	if c09g2Live(r2)[kfp] {
		t.Error("tombstone store unreadable: revoked K is published as a trust anchor again instead of failing closed")
	}
	// ... and the loss is made permanent.
	r3 := NewResolver(cfg)
	r3.AutoTA()
	if c09g2Live(r3)[kfp] {
		t.Error("next restart: revoked K is still a trust anchor (the unreadable store was overwritten with an empty one)")
	}
}

func TestC09GenuineUnreadableStateFileHoldingOnlyMarker(t *testing.T) {
	root := c09g2StartRoot(t)
	a, k := c09g2NewKey(t), c09g2NewKey(t)
	dir := t.TempDir()
	cfg := c09g2Config(dir, root, a.key, k.key)
	kfp := dnskeyMaterialFP(k.key)
	statePath := filepath.Join(dir, stateFile)

	set := []dns.RR{a.key, k.key}
	root.set(a.key, k.key, a.sign(t, a.key, set))
	r := NewResolver(cfg)
	r.AutoTA()

	// Revocation accepted, tombstone write failed, state write succeeded:
	// K is a REVOKED marker in trust-anchor.db and nowhere else.
	st, err := readFromTAFile(statePath)
	if err != nil {
		t.Fatal(err)
	}
	st[k.key.KeyTag()].State = StateRevoked
	if err := writeToTAFile(statePath, st); err != nil {
		t.Fatal(err)
	}

	// Next refresh: zone no longer carries K; the state file cannot be opened.
	set = []dns.RR{a.key}
	root.set(a.key, a.sign(t, a.key, set))
	c09g2MakeUnreadable(t, statePath)
	r2 := NewResolver(cfg)
	r2.AutoTA()
	if c09g2Live(r2)[kfp] {
		t.Error("state file (sole record of K's revocation) unreadable: K is published as a trust anchor again")
	}
}
