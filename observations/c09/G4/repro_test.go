// GENUINE DEFECT G4 (unmodified tree; lower confidence - depends on whether a
// configured key is meant to override the RFC 5011 remove hold-down): a
// configured anchor that left the root zone is deleted after its 90-day
// MISSING hold-down and re-admitted as VALID, with no add hold-down and
// without the zone publishing it, by the very next refresh - so it is trusted
// forever, minus one refresh interval every 90 days.
//
// Copy into:  middleware/resolver/   (package resolver, internal test)
// Run with:   go test -vet=off -count=1 -run 'TestC09GenuineRemovedKeyComesBack' ./middleware/resolver/
// Expected:   FAILS on the unmodified tree.
//
// The remove-hold-down branch deletes the entry from state without a
// tombstone; its comment says the key "should be allowed back through AddPend
// if the root republishes it". But the configured-key merge at the top of
// AutoTA re-inserts any configured key that is absent from state and not
// tombstoned as StateValid and publishes it before the fetch.
package resolver

import (
	"crypto"
	"net"
	"path/filepath"
	"sync"
	"testing"
	"time"

	"github.com/miekg/dns"
	"github.com/semihalev/sdns/config"
)

type c09g4Key struct {
	key    *dns.DNSKEY
	signer crypto.Signer
}

// c09g4NewKeyWrap makes an Ed25519 KSK. wrap=false: the revoked form has
// tag+128 (511 keys in 512). wrap=true: setting the REVOKE bit carries out of
// the low 16 bits of the RFC 4034 checksum, so the revoked form has tag+129
// (mod 65536) - one key in 512.
func c09g4NewKey(t *testing.T) c09g4Key { return c09g4NewKeyWrap(t, false) }

func c09g4NewKeyWrap(t *testing.T, wrap bool) c09g4Key {
	t.Helper()
	for {
		k := &dns.DNSKEY{
			Hdr:       dns.RR_Header{Name: ".", Rrtype: dns.TypeDNSKEY, Class: dns.ClassINET, Ttl: 172800},
			Flags:     257,
			Protocol:  3,
			Algorithm: dns.ED25519,
		}
		priv, err := k.Generate(256)
		if err != nil {
			t.Fatal(err)
		}
		rev := *k
		rev.Flags |= DNSKEYFlagRevoke
		if (rev.KeyTag() != k.KeyTag()+DNSKEYFlagRevoke) != wrap {
			continue
		}
		return c09g4Key{key: k, signer: priv.(crypto.Signer)}
	}
}

func (k c09g4Key) revoked() *dns.DNSKEY {
	c := *k.key
	c.Flags |= DNSKEYFlagRevoke
	return &c
}

// sign signs set with k's private key; the RRSIG carries the tag of `as`
// (k.key, or k.revoked() for the self-signature of a revocation).
func (k c09g4Key) sign(t *testing.T, as *dns.DNSKEY, set []dns.RR) *dns.RRSIG {
	t.Helper()
	now := time.Now()
	sig := &dns.RRSIG{
		Hdr:         dns.RR_Header{Name: ".", Rrtype: dns.TypeRRSIG, Class: dns.ClassINET, Ttl: 172800},
		TypeCovered: dns.TypeDNSKEY,
		Algorithm:   as.Algorithm,
		OrigTtl:     172800,
		Expiration:  uint32(now.Add(24 * time.Hour).Unix()),  //nolint:gosec
		Inception:   uint32(now.Add(-24 * time.Hour).Unix()), //nolint:gosec
		KeyTag:      as.KeyTag(),
		SignerName:  ".",
	}
	if err := sig.Sign(k.signer, set); err != nil {
		t.Fatal(err)
	}
	return sig
}

type c09g4Root struct {
	mu     sync.Mutex
	answer []dns.RR
	addr   string
}

func (s *c09g4Root) set(rrs ...dns.RR) {
	s.mu.Lock()
	s.answer = rrs
	s.mu.Unlock()
}

func c09g4StartRoot(t *testing.T) *c09g4Root {
	t.Helper()
	pc, err := net.ListenPacket("udp", "127.0.0.1:0")
	if err != nil {
		t.Fatal(err)
	}
	s := &c09g4Root{addr: pc.LocalAddr().String()}
	ln, err := net.Listen("tcp", s.addr)
	if err != nil {
		t.Fatal(err)
	}
	h := dns.HandlerFunc(func(w dns.ResponseWriter, r *dns.Msg) {
		m := new(dns.Msg)
		m.SetReply(r)
		m.Authoritative = true
		if len(r.Question) == 1 && r.Question[0].Qtype == dns.TypeDNSKEY && r.Question[0].Name == "." {
			s.mu.Lock()
			for _, rr := range s.answer {
				m.Answer = append(m.Answer, dns.Copy(rr))
			}
			s.mu.Unlock()
		}
		m.SetEdns0(4096, true)
		_ = w.WriteMsg(m)
	})
	us := &dns.Server{PacketConn: pc, Handler: h}
	ts := &dns.Server{Listener: ln, Handler: h}
	go func() { _ = us.ActivateAndServe() }()
	go func() { _ = ts.ActivateAndServe() }()
	t.Cleanup(func() { _ = us.Shutdown(); _ = ts.Shutdown() })
	return s
}

func c09g4Config(dir string, root *c09g4Root, keys ...*dns.DNSKEY) *config.Config {
	cfg := new(config.Config)
	cfg.RootServers = []string{root.addr}
	for _, k := range keys {
		cfg.RootKeys = append(cfg.RootKeys, k.String())
	}
	cfg.Maxdepth = 30
	cfg.Expire = 600
	cfg.CacheSize = 1024
	cfg.Timeout.Duration = 2 * time.Second
	cfg.Directory = dir
	cfg.DNSSEC = "on"
	return cfg
}

func c09g4Live(r *Resolver) map[string]bool {
	r.RLock()
	defer r.RUnlock()
	out := map[string]bool{}
	for _, rr := range r.rootKeys {
		out[dnskeyMaterialFP(rr.(*dns.DNSKEY))] = true
	}
	return out
}

func TestC09GenuineRemovedKeyComesBackFromConfiguration(t *testing.T) {
	root := c09g4StartRoot(t)
	a, k := c09g4NewKey(t), c09g4NewKey(t)
	dir := t.TempDir()
	cfg := c09g4Config(dir, root, a.key, k.key)
	kfp := dnskeyMaterialFP(k.key)
	statePath := filepath.Join(dir, stateFile)

	set := []dns.RR{a.key, k.key}
	root.set(a.key, k.key, a.sign(t, a.key, set))
	r := NewResolver(cfg)
	r.AutoTA()

	// K leaves the zone (no revocation).
	set = []dns.RR{a.key}
	root.set(a.key, a.sign(t, a.key, set))
	r.AutoTA()
	st, err := readFromTAFile(statePath)
	if err != nil {
		t.Fatal(err)
	}
	if ta := st[k.key.KeyTag()]; ta == nil || ta.State != StateMissing {
		t.Fatalf("setup: K not MISSING: %+v", ta)
	}
	if !c09g4Live(r)[kfp] {
		t.Fatal("setup: a MISSING key must stay trusted")
	}

	// 91 days pass.
	st[k.key.KeyTag()].FirstSeen = time.Now().Add(-91 * 24 * time.Hour)
	if err := writeToTAFile(statePath, st); err != nil {
		t.Fatal(err)
	}
	r.AutoTA()
	if c09g4Live(r)[kfp] {
		t.Fatal("setup: K should have been deleted after the 90-day hold-down")
	}

	// Twelve hours later, same zone contents.
	r.AutoTA()
	if c09g4Live(r)[kfp] {
		st, _ = readFromTAFile(statePath)
		if ta := st[k.key.KeyTag()]; ta != nil {
			t.Logf("state: K is %s, first seen %s", ta.State, ta.FirstSeen.Format(time.RFC3339))
		}
		t.Error("K was removed after its 90-day hold-down and is a trust anchor again one refresh later, although the zone never republished it")
	}
}
