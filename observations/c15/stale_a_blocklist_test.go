// Pre-existing violation of C15, end to end (fails on the CLEAN checkout).
//
// Copy into the package directory  middleware/blocklist/  and run:
//
//	export GOFLAGS=-mod=mod GOPROXY=off
//	go test -vet=off -count=1 -run 'TestGenuineC15_NullrouteReplyDependsOnPacker' ./middleware/blocklist/
//
// Same root cause as stale_a_wire_test.go, reached through production code:
// the blocklist builds its A answer from net.ParseIP(cfg.Nullroute) without
// checking the family, so `nullroute = "::"` (e.g. the two nullroute settings
// swapped) yields an A record holding a 16-octet non-IPv4 address. Sent through
// a writer that declared the direct-pack capability the reply's A RDATA is
// four octets of the PREVIOUS reply packed by the pool; sent through the
// library path (same chain, capability not declared) it is 0.0.0.0.
package blocklist

import (
	"bytes"
	"context"
	"net"
	"strings"
	"testing"

	"github.com/miekg/dns"
	"github.com/semihalev/sdns/config"
	"github.com/semihalev/sdns/middleware"
)

type genuineSink struct {
	raw  [][]byte
	msgs []*dns.Msg
}

func (s *genuineSink) Write(b []byte) (int, error) {
	s.raw = append(s.raw, append([]byte(nil), b...))
	return len(b), nil
}

// WriteMsg is what an owned transport does on the Msg path: the library packs.
func (s *genuineSink) WriteMsg(m *dns.Msg) error {
	s.msgs = append(s.msgs, m)
	out, err := m.Pack()
	if err != nil {
		return err
	}
	s.raw = append(s.raw, out)
	return nil
}
func (s *genuineSink) LocalAddr() net.Addr { return &net.UDPAddr{IP: net.IPv4(127, 0, 0, 1), Port: 53} }
func (s *genuineSink) RemoteAddr() net.Addr {
	return &net.UDPAddr{IP: net.IPv4(203, 0, 113, 9), Port: 5353}
}
func (s *genuineSink) Close() error { return nil }

func TestGenuineC15_NullrouteReplyDependsOnPacker(t *testing.T) {
	cfg := new(config.Config)
	cfg.Nullroute = "::" // an IPv6 literal in the IPv4 setting
	cfg.Nullroutev6 = "::"
	cfg.BlockListDir = t.TempDir()
	b := New(cfg)
	b.Set("blocked.example.")

	serve := func(direct bool) []byte {
		t.Helper()
		// Another client's reply goes out first, through the pooled packer.
		other := new(dns.Msg)
		other.SetQuestion("other.example.", dns.TypeTXT)
		other.Response = true
		for range 6 {
			rr, err := dns.NewRR(`other.example. 300 IN TXT "` + strings.Repeat("SECRET", 30) + `"`)
			if err != nil {
				t.Fatal(err)
			}
			other.Answer = append(other.Answer, rr)
		}
		otherReq := new(dns.Msg)
		otherReq.SetQuestion("other.example.", dns.TypeTXT)
		och := middleware.NewChain(nil)
		och.Reset(&genuineSink{}, otherReq)
		och.AllowDirectPack()
		if err := och.Writer.WriteMsg(other); err != nil {
			t.Fatal(err)
		}

		req := new(dns.Msg)
		req.SetQuestion("blocked.example.", dns.TypeA)
		req.Id = 7
		sink := &genuineSink{}
		ch := middleware.NewChain([]middleware.Handler{b})
		ch.Reset(sink, req)
		if direct {
			ch.AllowDirectPack()
		}
		ch.Next(context.Background())
		if len(sink.raw) != 1 {
			t.Fatalf("direct=%v: %d replies written", direct, len(sink.raw))
		}
		if direct && len(sink.msgs) != 0 {
			t.Fatalf("the direct path was not taken")
		}
		return sink.raw[0]
	}

	viaLibrary := serve(false)
	viaPool := serve(true)
	if !bytes.Equal(viaPool, viaLibrary) {
		t.Fatalf("the same reply has two wire forms depending on which packer handled it;\n"+
			"A RDATA via the pooled packer: %q (octets of the previous client's reply)\n"+
			"pooled : %x\nlibrary: %x", viaPool[len(viaPool)-4:], viaPool, viaLibrary)
	}
}
