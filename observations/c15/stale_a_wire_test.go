// Pre-existing violation of C15 (fails on the CLEAN, unmodified checkout).
//
// Copy into the package directory  internal/wire/  and run:
//
//	export GOFLAGS=-mod=mod GOPROXY=off
//	go test -vet=off -count=1 -run 'TestGenuineC15_StaleBytesInARecord' ./internal/wire/
//
// An A record (also L32, and IPSECKEY/AMTRELAY with an IPv4 gateway) whose
// net.IP is 16 bytes long but is not an IPv4-mapped address is packed by the
// library's packDataA as
//
//	copy(msg[off:], a.To4())   // To4() == nil: copies nothing
//	off += net.IPv4len         // ... and still advances four octets
//
// The library's Pack runs over a freshly allocated, zeroed buffer, so those
// four octets are 0.0.0.0. The pooled packer hands PackRR a reused buffer
// that is never cleared, so the four octets are whatever an EARLIER message
// (possibly another client's reply) left at that offset: not the library's
// bytes, and an exposure of previously packed data.
package wire

import (
	"bytes"
	"net"
	"strings"
	"testing"

	"github.com/miekg/dns"
)

func TestGenuineC15_StaleBytesInARecord(t *testing.T) {
	// An earlier, unrelated reply: its payload stays behind in the pooled
	// buffer once the pack state is released.
	earlier := new(dns.Msg)
	earlier.SetQuestion("example.com.", dns.TypeTXT)
	for range 6 {
		rr, err := dns.NewRR(`example.com. 300 IN TXT "` + strings.Repeat("SECRET", 30) + `"`)
		if err != nil {
			t.Fatal(err)
		}
		earlier.Answer = append(earlier.Answer, rr)
	}

	victim := new(dns.Msg)
	victim.SetQuestion("blocked.example.", dns.TypeA)
	victim.Id = 1
	victim.Response = true
	victim.Answer = []dns.RR{&dns.A{
		Hdr: dns.RR_Header{Name: "blocked.example.", Rrtype: dns.TypeA, Class: dns.ClassINET, Ttl: 3600},
		A:   net.ParseIP("::"), // 16 octets, To4() == nil
	}}

	for _, compress := range []bool{false, true} {
		victim.Compress = compress
		want, err := victim.Copy().Pack()
		if err != nil {
			t.Fatalf("the library refuses the message: %v", err)
		}

		// Run a few rounds so that, whichever pooled state the victim pack
		// draws, it has held the earlier message.
		for round := range 4 {
			if _, err := PackClone(earlier); err != nil {
				t.Fatal(err)
			}
			var got []byte
			handled, err := TryPack(victim, func(body []byte) error {
				got = append([]byte(nil), body...)
				return nil
			})
			if err != nil {
				t.Fatal(err)
			}
			if !handled {
				t.Skip("the pooled packer declined; nothing to compare")
			}
			if !bytes.Equal(got, want) {
				t.Fatalf("compress=%v round %d: the pooled packer handled the message but its bytes are not the library's;\n"+
					"the A RDATA carries octets of the previously packed message: %q\n got: %x\nwant: %x",
					compress, round, got[len(got)-4:], got, want)
			}
		}
	}
}

// The same library helper backs three more record kinds.
func TestGenuineC15_StaleBytesInARecord_OtherKinds(t *testing.T) {
	v6 := net.ParseIP("2001:db8::1")
	kinds := map[string]dns.RR{
		"L32": &dns.L32{
			Hdr:        dns.RR_Header{Name: "h.example.", Rrtype: dns.TypeL32, Class: dns.ClassINET, Ttl: 60},
			Preference: 10, Locator32: v6,
		},
		"IPSECKEY": &dns.IPSECKEY{
			Hdr:        dns.RR_Header{Name: "h.example.", Rrtype: dns.TypeIPSECKEY, Class: dns.ClassINET, Ttl: 60},
			Precedence: 1, GatewayType: dns.IPSECGatewayIPv4, Algorithm: 2, GatewayAddr: v6, PublicKey: "AQID",
		},
		"AMTRELAY": &dns.AMTRELAY{
			Hdr:        dns.RR_Header{Name: "h.example.", Rrtype: dns.TypeAMTRELAY, Class: dns.ClassINET, Ttl: 60},
			Precedence: 1, GatewayType: dns.AMTRELAYIPv4, GatewayAddr: v6,
		},
	}
	earlier := new(dns.Msg)
	earlier.SetQuestion("example.com.", dns.TypeTXT)
	for range 6 {
		rr, err := dns.NewRR(`example.com. 300 IN TXT "` + strings.Repeat("SECRET", 30) + `"`)
		if err != nil {
			t.Fatal(err)
		}
		earlier.Answer = append(earlier.Answer, rr)
	}
	for name, rr := range kinds {
		victim := new(dns.Msg)
		victim.SetQuestion("h.example.", rr.Header().Rrtype)
		victim.Answer = []dns.RR{rr}
		want, err := victim.Copy().Pack()
		if err != nil {
			t.Fatalf("%s: the library refuses the message: %v", name, err)
		}
		if _, err := PackClone(earlier); err != nil {
			t.Fatal(err)
		}
		got, err := PackClone(victim)
		if err != nil {
			t.Fatal(err)
		}
		if handled, _ := TryPack(victim, func([]byte) error { return nil }); !handled {
			t.Errorf("%s: declined (nothing to compare)", name)
			continue
		}
		if !bytes.Equal(got, want) {
			t.Errorf("%s: pooled bytes differ from the library's\n got: %x\nwant: %x", name, got, want)
		}
	}
}
