// Genuine pre-existing defect G1 (property C11) - reproducer.
//
// Copy into:  server/   (package server; uses the package's existing test
//             helper startEngine)
// Run with:   go test -vet=off -count=1 -run 'TestG1QueuedQueryExpiresSilently' ./server/
//
// An admitted UDP query (it holds a slab and a slot of the ready queue) that
// is still waiting for a worker when its budget (arrival + query timeout) runs
// out is discarded in silence: Server.serveWire / ServeRawReplay / serveMsgBy
// all do `if contextutil.EffectiveError(ctx) != nil { return }` before the
// chain runs, so nothing is written - no SERVFAIL, no drop counter. The client
// gets zero replies instead of the one reply (answer or SERVFAIL) it is owed
// by "query timeout + small margin".
//
// Shape: one worker (a small concurrency limit that forces queueing), a slow
// query whose handler - like the resolver facing a silent upstream - returns
// SERVFAIL a few milliseconds after its own deadline, and a second query sent
// 1ms later that queues behind it. The 5ms overrun stands for the "small
// scheduling margin" the property itself allows the first reply; with no
// overrun at all the outcome is a race between the two deadlines, 1ms apart.
// The same silent return is reached on the TCP path when the wait for a slab
// token (up to 2s) outlasts a shorter configured query timeout.
package server

import (
	"context"
	"net"
	"strings"
	"testing"
	"time"

	"github.com/miekg/dns"
	"github.com/semihalev/sdns/config"
	"github.com/semihalev/sdns/middleware"
)

// g1Stub behaves like a resolver: a "slow." name waits out the request's own
// budget (silent upstream) and then answers SERVFAIL a few milliseconds after
// the deadline; everything else is answered at once.
type g1Stub struct{ overrun time.Duration }

func (g1Stub) Name() string { return "g1-stub" }

func (s g1Stub) ServeDNS(ctx context.Context, ch *middleware.Chain) {
	ctx, req := ch.Materialize(ctx)
	if req == nil {
		return
	}
	resp := new(dns.Msg)
	resp.SetReply(req)
	resp.RecursionAvailable = true
	if strings.HasPrefix(req.Question[0].Name, "slow.") {
		<-ctx.Done()
		time.Sleep(s.overrun)
		resp.Rcode = dns.RcodeServerFailure
	} else {
		rr, _ := dns.NewRR(req.Question[0].Name + " 300 IN A 192.0.2.53")
		resp.Answer = []dns.RR{rr}
	}
	_ = ch.Writer.WriteMsg(resp)
	ch.Cancel()
}

func TestG1QueuedQueryExpiresSilently(t *testing.T) {
	middleware.Reset()
	t.Cleanup(middleware.Reset)
	middleware.Register("g1-stub", func(*config.Config) middleware.Handler { return g1Stub{overrun: 5 * time.Millisecond} })
	cfg := &config.Config{Bind: "127.0.0.1:0"}
	cfg.QueryTimeout.Duration = 400 * time.Millisecond
	middleware.Setup(cfg)
	s := New(cfg)

	// One worker, a queue: the shape "small concurrency limits that force
	// queueing" asks for.
	addr, stop := startEngine(t, s, 1, 8)
	defer stop()

	dial := func() net.Conn {
		c, err := net.Dial("udp", addr)
		if err != nil {
			t.Fatal(err)
		}
		return c
	}
	send := func(c net.Conn, name string, id uint16) {
		q := new(dns.Msg)
		q.SetQuestion(name, dns.TypeA)
		q.Id = id
		wire, _ := q.Pack()
		if _, err := c.Write(wire); err != nil {
			t.Fatal(err)
		}
	}
	recv := func(c net.Conn, wait time.Duration) *dns.Msg {
		buf := make([]byte, 1500)
		_ = c.SetReadDeadline(time.Now().Add(wait))
		n, err := c.Read(buf)
		if err != nil {
			return nil
		}
		m := new(dns.Msg)
		if err := m.Unpack(buf[:n]); err != nil {
			return nil
		}
		return m
	}

	slow, fast := dial(), dial()
	defer slow.Close()
	defer fast.Close()

	send(slow, "slow.example.", 1)
	time.Sleep(time.Millisecond)
	send(fast, "fast.example.", 2) // admitted: queued behind the only worker

	if m := recv(slow, 2*time.Second); m == nil || m.Rcode != dns.RcodeServerFailure {
		t.Fatalf("slow query: want SERVFAIL, got %v", m)
	}
	// The fast query was admitted (it holds a slab and a queue slot). It is
	// owed exactly one reply — an answer or a SERVFAIL — by roughly the
	// query timeout. 2s is five times that.
	m := recv(fast, 2*time.Second)
	if m == nil {
		t.Fatalf("admitted query queued behind a slow one received no reply at all (dropped=%d full=%d)",
			udpDropError.Value(), udpDropFull.Value())
	}
	t.Logf("fast reply: rcode=%s", dns.RcodeToString[m.Rcode])
}
