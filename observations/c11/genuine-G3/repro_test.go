// Genuine pre-existing defect G3 (property C11) - reproducer.
//
// Copy into:  middleware/resolver/   (package resolver; uses the package's
//             existing test helper newAttackHarnessResolver)
// Run with:   go test -vet=off -count=1 -run 'TestG3LeaderExpiryLeaksAsConnectionFailure' ./middleware/resolver/
//
// A singleflight leader whose own query budget ends while its single upstream
// exchange is in flight. The socket deadline (clamped to the context deadline)
// and the context timer fire at the same instant; when lookup()'s select takes
// the worker's result (err = context.DeadlineExceeded) instead of ctx.Done(),
// the loop runs out of servers and pickFallbackResponse turns the leader's
// private expiry into fatalError(errConnectionFailed) - which is NOT a
// request-local error. A follower that still has seconds of budget therefore
// does not regroup: it inherits "All authoritative servers failed", is
// answered SERVFAIL, and (its context being live) the failure is also filed in
// the shared zone/RFC 9520 failure state. Probabilistic: roughly 5-10% of
// rounds on the unmodified tree; 150 rounds make a miss vanishingly unlikely.
package resolver

import (
	"context"
	"fmt"
	"net"
	"sync"
	"testing"
	"time"

	"github.com/miekg/dns"
	"github.com/semihalev/sdns/internal/authority"
)

func TestG3LeaderExpiryLeaksAsConnectionFailure(t *testing.T) {
	var mu sync.Mutex
	seen := map[string]int{}
	// a silent-first upstream: drops the first query per name, answers later ones
	pc, err := net.ListenPacket("udp", "127.0.0.1:0")
	if err != nil {
		t.Fatal(err)
	}
	defer pc.Close()
	go func() {
		buf := make([]byte, 4096)
		for {
			n, addr, err := pc.ReadFrom(buf)
			if err != nil {
				return
			}
			m := new(dns.Msg)
			if m.Unpack(buf[:n]) != nil || len(m.Question) != 1 {
				continue
			}
			mu.Lock()
			seen[m.Question[0].Name]++
			c := seen[m.Question[0].Name]
			mu.Unlock()
			if c == 1 {
				continue
			}
			r := new(dns.Msg)
			r.SetReply(m)
			r.Authoritative = true
			r.Answer = []dns.RR{&dns.A{Hdr: dns.RR_Header{Name: m.Question[0].Name, Rrtype: dns.TypeA, Class: dns.ClassINET, Ttl: 60}, A: net.IPv4(192, 0, 2, 67)}}
			out, _ := r.Pack()
			_, _ = pc.WriteTo(out, addr)
		}
	}()

	r := newAttackHarnessResolver(&authority.Servers{Zone: "."})
	server := authority.NewServer(pc.LocalAddr().String(), authority.IPv4)
	servers := &authority.Servers{Zone: ".", List: []*authority.Server{server}}

	bad := 0
	const rounds = 150
	for i := 0; i < rounds; i++ {
		req := new(dns.Msg)
		req.SetQuestion(fmt.Sprintf("n%d.race.example.", i), dns.TypeA)
		lctx, lcancel := context.WithTimeout(context.Background(), 40*time.Millisecond)
		fctx, fcancel := context.WithTimeout(context.Background(), 3*time.Second)
		lerr := make(chan error, 1)
		go func() {
			_, err := r.groupLookup(lctx, &resolveState{req: req, requestID: req.Id}, req, servers, false)
			lerr <- err
		}()
		time.Sleep(10 * time.Millisecond)
		freq := req.Copy()
		freq.Id++
		resp, ferr := r.groupLookup(fctx, &resolveState{req: freq, requestID: freq.Id}, freq, servers, false)
		le := <-lerr
		if ferr != nil || resp == nil || len(resp.Answer) != 1 {
			bad++
			t.Logf("round %d: follower failed with budget left: err=%v (leader err=%v)", i, ferr, le)
		}
		lcancel()
		fcancel()
	}
	if bad > 0 {
		t.Fatalf("%d/%d healthy followers were failed by their leader's expiry", bad, rounds)
	}
}
