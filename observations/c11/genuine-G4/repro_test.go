// Pre-existing behaviour G4 (property C11, "in time") - reproducer. Borderline:
// it is the documented design ("queries on one connection are served
// serially"), but it contradicts the property as literally stated.
//
// Copy into:  server/   (package server; uses the package's existing test
//             helper startTCPEngine)
// Run with:   go test -vet=off -count=1 -run 'TestG4PipelinedTCPQueryAnsweredAfterTwiceTheTimeout' ./server/
//
// The TCP/DoT engine runs the handler inline on the connection goroutine, one
// frame at a time, and starts a frame's budget only when its length prefix is
// parsed. A client that pipelines k slow queries (each meeting a silent
// upstream) therefore receives the k-th reply about k x query-timeout after it
// sent it; nothing bounds the wait by "query timeout + margin" from the
// client's point of view, and the later frames are not shed either.
package server

import (
	"context"
	"encoding/binary"
	"io"
	"net"
	"testing"
	"time"

	"github.com/miekg/dns"
	"github.com/semihalev/sdns/config"
	"github.com/semihalev/sdns/middleware"
)

type g4Stub struct{}

func (g4Stub) Name() string { return "g4-stub" }

// Every query meets a silent upstream: SERVFAIL when its own budget ends.
func (g4Stub) ServeDNS(ctx context.Context, ch *middleware.Chain) {
	ctx, req := ch.Materialize(ctx)
	if req == nil {
		return
	}
	<-ctx.Done()
	resp := new(dns.Msg)
	resp.SetRcode(req, dns.RcodeServerFailure)
	_ = ch.Writer.WriteMsg(resp)
	ch.Cancel()
}

func TestG4PipelinedTCPQueryAnsweredAfterTwiceTheTimeout(t *testing.T) {
	const timeout = 400 * time.Millisecond
	middleware.Reset()
	t.Cleanup(middleware.Reset)
	middleware.Register("g4-stub", func(*config.Config) middleware.Handler { return g4Stub{} })
	cfg := &config.Config{Bind: "127.0.0.1:0"}
	cfg.QueryTimeout.Duration = timeout
	middleware.Setup(cfg)
	s := New(cfg)
	addr, _, stop := startTCPEngine(t, s, 8)
	defer stop()

	conn, err := net.Dial("tcp", addr)
	if err != nil {
		t.Fatal(err)
	}
	defer conn.Close()

	var burst []byte
	for i, name := range []string{"a.example.", "b.example.", "c.example."} {
		q := new(dns.Msg)
		q.SetQuestion(name, dns.TypeA)
		q.Id = uint16(i + 1)
		w, _ := q.Pack()
		f := make([]byte, 2+len(w))
		binary.BigEndian.PutUint16(f, uint16(len(w))) //nolint:gosec // small fixture
		copy(f[2:], w)
		burst = append(burst, f...)
	}
	start := time.Now()
	if _, err := conn.Write(burst); err != nil {
		t.Fatal(err)
	}
	for i := 1; i <= 3; i++ {
		var p [2]byte
		_ = conn.SetReadDeadline(time.Now().Add(5 * time.Second))
		if _, err := io.ReadFull(conn, p[:]); err != nil {
			t.Fatalf("reply %d: %v", i, err)
		}
		b := make([]byte, binary.BigEndian.Uint16(p[:]))
		if _, err := io.ReadFull(conn, b); err != nil {
			t.Fatalf("reply %d: %v", i, err)
		}
		at := time.Since(start)
		t.Logf("reply %d at %s", i, at.Round(time.Millisecond))
		// All three queries were sent at t=0. Allow the timeout plus a
		// generous 150ms margin.
		if at > timeout+150*time.Millisecond {
			t.Errorf("reply %d arrived %s after the query was sent; query timeout is %s", i, at.Round(time.Millisecond), timeout)
		}
	}
}
