// Genuine pre-existing defect G2 (property C11) - reproducer.
//
// Copy into:  middleware/resolver/   (package resolver; uses the package's
//             existing test helpers startMockAuth, mustRR, makeTestConfig,
//             chainQueryer)
// Run with:   go test -vet=off -count=1 -run 'TestG2CapacityRefusalIsCachedForOtherClients' ./middleware/resolver/
//
// A capacity-refused resolution (errResolutionCapacity / errZoneCapacity from
// groupLookup's non-blocking admission) is not classified as request-local:
// middleware.IsRequestLocalResolutionError does not know the two sentinels,
// DNSHandler.handle therefore does not mark the SERVFAIL it builds, and the
// cache's ResponseWriter.WriteMsg files it in the RFC 9520 failure cache
// (cacheableResolutionFailure == true). For the failure TTL (5s initial, with
// back-off) every other client asking the same question is answered with the
// cached SERVFAIL although capacity is free again and the authority is
// healthy - the refusal does not stay with "that client only".
//
// Pipeline: cache -> resolver with MaxConcurrentQueries=1. Client A's lookup
// holds the only resolution slot (its authority is slow); client B asks a
// different name and is refused (fine); A completes; client C asks B's name
// with all capacity free and still gets SERVFAIL.
package resolver

import (
	"context"
	"sync/atomic"
	"testing"
	"time"

	"github.com/miekg/dns"
	"github.com/semihalev/sdns/internal/mock"
	"github.com/semihalev/sdns/middleware"
	cachemw "github.com/semihalev/sdns/middleware/cache"
)

func TestG2CapacityRefusalIsCachedForOtherClients(t *testing.T) {
	var ignore int64
	var slowHeld atomic.Bool
	release := make(chan struct{})

	rootAddr, stopRoot := startMockAuth(t, &ignore, func(q dns.Question) *dns.Msg {
		name := dns.CanonicalName(q.Name)
		m := &dns.Msg{}
		m.Authoritative = true
		switch {
		case name == "." && q.Qtype == dns.TypeNS:
			m.Answer = []dns.RR{mustRR(t, ". 3600 IN NS a.root.")}
		case name == "slow.test." && q.Qtype == dns.TypeA:
			slowHeld.Store(true)
			select {
			case <-release:
			case <-time.After(1500 * time.Millisecond):
			}
			m.Answer = []dns.RR{mustRR(t, "slow.test. 60 IN A 192.0.2.10")}
		case name == "fast.test." && q.Qtype == dns.TypeA:
			m.Answer = []dns.RR{mustRR(t, "fast.test. 60 IN A 192.0.2.11")}
		default:
			m.Ns = []dns.RR{mustRR(t, ". 30 IN SOA a.root. hostmaster.root. 1 30 30 30 30")}
		}
		return m
	})
	defer stopRoot()

	base := makeTestConfig()
	cfg := *base
	cfg.RootServers = []string{rootAddr}
	cfg.Root6Servers = nil
	cfg.IPv6Access = false
	cfg.DNSSEC = "off"
	cfg.CacheSize = 1024
	cfg.RateLimit = 0
	cfg.MaxConcurrentQueries = 1
	cfg.QueryTimeout.Duration = 3 * time.Second

	h := New(&cfg)
	cm := cachemw.New(&cfg)
	defer cm.Stop()
	sub := &chainQueryer{handlers: []middleware.Handler{h}}
	cm.SetPrefetchQueryer(sub)
	cm.SetQueryer(sub)

	ask := func(name, client string) *dns.Msg {
		req := new(dns.Msg)
		req.SetQuestion(name, dns.TypeA)
		w := mock.NewWriter("udp", client)
		ch := middleware.NewChain([]middleware.Handler{cm, h})
		ch.Reset(w, req)
		ctx, cancel := context.WithTimeout(context.Background(), cfg.QueryTimeout.Duration)
		defer cancel()
		ch.Next(ctx)
		if !w.Written() {
			t.Fatalf("%s from %s: no response written", name, client)
		}
		return w.Msg()
	}

	// let root priming finish and release the single slot
	time.Sleep(500 * time.Millisecond)

	slowDone := make(chan *dns.Msg, 1)
	go func() { slowDone <- ask("slow.test.", "127.0.0.1:1001") }()
	deadline := time.Now().Add(2 * time.Second)
	for !slowHeld.Load() && time.Now().Before(deadline) {
		time.Sleep(5 * time.Millisecond)
	}
	if !slowHeld.Load() {
		t.Fatal("slow query never reached upstream")
	}

	// Client B is capacity-refused: SERVFAIL to B is acceptable.
	b := ask("fast.test.", "127.0.0.1:1002")
	t.Logf("client B (while the only slot is held): rcode=%s extra=%v", dns.RcodeToString[b.Rcode], b.Extra)
	if b.Rcode != dns.RcodeServerFailure {
		t.Skipf("B was not capacity-refused (rcode=%s); scenario did not form", dns.RcodeToString[b.Rcode])
	}

	close(release)
	if s := <-slowDone; s.Rcode != dns.RcodeSuccess {
		t.Fatalf("slow query: rcode=%s", dns.RcodeToString[s.Rcode])
	}

	// Capacity is free again. A different client asking the same name must
	// not inherit B's capacity refusal.
	c := ask("fast.test.", "127.0.0.1:1003")
	t.Logf("client C (capacity free): rcode=%s answers=%d extra=%v", dns.RcodeToString[c.Rcode], len(c.Answer), c.Extra)
	if c.Rcode != dns.RcodeSuccess || len(c.Answer) == 0 {
		t.Fatalf("client C inherited client B's capacity refusal: rcode=%s extra=%v",
			dns.RcodeToString[c.Rcode], c.Extra)
	}
}
