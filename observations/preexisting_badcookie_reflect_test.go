// Reproducer for behaviour of the UNMODIFIED tree that already violates C06
// ("client subnet ... and foreign options never reflected").
//
// Copy into:  middleware/ratelimit/   (package ratelimit)
// Run with:   GOFLAGS=-mod=mod GOPROXY=off go test -vet=off -count=1 \
//                 -run 'TestPreexisting_BadCookieReflectsClientOptions' ./middleware/ratelimit/
// It FAILS on the unmodified tree.
//
// ratelimit sits BEFORE edns in the default chain. When a per-client rate
// limit is configured and a UDP client presents a cookie that does not match
// the one remembered for its address, ratelimit answers BADCOOKIE through
// Chain.CancelWithRcode, which builds the reply with m.Extra = req.Extra —
// the client's own, still unnormalised OPT (edns has not run yet, and the
// reply is written to the bare writer, not the edns wrapper). Every option the
// client sent — its client-subnet option, padding, any local/unknown option —
// is reflected back verbatim. (The same CancelWithRcode-before-edns shape
// exists in reflex's REFUSED block-mode reply.)
package ratelimit

import (
	"context"
	"net"
	"testing"

	"github.com/miekg/dns"
	"github.com/semihalev/sdns/config"
	"github.com/semihalev/sdns/internal/mock"
	"github.com/semihalev/sdns/middleware"
	"github.com/semihalev/sdns/middleware/edns"
)

func TestPreexisting_BadCookieReflectsClientOptions(t *testing.T) {
	cfg := &config.Config{ClientRateLimit: 100, CookieSecret: "s3cr3t"}
	rl := New(cfg)
	e := edns.New(cfg)
	terminal := middleware.HandlerFunc(func(_ context.Context, ch *middleware.Chain) {
		m := new(dns.Msg)
		m.SetReply(ch.Request.Msg())
		_ = ch.Writer.WriteMsg(m)
		ch.Cancel()
	})

	serve := func(q *dns.Msg) *dns.Msg {
		w := mock.NewWriter("udp", "198.51.100.23:5353")
		ch := middleware.NewChain([]middleware.Handler{rl, e, terminal})
		ch.Reset(w, q)
		ch.Next(context.Background())
		if !w.Written() {
			return nil
		}
		// What the client decodes is the packed form.
		raw, err := w.Msg().Pack()
		if err != nil {
			t.Fatalf("pack: %v", err)
		}
		out := new(dns.Msg)
		if err := out.Unpack(raw); err != nil {
			t.Fatalf("unpack: %v", err)
		}
		return out
	}

	// 1. First contact: the limiter remembers the server cookie for this address.
	q1 := new(dns.Msg)
	q1.SetQuestion("example.test.", dns.TypeA)
	q1.SetEdns0(1232, false)
	q1.IsEdns0().Option = append(q1.IsEdns0().Option,
		&dns.EDNS0_COOKIE{Code: dns.EDNS0COOKIE, Cookie: "0102030405060708"})
	if r := serve(q1); r == nil || r.Rcode != dns.RcodeSuccess {
		t.Fatalf("first query: %v", r)
	}

	// 2. Same address, a different (fresh) client cookie, plus options that
	// must never come back.
	q2 := new(dns.Msg)
	q2.SetQuestion("example.test.", dns.TypeA)
	q2.SetEdns0(1232, false)
	q2.IsEdns0().Option = append(q2.IsEdns0().Option,
		&dns.EDNS0_COOKIE{Code: dns.EDNS0COOKIE, Cookie: "1112131415161718"},
		&dns.EDNS0_SUBNET{Code: dns.EDNS0SUBNET, Family: 1, SourceNetmask: 24, Address: net.IPv4(203, 0, 113, 0).To4()},
		&dns.EDNS0_PADDING{Padding: make([]byte, 16)},
		&dns.EDNS0_LOCAL{Code: 65001, Data: []byte("foreign")},
	)
	r := serve(q2)
	if r == nil {
		t.Fatal("second query dropped; expected BADCOOKIE")
	}
	if r.Rcode != dns.RcodeBadCookie {
		t.Fatalf("second query rcode %s, fixture expected BADCOOKIE", dns.RcodeToString[r.Rcode])
	}
	opt := r.IsEdns0()
	if opt == nil {
		t.Fatal("BADCOOKIE without OPT")
	}
	for _, o := range opt.Option {
		switch o.Option() {
		case dns.EDNS0COOKIE:
			// the server cookie belongs here
		default:
			t.Errorf("BADCOOKIE reply reflects client option code %d (%s)", o.Option(), o.String())
		}
	}
}
