// CANDIDATE DEFECT (unmodified tree) - C07: the unspecified address (0.0.0.0 / ::)
// passes the nameserver-address filter although it reaches the local host.
//
// Package directory: middleware/resolver
// Run:  go test -vet=off -count=1 -run 'TestC07G4_' ./middleware/resolver/
//
// usableAddr drops addr.IsLoopback() and the addresses of local interfaces, but
// not the unspecified address. On Linux (and the BSDs) a datagram or TCP
// connection to 0.0.0.0:53 / [::]:53 is delivered to the local host exactly
// like 127.0.0.1 - the second test shows that - so glue "ns.child. A 0.0.0.0"
// makes the resolver query whatever listens on its own port 53 (normally
// itself) as the authority for the child zone. The same filter also lets
// through link-local (169.254/16, fe80::/10), multicast and broadcast
// addresses, which are not "local interface" addresses but are not routable
// hosts either.
package resolver

import (
	"net"
	"testing"
	"time"

	"github.com/miekg/dns"
)

func TestC07G4_UnspecifiedAddressUsableAsNameserver(t *testing.T) {
	for _, ip := range []net.IP{net.IPv4zero, net.IPv6unspecified} {
		if addr, ok := usableAddr(ip); ok {
			t.Errorf("usableAddr(%s) = %s, true: the unspecified address is accepted as a nameserver address", ip, addr)
		}
	}

	// The same through the glue path.
	resp := new(dns.Msg)
	resp.SetQuestion("www.child.test.", dns.TypeA)
	ns, _ := dns.NewRR("child.test. 3600 IN NS ns.child.test.")
	glue, _ := dns.NewRR("ns.child.test. 3600 IN A 0.0.0.0")
	resp.Ns = append(resp.Ns, ns)
	resp.Extra = append(resp.Extra, glue)
	cfg := makeTestConfig()
	cfg.IPv6Access = false
	res := NewResolver(cfg)
	servers, _, _ := res.checkGlueRR(resp, hostSet{"ns.child.test.": {}}, 1)
	for _, s := range servers.List {
		t.Errorf("glue 0.0.0.0 became an authority server address: %s", s.Addr)
	}
}

// What a packet to 0.0.0.0 does on this host: it arrives at a socket bound to
// 127.0.0.1. (Skipped where the platform does not route it that way.)
func TestC07G4_UnspecifiedAddressReachesLoopback(t *testing.T) {
	pc, err := net.ListenPacket("udp4", "127.0.0.1:0")
	if err != nil {
		t.Skip(err)
	}
	defer pc.Close()
	port := pc.LocalAddr().(*net.UDPAddr).Port
	c, err := net.DialUDP("udp4", nil, &net.UDPAddr{IP: net.IPv4zero, Port: port})
	if err != nil {
		t.Skip(err)
	}
	defer c.Close()
	if _, err := c.Write([]byte("ping")); err != nil {
		t.Skip(err)
	}
	_ = pc.SetReadDeadline(time.Now().Add(time.Second))
	buf := make([]byte, 16)
	n, _, err := pc.ReadFrom(buf)
	if err != nil {
		t.Skipf("0.0.0.0 is not delivered locally on this platform: %v", err)
	}
	t.Logf("datagram sent to 0.0.0.0:%d arrived at 127.0.0.1:%d: %q", port, port, buf[:n])
}
