// GENUINE DEFECT (unmodified tree) - C07 glue bailiwick widened after a cached
// skip-level delegation.
//
// Package directory: middleware/resolver
// Run:  go test -vet=off -count=1 -run 'TestC07G1_' ./middleware/resolver/
//
// processDelegation sets rs.level = CountLabel(delegated zone) when it builds a
// delegation itself, but when the delegation is already in the delegation
// cache it goes through resolveWithCachedNameservers, which does rs.level++.
// If the parent delegates more than one label at once ("test." -> "attacker.co.test.",
// the co.uk shape) and the name is not being minimised at that depth
// (qname_min_level = 0, or depth >= qname_min_level, or the nomin retry), the
// second of two concurrent resolutions reaches the child zone's servers with
// rs.level = 2 while the zone has 3 labels. checkGlueRR derives the glue
// bailiwick from rs.level, so a referral sent by the servers of
// attacker.co.test. may now carry glue for any name under co.test. - a sibling
// of the delegating zone - and that address is filed in the glue cache under
// the sibling nameserver's own name and used as a server address.
package resolver

import (
	"context"
	"net"
	"os"
	"strings"
	"sync"
	"testing"
	"time"

	"github.com/miekg/dns"
	"github.com/semihalev/sdns/internal/dnsutil"
	"github.com/semihalev/sdns/middleware"
)

type c07g1Auth struct {
	addr string
}

func c07g1Start(t *testing.T, h func(q dns.Question, req *dns.Msg) *dns.Msg) *c07g1Auth {
	t.Helper()
	pc, err := net.ListenPacket("udp", "127.0.0.1:0")
	if err != nil {
		t.Fatalf("listen: %v", err)
	}
	t.Cleanup(func() { _ = pc.Close() })
	go func() {
		buf := make([]byte, 65535)
		for {
			n, peer, err := pc.ReadFrom(buf)
			if err != nil {
				return
			}
			req := new(dns.Msg)
			if req.Unpack(buf[:n]) != nil || len(req.Question) != 1 {
				continue
			}
			go func() {
				resp := h(req.Question[0], req)
				if resp == nil {
					return
				}
				out, err := resp.Pack()
				if err == nil {
					_, _ = pc.WriteTo(out, peer)
				}
			}()
		}
	}()
	return &c07g1Auth{addr: pc.LocalAddr().String()}
}

func c07g1RR(t *testing.T, s string) dns.RR {
	t.Helper()
	rr, err := dns.NewRR(s)
	if err != nil {
		t.Fatalf("NewRR(%q): %v", s, err)
	}
	return rr
}

func c07g1Reply(req *dns.Msg, aa bool) *dns.Msg {
	m := new(dns.Msg)
	m.SetReply(req)
	m.Authoritative = aa
	return m
}

type c07g1Queryer struct{ h *DNSHandler }

func (q c07g1Queryer) Query(ctx context.Context, req *dns.Msg) (*dns.Msg, error) {
	resp := q.h.handle(ctx, req)
	if resp == nil {
		return nil, middleware.ErrNoResponse
	}
	return resp, nil
}

func TestC07G1_SiblingGlueAfterCachedSkipLevelDelegation(t *testing.T) {
	const (
		tldIP      = "192.0.2.10"
		attackerIP = "192.0.2.66"
	)

	var (
		mu          sync.Mutex
		firstDone   = make(chan struct{})
		bArrived    = make(chan struct{})
		bOnce       sync.Once
		attackerGot []string
	)

	// Root: delegates test.
	root := c07g1Start(t, func(q dns.Question, req *dns.Msg) *dns.Msg {
		m := c07g1Reply(req, false)
		if q.Name == "." {
			m.Authoritative = true
			m.Answer = append(m.Answer, c07g1RR(t, ". 3600 IN NS ns.root-servers.test."))
			return m
		}
		m.Ns = append(m.Ns, c07g1RR(t, "test. 3600 IN NS ns.test."))
		m.Extra = append(m.Extra, c07g1RR(t, "ns.test. 3600 IN A "+tldIP))
		return m
	})

	// test.: an honest parent that delegates attacker.co.test. directly (no
	// zone cut at co.test., like uk. -> example.co.uk.). The reply for the
	// second name is held until the first resolution has finished, so the
	// second one finds the delegation already cached.
	tld := c07g1Start(t, func(q dns.Question, req *dns.Msg) *dns.Msg {
		name := strings.ToLower(q.Name)
		m := c07g1Reply(req, false)
		if dns.IsSubDomain("attacker.co.test.", name) {
			if strings.HasPrefix(name, "b.") {
				bOnce.Do(func() { close(bArrived) })
				select {
				case <-firstDone:
				case <-time.After(1500 * time.Millisecond):
				}
			}
			m.Ns = append(m.Ns, c07g1RR(t, "attacker.co.test. 3600 IN NS ns.attacker.co.test."))
			m.Extra = append(m.Extra, c07g1RR(t, "ns.attacker.co.test. 3600 IN A "+attackerIP))
			return m
		}
		m.Authoritative = true
		m.Rcode = dns.RcodeNameError
		m.Ns = append(m.Ns, c07g1RR(t, "test. 60 IN SOA ns.test. h.test. 1 60 60 60 60"))
		return m
	})

	// attacker.co.test.: answers a.sub... honestly, and answers b.sub... with a
	// referral for its own child whose nameserver is a SIBLING name
	// (ns.victim.co.test.) together with "glue" for it.
	attacker := c07g1Start(t, func(q dns.Question, req *dns.Msg) *dns.Msg {
		name := strings.ToLower(q.Name)
		mu.Lock()
		attackerGot = append(attackerGot, name+" "+dns.TypeToString[q.Qtype])
		mu.Unlock()
		m := c07g1Reply(req, true)
		switch {
		case name == "a.sub.attacker.co.test." && q.Qtype == dns.TypeA:
			m.Answer = append(m.Answer, c07g1RR(t, "a.sub.attacker.co.test. 60 IN A 198.51.100.1"))
		case name == "b.sub.attacker.co.test." && q.Qtype == dns.TypeA:
			if len(req.Question) == 1 && dns.CountLabel(name) == 5 {
				m.Authoritative = false
				m.Ns = append(m.Ns, c07g1RR(t, "sub.attacker.co.test. 3600 IN NS ns.victim.co.test."))
				m.Extra = append(m.Extra, c07g1RR(t, "ns.victim.co.test. 3600 IN A "+attackerIP))
			}
		default:
			m.Rcode = dns.RcodeNameError
			m.Ns = append(m.Ns, c07g1RR(t, "attacker.co.test. 60 IN SOA ns.attacker.co.test. h.attacker.co.test. 1 60 60 60 60"))
		}
		return m
	})

	cfg := makeTestConfig()
	dir, err := os.MkdirTemp("", "c07g1-")
	if err != nil {
		t.Fatal(err)
	}
	t.Cleanup(func() { _ = os.RemoveAll(dir) })
	cfg.Directory = dir
	cfg.RootServers = []string{root.addr}
	cfg.Root6Servers = nil
	cfg.IPv6Access = false
	cfg.DNSSEC = "off"
	cfg.QnameMinLevel = 0 // minimisation off: the full name is sent at every depth

	h := New(cfg)
	mapper := func(addr string) string {
		switch addr {
		case net.JoinHostPort(tldIP, "53"):
			return tld.addr
		case net.JoinHostPort(attackerIP, "53"):
			return attacker.addr
		}
		return addr
	}
	h.resolver.resolveTarget.Store(&mapper)
	var qy middleware.Queryer = c07g1Queryer{h: h}
	h.resolver.queryer.Store(&qy)
	r := h.resolver

	ask := func(name string) (*dns.Msg, error) {
		req := new(dns.Msg)
		req.SetQuestion(name, dns.TypeA)
		req.SetEdns0(dnsutil.DefaultMsgSize, true)
		req.CheckingDisabled = true
		ctx, cancel := context.WithTimeout(context.Background(), 8*time.Second)
		defer cancel()
		return r.Resolve(ctx, req, r.rootServers, true, 30, 0, false, nil)
	}

	var wg sync.WaitGroup
	wg.Add(1)
	go func() {
		defer wg.Done()
		_, _ = ask("b.sub.attacker.co.test.")
	}()
	// Let the second resolution get as far as the held reply from test.
	select {
	case <-bArrived:
	case <-time.After(5 * time.Second):
		t.Fatal("setup: the second resolution never reached the servers of test.")
	}
	resp, err := ask("a.sub.attacker.co.test.")
	if err != nil || resp == nil || len(resp.Answer) == 0 {
		t.Fatalf("setup: first resolution failed: resp=%v err=%v", resp, err)
	}
	close(firstDone)
	wg.Wait()

	mu.Lock()
	t.Logf("attacker.co.test. servers were asked: %v", attackerGot)
	mu.Unlock()

	if addrs, ok := r.getIPv4Cache("ns.victim.co.test."); ok {
		t.Fatalf("glue for ns.victim.co.test. (a sibling of the delegating zone attacker.co.test.) "+
			"was accepted from attacker.co.test.'s servers and cached under its own name: %v", addrs)
	}
}
