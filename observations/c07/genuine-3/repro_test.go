// GENUINE DEFECT (unmodified tree) - C07: root priming installs loopback /
// local-interface addresses as root servers.
//
// Package directory: middleware/resolver
// Run:  go test -vet=off -count=1 -run 'TestC07G3_' ./middleware/resolver/
//
// Every other place that turns an address record into a nameserver address
// goes through usableAddr (checkGlueRR, searchAddrs), which drops loopback and
// local-interface addresses. checkPriming builds the new root server list
// straight from the additional section of the ". NS" reply with
// netip.AddrFromSlice and no filter, so one root server (or whatever answers at
// a configured root address) can hand back "a.root-servers.test. A 127.0.0.1"
// and every later resolution starts at the resolver's own host. The additional
// section of that reply is never covered by the AD bit the priming code checks.
package resolver

import (
	"context"
	"net"
	"os"
	"testing"
	"time"

	"github.com/miekg/dns"
	"github.com/semihalev/sdns/middleware"
)

type c07g3Auth struct {
	addr string
}

func c07g3Start(t *testing.T, h func(q dns.Question, req *dns.Msg) *dns.Msg) *c07g3Auth {
	t.Helper()
	pc, err := net.ListenPacket("udp", "127.0.0.1:0")
	if err != nil {
		t.Fatalf("listen: %v", err)
	}
	t.Cleanup(func() { _ = pc.Close() })
	go func() {
		buf := make([]byte, 65535)
		for {
			n, peer, err := pc.ReadFrom(buf)
			if err != nil {
				return
			}
			req := new(dns.Msg)
			if req.Unpack(buf[:n]) != nil || len(req.Question) != 1 {
				continue
			}
			go func() {
				resp := h(req.Question[0], req)
				if resp == nil {
					return
				}
				out, err := resp.Pack()
				if err == nil {
					_, _ = pc.WriteTo(out, peer)
				}
			}()
		}
	}()
	return &c07g3Auth{addr: pc.LocalAddr().String()}
}

func c07g3RR(t *testing.T, s string) dns.RR {
	t.Helper()
	rr, err := dns.NewRR(s)
	if err != nil {
		t.Fatalf("NewRR(%q): %v", s, err)
	}
	return rr
}

func c07g3Reply(req *dns.Msg, aa bool) *dns.Msg {
	m := new(dns.Msg)
	m.SetReply(req)
	m.Authoritative = aa
	return m
}

type c07g3Queryer struct{ h *DNSHandler }

func (q c07g3Queryer) Query(ctx context.Context, req *dns.Msg) (*dns.Msg, error) {
	resp := q.h.handle(ctx, req)
	if resp == nil {
		return nil, middleware.ErrNoResponse
	}
	return resp, nil
}


func TestC07G3_PrimingAcceptsLoopbackRootAddress(t *testing.T) {
	root := c07g3Start(t, func(q dns.Question, req *dns.Msg) *dns.Msg {
		m := c07g3Reply(req, true)
		if q.Name == "." && q.Qtype == dns.TypeNS {
			m.Answer = append(m.Answer, c07g3RR(t, ". 3600 IN NS a.root-servers.test."))
			m.Extra = append(m.Extra, c07g3RR(t, "a.root-servers.test. 3600 IN A 127.0.0.1"))
			return m
		}
		m.Ns = append(m.Ns, c07g3RR(t, ". 60 IN SOA a. h. 1 60 60 60 60"))
		return m
	})

	cfg := makeTestConfig()
	dir, err := os.MkdirTemp("", "c07g3-")
	if err != nil {
		t.Fatal(err)
	}
	t.Cleanup(func() { _ = os.RemoveAll(dir) })
	cfg.Directory = dir
	cfg.RootServers = []string{root.addr}
	cfg.Root6Servers = nil
	cfg.IPv6Access = false
	cfg.DNSSEC = "off"

	h := New(cfg)
	var qy middleware.Queryer = c07g3Queryer{h: h}
	h.resolver.queryer.Store(&qy)
	r := h.resolver

	// The background run() does the same thing on start-up and every 12 h;
	// calling it here only removes the wait.
	r.checkPriming()
	time.Sleep(50 * time.Millisecond)

	r.rootServers.RLock()
	defer r.rootServers.RUnlock()
	for _, s := range r.rootServers.List {
		host, _, _ := net.SplitHostPort(s.Addr)
		if ip := net.ParseIP(host); ip != nil && ip.IsLoopback() && s.Addr != root.addr {
			t.Errorf("priming installed a loopback address from the additional section as a root server: %s", s.Addr)
		}
	}
}
