// GENUINE DEFECT (unmodified tree) - C07: a DNAME owned ABOVE the zone whose
// servers sent it survives answerChain, steers the DNAME follow-up and is
// relayed to the client inside the answer section.
//
// Package directory: middleware/resolver
// Run:  go test -vet=off -count=1 -run 'TestC07G2_' ./middleware/resolver/
//
// answerChain (middleware/resolver/utils.go) keeps a DNAME (and an RRSIG
// covering a DNAME) whenever its owner is a proper ancestor of the current
// chain name; it never checks that the owner is at or below `zone`. The
// servers of example.test. can therefore put "test. DNAME elsewhere." - a
// record owned by their PARENT - into the answer for www.example.test.; the
// resolver derives the redirect target from it (dnsutil.DnameTarget), resolves
// that, and hands the client the out-of-zone DNAME inside the answer; the cache
// layer's filterCacheableAnswer keeps every DNAME as well.
package resolver

import (
	"context"
	"net"
	"os"
	"strings"
	"testing"
	"time"

	"github.com/miekg/dns"
	"github.com/semihalev/sdns/internal/dnsutil"
	"github.com/semihalev/sdns/middleware"
)

type c07g2Auth struct {
	addr string
}

func c07g2Start(t *testing.T, h func(q dns.Question, req *dns.Msg) *dns.Msg) *c07g2Auth {
	t.Helper()
	pc, err := net.ListenPacket("udp", "127.0.0.1:0")
	if err != nil {
		t.Fatalf("listen: %v", err)
	}
	t.Cleanup(func() { _ = pc.Close() })
	go func() {
		buf := make([]byte, 65535)
		for {
			n, peer, err := pc.ReadFrom(buf)
			if err != nil {
				return
			}
			req := new(dns.Msg)
			if req.Unpack(buf[:n]) != nil || len(req.Question) != 1 {
				continue
			}
			go func() {
				resp := h(req.Question[0], req)
				if resp == nil {
					return
				}
				out, err := resp.Pack()
				if err == nil {
					_, _ = pc.WriteTo(out, peer)
				}
			}()
		}
	}()
	return &c07g2Auth{addr: pc.LocalAddr().String()}
}

func c07g2RR(t *testing.T, s string) dns.RR {
	t.Helper()
	rr, err := dns.NewRR(s)
	if err != nil {
		t.Fatalf("NewRR(%q): %v", s, err)
	}
	return rr
}

func c07g2Reply(req *dns.Msg, aa bool) *dns.Msg {
	m := new(dns.Msg)
	m.SetReply(req)
	m.Authoritative = aa
	return m
}

type c07g2Queryer struct{ h *DNSHandler }

func (q c07g2Queryer) Query(ctx context.Context, req *dns.Msg) (*dns.Msg, error) {
	resp := q.h.handle(ctx, req)
	if resp == nil {
		return nil, middleware.ErrNoResponse
	}
	return resp, nil
}


func TestC07G2_AnswerChainUnit(t *testing.T) {
	q := dns.Question{Name: "www.example.test.", Qtype: dns.TypeA, Qclass: dns.ClassINET}
	answer := []dns.RR{
		c07g2RR(t, "test. 300 IN DNAME elsewhere."),
		c07g2RR(t, "www.example.test. 300 IN CNAME www.example.elsewhere."),
	}
	for _, rr := range answerChain(q, "example.test.", answer) {
		if !dns.IsSubDomain("example.test.", rr.Header().Name) {
			t.Errorf("answerChain kept a record owned outside example.test.: %s", rr)
		}
	}
}

func TestC07G2_ParentOwnedDNAMERelayed(t *testing.T) {
	const zoneIP = "192.0.2.40"

	root := c07g2Start(t, func(q dns.Question, req *dns.Msg) *dns.Msg {
		name := strings.ToLower(q.Name)
		m := c07g2Reply(req, true)
		switch {
		case name == ".":
			m.Answer = append(m.Answer, c07g2RR(t, ". 3600 IN NS ns.root-servers.test."))
		case dns.IsSubDomain("example.test.", name):
			m.Authoritative = false
			m.Ns = append(m.Ns, c07g2RR(t, "example.test. 3600 IN NS ns.example.test."))
			m.Extra = append(m.Extra, c07g2RR(t, "ns.example.test. 3600 IN A "+zoneIP))
		case name == "www.example.elsewhere." && q.Qtype == dns.TypeA:
			m.Answer = append(m.Answer, c07g2RR(t, "www.example.elsewhere. 300 IN A 203.0.113.9"))
		default:
			m.Ns = append(m.Ns, c07g2RR(t, ". 60 IN SOA a. h. 1 60 60 60 60"))
		}
		return m
	})

	zone := c07g2Start(t, func(q dns.Question, req *dns.Msg) *dns.Msg {
		m := c07g2Reply(req, true)
		if strings.EqualFold(q.Name, "www.example.test.") && q.Qtype == dns.TypeA {
			// Only the parent-owned DNAME; no record of this zone at all.
			m.Answer = append(m.Answer, c07g2RR(t, "test. 300 IN DNAME elsewhere."))
			return m
		}
		m.Ns = append(m.Ns, c07g2RR(t, "example.test. 60 IN SOA ns.example.test. h.example.test. 1 60 60 60 60"))
		return m
	})

	cfg := makeTestConfig()
	dir, err := os.MkdirTemp("", "c07g2-")
	if err != nil {
		t.Fatal(err)
	}
	t.Cleanup(func() { _ = os.RemoveAll(dir) })
	cfg.Directory = dir
	cfg.RootServers = []string{root.addr}
	cfg.Root6Servers = nil
	cfg.IPv6Access = false
	cfg.DNSSEC = "off"
	cfg.QnameMinLevel = 0

	h := New(cfg)
	mapper := func(addr string) string {
		if addr == net.JoinHostPort(zoneIP, "53") {
			return zone.addr
		}
		return addr
	}
	h.resolver.resolveTarget.Store(&mapper)
	var qy middleware.Queryer = c07g2Queryer{h: h}
	h.resolver.queryer.Store(&qy)
	r := h.resolver

	req := new(dns.Msg)
	req.SetQuestion("www.example.test.", dns.TypeA)
	req.SetEdns0(dnsutil.DefaultMsgSize, true)
	req.CheckingDisabled = true
	ctx, cancel := context.WithTimeout(context.Background(), 8*time.Second)
	defer cancel()
	resp, err := r.Resolve(ctx, req, r.rootServers, true, 30, 0, false, nil)
	if err != nil {
		t.Fatalf("resolve: %v", err)
	}
	t.Logf("answer relayed to the client:\n%v", resp.Answer)
	for _, rr := range resp.Answer {
		if rr.Header().Rrtype == dns.TypeDNAME && !dns.IsSubDomain("example.test.", rr.Header().Name) {
			t.Errorf("the servers of example.test. got a record owned outside their zone into the client's answer: %s", rr)
		}
		if a, ok := rr.(*dns.A); ok && a.A.String() == "203.0.113.9" {
			t.Errorf("the parent-owned DNAME was used to pick the redirect target: %s", rr)
		}
	}
}
