// CANDIDATE DEFECT reproducer (fails on the UNMODIFIED tree) - C08, weaker.
//
// Copy into:  middleware/resolver/   (package resolver; uses the package's
// existing test helpers startMockAuth, mustRR, makeTestConfig, chainQueryer)
// Run with:   go test -vet=off -count=1 -run 'TestC08Genuine_FailureCache' ./middleware/resolver/
//
// A resolution failure learned through a delegation (every server of the
// delegation answers SERVFAIL / is dead) is filed in the RFC 9520 failure
// cache - per question AND per zone - with its own back-off (5 s initially,
// doubling to 5 min) and WITHOUT the delegation-cut deadline every other
// cache entry carries. When the parent re-points the broken zone to healthy
// servers, sdns does not follow the parent when the old delegation's lease
// ends: the cached SERVFAIL keeps being served (for the failed name and for
// every other name in the zone) until the failure back-off runs out, and no
// query reaches the parent meanwhile.
package resolver

import (
	"context"
	"sync/atomic"
	"testing"
	"time"

	"github.com/miekg/dns"
	"github.com/semihalev/sdns/internal/mock"
	"github.com/semihalev/sdns/middleware"
	cachemw "github.com/semihalev/sdns/middleware/cache"
)

func TestC08Genuine_FailureCacheOutlivesDelegationLease(t *testing.T) {
	var ignore int64
	softNeg := func(zone string) *dns.Msg {
		m := &dns.Msg{}
		m.Authoritative = true
		if zone == "." {
			m.Ns = []dns.RR{mustRR(t, ". 30 IN SOA a.root. hostmaster.root. 1 30 30 30 30")}
		} else {
			m.Ns = []dns.RR{mustRR(t, zone+" 30 IN SOA ns."+zone+" hostmaster."+zone+" 1 30 30 30 30")}
		}
		return m
	}

	var oldHits, newHits, rootHits int64
	oldAddr, stopOld := startMockAuth(t, &oldHits, func(q dns.Question) *dns.Msg {
		m := &dns.Msg{}
		m.Rcode = dns.RcodeServerFailure // the old child is broken
		return m
	})
	defer stopOld()
	newAddr, stopNew := startMockAuth(t, &newHits, func(q dns.Question) *dns.Msg {
		if q.Qtype == dns.TypeA {
			m := &dns.Msg{}
			m.Authoritative = true
			m.Answer = []dns.RR{mustRR(t, dns.CanonicalName(q.Name)+" 600 IN A 192.0.2.99")}
			return m
		}
		return softNeg("ghost.")
	})
	defer stopNew()

	var repointed atomic.Bool
	rootAddr, stopRoot := startMockAuth(t, &ignore, func(q dns.Question) *dns.Msg {
		name := dns.CanonicalName(q.Name)
		if name == "." && q.Qtype == dns.TypeNS {
			m := &dns.Msg{}
			m.Authoritative = true
			m.Answer = []dns.RR{mustRR(t, ". 3600 IN NS a.root.")}
			return m
		}
		if q.Qtype == dns.TypeDS {
			return softNeg(".")
		}
		if dns.IsSubDomain("ghost.", name) {
			atomic.AddInt64(&rootHits, 1)
			m := &dns.Msg{}
			if repointed.Load() {
				m.Ns = []dns.RR{mustRR(t, "ghost. 1 IN NS ns2.ghost.")}
				m.Extra = []dns.RR{mustRR(t, "ns2.ghost. 1 IN A 192.0.2.22")}
			} else {
				m.Ns = []dns.RR{mustRR(t, "ghost. 1 IN NS ns1.ghost.")}
				m.Extra = []dns.RR{mustRR(t, "ns1.ghost. 1 IN A 192.0.2.21")}
			}
			return m
		}
		return softNeg(".")
	})
	defer stopRoot()

	remap := map[string]string{"192.0.2.21:53": oldAddr, "192.0.2.22:53": newAddr}
	mapper := func(addr string) string {
		if to, ok := remap[addr]; ok {
			return to
		}
		return addr
	}

	base := makeTestConfig()
	cfg := *base
	cfg.RootServers = []string{rootAddr}
	cfg.Root6Servers = nil
	cfg.DNSSEC = "off"
	cfg.IPv6Access = false
	cfg.CacheSize = 1024
	cfg.Prefetch = 0
	cfg.RateLimit = 0
	h := New(&cfg)
	h.resolver.resolveTarget.Store(&mapper)
	cm := cachemw.New(&cfg)
	defer cm.Stop()
	sub := &chainQueryer{handlers: []middleware.Handler{cm, h}}
	cm.SetQueryer(sub)
	cm.SetPrefetchQueryer(&chainQueryer{handlers: []middleware.Handler{h}})
	var qr middleware.Queryer = sub
	h.resolver.queryer.Store(&qr)
	// The resolver reports zone-wide failures to the cache through its store.
	var st middleware.Store = cm.Store()
	h.resolver.store.Store(&st)

	ask := func(name string) *dns.Msg {
		t.Helper()
		req := new(dns.Msg)
		req.SetQuestion(name, dns.TypeA)
		w := mock.NewWriter("udp", "127.0.0.1:0")
		ch := middleware.NewChain([]middleware.Handler{cm, h})
		ch.Reset(w, req)
		ch.Next(context.Background())
		if !w.Written() {
			t.Fatalf("%s: no response written", name)
		}
		return w.Msg()
	}

	if resp := ask("www.ghost."); resp.Rcode != dns.RcodeServerFailure {
		t.Fatalf("prime: expected SERVFAIL from the broken child, got %s", dns.RcodeToString[resp.Rcode])
	}

	// The parent re-points the zone to healthy servers; the 1 s lease of the
	// broken delegation runs out.
	repointed.Store(true)
	time.Sleep(1300 * time.Millisecond)

	rootBefore := atomic.LoadInt64(&rootHits)
	for _, name := range []string{"www.ghost.", "other.ghost."} {
		resp := ask(name)
		if resp.Rcode != dns.RcodeSuccess || len(resp.Answer) == 0 {
			t.Errorf("%s: lease of the broken delegation ended and the parent re-pointed the zone, "+
				"but sdns still serves rcode=%s learned through the old delegation", name, dns.RcodeToString[resp.Rcode])
		}
	}
	if atomic.LoadInt64(&rootHits) == rootBefore {
		t.Errorf("the parent was not consulted after the lease ended (root queries stayed at %d, new child queries %d)",
			rootBefore, atomic.LoadInt64(&newHits))
	}
}
