// GENUINE DEFECT reproducer (fails on the UNMODIFIED tree) - C08.
//
// Copy into:  middleware/resolver/   (package resolver; uses the package's
// existing test helpers startMockAuth, mustRR, makeTestConfig, chainQueryer)
// Run with:   go test -vet=off -count=1 -run 'TestC08Genuine_StaleGlue' ./middleware/resolver/
//
// The resolver's glue-address caches (Resolver.glueV4 / glueV6) have no TTL
// and are keyed by nameserver host name only. lookupNSAddrV4/V6 consult them
// BEFORE (and again after) resolving the address, so an address learned as
// part of an OLD delegation is re-attached to a NEW delegation of the same
// zone whenever the new referral names the same host but does not carry that
// address family / that host's glue. The old delegation's server therefore
// keeps being used - and its answers keep being served - after the lease the
// parent granted has ended and the parent has re-pointed the zone, for as long
// as the new delegation lives and again on every renewal.
//
// Sub-tests:
//   v6-enrichment   old referral: ns.ghost. A+AAAA glue (1 s lease). New
//                   referral: same host name, new A glue only. The background
//                   IPv6 enrichment (IPv6Access=true, auto-enabled when the
//                   host has v6 connectivity) pulls the old AAAA from glueV6
//                   and appends the old server to the new delegation.
//   child-injected  as above, but the AAAA was never in the parent's referral:
//                   the old child planted it itself through a referral for a
//                   deeper zone (glue for its own NS host name). The address
//                   is attacker-chosen.
//   v4-partial-glue IPv6 off. New referral lists ns.ghost. (no glue) next to
//                   ns2.ghost. (new glue): the glue-less host gets the OLD
//                   address from glueV4.
package resolver

import (
	"context"
	"strings"
	"sync"
	"sync/atomic"
	"testing"
	"time"

	"github.com/miekg/dns"
	"github.com/semihalev/sdns/internal/cache"
	"github.com/semihalev/sdns/internal/mock"
	"github.com/semihalev/sdns/middleware"
	cachemw "github.com/semihalev/sdns/middleware/cache"
)

type c08gWorld struct {
	t     *testing.T
	mu    sync.Mutex
	remap map[string]string
	h     *DNSHandler
	cm    *cachemw.Cache
}

func (w *c08gWorld) listen(handle func(q dns.Question) *dns.Msg, addrs ...string) *int64 {
	hits := new(int64)
	addr, stop := startMockAuth(w.t, hits, handle)
	w.t.Cleanup(stop)
	w.mu.Lock()
	for _, a := range addrs {
		w.remap[a] = addr
	}
	w.mu.Unlock()
	return hits
}

func c08gSoftNeg(t *testing.T, zone string) *dns.Msg {
	m := &dns.Msg{}
	m.Authoritative = true
	if zone == "." {
		m.Ns = []dns.RR{mustRR(t, ". 30 IN SOA a.root. hostmaster.root. 1 30 30 30 30")}
	} else {
		m.Ns = []dns.RR{mustRR(t, zone+" 30 IN SOA ns."+zone+" hostmaster."+zone+" 1 30 30 30 30")}
	}
	return m
}

func newC08gWorld(t *testing.T, ipv6 bool, root func(q dns.Question) *dns.Msg) *c08gWorld {
	w := &c08gWorld{t: t, remap: map[string]string{}}
	var ignore int64
	rootAddr, stop := startMockAuth(t, &ignore, func(q dns.Question) *dns.Msg {
		if dns.CanonicalName(q.Name) == "." && q.Qtype == dns.TypeNS {
			m := &dns.Msg{}
			m.Authoritative = true
			m.Answer = []dns.RR{mustRR(t, ". 3600 IN NS a.root.")}
			return m
		}
		if q.Qtype == dns.TypeDS {
			return c08gSoftNeg(t, ".")
		}
		return root(q)
	})
	t.Cleanup(stop)
	mapper := func(addr string) string {
		w.mu.Lock()
		defer w.mu.Unlock()
		if to, ok := w.remap[addr]; ok {
			return to
		}
		return addr
	}
	base := makeTestConfig()
	cfg := *base
	cfg.RootServers = []string{rootAddr}
	cfg.Root6Servers = nil
	cfg.DNSSEC = "off"
	cfg.IPv6Access = ipv6
	cfg.CacheSize = 1024
	cfg.Prefetch = 0
	cfg.RateLimit = 0
	w.h = New(&cfg)
	w.h.resolver.resolveTarget.Store(&mapper)
	w.cm = cachemw.New(&cfg)
	t.Cleanup(w.cm.Stop)
	sub := &chainQueryer{handlers: []middleware.Handler{w.cm, w.h}}
	w.cm.SetQueryer(sub)
	w.cm.SetPrefetchQueryer(&chainQueryer{handlers: []middleware.Handler{w.h}})
	var q middleware.Queryer = sub
	w.h.resolver.queryer.Store(&q)
	return w
}

func (w *c08gWorld) ask(name string) *dns.Msg {
	w.t.Helper()
	req := new(dns.Msg)
	req.SetQuestion(name, dns.TypeA)
	wr := mock.NewWriter("udp", "127.0.0.1:0")
	ch := middleware.NewChain([]middleware.Handler{w.cm, w.h})
	ch.Reset(wr, req)
	ch.Next(context.Background())
	if !wr.Written() {
		w.t.Fatalf("%s: no response written", name)
	}
	return wr.Msg()
}

func c08gAnswer(m *dns.Msg) string {
	for _, rr := range m.Answer {
		if a, ok := rr.(*dns.A); ok {
			return a.A.String()
		}
	}
	return dns.RcodeToString[m.Rcode]
}

func TestC08Genuine_StaleGlueRejoinsRepointedDelegation(t *testing.T) {
	const (
		oldAnswer = "192.0.2.55" // what the OLD (withdrawn) server says
		newAnswer = "192.0.2.99" // what the NEW server says
	)
	// The old server answers instantly; the new one takes 30 ms, so whenever
	// both are in the server list the old one wins the race - which is what
	// an attacker who wants to stay alive would arrange.
	oldLeaf := func(extra func(q dns.Question) *dns.Msg) func(q dns.Question) *dns.Msg {
		return func(q dns.Question) *dns.Msg {
			if extra != nil {
				if m := extra(q); m != nil {
					return m
				}
			}
			if q.Qtype == dns.TypeA {
				m := &dns.Msg{}
				m.Authoritative = true
				m.Answer = []dns.RR{mustRR(t, dns.CanonicalName(q.Name)+" 600 IN A "+oldAnswer)}
				return m
			}
			return c08gSoftNeg(t, "ghost.")
		}
	}
	newLeaf := func(q dns.Question) *dns.Msg {
		if q.Qtype == dns.TypeA && !strings.HasPrefix(dns.CanonicalName(q.Name), "ns") {
			time.Sleep(30 * time.Millisecond)
			m := &dns.Msg{}
			m.Authoritative = true
			m.Answer = []dns.RR{mustRR(t, dns.CanonicalName(q.Name)+" 600 IN A "+newAnswer)}
			return m
		}
		return c08gSoftNeg(t, "ghost.") // no AAAA, no A for ns*.ghost.
	}

	var deepReferrals atomic.Int64

	type shape struct {
		name        string
		ipv6        bool
		oldReferral func() *dns.Msg
		newReferral func() *dns.Msg
		oldExtra    func(q dns.Question) *dns.Msg
		prime       []string
		settle      time.Duration
		oldAddrs    []string
	}
	shapes := []shape{
		{
			name: "v6-enrichment", ipv6: true,
			oldReferral: func() *dns.Msg {
				m := &dns.Msg{}
				m.Ns = []dns.RR{mustRR(t, "ghost. 1 IN NS ns.ghost.")}
				m.Extra = []dns.RR{mustRR(t, "ns.ghost. 1 IN A 192.0.2.21"), mustRR(t, "ns.ghost. 1 IN AAAA 2001:db8::21")}
				return m
			},
			newReferral: func() *dns.Msg {
				m := &dns.Msg{}
				m.Ns = []dns.RR{mustRR(t, "ghost. 3600 IN NS ns.ghost.")}
				m.Extra = []dns.RR{mustRR(t, "ns.ghost. 3600 IN A 192.0.2.22")}
				return m
			},
			prime:    []string{"www.ghost."},
			settle:   2700 * time.Millisecond, // the v6 enrichment starts 2 s after the referral
			oldAddrs: []string{"192.0.2.21:53", "[2001:db8::21]:53"},
		},
		{
			name: "child-injected", ipv6: true,
			oldReferral: func() *dns.Msg {
				m := &dns.Msg{}
				m.Ns = []dns.RR{mustRR(t, "ghost. 1 IN NS ns.ghost.")}
				m.Extra = []dns.RR{mustRR(t, "ns.ghost. 1 IN A 192.0.2.21")}
				return m
			},
			newReferral: func() *dns.Msg {
				m := &dns.Msg{}
				m.Ns = []dns.RR{mustRR(t, "ghost. 3600 IN NS ns.ghost.")}
				m.Extra = []dns.RR{mustRR(t, "ns.ghost. 3600 IN A 192.0.2.22")}
				return m
			},
			// The old child refers deep.ghost. to its own NS host name and
			// supplies "glue" for it: an address of its choosing.
			oldExtra: func(q dns.Question) *dns.Msg {
				// Refer once; afterwards answer like any other name so the
				// priming query completes.
				if dns.IsSubDomain("deep.ghost.", dns.CanonicalName(q.Name)) && q.Qtype == dns.TypeA &&
					deepReferrals.Add(1) == 1 {
					m := &dns.Msg{}
					m.Ns = []dns.RR{mustRR(t, "deep.ghost. 1 IN NS ns.ghost.")}
					m.Extra = []dns.RR{mustRR(t, "ns.ghost. 1 IN AAAA 2001:db8::66")}
					return m
				}
				return nil
			},
			prime:    []string{"www.ghost.", "x.deep.ghost."},
			settle:   2700 * time.Millisecond,
			oldAddrs: []string{"192.0.2.21:53", "[2001:db8::66]:53"},
		},
		{
			name: "v4-partial-glue", ipv6: false,
			oldReferral: func() *dns.Msg {
				m := &dns.Msg{}
				m.Ns = []dns.RR{mustRR(t, "ghost. 1 IN NS ns.ghost.")}
				m.Extra = []dns.RR{mustRR(t, "ns.ghost. 1 IN A 192.0.2.21")}
				return m
			},
			newReferral: func() *dns.Msg {
				m := &dns.Msg{}
				m.Ns = []dns.RR{mustRR(t, "ghost. 3600 IN NS ns.ghost."), mustRR(t, "ghost. 3600 IN NS ns2.ghost.")}
				m.Extra = []dns.RR{mustRR(t, "ns2.ghost. 3600 IN A 192.0.2.22")}
				return m
			},
			prime:    []string{"www.ghost."},
			settle:   100 * time.Millisecond,
			oldAddrs: []string{"192.0.2.21:53"},
		},
	}

	for _, sh := range shapes {
		t.Run(sh.name, func(t *testing.T) {
			var repointed atomic.Bool
			w := newC08gWorld(t, sh.ipv6, func(q dns.Question) *dns.Msg {
				if dns.IsSubDomain("ghost.", dns.CanonicalName(q.Name)) {
					if repointed.Load() {
						return sh.newReferral()
					}
					return sh.oldReferral()
				}
				return c08gSoftNeg(t, ".")
			})
			oldHits := w.listen(oldLeaf(sh.oldExtra), sh.oldAddrs...)
			newHits := w.listen(newLeaf, "192.0.2.22:53")

			for _, name := range sh.prime {
				if got := c08gAnswer(w.ask(name)); got != oldAnswer {
					t.Fatalf("prime %s: got %s, want the old child's answer", name, got)
				}
			}

			// The parent re-points the zone; the 1 s lease of the old
			// delegation runs out.
			repointed.Store(true)
			time.Sleep(1300 * time.Millisecond)

			// First post-lease query re-learns the delegation from the parent.
			first := c08gAnswer(w.ask("a.ghost."))
			time.Sleep(sh.settle)

			key := cache.Key(dns.Question{Name: "ghost.", Qtype: dns.TypeNS, Qclass: dns.ClassINET}, true)
			if d, err := w.h.resolver.delegations.Get(key); err == nil {
				d.Servers.RLock()
				for _, s := range d.Servers.List {
					t.Logf("server list of the re-pointed delegation: %s", s.Addr)
				}
				d.Servers.RUnlock()
			}

			oldBefore := atomic.LoadInt64(oldHits)
			var ghosts []string
			if first != newAnswer {
				ghosts = append(ghosts, "a.ghost.="+first)
			}
			for _, name := range []string{"b.ghost.", "c.ghost.", "d.ghost.", "e.ghost."} {
				if got := c08gAnswer(w.ask(name)); got != newAnswer {
					ghosts = append(ghosts, name+"="+got)
				}
			}
			oldAfter := atomic.LoadInt64(oldHits)
			t.Logf("after the lease ended: old server queries %d -> %d, new server queries %d, ghost answers %v",
				oldBefore, oldAfter, atomic.LoadInt64(newHits), ghosts)

			if oldAfter != oldBefore {
				t.Errorf("the old delegation's server was queried %d times after its lease ended and the parent re-pointed the zone",
					oldAfter-oldBefore)
			}
			if len(ghosts) > 0 {
				t.Errorf("answers from the old delegation's server were served after its lease ended: %v", ghosts)
			}
		})
	}
}
