// CANDIDATE DEFECT reproducer (fails on the UNMODIFIED tree) - C08, literal
// reading of "the smaller of the referral's NS and DS TTLs".
//
// Copy into:  middleware/resolver/   (package resolver; uses the package's
// existing test helpers startMockAuth, mustRR, makeTestConfig, newWiredTestResolver)
// Run with:   go test -vet=off -count=1 -run 'TestC08Genuine_CheckingDisabledIgnoresDSTTL' ./middleware/resolver/
//
// On the checking-disabled path (a CD=1 client query, every internal CD=1
// sub-lookup, and ALL queries when dnssec = "off") validateDelegation never
// looks at the DS RRset in the referral: findDS("", ...) returns the (empty)
// parent DS unchanged, so rs.parentDS stays empty and processDelegation's
// "bound the lease by the retained DS lifetime" step is skipped. A referral
// with NS TTL 3600 and DS TTL 1 is leased for a full hour in the CD=1 bucket.
package resolver

import (
	"context"
	"testing"
	"time"

	"github.com/miekg/dns"
	"github.com/semihalev/sdns/internal/cache"
	"github.com/semihalev/sdns/middleware"
)

func TestC08Genuine_CheckingDisabledIgnoresDSTTL(t *testing.T) {
	var ignore int64
	softNeg := func(zone string) *dns.Msg {
		m := &dns.Msg{}
		m.Authoritative = true
		if zone == "." {
			m.Ns = []dns.RR{mustRR(t, ". 30 IN SOA a.root. hostmaster.root. 1 30 30 30 30")}
		} else {
			m.Ns = []dns.RR{mustRR(t, zone+" 30 IN SOA ns."+zone+" hostmaster."+zone+" 1 30 30 30 30")}
		}
		return m
	}
	ghostAddr, stopGhost := startMockAuth(t, &ignore, func(q dns.Question) *dns.Msg {
		if q.Qtype == dns.TypeA && dns.CanonicalName(q.Name) == "www.ghost." {
			m := &dns.Msg{}
			m.Authoritative = true
			m.Answer = []dns.RR{mustRR(t, "www.ghost. 600 IN A 192.0.2.55")}
			return m
		}
		return softNeg("ghost.")
	})
	defer stopGhost()
	rootAddr, stopRoot := startMockAuth(t, &ignore, func(q dns.Question) *dns.Msg {
		name := dns.CanonicalName(q.Name)
		if name == "." && q.Qtype == dns.TypeNS {
			m := &dns.Msg{}
			m.Authoritative = true
			m.Answer = []dns.RR{mustRR(t, ". 3600 IN NS a.root.")}
			return m
		}
		if dns.IsSubDomain("ghost.", name) && q.Qtype != dns.TypeDS {
			m := &dns.Msg{} // referral: NS for an hour, DS for one second
			m.Ns = []dns.RR{
				mustRR(t, "ghost. 3600 IN NS ns.ghost."),
				mustRR(t, "ghost. 1 IN DS 12345 8 2 49FD46E6C4B45C55D4AC49FD46E6C4B45C55D4AC49FD46E6C4B45C55D4AC49FD"),
			}
			m.Extra = []dns.RR{mustRR(t, "ns.ghost. 3600 IN A 192.0.2.21")}
			return m
		}
		if name == "ghost." && q.Qtype == dns.TypeDS {
			m := &dns.Msg{}
			m.Authoritative = true
			m.Answer = []dns.RR{mustRR(t, "ghost. 1 IN DS 12345 8 2 49FD46E6C4B45C55D4AC49FD46E6C4B45C55D4AC49FD46E6C4B45C55D4AC49FD")}
			return m
		}
		return softNeg(".")
	})
	defer stopRoot()

	remap := map[string]string{"192.0.2.21:53": ghostAddr}
	mapper := func(addr string) string {
		if to, ok := remap[addr]; ok {
			return to
		}
		return addr
	}
	base := makeTestConfig()
	cfg := *base
	cfg.RootServers = []string{rootAddr}
	cfg.Root6Servers = nil
	cfg.DNSSEC = "off"
	cfg.IPv6Access = false
	r := newWiredTestResolver(&cfg)
	r.resolveTarget.Store(&mapper)

	req := new(dns.Msg)
	req.SetQuestion("www.ghost.", dns.TypeA)
	req.CheckingDisabled = true
	var meta middleware.ResponseMeta
	ctx := middleware.WithResponseMeta(context.WithValue(context.Background(), contextKeyRequestID, req.Id), &meta)
	resp, err := r.Resolve(ctx, req, r.rootServers, true, 30, 0, true, nil)
	if err != nil || resp.Rcode != dns.RcodeSuccess || len(resp.Answer) == 0 {
		t.Fatalf("resolve: err=%v resp=%v", err, resp)
	}

	d, derr := r.delegations.Get(cache.Key(dns.Question{Name: "ghost.", Qtype: dns.TypeNS, Qclass: dns.ClassINET}, true))
	if derr != nil {
		t.Logf("ghost. delegation not cached (%v) - that would be fine", derr)
	} else if left := time.Until(d.ExpiresAt); left > 2*time.Second {
		t.Errorf("ghost. delegation leased for another %s; the referral's DS TTL was 1 s", left.Round(time.Second))
	}
	if left := time.Until(meta.CutUntil()); left > 2*time.Second {
		t.Errorf("answer cut deadline is %s away; the referral's DS TTL was 1 s", left.Round(time.Second))
	}
}
