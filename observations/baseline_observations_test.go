// Observations on the UNMODIFIED tree (no seeded change applied) that already
// look like departures from property C03. Each test FAILS on the clean tree
// when the behaviour is present.
//
// Copy into middleware/cache/ (package cache) and run:
//
//	GOFLAGS=-mod=mod GOPROXY=off go test -vet=off -count=1 -run 'TestBaselineC03_' ./middleware/cache/
package cache

import (
	"context"
	"net/netip"
	"testing"
	"time"

	"github.com/miekg/dns"
	"github.com/semihalev/sdns/config"
	"github.com/semihalev/sdns/internal/mock"
	"github.com/semihalev/sdns/middleware"
)

type baselineStoreQueryer struct{ store *Store }

func (q *baselineStoreQueryer) Query(_ context.Context, req *dns.Msg) (*dns.Msg, error) {
	if msg, ok := q.store.Get(req); ok {
		return msg, nil
	}
	m := new(dns.Msg)
	m.SetRcode(req, dns.RcodeServerFailure)
	return m, nil
}

// Observation 1 - the decoded path's alias chase (Cache.additionalAnswer)
// builds its sub-query with dns.Msg.SetQuestion, which hard-codes class IN.
// An alias cached for a class-CH question is therefore completed with the
// response cached for the class-IN target question: a cached response is used
// for a question of a different class. (The wire chase keys its hops with the
// request's qclass and declines; the request then falls to this path.)
func TestBaselineC03_DecodedAliasChaseCrossesClass(t *testing.T) {
	c := New(&config.Config{Expire: 600, CacheSize: 4096, RateLimit: 0, Prefetch: 0})
	defer c.Stop()
	c.SetQueryer(&baselineStoreQueryer{store: c.store})

	const alias, target = "alias.classobs.test.", "target.classobs.test."

	// (alias, A, CH) -> CNAME target, class CH throughout.
	areq := new(dns.Msg)
	areq.SetQuestion(alias, dns.TypeA)
	areq.Question[0].Qclass = dns.ClassCHAOS
	aresp := new(dns.Msg)
	aresp.SetReply(areq)
	aresp.Answer = []dns.RR{&dns.CNAME{
		Hdr:    dns.RR_Header{Name: alias, Rrtype: dns.TypeCNAME, Class: dns.ClassCHAOS, Ttl: 300},
		Target: target,
	}}
	c.store.SetFromResponseWithKey(CacheKey{Question: areq.Question[0]}.Hash(), aresp, time.Time{}, 0)

	// (target, A, IN) -> an Internet-class address.
	treq := new(dns.Msg)
	treq.SetQuestion(target, dns.TypeA)
	tresp := new(dns.Msg)
	tresp.SetReply(treq)
	rr, _ := dns.NewRR(target + " 300 IN A 192.0.2.99")
	tresp.Answer = []dns.RR{rr}
	c.store.SetFromResponseWithKey(CacheKey{Question: treq.Question[0]}.Hash(), tresp, time.Time{}, 0)

	ask := new(dns.Msg)
	ask.SetQuestion(alias, dns.TypeA)
	ask.Question[0].Qclass = dns.ClassCHAOS
	mw := mock.NewWriter("udp", "198.51.100.9:5300")
	ch := middleware.NewChain([]middleware.Handler{c, middleware.HandlerFunc(func(context.Context, *middleware.Chain) {
		t.Error("missed the cache")
	})})
	ch.Reset(mw, ask)
	ch.Next(context.Background())
	if !mw.Written() {
		t.Fatal("no response")
	}
	for _, r := range mw.Msg().Answer {
		if r.Header().Class != dns.ClassCHAOS {
			t.Errorf("class-CH question answered with a record cached for a class-%s question: %v",
				dns.ClassToString[r.Header().Class], r)
		}
	}
}

// Observation 2 - Store.Purge's scoped sweep compares names with
// strings.EqualFold (full Unicode simple folding), which is broader than the
// ASCII-only folding the keys and every lookup verifier use. Purging the name
// whose first label is the three octets E2 84 AA (U+212A KELVIN SIGN, which
// Unicode-folds to 'k') removes the ECS-scoped entry of the different name
// "k.purgeobs.test.".
func TestBaselineC03_ScopedPurgeFoldsBeyondASCII(t *testing.T) {
	c := New(&config.Config{Expire: 600, CacheSize: 4096, RateLimit: 0, Prefetch: 0})
	defer c.Stop()

	req := new(dns.Msg)
	req.SetQuestion("k.purgeobs.test.", dns.TypeA)
	resp := new(dns.Msg)
	resp.SetReply(req)
	rr, _ := dns.NewRR("k.purgeobs.test. 300 IN A 192.0.2.7")
	resp.Answer = []dns.RR{rr}
	scope := netip.MustParsePrefix("203.0.113.0/24")
	key := CacheKey{Question: req.Question[0], Scope: scope}.Hash()
	c.store.SetFromResponseScoped(key, resp, scope, time.Time{}, 0)
	want := CacheKey{Question: req.Question[0], Scope: scope}
	if _, ok := c.store.LookupByKeyVerified(key, want); !ok {
		t.Fatal("fixture: scoped entry not stored")
	}

	c.store.Purge(dns.Question{Name: "K.purgeobs.test.", Qtype: dns.TypeA, Qclass: dns.ClassINET})

	if _, ok := c.store.LookupByKeyVerified(key, want); !ok {
		t.Error(`purging "K.purgeobs.test." removed the scoped entry of the different name "k.purgeobs.test."`)
	}
}
