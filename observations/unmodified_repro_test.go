// Candidate findings on the UNMODIFIED tree (not part of seeded changes 5/6).
//
// Copy into   middleware/cache/   (package cache) and run:
//
//	export GOFLAGS=-mod=mod GOPROXY=off
//	go test -vet=off -count=1 -run 'TestUnmodifiedC04_' -v ./middleware/cache/
//
// Both tests FAIL on the unmodified tree if the behaviour they describe is
// considered a violation of C04.
package cache

import (
	"context"
	"sync/atomic"
	"testing"
	"testing/synctest"
	"time"

	"github.com/miekg/dns"
	"github.com/semihalev/sdns/config"
	"github.com/semihalev/sdns/internal/mock"
	"github.com/semihalev/sdns/middleware"
)

type unmodInternalQueryer struct{ handlers []middleware.Handler }

func (q *unmodInternalQueryer) Query(ctx context.Context, req *dns.Msg) (*dns.Msg, error) {
	w := mock.NewWriter("udp", "127.0.0.255:0")
	ch := middleware.NewChain(q.handlers)
	ch.Reset(w, req)
	ch.Next(ctx)
	if !w.Written() {
		return nil, middleware.ErrNoResponse
	}
	return w.Msg(), nil
}

func unmodAsk(t *testing.T, c *Cache, name string, downstream middleware.Handler) *dns.Msg {
	t.Helper()
	req := new(dns.Msg)
	req.SetQuestion(name, dns.TypeA)
	req.RecursionDesired = true
	w := mock.NewWriter("udp", "127.0.0.1:0")
	chain := middleware.NewChain([]middleware.Handler{c, downstream})
	chain.Reset(w, req)
	chain.Next(context.Background())
	if !w.Written() {
		t.Fatalf("no response for %s", name)
	}
	return w.Msg()
}

// A. An alias whose chain ends in NODATA is classified as a positive answer
// (Answer is non-empty), so SOA.MINIMUM is never consulted: with an SOA whose
// header TTL (3600) exceeds MINIMUM (60) the negative reply is served from
// cache for an hour instead of the RFC 2308 negative TTL of 60 s. The same
// SOA on a plain NODATA (no CNAME in front) is capped at 60 s.
func TestUnmodifiedC04_AliasNodataIgnoresSOAMinimum(t *testing.T) {
	synctest.Test(t, func(t *testing.T) {
		c := New(&config.Config{CacheSize: 1024, Expire: 600})
		defer c.Stop()

		const alias, target = "alias.unmod-a.", "target.unmod-a."
		soa := func() dns.RR {
			return &dns.SOA{
				Hdr: dns.RR_Header{Name: "unmod-a.", Rrtype: dns.TypeSOA, Class: dns.ClassINET, Ttl: 3600},
				Ns:  "ns.unmod-a.", Mbox: "h.unmod-a.", Serial: 1, Refresh: 1, Retry: 1, Expire: 1, Minttl: 60,
			}
		}
		var aliasUpstream atomic.Int32
		targetHandler := middleware.HandlerFunc(func(_ context.Context, ch *middleware.Chain) {
			resp := new(dns.Msg)
			resp.SetReply(ch.Request.Msg())
			resp.Ns = []dns.RR{soa()}
			_ = ch.Writer.WriteMsg(resp)
			ch.Cancel()
		})
		// What an authority serving both names from one zone returns.
		aliasHandler := middleware.HandlerFunc(func(_ context.Context, ch *middleware.Chain) {
			aliasUpstream.Add(1)
			resp := new(dns.Msg)
			resp.SetReply(ch.Request.Msg())
			resp.Answer = []dns.RR{&dns.CNAME{
				Hdr:    dns.RR_Header{Name: alias, Rrtype: dns.TypeCNAME, Class: dns.ClassINET, Ttl: 3600},
				Target: target,
			}}
			resp.Ns = []dns.RR{soa()}
			_ = ch.Writer.WriteMsg(resp)
			ch.Cancel()
		})
		c.SetQueryer(&unmodInternalQueryer{handlers: []middleware.Handler{c, targetHandler}})

		_ = unmodAsk(t, c, alias, aliasHandler)
		time.Sleep(120 * time.Second) // twice the negative TTL
		_ = unmodAsk(t, c, alias, aliasHandler)
		if aliasUpstream.Load() != 2 {
			t.Errorf("alias->NODATA still served from cache 120 s after admission although the SOA negative TTL is 60 s")
		}
	})
}

// B. When the alias is resolved while its target is NOT yet cached, the chase
// sub-query resolves the target, which answers a header-only NXDOMAIN and is
// cached for the 5 s floor. The composed "alias -> NXDOMAIN" entry is bound
// only by the CNAME's TTL (300 s): it outlives the denial piece by 295 s.
// (When the target denial is already cached the entry IS bound to it - that
// is the behaviour seeded change 5 removes.)
func TestUnmodifiedC04_AliasToFreshBareNXDomainOutlivesDenial(t *testing.T) {
	synctest.Test(t, func(t *testing.T) {
		c := New(&config.Config{CacheSize: 1024, Expire: 600})
		defer c.Stop()

		const alias, target = "alias.unmod-b.", "target.unmod-b."
		var aliasUpstream atomic.Int32
		targetHandler := middleware.HandlerFunc(func(_ context.Context, ch *middleware.Chain) {
			resp := new(dns.Msg)
			resp.SetReply(ch.Request.Msg())
			resp.Rcode = dns.RcodeNameError
			_ = ch.Writer.WriteMsg(resp)
			ch.Cancel()
		})
		aliasHandler := middleware.HandlerFunc(func(_ context.Context, ch *middleware.Chain) {
			aliasUpstream.Add(1)
			resp := new(dns.Msg)
			resp.SetReply(ch.Request.Msg())
			resp.Answer = []dns.RR{&dns.CNAME{
				Hdr:    dns.RR_Header{Name: alias, Rrtype: dns.TypeCNAME, Class: dns.ClassINET, Ttl: 300},
				Target: target,
			}}
			_ = ch.Writer.WriteMsg(resp)
			ch.Cancel()
		})
		c.SetQueryer(&unmodInternalQueryer{handlers: []middleware.Handler{c, targetHandler}})

		if resp := unmodAsk(t, c, alias, aliasHandler); resp.Rcode != dns.RcodeNameError {
			t.Fatalf("rcode %d", resp.Rcode)
		}
		time.Sleep(60 * time.Second)
		_ = unmodAsk(t, c, alias, aliasHandler)
		if aliasUpstream.Load() != 2 {
			t.Errorf("alias->NXDOMAIN still served from cache 60 s after admission; the denial it was composed from was cached for 5 s")
		}
	})
}
