// Pre-existing divergence found while working on C14 (NOT a seeded change).
// Marginal: it concerns the historic A6 type, and miekg/dns has the same gap.
//
// Copy into:  middleware/resolver/dnssec/   (package dnssec, internal test)
// Run with:   go test -vet=off -count=1 -run 'TestGenuineC14_A6PrefixNameIsNotCanonicalised' ./middleware/resolver/dnssec/
//
// FAILS on the clean, unmodified checkout.
package dnssec

import (
	"crypto/ed25519"
	"crypto/rand"
	"encoding/base64"
	"encoding/binary"
	"encoding/hex"
	"testing"
	"time"

	"github.com/miekg/dns"
)

// RFC 4034 section 6.2 item 3 lists A6 among the types whose embedded domain
// names are lowercased in the canonical form, and RFC 6840 section 5.1 does not
// take it off that list. canonicalizeRdataNames (a copy of miekg/dns' switch)
// has no case for it - the library has no A6 type at all, so the record
// arrives as opaque RFC 3597 data and its prefix name keeps whatever case the
// wire had. A signature made over the RFC's canonical form (what BIND and
// ldns produce) is therefore rejected whenever the prefix name in the response
// is not already all lowercase.
func TestGenuineC14_A6PrefixNameIsNotCanonicalised(t *testing.T) {
	public, private, err := ed25519.GenerateKey(rand.Reader)
	if err != nil {
		t.Fatal(err)
	}
	key := &dns.DNSKEY{
		Hdr: dns.RR_Header{
			Name: "example.com.", Rrtype: dns.TypeDNSKEY,
			Class: dns.ClassINET, Ttl: 3600,
		},
		Flags: 257, Protocol: 3, Algorithm: dns.ED25519,
		PublicKey: base64.StdEncoding.EncodeToString(public),
	}

	const typeA6 = 38
	// A6 RDATA: prefix length 64, eight octets of address suffix, prefix name.
	a6 := func(prefixName []byte) []byte {
		rdata := []byte{64, 0, 0, 0, 0, 0, 0, 0, 1}
		return append(rdata, prefixName...)
	}
	asSent := a6([]byte("\x03SUB\x07Example\x03COM\x00"))
	canonical := a6([]byte("\x03sub\x07example\x03com\x00"))

	owner := []byte("\x03www\x07example\x03com\x00")
	signer := []byte("\x07example\x03com\x00")

	sig := &dns.RRSIG{
		Hdr: dns.RR_Header{
			Name: "www.example.com.", Rrtype: dns.TypeRRSIG,
			Class: dns.ClassINET, Ttl: 300,
		},
		TypeCovered: typeA6, Algorithm: dns.ED25519, Labels: 3, OrigTtl: 300,
		Expiration: uint32(time.Now().Add(24 * time.Hour).Unix()),
		Inception:  uint32(time.Now().Add(-time.Hour).Unix()),
		KeyTag:     key.KeyTag(), SignerName: "example.com.",
	}

	// RFC 4034 section 3.1.8.1: RRSIG RDATA less the signature, then the RRset in
	// canonical form. Built by hand, octet by octet.
	signed := binary.BigEndian.AppendUint16(nil, sig.TypeCovered)
	signed = append(signed, sig.Algorithm, sig.Labels)
	signed = binary.BigEndian.AppendUint32(signed, sig.OrigTtl)
	signed = binary.BigEndian.AppendUint32(signed, sig.Expiration)
	signed = binary.BigEndian.AppendUint32(signed, sig.Inception)
	signed = binary.BigEndian.AppendUint16(signed, sig.KeyTag)
	signed = append(signed, signer...)
	signed = append(signed, owner...)
	signed = binary.BigEndian.AppendUint16(signed, typeA6)
	signed = binary.BigEndian.AppendUint16(signed, dns.ClassINET)
	signed = binary.BigEndian.AppendUint32(signed, sig.OrigTtl)
	signed = binary.BigEndian.AppendUint16(signed, uint16(len(canonical)))
	signed = append(signed, canonical...)
	sig.Signature = base64.StdEncoding.EncodeToString(ed25519.Sign(private, signed))

	record := func(rdata []byte) []dns.RR {
		return []dns.RR{&dns.RFC3597{
			Hdr: dns.RR_Header{
				Name: "www.example.com.", Rrtype: typeA6,
				Class: dns.ClassINET, Ttl: 300,
			},
			Rdata: hex.EncodeToString(rdata),
		}}
	}

	// Control: with the prefix name already lowercase the signature verifies,
	// so the hand-built signed data is the form this package expects.
	if err := verifySignature(key, sig, record(canonical)); err != nil {
		t.Fatalf("fixture is wrong: the all-lowercase spelling was rejected: %v", err)
	}

	// The same RRset with the prefix name in the case the server sent it. The
	// canonical form - and so the signature's validity - does not depend on it.
	if err := verifySignature(key, sig, record(asSent)); err != nil {
		t.Errorf("rejected a signature that is valid over the RFC 4034 section 6.2 "+
			"canonical form of an A6 RRset whose prefix name is spelled SUB.Example.COM.: %v", err)
	}
}
