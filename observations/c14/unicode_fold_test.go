// Pre-existing divergence found while working on C14 (NOT a seeded change).
//
// Copy into:  middleware/resolver/dnssec/   (package dnssec, internal test)
// Run with:   go test -vet=off -count=1 -run 'TestGenuineC14_UnicodeFoldBindsAForeignKeyOwner' ./middleware/resolver/dnssec/
//
// FAILS on the clean, unmodified checkout.
package dnssec

import (
	"crypto"
	"testing"
	"time"

	"github.com/miekg/dns"
)

// signatureBinding, verifyOneSigWithWork and usableSignatureCandidate compare
// the RRSIG's signer name with the DNSKEY's owner name using strings.EqualFold.
// That is Unicode simple case folding, not DNS (ASCII-only) case folding:
// U+212A KELVIN SIGN folds to 'k', U+017F LATIN SMALL LETTER LONG S folds to
// 's'. miekg/dns' RRSIG.Verify uses an ASCII-only comparison and refuses.
//
// So a DNSKEY whose owner name is "\u212Aey.example." - on the wire the octets
// E2 84 AA 65 79, a different domain name from "key.example." - is accepted as
// the key of signer "key.example.". This package is more permissive than the
// library here, which the property forbids ("stricter, never more permissive").
func TestGenuineC14_UnicodeFoldBindsAForeignKeyOwner(t *testing.T) {
	key := &dns.DNSKEY{
		Hdr: dns.RR_Header{
			Name: "key.example.", Rrtype: dns.TypeDNSKEY,
			Class: dns.ClassINET, Ttl: 3600,
		},
		Flags: 257, Protocol: 3, Algorithm: dns.ECDSAP256SHA256,
	}
	private, err := key.Generate(256)
	if err != nil {
		t.Fatal(err)
	}
	rr, err := dns.NewRR("www.key.example. 300 IN A 192.0.2.1")
	if err != nil {
		t.Fatal(err)
	}
	rrset := []dns.RR{rr}
	sig := &dns.RRSIG{
		Hdr: dns.RR_Header{
			Name: "www.key.example.", Rrtype: dns.TypeRRSIG,
			Class: dns.ClassINET, Ttl: 300,
		},
		TypeCovered: dns.TypeA, Algorithm: key.Algorithm, Labels: 3, OrigTtl: 300,
		Expiration: uint32(time.Now().Add(24 * time.Hour).Unix()),
		Inception:  uint32(time.Now().Add(-time.Hour).Unix()),
		KeyTag:     key.KeyTag(), SignerName: "key.example.",
	}
	if err := sig.Sign(private.(crypto.Signer), rrset); err != nil {
		t.Fatal(err)
	}
	if err := sig.Verify(key, rrset); err != nil {
		t.Fatalf("fixture is wrong: %v", err)
	}

	// The same key material published at a DIFFERENT owner name: the first
	// label starts with U+212A, not with ASCII 'k'.
	foreign := *key
	foreign.Hdr.Name = "\u212Aey.example." // KELVIN SIGN, then "ey"
	wireA, wireB := make([]byte, 64), make([]byte, 64)
	nA, _ := dns.PackDomainName(dns.CanonicalName(key.Hdr.Name), wireA, 0, nil, false)
	nB, _ := dns.PackDomainName(dns.CanonicalName(foreign.Hdr.Name), wireB, 0, nil, false)
	if string(wireA[:nA]) == string(wireB[:nB]) {
		t.Fatal("fixture is wrong: the two owner names are the same domain name")
	}

	libraryErr := sig.Verify(&foreign, rrset)
	if libraryErr == nil {
		t.Skip("the library accepts the foreign owner too; nothing to compare")
	}

	if err := verifySignature(&foreign, sig, rrset); err == nil {
		t.Errorf("verifySignature accepted signer %q against a DNSKEY owned by %q (% x); "+
			"the library refuses it: %v", sig.SignerName, foreign.Hdr.Name, wireB[:nB], libraryErr)
	}

	msg := new(dns.Msg)
	msg.SetQuestion("www.key.example.", dns.TypeA)
	msg.Answer = []dns.RR{rr, sig}
	keys := map[uint16][]*dns.DNSKEY{KeyTag(&foreign): {&foreign}}
	if ok, err := VerifyRRSIG("key.example.", keys, msg); ok {
		t.Errorf("VerifyRRSIG authenticated the answer with a DNSKEY owned by %q (err=%v)",
			foreign.Hdr.Name, err)
	}
}
