// Borderline pre-existing finding for C16 on the UNMODIFIED tree (see README.md, G2).
//
// Copy into the package directory  internal/cache/  (package cache) and run:
//
//	GOFLAGS=-mod=mod GOPROXY=off go test -vet=off -count=1 -run 'TestGenuineC16_CASUncomparable' ./internal/cache/
//
// FAILS on the clean checkout.
//
// Cache stores `any`. Add/Get/Remove accept every value type (the project's
// own TestCacheEvictionWithLargeItems stores []byte), but CompareAndSwap and
// CompareAndDelete decide "identical" with the interface `!=` operator,
// which PANICS at run time when both sides hold the same uncomparable
// dynamic type (slice, map, func, or a struct containing one). Instead of
// "act only when the identical current value is present, otherwise report
// false" the caller's goroutine is killed.
package cache

import "testing"

func TestGenuineC16_CASUncomparableValuePanics(t *testing.T) {
	c := New(16)
	cur := []byte("current")
	c.Add(7, cur)

	try := func(name string, f func() bool) {
		defer func() {
			if r := recover(); r != nil {
				t.Errorf("%s panicked instead of returning a verdict: %v", name, r)
			}
		}()
		if f() {
			t.Errorf("%s acted although a different value was named", name)
		}
	}
	other := []byte("other")
	try("CompareAndSwap", func() bool { return c.CompareAndSwap(7, other, []byte("new")) })
	try("CompareAndDelete", func() bool { return c.CompareAndDelete(7, other) })

	if v, ok := c.Get(7); !ok || string(v.([]byte)) != "current" {
		t.Errorf("entry damaged: %v %v", v, ok)
	}
	// the segment lock must have been released by the deferred Unlock
	c.Add(7, cur)
}
