// Pre-existing, design-level deviation from C16 on the UNMODIFIED tree (see README.md, G3).
//
// Copy into the package directory  middleware/ratelimit/  (package ratelimit) and run:
//
//	GOFLAGS=-mod=mod GOPROXY=off go test -vet=off -count=1 -run 'TestGenuineC16_LimiterStore' ./middleware/ratelimit/
//
// FAILS on the clean checkout.
//
// C16 lists the limiter store among the bounded concurrent tables whose
// "writers never wait on a global lock". LimiterStore has exactly one
// sync.RWMutex for the whole table: every first-sight key (a write) takes it
// exclusively, and once a writer is queued, sync.RWMutex also parks every
// later reader of every other key behind it.
package ratelimit

import (
	"testing"
	"time"
)

func TestGenuineC16_LimiterStoreWritersShareOneLock(t *testing.T) {
	s := NewLimiterStore(1000, 10)
	s.Get(1)
	s.Get(2)

	// Stand-in for any operation that is inside the store right now (a Get
	// hit on key 1 holds exactly this read lock while it stamps lastSeen; a
	// Cleanup or an evictOne scan holds the write lock for O(n)).
	s.mu.RLock()

	writer := make(chan struct{})
	go func() { s.Get(3); close(writer) }() // unrelated new key
	select {
	case <-writer:
	case <-time.After(500 * time.Millisecond):
		t.Errorf("a writer for key 3 waits while an unrelated key 1 is being used: one table-wide lock")
	}

	reader := make(chan struct{})
	go func() { s.Get(2); close(reader) }() // unrelated existing key, read path
	select {
	case <-reader:
	case <-time.After(500 * time.Millisecond):
		t.Errorf("a reader of existing key 2 is parked behind the queued writer for key 3")
	}

	s.mu.RUnlock()
	<-writer
	<-reader
}
