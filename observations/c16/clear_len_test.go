// Pre-existing violation of C16 on the UNMODIFIED tree.
//
// Copy into the package directory  internal/cache/  (package cache) and run:
//
//	GOFLAGS=-mod=mod GOPROXY=off go test -vet=off -count=1 -run 'TestGenuineC16_Clear' ./internal/cache/
//
// Both tests FAIL on the clean checkout.
//
// SegmentUInt64Map.Clear (and SyncUInt64Map.Clear, which forwards to it)
// empties the segments one by one, each under its own lock, and only then
// does `m.count.Store(0)`. A Set that lands in an already-emptied segment
// before that final store is counted (+1) and then wiped from the counter,
// although the entry itself stays in the table. Once every writer has
// stopped, Len() is smaller than the number of reachable entries, for good:
// a later Del of such an entry even drives the counter negative.
package cache

import (
	"sync"
	"testing"
	"time"
)

func genuineSegOf(key uint64) uint { return (uint(key*0x9E3779B9) >> 16) & 255 }

func genuineKeyIn(seg uint) uint64 {
	for k := uint64(1); ; k++ {
		if genuineSegOf(k) == seg {
			return k
		}
	}
}

// Deterministic schedule: a slow iterator parks Clear in front of segment
// 200; a Set into segment 5 (already emptied) completes meanwhile.
func TestGenuineC16_ClearLosesConcurrentSetFromLen(t *testing.T) {
	m := NewSyncUInt64Map[string](8)
	kLate := genuineKeyIn(200)
	kEarly := genuineKeyIn(5)
	m.Set(kLate, "late")

	inCallback := make(chan struct{})
	release := make(chan struct{})
	var wg sync.WaitGroup
	wg.Add(2)
	go func() {
		defer wg.Done()
		m.ForEach(func(k uint64, _ string) bool { // holds segment 200's read lock
			close(inCallback)
			<-release
			return false
		})
	}()
	<-inCallback
	go func() {
		defer wg.Done()
		m.Clear() // empties segments 0..199, then waits for segment 200
	}()
	// Give Clear time to reach segment 200. (If it has not got past segment
	// 5 yet the entry is simply cleared and the test passes vacuously - it
	// cannot fail spuriously.)
	time.Sleep(200 * time.Millisecond)
	m.Set(kEarly, "early") // completes: segment 5 is not locked
	close(release)
	wg.Wait()

	// Everybody has stopped.
	reachable := int64(0)
	m.ForEach(func(uint64, string) bool { reachable++; return true })
	_, ok := m.Get(kEarly)
	t.Logf("after Clear: Get(kEarly) ok=%v, reachable=%d, Len=%d", ok, reachable, m.Len())
	if m.Len() != reachable {
		t.Errorf("Len()=%d but %d entries are reachable after all writers stopped", m.Len(), reachable)
	}
	if ok {
		m.Del(kEarly)
		if m.Len() < 0 {
			t.Errorf("Len()=%d (negative) after deleting the surviving entry", m.Len())
		}
	}
}

// Same thing without any orchestration: plain writers racing plain Clear.
func TestGenuineC16_ClearRaceRandomised(t *testing.T) {
	bad := 0
	const rounds = 200
	for round := 0; round < rounds; round++ {
		m := NewSyncUInt64Map[int](8)
		var wg sync.WaitGroup
		for w := 0; w < 4; w++ {
			wg.Add(1)
			go func(w int) {
				defer wg.Done()
				for i := 0; i < 2000; i++ {
					m.Set(uint64(w*100000+i), i)
				}
			}(w)
		}
		wg.Add(1)
		go func() {
			defer wg.Done()
			for i := 0; i < 3; i++ {
				m.Clear()
			}
		}()
		wg.Wait()
		reach := int64(0)
		m.ForEach(func(uint64, int) bool { reach++; return true })
		if reach != m.Len() {
			if bad == 0 {
				t.Logf("round %d: Len=%d reachable=%d", round, m.Len(), reach)
			}
			bad++
		}
	}
	if bad > 0 {
		t.Errorf("%d/%d rounds ended with Len() != number of reachable entries", bad, rounds)
	}
}
