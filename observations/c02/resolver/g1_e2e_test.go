// GENUINE DEFECT G1 (present in the UNMODIFIED tree) — end-to-end reproducer
// through the resolver's own hermetic signed namespace.
//
// Copy into: middleware/resolver/   (package resolver; uses hermetic_test.go helpers)
// Run:       go test -vet=off -count=1 -run 'TestGenuineC02G1E2E' ./middleware/resolver/
//
// A signed NSEC zone holds only "x.*.<zone>" below its apex, so "*.<zone>" is
// an empty non-terminal wildcard. Every foo.<zone> matches that wildcard and
// the only provable answer is NOERROR/NODATA. An authority (or anyone on the
// path replaying the zone's two genuine, validly signed NSEC records) that
// answers NXDOMAIN instead is believed: sdns returns NXDOMAIN with AD=1.
package resolver

import (
	"testing"

	"github.com/miekg/dns"
)

func TestGenuineC02G1E2E_NXDOMAINOverWildcardENTIsAuthenticated(t *testing.T) {
	net := newHermeticNet(t)
	zone := net.Delegate("g1.test.")
	zone.Serve(mustRR(t, `x.\*.g1.test. 300 IN A 192.0.2.7`))

	// The zone's complete, genuine NSEC chain: apex -> x.*.g1.test. -> apex.
	apex := &dns.NSEC{
		Hdr:        dns.RR_Header{Name: "g1.test.", Rrtype: dns.TypeNSEC, Class: dns.ClassINET, Ttl: 3600},
		NextDomain: `x.\*.g1.test.`,
		TypeBitMap: []uint16{dns.TypeNS, dns.TypeSOA, dns.TypeRRSIG, dns.TypeNSEC, dns.TypeDNSKEY},
	}
	last := &dns.NSEC{
		Hdr:        dns.RR_Header{Name: `x.\*.g1.test.`, Rrtype: dns.TypeNSEC, Class: dns.ClassINET, Ttl: 3600},
		NextDomain: "g1.test.",
		TypeBitMap: []uint16{dns.TypeA, dns.TypeRRSIG, dns.TypeNSEC},
	}
	// The server answers NXDOMAIN for every name it does not hold and attaches
	// this proof: both records of the chain, each with its real signature.
	zone.server.setNXProof([]dns.RR{
		apex, zone.key.sign(t, []dns.RR{apex}),
		last, zone.key.sign(t, []dns.RR{last}),
	})

	resp := hermeticAsk(t, net.Handler(), "foo.g1.test.", dns.TypeA)

	if resp.Rcode == dns.RcodeNameError {
		t.Fatalf("NXDOMAIN (AD=%v) accepted for foo.g1.test.: *.g1.test. is an empty non-terminal "+
			"(x.*.g1.test. exists), so the name matches a wildcard and the records prove NODATA, "+
			"not a name error; want SERVFAIL", resp.AuthenticatedData)
	}
}
