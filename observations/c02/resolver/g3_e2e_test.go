// GENUINE DEFECT G3 (present in the UNMODIFIED tree) — end-to-end reproducer.
//
// Copy into: middleware/resolver/   (package resolver; uses hermetic_test.go helpers)
// Run:       go test -vet=off -count=1 -run 'TestGenuineC02G3E2E' ./middleware/resolver/
//
// A class-CH question for an absent TLD. The root (or an on-path party
// replaying the root zone's records) answers NXDOMAIN with the class-IN root
// SOA, NSEC and RRSIGs. The resolver fetches DS/DNSKEY in class IN whatever
// the question's class is, VerifyRRSIG validates the class-IN authority
// section, and VerifyNameErrorNSEC never compares classes — so a denial "in
// class CH" comes back with AD=1 on the strength of records that say nothing
// about class CH. (The NSEC3 verifiers and the RFC 8198 evaluator do bind the
// class; the NSEC verifiers are the ones that forgot.)
package resolver

import (
	"context"
	"testing"

	"github.com/miekg/dns"
	"github.com/semihalev/sdns/internal/dnsutil"
)

func genuineG3Ask(h *DNSHandler, name string, qclass uint16) *dns.Msg {
	req := new(dns.Msg)
	req.SetEdns0(dnsutil.DefaultMsgSize, true)
	req.SetQuestion(name, dns.TypeA)
	req.Question[0].Qclass = qclass
	return h.handle(context.Background(), req)
}

func TestGenuineC02G3E2E_ClassINProofAuthenticatesClassCHDenial(t *testing.T) {
	net := newHermeticNet(t)
	net.Delegate("g3.test.") // any signed namespace; the denial below is the root's
	h := net.Handler()

	resp := genuineG3Ask(h, "absent-tld-g3.", dns.ClassCHAOS)
	t.Logf("rcode=%s ad=%v", dns.RcodeToString[resp.Rcode], resp.AuthenticatedData)

	if resp.Rcode == dns.RcodeNameError && resp.AuthenticatedData {
		for _, rr := range resp.Ns {
			if rr.Header().Class != dns.ClassCHAOS {
				t.Fatalf("NXDOMAIN with AD=1 for a class-CH question proven by a class-%s %s record; "+
					"a denial must be proven in the class it is given for",
					dns.ClassToString[rr.Header().Class], dns.TypeToString[rr.Header().Rrtype])
			}
		}
		t.Fatalf("NXDOMAIN with AD=1 for a class-CH question; the signed zone is class IN")
	}
}
