// GENUINE DEFECT G3 (present in the UNMODIFIED tree) — unit-level reproducer.
//
// Copy into: middleware/resolver/dnssec/   (package dnssec)
// Run:       go test -vet=off -count=1 -run 'TestGenuineC02G3' ./middleware/resolver/dnssec/
//
// The NSEC verifiers never look at the class. VerifyNameErrorNSEC and
// VerifyNODATANSEC accept class-IN NSEC records as proof for a question in
// another class (and accept a set that MIXES classes). The NSEC3 verifiers do
// bind the class (prepared.qclass != q.Qclass => refuse), and so does the
// RFC 8198 evaluator, so this is an omission, not a design choice.
//
// It is reachable: DNSHandler.handle does not refuse non-IN classes, the
// resolver always fetches DS/DNSKEY in class IN (SetQuestion), and
// VerifyRRSIG happily validates the class-IN authority section of a reply to
// a class-CH question — see g3_e2e_test.go for the end-to-end run.
package dnssec

import (
	"testing"

	"github.com/miekg/dns"
)

func TestGenuineC02G3_NSECDenialIgnoresClass(t *testing.T) {
	parse := func(s string) dns.RR {
		rr, err := dns.NewRR(s)
		if err != nil {
			t.Fatalf("parse %q: %v", s, err)
		}
		return rr
	}
	in := []dns.RR{
		parse(`example. 300 IN NSEC www.example. NS SOA RRSIG NSEC DNSKEY`),
		parse(`www.example. 300 IN NSEC example. A RRSIG NSEC`),
	}

	nx := new(dns.Msg)
	nx.SetQuestion("foo.example.", dns.TypeA)
	nx.Question[0].Qclass = dns.ClassCHAOS
	nx.Rcode = dns.RcodeNameError
	if err := VerifyNameErrorNSEC(nx, in); err == nil {
		t.Errorf("class-IN NSEC records accepted as NXDOMAIN proof for a class-CH question")
	}

	nodata := new(dns.Msg)
	nodata.SetQuestion("www.example.", dns.TypeTXT)
	nodata.Question[0].Qclass = dns.ClassCHAOS
	if err := VerifyNODATANSEC(nodata, in); err == nil {
		t.Errorf("class-IN NSEC record accepted as NODATA proof for a class-CH question")
	}

	// A set mixing classes: cover of QNAME in IN, cover of the wildcard in CH.
	mixed := []dns.RR{
		parse(`www.example. 300 IN NSEC example. A RRSIG NSEC`),
		parse(`example. 300 CH NSEC www.example. NS SOA RRSIG NSEC DNSKEY`),
	}
	q := new(dns.Msg)
	q.SetQuestion("zzz.example.", dns.TypeA)
	q.Rcode = dns.RcodeNameError
	if err := VerifyNameErrorNSEC(q, mixed); err == nil {
		t.Errorf("an NSEC set mixing classes IN and CH was accepted as one NXDOMAIN proof")
	}
}
