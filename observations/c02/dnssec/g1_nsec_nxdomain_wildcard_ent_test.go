// GENUINE DEFECT G1 (present in the UNMODIFIED tree) — unit-level reproducer.
//
// Copy into: middleware/resolver/dnssec/   (package dnssec)
// Run:       go test -vet=off -count=1 -run 'TestGenuineC02G1' ./middleware/resolver/dnssec/
//
// VerifyNameErrorNSEC accepts NXDOMAIN for a name that exists via a wildcard
// whose owner is an EMPTY NON-TERMINAL. Zone example.:
//
//	example.      NSEC x.\*.example.  NS SOA RRSIG NSEC DNSKEY
//	x.*.example.  NSEC example.       A RRSIG NSEC
//
// "*.example." has no records but exists (RFC 4592 §2.2.2: it has a
// descendant), so it is the source of synthesis for foo.example. and the
// correct response is NOERROR/NODATA. The first NSEC "covers" *.example. only
// in the canonical-order sense — its next name lies BELOW *.example., which is
// exactly the ENT signature the function already checks for QNAME but not for
// the wildcard. The repository's own RFC 8198 evaluator gets it right (it
// answers NODATA), so the two validators disagree on genuine records.
package dnssec

import (
	"testing"

	"github.com/miekg/dns"
)

func genuineG1RR(t *testing.T, s string) dns.RR {
	t.Helper()
	rr, err := dns.NewRR(s)
	if err != nil {
		t.Fatalf("parse %q: %v", s, err)
	}
	return rr
}

func TestGenuineC02G1_NSECNameErrorAcceptedOverWildcardENT(t *testing.T) {
	chain := []dns.RR{
		genuineG1RR(t, `example. 300 IN NSEC x.\*.example. NS SOA RRSIG NSEC DNSKEY`),
		genuineG1RR(t, `x.\*.example. 300 IN NSEC example. A RRSIG NSEC`),
	}
	msg := new(dns.Msg)
	msg.SetQuestion("foo.example.", dns.TypeA)
	msg.Response = true
	msg.Rcode = dns.RcodeNameError

	// Ground truth according to the repository's stricter evaluator.
	res, err := EvaluateAggressiveNSEC(msg.Question[0], "example.", chain)
	if err != nil || res.Rcode != dns.RcodeSuccess {
		t.Fatalf("reference evaluator: rcode=%d err=%v, want NOERROR/NODATA (wildcard ENT)", res.Rcode, err)
	}

	if err := VerifyNameErrorNSEC(msg, chain); err == nil {
		t.Fatalf("VerifyNameErrorNSEC accepted NXDOMAIN for foo.example. although *.example. " +
			"exists as an empty non-terminal (x.*.example. is in the zone): the name matches a " +
			"wildcard and the only provable answer is NODATA")
	}
}
